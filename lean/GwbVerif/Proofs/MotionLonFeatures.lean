/-
C08 at the level of whole features: the QUERY is fixed (the library always sees the canonical longitude, `atan2`), the FEATURE is
re-described `k` full turns away in longitude (`lonTurns T k = ⟨2πk, 0⟩` added to every polygon coordinate, every node of every depth
surface, every ridge coordinate, every plume centre).  Everything here composes the kernel theorems of `MotionLon*.lean`
(`d := 2πk`, `p' := p`, `j := −k`); nothing is re-proved.
-/
import GwbVerif.Proofs.MotionLon
import GwbVerif.Proofs.MotionLonKernels
import GwbVerif.Proofs.MotionLonSurface
import GwbVerif.Model.World
import Mathlib.Tactic.Ring
import Mathlib.Tactic.Linarith
namespace Gwb
open Scalar
set_option linter.unusedSectionVars false

section field
variable {F : Type} [Field F] [LinearOrder F] [IsStrictOrderedRing F] (T : Transc F)

/-- `k` full turns in longitude, as a vector of the (lon, lat) plane -/
def lonTurns (k : ℤ) : P2 F := ⟨2 * T.pi * k, 0⟩

theorem turns_rel (x : F) (k : ℤ) : x = x + 2 * T.pi * (k : F) + 2 * T.pi * ((-k : ℤ) : F) := by
  push_cast; ring

/-! ### depth surfaces -/

/-- what the kernel theorem `Surface.localValue_lon_offset` needs of a (non-constant) depth surface at the query `p`, when the surface is
re-described `k` turns away and the query stays: stored constants those of `precompute`, kd-nodes refer to stored triangles, the
descriptions of the query that some triangle accepts are among the two the lookup tries (before and after), one value at the query -/
structure Surface.AliasOk (s : Surface F) (p : P2 F) (k : ℤ) : Prop where
  pre : @Surface.PreOk F (fieldScalar T) s
  nodes : s.NodesOk
  reach : SurfaceReach T s p p (2 * T.pi * k)
  single : Surface.SingleValuedAt T s p

theorem Surface.localValue_lon_alias (s : Surface F) (p : P2 F) (k : ℤ) (h : s.AliasOk T p k) :
    @Surface.localValue F (fieldScalar T) (s.shift T (lonTurns T k)) true p = @Surface.localValue F (fieldScalar T) s true p :=
  Surface.localValue_lon_offset T s h.pre h.nodes (2 * T.pi * k) p p (-k) (turns_rel T p.x k) rfl h.reach h.single

/-- `AliasOk` from ranges: canonical non-zero query longitude; every point a reachable triangle accepts has its longitude within
`[−2π, 2π]` before and after the re-description -/
theorem Surface.aliasOk_of_range (hπ : 0 < T.pi) (s : Surface F) (p : P2 F) (k : ℤ)
    (hpre : @Surface.PreOk F (fieldScalar T) s) (hok : s.NodesOk)
    (hlo : -T.pi < p.x) (hhi : p.x ≤ T.pi) (hne : p.x ≠ 0)
    (hrange : ∀ t, s.NodeTri t → ∀ q : P2 F, @Tri.Accepts F (fieldScalar T) t q →
      (-(2 * T.pi) ≤ q.x ∧ q.x ≤ 2 * T.pi) ∧ (-(2 * T.pi) ≤ q.x + 2 * T.pi * k ∧ q.x + 2 * T.pi * k ≤ 2 * T.pi))
    (hsv : Surface.SingleValuedAt T s p) : s.AliasOk T p k :=
  ⟨hpre, hok, surfaceReach_of_range T hπ s (2 * T.pi * k) p p (-k) hlo hhi hne hlo hhi hne (turns_rel T p.x k) rfl hrange, hsv⟩

/-- the idiom `constant ? bound : local_value(p)`: nothing is needed of a constant surface -/
theorem Surface.localOr_lon_alias (s : Surface F) (bound : F) (p : P2 F) (k : ℤ) (h : s.constant = false → s.AliasOk T p k) :
    @Surface.localOr F (fieldScalar T) (s.shift T (lonTurns T k)) bound true p = @Surface.localOr F (fieldScalar T) s bound true p := by
  unfold Surface.localOr
  have hc : (s.shift T (lonTurns T k)).constant = s.constant := rfl
  rw [hc]
  cases hs : s.constant with
  | true => rfl
  | false =>
    simp only [Bool.false_eq_true, if_false]
    exact Surface.localValue_lon_alias T s p k (h hs)

/-- both depth surfaces of a range -/
def DepthRange.AliasOk (r : DepthRange F) (p : P2 F) (k : ℤ) : Prop :=
  (r.minS.constant = false → r.minS.AliasOk T p k) ∧ (r.maxS.constant = false → r.maxS.AliasOk T p k)

theorem DepthRange.aliasOk_of_constant (r : DepthRange F) (p : P2 F) (k : ℤ) (h1 : r.minS.constant = true)
    (h2 : r.maxS.constant = true) : r.AliasOk T p k :=
  ⟨fun h => (by rw [h1] at h; cases h), fun h => (by rw [h2] at h; cases h)⟩

/-- the two-stage range test of the models (`DepthRange.locals`) does not see the re-description -/
theorem DepthRange.locals_lon_alias (r : DepthRange F) (ctx : Ctx F) (q : Query F) (lf : Bool) (k : ℤ)
    (hsph : ctx.coord.spherical = true) (h : r.AliasOk T (surfacePoint true q.nat) k) :
    @DepthRange.locals F (fieldScalar T) (r.shift T (lonTurns T k)) ctx q lf = @DepthRange.locals F (fieldScalar T) r ctx q lf := by
  unfold DepthRange.locals
  have e1 : (r.shift T (lonTurns T k)).maxDepth = r.maxDepth := rfl
  have e2 : (r.shift T (lonTurns T k)).minDepth = r.minDepth := rfl
  have e3 : (r.shift T (lonTurns T k)).minS = r.minS.shift T (lonTurns T k) := rfl
  have e4 : (r.shift T (lonTurns T k)).maxS = r.maxS.shift T (lonTurns T k) := rfl
  simp only [hsph, e1, e2, e3, e4, Surface.localOr_lon_alias T _ _ _ k h.1, Surface.localOr_lon_alias T _ _ _ k h.2]

/-! ### area features: the guard -/

/-- the hypotheses of the polygon kernel theorem (`polygonContains_lon_offset_general`) for a fixed canonical query `p` and the footprint
re-described `k` turns away: `p.x ∈ (−π, π]`, `p.x ≠ 0`; footprint within `[−2π, 2π]` in both descriptions; tolerances exact for
every description of the query, in both descriptions of the footprint -/
structure PolygonAliasOk (pts : List (P2 F)) (p : P2 F) (k : ℤ) : Prop where
  lo : -T.pi < p.x
  hi : p.x ≤ T.pi
  ne : p.x ≠ 0
  range : ∀ v ∈ pts, -(2 * T.pi) ≤ v.x ∧ v.x ≤ 2 * T.pi
  range' : ∀ v ∈ pts, -(2 * T.pi) ≤ v.x + 2 * T.pi * k ∧ v.x + 2 * T.pi * k ≤ 2 * T.pi
  sep : ∀ j : ℤ, Separated T pts ⟨p.x + 2 * T.pi * j, p.y⟩
  sep' : ∀ j : ℤ, Separated T (pts.map (P2.shift (lonTurns T k))) ⟨p.x + 2 * T.pi * j, p.y⟩

theorem polygonContains_lon_alias (hπ : 0 < T.pi) (pts : List (P2 F)) (p : P2 F) (k : ℤ) (h : PolygonAliasOk T pts p k) :
    @polygonContains F (fieldScalar T) true (pts.map (P2.shift (lonTurns T k))) p = @polygonContains F (fieldScalar T) true pts p :=
  polygonContains_lon_offset_general T hπ pts (2 * T.pi * k) p p (-k) h.lo h.hi h.ne h.lo h.hi h.ne (turns_rel T p.x k) rfl
    h.range h.range' h.sep h.sep'

/-- **the guard of an area feature** (polygon and both depth surfaces re-described `k` turns away; the query is the same) -/
theorem AreaFeature.covers_lon_alias (hπ : 0 < T.pi) (f : AreaFeature F) (ctx : Ctx F) (q : Query F) (k : ℤ)
    (hsph : ctx.coord.spherical = true)
    (hpoly : PolygonAliasOk T f.coords (surfacePoint true q.nat) k)
    (hrng : f.rng.AliasOk T (surfacePoint true q.nat) k) :
    @AreaFeature.covers F (fieldScalar T) (f.shift T (lonTurns T k)) ctx q = @AreaFeature.covers F (fieldScalar T) f ctx q := by
  unfold AreaFeature.covers
  have e1 : (f.shift T (lonTurns T k)).rng.maxDepth = f.rng.maxDepth := rfl
  have e2 : (f.shift T (lonTurns T k)).rng.minDepth = f.rng.minDepth := rfl
  have e3 : (f.shift T (lonTurns T k)).coords = f.coords.map (P2.shift (lonTurns T k)) := rfl
  have e4 : (f.shift T (lonTurns T k)).rng.minS = f.rng.minS.shift T (lonTurns T k) := rfl
  have e5 : (f.shift T (lonTurns T k)).rng.maxS = f.rng.maxS.shift T (lonTurns T k) := rfl
  simp only [hsph, e1, e2, e3, e4, e5, polygonContains_lon_alias T hπ _ _ k hpoly,
    Surface.localOr_lon_alias T _ _ _ k hrng.1, Surface.localOr_lon_alias T _ _ _ k hrng.2]

/-! ### the models: what they hold in coordinates (depth surfaces of their own; the ridge of `half space` / `plate model`) -/

/-- the ridge kernel, same query, ridge re-described `k` turns away (from `ridgeDistanceAndSpreading_lon_offset`, `L' := L`) -/
theorem ridge_lon_alias (hπ : 0 < T.pi) (hP : PeriodLaws T) (hA : AngleAddLaws T) (nat : P3 F) (k : ℤ)
    (ridges : List (List (P2 F))) (vels subVel : List (List F)) (migr : List F)
    (h : RidgeReach T ⟨nat.y, nat.z⟩ ⟨nat.y, nat.z⟩ (2 * T.pi * k) ridges) :
    @ridgeDistanceAndSpreading F (fieldScalar T) true (ridges.map (List.map (P2.shift (lonTurns T k)))) vels nat subVel migr =
      @ridgeDistanceAndSpreading F (fieldScalar T) true ridges vels nat subVel migr :=
  ridgeDistanceAndSpreading_lon_offset T hπ hP hA (2 * T.pi * k) nat nat.y (-k) (turns_rel T nat.y k) ridges vels subVel migr h

/-- the longitudes a canonical query longitude reaches with the two descriptions the ridge kernel tries (`lonReach_of_range`):
`(−π, 2π]` for a negative, `[−2π, π)` for a non-negative query longitude -/
def LonInReach (p : P2 F) (m : F) : Prop := (p.x < 0 ∧ -T.pi < m ∧ m ≤ 2 * T.pi) ∨ (0 ≤ p.x ∧ -(2 * T.pi) ≤ m ∧ m < T.pi)

theorem lonInReach_mid (p : P2 F) (a b : F) (ha : LonInReach T p a) (hb : LonInReach T p b) : LonInReach T p (1 / 2 * (a + b)) := by
  rcases ha with ⟨h, a1, a2⟩ | ⟨h, a1, a2⟩ <;> rcases hb with ⟨h', b1, b2⟩ | ⟨h', b1, b2⟩
  · exact Or.inl ⟨h, by linarith, by linarith⟩
  · exact absurd h (not_lt.mpr h')
  · exact absurd h' (not_lt.mpr h)
  · exact Or.inr ⟨h, by linarith, by linarith⟩

/-- `RidgeReach` (same query, ridge `k` turns away) from ranges: canonical query longitude, every ridge vertex longitude within the
reach of the query in both descriptions, no description of the query exactly `π` from a segment's mid longitude or a ridge's first
point -/
theorem ridgeReach_of_range (p : P2 F) (k : ℤ) (ridges : List (List (P2 F))) (hlo : -T.pi < p.x) (hhi : p.x ≤ T.pi)
    (hr : ∀ ridge ∈ ridges, ∀ v ∈ ridge, LonInReach T p v.x ∧ LonInReach T p (v.x + 2 * T.pi * k))
    (hnt : ∀ ridge ∈ ridges, ∀ (i : Nat) (s0 s1 : P2 F), ridge[i]? = some s0 → ridge[i + 1]? = some s1 →
      ∀ j : ℤ, |p.x + 2 * T.pi * j - 1 / 2 * (s0.x + s1.x)| ≠ T.pi)
    (hnt' : ∀ ridge ∈ ridges, ∀ t0 : P2 F, ridge[0]? = some t0 → ∀ j : ℤ, |p.x + 2 * T.pi * j - t0.x| ≠ T.pi) :
    RidgeReach T p p (2 * T.pi * k) ridges := by
  have shiftNt : ∀ m : F, (∀ j : ℤ, |p.x + 2 * T.pi * j - m| ≠ T.pi) → ∀ j : ℤ, |p.x + 2 * T.pi * j - (m + 2 * T.pi * k)| ≠ T.pi := by
    intro m h j
    have := h (j - k)
    have e : p.x + 2 * T.pi * ((j - k : ℤ) : F) - m = p.x + 2 * T.pi * j - (m + 2 * T.pi * k) := by push_cast; ring
    rw [e] at this
    exact this
  constructor
  · intro ridge hridge i s0 s1 h0 h1
    obtain ⟨a0, a0'⟩ := hr ridge hridge s0 (List.mem_of_getElem? h0)
    obtain ⟨a1, a1'⟩ := hr ridge hridge s1 (List.mem_of_getElem? h1)
    have hn := hnt ridge hridge i s0 s1 h0 h1
    refine ⟨lonReach_of_range T p _ hlo hhi (lonInReach_mid T p _ _ a0 a1) hn, ?_⟩
    have e : 1 / 2 * (s0.x + s1.x) + 2 * T.pi * k = 1 / 2 * ((s0.x + 2 * T.pi * k) + (s1.x + 2 * T.pi * k)) := by ring
    refine lonReach_of_range T p _ hlo hhi ?_ (shiftNt _ hn)
    rw [e]
    exact lonInReach_mid T p _ _ a0' a1'
  · intro i r t0 hr0 h0
    have hmem : r ∈ ridges := List.mem_of_getElem? hr0
    obtain ⟨a0, a0'⟩ := hr r hmem t0 (List.mem_of_getElem? h0)
    have hn := hnt' r hmem t0 h0
    exact ⟨lonReach_of_range T p _ hlo hhi a0 hn, lonReach_of_range T p _ hlo hhi a0' (shiftNt _ hn)⟩

def RidgeSpec.lonShift (k : ℤ) (r : RidgeSpec F) : RidgeSpec F :=
  { r with ridges := r.ridges.map (List.map (P2.shift (lonTurns T k))) }

/-- the temperature model with its depth surfaces re-described `kS` turns away and its ridge (if it has one) `kR` turns away -/
noncomputable def TempModel.lonShift (kS kR : ℤ) : TempModel F → TempModel F
  | .uniform rng op t lf => .uniform (rng.shift T (lonTurns T kS)) op t lf
  | .linear rng op top bottom => .linear (rng.shift T (lonTurns T kS)) op top bottom
  | .adiabatic rng op tp alpha cp => .adiabatic (rng.shift T (lonTurns T kS)) op tp alpha cp
  | .chapman rng op top flux k heat => .chapman (rng.shift T (lonTurns T kS)) op top flux k heat
  | .halfSpace rng op top bottom ridge => .halfSpace (rng.shift T (lonTurns T kS)) op top bottom (ridge.lonShift T kR)
  | .plateModel rng op top bottom ridge => .plateModel (rng.shift T (lonTurns T kS)) op top bottom (ridge.lonShift T kR)
  | .plateModelConstantAge rng op top bottom age => .plateModelConstantAge (rng.shift T (lonTurns T kS)) op top bottom age
  | .gaussian op depths centerT sigmas => .gaussian op depths centerT sigmas

/-- the ridge hypothesis of a ridge-based model at the query: `RidgeReach` (kernel theorem `C08_ridge_lon_offset`) at the surface point the
model hands to the kernel (`position_in_natural_coordinates_at_min_depth`), same query before and after -/
def RidgeSpec.AliasOk (rg : RidgeSpec F) (ctx : Ctx F) (q : Query F) (minDepth : F) (k : ℤ) : Prop :=
  RidgeReach T ⟨(@natAtMinDepth F (fieldScalar T) ctx q minDepth).y, (@natAtMinDepth F (fieldScalar T) ctx q minDepth).z⟩
    ⟨(@natAtMinDepth F (fieldScalar T) ctx q minDepth).y, (@natAtMinDepth F (fieldScalar T) ctx q minDepth).z⟩ (2 * T.pi * k) rg.ridges

/-- what the kernel theorems need of one temperature model -/
def TempModel.AliasOk (ctx : Ctx F) (q : Query F) (kS kR : ℤ) : TempModel F → Prop
  | .uniform rng _ _ _ => rng.AliasOk T (surfacePoint true q.nat) kS
  | .linear rng _ _ _ => rng.AliasOk T (surfacePoint true q.nat) kS
  | .adiabatic rng _ _ _ _ => rng.AliasOk T (surfacePoint true q.nat) kS
  | .chapman rng _ _ _ _ _ => rng.AliasOk T (surfacePoint true q.nat) kS
  | .halfSpace rng _ _ _ ridge => rng.AliasOk T (surfacePoint true q.nat) kS ∧ ridge.AliasOk T ctx q rng.minDepth kR
  | .plateModel rng _ _ _ ridge => rng.AliasOk T (surfacePoint true q.nat) kS ∧ ridge.AliasOk T ctx q rng.minDepth kR
  | .plateModelConstantAge rng _ _ _ _ => rng.AliasOk T (surfacePoint true q.nat) kS
  | .gaussian _ _ _ _ => True

/-- **one temperature model**: depth surfaces `kS` turns away, ridge `kR` turns away (independently), same query: same answer -/
theorem TempModel.get_lon_alias (hπ : 0 < T.pi) (hP : PeriodLaws T) (hA : AngleAddLaws T) (m : TempModel F) (ctx : Ctx F) (q : Query F)
    (kS kR : ℤ) (hsph : ctx.coord.spherical = true) (h : m.AliasOk T ctx q kS kR) (old fMin fMax rel : F) :
    @TempModel.get F (fieldScalar T) (m.lonShift T kS kR) ctx q old fMin fMax rel =
      @TempModel.get F (fieldScalar T) m ctx q old fMin fMax rel := by
  cases m with
  | gaussian op depths centerT sigmas => rfl
  | uniform rng op t lf =>
    simp only [TempModel.lonShift, TempModel.get, DepthRange.locals_lon_alias T rng ctx q _ kS hsph h]
  | linear rng op top bottom =>
    simp only [TempModel.lonShift, TempModel.get, DepthRange.locals_lon_alias T rng ctx q _ kS hsph h]
  | adiabatic rng op tp alpha cp =>
    simp only [TempModel.lonShift, TempModel.get, DepthRange.locals_lon_alias T rng ctx q _ kS hsph h]
  | chapman rng op top flux k heat =>
    simp only [TempModel.lonShift, TempModel.get, DepthRange.locals_lon_alias T rng ctx q _ kS hsph h]
  | plateModelConstantAge rng op top bottom age =>
    have e1 : (rng.shift T (lonTurns T kS)).maxDepth = rng.maxDepth := rfl
    simp only [TempModel.lonShift, TempModel.get, DepthRange.locals_lon_alias T rng ctx q _ kS hsph h, e1]
  | halfSpace rng op top bottom ridge =>
    have e2 : (rng.shift T (lonTurns T kS)).minDepth = rng.minDepth := rfl
    have hr := fun sv mg => ridge_lon_alias T hπ hP hA (@natAtMinDepth F (fieldScalar T) ctx q rng.minDepth) kR ridge.ridges ridge.vels
      sv mg h.2
    simp only [TempModel.lonShift, TempModel.get, DepthRange.locals_lon_alias T rng ctx q _ kS hsph h.1, e2, RidgeSpec.lonShift,
      hsph, hr]
  | plateModel rng op top bottom ridge =>
    have e1 : (rng.shift T (lonTurns T kS)).maxDepth = rng.maxDepth := rfl
    have e2 : (rng.shift T (lonTurns T kS)).minDepth = rng.minDepth := rfl
    have hr := fun sv mg => ridge_lon_alias T hπ hP hA (@natAtMinDepth F (fieldScalar T) ctx q rng.minDepth) kR ridge.ridges ridge.vels
      sv mg h.2
    simp only [TempModel.lonShift, TempModel.get, DepthRange.locals_lon_alias T rng ctx q _ kS hsph h.1, e1, e2, RidgeSpec.lonShift,
      hsph, hr]

/-! #### composition, velocity and grains models: they hold depth surfaces only -/

noncomputable def CompModel.lonShift (k : ℤ) : CompModel F → CompModel F
  | .uniform rng op comps fr => .uniform (rng.shift T (lonTurns T k)) op comps fr
  | .random rng op comps a b => .random (rng.shift T (lonTurns T k)) op comps a b
  | .tianWater rng op comps spec => .tianWater (rng.shift T (lonTurns T k)) op comps spec

def CompModel.rng : CompModel F → DepthRange F
  | .uniform rng _ _ _ => rng
  | .random rng _ _ _ _ => rng
  | .tianWater rng _ _ _ => rng

theorem CompModel.get_lon_alias {G : Type} [@RandGen G F] (m : CompModel F) (ctx : Ctx F) (q : Query F) (k : ℤ)
    (hsph : ctx.coord.spherical = true) (h : m.rng.AliasOk T (surfacePoint true q.nat) k) (n : Nat) (old : F) :
    @CompModel.get F (fieldScalar T) G _ (m.lonShift T k) ctx q n old = @CompModel.get F (fieldScalar T) G _ m ctx q n old := by
  cases m with
  | uniform rng op comps fr =>
    simp only [CompModel.lonShift, CompModel.get, DepthRange.locals_lon_alias T rng ctx q _ k hsph h]
  | random rng op comps a b =>
    simp only [CompModel.lonShift, CompModel.get, DepthRange.locals_lon_alias T rng ctx q _ k hsph h]
  | tianWater rng op comps spec =>
    simp only [CompModel.lonShift, CompModel.get, DepthRange.locals_lon_alias T rng ctx q _ k hsph h]

noncomputable def VelModel.lonShift (k : ℤ) : VelModel F → VelModel F
  | .uniformRaw rng op v lf => .uniformRaw (rng.shift T (lonTurns T k)) op v lf

def VelModel.rng : VelModel F → DepthRange F
  | .uniformRaw rng _ _ _ => rng

theorem VelModel.get_lon_alias (m : VelModel F) (ctx : Ctx F) (q : Query F) (k : ℤ)
    (hsph : ctx.coord.spherical = true) (h : m.rng.AliasOk T (surfacePoint true q.nat) k) (old : P3 F) :
    @VelModel.get F (fieldScalar T) (m.lonShift T k) ctx q old = @VelModel.get F (fieldScalar T) m ctx q old := by
  cases m with
  | uniformRaw rng op v lf =>
    simp only [VelModel.lonShift, VelModel.get, DepthRange.locals_lon_alias T rng ctx q _ k hsph h]

noncomputable def GrainsModel.lonShift (k : ℤ) : GrainsModel F → GrainsModel F
  | .uniform rng comps mats sizes => .uniform (rng.shift T (lonTurns T k)) comps mats sizes
  | .randomUniform rng comps sizes nz => .randomUniform (rng.shift T (lonTurns T k)) comps sizes nz
  | .randomUniformDeflected rng comps basis sizes nz defl =>
    .randomUniformDeflected (rng.shift T (lonTurns T k)) comps basis sizes nz defl

def GrainsModel.rng : GrainsModel F → DepthRange F
  | .uniform rng _ _ _ => rng
  | .randomUniform rng _ _ _ => rng
  | .randomUniformDeflected rng _ _ _ _ _ => rng

theorem GrainsModel.get_lon_alias {G : Type} [@RandGen G F] (m : GrainsModel F) (ctx : Ctx F) (q : Query F) (k : ℤ)
    (hsph : ctx.coord.spherical = true) (h : m.rng.AliasOk T (surfacePoint true q.nat) k) (n : Nat) (old : Grains F) :
    @GrainsModel.get F (fieldScalar T) G _ (m.lonShift T k) ctx q n old = @GrainsModel.get F (fieldScalar T) G _ m ctx q n old := by
  cases m with
  | uniform rng comps mats sizes =>
    simp only [GrainsModel.lonShift, GrainsModel.get, DepthRange.locals_lon_alias T rng ctx q _ k hsph h]
  | randomUniform rng comps sizes nz =>
    simp only [GrainsModel.lonShift, GrainsModel.get, DepthRange.locals_lon_alias T rng ctx q _ k hsph h]
  | randomUniformDeflected rng comps basis sizes nz defl =>
    simp only [GrainsModel.lonShift, GrainsModel.get, DepthRange.locals_lon_alias T rng ctx q _ k hsph h]

end field

/-! ### folds over model lists -/

theorem foldlM_forall₂_congr {M : Type → Type} [Monad M] {α β : Type} (f : α → β → M α) :
    ∀ (l' l : List β), List.Forall₂ (fun b' b => ∀ a, f a b' = f a b) l' l → ∀ init : α, l'.foldlM f init = l.foldlM f init
  | _, _, .nil, _ => rfl
  | _, _, .cons h t, init => by
    simp only [List.foldlM_cons]
    rw [h init]
    congr 1
    funext x
    exact foldlM_forall₂_congr f _ _ t x

theorem foldlM_map_congr {M : Type → Type} [Monad M] {α β : Type} (g : β → β) (f : α → β → M α) (l : List β)
    (h : ∀ b ∈ l, ∀ a, f a (g b) = f a b) (init : α) : (l.map g).foldlM f init = l.foldlM f init := by
  induction l generalizing init with
  | nil => rfl
  | cons b l ih =>
    simp only [List.map_cons, List.foldlM_cons]
    rw [h b List.mem_cons_self]
    congr 1
    funext x
    exact ih (fun b hb => h b (List.mem_cons_of_mem _ hb)) x

section field
variable {F : Type} [Field F] [LinearOrder F] [IsStrictOrderedRing F] (T : Transc F)

/-! ### area features: temperature entry, every property -/

/-- all four model lists re-described `k` turns away (depth surfaces and ridges) -/
noncomputable def Models.lonShift (k : ℤ) (ms : Models F) : Models F :=
  { temps := ms.temps.map (TempModel.lonShift T k k), vels := ms.vels.map (VelModel.lonShift T k),
    comps := ms.comps.map (CompModel.lonShift T k), grains := ms.grains.map (GrainsModel.lonShift T k) }

/-- the area feature written `k` turns away: polygon, its depth surfaces, and every coordinate its models hold -/
noncomputable def AreaFeature.lonShift (k : ℤ) (f : AreaFeature F) : AreaFeature F :=
  { f.shift T (lonTurns T k) with models := f.models.lonShift T k }

/-- hypotheses on all models of a feature at the query (only needed where the guard lets the query through) -/
structure Models.AliasOk (ms : Models F) (ctx : Ctx F) (q : Query F) (k : ℤ) : Prop where
  temps : ∀ m ∈ ms.temps, m.AliasOk T ctx q k k
  vels : ∀ m ∈ ms.vels, m.rng.AliasOk T (surfacePoint true q.nat) k
  comps : ∀ m ∈ ms.comps, m.rng.AliasOk T (surfacePoint true q.nat) k
  grains : ∀ m ∈ ms.grains, m.rng.AliasOk T (surfacePoint true q.nat) k

theorem temps_foldlM_lon_alias (hπ : 0 < T.pi) (hP : PeriodLaws T) (hA : AngleAddLaws T) (ms : List (TempModel F)) (ctx : Ctx F)
    (q : Query F) (k : ℤ) (hsph : ctx.coord.spherical = true) (h : ∀ m ∈ ms, m.AliasOk T ctx q k k) (mn mx rel old : F) :
    (ms.map (TempModel.lonShift T k k)).foldlM (fun t m => @TempModel.get F (fieldScalar T) m ctx q t mn mx rel) old =
      ms.foldlM (fun t m => @TempModel.get F (fieldScalar T) m ctx q t mn mx rel) old :=
  foldlM_map_congr _ _ ms (fun m hm t => TempModel.get_lon_alias T hπ hP hA m ctx q k k hsph (h m hm) t mn mx rel) old

/-- independent descriptions: each model of the second list is a model of the first with its surfaces `kS` and its ridge `kR` turns
away, `kS`, `kR` chosen per model -/
def TempsAlias (ctx : Ctx F) (q : Query F) (ms' ms : List (TempModel F)) : Prop :=
  List.Forall₂ (fun m' m => ∃ kS kR : ℤ, m' = m.lonShift T kS kR ∧ m.AliasOk T ctx q kS kR) ms' ms

theorem temps_foldlM_lon_alias_indep (hπ : 0 < T.pi) (hP : PeriodLaws T) (hA : AngleAddLaws T) (ms' ms : List (TempModel F))
    (ctx : Ctx F) (q : Query F) (hsph : ctx.coord.spherical = true) (h : TempsAlias T ctx q ms' ms) (mn mx rel old : F) :
    ms'.foldlM (fun t m => @TempModel.get F (fieldScalar T) m ctx q t mn mx rel) old =
      ms.foldlM (fun t m => @TempModel.get F (fieldScalar T) m ctx q t mn mx rel) old := by
  refine foldlM_forall₂_congr _ ms' ms ?_ old
  refine List.Forall₂.imp ?_ h
  rintro m' m ⟨kS, kR, rfl, hm⟩ t
  exact TempModel.get_lon_alias T hπ hP hA m ctx q kS kR hsph hm t mn mx rel

/-- **`AreaFeature.applyTemp`**, the feature and everything its temperature models hold written `k` turns away -/
theorem AreaFeature.applyTemp_lon_alias (hπ : 0 < T.pi) (hP : PeriodLaws T) (hA : AngleAddLaws T) (f : AreaFeature F) (ctx : Ctx F)
    (q : Query F) (k : ℤ) (hsph : ctx.coord.spherical = true)
    (hpoly : PolygonAliasOk T f.coords (surfacePoint true q.nat) k) (hrng : f.rng.AliasOk T (surfacePoint true q.nat) k)
    (hm : ∀ m ∈ f.models.temps, m.AliasOk T ctx q k k) (old : F) :
    @AreaFeature.applyTemp F (fieldScalar T) (f.lonShift T k) ctx q old = @AreaFeature.applyTemp F (fieldScalar T) f ctx q old := by
  unfold AreaFeature.applyTemp
  have e1 : @AreaFeature.covers F (fieldScalar T) (f.lonShift T k) ctx q =
      @AreaFeature.covers F (fieldScalar T) (f.shift T (lonTurns T k)) ctx q := rfl
  have e2 : (f.lonShift T k).models.temps = f.models.temps.map (TempModel.lonShift T k k) := rfl
  rw [e1, AreaFeature.covers_lon_alias T hπ f ctx q k hsph hpoly hrng, e2]
  simp only [temps_foldlM_lon_alias T hπ hP hA f.models.temps ctx q k hsph hm]

/-- the guard, polygon `kP` turns away and the feature's depth surfaces `kF` turns away, independently -/
theorem AreaFeature.covers_lon_alias_indep (hπ : 0 < T.pi) (f f' : AreaFeature F) (ctx : Ctx F) (q : Query F) (kP kF : ℤ)
    (hsph : ctx.coord.spherical = true)
    (hcoords : f'.coords = f.coords.map (P2.shift (lonTurns T kP))) (hr : f'.rng = f.rng.shift T (lonTurns T kF))
    (hpoly : PolygonAliasOk T f.coords (surfacePoint true q.nat) kP) (hrng : f.rng.AliasOk T (surfacePoint true q.nat) kF) :
    @AreaFeature.covers F (fieldScalar T) f' ctx q = @AreaFeature.covers F (fieldScalar T) f ctx q := by
  unfold AreaFeature.covers
  have e1 : (f.rng.shift T (lonTurns T kF)).maxDepth = f.rng.maxDepth := rfl
  have e2 : (f.rng.shift T (lonTurns T kF)).minDepth = f.rng.minDepth := rfl
  have e4 : (f.rng.shift T (lonTurns T kF)).minS = f.rng.minS.shift T (lonTurns T kF) := rfl
  have e5 : (f.rng.shift T (lonTurns T kF)).maxS = f.rng.maxS.shift T (lonTurns T kF) := rfl
  simp only [hsph, hcoords, hr, e1, e2, e4, e5, polygonContains_lon_alias T hπ _ _ kP hpoly,
    Surface.localOr_lon_alias T _ _ _ kF hrng.1, Surface.localOr_lon_alias T _ _ _ kF hrng.2]

/-- **`AreaFeature.applyTemp`, independent descriptions**: polygon `kP` turns away, the feature's depth surfaces `kF`, each temperature
model's surfaces and ridge by amounts of their own -/
theorem AreaFeature.applyTemp_lon_alias_indep (hπ : 0 < T.pi) (hP : PeriodLaws T) (hA : AngleAddLaws T) (f f' : AreaFeature F)
    (ctx : Ctx F) (q : Query F) (kP kF : ℤ) (hsph : ctx.coord.spherical = true)
    (hcoords : f'.coords = f.coords.map (P2.shift (lonTurns T kP))) (hr : f'.rng = f.rng.shift T (lonTurns T kF))
    (hpoly : PolygonAliasOk T f.coords (surfacePoint true q.nat) kP) (hrng : f.rng.AliasOk T (surfacePoint true q.nat) kF)
    (hm : TempsAlias T ctx q f'.models.temps f.models.temps) (old : F) :
    @AreaFeature.applyTemp F (fieldScalar T) f' ctx q old = @AreaFeature.applyTemp F (fieldScalar T) f ctx q old := by
  unfold AreaFeature.applyTemp
  rw [AreaFeature.covers_lon_alias_indep T hπ f f' ctx q kP kF hsph hcoords hr hpoly hrng]
  simp only [temps_foldlM_lon_alias_indep T hπ hP hA _ _ ctx q hsph hm]

/-! #### every property: the per-property switch -/

theorem paintAt_lon_alias {G : Type} [@RandGen G F] (hπ : 0 < T.pi) (hP : PeriodLaws T) (hA : AngleAddLaws T) (tag : Nat)
    (ms : Models F) (ctx : Ctx F) (q : Query F) (k : ℤ) (hsph : ctx.coord.spherical = true) (h : ms.AliasOk T ctx q k)
    (fMin fMax rel : F) (p : Req) (e : Nat) (out : List F) :
    @paintAt F (fieldScalar T) G _ tag (ms.lonShift T k) ctx q fMin fMax rel p e out =
      @paintAt F (fieldScalar T) G _ tag ms ctx q fMin fMax rel p e out := by
  have et : (ms.lonShift T k).temps = ms.temps.map (TempModel.lonShift T k k) := rfl
  have ev : (ms.lonShift T k).vels = ms.vels.map (VelModel.lonShift T k) := rfl
  have ec : (ms.lonShift T k).comps = ms.comps.map (CompModel.lonShift T k) := rfl
  have eg : (ms.lonShift T k).grains = ms.grains.map (GrainsModel.lonShift T k) := rfl
  have ht := fun old => temps_foldlM_lon_alias T hπ hP hA ms.temps ctx q k hsph h.temps fMin fMax rel old
  have hv := fun old => foldlM_map_congr (VelModel.lonShift T k) (fun v m => @VelModel.get F (fieldScalar T) m ctx q v) ms.vels
    (fun m hm v => VelModel.get_lon_alias T m ctx q k hsph (h.vels m hm) v) old
  have hc := fun old => foldlM_map_congr (CompModel.lonShift T k) (fun c m => @CompModel.get F (fieldScalar T) G _ m ctx q p.n c) ms.comps
    (fun m hm c => CompModel.get_lon_alias T m ctx q k hsph (h.comps m hm) p.n c) old
  have hg := fun old => foldlM_map_congr (GrainsModel.lonShift T k) (fun g m => @GrainsModel.get F (fieldScalar T) G _ m ctx q p.n g)
    ms.grains (fun m hm g => GrainsModel.get_lon_alias T m ctx q k hsph (h.grains m hm) p.n g) old
  unfold paintAt
  simp only [et, ev, ec, eg, ht, hv, hc, hg]

theorem paintAll_lon_alias {G : Type} [@RandGen G F] (hπ : 0 < T.pi) (hP : PeriodLaws T) (hA : AngleAddLaws T) (tag : Nat)
    (ms : Models F) (ctx : Ctx F) (q : Query F) (k : ℤ) (hsph : ctx.coord.spherical = true) (h : ms.AliasOk T ctx q k)
    (fMin fMax rel : F) (pes : List (Req × Nat)) (out : List F) :
    @paintAll F (fieldScalar T) G _ tag (ms.lonShift T k) ctx q fMin fMax rel pes out =
      @paintAll F (fieldScalar T) G _ tag ms ctx q fMin fMax rel pes out := by
  unfold paintAll
  simp only [paintAt_lon_alias T hπ hP hA tag ms ctx q k hsph h]

/-- **`AreaFeature.apply`** (every property, random draws included: the state of the generator is threaded identically) -/
theorem AreaFeature.apply_lon_alias {G : Type} [@RandGen G F] (hπ : 0 < T.pi) (hP : PeriodLaws T) (hA : AngleAddLaws T)
    (f : AreaFeature F) (ctx : Ctx F) (q : Query F) (k : ℤ) (hsph : ctx.coord.spherical = true)
    (hpoly : PolygonAliasOk T f.coords (surfacePoint true q.nat) k) (hrng : f.rng.AliasOk T (surfacePoint true q.nat) k)
    (hm : f.models.AliasOk T ctx q k) (pes : List (Req × Nat)) (out : List F) :
    @AreaFeature.apply F (fieldScalar T) G _ (f.lonShift T k) ctx q pes out = @AreaFeature.apply F (fieldScalar T) G _ f ctx q pes out := by
  unfold AreaFeature.apply
  have e1 : @AreaFeature.covers F (fieldScalar T) (f.lonShift T k) ctx q =
      @AreaFeature.covers F (fieldScalar T) (f.shift T (lonTurns T k)) ctx q := rfl
  have e2 : (f.lonShift T k).models = f.models.lonShift T k := rfl
  have e3 : (f.lonShift T k).tag = f.tag := rfl
  rw [e1, AreaFeature.covers_lon_alias T hπ f ctx q k hsph hpoly hrng, e2, e3]
  simp only [paintAll_lon_alias T hπ hP hA f.tag f.models ctx q k hsph hm]

/-! ### plume -/

/-- the plume written `k` turns away: every cross-section centre, and every coordinate its models hold -/
noncomputable def PlumeFeature.lonShift (k : ℤ) (f : PlumeFeature F) : PlumeFeature F :=
  { f.shift (lonTurns T k) with models := f.models.lonShift T k }

/-- hypotheses of the plume kernel theorem (`PlumeFeature.covers_lon_offset_sel`) on the centre used at the query depth: both
descriptions of it at most `3π` from the query longitude, no description of the query exactly `π` away -/
def PlumeFeature.AliasOk (f : PlumeFeature F) (q : Query F) (k : ℤ) : Prop :=
  ∀ up d0 sel, @upperBound F (fieldScalar T) f.depths q.depth (f.depths.length + 1) 0 f.depths.length = .ok up →
    @plumeSelect F (fieldScalar T) f q.depth d0 up = .ok sel →
    |q.nat.y - sel.1.x| ≤ 3 * T.pi ∧ |q.nat.y - (sel.1.x + 2 * T.pi * k)| ≤ 3 * T.pi ∧
      ∀ j : ℤ, |q.nat.y + 2 * T.pi * j - sel.1.x| ≠ T.pi

theorem PlumeFeature.covers_lon_alias (hπ : 0 < T.pi) (f : PlumeFeature F) (ctx : Ctx F) (q : Query F) (k : ℤ)
    (hsph : ctx.coord.spherical = true) (h : f.AliasOk T q k) :
    @PlumeFeature.covers F (fieldScalar T) (f.shift (lonTurns T k)) ctx q = @PlumeFeature.covers F (fieldScalar T) f ctx q :=
  PlumeFeature.covers_lon_offset_sel T hπ f (2 * T.pi * k) ctx q q (-k) hsph rfl (turns_rel T q.nat.y k) rfl h

/-- `AliasOk` from ranges (`PlumeFeature.covers_lon_offset`): canonical query longitude, centres within `[−2π, 2π]` in both
descriptions, ascending depths, no tie -/
theorem PlumeFeature.covers_lon_alias_of_range (hπ : 0 < T.pi) (f : PlumeFeature F) (ctx : Ctx F) (q : Query F) (k : ℤ)
    (hsph : ctx.coord.spherical = true) (hlo : -T.pi < q.nat.y) (hhi : q.nat.y ≤ T.pi) (hasc : Ascending f.depths)
    (hrange : ∀ c ∈ f.coords, -(2 * T.pi) ≤ c.x ∧ c.x ≤ 2 * T.pi)
    (hrange' : ∀ c ∈ f.coords, -(2 * T.pi) ≤ c.x + 2 * T.pi * k ∧ c.x + 2 * T.pi * k ≤ 2 * T.pi)
    (hnt : ∀ up d0 sel, @plumeSelect F (fieldScalar T) f q.depth d0 up = .ok sel →
      ∀ j : ℤ, |q.nat.y + 2 * T.pi * j - sel.1.x| ≠ T.pi) :
    @PlumeFeature.covers F (fieldScalar T) (f.shift (lonTurns T k)) ctx q = @PlumeFeature.covers F (fieldScalar T) f ctx q :=
  PlumeFeature.covers_lon_offset T hπ f (2 * T.pi * k) ctx q q (-k) hsph rfl hlo hhi hlo hhi (turns_rel T q.nat.y k) rfl hasc
    hrange hrange' hnt

theorem PlumeFeature.applyTemp_lon_alias (hπ : 0 < T.pi) (hP : PeriodLaws T) (hA : AngleAddLaws T) (f : PlumeFeature F) (ctx : Ctx F)
    (q : Query F) (k : ℤ) (hsph : ctx.coord.spherical = true) (h : f.AliasOk T q k)
    (hm : ∀ m ∈ f.models.temps, m.AliasOk T ctx q k k) (old : F) :
    @PlumeFeature.applyTemp F (fieldScalar T) (f.lonShift T k) ctx q old = @PlumeFeature.applyTemp F (fieldScalar T) f ctx q old := by
  unfold PlumeFeature.applyTemp
  have e1 : @PlumeFeature.covers F (fieldScalar T) (f.lonShift T k) ctx q =
      @PlumeFeature.covers F (fieldScalar T) (f.shift (lonTurns T k)) ctx q := rfl
  have e2 : (f.lonShift T k).models.temps = f.models.temps.map (TempModel.lonShift T k k) := rfl
  have e3 : (f.lonShift T k).minDepth = f.minDepth := rfl
  have e4 : (f.lonShift T k).maxDepth = f.maxDepth := rfl
  rw [e1, PlumeFeature.covers_lon_alias T hπ f ctx q k hsph h, e2, e3, e4]
  simp only [temps_foldlM_lon_alias T hπ hP hA f.models.temps ctx q k hsph hm]

theorem PlumeFeature.apply_lon_alias {G : Type} [@RandGen G F] (hπ : 0 < T.pi) (hP : PeriodLaws T) (hA : AngleAddLaws T)
    (f : PlumeFeature F) (ctx : Ctx F) (q : Query F) (k : ℤ) (hsph : ctx.coord.spherical = true) (h : f.AliasOk T q k)
    (hm : f.models.AliasOk T ctx q k) (pes : List (Req × Nat)) (out : List F) :
    @PlumeFeature.apply F (fieldScalar T) G _ (f.lonShift T k) ctx q pes out =
      @PlumeFeature.apply F (fieldScalar T) G _ f ctx q pes out := by
  unfold PlumeFeature.apply
  have e1 : @PlumeFeature.covers F (fieldScalar T) (f.lonShift T k) ctx q =
      @PlumeFeature.covers F (fieldScalar T) (f.shift (lonTurns T k)) ctx q := rfl
  have e2 : (f.lonShift T k).models = f.models.lonShift T k := rfl
  have e3 : (f.lonShift T k).tag = f.tag := rfl
  have e4 : (f.lonShift T k).minDepth = f.minDepth := rfl
  have e5 : (f.lonShift T k).maxDepth = f.maxDepth := rfl
  rw [e1, PlumeFeature.covers_lon_alias T hπ f ctx q k hsph h, e2, e3, e4, e5]
  simp only [paintAll_lon_alias T hπ hP hA f.tag f.models ctx q k hsph hm]

/-! ### whole worlds: `World.temperaturePure` -/

/-- the query `World.temperaturePure` hands to the features -/
noncomputable def World.tempQuery (w : World F) (pt : P3 F) (depth : F) : Query F :=
  { pt := pt, nat := @CoordSys.toNatural F (fieldScalar T) w.ctx.coord pt, depth := depth, gravityNorm := w.ctx.gravity }

/-- one feature of the re-described world against the corresponding feature of the original: the same feature, or an area feature /
a plume written `k` turns away (`k` chosen per feature) for which the kernel hypotheses hold at the query -/
inductive FeatureTempAlias (ctx : Ctx F) (q : Query F) : Feature F → Feature F → Prop
  | same (f : Feature F) : FeatureTempAlias ctx q f f
  | area (a : AreaFeature F) (k : ℤ) (hpoly : PolygonAliasOk T a.coords (surfacePoint true q.nat) k)
      (hrng : a.rng.AliasOk T (surfacePoint true q.nat) k) (hm : ∀ m ∈ a.models.temps, m.AliasOk T ctx q k k) :
      FeatureTempAlias ctx q (.area (a.lonShift T k)) (.area a)
  | plume (p : PlumeFeature F) (k : ℤ) (h : p.AliasOk T q k) (hm : ∀ m ∈ p.models.temps, m.AliasOk T ctx q k k) :
      FeatureTempAlias ctx q (.plume (p.lonShift T k)) (.plume p)

theorem Feature.applyTemp_lon_alias (hπ : 0 < T.pi) (hP : PeriodLaws T) (hA : AngleAddLaws T) (ctx : Ctx F) (q : Query F)
    (hsph : ctx.coord.spherical = true) (f' f : Feature F) (h : FeatureTempAlias T ctx q f' f) (old : F) :
    @Feature.applyTemp F (fieldScalar T) f' ctx q old = @Feature.applyTemp F (fieldScalar T) f ctx q old := by
  cases h with
  | same => rfl
  | area a k hpoly hrng hm => exact AreaFeature.applyTemp_lon_alias T hπ hP hA a ctx q k hsph hpoly hrng hm old
  | plume p k h hm => exact PlumeFeature.applyTemp_lon_alias T hπ hP hA p ctx q k hsph h hm old

/-- **the temperature of a whole world** whose area features and plumes are written any number of turns away, feature by feature -/
theorem World.temperaturePure_lon_alias (hπ : 0 < T.pi) (hP : PeriodLaws T) (hA : AngleAddLaws T) (w w' : World F) (pt : P3 F)
    (depth : F) (hctx : w'.ctx = w.ctx) (hsph : w.ctx.coord.spherical = true)
    (hf : List.Forall₂ (FeatureTempAlias T w.ctx (w.tempQuery T pt depth)) w'.features w.features) :
    @World.temperaturePure F (fieldScalar T) w' pt depth = @World.temperaturePure F (fieldScalar T) w pt depth := by
  unfold World.temperaturePure
  rw [hctx]
  have := foldlM_forall₂_congr (fun (t : F) (f : Feature F) => @Feature.applyTemp F (fieldScalar T) f w.ctx (w.tempQuery T pt depth) t)
    w'.features w.features
    (List.Forall₂.imp (fun f' f h t => Feature.applyTemp_lon_alias T hπ hP hA w.ctx _ hsph f' f h t) hf)
  unfold World.tempQuery at this
  simp only [this]

/-! ### whole worlds: `World.props3`, every property -/

/-- as `FeatureTempAlias`, with the hypotheses on all four model lists -/
inductive FeatureAlias (ctx : Ctx F) (q : Query F) : Feature F → Feature F → Prop
  | same (f : Feature F) : FeatureAlias ctx q f f
  | area (a : AreaFeature F) (k : ℤ) (hpoly : PolygonAliasOk T a.coords (surfacePoint true q.nat) k)
      (hrng : a.rng.AliasOk T (surfacePoint true q.nat) k) (hm : a.models.AliasOk T ctx q k) :
      FeatureAlias ctx q (.area (a.lonShift T k)) (.area a)
  | plume (p : PlumeFeature F) (k : ℤ) (h : p.AliasOk T q k) (hm : p.models.AliasOk T ctx q k) :
      FeatureAlias ctx q (.plume (p.lonShift T k)) (.plume p)

theorem Feature.apply_lon_alias {G : Type} [@RandGen G F] (hπ : 0 < T.pi) (hP : PeriodLaws T) (hA : AngleAddLaws T) (ctx : Ctx F)
    (q : Query F) (hsph : ctx.coord.spherical = true) (f' f : Feature F) (h : FeatureAlias T ctx q f' f) (pes : List (Req × Nat))
    (out : List F) :
    @Feature.apply F (fieldScalar T) G _ f' ctx q pes out = @Feature.apply F (fieldScalar T) G _ f ctx q pes out := by
  cases h with
  | same => rfl
  | area a k hpoly hrng hm => exact AreaFeature.apply_lon_alias T hπ hP hA a ctx q k hsph hpoly hrng hm pes out
  | plume p k h hm => exact PlumeFeature.apply_lon_alias T hπ hP hA p ctx q k hsph h hm pes out

/-- the hypotheses do not look at the `worldT` member of the query -/
theorem TempModel.aliasOk_worldT (m : TempModel F) (ctx : Ctx F) (q : Query F) (t : Unit → Except Err F) (kS kR : ℤ) :
    m.AliasOk T ctx { q with worldT := t } kS kR ↔ m.AliasOk T ctx q kS kR := by
  cases m <;> exact Iff.rfl

theorem FeatureAlias.toTemp (ctx : Ctx F) (q : Query F) (t : Unit → Except Err F) (f' f : Feature F)
    (h : FeatureAlias T ctx { q with worldT := t } f' f) : FeatureTempAlias T ctx q f' f := by
  cases h with
  | same => exact .same _
  | area a k hpoly hrng hm =>
    exact .area a k hpoly hrng (fun m hmem => (TempModel.aliasOk_worldT T m ctx q t k k).mp (hm.temps m hmem))
  | plume p k h hm =>
    exact .plume p k h (fun m hmem => (TempModel.aliasOk_worldT T m ctx q t k k).mp (hm.temps m hmem))

/-- **every property of a whole world** (`World.props3`, random draws included) whose area features and plumes are written any number of
turns away, feature by feature; the hypotheses are those of the kernels, at the query the world builds from the point -/
theorem World.props3_lon_alias {G : Type} [@RandGen G F] (hπ : 0 < T.pi) (hP : PeriodLaws T) (hA : AngleAddLaws T) (w w' : World F)
    (pt : P3 F) (depth : F) (ps : List Req) (hctx : w'.ctx = w.ctx) (hsph : w.ctx.coord.spherical = true)
    (hf : List.Forall₂ (FeatureAlias T w.ctx (@World.query F (fieldScalar T) w pt depth)) w'.features w.features) :
    @World.props3 F (fieldScalar T) G _ w' pt depth ps = @World.props3 F (fieldScalar T) G _ w pt depth ps := by
  have hT : @World.temperaturePure F (fieldScalar T) w' pt depth = @World.temperaturePure F (fieldScalar T) w pt depth :=
    World.temperaturePure_lon_alias T hπ hP hA w w' pt depth hctx hsph
      (List.Forall₂.imp (fun f' f h => FeatureAlias.toTemp T w.ctx (w.tempQuery T pt depth) _ f' f h) hf)
  have hq : @World.query F (fieldScalar T) w' pt depth = @World.query F (fieldScalar T) w pt depth := by
    unfold World.query
    rw [hctx, hT]
  have hfold := fun (pes : List (Req × Nat)) => foldlM_forall₂_congr
    (fun (out : List F) (f : Feature F) => @Feature.apply F (fieldScalar T) G _ f w.ctx (@World.query F (fieldScalar T) w pt depth) pes out)
    w'.features w.features
    (List.Forall₂.imp (fun f' f h out => Feature.apply_lon_alias T hπ hP hA w.ctx _ hsph f' f h pes out) hf)
  unfold World.props3
  rw [hq, hctx]
  simp only [hfold]

end field

/-! ### witness: a ridge written one turn away is measured from the other end (`π := 3`, constant `sin`, `cos`) -/

/-- the same query `(r, lon, lat) = (1, 1/2, 0)`; the ridge `(5,0)–(6,0)` gives the spreading velocity of its WEST end, the same ridge
written one turn to the west, `(−1,0)–(0,0)`, that of its EAST end (the query is half a unit east of it) -/
theorem ridge_alias_witness :
    (∃ r, @ridgeDistanceAndSpreading ℚ (fieldScalar c08Flat) true [[⟨5, 0⟩, ⟨6, 0⟩]] [[1, 2]] ⟨1, 1 / 2, 0⟩ [[0]] [] = .ok r ∧
      r.spreading * @secondsInYear ℚ (fieldScalar c08Flat) = 1) ∧
    (∃ r, @ridgeDistanceAndSpreading ℚ (fieldScalar c08Flat) true [[⟨-1, 0⟩, ⟨0, 0⟩]] [[1, 2]] ⟨1, 1 / 2, 0⟩ [[0]] [] = .ok r ∧
      r.spreading * @secondsInYear ℚ (fieldScalar c08Flat) = 2) := by
  refine ⟨ridge_inrange_witness.1, ?_⟩
  obtain ⟨r, h1, h2⟩ := ridge_one_segment c08Flat ⟨1, 1 / 2, 0⟩ ⟨-1, 0⟩ ⟨0, 0⟩ 1 2 0
  refine ⟨r, h1, ?_⟩
  have := congrArg (fun t => t.2.1) h2
  simp only at this
  rw [this, otherPoint_flat]
  norm_num [segRes, segClosest, lonPick, P2.sub_x', P2.sub_y', abs_of_pos, abs_of_neg]

/-! ### instances of the hypotheses (`π := 3`; `c08Transc`: `ε = 2⁻⁵²`; `c08Flat`: the same with constant `sin = 0`, `cos = 1`) -/

/-- `Separated` only looks at `ε` -/
theorem Separated.congr_eps {F : Type} [Field F] [LinearOrder F] [IsStrictOrderedRing F] {T T' : Transc F} (he : T'.eps = T.eps)
    {pts : List (P2 F)} {p : P2 F} (h : Separated T pts p) : Separated T' pts p := by
  have ha : ∀ a b : F, @approx F (fieldScalar T') a b = @approx F (fieldScalar T) a b := by
    intro a b
    rw [Bool.eq_iff_iff, approx_field, approx_field, he]
  refine ⟨by rw [he]; exact h.epsPos, ?_, ?_, h.nondegenerate⟩
  · intro e hmem hv
    rw [ha, ha] at hv
    exact h.vertex e hmem hv
  · intro e hmem hc
    rw [he] at hc
    exact h.collinear e hmem hc

/-- the square `[1,2]²`, the canonical query `(3/2, 3/2)`, the square written one turn to the west (`[−5,−4] × [1,2]`): all hypotheses of
the polygon kernel theorem hold -/
theorem c08Square_aliasOk : PolygonAliasOk c08Transc c08Square ⟨3 / 2, 3 / 2⟩ (-1) := by
  have hpi : c08Transc.pi = 3 := rfl
  obtain ⟨_, h2, _, _, h5, _⟩ := c08_lon_offset_example
  refine ⟨by rw [hpi]; norm_num, by rw [hpi]; norm_num, by norm_num, h2, ?_, h5, ?_⟩
  · intro v hv
    rw [hpi]
    simp only [c08Square, List.mem_cons, List.not_mem_nil, or_false] at hv
    rcases hv with rfl | rfl | rfl | rfl <;> norm_num
  · intro j
    have hs : c08Square.map (P2.shift (lonTurns c08Transc (-1))) = [⟨-5, 1⟩, ⟨-4, 1⟩, ⟨-4, 2⟩, ⟨-5, 2⟩] := by
      simp only [c08Square, P2.shift, lonTurns, hpi, List.map_cons, List.map_nil]
      norm_num
    rw [hs, hpi]
    apply c08_separated_rect (-5) (-4)
    · have := c08_half_away (12 * j + 13) (by omega)
      have e : (3 : ℚ) / 2 + 2 * 3 * j - -5 = ((12 * j + 13 : ℤ) : ℚ) / 2 := by push_cast; ring
      rw [e]; exact this
    · have := c08_half_away (12 * j + 11) (by omega)
      have e : (3 : ℚ) / 2 + 2 * 3 * j - -4 = ((12 * j + 11 : ℤ) : ℚ) / 2 := by push_cast; ring
      rw [e]; exact this
    · norm_num

theorem c08Square_aliasOk_flat : PolygonAliasOk c08Flat c08Square ⟨3 / 2, 3 / 2⟩ (-1) := by
  have h := c08Square_aliasOk
  exact ⟨h.lo, h.hi, h.ne, h.range, h.range',
    fun j => Separated.congr_eps (T := c08Transc) (T' := c08Flat) rfl (h.sep j),
    fun j => Separated.congr_eps (T := c08Transc) (T' := c08Flat) rfl (h.sep' j)⟩

/-- the one-triangle surface `c08Surface` (`(1,0),(1,1),(2,0)`), any canonical non-zero query, written one turn to the west -/
theorem c08Surface_aliasOk (p : P2 ℚ) (hlo : -3 < p.x) (hhi : p.x ≤ 3) (hne : p.x ≠ 0) : c08Surface.AliasOk c08Transc p (-1) := by
  have hpi : c08Transc.pi = 3 := rfl
  refine Surface.aliasOk_of_range c08Transc (by rw [hpi]; norm_num) c08Surface p (-1) c08Surface_preOk c08Surface_nodesOk
    (by rw [hpi]; exact hlo) (by rw [hpi]; exact hhi) hne ?_ (c08Surface_singleValued p)
  intro t ht q hq
  rw [(c08Surface_nodeTri t).mp ht] at hq
  obtain ⟨h1, h2⟩ := c08Tri_accepts_x q hq
  rw [hpi]
  push_cast
  refine ⟨⟨by linarith, by linarith⟩, by linarith, by linarith⟩

/-- the ridge `(1,0)–(2,0)` and the same ridge one turn to the west `(−5,0)–(−4,0)`, query longitude `3/2`: the mid longitude `3/2` is
reached by the query itself, the mid longitude `−9/2` by its other description `3/2 − 2π` -/
theorem c08Ridge_reach (lat : ℚ) : RidgeReach c08Flat ⟨3 / 2, lat⟩ ⟨3 / 2, lat⟩ (2 * c08Flat.pi * ((-1 : ℤ) : ℚ)) [[⟨1, 0⟩, ⟨2, 0⟩]] := by
  constructor
  · intro ridge hr i s0 s1 h0 h1
    simp only [List.mem_cons, List.not_mem_nil, or_false] at hr
    subst hr
    have hi : i = 0 := by
      by_contra hne
      have : ([⟨1, 0⟩, ⟨2, 0⟩] : List (P2 ℚ))[i + 1]? = none := by
        apply List.getElem?_eq_none; simp only [List.length_cons, List.length_nil]; omega
      rw [this] at h1; cases h1
    subst hi
    simp only [List.getElem?_cons_zero, zero_add, List.getElem?_cons_succ, Option.some.injEq] at h0 h1
    subst h0; subst h1
    unfold LonReach
    rw [otherPoint_flat, c08Flat_pi]
    constructor
    · left; norm_num [abs_of_pos]
    · right; norm_num [abs_of_pos, abs_of_neg]
  · intro i r t0 h
    have : ([[⟨1, 0⟩, ⟨2, 0⟩]] : List (List (P2 ℚ)))[i + 1]? = none := by
      apply List.getElem?_eq_none; simp
    rw [this] at h; cases h

end Gwb
