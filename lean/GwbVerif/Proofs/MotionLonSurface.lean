/-
Helpers for C08, part 10: a common longitude offset in the general case for the depth-surface lookup (`Surface.localValue s true`)
and for the choice of the query's description in the slab / fault frame (`distance_point_from_curved_planes`).

`Surface::local_value` (spherical) tries, in this order: the triangle of the kd-node nearest to the query `p`; the triangle of the
kd-node nearest to `other = otherPoint p`; the candidates visited by the first search at `p`; those of the second at `other`; every
node (at `p`, then at `other`).  The ORDER depends on the frame (the kd-tree's nearest node for `p` in one frame corresponds to the
nearest node of `other'` in the other), so the invariance goes through the characterisation

    the lookup returns the value of SOME reachable triangle that accepts `p` or `other`, and fails with "not in any triangle" iff no
    reachable triangle accepts `p` or `other`

(part A, every `Scalar R`) and needs that the value does not depend on WHICH accepting triangle is found (`Surface.SingleValuedAt`).

Part C: `distancePointFromCurvedPlanes` is, by `rfl`, the function `distancePointFromCurvedPlanesA` in which the on-trench test is the
named proposition `DpfcpOnTrench` and the description of the query used for the side test is the named function `dpfcpAlias`.  The
latter picks the description within `π` of the trench point and commutes with a common longitude offset; the former compares raw natural
coordinates and is NOT invariant under the description of the longitude (`dpfcpOnTrench_alias`).
-/
import GwbVerif.Proofs.MotionLonKernels
import GwbVerif.Model.Geometry.Dpfcp
namespace Gwb
open Scalar
set_option linter.unusedSectionVars false

/-! ## Part A: what the spherical lookup returns (every `Scalar R`) -/
section generic
variable {R : Type} [Scalar R]

/-- the triangles the lookup can reach: those some kd-node refers to (in a surface made by the library every triangle has exactly one
node, its centroid) -/
def Surface.NodeTri (s : Surface R) (t : Tri R) : Prop := ∃ nd ∈ s.nodes.toList, s.triangles[nd.index]? = some t

/-- every kd-node refers to a stored triangle -/
def Surface.NodesOk (s : Surface R) : Prop := ∀ nd ∈ s.nodes.toList, nd.index < s.triangles.size

/-- "a reachable triangle accepts `q` and interpolates `v` there" -/
def Surface.Hit (s : Surface R) (q : P2 R) (v : R) : Prop := ∃ t, s.NodeTri t ∧ t.Accepts q ∧ v = t.interp q

/-! ### the kd-tree search only reports positions inside the node array -/

def KdState.InRange (n : Nat) (s : KdState R) : Prop := s.minIndex < n ∧ ∀ e ∈ s.visited, e.index < n

theorem kdVisit_inRange {n mid : Nat} (node : KdNode R) (p : P2 R) (s : KdState R) (hmid : mid < n) (h : s.InRange n) :
    (kdVisit mid node p s).InRange n := by
  unfold kdVisit
  simp only
  split
  · refine ⟨hmid, ?_⟩
    intro e he
    rcases List.mem_cons.mp he with rfl | he
    · exact hmid
    · exact h.2 e he
  · refine ⟨h.1, ?_⟩
    intro e he
    rcases List.mem_cons.mp he with rfl | he
    · exact hmid
    · exact h.2 e he

theorem kdSearch_inRange (nodes : Array (KdNode R)) (p : P2 R) (left right : Nat) (ax : Bool) (s : KdState R)
    (h : s.InRange nodes.size) : (kdSearch nodes p left right ax s).InRange nodes.size := by
  induction hn : right + 1 - left using Nat.strong_induction_on generalizing left right ax s with
  | _ n ih =>
    rw [kdSearch.eq_def]
    simp only
    cases hnode : nodes[(left + right) / 2]? with
    | none => exact h
    | some node =>
      have hmid : (left + right) / 2 < nodes.size := by
        by_contra hge
        rw [Array.getElem?_eq_none (by omega)] at hnode
        cases hnode
      have ihL : left < (left + right) / 2 → ∀ s' : KdState R, s'.InRange nodes.size →
          (kdSearch nodes p left ((left + right) / 2 - 1) (!ax) s').InRange nodes.size :=
        fun hlt s' hs' => ih _ (by omega) left _ (!ax) s' hs' rfl
      have ihR : right > (left + right) / 2 → ∀ s' : KdState R, s'.InRange nodes.size →
          (kdSearch nodes p ((left + right) / 2 + 1) right (!ax) s').InRange nodes.size :=
        fun hgt s' hs' => ih _ (by omega) _ right (!ax) s' hs' rfl
      have hV : ∀ s' : KdState R, s'.InRange nodes.size → (kdVisit ((left + right) / 2) node p s').InRange nodes.size :=
        fun s' hs' => kdVisit_inRange node p s' hmid hs'
      simp only
      by_cases hl : left < (left + right) / 2 <;> by_cases hr : right > (left + right) / 2 <;>
        simp only [hl, hr, if_true, if_false] <;> split_ifs <;>
        first
          | exact hV _ h
          | exact hV _ (ihL hl _ h)
          | exact hV _ (ihR hr _ h)
          | exact ihR hr _ (hV _ h)
          | exact ihL hl _ (hV _ h)
          | exact ihR hr _ (hV _ (ihL hl _ h))
          | exact ihL hl _ (hV _ (ihR hr _ h))

theorem kdFindClosestPoints_inRange (nodes : Array (KdNode R)) (p : P2 R) (hpos : 0 < nodes.size) :
    ∃ ids, kdFindClosestPoints nodes p = .ok ids ∧ ids.InRange nodes.size := by
  unfold kdFindClosestPoints
  rw [if_neg (by omega)]
  refine ⟨_, rfl, kdSearch_inRange nodes p 0 (nodes.size - 1) false _ ⟨hpos, ?_⟩⟩
  intro e he
  cases he

theorem kdFindClosestPoints_empty (nodes : Array (KdNode R)) (p : P2 R) (h : nodes.size = 0) :
    kdFindClosestPoints nodes p = .error .internal := by
  unfold kdFindClosestPoints
  rw [if_pos h]

/-! ### the three stages -/

theorem Surface.tryNode_spec (s : Surface R) (hpre : s.PreOk) (hok : s.NodesOk) (ni : Nat) (hni : ni < s.nodes.size) (q : P2 R) :
    ∃ t, s.NodeTri t ∧ s.tryNode ni q = .ok (if t.Accepts q then some (t.interp q) else none) := by
  have hnd : s.nodes[ni]? = some s.nodes[ni] := Array.getElem?_eq_getElem hni
  have hmem : s.nodes[ni] ∈ s.nodes.toList := by
    rw [Array.mem_toList_iff]
    exact Array.getElem_mem hni
  have hidx := hok _ hmem
  have ht : s.triangles[s.nodes[ni].index]? = some s.triangles[s.nodes[ni].index] := Array.getElem?_eq_getElem hidx
  have hp : s.pre[s.nodes[ni].index]? = some (s.triangles[s.nodes[ni].index]).precompute := by
    rw [hpre, Array.getElem?_map, ht]
    rfl
  refine ⟨s.triangles[s.nodes[ni].index], ⟨_, hmem, ht⟩, ?_⟩
  unfold Surface.tryNode
  simp only [hnd, ht, hp, inTriangle_precompute]

theorem Surface.tryList_spec (s : Surface R) (hpre : s.PreOk) (hok : s.NodesOk) (q : P2 R) (ids : List (IndexDistance R))
    (hids : ∀ e ∈ ids, e.index < s.nodes.size) :
    (∃ v, s.tryList q ids = .ok (some v) ∧ s.Hit q v) ∨ s.tryList q ids = .ok none := by
  induction ids with
  | nil => exact Or.inr rfl
  | cons e ids ih =>
    obtain ⟨t, hnt, htry⟩ := Surface.tryNode_spec s hpre hok e.index (hids e List.mem_cons_self) q
    unfold Surface.tryList
    rw [htry]
    by_cases ha : t.Accepts q
    · rw [if_pos ha]
      exact Or.inl ⟨_, rfl, t, hnt, ha, rfl⟩
    · rw [if_neg ha]
      exact ih (fun e' he' => hids e' (List.mem_cons_of_mem _ he'))

theorem Surface.scanAll_spec (s : Surface R) (hpre : s.PreOk) (hok : s.NodesOk) (p other : P2 R) (nds : List (KdNode R))
    (hsub : ∀ nd ∈ nds, nd ∈ s.nodes.toList) :
    (∃ v, s.scanAll true p other nds = .ok (some v) ∧ (s.Hit p v ∨ s.Hit other v)) ∨
    (s.scanAll true p other nds = .ok none ∧
      ∀ nd ∈ nds, ∀ t, s.triangles[nd.index]? = some t → ¬ t.Accepts p ∧ ¬ t.Accepts other) := by
  induction nds with
  | nil => exact Or.inr ⟨rfl, fun nd hnd => absurd hnd List.not_mem_nil⟩
  | cons nd nds ih =>
    have hmem := hsub nd List.mem_cons_self
    have hidx := hok _ hmem
    have ht : s.triangles[nd.index]? = some s.triangles[nd.index] := Array.getElem?_eq_getElem hidx
    have hp : s.pre[nd.index]? = some (s.triangles[nd.index]).precompute := by
      rw [hpre, Array.getElem?_map, ht]
      rfl
    unfold Surface.scanAll
    simp only [ht, hp, inTriangle_precompute, if_true]
    by_cases ha : (s.triangles[nd.index]).Accepts p
    · simp only [ha, if_true]
      exact Or.inl ⟨_, rfl, Or.inl ⟨_, ⟨nd, hmem, ht⟩, ha, rfl⟩⟩
    · simp only [ha, if_false]
      by_cases hb : (s.triangles[nd.index]).Accepts other
      · simp only [hb, if_true]
        exact Or.inl ⟨_, rfl, Or.inr ⟨_, ⟨nd, hmem, ht⟩, hb, rfl⟩⟩
      · simp only [hb, if_false]
        rcases ih (fun nd' h' => hsub nd' (List.mem_cons_of_mem _ h')) with h | ⟨h1, h2⟩
        · exact Or.inl h
        · refine Or.inr ⟨h1, ?_⟩
          intro nd' hnd' t' ht'
          rcases List.mem_cons.mp hnd' with rfl | hnd'
          · rw [ht] at ht'
            cases ht'
            exact ⟨ha, hb⟩
          · exact h2 nd' hnd' t' ht'

/-- **what `Surface::local_value` returns in a spherical world** (non-constant surface with at least one node, stored constants those
of `Tri.precompute`, every node refers to a stored triangle): the value a reachable triangle interpolates at the query `p` or at
`otherPoint p`, where that triangle accepts the point; and the error "not in any triangle" exactly when no reachable triangle accepts
either description.  No other error can occur. -/
theorem Surface.localValue_spherical_spec (s : Surface R) (hpre : s.PreOk) (hok : s.NodesOk) (hc : s.constant = false)
    (hpos : 0 < s.nodes.size) (p : P2 R) :
    (∃ v, s.localValue true p = .ok v ∧ (s.Hit p v ∨ s.Hit (otherPoint p) v)) ∨
    (s.localValue true p = .error .notInTriangle ∧ ∀ t, s.NodeTri t → ¬ t.Accepts p ∧ ¬ t.Accepts (otherPoint p)) := by
  obtain ⟨ids, hk, hr⟩ := kdFindClosestPoints_inRange s.nodes p hpos
  obtain ⟨ids2, hk2, hr2⟩ := kdFindClosestPoints_inRange s.nodes (otherPoint p) hpos
  obtain ⟨t1, hnt1, h1⟩ := Surface.tryNode_spec s hpre hok ids.minIndex hr.1 p
  obtain ⟨t2, hnt2, h2⟩ := Surface.tryNode_spec s hpre hok ids2.minIndex hr2.1 (otherPoint p)
  unfold Surface.localValue
  simp only [hc, Bool.false_eq_true, if_false, if_true, bind, Except.bind, pure, Except.pure, hk, hk2, h1, h2]
  by_cases a1 : t1.Accepts p
  · simp only [a1, if_true]
    exact Or.inl ⟨_, rfl, Or.inl ⟨t1, hnt1, a1, rfl⟩⟩
  simp only [a1, if_false]
  by_cases a2 : t2.Accepts (otherPoint p)
  · simp only [a2, if_true]
    exact Or.inl ⟨_, rfl, Or.inr ⟨t2, hnt2, a2, rfl⟩⟩
  simp only [a2, if_false]
  have hv1 : ∀ e ∈ ids.vector, e.index < s.nodes.size := fun e he => hr.2 e (List.mem_reverse.mp he)
  have hv2 : ∀ e ∈ ids2.vector, e.index < s.nodes.size := fun e he => hr2.2 e (List.mem_reverse.mp he)
  rcases Surface.tryList_spec s hpre hok p ids.vector hv1 with ⟨v, h3, hit⟩ | h3
  · simp only [h3]
    exact Or.inl ⟨v, rfl, Or.inl hit⟩
  simp only [h3]
  rcases Surface.tryList_spec s hpre hok (otherPoint p) ids2.vector hv2 with ⟨v, h4, hit⟩ | h4
  · simp only [h4]
    exact Or.inl ⟨v, rfl, Or.inr hit⟩
  simp only [h4]
  rcases Surface.scanAll_spec s hpre hok p (otherPoint p) s.nodes.toList (fun _ h => h) with ⟨v, h5, hit⟩ | ⟨h5, hno⟩
  · simp only [h5]
    exact Or.inl ⟨v, rfl, hit⟩
  · simp only [h5]
    refine Or.inr ⟨trivial, ?_⟩
    rintro t ⟨nd, hnd, ht⟩
    exact hno nd hnd t ht

end generic

/-! ## Part B: the lookup under a common longitude offset (ordered field) -/
section field
variable {F : Type} [Field F] [LinearOrder F] [IsStrictOrderedRing F] (T : Transc F)

/-- the description `L + 2πk` of the surface point `p = (L, lat)` -/
def lonAlias (p : P2 F) (k : ℤ) : P2 F := ⟨p.x + 2 * T.pi * k, p.y⟩

theorem lonAlias_zero (p : P2 F) : lonAlias T p 0 = p := by
  unfold lonAlias
  simp

theorem otherPoint_eq_lonAlias (p : P2 F) : ∃ k : ℤ, @otherPoint F (fieldScalar T) p = lonAlias T p k := by
  have hx := otherPoint_x T p
  have hy := otherPoint_y T p
  by_cases h : p.x < 0
  · refine ⟨1, ?_⟩
    show (⟨(@otherPoint F (fieldScalar T) p).x, (@otherPoint F (fieldScalar T) p).y⟩ : P2 F) = _
    rw [hx, hy, if_pos h]
    unfold lonAlias
    simp
  · refine ⟨-1, ?_⟩
    show (⟨(@otherPoint F (fieldScalar T) p).x, (@otherPoint F (fieldScalar T) p).y⟩ : P2 F) = _
    rw [hx, hy, if_neg h]
    unfold lonAlias
    simp only [P2.mk.injEq, and_true]
    push_cast
    ring

/-- the descriptions of the offset query, seen from the frame before the offset -/
theorem lonAlias_offset (d : F) (p p' : P2 F) (j : ℤ) (hrel : p'.x = p.x + d + 2 * T.pi * j) (hy : p'.y = p.y) (k : ℤ) :
    lonAlias T p' k = P2.shift ⟨d, 0⟩ (lonAlias T p (j + k)) := by
  unfold lonAlias P2.shift
  simp only [P2.mk.injEq, hrel, hy, add_zero, and_true]
  push_cast
  ring

/-! ### the shifted surface -/

theorem Surface.shift_nodeTri (v : P2 F) (s : Surface F) (t' : Tri F) :
    (s.shift T v).NodeTri t' ↔ ∃ t, s.NodeTri t ∧ t' = t.shift v := by
  unfold Surface.NodeTri
  have hn : (s.shift T v).nodes.toList = s.nodes.toList.map (KdNode.shift v) := by
    simp only [Surface.shift, Array.toList_map]
  have ht : ∀ i : Nat, (s.shift T v).triangles[i]? = (s.triangles[i]?).map (Tri.shift v) := by
    intro i
    simp only [Surface.shift, Array.getElem?_map]
  constructor
  · rintro ⟨nd', hnd', h⟩
    rw [hn] at hnd'
    obtain ⟨nd, hnd, rfl⟩ := List.mem_map.mp hnd'
    rw [ht] at h
    have hi : (KdNode.shift v nd).index = nd.index := rfl
    rw [hi] at h
    cases h0 : s.triangles[nd.index]? with
    | none => rw [h0] at h; cases h
    | some t =>
      rw [h0] at h
      simp only [Option.map_some, Option.some.injEq] at h
      exact ⟨t, ⟨nd, hnd, h0⟩, h.symm⟩
  · rintro ⟨t, ⟨nd, hnd, h0⟩, rfl⟩
    refine ⟨KdNode.shift v nd, ?_, ?_⟩
    · rw [hn]
      exact List.mem_map_of_mem hnd
    · rw [ht]
      have hi : (KdNode.shift v nd).index = nd.index := rfl
      rw [hi, h0]
      rfl

theorem Surface.shift_nodesOk (v : P2 F) (s : Surface F) (h : s.NodesOk) : (s.shift T v).NodesOk := by
  intro nd' hnd'
  have hn : (s.shift T v).nodes.toList = s.nodes.toList.map (KdNode.shift v) := by
    simp only [Surface.shift, Array.toList_map]
  rw [hn] at hnd'
  obtain ⟨nd, hnd, rfl⟩ := List.mem_map.mp hnd'
  have : (s.shift T v).triangles.size = s.triangles.size := by
    simp only [Surface.shift, Array.size_map]
  rw [this]
  exact h nd hnd

theorem Surface.shift_hit (v : P2 F) (s : Surface F) (q : P2 F) (val : F) :
    @Surface.Hit F (fieldScalar T) (s.shift T v) (P2.shift v q) val ↔ @Surface.Hit F (fieldScalar T) s q val := by
  unfold Surface.Hit
  constructor
  · rintro ⟨t', hn, ha, hv⟩
    obtain ⟨t, hnt, rfl⟩ := (Surface.shift_nodeTri T v s t').mp hn
    exact ⟨t, hnt, (Tri.accepts_shift T v t q).mp ha, by rw [hv, Tri.interp_shift]⟩
  · rintro ⟨t, hnt, ha, hv⟩
    exact ⟨t.shift v, (Surface.shift_nodeTri T v s _).mpr ⟨t, hnt, rfl⟩, (Tri.accepts_shift T v t q).mpr ha,
      by rw [hv, Tri.interp_shift]⟩

/-! ### the hypotheses -/

/-- **reach**: every description `L + 2πk` of the query that some reachable triangle accepts is one of the TWO descriptions the lookup
tries (`p` and `otherPoint p`: `L + 2π` for `L < 0`, `L − 2π` for `L ≥ 0`), before and after the offset -/
def SurfaceReach (s : Surface F) (p p' : P2 F) (d : F) : Prop :=
  ∀ t, s.NodeTri t → ∀ k : ℤ, @Tri.Accepts F (fieldScalar T) t (lonAlias T p k) →
    (lonAlias T p k = p ∨ lonAlias T p k = @otherPoint F (fieldScalar T) p) ∧
    (P2.shift ⟨d, 0⟩ (lonAlias T p k) = p' ∨ P2.shift ⟨d, 0⟩ (lonAlias T p k) = @otherPoint F (fieldScalar T) p')

/-- **the surface has one value at the query**: any two reachable triangles that accept a description of the query interpolate the
same value there.  For one description this is what a triangulation gives (adjacent triangles agree on the common edge); across
descriptions it says that a surface drawn over more than `2π` of longitude does not carry two different values at one place. -/
def Surface.SingleValuedAt (s : Surface F) (p : P2 F) : Prop :=
  ∀ t1 t2, s.NodeTri t1 → s.NodeTri t2 → ∀ k1 k2 : ℤ,
    @Tri.Accepts F (fieldScalar T) t1 (lonAlias T p k1) → @Tri.Accepts F (fieldScalar T) t2 (lonAlias T p k2) →
    @Tri.interp F (fieldScalar T) t1 (lonAlias T p k1) = @Tri.interp F (fieldScalar T) t2 (lonAlias T p k2)

theorem lonAlias_shift (v p : P2 F) (k : ℤ) : lonAlias T (P2.shift v p) k = P2.shift v (lonAlias T p k) := by
  unfold lonAlias P2.shift
  simp only [P2.mk.injEq, and_true]
  ring

/-- single-valuedness is a property of the drawing: it follows a translation of surface and query -/
theorem Surface.singleValuedAt_shift (v : P2 F) (s : Surface F) (p : P2 F) (h : Surface.SingleValuedAt T s p) :
    Surface.SingleValuedAt T (s.shift T v) (P2.shift v p) := by
  intro t1' t2' h1 h2 k1 k2 a1 a2
  obtain ⟨t1, hn1, rfl⟩ := (Surface.shift_nodeTri T v s t1').mp h1
  obtain ⟨t2, hn2, rfl⟩ := (Surface.shift_nodeTri T v s t2').mp h2
  rw [lonAlias_shift] at a1 a2 ⊢
  rw [lonAlias_shift, Tri.interp_shift, Tri.interp_shift]
  exact h t1 t2 hn1 hn2 k1 k2 ((Tri.accepts_shift T v t1 _).mp a1) ((Tri.accepts_shift T v t2 _).mp a2)

/-- a hit at one of the two tried descriptions, as a hit at some `lonAlias` -/
theorem Surface.hit_alias (s : Surface F) (p : P2 F) (v : F)
    (h : @Surface.Hit F (fieldScalar T) s p v ∨ @Surface.Hit F (fieldScalar T) s (@otherPoint F (fieldScalar T) p) v) :
    ∃ (k : ℤ) (t : Tri F), s.NodeTri t ∧ @Tri.Accepts F (fieldScalar T) t (lonAlias T p k) ∧
      v = @Tri.interp F (fieldScalar T) t (lonAlias T p k) := by
  rcases h with ⟨t, hn, ha, hv⟩ | ⟨t, hn, ha, hv⟩
  · exact ⟨0, t, hn, by rw [lonAlias_zero]; exact ha, by rw [lonAlias_zero]; exact hv⟩
  · obtain ⟨k, hk⟩ := otherPoint_eq_lonAlias T p
    rw [hk] at ha hv
    exact ⟨k, t, hn, ha, hv⟩

/-- **`Surface::local_value` (spherical) under a common longitude offset, general case.**  Triangle vertices and kd-nodes offset by `d`,
the query `p = (L, lat)` replaced by `p' = (L + d + 2πj, lat)`.  Same result (value or error) provided the accepted descriptions of the
query are tried in both frames (`SurfaceReach`) and the surface has one value at the query (`SingleValuedAt`).  That `L`, `L'` are
canonical is not used here; it is what makes `SurfaceReach` hold for surfaces drawn within `[−2π, 2π]`. -/
theorem Surface.localValue_lon_offset (s : Surface F) (hpre : @Surface.PreOk F (fieldScalar T) s) (hok : s.NodesOk) (d : F)
    (p p' : P2 F) (j : ℤ) (hrel : p'.x = p.x + d + 2 * T.pi * j) (hy : p'.y = p.y)
    (hreach : SurfaceReach T s p p' d) (hsv : Surface.SingleValuedAt T s p) :
    @Surface.localValue F (fieldScalar T) (s.shift T ⟨d, 0⟩) true p' = @Surface.localValue F (fieldScalar T) s true p := by
  have hcs : (s.shift T ⟨d, 0⟩).constant = s.constant := rfl
  have hns : (s.shift T ⟨d, 0⟩).nodes.size = s.nodes.size := by simp only [Surface.shift, Array.size_map]
  cases hc : s.constant with
  | true =>
    unfold Surface.localValue
    simp only [hcs, hc, if_true]
    rfl
  | false =>
    by_cases hsz : s.nodes.size = 0
    · unfold Surface.localValue
      simp only [hcs, hc, Bool.false_eq_true, if_false,
        @kdFindClosestPoints_empty F (fieldScalar T) _ _ hsz, @kdFindClosestPoints_empty F (fieldScalar T) _ _ (hns.trans hsz)]
      rfl
    have hpos : 0 < s.nodes.size := Nat.pos_of_ne_zero hsz
    -- the two tried descriptions after the offset, seen from the frame before
    have hp' : p' = P2.shift ⟨d, 0⟩ (lonAlias T p j) := by
      have := lonAlias_offset T d p p' j hrel hy 0
      rw [lonAlias_zero, add_zero] at this
      exact this
    obtain ⟨k0, hk0⟩ := otherPoint_eq_lonAlias T p'
    have ho' : @otherPoint F (fieldScalar T) p' = P2.shift ⟨d, 0⟩ (lonAlias T p (j + k0)) := by
      rw [hk0, lonAlias_offset T d p p' j hrel hy k0]
    have hitB : ∀ v', (@Surface.Hit F (fieldScalar T) (s.shift T ⟨d, 0⟩) p' v' ∨
        @Surface.Hit F (fieldScalar T) (s.shift T ⟨d, 0⟩) (@otherPoint F (fieldScalar T) p') v') →
        ∃ (k : ℤ) (t : Tri F), s.NodeTri t ∧ @Tri.Accepts F (fieldScalar T) t (lonAlias T p k) ∧
          v' = @Tri.interp F (fieldScalar T) t (lonAlias T p k) := by
      intro v' h
      rcases h with h | h
      · rw [hp', Surface.shift_hit] at h
        obtain ⟨t, hn, ha, hv⟩ := h
        exact ⟨j, t, hn, ha, hv⟩
      · rw [ho', Surface.shift_hit] at h
        obtain ⟨t, hn, ha, hv⟩ := h
        exact ⟨j + k0, t, hn, ha, hv⟩
    rcases @Surface.localValue_spherical_spec F (fieldScalar T) s hpre hok hc hpos p with ⟨v, hA, hitA⟩ | ⟨hA, noA⟩ <;>
      rcases @Surface.localValue_spherical_spec F (fieldScalar T) (s.shift T ⟨d, 0⟩) (Surface.shift_preOk T _ s)
        (Surface.shift_nodesOk T _ s hok) (hcs.trans hc) (hns ▸ hpos) p' with ⟨v', hB, hitB'⟩ | ⟨hB, noB⟩
    · obtain ⟨k, t, hn, ha, hv⟩ := Surface.hit_alias T s p v hitA
      obtain ⟨k', t', hn', ha', hv'⟩ := hitB v' hitB'
      rw [hA, hB, hv, hv', hsv t' t hn' hn k' k ha' ha]
    · exfalso
      obtain ⟨k, t, hn, ha, hv⟩ := Surface.hit_alias T s p v hitA
      have hsn : (s.shift T ⟨d, 0⟩).NodeTri (t.shift ⟨d, 0⟩) := (Surface.shift_nodeTri T _ s _).mpr ⟨t, hn, rfl⟩
      have hacc := (Tri.accepts_shift T ⟨d, 0⟩ t (lonAlias T p k)).mpr ha
      rcases (hreach t hn k ha).2 with h | h
      · rw [h] at hacc
        exact (noB _ hsn).1 hacc
      · rw [h] at hacc
        exact (noB _ hsn).2 hacc
    · exfalso
      obtain ⟨k', t', hn', ha', hv'⟩ := hitB v' hitB'
      rcases (hreach t' hn' k' ha').1 with h | h
      · rw [h] at ha'
        exact (noA _ hn').1 ha'
      · rw [h] at ha'
        exact (noA _ hn').2 ha'
    · rw [hA, hB]

/-- `SurfaceReach` from ranges: canonical query longitudes `L, L' ∈ (−π, π]`, both non-zero, and every point a reachable triangle
accepts has its longitude within `[−2π, 2π]`, before and after the offset (alias completeness: `alias_in_range_iff`) -/
theorem surfaceReach_of_range (hπ : 0 < T.pi) (s : Surface F) (d : F) (p p' : P2 F) (j : ℤ)
    (hlo : -T.pi < p.x) (hhi : p.x ≤ T.pi) (hne : p.x ≠ 0) (hlo' : -T.pi < p'.x) (hhi' : p'.x ≤ T.pi) (hne' : p'.x ≠ 0)
    (hrel : p'.x = p.x + d + 2 * T.pi * j) (hy : p'.y = p.y)
    (hrange : ∀ t, s.NodeTri t → ∀ q : P2 F, @Tri.Accepts F (fieldScalar T) t q →
      (-(2 * T.pi) ≤ q.x ∧ q.x ≤ 2 * T.pi) ∧ (-(2 * T.pi) ≤ q.x + d ∧ q.x + d ≤ 2 * T.pi)) :
    SurfaceReach T s p p' d := by
  intro t hn k ha
  obtain ⟨r1, r2⟩ := hrange t hn _ ha
  constructor
  · have := (alias_in_range_iff T hπ p hlo hhi hne k).mp r1
    rcases this with h | h
    · left
      show (⟨p.x + 2 * T.pi * k, p.y⟩ : P2 F) = p
      rw [h]
    · right
      show (⟨p.x + 2 * T.pi * k, p.y⟩ : P2 F) =
        ⟨(@otherPoint F (fieldScalar T) p).x, (@otherPoint F (fieldScalar T) p).y⟩
      rw [h, otherPoint_y]
  · have e : (lonAlias T p k).x + d = p'.x + 2 * T.pi * ((k - j : ℤ) : F) := by
      unfold lonAlias
      rw [hrel]
      push_cast
      ring
    rw [e] at r2
    have := (alias_in_range_iff T hπ p' hlo' hhi' hne' (k - j)).mp r2
    rcases this with h | h
    · left
      show (⟨(lonAlias T p k).x + d, (lonAlias T p k).y + 0⟩ : P2 F) = p'
      rw [e, h, add_zero]
      show (⟨p'.x, p.y⟩ : P2 F) = p'
      rw [← hy]
    · right
      show (⟨(lonAlias T p k).x + d, (lonAlias T p k).y + 0⟩ : P2 F) =
        ⟨(@otherPoint F (fieldScalar T) p').x, (@otherPoint F (fieldScalar T) p').y⟩
      rw [e, h, add_zero, otherPoint_y, hy]
      rfl

/-! ### where the points a triangle accepts can be -/

/-- the triangle with the longitudes of its vertices as values -/
def Tri.xAsValue (t : Tri F) : Tri F := ⟨⟨t.p0.x, t.p0.y, t.p0.x⟩, ⟨t.p1.x, t.p1.y, t.p1.x⟩, ⟨t.p2.x, t.p2.y, t.p2.x⟩⟩

/-- barycentric identity: interpolating the vertex longitudes gives the longitude of the point -/
theorem Tri.interp_xAsValue (t : Tri F) (q : P2 F) (h6 : @Tri.c6 F (fieldScalar T) t ≠ 0) :
    @Tri.interp F (fieldScalar T) t.xAsValue q = q.x := by
  have e6 : @Tri.c6 F (fieldScalar T) t.xAsValue = @Tri.c6 F (fieldScalar T) t := rfl
  have es : @Tri.sNum F (fieldScalar T) t.xAsValue q = @Tri.sNum F (fieldScalar T) t q := rfl
  have et : @Tri.tNum F (fieldScalar T) t.xAsValue q = @Tri.tNum F (fieldScalar T) t q := rfl
  rw [Tri.interp_field T _ q (by rw [e6]; exact h6), e6, es, et, div_eq_iff h6]
  rw [Tri.c6_field, Tri.sNum_field, Tri.tNum_field]
  unfold crossP P3.xy Tri.xAsValue
  simp only
  ring

/-- **a point accepted by a clockwise triangle (`c6 > 0`) has its longitude within the vertex longitudes, up to the tolerance of the
test**: `lo − (hi − lo)·τ·(c6 + 2)/c6 ≤ q.x ≤ hi + (hi − lo)·τ·(c6 + 2)/c6` with `τ = 10⁴ε` -/
theorem Tri.accepts_x_bounds (heps : 0 ≤ T.eps) (t : Tri F) (q : P2 F) (lo hi : F) (h6 : 0 < @Tri.c6 F (fieldScalar T) t)
    (l0 : lo ≤ t.p0.x) (l1 : lo ≤ t.p1.x) (l2 : lo ≤ t.p2.x) (u0 : t.p0.x ≤ hi) (u1 : t.p1.x ≤ hi) (u2 : t.p2.x ≤ hi)
    (ha : @Tri.Accepts F (fieldScalar T) t q) :
    lo - (hi - lo) * ((@Tri.c6 F (fieldScalar T) t * (10000 * T.eps) + 10000 * T.eps + 10000 * T.eps) / @Tri.c6 F (fieldScalar T) t)
      ≤ q.x ∧
    q.x ≤ hi + (hi - lo) *
      ((@Tri.c6 F (fieldScalar T) t * (10000 * T.eps) + 10000 * T.eps + 10000 * T.eps) / @Tri.c6 F (fieldScalar T) t) := by
  obtain ⟨a1, a2, a3⟩ := (Tri.accepts_field T t q).mp ha
  have hτ : (0 : F) ≤ 10000 * T.eps := by positivity
  have e6 : @Tri.c6 F (fieldScalar T) t.xAsValue = @Tri.c6 F (fieldScalar T) t := rfl
  have es : @Tri.sNum F (fieldScalar T) t.xAsValue q = @Tri.sNum F (fieldScalar T) t q := rfl
  have et : @Tri.tNum F (fieldScalar T) t.xAsValue q = @Tri.tNum F (fieldScalar T) t q := rfl
  have := Tri.interp_bounds T t.xAsValue q lo hi (@Tri.c6 F (fieldScalar T) t * (10000 * T.eps)) (10000 * T.eps) (10000 * T.eps)
    (by rw [e6]; exact h6) l0 l1 l2 u0 u1 u2 (by rw [e6, es, et]; linarith) (by rw [es]; exact a1) (by rw [et]; exact a2)
    (mul_nonneg h6.le hτ) hτ hτ
  rw [Tri.interp_xAsValue T t q (ne_of_gt h6), e6] at this
  exact this

/-! ### the offset does not re-normalise the query longitude: no hypothesis on the surface -/

theorem Surface.scanAll_shift_sph (v : P2 F) (s : Surface F) (hs : @Surface.PreOk F (fieldScalar T) s) (sph : Bool) (p other : P2 F)
    (nds : List (KdNode F)) :
    @Surface.scanAll F (fieldScalar T) (s.shift T v) sph (P2.shift v p) (P2.shift v other) (nds.map (KdNode.shift v)) =
      @Surface.scanAll F (fieldScalar T) s sph p other nds := by
  induction nds with
  | nil => rfl
  | cons nd nds ih =>
    simp only [List.map_cons]
    unfold Surface.scanAll
    unfold Surface.PreOk at hs
    have h1 : (s.shift T v).triangles[(KdNode.shift v nd).index]? = (s.triangles[nd.index]?).map (Tri.shift v) := by
      simp only [Surface.shift, Array.getElem?_map, KdNode.shift]
    have h2 : (s.shift T v).pre[(KdNode.shift v nd).index]? =
        (s.triangles[nd.index]?).map (fun t => @Tri.precompute F (fieldScalar T) (t.shift v)) := by
      simp only [Surface.shift, Array.getElem?_map, KdNode.shift, Option.map_map]
      rfl
    have h3 : s.pre[nd.index]? = (s.triangles[nd.index]?).map (@Tri.precompute F (fieldScalar T)) := by
      rw [hs, Array.getElem?_map]
    rw [h1, h2, h3]
    cases s.triangles[nd.index]? with
    | none => rfl
    | some t =>
      simp only [Option.map_some, inTriangle_shift, ih]

/-- **`Surface::local_value` (spherical) under a longitude offset that keeps the sign test of `otherPoint`** (`p' = p + d`, no
re-normalisation): the whole search (same kd-tree walk, same order) commutes with the offset; nothing is assumed about the surface
beyond `pre = triangles.map precompute` -/
theorem Surface.localValue_lon_shift (d : F) (s : Surface F) (hs : @Surface.PreOk F (fieldScalar T) s) (p : P2 F)
    (hsign : p.x + d < 0 ↔ p.x < 0) :
    @Surface.localValue F (fieldScalar T) (s.shift T ⟨d, 0⟩) true (P2.shift ⟨d, 0⟩ p) =
      @Surface.localValue F (fieldScalar T) s true p := by
  unfold Surface.localValue
  have hc : (s.shift T ⟨d, 0⟩).constant = s.constant := rfl
  have hm : (s.shift T ⟨d, 0⟩).minimum = s.minimum := rfl
  have hn : (s.shift T ⟨d, 0⟩).nodes = s.nodes.map (KdNode.shift ⟨d, 0⟩) := rfl
  simp only [hc, hm, hn, otherPoint_shift T d p hsign, kdFindClosestPoints_shift, Surface.tryNode_shift T _ s hs,
    Surface.tryList_shift T _ s hs, if_true, Array.toList_map, Surface.scanAll_shift_sph T _ s hs]

end field

/-! ## witnesses over `ℚ` (`π := 3`, `ε = 2⁻⁵²`) -/

/-- the triangle `(1,0), (1,1), (2,0)` (clockwise: `c6 = 1`) with values `10, 20, 30` -/
def c08Tri : Tri ℚ := ⟨⟨1, 0, 10⟩, ⟨1, 1, 20⟩, ⟨2, 0, 30⟩⟩
noncomputable def c08Surface : Surface ℚ :=
  { constant := false, minimum := 10, maximum := 30, triangles := #[c08Tri],
    pre := #[@Tri.precompute ℚ (fieldScalar c08Transc) c08Tri], nodes := #[⟨0, 4 / 3, 1 / 3⟩] }

theorem c08Surface_preOk : @Surface.PreOk ℚ (fieldScalar c08Transc) c08Surface := by
  unfold Surface.PreOk c08Surface
  simp

theorem c08Surface_nodesOk : c08Surface.NodesOk := by
  intro nd hnd
  simp only [c08Surface, List.mem_cons, List.not_mem_nil, or_false] at hnd
  subst hnd
  simp [c08Surface]

theorem c08Surface_nodeTri (t : Tri ℚ) : c08Surface.NodeTri t ↔ t = c08Tri := by
  unfold Surface.NodeTri c08Surface
  simp
  exact eq_comm

theorem c08Tri_accepts (q : P2 ℚ) :
    @Tri.Accepts ℚ (fieldScalar c08Transc) c08Tri q ↔
      -(10000 * (1 / 2 ^ 52)) ≤ q.y ∧ -(10000 * (1 / 2 ^ 52)) ≤ q.x - 1 ∧ q.y + (q.x - 1) - 1 ≤ 1 * 10000 * (1 / 2 ^ 52) := by
  rw [Tri.accepts_field, Tri.c6_field, Tri.sNum_field, Tri.tNum_field]
  have e : c08Transc.eps = 1 / 2 ^ 52 := rfl
  rw [e]
  unfold crossP P3.xy c08Tri
  norm_num

/-- accepted points of the concrete triangle have their longitude in `[1/2, 5/2]` -/
theorem c08Tri_accepts_x (q : P2 ℚ) (h : @Tri.Accepts ℚ (fieldScalar c08Transc) c08Tri q) : 1 / 2 ≤ q.x ∧ q.x ≤ 5 / 2 := by
  obtain ⟨h1, h2, h3⟩ := (c08Tri_accepts q).mp h
  have : (10000 : ℚ) * (1 / 2 ^ 52) ≤ 1 / 8 := by norm_num
  constructor <;> linarith

/-- among the descriptions `x + 6k` at most one is accepted -/
theorem c08_alias_unique (x : ℚ) (k1 k2 : ℤ) (h1 : 1 / 2 ≤ x + 2 * 3 * (k1 : ℚ) ∧ x + 2 * 3 * (k1 : ℚ) ≤ 5 / 2)
    (h2 : 1 / 2 ≤ x + 2 * 3 * (k2 : ℚ) ∧ x + 2 * 3 * (k2 : ℚ) ≤ 5 / 2) : k1 = k2 := by
  have a : (k1 : ℚ) < k2 + 1 := by linarith [h1.1, h2.2]
  have b : (k2 : ℚ) < k1 + 1 := by linarith [h1.2, h2.1]
  have a' : k1 < k2 + 1 := by exact_mod_cast a
  have b' : k2 < k1 + 1 := by exact_mod_cast b
  omega

theorem c08Surface_singleValued (p : P2 ℚ) : Surface.SingleValuedAt c08Transc c08Surface p := by
  intro t1 t2 h1 h2 k1 k2 a1 a2
  rw [(c08Surface_nodeTri t1).mp h1] at a1 ⊢
  rw [(c08Surface_nodeTri t2).mp h2] at a2 ⊢
  have := c08_alias_unique p.x k1 k2 (c08Tri_accepts_x _ a1) (c08Tri_accepts_x _ a2)
  rw [this]

/-- all hypotheses of `Surface.localValue_lon_offset` via `surfaceReach_of_range` hold for the one-triangle surface (`π := 3`), the
query `(5/4, 1/4)`, the offset `d = 7/2` (triangle carried to longitudes `[9/2, 11/2]`, across the meridian `π`), re-normalised query
longitude `5/4 + 7/2 − 2π = −5/4` -/
theorem c08Surface_range_example :
    (∀ t, c08Surface.NodeTri t → ∀ q : P2 ℚ, @Tri.Accepts ℚ (fieldScalar c08Transc) t q →
      (-(2 * c08Transc.pi) ≤ q.x ∧ q.x ≤ 2 * c08Transc.pi) ∧
      (-(2 * c08Transc.pi) ≤ q.x + 7 / 2 ∧ q.x + 7 / 2 ≤ 2 * c08Transc.pi)) := by
  intro t ht q ha
  rw [(c08Surface_nodeTri t).mp ht] at ha
  obtain ⟨h1, h2⟩ := c08Tri_accepts_x q ha
  have e : c08Transc.pi = 3 := rfl
  rw [e]
  refine ⟨⟨?_, ?_⟩, ?_, ?_⟩ <;> linarith

/-! #### boundary case: the query longitude `0` -/

/-- the one-triangle surface drawn at longitudes `[5, 6 = 2π]` -/
noncomputable def c08Surface5 : Surface ℚ := c08Surface.shift c08Transc ⟨4, 0⟩

theorem c08Surface5_hit (q : P2 ℚ) (v : ℚ) (h : @Surface.Hit ℚ (fieldScalar c08Transc) c08Surface5 q v) :
    1 / 2 ≤ q.x - 4 ∧ q.x - 4 ≤ 5 / 2 := by
  have e : q = P2.shift ⟨4, 0⟩ ⟨q.x - 4, q.y⟩ := by
    simp only [P2.shift, sub_add_cancel, add_zero]
  rw [e, c08Surface5, Surface.shift_hit] at h
  obtain ⟨t, hn, ha, _⟩ := h
  rw [(c08Surface_nodeTri t).mp hn] at ha
  exact c08Tri_accepts_x _ ha

theorem c08_otherPoint (p : P2 ℚ) : @otherPoint ℚ (fieldScalar c08Transc) p = ⟨p.x + (if p.x < 0 then 6 else -6), p.y⟩ := by
  have hx := otherPoint_x c08Transc p
  have hy := otherPoint_y c08Transc p
  show (⟨(@otherPoint ℚ (fieldScalar c08Transc) p).x, (@otherPoint ℚ (fieldScalar c08Transc) p).y⟩ : P2 ℚ) = _
  rw [hx, hy]
  have e : c08Transc.pi = 3 := rfl
  rw [e]
  norm_num

theorem c08Surface5_singleValued : Surface.SingleValuedAt c08Transc c08Surface5 ⟨0, 0⟩ := by
  have e : (⟨0, 0⟩ : P2 ℚ) = P2.shift ⟨4, 0⟩ ⟨-4, 0⟩ := by
    simp only [P2.shift]; norm_num
  rw [e]
  exact Surface.singleValuedAt_shift c08Transc ⟨4, 0⟩ c08Surface _ (c08Surface_singleValued _)

/-- the vertices of the triangle drawn at `[5, 2π]`, and of its copy offset by `−1`, have their longitudes within `[−2π, 2π]` -/
theorem c08Surface5_vertices (t : Tri ℚ) (ht : c08Surface5.NodeTri t) :
    ∀ v ∈ [t.p0, t.p1, t.p2], (-(2 * c08Transc.pi) ≤ v.x ∧ v.x ≤ 2 * c08Transc.pi) ∧
      (-(2 * c08Transc.pi) ≤ v.x + -1 ∧ v.x + -1 ≤ 2 * c08Transc.pi) := by
  obtain ⟨t0, h0, rfl⟩ := (Surface.shift_nodeTri c08Transc _ _ _).mp ht
  rw [(c08Surface_nodeTri t0).mp h0]
  have e : c08Transc.pi = 3 := rfl
  rw [e]
  intro v hv
  simp only [List.mem_cons, List.not_mem_nil, or_false] at hv
  rcases hv with rfl | rfl | rfl <;> simp only [Tri.shift, P3.shiftXY', c08Tri] <;> norm_num

/-- at the query `(0, 0)` neither tried description (`0`, `−2π`) is in the triangle drawn at `[5, 2π]`: "not in any triangle" -/
theorem c08Surface5_at_zero :
    @Surface.localValue ℚ (fieldScalar c08Transc) c08Surface5 true ⟨0, 0⟩ = .error .notInTriangle := by
  have hpos : 0 < c08Surface5.nodes.size := by simp [c08Surface5, Surface.shift, c08Surface]
  rcases @Surface.localValue_spherical_spec ℚ (fieldScalar c08Transc) c08Surface5 (Surface.shift_preOk c08Transc _ _)
    (Surface.shift_nodesOk c08Transc _ _ c08Surface_nodesOk) rfl hpos ⟨0, 0⟩ with ⟨v, _, h | h⟩ | ⟨h, _⟩
  · have := c08Surface5_hit _ v h
    norm_num at this
  · rw [c08_otherPoint] at h
    have := c08Surface5_hit _ v h
    norm_num at this
  · exact h

/-- everything offset by `d = −1`: the triangle is drawn at `[4, 5]`, the canonical query longitude is `−1`, its other description
`−1 + 2π = 5` is the vertex `(5, 0)`: a value is returned -/
theorem c08Surface5_offset :
    ∃ v, @Surface.localValue ℚ (fieldScalar c08Transc) (c08Surface5.shift c08Transc ⟨-1, 0⟩) true ⟨-1, 0⟩ = .ok v := by
  have hpos : 0 < (c08Surface5.shift c08Transc ⟨-1, 0⟩).nodes.size := by simp [c08Surface5, Surface.shift, c08Surface]
  rcases @Surface.localValue_spherical_spec ℚ (fieldScalar c08Transc) (c08Surface5.shift c08Transc ⟨-1, 0⟩)
    (Surface.shift_preOk c08Transc _ _)
    (Surface.shift_nodesOk c08Transc _ _ (Surface.shift_nodesOk c08Transc _ _ c08Surface_nodesOk)) rfl hpos ⟨-1, 0⟩ with
    ⟨v, h, _⟩ | ⟨_, hno⟩
  · exact ⟨v, h⟩
  · exfalso
    have hn : (c08Surface5.shift c08Transc ⟨-1, 0⟩).NodeTri ((c08Tri.shift ⟨4, 0⟩).shift ⟨-1, 0⟩) :=
      (Surface.shift_nodeTri c08Transc _ _ _).mpr ⟨_, (Surface.shift_nodeTri c08Transc _ _ _).mpr
        ⟨c08Tri, (c08Surface_nodeTri _).mpr rfl, rfl⟩, rfl⟩
    apply (hno _ hn).2
    rw [c08_otherPoint]
    have e : (⟨(⟨-1, 0⟩ : P2 ℚ).x + (if (⟨-1, 0⟩ : P2 ℚ).x < 0 then 6 else -6), (⟨-1, 0⟩ : P2 ℚ).y⟩ : P2 ℚ) =
        P2.shift ⟨-1, 0⟩ (P2.shift ⟨4, 0⟩ ⟨2, 0⟩) := by
      simp only [P2.shift]
      norm_num
    rw [e, Tri.accepts_shift, Tri.accepts_shift, c08Tri_accepts]
    norm_num


/-! ## Part C: the description of the query chosen for the slab / fault frame -/
section generic
variable {R : Type} [Scalar R]

/-- the description of the query's surface point used for the side test of the slab / fault frame: the one of `x`, `x + 2π`, `x − 2π`
whose longitude is closest to the trench point `pk` (utilities.cc:620-637; Model/Geometry/Dpfcp.lean, `cs2dTemp`) -/
def dpfcpAlias (cs : P2 R) (pkx : R) : P2 R :=
  let normal := fabs (pkx - cs.x)
  let plus := fabs (pkx - (cs.x + (2 : R) * Scalar.pi))
  let minus := fabs (pkx - (cs.x - (2 : R) * Scalar.pi))
  if plus < normal then (⟨cs.x + (2 : R) * Scalar.pi, cs.y⟩ : P2 R)
  else if minus < normal then ⟨cs.x - (2 : R) * Scalar.pi, cs.y⟩
  else cs

/-- the test "the query is on (vertically below) the trench" of `distance_point_from_curved_planes` (utilities.cc:489): the NATURAL
coordinates of the query's surface point and of the foot point on the trench curve differ by less than `2e-14` -/
def DpfcpOnTrench (checkSurface clSurface : P3 R) : Prop := fabs (P3.norm (checkSurface - clSurface)) < (2e-14 : R)

instance (a b : P3 R) : Decidable (DpfcpOnTrench a b) := by unfold DpfcpOnTrench; exact inferInstance

/-- the step of `2π` that brings the query longitude `cx` next to the foot point's longitude `clx` (utilities.cc, upstream 'fix: on-trench
test compared longitudes that can be 2 pi apart'): the on-trench test and the side test of the on-trench branch use `cx + shift` -/
def dpfcpLonShift (cx clx : R) : R :=
  let dl := cx - clx
  if dl > Scalar.pi then (-2.0 : R) * Scalar.pi else if dl < -Scalar.pi then (2.0 : R) * Scalar.pi else 0.0

/-- `distancePointFromCurvedPlanes` (Model/Geometry/Dpfcp.lean) with the alignment of the query longitude written as `dpfcpLonShift`, the
on-trench test written as `DpfcpOnTrench` and the choice of the query's description for the side test written as `dpfcpAlias` -/
def distancePointFromCurvedPlanesA (coord : CoordSys R) (checkPoint nat : P3 R) (reference : P2 R) (pointList : List (P2 R))
    (lengths : List (List R)) (angles : List (List (P2 R))) (startRadius : R) (onlyPositive : Bool) (bz : Bezier R) :
    Except Err (PlaneDist R) := do
  let sph := coord.spherical
  let cart := !sph
  let checkSurface : P3 R := ⟨if cart then nat.x else startRadius, nat.y, if cart then startRadius else nat.z⟩
  let checkSurface2d := surfacePoint sph nat
  let cpo ← bz.closestPoint sph checkSurface2d
  match cpo with
  | none =>
    -- `closest_point_on_line_2d` is NaN: nothing is computed, the sentinels are returned
    let nan : R := Scalar.inf - Scalar.inf
    return { distanceFromPlane := Scalar.inf, distanceAlongPlane := Scalar.inf, fractionOfSection := 0.0, fractionOfSegment := 0.0,
             sectionIdx := 0, segment := 0, averageAngle := 0.0, depthReferenceSurface := 0.0,
             closestTrenchPoint := coord.toCartesian (surface3 sph ⟨nan, nan⟩ startRadius) }
  | some cp =>
    let cl2d := cp.point
    let clSurface := surface3 sph cl2d startRadius
    let clCart := coord.toCartesian clSurface
    let iSec := cp.index
    let fraction := cp.fraction
    let clBottom : P3 R := if cart then { clSurface with z := 0 } else { clSurface with x := 0 }
    let clBottomCart := coord.toCartesian clBottom
    let checkSurfaceCart := coord.toCartesian checkSurface
    let yAxis0 := clCart - clBottomCart
    let xAxis0 := clCart - checkSurfaceCart
    let angsCur ← idx angles iSec
    let angsNext ← idx angles (iSec + 1)
    let lensCur ← idx lengths iSec
    let lensNext ← idx lengths (iSec + 1)
    -- spherical: the description of the check point closest in longitude to the closest trench point decides 'on or below the trench'
    -- (upstream 'fix: on-trench test compared longitudes that can be 2 pi apart')
    let lonShift : R := dpfcpLonShift checkSurface2d.x cl2d.x
    let checkSurfaceAl : P3 R := if cart then checkSurface else { checkSurface with y := checkSurface.y + lonShift }
    let checkSurface2dAl : P2 R := if cart then checkSurface2d else ⟨checkSurface2d.x + lonShift, checkSurface2d.y⟩
    -- the frame
    let frame : Except Err (Option (P3 R × P3 R)) :=
      if DpfcpOnTrench checkSurfaceAl clSurface then
        if fabs (P3.norm (checkPoint - clCart)) > (2e-14 : R) then do
          let p1 ← idx pointList iSec
          let p2 ← idx pointList (iSec + 1)
          let p1p2 := p2 - p1
          let un := P2.sdiv p1p2 (P2.norm p1p2)
          let nrm := P2.norm cl2d
          let f := (1e-8 : R) * (if nrm > 1.0 then nrm else 1.0)
          let plus : P2 R := cl2d + P2.smul' un f
          let plusCart := coord.toCartesian (surface3 sph plus startRadius)
          let ntp := plusCart - clCart
          let ntp := P3.sdiv ntp (P3.norm ntp)
          let y := clCart - clBottomCart
          let y := P3.sdiv y (P3.norm y)
          let vx := y.x; let vy := y.y; let vz := y.z
          let ux := ntp.x; let uy := ntp.y; let uz := ntp.z
          let x : P3 R := ⟨ux * ux * vx + ux * uy * vy - uz * vy + uy * uz * vz + uy * vz,
                           uy * ux * vx + uz * vx + uy * uy * vy + uy * uz * vz - ux * vz,
                           uz * ux * vx - uy * vx + uz * uy * vy + ux * vy + uz * uz * vz⟩
          -- `((normal - closest)*1e2) + closest`
          let refp : P2 R := ⟨(cp.normal.x - cl2d.x) * (1e2 : R) + cl2d.x, (cp.normal.y - cl2d.y) * (1e2 : R) + cl2d.y⟩
          let side : R := if P2.normSq (cl2d - refp) < P2.normSq (checkSurface2dAl - refp) then -1 else 1
          let x := P3.smul' x (side / P3.norm x)
          pure (some (x, y))
        else pure none
      else do
        let y := P3.sdiv yAxis0 (P3.norm yAxis0)
        let cs2dTemp ← (if !cart then do
            let k := iSec + (if round fraction ≥ 1.0 then 1 else 0)     -- `static_cast<size_t>(std::round(fraction))`, fraction ∈ [-1e-8, 1+1e-8]
            let pk ← idx pointList k
            pure (dpfcpAlias checkSurface2d pk.x)
          else pure checkSurface2d : Except Err (P2 R))
        let dref := P2.distanceTo sph cl2d reference
        let abn : P2 R := ⟨cp.normal.x * dref, cp.normal.y * dref⟩
        let localRef : P2 R := ⟨abn.x * (1.0 : R) + cl2d.x, abn.y * (1.0 : R) + cl2d.y⟩
        -- `(check − foot) · (local reference − foot) < 0` (was a comparison of distances to the local reference point; fixed upstream,
        -- 'fix: slab and fault side test flipped for points farther from the trench than twice the dip point')
        let refNormalSide := decide (P2.dot (cs2dTemp - cl2d) (localRef - cl2d) < 0.0)
        let pFirst ← idx pointList 0
        let pLast ← idx pointList (pointList.length - 1)
        let refPointSide := decide ((pLast.x - pFirst.x) * (reference.y - pFirst.y) - (reference.x - pFirst.x) * (pLast.y - pFirst.y) < 0.0)
        let side : R := if refNormalSide == refPointSide then 1 else -1
        pure (some (P3.smul' xAxis0 (side / P3.norm xAxis0), y))
    match ← frame with
    | none =>
      let a0 ← idx angsCur 0
      let a1 ← idx angsNext 0
      return { distanceFromPlane := 0.0, distanceAlongPlane := 0.0, fractionOfSection := fraction, fractionOfSegment := 0.0,
               sectionIdx := iSec, segment := 0, averageAngle := a0.x + fraction * (a1.x - a0.x), depthReferenceSurface := 0.0,
               closestTrenchPoint := clCart }
    | some (xAxis, yAxis) =>
      let check2d : P2 R := ⟨P3.dot xAxis (checkPoint - clBottomCart), P3.dot yAxis (checkPoint - clBottomCart)⟩
      let begin0 : P2 R := ⟨P3.dot xAxis (clCart - clBottomCart), P3.dot yAxis (clCart - clBottomCart)⟩
      let s0 : SegState R :=
        { distance := Scalar.inf, newDistance := Scalar.inf, along := Scalar.inf, newAlong := Scalar.inf, newDepthRef := Scalar.inf,
          segment := 0, segmentFraction := 0.0, totalAverageAngle := 0.0, depthRef := 0.0,
          beginSeg := begin0, endSeg := begin0, totalLength := 0.0, addAngle := 0.0, addAngleCorrection := 0.0, averageAngle := 0.0, found := false }
      let s ← segmentLoop coord.depthMethod onlyPositive startRadius fraction check2d angsCur angsNext lensCur lensNext (lensCur.length + 1) 0 s0
      return { distanceFromPlane := s.distance, distanceAlongPlane := s.along,
               fractionOfSection := if s.found then fraction else 0.0, fractionOfSegment := s.segmentFraction,
               sectionIdx := if s.found then iSec else 0, segment := s.segment, averageAngle := s.totalAverageAngle,
               depthReferenceSurface := s.depthRef, closestTrenchPoint := clCart }

theorem distancePointFromCurvedPlanes_eq_A (coord : CoordSys R) (checkPoint nat : P3 R) (reference : P2 R) (pointList : List (P2 R))
    (lengths : List (List R)) (angles : List (List (P2 R))) (startRadius : R) (onlyPositive : Bool) (bz : Bezier R) :
    distancePointFromCurvedPlanes coord checkPoint nat reference pointList lengths angles startRadius onlyPositive bz =
      distancePointFromCurvedPlanesA coord checkPoint nat reference pointList lengths angles startRadius onlyPositive bz := rfl
end generic

section field
variable {F : Type} [Field F] [LinearOrder F] [IsStrictOrderedRing F] (T : Transc F)

theorem dpfcpAlias_field (cs : P2 F) (m : F) :
    @dpfcpAlias F (fieldScalar T) cs m =
      if |m - (cs.x + 2 * T.pi)| < |m - cs.x| then ⟨cs.x + 2 * T.pi, cs.y⟩
      else if |m - (cs.x - 2 * T.pi)| < |m - cs.x| then ⟨cs.x - 2 * T.pi, cs.y⟩ else cs := by
  unfold dpfcpAlias
  simp only [fabs_eq_abs]
  sfield

/-- the chosen description is within `π` of the trench longitude `m` when the query longitude is at most `3π` away (one step of `2π`
suffices: canonical query, trench longitude in `[−2π, 2π]`) -/
theorem dpfcpAlias_spec (cs : P2 F) (m : F) (hr : |cs.x - m| ≤ 3 * T.pi) :
    |(@dpfcpAlias F (fieldScalar T) cs m).x - m| ≤ T.pi ∧ (@dpfcpAlias F (fieldScalar T) cs m).y = cs.y ∧
    ∃ k : ℤ, (k = 0 ∨ k = 1 ∨ k = -1) ∧ (@dpfcpAlias F (fieldScalar T) cs m).x = cs.x + 2 * T.pi * k := by
  rw [dpfcpAlias_field]
  rw [abs_le] at hr
  split_ifs with h1 h2
  · refine ⟨?_, rfl, 1, Or.inr (Or.inl rfl), by simp⟩
    rw [abs_le]
    rcases abs_cases (m - (cs.x + 2 * T.pi)) with ⟨e1, _⟩ | ⟨e1, _⟩ <;>
      rcases abs_cases (m - cs.x) with ⟨e2, _⟩ | ⟨e2, _⟩ <;> constructor <;> simp only <;> linarith [hr.1, hr.2]
  · refine ⟨?_, rfl, -1, Or.inr (Or.inr rfl), by push_cast; ring⟩
    rw [abs_le]
    rcases abs_cases (m - (cs.x - 2 * T.pi)) with ⟨e1, _⟩ | ⟨e1, _⟩ <;>
      rcases abs_cases (m - cs.x) with ⟨e2, _⟩ | ⟨e2, _⟩ <;> constructor <;> simp only <;> linarith [hr.1, hr.2]
  · refine ⟨?_, rfl, 0, Or.inl rfl, by simp⟩
    rw [abs_le]
    rcases abs_cases (m - (cs.x + 2 * T.pi)) with ⟨e1, _⟩ | ⟨e1, _⟩ <;>
      rcases abs_cases (m - (cs.x - 2 * T.pi)) with ⟨e3, _⟩ | ⟨e3, _⟩ <;>
      rcases abs_cases (m - cs.x) with ⟨e2, _⟩ | ⟨e2, _⟩ <;> constructor <;> linarith [hr.1, hr.2]

/-- **the chosen description is THE one within `π`**: if one of the three candidates `x`, `x + 2π`, `x − 2π` is strictly within `π` of
the trench longitude, it is the one chosen -/
theorem dpfcpAlias_within (hπ : 0 < T.pi) (cs : P2 F) (m : F) (k : ℤ) (hk : k = 0 ∨ k = 1 ∨ k = -1)
    (h : |cs.x + 2 * T.pi * k - m| < T.pi) :
    @dpfcpAlias F (fieldScalar T) cs m = ⟨cs.x + 2 * T.pi * k, cs.y⟩ := by
  have hr : |cs.x - m| ≤ 3 * T.pi := by
    rw [abs_lt] at h
    rw [abs_le]
    rcases hk with rfl | rfl | rfl <;> constructor <;> push_cast at h <;> linarith [h.1, h.2]
  obtain ⟨a1, a2, k', _, a3⟩ := dpfcpAlias_spec T cs m hr
  have hlt : |cs.x + 2 * T.pi * (k' : F) - m| ≤ T.pi := by rw [← a3]; exact a1
  -- `k'` and `k` differ by less than one turn
  have hkk : k' = k := by
    rw [abs_lt] at h
    rw [abs_le] at hlt
    have h1 : k' < k + 1 := by
      apply int_lt_of_two_pi_mul_lt hπ
      push_cast; linarith [h.1, hlt.2]
    have h2 : k < k' + 1 := by
      apply int_lt_of_two_pi_mul_lt hπ
      push_cast; linarith [h.2, hlt.1]
    omega
  show (⟨(@dpfcpAlias F (fieldScalar T) cs m).x, (@dpfcpAlias F (fieldScalar T) cs m).y⟩ : P2 F) = _
  rw [a3, a2, hkk]

/-- **the choice commutes with a common longitude offset**, also across the `±π` meridian: trench longitude `m + d`, query longitude
`x' = x + d + 2πj`; both query longitudes at most `3π` from the trench longitude, no tie (no description of the query exactly `π` away) -/
theorem dpfcpAlias_lon_offset (hπ : 0 < T.pi) (d : F) (cs cs' : P2 F) (m : F) (j : ℤ)
    (hrel : cs'.x = cs.x + d + 2 * T.pi * j) (hy : cs'.y = cs.y)
    (hr : |cs.x - m| ≤ 3 * T.pi) (hr' : |cs'.x - (m + d)| ≤ 3 * T.pi) (hnt : ∀ k : ℤ, |cs.x + 2 * T.pi * k - m| ≠ T.pi) :
    @dpfcpAlias F (fieldScalar T) cs' (m + d) = P2.shift ⟨d, 0⟩ (@dpfcpAlias F (fieldScalar T) cs m) := by
  obtain ⟨a1, a2, k, _, a3⟩ := dpfcpAlias_spec T cs m hr
  obtain ⟨b1, b2, k', _, b3⟩ := dpfcpAlias_spec T cs' (m + d) hr'
  generalize @dpfcpAlias F (fieldScalar T) cs m = a at *
  generalize @dpfcpAlias F (fieldScalar T) cs' (m + d) = b at *
  have e' : b.x - (m + d) = cs.x + 2 * T.pi * ((j + k' : ℤ) : F) - m := by rw [b3, hrel]; push_cast; ring
  have a1' : |cs.x + 2 * T.pi * (k : F) - m| < T.pi := by
    rw [a3] at a1; exact lt_of_le_of_ne a1 (hnt k)
  have b1' : |cs.x + 2 * T.pi * ((j + k' : ℤ) : F) - m| < T.pi := by
    rw [e'] at b1; exact lt_of_le_of_ne b1 (hnt (j + k'))
  have hk : k = j + k' := alias_unique T hπ cs.x m k (j + k') a1' b1'
  cases a; cases b
  simp only [P2.shift, P2.mk.injEq, add_zero] at *
  refine ⟨?_, by rw [b2, hy, a2]⟩
  rw [b3, a3, hrel, hk]; push_cast; ring

/-- the on-trench test in field vocabulary -/
theorem dpfcpOnTrench_field (a b : P3 F) :
    @DpfcpOnTrench F (fieldScalar T) a b ↔
      |T.sqrt ((a.x - b.x) * (a.x - b.x) + (a.y - b.y) * (a.y - b.y) + (a.z - b.z) * (a.z - b.z))| < 2 / 10 ^ 14 := by
  unfold DpfcpOnTrench
  rw [fabs_eq_abs]
  have e : @OfScientific.ofScientific F (@Scalar.instOfScientific F (fieldScalar T)) 2 true 14 = (2 / 10 ^ 14 : F) := by
    show ((OfScientific.ofScientific 2 true 14 : ℚ) : F) = 2 / 10 ^ 14
    norm_num
  rw [e]
  rfl

/-- **the on-trench test is not invariant under the description of the longitude** (`sqrt 0 = 0`, `sqrt (x·x) = |x|`, `π ≥ 1`): a query
exactly above its foot point passes the test when both carry the same description of the longitude, and fails it when the foot point
(which carries the description the TRENCH was written with) is `2π` away — although both describe the same point of the sphere
(`C08_longitude_alias_same_point`).  The generic branch then normalises `closest − check` (Cartesian), which is the zero vector. -/
theorem dpfcpOnTrench_alias (hs0 : T.sqrt 0 = 0) (hs : ∀ x : F, T.sqrt (x * x) = |x|) (hπ : 1 ≤ T.pi) (r L lat : F) :
    @DpfcpOnTrench F (fieldScalar T) ⟨r, L, lat⟩ ⟨r, L, lat⟩ ∧ ¬ @DpfcpOnTrench F (fieldScalar T) ⟨r, L, lat⟩ ⟨r, L + 2 * T.pi, lat⟩ := by
  constructor
  · rw [dpfcpOnTrench_field]
    simp only [sub_self, mul_zero, add_zero, hs0, abs_zero]
    positivity
  · rw [dpfcpOnTrench_field]
    have e : (r - r) * (r - r) + (L - (L + 2 * T.pi)) * (L - (L + 2 * T.pi)) + (lat - lat) * (lat - lat) =
        (2 * T.pi) * (2 * T.pi) := by ring
    simp only [e, hs, abs_abs]
    rw [abs_of_pos (by linarith)]
    have : (2 / 10 ^ 14 : F) ≤ 2 := by
      rw [div_le_iff₀ (by positivity)]
      have : (1 : F) ≤ 10 ^ 14 := one_le_pow₀ (by norm_num)
      linarith
    linarith

/-- canonical query longitude, trench longitude within `[−2π, 2π]`: at most `3π` apart -/
theorem dpfcp_reach_of_range (x m : F) (hlo : -T.pi < x) (hhi : x ≤ T.pi) (h1 : -(2 * T.pi) ≤ m) (h2 : m ≤ 2 * T.pi) :
    |x - m| ≤ 3 * T.pi := by
  rw [abs_le]; constructor <;> linarith

end field

end Gwb
