/-
Helpers for C06, the circular (curved-segment) piece of the slab / fault walk: the `acos` sector bookkeeping.

`cpa0` / `arcCpa_field` / `arcAccept_field`: the code's angle and sector test over an ordered field; `ArcLaws T`: the libm laws used
(addition formulas, `cos π = −1`, `sin π = 0`, `sin > 0` on `(0, π)`, `acos (cos x) = x` on `[0, π]`, `2 ≤ π`, `PlaneLaws`);
`cpa0_polar`, `arcCpa_incr`, `arcCpa_decr`: the angle of the point at a polar position about the centre; `DipOK`, `arcCenter_eq`,
`arcEnd_incr / _decr`: centre and end point; `segArc_incr`, `segArc_decr`: everything `segArc` does; `realArcTransc`
(`acos = Real.arccos`), `real_arcLaws`, `real_dipOK_*`, `real_polar`: satisfiability over `ℝ`.
-/
import GwbVerif.Proofs.LineInstances
import Mathlib.Analysis.SpecialFunctions.Trigonometric.Inverse
namespace Gwb
open Scalar
set_option linter.unusedSectionVars false
set_option linter.unusedVariables false
set_option linter.unusedSimpArgs false

section arc
variable {F : Type} [Field F] [LinearOrder F] [IsStrictOrderedRing F] (T : Transc F)

theorem lit_1em12 : @OfScientific.ofScientific F (@Scalar.instOfScientific F (fieldScalar T)) 1 true 12 = (1 : F) / 10 ^ 12 := by
  rw [lit_sci]; norm_num

/-- the raw angle of the check point about the centre, before the `π − ·` / `2π − ·` flip: the counter-clockwise angle from the
upward vertical, in `[0, 2π]` -/
def cpa0 (q c : P2 F) (r : F) : F :=
  let n := T.sqrt ((q.x - c.x) * (q.x - c.x) + (q.y - c.y) * (q.y - c.y))
  if |n| < T.eps then 2 * T.pi
  else if q.x ≤ c.x then T.acos (((q.x - c.x) * 0 + (q.y - c.y) * r) / (n * r))
  else 2 * T.pi - T.acos (((q.x - c.x) * 0 + (q.y - c.y) * r) / (n * r))

theorem arcCpa_field (q c : P2 F) (r diff : F) :
    @arcCpa F (fieldScalar T) q c r diff =
      (if |(if diff ≥ 0 then T.pi - cpa0 T q c r else 2 * T.pi - cpa0 T q c r) - 2 * T.pi| < 1 / 10 ^ 14 then 0
       else (if diff ≥ 0 then T.pi - cpa0 T q c r else 2 * T.pi - cpa0 T q c r)) := by
  unfold arcCpa cpa0
  simp only [fabs_eq_abs, lit_2_0, lit_2, lit_0, lit_1em14, p2norm_field]
  rfl

theorem sc_pi : @Scalar.pi F (fieldScalar T) = T.pi := rfl
theorem sc_sin (x : F) : @Scalar.sin F (fieldScalar T) x = T.sin x := rfl
theorem sc_cos (x : F) : @Scalar.cos F (fieldScalar T) x = T.cos x := rfl
theorem sc_tan (x : F) : @Scalar.tan F (fieldScalar T) x = T.tan x := rfl

/-- "`a ≤ b` up to the code's angular tolerance `1e-12`" -/
def tolLe (a b : F) : Prop := a ≤ b ∨ |a - b| < 1 / 10 ^ 12

theorem arcAccept_field (diff cpa θ β : F) :
    @arcAccept F (fieldScalar T) diff cpa θ β ↔
      ((0 < diff ∧ (cpa ≤ θ ∨ |cpa - θ| < 1 / 10 ^ 12) ∧ (β ≤ cpa ∨ |cpa - β| < 1 / 10 ^ 12)) ∨
       (diff < 0 ∧ (θ ≤ cpa ∨ |cpa - θ| < 1 / 10 ^ 12) ∧ (cpa ≤ β ∨ |cpa - β| < 1 / 10 ^ 12))) := by
  unfold arcAccept
  simp only [fabs_eq_abs, lit_1em12, lit_0]

/-- the laws of the libm members the sector bookkeeping of the circular piece needs -/
structure ArcLaws (T : Transc F) : Prop where
  plane : PlaneLaws T
  pi_ge : 2 ≤ T.pi
  cos_add : ∀ x y, T.cos (x + y) = T.cos x * T.cos y - T.sin x * T.sin y
  sin_add : ∀ x y, T.sin (x + y) = T.sin x * T.cos y + T.cos x * T.sin y
  cos_sub : ∀ x y, T.cos (x - y) = T.cos x * T.cos y + T.sin x * T.sin y
  sin_sub : ∀ x y, T.sin (x - y) = T.sin x * T.cos y - T.cos x * T.sin y
  cos_pi : T.cos T.pi = -1
  sin_pi : T.sin T.pi = 0
  sin_pos : ∀ x, 0 < x → x < T.pi → 0 < T.sin x
  acos_cos : ∀ x, 0 ≤ x → x ≤ T.pi → T.acos (T.cos x) = x

variable {T}

theorem ArcLaws.pi_pos (L : ArcLaws T) : 0 < T.pi := lt_of_lt_of_le (by norm_num) L.pi_ge
theorem ArcLaws.sq (L : ArcLaws T) (x : F) : T.sin x * T.sin x + T.cos x * T.cos x = 1 := L.plane.sin_sq_add_cos_sq x
theorem ArcLaws.cos_zero (L : ArcLaws T) : T.cos 0 = 1 := by
  have h := L.cos_sub 0 0
  rw [sub_zero] at h
  have h2 := L.sq 0
  linear_combination h + h2
theorem ArcLaws.sin_zero (L : ArcLaws T) : T.sin 0 = 0 := by
  have h := L.sin_sub 0 0
  rw [sub_zero] at h
  linear_combination h
theorem ArcLaws.cos_two_pi (L : ArcLaws T) : T.cos (2 * T.pi) = 1 := by
  rw [two_mul, L.cos_add, L.cos_pi, L.sin_pi]; ring
theorem ArcLaws.sin_two_pi (L : ArcLaws T) : T.sin (2 * T.pi) = 0 := by
  rw [two_mul, L.sin_add, L.cos_pi, L.sin_pi]; ring
theorem ArcLaws.cos_two_pi_sub (L : ArcLaws T) (x : F) : T.cos (2 * T.pi - x) = T.cos x := by
  rw [L.cos_sub, L.cos_two_pi, L.sin_two_pi]; ring
theorem ArcLaws.sin_two_pi_sub (L : ArcLaws T) (x : F) : T.sin (2 * T.pi - x) = -T.sin x := by
  rw [L.sin_sub, L.cos_two_pi, L.sin_two_pi]; ring
theorem ArcLaws.cos_add_pi (L : ArcLaws T) (x : F) : T.cos (x + T.pi) = -T.cos x := by
  rw [L.cos_add, L.cos_pi, L.sin_pi]; ring
theorem ArcLaws.sin_add_pi (L : ArcLaws T) (x : F) : T.sin (x + T.pi) = -T.sin x := by
  rw [L.sin_add, L.cos_pi, L.sin_pi]; ring
theorem ArcLaws.cos_add_two_pi (L : ArcLaws T) (x : F) : T.cos (x + 2 * T.pi) = T.cos x := by
  rw [L.cos_add, L.cos_two_pi, L.sin_two_pi]; ring
theorem ArcLaws.sin_add_two_pi (L : ArcLaws T) (x : F) : T.sin (x + 2 * T.pi) = T.sin x := by
  rw [L.sin_add, L.cos_two_pi, L.sin_two_pi]; ring

theorem ArcLaws.cos_sub_two_pi (L : ArcLaws T) (x : F) : T.cos (x - 2 * T.pi) = T.cos x := by
  rw [L.cos_sub, L.cos_two_pi, L.sin_two_pi]; ring
theorem ArcLaws.sin_sub_two_pi (L : ArcLaws T) (x : F) : T.sin (x - 2 * T.pi) = T.sin x := by
  rw [L.sin_sub, L.cos_two_pi, L.sin_two_pi]; ring

/-- the raw angle of the point at polar position `(ρ, α)` about the centre (`α` clockwise from the upward vertical, in `[0, 2π)`):
the counter-clockwise angle `2π − α` (`0` for `α = 0`) -/
theorem cpa0_polar (L : ArcLaws T) (q c : P2 F) (r ρ α : F) (hr : 0 < r) (hρ : 0 < ρ) (hε : ¬ ρ < T.eps)
    (h0 : 0 ≤ α) (h1 : α < 2 * T.pi) (hx : q.x - c.x = ρ * T.sin α) (hy : q.y - c.y = ρ * T.cos α) :
    cpa0 T q c r = if α = 0 then 0 else 2 * T.pi - α := by
  have hpi := L.pi_pos
  unfold cpa0
  dsimp only
  rw [hx, hy]
  have hn : ρ * T.sin α * (ρ * T.sin α) + ρ * T.cos α * (ρ * T.cos α) = ρ * ρ := by
    linear_combination (ρ * ρ) * L.sq α
  rw [hn, L.plane.sqrt_mul_self, abs_abs, abs_of_pos hρ, if_neg hε]
  have harg : (ρ * T.sin α * 0 + ρ * T.cos α * r) / (ρ * r) = T.cos α := by
    field_simp
    ring
  rw [harg]
  have hle : q.x ≤ c.x ↔ T.sin α ≤ 0 := by
    rw [← sub_nonpos, hx]
    constructor
    · intro h
      by_contra hc
      rw [not_le] at hc
      exact absurd (mul_pos hρ hc) (not_lt.mpr h)
    · intro h
      exact mul_nonpos_of_nonneg_of_nonpos hρ.le h
  by_cases hα0 : α = 0
  · rw [if_pos hα0, hα0, if_pos (hle.2 (by rw [hα0, L.sin_zero])), L.acos_cos 0 le_rfl hpi.le]
  rw [if_neg hα0]
  have hαpos : 0 < α := lt_of_le_of_ne h0 (Ne.symm hα0)
  by_cases hlt : α < T.pi
  · have hs := L.sin_pos α hαpos hlt
    rw [if_neg (fun h => absurd (hle.1 h) (not_le.mpr hs)), L.acos_cos α h0 hlt.le]
  · rw [not_lt] at hlt
    have hs : T.sin α ≤ 0 := by
      have h2 := L.sin_two_pi_sub α
      rcases eq_or_lt_of_le hlt with heq | hlt'
      · rw [← heq, L.sin_pi]
      · have := L.sin_pos (2 * T.pi - α) (by linarith) (by linarith)
        linarith
    rw [if_pos (hle.2 hs), ← L.cos_two_pi_sub α, L.acos_cos _ (by linarith) (by linarith)]

/-- dip increasing downwards (`diff < 0`, centre below the surface): the code's angle of the point at polar position `(ρ, ψ)`
about the centre — `ψ` clockwise from the upward vertical, i.e. the dip of the circle at the foot — is `ψ` itself, for
`0 ≤ ψ ≤ 2π − 1e-14` -/
theorem arcCpa_incr (L : ArcLaws T) (q c : P2 F) (r diff ρ ψ : F) (hd : diff < 0) (hr : 0 < r) (hρ : 0 < ρ) (hε : ¬ ρ < T.eps)
    (h0 : 0 ≤ ψ) (h1 : ψ ≤ 2 * T.pi - 1 / 10 ^ 14) (hx : q.x - c.x = ρ * T.sin ψ) (hy : q.y - c.y = ρ * T.cos ψ) :
    @arcCpa F (fieldScalar T) q c r diff = ψ := by
  have hpi := L.pi_pos
  have htiny : (0 : F) < 1 / 10 ^ 14 := by positivity
  rw [arcCpa_field, if_neg (not_le.mpr hd), cpa0_polar L q c r ρ ψ hr hρ hε h0 (by linarith) hx hy]
  by_cases hψ : ψ = 0
  · rw [if_pos hψ, sub_zero, sub_self, abs_zero, if_pos htiny, hψ]
  · rw [if_neg hψ]
    have he : 2 * T.pi - (2 * T.pi - ψ) = ψ := by ring
    rw [he, if_neg]
    rw [abs_of_nonpos (by linarith)]
    linarith

/-- dip decreasing downwards (`diff ≥ 0`, centre above the surface): the code's angle of the point `centre − ρ(sin ψ, cos ψ)` — again
`ψ` is the dip of the circle at the foot — is `ψ`, for `−π < ψ ≤ π` -/
theorem arcCpa_decr (L : ArcLaws T) (q c : P2 F) (r diff ρ ψ : F) (hd : 0 ≤ diff) (hr : 0 < r) (hρ : 0 < ρ) (hε : ¬ ρ < T.eps)
    (h0 : -T.pi < ψ) (h1 : ψ ≤ T.pi) (hx : q.x - c.x = -(ρ * T.sin ψ)) (hy : q.y - c.y = -(ρ * T.cos ψ)) :
    @arcCpa F (fieldScalar T) q c r diff = ψ := by
  have hpi := L.pi_ge
  have htiny : (1 : F) / 10 ^ 14 < 1 := by
    rw [div_lt_one (by positivity)]
    norm_num
  rw [arcCpa_field, if_pos hd]
  by_cases hψ : ψ = T.pi
  · have hx' : q.x - c.x = ρ * T.sin 0 := by rw [hx, hψ, L.sin_pi, L.sin_zero]; ring
    have hy' : q.y - c.y = ρ * T.cos 0 := by rw [hy, hψ, L.cos_pi, L.cos_zero]; ring
    rw [cpa0_polar L q c r ρ 0 hr hρ hε le_rfl (by linarith) hx' hy', if_pos rfl, sub_zero, if_neg, hψ]
    rw [abs_of_nonpos (by linarith)]
    linarith
  · have hx' : q.x - c.x = ρ * T.sin (ψ + T.pi) := by rw [hx, L.sin_add_pi]; ring
    have hy' : q.y - c.y = ρ * T.cos (ψ + T.pi) := by rw [hy, L.cos_add_pi]; ring
    have hlt : ψ < T.pi := lt_of_le_of_ne h1 hψ
    rw [cpa0_polar L q c r ρ (ψ + T.pi) hr hρ hε (by linarith) (by linarith) hx' hy']
    have hne : ¬ (ψ + T.pi = 0) := by intro h; linarith
    rw [if_neg hne]
    have he : T.pi - (2 * T.pi - (ψ + T.pi)) = ψ := by ring
    rw [he, if_neg]
    rw [abs_of_nonpos (by linarith)]
    linarith

/-- the dip at the top of the piece is one the centre computation handles exactly: inside the two windows of width `1e-8` in which
the code replaces the dip by the vertical it *is* vertical, outside them `cos θ ≠ 0` -/
structure DipOK (T : Transc F) (θ : F) : Prop where
  w1 : |θ - 1 / 2 * T.pi| < 1 / 10 ^ 8 → T.sin θ = 1 ∧ T.cos θ = 0
  w2 : |θ - 3 / 2 * T.pi| < 1 / 10 ^ 8 → T.sin θ = -1 ∧ T.cos θ = 0
  gen : ¬ |θ - 1 / 2 * T.pi| < 1 / 10 ^ 8 → ¬ |θ - 3 / 2 * T.pi| < 1 / 10 ^ 8 → T.cos θ ≠ 0

/-- the centre lies on the normal of the incoming direction through the begin point `b`, at distance `r`: below the surface
(`b + r·n`, `n = (−sin θ, −cos θ)`) when the dip increases downwards, above it (`b − r·n`) when it decreases -/
theorem arcCenter_eq (L : PlaneLaws T) (b : P2 F) (θ diff r : F) (hθ : DipOK T θ) (hne : diff ≠ 0) :
    @arcCenter F (fieldScalar T) b θ diff r =
      if diff < 0 then ⟨b.x - r * T.sin θ, b.y - r * T.cos θ⟩ else ⟨b.x + r * T.sin θ, b.y + r * T.cos θ⟩ := by
  have l15 : @OfScientific.ofScientific F (@Scalar.instOfScientific F (fieldScalar T)) 15 true 1 = (3 : F) / 2 := by
    rw [lit_sci]; norm_num
  unfold arcCenter
  simp only [fabs_eq_abs, lit_1em8, lit_0_5, l15, lit_0, sc_pi, sc_cos, sc_tan]
  by_cases hneg : diff < 0
  · have hnpos : ¬ diff > 0 := not_lt.mpr hneg.le
    by_cases h1 : |θ - 1 / 2 * T.pi| < 1 / 10 ^ 8
    · obtain ⟨hs, hc⟩ := hθ.w1 h1
      simp only [h1, hneg, hnpos, if_true, if_false, hs, hc]; congr 1 <;> ring
    by_cases h2 : |θ - 3 / 2 * T.pi| < 1 / 10 ^ 8
    · obtain ⟨hs, hc⟩ := hθ.w2 h2
      simp only [h1, h2, hneg, hnpos, if_true, if_false, hs, hc]; congr 1 <;> ring
    have hc := hθ.gen h1 h2
    simp only [h1, h2, hneg, if_true, if_false, L.tan_eq θ hc]
    congr 1
    field_simp
    ring
  · have hpos : diff > 0 := lt_of_le_of_ne (not_lt.mp hneg) (Ne.symm hne)
    by_cases h1 : |θ - 1 / 2 * T.pi| < 1 / 10 ^ 8
    · obtain ⟨hs, hc⟩ := hθ.w1 h1
      simp only [h1, hneg, hpos, if_true, if_false, hs, hc]; congr 1 <;> ring
    by_cases h2 : |θ - 3 / 2 * T.pi| < 1 / 10 ^ 8
    · obtain ⟨hs, hc⟩ := hθ.w2 h2
      simp only [h1, h2, hneg, hpos, if_true, if_false, hs, hc]; congr 1 <;> ring
    have hc := hθ.gen h1 h2
    simp only [h1, h2, hneg, if_true, if_false, L.tan_eq θ hc]
    congr 1
    field_simp
    ring

theorem arcEnd_field (b c : P2 F) (d : F) :
    @arcEnd F (fieldScalar T) b c d =
      ⟨T.cos d * (b.x - c.x) - T.sin d * (b.y - c.y) + c.x, T.sin d * (b.x - c.x) + T.cos d * (b.y - c.y) + c.y⟩ := rfl

/-- dip increasing: the end point is the point of the circle whose dip is `β` -/
theorem arcEnd_incr (L : ArcLaws T) (b : P2 F) (θ β r : F) :
    @arcEnd F (fieldScalar T) b ⟨b.x - r * T.sin θ, b.y - r * T.cos θ⟩ (θ - β) =
      ⟨b.x - r * T.sin θ + r * T.sin β, b.y - r * T.cos θ + r * T.cos β⟩ := by
  rw [arcEnd_field]
  have hb : β = θ - (θ - β) := by ring
  have hs : T.sin β = T.sin θ * T.cos (θ - β) - T.cos θ * T.sin (θ - β) := by
    conv_lhs => rw [hb]
    exact L.sin_sub _ _
  have hc : T.cos β = T.cos θ * T.cos (θ - β) + T.sin θ * T.sin (θ - β) := by
    conv_lhs => rw [hb]
    exact L.cos_sub _ _
  rw [hs, hc]
  congr 1 <;> ring

/-- dip decreasing: the end point is the point of the circle whose dip is `β` -/
theorem arcEnd_decr (L : ArcLaws T) (b : P2 F) (θ β r : F) :
    @arcEnd F (fieldScalar T) b ⟨b.x + r * T.sin θ, b.y + r * T.cos θ⟩ (θ - β) =
      ⟨b.x + r * T.sin θ - r * T.sin β, b.y + r * T.cos θ - r * T.cos β⟩ := by
  rw [arcEnd_field]
  have hb : β = θ - (θ - β) := by ring
  have hs : T.sin β = T.sin θ * T.cos (θ - β) - T.cos θ * T.sin (θ - β) := by
    conv_lhs => rw [hb]
    exact L.sin_sub _ _
  have hc : T.cos β = T.cos θ * T.cos (θ - β) + T.sin θ * T.sin (θ - β) := by
    conv_lhs => rw [hb]
    exact L.cos_sub _ _
  rw [hs, hc]
  congr 1 <;> ring

/-- what the circular branch stores when the sector test accepts the point -/
theorem segArc_accept (startRadius : F) (q : P2 F) (θ β len : F) (s : SegState F) :
    let diff := θ - β
    let r := @arcRadius F (fieldScalar T) len diff
    let c := @arcCenter F (fieldScalar T) s.beginSeg θ diff r
    let cpa := @arcCpa F (fieldScalar T) q c r diff
    @arcAccept F (fieldScalar T) diff cpa θ β →
      (@segArc F (fieldScalar T) startRadius q θ β len s).newDistance = (r - T.sqrt ((q.x - c.x) * (q.x - c.x) + (q.y - c.y) * (q.y - c.y))) * (if diff < 0 then 1 else -1) ∧
      (@segArc F (fieldScalar T) startRadius q θ β len s).newAlong = (r * cpa - r * θ) * (if diff < 0 then 1 else -1) ∧
      (@segArc F (fieldScalar T) startRadius q θ β len s).newDepthRef =
        startRadius - (T.sin (cpa + θ) * (s.beginSeg.x - c.x) + T.cos (cpa + θ) * (s.beginSeg.y - c.y) + c.y) := by
  intro diff r c cpa h
  unfold segArc
  dsimp only
  rw [if_pos h]
  refine ⟨?_, ?_, rfl⟩
  · show @arcDistance F (fieldScalar T) q c r diff = _
    unfold arcDistance
    simp only [lit_0, lit_1, p2norm_field]
    rfl
  · show (r * cpa - r * θ) * _ = _
    simp only [lit_0, lit_1]
    rfl

/-- a rejected circular piece stores `+∞` in the reference depth too -/
theorem segArc_reject_depthRef (T : Transc F) (startRadius : F) (c : P2 F) (θ angBot len : F) (s : SegState F)
    (h : ¬ @arcAccept F (fieldScalar T) (θ - angBot)
      (@arcCpa F (fieldScalar T) c (@arcCenter F (fieldScalar T) s.beginSeg θ (θ - angBot) (@arcRadius F (fieldScalar T) len (θ - angBot)))
        (@arcRadius F (fieldScalar T) len (θ - angBot)) (θ - angBot)) θ angBot) :
    (@segArc F (fieldScalar T) startRadius c θ angBot len s).newDepthRef = T.inf := by
  unfold segArc
  dsimp only
  rw [if_neg h]
  rfl

theorem arcRadius_neg (len diff : F) (hd : diff < 0) (hlen : 0 < len) : @arcRadius F (fieldScalar T) len diff = len / (-diff) := by
  rw [arcRadius_field, abs_div, abs_of_pos hlen, abs_of_neg hd]
theorem arcRadius_pos (len diff : F) (hd : 0 < diff) (hlen : 0 < len) : @arcRadius F (fieldScalar T) len diff = len / diff := by
  rw [arcRadius_field, abs_div, abs_of_pos hlen, abs_of_pos hd]

/-- **the circular piece, dip increasing downwards** (`θ < β`): everything `segArc` does for the point at polar position `(ρ, ψ)`
about the centre -/
theorem segArc_incr (L : ArcLaws T) (startRadius θ β len : F) (s : SegState F) (hθ : DipOK T θ) (hd : θ - β < 0) (hlen : 0 < len)
    (ρ ψ : F) (hρ : 0 < ρ) (hε : ¬ ρ < T.eps) (h0 : 0 ≤ ψ) (h1 : ψ ≤ 2 * T.pi - 1 / 10 ^ 14) :
    let r := len / (β - θ)
    let c : P2 F := ⟨s.beginSeg.x - r * T.sin θ, s.beginSeg.y - r * T.cos θ⟩
    let q : P2 F := ⟨c.x + ρ * T.sin ψ, c.y + ρ * T.cos ψ⟩
    let g := @segArc F (fieldScalar T) startRadius q θ β len s
    let acc := @arcAccept F (fieldScalar T) (θ - β) (@arcCpa F (fieldScalar T) q
      (@arcCenter F (fieldScalar T) s.beginSeg θ (θ - β) (@arcRadius F (fieldScalar T) len (θ - β))) (@arcRadius F (fieldScalar T) len (θ - β)) (θ - β)) θ β
    @arcRadius F (fieldScalar T) len (θ - β) = r ∧ 0 < r ∧
    @arcCenter F (fieldScalar T) s.beginSeg θ (θ - β) (@arcRadius F (fieldScalar T) len (θ - β)) = c ∧
    g.endSeg = ⟨c.x + r * T.sin β, c.y + r * T.cos β⟩ ∧
    (acc ↔ ((θ ≤ ψ ∨ |ψ - θ| < 1 / 10 ^ 12) ∧ (ψ ≤ β ∨ |ψ - β| < 1 / 10 ^ 12))) ∧
    (acc → g.newAlong = r * (ψ - θ) ∧ g.newDistance = r - ρ ∧ g.newDepthRef = startRadius - (c.y + r * T.cos ψ)) ∧
    (¬ acc → g.newAlong = T.inf ∧ g.newDistance = T.inf ∧ g.newDepthRef = T.inf) := by
  intro r c q g acc
  have hr : @arcRadius F (fieldScalar T) len (θ - β) = r := by
    rw [arcRadius_neg (T := T) len (θ - β) hd hlen]; show len / (-(θ - β)) = len / (β - θ); rw [neg_sub]
  have hrpos : 0 < r := div_pos hlen (by linarith)
  have hc : @arcCenter F (fieldScalar T) s.beginSeg θ (θ - β) (@arcRadius F (fieldScalar T) len (θ - β)) = c := by
    rw [hr, arcCenter_eq L.plane s.beginSeg θ (θ - β) r hθ (ne_of_lt hd), if_pos hd]
  have hcpa : @arcCpa F (fieldScalar T) q c r (θ - β) = ψ :=
    arcCpa_incr L q c r (θ - β) ρ ψ hd hrpos hρ hε h0 h1 (by show c.x + ρ * T.sin ψ - c.x = _; ring) (by show c.y + ρ * T.cos ψ - c.y = _; ring)
  have hacc : acc ↔ ((θ ≤ ψ ∨ |ψ - θ| < 1 / 10 ^ 12) ∧ (ψ ≤ β ∨ |ψ - β| < 1 / 10 ^ 12)) := by
    show @arcAccept F (fieldScalar T) _ _ _ _ ↔ _
    rw [hc, hr, hcpa, arcAccept_field]
    constructor
    · rintro (⟨hp, _⟩ | ⟨_, h⟩)
      · exact absurd hp (not_lt.mpr hd.le)
      · exact h
    · intro h; exact Or.inr ⟨hd, h⟩
  have hn : ρ * T.sin ψ * (ρ * T.sin ψ) + ρ * T.cos ψ * (ρ * T.cos ψ) = ρ * ρ := by
    linear_combination (ρ * ρ) * L.sq ψ
  refine ⟨hr, hrpos, hc, ?_, hacc, fun ha => ?_, fun ha => ?_⟩
  · show (@segArc F (fieldScalar T) startRadius q θ β len s).endSeg = _
    rw [@segArc_endSeg F (fieldScalar T), hc, arcEnd_incr L]
  · obtain ⟨a1, a2, a3⟩ := segArc_accept (T := T) startRadius q θ β len s ha
    rw [hc, hr] at a1 a2 a3
    rw [hcpa] at a2 a3
    refine ⟨?_, ?_, ?_⟩
    · show (@segArc F (fieldScalar T) startRadius q θ β len s).newAlong = _
      rw [a2, if_pos hd]; ring
    · show (@segArc F (fieldScalar T) startRadius q θ β len s).newDistance = _
      rw [a1, if_pos hd]
      have : (q.x - c.x) * (q.x - c.x) + (q.y - c.y) * (q.y - c.y) = ρ * ρ := by
        show (c.x + ρ * T.sin ψ - c.x) * (c.x + ρ * T.sin ψ - c.x) + (c.y + ρ * T.cos ψ - c.y) * (c.y + ρ * T.cos ψ - c.y) = _
        linear_combination hn
      rw [this, L.plane.sqrt_mul_self, abs_of_pos hρ]; ring
    · show (@segArc F (fieldScalar T) startRadius q θ β len s).newDepthRef = _
      rw [a3, L.sin_add, L.cos_add]
      show startRadius - ((T.sin ψ * T.cos θ + T.cos ψ * T.sin θ) * (s.beginSeg.x - (s.beginSeg.x - r * T.sin θ)) +
        (T.cos ψ * T.cos θ - T.sin ψ * T.sin θ) * (s.beginSeg.y - (s.beginSeg.y - r * T.cos θ)) + c.y) = _
      linear_combination (-(r * T.cos ψ)) * L.sq θ
  · obtain ⟨u1, u2⟩ := (segArc_newDistance T startRadius q θ β len s).2 ha
    exact ⟨u2, u1, segArc_reject_depthRef T startRadius q θ β len s ha⟩

/-- **the circular piece, dip decreasing downwards** (`θ > β`): everything `segArc` does for the point `centre − ρ(sin ψ, cos ψ)` -/
theorem segArc_decr (L : ArcLaws T) (startRadius θ β len : F) (s : SegState F) (hθ : DipOK T θ) (hd : 0 < θ - β) (hlen : 0 < len)
    (ρ ψ : F) (hρ : 0 < ρ) (hε : ¬ ρ < T.eps) (h0 : -T.pi < ψ) (h1 : ψ ≤ T.pi) :
    let r := len / (θ - β)
    let c : P2 F := ⟨s.beginSeg.x + r * T.sin θ, s.beginSeg.y + r * T.cos θ⟩
    let q : P2 F := ⟨c.x - ρ * T.sin ψ, c.y - ρ * T.cos ψ⟩
    let g := @segArc F (fieldScalar T) startRadius q θ β len s
    let acc := @arcAccept F (fieldScalar T) (θ - β) (@arcCpa F (fieldScalar T) q
      (@arcCenter F (fieldScalar T) s.beginSeg θ (θ - β) (@arcRadius F (fieldScalar T) len (θ - β))) (@arcRadius F (fieldScalar T) len (θ - β)) (θ - β)) θ β
    @arcRadius F (fieldScalar T) len (θ - β) = r ∧ 0 < r ∧
    @arcCenter F (fieldScalar T) s.beginSeg θ (θ - β) (@arcRadius F (fieldScalar T) len (θ - β)) = c ∧
    g.endSeg = ⟨c.x - r * T.sin β, c.y - r * T.cos β⟩ ∧
    (acc ↔ ((ψ ≤ θ ∨ |ψ - θ| < 1 / 10 ^ 12) ∧ (β ≤ ψ ∨ |ψ - β| < 1 / 10 ^ 12))) ∧
    (acc → g.newAlong = r * (θ - ψ) ∧ g.newDistance = ρ - r ∧ g.newDepthRef = startRadius - (c.y - r * T.cos ψ)) ∧
    (¬ acc → g.newAlong = T.inf ∧ g.newDistance = T.inf ∧ g.newDepthRef = T.inf) := by
  intro r c q g acc
  have hnd : ¬ θ - β < 0 := not_lt.mpr hd.le
  have hr : @arcRadius F (fieldScalar T) len (θ - β) = r := arcRadius_pos (T := T) len (θ - β) hd hlen
  have hrpos : 0 < r := div_pos hlen hd
  have hc : @arcCenter F (fieldScalar T) s.beginSeg θ (θ - β) (@arcRadius F (fieldScalar T) len (θ - β)) = c := by
    rw [hr, arcCenter_eq L.plane s.beginSeg θ (θ - β) r hθ (ne_of_gt hd), if_neg hnd]
  have hcpa : @arcCpa F (fieldScalar T) q c r (θ - β) = ψ :=
    arcCpa_decr L q c r (θ - β) ρ ψ hd.le hrpos hρ hε h0 h1 (by show c.x - ρ * T.sin ψ - c.x = _; ring) (by show c.y - ρ * T.cos ψ - c.y = _; ring)
  have hacc : acc ↔ ((ψ ≤ θ ∨ |ψ - θ| < 1 / 10 ^ 12) ∧ (β ≤ ψ ∨ |ψ - β| < 1 / 10 ^ 12)) := by
    show @arcAccept F (fieldScalar T) _ _ _ _ ↔ _
    rw [hc, hr, hcpa, arcAccept_field]
    constructor
    · rintro (⟨_, h⟩ | ⟨hp, _⟩)
      · exact h
      · exact absurd hp hnd
    · intro h; exact Or.inl ⟨hd, h⟩
  have hn : ρ * T.sin ψ * (ρ * T.sin ψ) + ρ * T.cos ψ * (ρ * T.cos ψ) = ρ * ρ := by
    linear_combination (ρ * ρ) * L.sq ψ
  refine ⟨hr, hrpos, hc, ?_, hacc, fun ha => ?_, fun ha => ?_⟩
  · show (@segArc F (fieldScalar T) startRadius q θ β len s).endSeg = _
    rw [@segArc_endSeg F (fieldScalar T), hc, arcEnd_decr L]
  · obtain ⟨a1, a2, a3⟩ := segArc_accept (T := T) startRadius q θ β len s ha
    rw [hc, hr] at a1 a2 a3
    rw [hcpa] at a2 a3
    refine ⟨?_, ?_, ?_⟩
    · show (@segArc F (fieldScalar T) startRadius q θ β len s).newAlong = _
      rw [a2, if_neg hnd]; ring
    · show (@segArc F (fieldScalar T) startRadius q θ β len s).newDistance = _
      rw [a1, if_neg hnd]
      have : (q.x - c.x) * (q.x - c.x) + (q.y - c.y) * (q.y - c.y) = ρ * ρ := by
        show (c.x - ρ * T.sin ψ - c.x) * (c.x - ρ * T.sin ψ - c.x) + (c.y - ρ * T.cos ψ - c.y) * (c.y - ρ * T.cos ψ - c.y) = _
        linear_combination hn
      rw [this, L.plane.sqrt_mul_self, abs_of_pos hρ]; ring
    · show (@segArc F (fieldScalar T) startRadius q θ β len s).newDepthRef = _
      rw [a3, L.sin_add, L.cos_add]
      show startRadius - ((T.sin ψ * T.cos θ + T.cos ψ * T.sin θ) * (s.beginSeg.x - (s.beginSeg.x + r * T.sin θ)) +
        (T.cos ψ * T.cos θ - T.sin ψ * T.sin θ) * (s.beginSeg.y - (s.beginSeg.y + r * T.cos θ)) + c.y) = _
      linear_combination (r * T.cos ψ) * L.sq θ
  · obtain ⟨u1, u2⟩ := (segArc_newDistance T startRadius q θ β len s).2 ha
    exact ⟨u2, u1, segArc_reject_depthRef T startRadius q θ β len s ha⟩

end arc

/-! ## the hypotheses are satisfiable: the real functions -/

/-- the real functions, with Mathlib's `arccos` for `acos` -/
noncomputable def realArcTransc : Transc ℝ := { realTransc with acos := Real.arccos }

theorem real_arcLaws : ArcLaws realArcTransc where
  plane :=
    { sin_sq_add_cos_sq := real_planeLaws.sin_sq_add_cos_sq
      sin_half_pi_sub := real_planeLaws.sin_half_pi_sub
      cos_half_pi_sub := real_planeLaws.cos_half_pi_sub
      sqrt_mul_self := real_planeLaws.sqrt_mul_self
      tan_eq := real_planeLaws.tan_eq }
  pi_ge := Real.two_le_pi
  cos_add := Real.cos_add
  sin_add := Real.sin_add
  cos_sub := Real.cos_sub
  sin_sub := Real.sin_sub
  cos_pi := Real.cos_pi
  sin_pi := Real.sin_pi
  sin_pos x h0 h1 := Real.sin_pos_of_pos_of_lt_pi h0 h1
  acos_cos x h0 h1 := Real.arccos_cos h0 h1

/-- dips of at most `0.5 rad` in absolute value are outside the two windows and have `cos ≠ 0` -/
theorem real_dipOK_small (θ : ℝ) (hθ : |θ| ≤ 1 / 2) : DipOK realArcTransc θ where
  w1 h := by
    exfalso
    have hp : (2 : ℝ) ≤ Real.pi := Real.two_le_pi
    have h' : |θ - 1 / 2 * Real.pi| < 1 / 10 ^ 8 := h
    rw [abs_lt] at h'
    rw [abs_le] at hθ
    norm_num at h'
    linarith [h'.1, hθ.2]
  w2 h := by
    exfalso
    have hp : (2 : ℝ) ≤ Real.pi := Real.two_le_pi
    have h' : |θ - 3 / 2 * Real.pi| < 1 / 10 ^ 8 := h
    rw [abs_lt] at h'
    rw [abs_le] at hθ
    norm_num at h'
    linarith [h'.1, hθ.2]
  gen _ _ := by
    show Real.cos θ ≠ 0
    apply ne_of_gt
    apply Real.cos_pos_of_mem_Ioo
    rw [abs_le] at hθ
    have := Real.two_le_pi
    constructor <;> linarith [hθ.1, hθ.2]

/-- a dip of `0.5 rad` at the top is outside the two windows and has `cos ≠ 0` -/
theorem real_dipOK_half : DipOK realArcTransc (1 / 2) := real_dipOK_small _ (by norm_num [abs_of_pos])

/-- dips within `0.5 rad` of `180°` are outside the two windows and have `cos ≠ 0` -/
theorem real_dipOK_near_pi (x : ℝ) (hx : |x| ≤ 1 / 2) : DipOK realArcTransc (Real.pi + x) where
  w1 h := by
    exfalso
    have hp : (2 : ℝ) ≤ Real.pi := Real.two_le_pi
    have h' : |Real.pi + x - 1 / 2 * Real.pi| < 1 / 10 ^ 8 := h
    rw [abs_lt] at h'
    rw [abs_le] at hx
    norm_num at h'
    linarith [h'.2, hx.1]
  w2 h := by
    exfalso
    have hp : (2 : ℝ) ≤ Real.pi := Real.two_le_pi
    have h' : |Real.pi + x - 3 / 2 * Real.pi| < 1 / 10 ^ 8 := h
    rw [abs_lt] at h'
    rw [abs_le] at hx
    norm_num at h'
    linarith [h'.1, hx.2]
  gen _ _ := by
    show Real.cos (Real.pi + x) ≠ 0
    rw [add_comm, Real.cos_add_pi]
    apply ne_of_lt
    rw [neg_lt_zero]
    apply Real.cos_pos_of_mem_Ioo
    rw [abs_le] at hx
    have := Real.two_le_pi
    constructor <;> linarith [hx.1, hx.2]

/-- first segment, no angle correction, section fraction 0: the two dips of the iteration are those of the table -/
theorem ex_arc_angles (s : SegState ℝ) (h0 : s.addAngle = 0) (a : P2 ℝ) :
    @segAngTop ℝ (fieldScalar realArcTransc) .none 0 a a 0 (@segPre ℝ (fieldScalar realArcTransc) .none 0 s) = a.x ∧
    @segAngBot ℝ (fieldScalar realArcTransc) 0 a a (@segPre ℝ (fieldScalar realArcTransc) .none 0 s) = a.y := by
  have ha : (@segPre ℝ (fieldScalar realArcTransc) .none 0 s).addAngle = 0 := h0
  constructor
  · show a.x + 0 * (a.x - a.x) + (@segPre ℝ (fieldScalar realArcTransc) .none 0 s).addAngle + ((0 : ℕ) : ℝ) = a.x
    rw [ha]; norm_num
  · show a.y + 0 * (a.y - a.y) + (@segPre ℝ (fieldScalar realArcTransc) .none 0 s).addAngle = a.y
    rw [ha]; norm_num

/-- a vertical dip at the top (`θ = π/2` exactly) is handled exactly -/
theorem real_dipOK_vertical : DipOK realArcTransc (1 / 2 * Real.pi) where
  w1 _ := by
    show Real.sin (1 / 2 * Real.pi) = 1 ∧ Real.cos (1 / 2 * Real.pi) = 0
    rw [show (1 / 2 * Real.pi) = Real.pi / 2 by ring]
    exact ⟨Real.sin_pi_div_two, Real.cos_pi_div_two⟩
  w2 h := by
    exfalso
    have hp : (2 : ℝ) ≤ Real.pi := Real.two_le_pi
    have h' : |(1 / 2 * Real.pi : ℝ) - 3 / 2 * Real.pi| < 1 / 10 ^ 8 := h
    rw [abs_lt] at h'
    norm_num at h'
    linarith [h'.1]
  gen h _ := by
    exfalso
    apply h
    show |(1 / 2 * Real.pi : ℝ) - 1 / 2 * Real.pi| < 1 / 10 ^ 8
    rw [sub_self, abs_zero]; positivity

/-- every point of the plane other than the centre has a polar position `(ρ, ψ)`, `ρ > 0`, `0 ≤ ψ < 2π` (`ψ` clockwise from the
upward vertical): the theorems about "the point at polar position `(ρ, ψ)`" speak about every point -/
theorem real_polar (x y : ℝ) (h : x ≠ 0 ∨ y ≠ 0) :
    ∃ ρ ψ : ℝ, 0 < ρ ∧ 0 ≤ ψ ∧ ψ < 2 * Real.pi ∧ x = ρ * Real.sin ψ ∧ y = ρ * Real.cos ψ := by
  have hpos : 0 < x ^ 2 + y ^ 2 := by
    rcases h with h | h
    · have := sq_pos_of_ne_zero h
      have := sq_nonneg y
      linarith
    · have := sq_pos_of_ne_zero h
      have := sq_nonneg x
      linarith
  set ρ := Real.sqrt (x ^ 2 + y ^ 2) with hρdef
  have hρ : 0 < ρ := Real.sqrt_pos.mpr hpos
  have hρ2 : ρ ^ 2 = x ^ 2 + y ^ 2 := Real.sq_sqrt hpos.le
  have hu1 : -1 ≤ y / ρ := by
    rw [le_div_iff₀ hρ]
    nlinarith [sq_nonneg x, sq_nonneg (y + ρ)]
  have hu2 : y / ρ ≤ 1 := by
    rw [div_le_iff₀ hρ]
    nlinarith [sq_nonneg x, sq_nonneg (y - ρ)]
  have hcos : Real.cos (Real.arccos (y / ρ)) = y / ρ := Real.cos_arccos hu1 hu2
  have hsin : Real.sin (Real.arccos (y / ρ)) = |x| / ρ := by
    rw [Real.sin_arccos]
    have : 1 - (y / ρ) ^ 2 = (|x| / ρ) ^ 2 := by
      rw [div_pow, div_pow, sq_abs]
      field_simp
      linarith
    rw [this, Real.sqrt_sq (div_nonneg (abs_nonneg x) hρ.le)]
  have ha0 := Real.arccos_nonneg (y / ρ)
  have ha1 := Real.arccos_le_pi (y / ρ)
  have hpi := Real.pi_pos
  by_cases hx : 0 ≤ x
  · refine ⟨ρ, Real.arccos (y / ρ), hρ, ha0, by linarith, ?_, ?_⟩
    · rw [hsin, abs_of_nonneg hx]; field_simp
    · rw [hcos]; field_simp
  · rw [not_le] at hx
    have hsp : 0 < Real.sin (Real.arccos (y / ρ)) := by
      rw [hsin, abs_of_neg hx]
      exact div_pos (by linarith) hρ
    have hane : Real.arccos (y / ρ) ≠ 0 := by
      intro h0
      rw [h0, Real.sin_zero] at hsp
      exact lt_irrefl _ hsp
    have hapos : 0 < Real.arccos (y / ρ) := lt_of_le_of_ne ha0 (Ne.symm hane)
    refine ⟨ρ, 2 * Real.pi - Real.arccos (y / ρ), hρ, by linarith, by linarith, ?_, ?_⟩
    · rw [Real.sin_two_pi_sub, hsin, abs_of_neg hx]; field_simp
    · rw [Real.cos_two_pi_sub, hcos]; field_simp

end Gwb
