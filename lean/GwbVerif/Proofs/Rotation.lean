/-
Proper rotations among the 3×3 matrices of the model (`M3`, row major).

* `M3.transpose`, `M3.one`, `M3.det`, `M3.IsRotation` — core-Lean definitions over any `Scalar R`:
  `IsRotation m` says `M3.mul m mᵀ = 1` (all nine entries, with the model's own product `M3.mul`) and `det m = 1`.
* Over an ordered field (`fieldScalar T`): `M3.Rot` is the same statement written out as seven plain field
  equations (six row products — the product with the transpose is symmetric — and the determinant);
  `M3.isRotation_iff` relates the two.
* `M3.Rot.mul`: the product of two proper rotations is a proper rotation (pure ring algebra).
* `householder_rot`: `V Vᵀ − I` is a proper rotation when `|V|² = 2` (the half turn about `V`);
  `rotZ_rot`: the rotation about the z axis; `arvoCore_eq_mul`: the Arvo matrix is their product; hence
  `arvoCore_rot`, `arvoMatrix_rot` (both variants of the model's `arvoMatrix`).
* `eulerToMatrix_rot`: the Bunge Euler-angle matrix is a proper rotation.
* `drawMatrices_rot`: every matrix drawn by `drawMatrices` is a proper rotation (given canonical draws in `[0,1)`).

The facts used about libm members are hypotheses: `sin² + cos² = 1` and `sqrt x · sqrt x = x` for `x ≥ 0`.
-/
import GwbVerif.Model.Models.Area
import GwbVerif.Proofs.FieldScalar
import GwbVerif.Proofs.QM
import Mathlib.Tactic.NormNum
namespace Gwb
open Scalar
set_option linter.unusedSectionVars false

namespace M3
variable {R : Type} [Scalar R]

/-- the transposed matrix -/
def transpose (m : M3 R) : M3 R := ⟨m.a00, m.a10, m.a20, m.a01, m.a11, m.a21, m.a02, m.a12, m.a22⟩

/-- the identity matrix -/
def one : M3 R := ⟨1, 0, 0, 0, 1, 0, 0, 0, 1⟩

/-- the determinant, expanded along the first row -/
def det (m : M3 R) : R :=
  m.a00 * (m.a11 * m.a22 - m.a12 * m.a21) - m.a01 * (m.a10 * m.a22 - m.a12 * m.a20)
    + m.a02 * (m.a10 * m.a21 - m.a11 * m.a20)

/-- a proper rotation: orthonormal (`m · mᵀ = 1`, computed with the model's `M3.mul`) with determinant `+1` -/
def IsRotation (m : M3 R) : Prop := M3.mul m m.transpose = M3.one ∧ m.det = 1

end M3

section field
variable {F : Type} [Field F] [LinearOrder F] [IsStrictOrderedRing F]

/-- `IsRotation` over an ordered field, written out: the six distinct entries of `m · mᵀ = 1` and `det m = 1` -/
structure M3.Rot (m : M3 F) : Prop where
  r00 : m.a00 * m.a00 + m.a01 * m.a01 + m.a02 * m.a02 = 1
  r01 : m.a00 * m.a10 + m.a01 * m.a11 + m.a02 * m.a12 = 0
  r02 : m.a00 * m.a20 + m.a01 * m.a21 + m.a02 * m.a22 = 0
  r11 : m.a10 * m.a10 + m.a11 * m.a11 + m.a12 * m.a12 = 1
  r12 : m.a10 * m.a20 + m.a11 * m.a21 + m.a12 * m.a22 = 0
  r22 : m.a20 * m.a20 + m.a21 * m.a21 + m.a22 * m.a22 = 1
  det : m.a00 * (m.a11 * m.a22 - m.a12 * m.a21) - m.a01 * (m.a10 * m.a22 - m.a12 * m.a20)
          + m.a02 * (m.a10 * m.a21 - m.a11 * m.a20) = 1

/-- the model's product over a field: the leading `0 +` of every sum disappears -/
theorem M3.mul_field (T : Transc F) (a b : M3 F) :
    @M3.mul F (fieldScalar T) a b =
      ⟨a.a00 * b.a00 + a.a01 * b.a10 + a.a02 * b.a20,
       a.a00 * b.a01 + a.a01 * b.a11 + a.a02 * b.a21,
       a.a00 * b.a02 + a.a01 * b.a12 + a.a02 * b.a22,
       a.a10 * b.a00 + a.a11 * b.a10 + a.a12 * b.a20,
       a.a10 * b.a01 + a.a11 * b.a11 + a.a12 * b.a21,
       a.a10 * b.a02 + a.a11 * b.a12 + a.a12 * b.a22,
       a.a20 * b.a00 + a.a21 * b.a10 + a.a22 * b.a20,
       a.a20 * b.a01 + a.a21 * b.a11 + a.a22 * b.a21,
       a.a20 * b.a02 + a.a21 * b.a12 + a.a22 * b.a22⟩ := by
  unfold M3.mul
  simp only [M3.mk.injEq]
  refine ⟨?_, ?_, ?_, ?_, ?_, ?_, ?_, ?_, ?_⟩ <;>
    (show ((0 : ℕ) : F) + _ + _ + _ = _; rw [Nat.cast_zero, zero_add])

theorem M3.one_field (T : Transc F) : @M3.one F (fieldScalar T) = ⟨1, 0, 0, 0, 1, 0, 0, 0, 1⟩ := by
  show (⟨((1 : ℕ) : F), ((0 : ℕ) : F), ((0 : ℕ) : F), ((0 : ℕ) : F), ((1 : ℕ) : F), ((0 : ℕ) : F),
          ((0 : ℕ) : F), ((0 : ℕ) : F), ((1 : ℕ) : F)⟩ : M3 F) = _
  rw [Nat.cast_zero, Nat.cast_one]

theorem M3.det_field (T : Transc F) (m : M3 F) :
    @M3.det F (fieldScalar T) m =
      m.a00 * (m.a11 * m.a22 - m.a12 * m.a21) - m.a01 * (m.a10 * m.a22 - m.a12 * m.a20)
        + m.a02 * (m.a10 * m.a21 - m.a11 * m.a20) := rfl

/-- the two formulations agree -/
theorem M3.isRotation_iff (T : Transc F) (m : M3 F) : @M3.IsRotation F (fieldScalar T) m ↔ m.Rot := by
  unfold M3.IsRotation
  rw [M3.mul_field, M3.one_field, M3.det_field]
  show (_ ∧ _ = ((1 : ℕ) : F)) ↔ _
  rw [Nat.cast_one]
  simp only [M3.transpose, M3.mk.injEq]
  constructor
  · rintro ⟨⟨h00, h01, h02, _, h11, h12, _, _, h22⟩, hd⟩
    exact ⟨h00, h01, h02, h11, h12, h22, hd⟩
  · intro h
    refine ⟨⟨h.r00, h.r01, h.r02, ?_, h.r11, h.r12, ?_, ?_, h.r22⟩, h.det⟩
    · linear_combination h.r01
    · linear_combination h.r02
    · linear_combination h.r12

/-- the identity is a proper rotation -/
theorem M3.Rot.one : (⟨1, 0, 0, 0, 1, 0, 0, 0, 1⟩ : M3 F).Rot := by
  constructor <;> simp

/-- the product (the model's `M3.mul`) of two proper rotations is a proper rotation -/
theorem M3.Rot.mul (T : Transc F) {A B : M3 F} (hA : A.Rot) (hB : B.Rot) : (@M3.mul F (fieldScalar T) A B).Rot := by
  rw [M3.mul_field]
  constructor
  · linear_combination A.a00 * A.a00 * hB.r00 + A.a00 * A.a01 * hB.r01 + A.a00 * A.a02 * hB.r02 + A.a01 * A.a00 * hB.r01 + A.a01 * A.a01 * hB.r11 + A.a01 * A.a02 * hB.r12 + A.a02 * A.a00 * hB.r02 + A.a02 * A.a01 * hB.r12 + A.a02 * A.a02 * hB.r22 + hA.r00
  · linear_combination A.a00 * A.a10 * hB.r00 + A.a00 * A.a11 * hB.r01 + A.a00 * A.a12 * hB.r02 + A.a01 * A.a10 * hB.r01 + A.a01 * A.a11 * hB.r11 + A.a01 * A.a12 * hB.r12 + A.a02 * A.a10 * hB.r02 + A.a02 * A.a11 * hB.r12 + A.a02 * A.a12 * hB.r22 + hA.r01
  · linear_combination A.a00 * A.a20 * hB.r00 + A.a00 * A.a21 * hB.r01 + A.a00 * A.a22 * hB.r02 + A.a01 * A.a20 * hB.r01 + A.a01 * A.a21 * hB.r11 + A.a01 * A.a22 * hB.r12 + A.a02 * A.a20 * hB.r02 + A.a02 * A.a21 * hB.r12 + A.a02 * A.a22 * hB.r22 + hA.r02
  · linear_combination A.a10 * A.a10 * hB.r00 + A.a10 * A.a11 * hB.r01 + A.a10 * A.a12 * hB.r02 + A.a11 * A.a10 * hB.r01 + A.a11 * A.a11 * hB.r11 + A.a11 * A.a12 * hB.r12 + A.a12 * A.a10 * hB.r02 + A.a12 * A.a11 * hB.r12 + A.a12 * A.a12 * hB.r22 + hA.r11
  · linear_combination A.a10 * A.a20 * hB.r00 + A.a10 * A.a21 * hB.r01 + A.a10 * A.a22 * hB.r02 + A.a11 * A.a20 * hB.r01 + A.a11 * A.a21 * hB.r11 + A.a11 * A.a22 * hB.r12 + A.a12 * A.a20 * hB.r02 + A.a12 * A.a21 * hB.r12 + A.a12 * A.a22 * hB.r22 + hA.r12
  · linear_combination A.a20 * A.a20 * hB.r00 + A.a20 * A.a21 * hB.r01 + A.a20 * A.a22 * hB.r02 + A.a21 * A.a20 * hB.r01 + A.a21 * A.a21 * hB.r11 + A.a21 * A.a22 * hB.r12 + A.a22 * A.a20 * hB.r02 + A.a22 * A.a21 * hB.r12 + A.a22 * A.a22 * hB.r22 + hA.r22
  · -- det (A·B) = det A · det B
    linear_combination
      (B.a00 * (B.a11 * B.a22 - B.a12 * B.a21) - B.a01 * (B.a10 * B.a22 - B.a12 * B.a20)
        + B.a02 * (B.a10 * B.a21 - B.a11 * B.a20)) * hA.det + hB.det

/-! ### the Arvo matrix -/

/-- `V Vᵀ − I` -/
def householder (vx vy vz : F) : M3 F :=
  ⟨vx * vx - 1, vx * vy, vx * vz, vy * vx, vy * vy - 1, vy * vz, vz * vx, vz * vy, vz * vz - 1⟩

/-- for `|V|² = 2` the matrix `V Vᵀ − I` is the half turn about `V`: a proper rotation -/
theorem householder_rot (vx vy vz : F) (hV : vx * vx + vy * vy + vz * vz = 2) : (householder vx vy vz).Rot := by
  unfold householder
  constructor
  · linear_combination (vx * vx) * hV
  · linear_combination (vx * vy) * hV
  · linear_combination (vx * vz) * hV
  · linear_combination (vy * vy) * hV
  · linear_combination (vy * vz) * hV
  · linear_combination (vz * vz) * hV
  · linear_combination hV

/-- the rotation about the z axis with sine `st` and cosine `ct` (as the Arvo matrix uses it) -/
def rotZ (st ct : F) : M3 F := ⟨ct, st, 0, -st, ct, 0, 0, 0, 1⟩

theorem rotZ_rot (st ct : F) (h : st * st + ct * ct = 1) : (rotZ st ct).Rot := by
  unfold rotZ
  constructor
  · linear_combination h
  · ring
  · ring
  · linear_combination h
  · ring
  · ring
  · linear_combination h

/-- the entries of `arvoMatrix` in plain variables: `st, ct` sine and cosine of `θ`, `V = (vx, vy, vz)`, `z` -/
def arvoCore (st ct vx vy vz z : F) : M3 F :=
  ⟨vx * (vx * ct - vy * st) - ct, vx * (vx * st + vy * ct) - st, vx * vz,
   vy * (vx * ct - vy * st) + st, vy * (vx * st + vy * ct) - ct, vy * vz,
   vz * (vx * ct - vy * st),      vz * (vx * st + vy * ct),      1 - z⟩

/-- the Arvo matrix is `(V Vᵀ − I) · R_z(θ)` -/
theorem arvoCore_eq_mul (T : Transc F) (st ct vx vy vz z : F) (hz : vz * vz = 2 - z) :
    arvoCore st ct vx vy vz z = @M3.mul F (fieldScalar T) (householder vx vy vz) (rotZ st ct) := by
  rw [M3.mul_field]
  unfold arvoCore householder rotZ
  simp only [M3.mk.injEq]
  refine ⟨by ring, by ring, by ring, by ring, by ring, by ring, by ring, by ring, ?_⟩
  linear_combination (-1 : F) * hz

theorem arvoCore_rot (T : Transc F) (st ct vx vy vz z : F) (h1 : st * st + ct * ct = 1)
    (hV : vx * vx + vy * vy + vz * vz = 2) (hz : vz * vz = 2 - z) : (arvoCore st ct vx vy vz z).Rot := by
  rw [arvoCore_eq_mul T st ct vx vy vz z hz]
  exact M3.Rot.mul T (householder_rot vx vy vz hV) (rotZ_rot st ct h1)

/-- the decimal literals `2.0` and `1.0` of the model over a field -/
theorem lit_two (T : Transc F) : @OfScientific.ofScientific F (@Scalar.instOfScientific F (fieldScalar T)) 20 true 1 = (2 : F) := by
  show ((OfScientific.ofScientific 20 true 1 : ℚ) : F) = 2
  norm_num

theorem lit_one (T : Transc F) : @OfScientific.ofScientific F (@Scalar.instOfScientific F (fieldScalar T)) 10 true 1 = (1 : F) := by
  show ((OfScientific.ofScientific 10 true 1 : ℚ) : F) = 1
  norm_num

/-- the model's `arvoMatrix` is `arvoCore` at the obvious arguments (`z` is `2·three` or `2·three·d`) -/
theorem arvoMatrix_eq_core (T : Transc F) (one two three : F) (defl : Option F) :
    @arvoMatrix F (fieldScalar T) one two three defl =
      (let theta := match defl with | none => 2 * T.pi * one | some d => 2 * T.pi * one * d
       let phi := 2 * T.pi * two
       let z := match defl with | none => 2 * three | some d => 2 * three * d
       arvoCore (T.sin theta) (T.cos theta) (T.sin phi * T.sqrt z) (T.cos phi * T.sqrt z) (T.sqrt (2 - z)) z) := by
  cases defl <;> simp only [arvoMatrix, arvoCore, lit_two, lit_one] <;> rfl

/-- `arvoCore` at trigonometric arguments: `|V|² = 2` follows from `sin² + cos² = 1` and the square-root law -/
theorem arvoCore_trig_rot (T : Transc F)
    (hsc : ∀ x, T.sin x * T.sin x + T.cos x * T.cos x = 1) (hsqrt : ∀ x, 0 ≤ x → T.sqrt x * T.sqrt x = x)
    (theta phi z : F) (hz0 : 0 ≤ z) (hz2 : z ≤ 2) :
    (arvoCore (T.sin theta) (T.cos theta) (T.sin phi * T.sqrt z) (T.cos phi * T.sqrt z) (T.sqrt (2 - z)) z).Rot := by
  have hr : T.sqrt z * T.sqrt z = z := hsqrt z hz0
  have hvz : T.sqrt (2 - z) * T.sqrt (2 - z) = 2 - z := hsqrt _ (by linarith)
  refine arvoCore_rot T _ _ _ _ _ _ (hsc theta) ?_ hvz
  linear_combination (T.sqrt z * T.sqrt z) * hsc phi + hr + hvz

/-- both variants of the model's Arvo matrix are proper rotations: plain (`z = 2·three`, needs `0 ≤ three ≤ 1`)
and deflected (`z = 2·three·d`, needs additionally `0 ≤ d ≤ 1`) -/
theorem arvoMatrix_rot (T : Transc F)
    (hsc : ∀ x, T.sin x * T.sin x + T.cos x * T.cos x = 1) (hsqrt : ∀ x, 0 ≤ x → T.sqrt x * T.sqrt x = x)
    (one two three : F) (h0 : 0 ≤ three) (h1 : three ≤ 1) (defl : Option F)
    (hd : ∀ d, defl = some d → 0 ≤ d ∧ d ≤ 1) :
    (@arvoMatrix F (fieldScalar T) one two three defl).Rot := by
  rw [arvoMatrix_eq_core]
  cases defl with
  | none => exact arvoCore_trig_rot T hsc hsqrt _ _ _ (by linarith) (by linarith)
  | some d =>
    obtain ⟨hd0, hd1⟩ := hd d rfl
    refine arvoCore_trig_rot T hsc hsqrt _ _ _ (by positivity) ?_
    nlinarith [mul_le_mul h1 hd1 hd0 (by norm_num : (0 : F) ≤ 1)]

/-! ### Euler angles -/

/-- the Bunge matrix in plain variables (`s1 c1`, `s c`, `s2 c2`: sine and cosine of `φ₁`, `θ`, `φ₂`) -/
def eulerCore (s1 c1 s c s2 c2 : F) : M3 F :=
  ⟨c2 * c1 - c * s1 * s2, -c2 * s1 - c * c1 * s2, -s2 * s,
   s2 * c1 + c * s1 * c2, -s2 * s1 + c * c1 * c2, c2 * s,
   -s * s1, -s * c1, c⟩

theorem eulerCore_rot (s1 c1 s c s2 c2 : F) (h1 : s1 * s1 + c1 * c1 = 1) (h : s * s + c * c = 1)
    (h2 : s2 * s2 + c2 * c2 = 1) : (eulerCore s1 c1 s c s2 c2).Rot := by
  unfold eulerCore
  constructor
  · linear_combination (c * c * s2 * s2 + c2 * c2) * h1 + (s2 * s2) * h + h2
  · linear_combination (c2 * s2 - c * c * c2 * s2) * h1 - (c2 * s2) * h
  · linear_combination (c * s * s2) * h1
  · linear_combination (c * c * c2 * c2 + s2 * s2) * h1 + (c2 * c2) * h + h2
  · linear_combination (-(c * c2 * s)) * h1
  · linear_combination (s * s) * h1 + h
  · linear_combination ((c * c + s * s) * (c2 * c2 + s2 * s2)) * h1 + (c2 * c2 + s2 * s2) * h + h2

/-- the model's `eulerToMatrix` is `eulerCore` at the sines and cosines of the angles converted to radians -/
theorem eulerToMatrix_eq_core (T : Transc F) (phi1 theta phi2 : F) :
    @eulerToMatrix F (fieldScalar T) phi1 theta phi2 =
      (let d2r := @Div.div F _ T.pi (@OfScientific.ofScientific F (@Scalar.instOfScientific F (fieldScalar T)) 1800 true 1)
       eulerCore (T.sin (phi1 * d2r)) (T.cos (phi1 * d2r)) (T.sin (theta * d2r)) (T.cos (theta * d2r))
         (T.sin (phi2 * d2r)) (T.cos (phi2 * d2r))) := rfl

theorem eulerToMatrix_rot (T : Transc F) (hsc : ∀ x, T.sin x * T.sin x + T.cos x * T.cos x = 1) (phi1 theta phi2 : F) :
    (@eulerToMatrix F (fieldScalar T) phi1 theta phi2).Rot := by
  rw [eulerToMatrix_eq_core]
  exact eulerCore_rot _ _ _ _ _ _ (hsc _) (hsc _) (hsc _)

/-! ### the matrices drawn by the random grains models -/

section draws
variable {G : Type} [RandGen G F]

/-- the draws of the generator lie in `[0,1)` (true of `std::generate_canonical`, which `canonicalMt` clamps below one) -/
def CanonicalInUnit (G : Type) [RandGen G F] : Prop :=
  ∀ g : G, 0 ≤ (RandGen.canonical (R := F) g).1 ∧ (RandGen.canonical (R := F) g).1 < 1

theorem drawCanonical_unit (hcan : CanonicalInUnit (F := F) G) :
    Post (G := G) (@drawCanonical F G _) (fun u => 0 ≤ u ∧ u < 1) := by
  intro g u g' h
  have h' : (Except.ok ((RandGen.canonical (R := F) g).1, (RandGen.canonical (R := F) g).2) : Except Err (F × G))
      = .ok (u, g') := h
  simp only [Except.ok.injEq, Prod.mk.injEq] at h'
  obtain ⟨rfl, _⟩ := h'
  exact hcan g

/-- every matrix produced by `drawMatrices` is a proper rotation: the Arvo matrix is one, and so is its product with
a basis that is one.  Covers `drawMatrices none none` (random uniform distribution) and
`drawMatrices (some d) (some basis)` (random uniform distribution deflected, `0 ≤ d ≤ 1`). -/
theorem drawMatrices_rot (T : Transc F)
    (hsc : ∀ x, T.sin x * T.sin x + T.cos x * T.cos x = 1) (hsqrt : ∀ x, 0 ≤ x → T.sqrt x * T.sqrt x = x)
    (hcan : CanonicalInUnit (F := F) G) (defl : Option F) (basis : Option (M3 F))
    (hd : ∀ d, defl = some d → 0 ≤ d ∧ d ≤ 1) (hb : ∀ b, basis = some b → b.Rot) (n : Nat) :
    Post (G := G) (@drawMatrices F (fieldScalar T) G _ defl basis n) (fun ms => ∀ m ∈ ms, m.Rot) := by
  induction n with
  | zero => exact Post.pure (by simp)
  | succ n ih =>
    unfold drawMatrices
    refine Post.bind (Post.triv _) fun one _ => Post.bind (Post.triv _) fun two _ =>
      Post.bind (drawCanonical_unit hcan) fun three h3 => ?_
    refine Post.bind ih fun rest hrest => Post.pure ?_
    have harvo := arvoMatrix_rot T hsc hsqrt one two three h3.1 (le_of_lt h3.2) defl hd
    intro m hm
    rcases List.mem_cons.mp hm with rfl | hm
    · cases basis with
      | none => exact harvo
      | some b => exact M3.Rot.mul T harvo (hb b rfl)
    · exact hrest m hm

end draws

end field
end Gwb
