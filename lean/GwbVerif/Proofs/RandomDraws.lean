/-
Postconditions of the random draws of the model over an ordered field (`fieldScalar T`), given that the generator's
canonical draws lie in `[0,1)` (`CanonicalInUnit`, Proofs/Rotation.lean):
* `canonicalMt_unit`: the model of `std::generate_canonical<double,53>(mt19937)` satisfies `CanonicalInUnit`;
* `drawUniform_post`: `drawUniform a b` returns `(b − a)·u + a` for some `u ∈ [0,1)`;
* `drawSizes_post`: the size loop returns the running total plus the sum of the sizes, and each size is either the
  fixed size (`size ≥ 0`) or a draw in `[0,1)` (`size < 0`);
* `randomUniform_post`, `randomUniformDeflected_post`: what `GrainsModel.get` returns for the random models inside the depth range
  (sizes: `SizesSpec`; matrices: any postcondition of `drawMatrices`, e.g. `drawMatrices_len_rot`);
* `Mt19937.seed_mod`: seeding depends on the seed modulo 2³² only.
-/
import GwbVerif.Proofs.Rotation
import GwbVerif.Proofs.Blocks
import GwbVerif.Model.Rng
namespace Gwb
open Scalar
set_option linter.unusedSectionVars false
variable {F : Type} [Field F] [LinearOrder F] [IsStrictOrderedRing F]

/-- the decimal literal `0.0` of the model over a field -/
theorem lit_zero (T : Transc F) : @OfScientific.ofScientific F (@Scalar.instOfScientific F (fieldScalar T)) 0 true 1 = (0 : F) := by
  show ((OfScientific.ofScientific 0 true 1 : ℚ) : F) = 0
  norm_num

/-- `generate_canonical` of the model: `(x₁ + x₂·2³²)/2⁶⁴`, replaced by `oneBelow` when it reaches one, lies in `[0,1)`
whenever `oneBelow` does -/
theorem canonicalMt_unit (T : Transc F) (oneBelow : F) (h0 : 0 ≤ oneBelow) (h1 : oneBelow < 1) (g : Mt19937) :
    0 ≤ (@canonicalMt F (fieldScalar T) oneBelow g).1 ∧ (@canonicalMt F (fieldScalar T) oneBelow g).1 < 1 := by
  unfold canonicalMt
  simp only
  generalize (g.next).1.toNat = n1
  generalize ((g.next).2.next).1.toNat = n2
  split
  · exact ⟨h0, h1⟩
  · rename_i hge
    have hge' : ¬ ((1 : F) ≤ (0 + (n1 : F) * 1 + (n2 : F) * 4294967296) / 18446744073709551616) := by
      intro hc; apply hge
      show ((1 : ℕ) : F) ≤ (((0 : ℕ) : F) + (n1 : F) * ((1 : ℕ) : F) + (n2 : F) * ((4294967296 : ℕ) : F)) /
        ((18446744073709551616 : ℕ) : F)
      push_cast; exact hc
    constructor
    · show 0 ≤ (((0 : ℕ) : F) + (n1 : F) * ((1 : ℕ) : F) + (n2 : F) * ((4294967296 : ℕ) : F)) /
        ((18446744073709551616 : ℕ) : F)
      positivity
    · show (((0 : ℕ) : F) + (n1 : F) * ((1 : ℕ) : F) + (n2 : F) * ((4294967296 : ℕ) : F)) /
        ((18446744073709551616 : ℕ) : F) < 1
      push_cast
      exact not_le.mp hge'

/-- the seed enters the engine modulo `2³²` only -/
theorem Mt19937.seed_mod (s₁ s₂ : Nat) (h : s₁ % 4294967296 = s₂ % 4294967296) : Mt19937.seed s₁ = Mt19937.seed s₂ := by
  unfold Mt19937.seed
  rw [h]

variable {G : Type} [RandGen G F]

theorem Post.and {α : Type} {m : QM G α} {P Q : α → Prop} (hp : Post m P) (hq : Post m Q) : Post m (fun a => P a ∧ Q a) :=
  fun g a g' h => ⟨hp g a g' h, hq g a g' h⟩

theorem drawUniform_post (T : Transc F) (hcan : CanonicalInUnit (F := F) G) (a b : F) :
    Post (G := G) (@drawUniform F (fieldScalar T) G _ a b) (fun v => ∃ u, 0 ≤ u ∧ u < 1 ∧ v = (b - a) * u + a) := by
  unfold drawUniform
  exact Post.bind (drawCanonical_unit hcan) fun u hu => Post.pure ⟨u, hu.1, hu.2, rfl⟩

theorem sum_map_mul_const (ss : List F) (c : F) : (ss.map (· * c)).sum = ss.sum * c := by
  induction ss with
  | nil => simp
  | cons s ss ih => simp only [List.map_cons, List.sum_cons, ih]; ring

theorem drawSizes_post (T : Transc F) (hcan : CanonicalInUnit (F := F) G) (gs : F) (k : Nat) (tot0 : F) :
    Post (G := G) (@drawSizes F (fieldScalar T) G _ gs k tot0)
      (fun r => r.2 = tot0 + r.1.sum ∧ (0 ≤ gs → ∀ s ∈ r.1, s = gs) ∧ (gs < 0 → ∀ s ∈ r.1, 0 ≤ s ∧ s < 1)) := by
  induction k generalizing tot0 with
  | zero => exact Post.pure (by simp)
  | succ k ih =>
    unfold drawSizes
    have hs : Post (G := G) (if @LT.lt F (fieldScalar T).toLT gs (@OfNat.ofNat F 0 (@Scalar.instOfNat F (fieldScalar T) 0))
          then @drawUniform F (fieldScalar T) G _ (@OfScientific.ofScientific F (@Scalar.instOfScientific F (fieldScalar T)) 0 true 1)
                (@OfScientific.ofScientific F (@Scalar.instOfScientific F (fieldScalar T)) 10 true 1) else pure gs)
        (fun s => (0 ≤ gs → s = gs) ∧ (gs < 0 → 0 ≤ s ∧ s < 1)) := by
      have h0 : (@OfNat.ofNat F 0 (@Scalar.instOfNat F (fieldScalar T) 0)) = 0 := Nat.cast_zero
      rw [h0, lit_zero, lit_one]
      split
      · rename_i hlt
        refine Post.mono (drawUniform_post T hcan 0 1) ?_
        rintro v ⟨u, hu0, hu1, rfl⟩
        exact ⟨fun h => absurd hlt (not_lt.mpr h), fun _ => by constructor <;> linarith⟩
      · rename_i hge
        exact Post.pure ⟨fun _ => rfl, fun h => absurd h hge⟩
    refine Post.bind hs fun s hs' => Post.bind (ih _) fun r hr => ?_
    obtain ⟨rest, t⟩ := r
    obtain ⟨h1, h2, h3⟩ := hr
    refine Post.pure ⟨?_, ?_, ?_⟩
    · simp only [List.sum_cons] at h1 ⊢; rw [h1]; ring
    · intro hg x hx
      rcases List.mem_cons.mp hx with rfl | hx
      · exact hs'.1 hg
      · exact h2 hg x hx
    · intro hg x hx
      rcases List.mem_cons.mp hx with rfl | hx
      · exact hs'.2 hg
      · exact h3 hg x hx

/-- what the size part of a random grains model returns for composition slot `i`: `k` sizes, each the fixed size
`gs ≥ 0` or (for `gs < 0`) a draw in `[0,1)`, multiplied by `1/total` when normalisation is requested -/
def SizesSpec (gs : F) (nrm : Bool) (k : Nat) (sizes : List F) : Prop :=
  ∃ ss : List F, ss.length = k ∧ (0 ≤ gs → ∀ s ∈ ss, s = gs) ∧ (gs < 0 → ∀ s ∈ ss, 0 ≤ s ∧ s < 1) ∧
    sizes = if nrm then ss.map (· * (1 / ss.sum)) else ss

/-- the common tail of the two random grains models -/
theorem sizesTail_post (T : Transc F) (hcan : CanonicalInUnit (F := F) G) (sizes : List F) (normalize : List Bool)
    (i : Nat) (gs : F) (nrm : Bool) (k : Nat) (mats : List (M3 F))
    (hgs : sizes[i]? = some gs) (hn : normalize[i]? = some nrm) :
    Post (G := G)
      (do
        let gs ← liftE (idx sizes i)
        let (ss, total) ← @drawSizes F (fieldScalar T) G _ gs k (@OfNat.ofNat F 0 (@Scalar.instOfNat F (fieldScalar T) 0))
        let norm ← liftE (idx normalize i)
        let ss := if norm then
            let inv := @HDiv.hDiv F F F (@instHDiv F (fieldScalar T).toDiv) (@OfNat.ofNat F 1 (@Scalar.instOfNat F (fieldScalar T) 1)) total
            ss.map (· * inv) else ss
        return ({ sizes := ss, mats := mats } : Grains F))
      (fun new => SizesSpec gs nrm k new.sizes ∧ new.mats = mats) := by
  have hidx : idx sizes i = .ok gs := by simp [idx, hgs]
  have hnidx : idx normalize i = .ok nrm := by simp [idx, hn]
  rw [hidx, hnidx]
  refine Post.bind (Post.liftE fun a h => Except.ok.inj h) fun gs' hgs' => ?_
  subst hgs'
  refine Post.bind (Post.and (@drawSizes_length F G (fieldScalar T) _ _ _ _) (drawSizes_post T hcan gs _ _)) fun r hr => ?_
  obtain ⟨ss, tot⟩ := r
  obtain ⟨hlen, htot, hfix, hrand⟩ := hr
  refine Post.bind (Post.liftE fun a h => Except.ok.inj h) fun nrm' hnrm' => Post.pure ?_
  subst hnrm'
  refine ⟨⟨ss, hlen, hfix, hrand, ?_⟩, rfl⟩
  simp only at htot
  have h0 : (@OfNat.ofNat F 0 (@Scalar.instOfNat F (fieldScalar T) 0)) = 0 := Nat.cast_zero
  have h1 : (@OfNat.ofNat F 1 (@Scalar.instOfNat F (fieldScalar T) 1)) = 1 := Nat.cast_one
  rw [h0, zero_add] at htot
  simp only [htot, h1]

/-- `random uniform distribution` inside its depth range, for a listed composition: sizes as `SizesSpec`; the matrices are
whatever `drawMatrices none none` returns (`Pm` is any postcondition of that) -/
theorem randomUniform_post (T : Transc F) (hcan : CanonicalInUnit (F := F) G)
    (rng : DepthRange F) (comps : List Nat) (sizes : List F) (normalize : List Bool) (ctx : Ctx F) (q : Query F)
    (n : Nat) (old : Grains F) (lm : F × F) (i : Nat) (gs : F) (nrm : Bool)
    (hin : @DepthRange.locals F (fieldScalar T) rng ctx q false = .ok (some lm))
    (hi : findComposition comps n = some i) (hgs : sizes[i]? = some gs) (hn : normalize[i]? = some nrm)
    (Pm : List (M3 F) → Prop) (hPm : Post (G := G) (@drawMatrices F (fieldScalar T) G _ none none old.mats.length) Pm) :
    Post (G := G) (@GrainsModel.get F (fieldScalar T) G _ (.randomUniform rng comps sizes normalize) ctx q n old)
      (fun new => SizesSpec gs nrm old.sizes.length new.sizes ∧ Pm new.mats) := by
  unfold GrainsModel.get
  simp only [hin, hi]
  refine Post.bind (P := fun r => r = some lm) (Post.liftE fun a h => (Except.ok.inj h).symm) fun r hr => ?_
  subst hr
  simp only
  refine Post.bind hPm fun mats hmats => ?_
  refine Post.mono (sizesTail_post T hcan sizes normalize i gs nrm _ mats hgs hn) ?_
  rintro new ⟨h1, h2⟩
  exact ⟨h1, h2 ▸ hmats⟩

theorem idx_ok {α : Type} {xs : List α} {i : Nat} {a : α} (h : idx xs i = .ok a) : xs[i]? = some a := by
  unfold idx at h; split at h
  · rename_i v hv; rw [hv]; exact congrArg some (Except.ok.inj h)
  · cases h

/-- `random uniform distribution deflected`, likewise; the matrices are whatever `drawMatrices (some d) (some b)` returns for the
deflection `d` and the basis `b` of the slot -/
theorem randomUniformDeflected_post (T : Transc F) (hcan : CanonicalInUnit (F := F) G)
    (rng : DepthRange F) (comps : List Nat) (basis : List (M3 F)) (sizes : List F) (normalize : List Bool)
    (deflections : List F) (ctx : Ctx F) (q : Query F)
    (n : Nat) (old : Grains F) (lm : F × F) (i : Nat) (gs : F) (nrm : Bool)
    (hin : @DepthRange.locals F (fieldScalar T) rng ctx q false = .ok (some lm))
    (hi : findComposition comps n = some i) (hgs : sizes[i]? = some gs) (hn : normalize[i]? = some nrm)
    (Pm : F → M3 F → List (M3 F) → Prop)
    (hPm : ∀ d b, Post (G := G) (@drawMatrices F (fieldScalar T) G _ (some d) (some b) old.mats.length) (Pm d b)) :
    Post (G := G) (@GrainsModel.get F (fieldScalar T) G _
        (.randomUniformDeflected rng comps basis sizes normalize deflections) ctx q n old)
      (fun new => SizesSpec gs nrm old.sizes.length new.sizes ∧
        ∃ d b, deflections[i]? = some d ∧ basis[i]? = some b ∧ Pm d b new.mats) := by
  unfold GrainsModel.get
  simp only [hin, hi]
  refine Post.bind (P := fun r => r = some lm) (Post.liftE fun a h => (Except.ok.inj h).symm) fun r hr => ?_
  subst hr
  simp only
  refine Post.bind (P := fun d => deflections[i]? = some d) (Post.liftE fun a h => idx_ok h) fun d hd => ?_
  refine Post.bind (P := fun b => basis[i]? = some b) (Post.liftE fun a h => idx_ok h) fun b hb => ?_
  refine Post.bind (hPm d b) fun mats hmats => ?_
  refine Post.mono (sizesTail_post T hcan sizes normalize i gs nrm _ mats hgs hn) ?_
  rintro new ⟨h1, h2⟩
  exact ⟨h1, d, b, hd, hb, h2 ▸ hmats⟩

/-- the matrix postcondition used for the rotation statements: as many matrices as before, all proper rotations -/
theorem drawMatrices_len_rot (T : Transc F)
    (hsc : ∀ x, T.sin x * T.sin x + T.cos x * T.cos x = 1) (hsqrt : ∀ x, 0 ≤ x → T.sqrt x * T.sqrt x = x)
    (hcan : CanonicalInUnit (F := F) G) (defl : Option F) (basis : Option (M3 F))
    (hd : ∀ d, defl = some d → 0 ≤ d ∧ d ≤ 1) (hb : ∀ b, basis = some b → b.Rot) (n : Nat) :
    Post (G := G) (@drawMatrices F (fieldScalar T) G _ defl basis n) (fun ms => ms.length = n ∧ ∀ m ∈ ms, m.Rot) :=
  Post.and (@drawMatrices_length F G (fieldScalar T) _ _ _ _) (drawMatrices_rot T hsc hsqrt hcan defl basis hd hb n)

theorem sum_pos_of_all_eq (ss : List F) (gs : F) (hpos : 0 < gs) (hall : ∀ s ∈ ss, s = gs) (hne : ss ≠ []) : 0 < ss.sum := by
  have hnn : ∀ l : List F, (∀ s ∈ l, s = gs) → 0 ≤ l.sum := by
    intro l hl
    induction l with
    | nil => simp
    | cons x l ih =>
      rw [List.sum_cons]
      have hx : x = gs := hl x List.mem_cons_self
      have := ih (fun y hy => hl y (List.mem_cons_of_mem _ hy))
      rw [hx]; linarith
  cases ss with
  | nil => exact absurd rfl hne
  | cons x l =>
    rw [List.sum_cons]
    have hx : x = gs := hall x List.mem_cons_self
    have := hnn l (fun y hy => hall y (List.mem_cons_of_mem _ hy))
    rw [hx]; linarith

end Gwb
