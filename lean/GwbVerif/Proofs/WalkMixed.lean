/-
Helpers for C06 (the walk along STRAIGHT and CIRCULAR pieces): which piece the "closest so far" test keeps when the geometry phase
of a circular piece that rejects the point leaves `newDistance / newAlong / newDepthRef` as the previous iteration left them.

Part 1: `segmentStep_gen` — one iteration (not skipped) in terms of what the geometry phase `segGeom` left in the three `new…`
members: the "closest so far" block runs iff `−1e-10 ≤ newAlong ≤ |len| ∧ |newDistance| < |distance|`.
Part 2: the abstract chain.  Piece `k` either writes a FRESH triple `(nd k, na k, ndr k)` (`fresh k`) or leaves the pending triple.
`GenStep`, `mixAcc`, `mixKey`, `mixSel`, `mixOutOf`; `NoOvershoot`; `mixed_chain`: under `NoOvershoot` the pending triple can never
pass the test again (invariant `Pending`), so the answer is that of the first accepting piece of minimal `|nd|`.
`stale_step`: when the invariant fails (`len_j < na_j ≤ len_{j+1}`) a rejecting piece records the previous piece's numbers as its own.
Part 3: the two kinds of pieces of the model satisfy `GenStep`: `PieceKind`, `pk…`, `MixedPiece`, `mixedPiece_step`.
Part 4: the states of the loop: `mixVertex`, `segStates_mixed_walk`.
-/
import GwbVerif.Proofs.WalkSelect
import GwbVerif.Proofs.ArcPiece
namespace Gwb
open Scalar
set_option linter.unusedSectionVars false
set_option linter.unusedVariables false
set_option linter.unusedSimpArgs false

/-! ## Part 1: one iteration, generically -/
section gen
variable {F : Type} [Field F] [LinearOrder F] [IsStrictOrderedRing F] (T : Transc F)

theorem segPre_newDistance {R : Type} [Scalar R] (dm : DepthMethod) (i : Nat) (s : SegState R) : (segPre dm i s).newDistance = s.newDistance := by
  unfold segPre; dsimp only; split <;> rfl
theorem segPre_newAlong {R : Type} [Scalar R] (dm : DepthMethod) (i : Nat) (s : SegState R) : (segPre dm i s).newAlong = s.newAlong := by
  unfold segPre; dsimp only; split <;> rfl
theorem segPre_newDepthRef {R : Type} [Scalar R] (dm : DepthMethod) (i : Nat) (s : SegState R) : (segPre dm i s).newDepthRef = s.newDepthRef := by
  unfold segPre; dsimp only; split <;> rfl

/-- the "closest so far" test on a pending triple -/
def closestTest (ga gd len dist : F) : Prop := -(1 / 10 ^ 10) ≤ ga ∧ ga ≤ |len| ∧ |gd| < |dist|
instance (ga gd len dist : F) : Decidable (closestTest ga gd len dist) := by unfold closestTest; infer_instance

/-- what one iteration does to the answer, given the triple `(gd, ga, gr)` the geometry phase left -/
def stepOut (op : Bool) (k : Nat) (len : F) (s : SegState F) (gd ga gr : F) : WalkOut F :=
  if closestTest ga gd len s.distance then ⟨if op then |gd| else gd, ga + s.totalLength, ga / len, gr, k, true⟩ else s.out

/-- one iteration that is not skipped, whatever the piece -/
theorem segmentStep_gen (dm : DepthMethod) (op : Bool) (sr fr : F) (q : P2 F)
    (angCur angNext : P2 F) (lenCur lenNext : F) (i : Nat) (s : SegState F) :
    let s1 := @segPre F (fieldScalar T) dm i s
    let θ := @segAngTop F (fieldScalar T) dm fr angCur angNext i s1
    let β := @segAngBot F (fieldScalar T) fr angCur angNext s1
    let len := lenCur + fr * (lenNext - lenCur)
    let g := @segGeom F (fieldScalar T) sr q θ β len s1
    let r := @segmentStep F (fieldScalar T) dm op sr fr q angCur angNext lenCur lenNext i s
    1 / 10 ^ 14 ≤ len →
      r.endSeg = g.endSeg ∧ r.totalLength = s.totalLength + len ∧
      r.newDistance = g.newDistance ∧ r.newAlong = g.newAlong ∧ r.newDepthRef = g.newDepthRef ∧
      r.out = stepOut op i len s g.newDistance g.newAlong g.newDepthRef := by
  intro s1 θ β len g r hlen
  have hnot : ¬ @LT.lt F (fieldScalar T).toLT (@lerpC F (fieldScalar T) lenCur lenNext fr)
      (@OfScientific.ofScientific F (@Scalar.instOfScientific F (fieldScalar T)) 1 true 14) := by
    rw [lit_1em14]; exact not_lt.mpr hlen
  obtain ⟨hr, fd, fa, fs, ff, fdr, ffo, ftl, _, _⟩ :=
    @segmentStep_frame F (fieldScalar T) dm op sr fr q angCur angNext lenCur lenNext i s hnot
  obtain ⟨_, g2, g3, g4, g5⟩ := @segmentStep_geom F (fieldScalar T) dm op sr fr q angCur angNext lenCur lenNext i s hnot
  have hr' : r = @segFinish F (fieldScalar T) θ β len (@segClosest F (fieldScalar T) op i θ β len g) := hr
  have fd' : g.distance = s.distance := fd
  have fa' : g.along = s.along := fa
  have fs' : g.segment = s.segment := fs
  have ff' : g.segmentFraction = s.segmentFraction := ff
  have fdr' : g.depthRef = s.depthRef := fdr
  have ffo' : g.found = s.found := ffo
  have ftl' : g.totalLength = s.totalLength := ftl
  refine ⟨g2, ?_, g4, g3, g5, ?_⟩
  · have := @segmentStep_totalLength F (fieldScalar T) dm op sr fr q angCur angNext lenCur lenNext i s
    rw [if_neg hnot] at this
    exact this
  · unfold stepOut
    by_cases hc : closestTest g.newAlong g.newDistance len s.distance
    · rw [if_pos hc]
      have hc' : -(1 / 10 ^ 10) ≤ g.newAlong ∧ g.newAlong ≤ |len| ∧ |g.newDistance| < |g.distance| := by
        rw [fd']; exact hc
      obtain ⟨taa, hcl⟩ := segClosest_accept T op i θ β len g hc'
      rw [hr', hcl]
      show (⟨if op then |g.newDistance| else g.newDistance, g.newAlong + g.totalLength, g.newAlong / len, g.newDepthRef, i, true⟩ : WalkOut F) = _
      rw [ftl']
    · rw [if_neg hc]
      have hc' : ¬ (-(1 / 10 ^ 10) ≤ g.newAlong ∧ g.newAlong ≤ |len| ∧ |g.newDistance| < |g.distance|) := by
        rw [fd']; exact hc
      rw [hr', segClosest_reject T op i θ β len g hc']
      show (⟨g.distance, g.along, g.segmentFraction, g.depthRef, g.segment, g.found⟩ : WalkOut F) = _
      rw [fd', fa', fs', ff', fdr', ffo']
      rfl

end gen

/-! ## Part 2: the abstract chain -/
section chain
variable {F : Type} [Field F] [LinearOrder F] [IsStrictOrderedRing F] (T : Transc F)

/-- a pair of consecutive states, given the triple `(gd, ga, gr)` the geometry phase of piece `k` (length `len`) left -/
def GenStep (op : Bool) (k : Nat) (len : F) (s r : SegState F) (gd ga gr : F) : Prop :=
  r.newDistance = gd ∧ r.newAlong = ga ∧ r.newDepthRef = gr ∧ r.totalLength = s.totalLength + len ∧
  r.out = stepOut op k len s gd ga gr

variable (fresh : Nat → Prop) [DecidablePred fresh] (nd na ndr len : Nat → F)

/-- piece `k` accepts the point: it wrote a fresh triple, the along-value is in the window `[−1e-10, |len k|]`, and `|nd k| < |∞|`
(an artefact of `∞` being an element of the field) -/
def mixAcc (k : Nat) : Prop := fresh k ∧ -(1 / 10 ^ 10) ≤ na k ∧ na k ≤ |len k| ∧ |nd k| < |T.inf|
instance : DecidablePred (mixAcc T fresh nd na len) := fun k => by unfold mixAcc; infer_instance
/-- what the comparison orders by -/
def mixKey (k : Nat) : F := |nd k|
/-- the piece kept after `n` pieces -/
def mixSel (n : Nat) : Option Nat := selFirstMin (mixAcc T fresh nd na len) (mixKey nd) n
/-- the answer for a selected piece -/
def mixOutOf (op : Bool) (t0 : F) (o0 : WalkOut F) : Option Nat → WalkOut F
  | none => o0
  | some k => ⟨if op then |nd k| else nd k, na k + (t0 + walkCum len k), na k / len k, ndr k, k, true⟩
/-- **specification of the mixed walk** -/
def mixSpec (op : Bool) (t0 : F) (o0 : WalkOut F) (n : Nat) : WalkOut F :=
  mixOutOf nd na ndr len op t0 o0 (mixSel T fresh nd na len n)

/-- a fresh triple that could win (`|nd| < |∞|`, along-value not below the window) does not exceed the piece's own length: then a
triple that lost the test at its own piece can never pass it later.  Straight pieces satisfy it; a circular piece violates it exactly
when the point is accepted through the `1e-12` tolerance BEYOND the bottom dip -/
def NoOvershoot (k : Nat) : Prop := fresh k → |nd k| < |T.inf| → -(1 / 10 ^ 10) ≤ na k → na k ≤ |len k|

/-- the pending triple of a state cannot pass the "closest so far" test, whatever the length of the piece it is tested against -/
def Pending (s : SegState F) : Prop := s.newAlong < -(1 / 10 ^ 10) ∨ |s.distance| ≤ |s.newDistance|

/-- smallest key so far -/
def bestKey : Option Nat → F
  | none => |T.inf|
  | some j => mixKey nd j

theorem mixSel_succ (n : Nat) :
    mixSel T fresh nd na len (n + 1) =
      if mixAcc T fresh nd na len n ∧ mixKey nd n < bestKey T nd (mixSel T fresh nd na len n) then some n else mixSel T fresh nd na len n := by
  have hsel : mixSel T fresh nd na len (n + 1) =
      (match mixSel T fresh nd na len n with
       | none => if mixAcc T fresh nd na len n then some n else none
       | some j => if mixAcc T fresh nd na len n ∧ mixKey nd n < mixKey nd j then some n else some j) := rfl
  rw [hsel]
  cases h : mixSel T fresh nd na len n with
  | none =>
    dsimp only
    by_cases ha : mixAcc T fresh nd na len n
    · rw [if_pos ha, if_pos (show mixAcc T fresh nd na len n ∧ mixKey nd n < bestKey T nd none from ⟨ha, ha.2.2.2⟩)]
    · rw [if_neg ha, if_neg (show ¬ (mixAcc T fresh nd na len n ∧ mixKey nd n < bestKey T nd none) from fun hh => ha hh.1)]
  | some j => rfl

theorem bestKey_le (n : Nat) : bestKey T nd (mixSel T fresh nd na len n) ≤ |T.inf| := by
  cases h : mixSel T fresh nd na len n with
  | none => exact le_rfl
  | some j => exact ((selFirstMin_some _ _ _ _ h).2.1).2.2.2.le

theorem stepOut_distance (op : Bool) (k : Nat) (l : F) (s : SegState F) (gd ga gr : F) :
    |(stepOut op k l s gd ga gr).distance| = if closestTest ga gd l s.distance then |gd| else |s.distance| := by
  unfold stepOut
  split
  · show |if op then |gd| else gd| = _
    rw [abs_ite_abs]
  · rfl

/-- **the loop invariant for mixed walks**: a chain of states linked by `GenStep` — piece `k` either writes its fresh triple or
leaves the pending one — carries the answer `mixSpec`, provided no piece overshoots -/
theorem mixed_chain (op : Bool) (st : Nat → SegState F) (n : Nat)
    (h0 : (st 0).distance = T.inf) (h0n : (st 0).newDistance = T.inf)
    (hno : (∀ k, k < n → fresh k) ∨ (∀ k, k < n → NoOvershoot T fresh nd na len k))
    (hstep : ∀ k, k < n →
      (fresh k → GenStep op k (len k) (st k) (st (k + 1)) (nd k) (na k) (ndr k)) ∧
      (¬ fresh k → GenStep op k (len k) (st k) (st (k + 1)) (st k).newDistance (st k).newAlong (st k).newDepthRef)) :
    ∀ k, k ≤ n →
      (st k).totalLength = (st 0).totalLength + walkCum len k ∧
      (st k).out = mixSpec T fresh nd na ndr len op (st 0).totalLength (st 0).out k ∧
      |(st k).distance| = bestKey T nd (mixSel T fresh nd na len k) ∧
      ((∀ k, k < n → fresh k) ∨ Pending (st k)) := by
  intro k hk
  induction k with
  | zero =>
    refine ⟨by simp [walkCum], rfl, ?_, Or.inr (Or.inr ?_)⟩
    · show |(st 0).distance| = |T.inf|
      rw [h0]
    · rw [h0, h0n]
  | succ k ih =>
    obtain ⟨i1, i2, i3, i4⟩ := ih (Nat.le_of_succ_le hk)
    have hklt : k < n := Nat.lt_of_succ_le hk
    obtain ⟨hf, hnf⟩ := hstep k hklt
    have hble := bestKey_le T fresh nd na len k
    have hdist : ∀ s : SegState F, s.distance = s.out.distance := fun _ => rfl
    by_cases hfr : fresh k
    · obtain ⟨e1, e2, e3, e4, e5⟩ := hf hfr
      have hcond : closestTest (na k) (nd k) (len k) (st k).distance ↔
          (mixAcc T fresh nd na len k ∧ mixKey nd k < bestKey T nd (mixSel T fresh nd na len k)) := by
        unfold closestTest
        rw [i3]
        constructor
        · rintro ⟨a1, a2, a3⟩
          exact ⟨⟨hfr, a1, a2, lt_of_lt_of_le a3 hble⟩, a3⟩
        · rintro ⟨⟨_, a1, a2, _⟩, a3⟩
          exact ⟨a1, a2, a3⟩
      have hd := stepOut_distance op k (len k) (st k) (nd k) (na k) (ndr k)
      rw [← e5, ← hdist] at hd
      refine ⟨?_, ?_, ?_, ?_⟩
      · rw [e4, i1]; show _ = _ + (walkCum len k + len k); ring
      · unfold mixSpec
        rw [mixSel_succ, e5]
        unfold stepOut
        by_cases hc : closestTest (na k) (nd k) (len k) (st k).distance
        · rw [if_pos hc, if_pos (hcond.1 hc)]
          show _ = (⟨_, na k + ((st 0).totalLength + walkCum len k), _, _, _, _⟩ : WalkOut F)
          rw [i1]
        · rw [if_neg hc, if_neg (fun h => hc (hcond.2 h)), i2]
          rfl
      · rw [hd, mixSel_succ]
        by_cases hc : closestTest (na k) (nd k) (len k) (st k).distance
        · rw [if_pos hc, if_pos (hcond.1 hc)]; rfl
        · rw [if_neg hc, if_neg (fun h => hc (hcond.2 h)), i3]
      · rcases hno with hall | hno
        · exact Or.inl hall
        right
        unfold Pending
        rw [hd, e1, e2]
        by_cases hc : closestTest (na k) (nd k) (len k) (st k).distance
        · rw [if_pos hc]; exact Or.inr le_rfl
        · rw [if_neg hc]
          by_cases hlow : -(1 / 10 ^ 10) ≤ na k
          · right
            by_cases hinf : |nd k| < |T.inf|
            · have hup := hno k hklt hfr hinf hlow
              exact not_lt.mp (fun h => hc ⟨hlow, hup, h⟩)
            · rw [i3]; exact le_trans hble (not_lt.mp hinf)
          · exact Or.inl (not_le.mp hlow)
    · obtain ⟨e1, e2, e3, e4, e5⟩ := hnf hfr
      have i4' : Pending (st k) := by
        rcases i4 with hall | h
        · exact absurd (hall k hklt) hfr
        · exact h
      have hc : ¬ closestTest (st k).newAlong (st k).newDistance (len k) (st k).distance := by
        rintro ⟨a1, _, a3⟩
        rcases i4' with h | h
        · exact absurd a1 (not_le.mpr h)
        · exact absurd a3 (not_lt.mpr h)
      have hna : ¬ (mixAcc T fresh nd na len k ∧ mixKey nd k < bestKey T nd (mixSel T fresh nd na len k)) := fun h => hfr h.1.1
      have hout : (st (k + 1)).out = (st k).out := by
        rw [e5]; unfold stepOut; rw [if_neg hc]
      have hd : (st (k + 1)).distance = (st k).distance := congrArg WalkOut.distance hout
      refine ⟨?_, ?_, ?_, ?_⟩
      · rw [e4, i1]; show _ = _ + (walkCum len k + len k); ring
      · unfold mixSpec
        rw [mixSel_succ, if_neg hna, hout, i2]
        rfl
      · rw [hd, mixSel_succ, if_neg hna, i3]
      · right
        unfold Pending
        rw [hd, e1, e2]
        exact i4'

/-- **the stale acceptance**: a state whose pending triple `(gd, ga, gr)` — written by an EARLIER piece — satisfies
`−1e-10 ≤ ga ≤ |len k|` and `|gd| < |distance|` (possible only if `ga` exceeded the length of the piece that wrote it), entering a
piece `k` that writes nothing (a circular piece whose sector test rejects the point): the piece records the earlier piece's numbers
as its own — `segment = k`, `fraction = ga / len k`, `along = ga + totalLength` with `totalLength` already containing the earlier
piece's whole length -/
theorem stale_step (op : Bool) (k : Nat) (l : F) (s r : SegState F)
    (h : GenStep op k l s r s.newDistance s.newAlong s.newDepthRef)
    (h1 : -(1 / 10 ^ 10) ≤ s.newAlong) (h2 : s.newAlong ≤ |l|) (h3 : |s.newDistance| < |s.distance|) :
    r.segment = k ∧ r.found = true ∧ r.along = s.newAlong + s.totalLength ∧ r.segmentFraction = s.newAlong / l ∧
    r.distance = (if op then |s.newDistance| else s.newDistance) ∧ r.depthRef = s.newDepthRef := by
  obtain ⟨_, _, _, _, e5⟩ := h
  unfold stepOut at e5
  rw [if_pos ⟨h1, h2, h3⟩] at e5
  exact ⟨congrArg WalkOut.segment e5, congrArg WalkOut.found e5, congrArg WalkOut.along e5, congrArg WalkOut.fraction e5,
    congrArg WalkOut.distance e5, congrArg WalkOut.depthRef e5⟩

end chain

/-! ## Part 3: the two kinds of pieces of the model (repaired step: a rejecting piece of either kind writes `+∞`) -/
section pieces
variable {F : Type} [Field F] [LinearOrder F] [IsStrictOrderedRing F] (T : Transc F)

/-- a piece of the walk: straight (dip `θ`), circular with the dip increasing downwards from `θ` to `β` (`arcUp`: centre below the
surface), circular with the dip decreasing (`arcDown`: centre above).  For a circular piece `(ρ, ψ)` is the polar position of the
check point about the centre (`ψ` = dip of the circle at the foot of the point), as in `C06_arc_increasing_dip / _decreasing_dip` -/
inductive PieceKind (F : Type) where
  | straight (θ len : F)
  | arcUp (θ β len ρ ψ : F)
  | arcDown (θ β len ρ ψ : F)

def pkLen : PieceKind F → F
  | .straight _ len => len
  | .arcUp _ _ len _ _ => len
  | .arcDown _ _ len _ _ => len

/-- radius of a circular piece (0 for a straight one) -/
def pkRadius : PieceKind F → F
  | .straight _ _ => 0
  | .arcUp θ β len _ _ => len / (β - θ)
  | .arcDown θ β len _ _ => len / (θ - β)

/-- centre of a circular piece that begins at `b` (`b` itself for a straight one): `b ± radius·n(θ)` -/
def pkCenter (b : P2 F) : PieceKind F → P2 F
  | .straight _ _ => b
  | .arcUp θ β len _ _ => ⟨b.x - len / (β - θ) * T.sin θ, b.y - len / (β - θ) * T.cos θ⟩
  | .arcDown θ β len _ _ => ⟨b.x + len / (θ - β) * T.sin θ, b.y + len / (θ - β) * T.cos θ⟩

/-- end point of a piece that begins at `b` -/
def pkEnd (b : P2 F) : PieceKind F → P2 F
  | .straight θ len => ⟨b.x + len * T.cos θ, b.y - len * T.sin θ⟩
  | .arcUp θ β len _ _ =>
    ⟨b.x - len / (β - θ) * T.sin θ + len / (β - θ) * T.sin β, b.y - len / (β - θ) * T.cos θ + len / (β - θ) * T.cos β⟩
  | .arcDown θ β len _ _ =>
    ⟨b.x + len / (θ - β) * T.sin θ - len / (θ - β) * T.sin β, b.y + len / (θ - β) * T.cos θ - len / (θ - β) * T.cos β⟩

/-- the geometry phase attributes the point to the piece: the foot is on the straight piece (both ends included); the sector test of
the circular piece passes (`ψ` between the two dips up to the tolerance `1e-12` rad) -/
def pkIn (b q : P2 F) : PieceKind F → Prop
  | .straight θ len => 0 ≤ alongDip T b q θ ∧ alongDip T b q θ ≤ len
  | .arcUp θ β _ _ ψ => (θ ≤ ψ ∨ |ψ - θ| < 1 / 10 ^ 12) ∧ (ψ ≤ β ∨ |ψ - β| < 1 / 10 ^ 12)
  | .arcDown θ β _ _ ψ => (ψ ≤ θ ∨ |ψ - θ| < 1 / 10 ^ 12) ∧ (β ≤ ψ ∨ |ψ - β| < 1 / 10 ^ 12)
instance (b q : P2 F) : DecidablePred (pkIn T b q) := fun p => by cases p <;> (unfold pkIn; infer_instance)

/-- signed distance from the piece, positive below: `⟨q − b, n⟩`; `radius − ρ` (centre below) resp. `ρ − radius` (centre above) -/
def pkD (b q : P2 F) : PieceKind F → F
  | .straight θ _ => belowDip T b q θ
  | .arcUp θ β len ρ _ => len / (β - θ) - ρ
  | .arcDown θ β len ρ _ => ρ - len / (θ - β)
/-- along-value local to the piece: `⟨q − b, t⟩`; the arc length `radius·|ψ − θ|` from the start of the arc to the foot -/
def pkA (b q : P2 F) : PieceKind F → F
  | .straight θ _ => alongDip T b q θ
  | .arcUp θ β len _ ψ => len / (β - θ) * (ψ - θ)
  | .arcDown θ β len _ ψ => len / (θ - β) * (θ - ψ)
/-- reference depth: `startRadius − (foot).y` -/
def pkR (sr : F) (b q : P2 F) : PieceKind F → F
  | .straight θ _ => sr - (b.y - alongDip T b q θ * T.sin θ)
  | .arcUp θ β len _ ψ => sr - (b.y - len / (β - θ) * T.cos θ + len / (β - θ) * T.cos ψ)
  | .arcDown θ β len _ ψ => sr - (b.y + len / (θ - β) * T.cos θ - len / (θ - β) * T.cos ψ)

/-- the triple the geometry phase writes: that of the piece when it attributes the point, `+∞` otherwise -/
def pkNd (b q : P2 F) (kd : PieceKind F) : F := if pkIn T b q kd then pkD T b q kd else T.inf
def pkNa (b q : P2 F) (kd : PieceKind F) : F := if pkIn T b q kd then pkA T b q kd else T.inf
def pkNdr (sr : F) (b q : P2 F) (kd : PieceKind F) : F := if pkIn T b q kd then pkR T sr b q kd else T.inf

/-- an iteration whose interpolated dips and length are `θt, βt, lent`, entered at the point `b`, is a piece of the given kind (the
hypotheses of `C06_line_piece`, `C06_arc_increasing_dip`, `C06_arc_decreasing_dip`) -/
def MixedAt (θt βt lent : F) (b q : P2 F) : PieceKind F → Prop
  | .straight θ len => θt = θ ∧ |θ - βt| < 1 / 10 ^ 8 ∧ lent = len ∧ T.eps < |len| ∧ 1 / 10 ^ 14 ≤ len
  | .arcUp θ β len ρ ψ =>
    θt = θ ∧ βt = β ∧ lent = len ∧
    DipOK T θ ∧ θ < β ∧ ¬ |θ - β| < 1 / 10 ^ 8 ∧ 1 / 10 ^ 14 ≤ len ∧ 0 < ρ ∧ ¬ ρ < T.eps ∧ 0 ≤ ψ ∧ ψ ≤ 2 * T.pi - 1 / 10 ^ 14 ∧
    q = ⟨b.x - len / (β - θ) * T.sin θ + ρ * T.sin ψ, b.y - len / (β - θ) * T.cos θ + ρ * T.cos ψ⟩
  | .arcDown θ β len ρ ψ =>
    θt = θ ∧ βt = β ∧ lent = len ∧
    DipOK T θ ∧ β < θ ∧ ¬ |θ - β| < 1 / 10 ^ 8 ∧ 1 / 10 ^ 14 ≤ len ∧ 0 < ρ ∧ ¬ ρ < T.eps ∧ -T.pi < ψ ∧ ψ ≤ T.pi ∧
    q = ⟨b.x + len / (θ - β) * T.sin θ - ρ * T.sin ψ, b.y + len / (θ - β) * T.cos θ - ρ * T.cos ψ⟩

theorem mixedAt_len (θt βt lent : F) (b q : P2 F) (kd : PieceKind F) (h : MixedAt T θt βt lent b q kd) :
    lent = pkLen kd ∧ 1 / 10 ^ 14 ≤ pkLen kd := by
  cases kd with
  | straight θ len => exact ⟨h.2.2.1, h.2.2.2.2⟩
  | arcUp θ β len ρ ψ => exact ⟨h.2.2.1, h.2.2.2.2.2.2.1⟩
  | arcDown θ β len ρ ψ => exact ⟨h.2.2.1, h.2.2.2.2.2.2.1⟩

/-- what the geometry phase does on a piece of either kind -/
theorem mixedAt_geom (L : ArcLaws T) (sr θt βt lent : F) (q : P2 F) (s1 : SegState F) (kd : PieceKind F)
    (hb : s1.beginSeg = s1.endSeg) (h : MixedAt T θt βt lent s1.endSeg q kd) :
    (@segGeom F (fieldScalar T) sr q θt βt lent s1).endSeg = pkEnd T s1.endSeg kd ∧
    (@segGeom F (fieldScalar T) sr q θt βt lent s1).newDistance = pkNd T s1.endSeg q kd ∧
    (@segGeom F (fieldScalar T) sr q θt βt lent s1).newAlong = pkNa T s1.endSeg q kd ∧
    (@segGeom F (fieldScalar T) sr q θt βt lent s1).newDepthRef = pkNdr T sr s1.endSeg q kd := by
  have h14 : (0 : F) < 1 / 10 ^ 14 := by positivity
  cases kd with
  | straight θ len =>
    obtain ⟨p1, p2, p3, p4, p5⟩ := h
    subst p1 p3
    have hpos : 0 < lent := lt_of_lt_of_le h14 p5
    obtain ⟨_, k2, k3, k4⟩ := segGeom_straight T L.plane sr q θt βt lent s1 hb p2 p4 hpos
    unfold pkNd pkNa pkNdr
    by_cases hin : pkIn T s1.endSeg q (.straight θt lent)
    · obtain ⟨a1, a2, a3⟩ := k3 hin
      rw [if_pos hin, if_pos hin, if_pos hin]
      exact ⟨k2, a2, a1, a3⟩
    · obtain ⟨a1, a2, a3⟩ := k4 hin
      rw [if_neg hin, if_neg hin, if_neg hin]
      exact ⟨k2, a2, a1, a3⟩
  | arcUp θ β len ρ ψ =>
    obtain ⟨p1, p2, p3, hθ, hlt, harc, hlen, hρ, hε, h0, h1, hq⟩ := h
    subst p1 p2 p3
    have hpos : 0 < lent := lt_of_lt_of_le h14 hlen
    rw [segGeom_arc T sr q θt βt lent s1 harc]
    have key := segArc_incr L sr θt βt lent s1 hθ (by linarith) hpos ρ ψ hρ hε h0 h1
    rw [hb] at key
    dsimp only at key
    rw [← hq] at key
    obtain ⟨k1, k2, k3, k4, k5, k6, k7⟩ := key
    unfold pkNd pkNa pkNdr
    by_cases hin : pkIn T s1.endSeg q (.arcUp θt βt lent ρ ψ)
    · obtain ⟨a1, a2, a3⟩ := k6 (k5.2 hin)
      rw [if_pos hin, if_pos hin, if_pos hin]
      exact ⟨k4, a2, a1, a3⟩
    · obtain ⟨a1, a2, a3⟩ := k7 (fun hh => hin (k5.1 hh))
      rw [if_neg hin, if_neg hin, if_neg hin]
      exact ⟨k4, a2, a1, a3⟩
  | arcDown θ β len ρ ψ =>
    obtain ⟨p1, p2, p3, hθ, hlt, harc, hlen, hρ, hε, h0, h1, hq⟩ := h
    subst p1 p2 p3
    have hpos : 0 < lent := lt_of_lt_of_le h14 hlen
    rw [segGeom_arc T sr q θt βt lent s1 harc]
    have key := segArc_decr L sr θt βt lent s1 hθ (by linarith) hpos ρ ψ hρ hε h0 h1
    rw [hb] at key
    dsimp only at key
    rw [← hq] at key
    obtain ⟨k1, k2, k3, k4, k5, k6, k7⟩ := key
    unfold pkNd pkNa pkNdr
    by_cases hin : pkIn T s1.endSeg q (.arcDown θt βt lent ρ ψ)
    · obtain ⟨a1, a2, a3⟩ := k6 (k5.2 hin)
      rw [if_pos hin, if_pos hin, if_pos hin]
      exact ⟨k4, a2, a1, a3⟩
    · obtain ⟨a1, a2, a3⟩ := k7 (fun hh => hin (k5.1 hh))
      rw [if_neg hin, if_neg hin, if_neg hin]
      exact ⟨k4, a2, a1, a3⟩

/-- one iteration on a piece of either kind: it always writes a fresh triple -/
theorem mixedAt_step (L : ArcLaws T) (dm : DepthMethod) (op : Bool) (sr fr : F) (q : P2 F)
    (angCur angNext : P2 F) (lenCur lenNext : F) (i : Nat) (s : SegState F) (kd : PieceKind F)
    (h : MixedAt T (@segAngTop F (fieldScalar T) dm fr angCur angNext i (@segPre F (fieldScalar T) dm i s))
      (@segAngBot F (fieldScalar T) fr angCur angNext (@segPre F (fieldScalar T) dm i s)) (lenCur + fr * (lenNext - lenCur)) s.endSeg q kd) :
    (@segmentStep F (fieldScalar T) dm op sr fr q angCur angNext lenCur lenNext i s).endSeg = pkEnd T s.endSeg kd ∧
    GenStep op i (pkLen kd) s (@segmentStep F (fieldScalar T) dm op sr fr q angCur angNext lenCur lenNext i s)
      (pkNd T s.endSeg q kd) (pkNa T s.endSeg q kd) (pkNdr T sr s.endSeg q kd) := by
  obtain ⟨hl1, hl2⟩ := mixedAt_len T _ _ _ _ _ _ h
  have gen := segmentStep_gen T dm op sr fr q angCur angNext lenCur lenNext i s
  dsimp only at gen
  obtain ⟨g1, g2, g3, g4, g5, g6⟩ := gen (by rw [hl1]; exact hl2)
  have hb : (@segPre F (fieldScalar T) dm i s).beginSeg = (@segPre F (fieldScalar T) dm i s).endSeg := by
    rw [@segPre_beginSeg F (fieldScalar T), @segPre_endSeg F (fieldScalar T)]
  have he : (@segPre F (fieldScalar T) dm i s).endSeg = s.endSeg := @segPre_endSeg F (fieldScalar T) dm i s
  rw [← he] at h
  obtain ⟨m1, m2, m3, m4⟩ := mixedAt_geom T L sr _ _ _ q _ kd hb h
  rw [he] at m1 m2 m3 m4
  rw [m1] at g1
  rw [m2] at g3 g6
  rw [m3] at g4 g6
  rw [m4] at g5 g6
  rw [hl1] at g2 g6
  exact ⟨g1, g3, g4, g5, g2, g6⟩

end pieces

/-! ## Part 4: the states of the loop -/
section loop
variable {F : Type} [Field F] [LinearOrder F] [IsStrictOrderedRing F] (T : Transc F)

/-- iteration `k` of the loop, entered with state `s`, is a piece of the given kind -/
def MixedPiece (dm : DepthMethod) (fr : F) (angsCur angsNext : List (P2 F)) (lensCur lensNext : List F) (k : Nat) (s : SegState F)
    (q : P2 F) (kd : PieceKind F) : Prop :=
  MixedAt T (@tabAngTop F (fieldScalar T) dm fr angsCur angsNext k s) (@tabAngBot F (fieldScalar T) dm fr angsCur angsNext k s)
    (@tabLen F (fieldScalar T) fr lensCur lensNext k) s.endSeg q kd

/-- vertex `k` of the curve: `b_0`, then `b_{k+1}` = end of piece `k` begun at `b_k` -/
def mixVertex (b0 : P2 F) (kind : Nat → PieceKind F) : Nat → P2 F
  | 0 => b0
  | k + 1 => pkEnd T (mixVertex b0 kind k) (kind k)

/-- the specification of the mixed walk on the pieces `kind`: the fresh triple of piece `k`, its acceptance, the selected piece -/
def mwNd (b0 q : P2 F) (kind : Nat → PieceKind F) (k : Nat) : F := pkNd T (mixVertex T b0 kind k) q (kind k)
def mwNa (b0 q : P2 F) (kind : Nat → PieceKind F) (k : Nat) : F := pkNa T (mixVertex T b0 kind k) q (kind k)
def mwNdr (sr : F) (b0 q : P2 F) (kind : Nat → PieceKind F) (k : Nat) : F := pkNdr T sr (mixVertex T b0 kind k) q (kind k)
def mwLen (kind : Nat → PieceKind F) (k : Nat) : F := pkLen (kind k)

/-- piece `k` accepts the point -/
abbrev mwAcc (b0 q : P2 F) (kind : Nat → PieceKind F) : Nat → Prop :=
  mixAcc T (fun _ => True) (mwNd T b0 q kind) (mwNa T b0 q kind) (mwLen kind)
abbrev mwKey (b0 q : P2 F) (kind : Nat → PieceKind F) : Nat → F := mixKey (mwNd T b0 q kind)
abbrev mwSel (b0 q : P2 F) (kind : Nat → PieceKind F) (n : Nat) : Option Nat :=
  mixSel T (fun _ => True) (mwNd T b0 q kind) (mwNa T b0 q kind) (mwLen kind) n
abbrev mwSpec (op : Bool) (sr : F) (b0 q : P2 F) (kind : Nat → PieceKind F) (t0 : F) (o0 : WalkOut F) (n : Nat) : WalkOut F :=
  mixSpec T (fun _ => True) (mwNd T b0 q kind) (mwNa T b0 q kind) (mwNdr T sr b0 q kind) (mwLen kind) op t0 o0 n

/-- the states of the segment loop over straight and circular pieces carry `mwSpec` -/
theorem segStates_mixed_walk (L : ArcLaws T) (dm : DepthMethod) (op : Bool) (sr fr : F) (q : P2 F)
    (angsCur angsNext : List (P2 F)) (lensCur lensNext : List F) (s0 : SegState F) (kind : Nat → PieceKind F) (n : Nat)
    (h0 : s0.distance = T.inf) (h0n : s0.newDistance = T.inf)
    (hp : ∀ k, k < n → MixedPiece T dm fr angsCur angsNext lensCur lensNext k
      (@segStates F (fieldScalar T) dm op sr fr q angsCur angsNext lensCur lensNext s0 k) q (kind k)) :
    ∀ k, k ≤ n →
      let s := @segStates F (fieldScalar T) dm op sr fr q angsCur angsNext lensCur lensNext s0 k
      s.endSeg = mixVertex T s0.endSeg kind k ∧ s.totalLength = s0.totalLength + walkCum (mwLen kind) k ∧
      s.out = mwSpec T op sr s0.endSeg q kind s0.totalLength s0.out k := by
  -- the vertices first
  have hstepAll : ∀ j, j < n →
      (@segStates F (fieldScalar T) dm op sr fr q angsCur angsNext lensCur lensNext s0 (j + 1)).endSeg =
        pkEnd T (@segStates F (fieldScalar T) dm op sr fr q angsCur angsNext lensCur lensNext s0 j).endSeg (kind j) ∧
      GenStep op j (pkLen (kind j)) (@segStates F (fieldScalar T) dm op sr fr q angsCur angsNext lensCur lensNext s0 j)
        (@segStates F (fieldScalar T) dm op sr fr q angsCur angsNext lensCur lensNext s0 (j + 1))
        (pkNd T (@segStates F (fieldScalar T) dm op sr fr q angsCur angsNext lensCur lensNext s0 j).endSeg q (kind j))
        (pkNa T (@segStates F (fieldScalar T) dm op sr fr q angsCur angsNext lensCur lensNext s0 j).endSeg q (kind j))
        (pkNdr T sr (@segStates F (fieldScalar T) dm op sr fr q angsCur angsNext lensCur lensNext s0 j).endSeg q (kind j)) := by
    intro j hj
    have hm := hp j hj
    unfold MixedPiece tabAngTop tabAngBot tabLen at hm
    rw [lerpC_field] at hm
    exact mixedAt_step T L dm op sr fr q _ _ _ _ j _ (kind j) hm
  have hv : ∀ j, j ≤ n →
      (@segStates F (fieldScalar T) dm op sr fr q angsCur angsNext lensCur lensNext s0 j).endSeg = mixVertex T s0.endSeg kind j := by
    intro j hj
    induction j with
    | zero => rfl
    | succ j ih =>
      rw [(hstepAll j (Nat.lt_of_succ_le hj)).1, ih (Nat.le_of_succ_le hj)]
      rfl
  intro k hk
  have := mixed_chain T (fun _ => True) (mwNd T s0.endSeg q kind) (mwNa T s0.endSeg q kind) (mwNdr T sr s0.endSeg q kind) (mwLen kind) op
    (@segStates F (fieldScalar T) dm op sr fr q angsCur angsNext lensCur lensNext s0) n h0 h0n (Or.inl (fun _ _ => trivial)) ?_ k hk
  · exact ⟨hv k hk, this.1, this.2.1⟩
  · intro j hj
    refine ⟨fun _ => ?_, fun hh => absurd trivial hh⟩
    have := (hstepAll j hj).2
    rw [hv j (Nat.le_of_lt hj)] at this
    exact this

end loop

end Gwb
