/-
Block-wise form of a whole query: `World.props3` is "initial blocks, then every feature block-wise, then the
forced surface temperature block-wise" (`props3_blocks`).  Holds for every `Scalar R` (no laws).
-/
import GwbVerif.Proofs.Blocks
namespace Gwb
open Scalar
set_option linter.unusedSectionVars false
variable {R G : Type} [Scalar R] [RandGen G R]

/-- blocks fit their requests -/
def Fits : List Req → List (List R) → Prop
  | [], [] => True
  | p :: ps, b :: bs => p.size? = some b.length ∧ Fits ps bs
  | _, _ => False

/-- the `for i_property` loop of a covering feature -/
def Hit.paintAll (hit : Hit R) (ctx : Ctx R) (q : Query R) (pes : List (Req × Nat)) (out : List R) : QM G (List R) :=
  pes.foldlM (fun out (pe : Req × Nat) => hit.paintAt ctx q pe.1 pe.2 out) out

/-- the block-wise `for i_property` loop -/
def paintBlocks (hit : Hit R) (ctx : Ctx R) (q : Query R) :
    List Req → List (List R) → QM G (List (List R))
  | p :: ps, b :: bs => do
    let b' ← hit.paintAt ctx q p 0 b
    let bs' ← paintBlocks hit ctx q ps bs
    pure (b' :: bs')
  | _, _ => pure []

def embedBlocks (pre : List R) : Except Err (List (List R) × G) → Except Err (List R × G)
  | .ok (bs, g) => .ok (pre ++ bs.flatten, g)
  | .error e => .error e

theorem Req.size_of_size? {p : Req} {n : Nat} (h : p.size? = some n) : p.size = n := by
  simp [Req.size, h]

theorem paintBlocks_fits (hit : Hit R) (ctx : Ctx R) (q : Query R)
    (ps : List Req) (bs : List (List R)) (hf : Fits ps bs) :
    Post (G := G) (paintBlocks hit ctx q ps bs) (fun bs' => Fits ps bs') := by
  induction ps generalizing bs with
  | nil => cases bs <;> simp [Fits] at hf; exact Post.pure (by simp [Fits])
  | cons p ps ih =>
    cases bs with
    | nil => simp [Fits] at hf
    | cons b bs =>
      obtain ⟨h1, h2⟩ := hf
      unfold paintBlocks
      refine Post.bind (Hit.paintAt_length hit ctx q p b h1) fun b' hb' => ?_
      refine Post.bind (ih bs h2) fun bs' hbs' => Post.pure ?_
      exact ⟨by rw [hb']; exact h1, hbs'⟩

/-- the whole property loop of a feature acts block by block -/
theorem paintAll_blocks (hit : Hit R) (ctx : Ctx R) (q : Query R)
    (ps : List Req) (bs : List (List R)) (hf : Fits ps bs) (pre : List R) (g : G) :
    hit.paintAll ctx q (ps.zip (entriesFrom pre.length ps)) (pre ++ bs.flatten) g
      = embedBlocks pre (paintBlocks hit ctx q ps bs g) := by
  induction ps generalizing bs pre g with
  | nil =>
    cases bs with
    | nil => simp [Hit.paintAll, paintBlocks, embedBlocks, QM.pure_apply]
    | cons b bs => simp [Fits] at hf
  | cons p ps ih =>
    cases bs with
    | nil => simp [Fits] at hf
    | cons b bs =>
      obtain ⟨h1, h2⟩ := hf
      have hlen := Hit.paintAt_length (G := G) hit ctx q p b h1
      simp only [Hit.paintAll, entriesFrom, List.zip_cons_cons, List.foldlM_cons, List.flatten_cons, QM.bind_apply]
      rw [← List.append_assoc, Hit.paintAt_shift hit ctx q p pre b bs.flatten g h1]
      simp only [paintBlocks, QM.bind_apply]
      cases hb : hit.paintAt ctx q p 0 b g with
      | error e => simp [embed, embedBlocks]
      | ok r =>
        obtain ⟨b', g1⟩ := r
        have hb' : b'.length = b.length := hlen _ _ _ hb
        simp only [embed]
        have hpre : (pre ++ b').length = pre.length + p.size := by
          rw [List.length_append, hb', Req.size_of_size? h1]
        have := ih bs h2 (pre ++ b') g1
        rw [hpre] at this
        unfold Hit.paintAll at this
        rw [List.append_assoc] at this ⊢
        rw [this]
        cases paintBlocks hit ctx q ps bs g1 with
        | error e => simp [embedBlocks]
        | ok r2 =>
          obtain ⟨bs', g2⟩ := r2
          simp [embedBlocks, QM.pure_apply, List.append_assoc]

theorem Fits.flatten_length {ps : List Req} {bs : List (List R)} (h : Fits ps bs) : bs.flatten.length = outputSize ps := by
  induction ps generalizing bs with
  | nil => cases bs <;> simp [Fits] at h; simp [outputSize]
  | cons p ps ih =>
    cases bs with
    | nil => simp [Fits] at h
    | cons b bs =>
      obtain ⟨h1, h2⟩ := h
      have := ih h2
      simp only [List.flatten_cons, List.length_append, outputSize, List.map_cons, List.sum_cons] at this ⊢
      rw [this, Req.size_of_size? h1]

/-- the `i`-th block of a flattened block list sits at the `i`-th prefix sum -/
theorem Fits.readBlock_nth {ps : List Req} {bs : List (List R)} (h : Fits ps bs) (s : Nat) (pre : List R) (hs : pre.length = s)
    (i : Nat) (p : Req) (b : List R) (hp : ps[i]? = some p) (hb : bs[i]? = some b) :
    ∃ e, (entriesFrom s ps)[i]? = some e ∧ readBlock e p.size (pre ++ bs.flatten) = b := by
  induction ps generalizing bs s pre i with
  | nil => simp at hp
  | cons p0 ps ih =>
    cases bs with
    | nil => simp at hb
    | cons b0 bs =>
      obtain ⟨h1, h2⟩ := h
      cases i with
      | zero =>
        simp only [List.getElem?_cons_zero, Option.some.injEq] at hp hb
        subst hp; subst hb
        refine ⟨s, by simp [entriesFrom], ?_⟩
        subst hs
        rw [List.flatten_cons, ← List.append_assoc, readBlock_append pre b0 bs.flatten _ (Req.size_of_size? h1).symm]
      | succ i =>
        simp only [List.getElem?_cons_succ] at hp hb
        have hlen : (pre ++ b0).length = s + p0.size := by
          rw [List.length_append, hs, Req.size_of_size? h1]
        obtain ⟨e, he, hr⟩ := ih h2 (s + p0.size) (pre ++ b0) hlen i hp hb
        refine ⟨e, by simpa [entriesFrom] using he, ?_⟩
        rw [List.flatten_cons, ← List.append_assoc]; exact hr

theorem Fits.nth_exists {ps : List Req} {bs : List (List R)} (h : Fits ps bs) (i : Nat) (p : Req) (hp : ps[i]? = some p) :
    ∃ b, bs[i]? = some b := by
  induction ps generalizing bs i with
  | nil => simp at hp
  | cons p0 ps ih =>
    cases bs with
    | nil => simp [Fits] at h
    | cons c cs =>
      cases i with
      | zero => exact ⟨c, by simp⟩
      | succ i => simpa using ih h.2 i (by simpa using hp)

/-! ### features and the world, block-wise -/

def Feature.tag : Feature R → Nat
  | .area a => a.tag
  | .plume p => p.tag
  | .line l => l.tag

/-- the guards a feature evaluates before it writes; `some hit` = "covers the query point" (with what it needs to
paint), `none` = "does not cover". -/
def Feature.cover (f : Feature R) (ctx : Ctx R) (q : Query R) : Except Err (Option (Hit R)) :=
  match f with
  | .area a => (a.covers ctx q).map (fun o => o.map (fun (m : R × R) => Hit.areaLike a.tag a.models m.1 m.2 (0 : R)))
  | .plume p => (p.covers ctx q).map (fun o => o.map (fun rel => Hit.areaLike p.tag p.models p.minDepth p.maxDepth rel))
  | .line l => (l.covers ctx q).map (fun o => o.map (fun h => Hit.line l h))

/-- `idx xs i = .ok a` names an element of `xs` -/
theorem idx_mem {α : Type} {xs : List α} {i : Nat} {a : α} (h : idx xs i = .ok a) : a ∈ xs := by
  unfold idx at h
  split at h
  · rename_i v hv
    cases h
    exact List.mem_of_getElem? hv
  · cases h

/-- the two segments of a hit are segments of two of the feature's sections -/
theorem LineFeature.coversBody_mem (f : LineFeature R) (ctx : Ctx R) (q : Query R) (hit : LineHit R)
    (h : f.coversBody ctx q = .ok (some hit)) :
    (∃ sec ∈ f.sections, hit.cur ∈ sec) ∧ (∃ sec ∈ f.sections, hit.next ∈ sec) := by
  unfold LineFeature.coversBody at h
  simp only [bind, Except.bind, pure, Except.pure] at h
  split at h
  · cases h
  split at h
  · cases h
  split at h
  · cases h
  rename_i secCur h0
  split at h
  · cases h
  rename_i secNext h1
  split at h
  · cases h
  rename_i cur h2
  split at h
  · cases h
  rename_i next h3
  split at h
  · cases h
  split at h
  · cases h
  split at h <;> split at h <;>
    first
    | (cases h; exact ⟨⟨secCur, idx_mem h0, idx_mem h2⟩, ⟨secNext, idx_mem h1, idx_mem h3⟩⟩)
    | cases h

theorem LineFeature.covers_mem (f : LineFeature R) (ctx : Ctx R) (q : Query R) (hit : LineHit R)
    (h : f.covers ctx q = .ok (some hit)) :
    (∃ sec ∈ f.sections, hit.cur ∈ sec) ∧ (∃ sec ∈ f.sections, hit.next ∈ sec) := by
  refine f.coversBody_mem ctx q hit ?_
  unfold LineFeature.covers at h
  simp only [bind, Except.bind, pure, Except.pure] at h
  split at h
  · exact absurd h (by simp)
  · split at h
    · exact absurd h (by simp)
    · exact h

theorem Feature.cover_tag (f : Feature R) (ctx : Ctx R) (q : Query R) (hit : Hit R) (h : f.cover ctx q = .ok (some hit)) :
    hit.tag = f.tag := by
  cases f with
  | area a =>
    simp only [Feature.cover] at h
    cases hc : a.covers ctx q with
    | error e => simp [hc, Except.map] at h
    | ok o => cases o <;> simp [hc, Except.map] at h; subst h; rfl
  | plume p =>
    simp only [Feature.cover] at h
    cases hc : p.covers ctx q with
    | error e => simp [hc, Except.map] at h
    | ok o => cases o <;> simp [hc, Except.map] at h; subst h; rfl
  | line l =>
    simp only [Feature.cover] at h
    cases hc : l.covers ctx q with
    | error e => simp [hc, Except.map] at h
    | ok o => cases o <;> simp [hc, Except.map] at h; subst h; rfl

theorem liftE_foldlM {α β : Type} (f : β → α → Except Err β) (xs : List α) (b : β) :
    (liftE (xs.foldlM f b) : QM G β) = xs.foldlM (fun b a => (liftE (f b a) : QM G β)) b := by
  induction xs generalizing b with
  | nil => rfl
  | cons x xs ih =>
    funext g
    rw [List.foldlM_cons, List.foldlM_cons, QM.bind_apply]
    cases h : f b x with
    | error e => simp [bind, Except.bind, liftE_error]
    | ok b' =>
      simp only [bind, Except.bind, liftE_ok]
      rw [← ih b']

theorem Feature.apply_eq (f : Feature R) (ctx : Ctx R) (q : Query R) (pes : List (Req × Nat)) (out : List R) (g : G) :
    f.apply ctx q pes out g =
      (match f.cover ctx q with
       | .error e => .error e
       | .ok none => .ok (out, g)
       | .ok (some hit) => hit.paintAll ctx q pes out g) := by
  cases f with
  | area a =>
    simp only [Feature.apply, AreaFeature.apply, Feature.cover, QM.bind_apply]
    cases h : a.covers ctx q with
    | error e => simp [liftE_error, Except.map]
    | ok o =>
      cases o with
      | none => simp [liftE_ok, Except.map, QM.pure_apply]
      | some m => obtain ⟨mn, mx⟩ := m; simp [liftE_ok, Except.map, Hit.paintAll, Hit.paintAt, paintAll]
  | plume p =>
    simp only [Feature.apply, PlumeFeature.apply, Feature.cover, QM.bind_apply]
    cases h : p.covers ctx q with
    | error e => simp [liftE_error, Except.map]
    | ok o =>
      cases o with
      | none => simp [liftE_ok, Except.map, QM.pure_apply]
      | some rel => simp [liftE_ok, Except.map, Hit.paintAll, Hit.paintAt, paintAll]
  | line l =>
    simp only [Feature.apply, LineFeature.apply, Feature.cover, QM.bind_apply]
    cases h : l.covers ctx q with
    | error e => simp [liftE_error, Except.map]
    | ok o =>
      cases o with
      | none => simp [liftE_ok, Except.map, QM.pure_apply]
      | some hh => simp [liftE_ok, Except.map, Hit.paintAll, Hit.paintAt]

/-- a feature, block-wise -/
def Feature.applyBlocks (f : Feature R) (ctx : Ctx R) (q : Query R) (ps : List Req) (bs : List (List R)) : QM G (List (List R)) :=
  fun g => match f.cover ctx q with
    | .error e => .error e
    | .ok none => .ok (bs, g)
    | .ok (some hit) => paintBlocks hit ctx q ps bs g

theorem Feature.apply_blocks (f : Feature R) (ctx : Ctx R) (q : Query R) (ps : List Req) (bs : List (List R))
    (hf : Fits ps bs) (g : G) :
    f.apply ctx q (ps.zip (entries ps)) bs.flatten g = embedBlocks [] (f.applyBlocks ctx q ps bs g) := by
  rw [Feature.apply_eq]
  unfold Feature.applyBlocks
  cases f.cover ctx q with
  | error e => simp [embedBlocks]
  | ok o =>
    cases o with
    | none => simp [embedBlocks]
    | some hit =>
      have := paintAll_blocks (G := G) hit ctx q ps bs hf [] g
      simpa [entries] using this

theorem Feature.applyBlocks_fits (f : Feature R) (ctx : Ctx R) (q : Query R) (ps : List Req) (bs : List (List R))
    (hf : Fits ps bs) : Post (G := G) (f.applyBlocks ctx q ps bs) (fun bs' => Fits ps bs') := by
  intro g bs' g' h
  unfold Feature.applyBlocks at h
  cases hc : f.cover ctx q with
  | error e => simp [hc] at h
  | ok o =>
    cases o with
    | none => simp [hc] at h; obtain ⟨rfl, _⟩ := h; exact hf
    | some hit =>
      simp only [hc] at h
      exact paintBlocks_fits hit ctx q ps bs hf g bs' g' h

/-- all features in file order, block-wise -/
def featuresBlocks (fs : List (Feature R)) (ctx : Ctx R) (q : Query R) (ps : List Req) (bs : List (List R)) : QM G (List (List R)) :=
  fs.foldlM (fun bs f => f.applyBlocks ctx q ps bs) bs

theorem features_blocks (fs : List (Feature R)) (ctx : Ctx R) (q : Query R) (ps : List Req) (bs : List (List R))
    (hf : Fits ps bs) (g : G) :
    fs.foldlM (fun out f => f.apply ctx q (ps.zip (entries ps)) out) bs.flatten g
      = embedBlocks [] (featuresBlocks fs ctx q ps bs g) := by
  induction fs generalizing bs g with
  | nil => simp [featuresBlocks, embedBlocks, QM.pure_apply]
  | cons f fs ih =>
    simp only [featuresBlocks, List.foldlM_cons, QM.bind_apply]
    rw [Feature.apply_blocks f ctx q ps bs hf g]
    cases h : f.applyBlocks ctx q ps bs g with
    | error e => simp [embedBlocks]
    | ok r =>
      obtain ⟨bs1, g1⟩ := r
      have hf1 := Feature.applyBlocks_fits f ctx q ps bs hf g bs1 g1 h
      simp only [embedBlocks, List.nil_append]
      rw [ih bs1 hf1 g1]
      rfl

theorem featuresBlocks_fits (fs : List (Feature R)) (ctx : Ctx R) (q : Query R) (ps : List Req) (bs : List (List R))
    (hf : Fits ps bs) : Post (G := G) (featuresBlocks fs ctx q ps bs) (fun bs' => Fits ps bs') :=
  Post.foldlM _ _ (fun b f hb => Feature.applyBlocks_fits f ctx q ps b hb) fs bs hf

/-- the forced surface temperature, block-wise -/
def reimposeBlocks (ctx : Ctx R) (depth : R) : List Req → List (List R) → List (List R)
  | p :: ps, b :: bs =>
    (if forcedSurface ctx depth && p.code == 1 then [ctx.surfaceT] else b) :: reimposeBlocks ctx depth ps bs
  | _, _ => []

theorem reimpose_fold_blocks (sT : R) (ps : List Req) (bs : List (List R)) (hf : Fits ps bs) (pre : List R) :
    (ps.zip (entriesFrom pre.length ps)).foldl
        (fun out (pe : Req × Nat) => if pe.1.code == 1 then writeBlock pe.2 [sT] out else out) (pre ++ bs.flatten)
      = pre ++ ((List.zipWith (fun (p : Req) b => if p.code == 1 then [sT] else b) ps bs).flatten) := by
  induction ps generalizing bs pre with
  | nil => cases bs <;> simp [Fits] at hf; simp
  | cons p ps ih =>
    cases bs with
    | nil => simp [Fits] at hf
    | cons b bs =>
      obtain ⟨h1, h2⟩ := hf
      simp only [entriesFrom, List.zip_cons_cons, List.foldl_cons, List.flatten_cons, List.zipWith_cons_cons]
      by_cases hc : (p.code == 1) = true
      · have hb : b.length = 1 := by
          have : p.code = 1 := by simpa using hc
          simp [Req.size?, this] at h1; omega
        simp only [hc, if_true]
        rw [← List.append_assoc, writeBlock_append pre b bs.flatten [sT] (by simp [hb])]
        have hpre : (pre ++ [sT]).length = pre.length + p.size := by
          rw [List.length_append, Req.size_of_size? h1, hb]; rfl
        have := ih bs h2 (pre ++ [sT])
        rw [hpre] at this
        rw [List.append_assoc] at this
        rw [List.append_assoc, this]
        simp [List.append_assoc]
      · simp only [hc]
        have hpre : (pre ++ b).length = pre.length + p.size := by
          rw [List.length_append, Req.size_of_size? h1]
        have := ih bs h2 (pre ++ b)
        rw [hpre, List.append_assoc] at this
        simp only [Bool.false_eq_true, if_false]
        rw [this]
        simp [List.append_assoc]

theorem reimposeBlocks_eq (ctx : Ctx R) (depth : R) (ps : List Req) (bs : List (List R)) (hf : Fits ps bs) :
    reimposeBlocks ctx depth ps bs =
      if forcedSurface ctx depth then List.zipWith (fun (p : Req) b => if p.code == 1 then [ctx.surfaceT] else b) ps bs else bs := by
  induction ps generalizing bs with
  | nil => cases bs <;> simp [Fits] at hf; simp [reimposeBlocks]
  | cons p ps ih =>
    cases bs with
    | nil => simp [Fits] at hf
    | cons b bs =>
      obtain ⟨_, h2⟩ := hf
      simp only [reimposeBlocks, ih bs h2]
      cases forcedSurface ctx depth <;> simp

theorem reimpose_blocks (ctx : Ctx R) (depth : R) (ps : List Req) (bs : List (List R)) (hf : Fits ps bs) :
    reimposeForced ctx depth (ps.zip (entries ps)) bs.flatten = (reimposeBlocks ctx depth ps bs).flatten := by
  rw [reimposeBlocks_eq ctx depth ps bs hf]
  unfold reimposeForced
  cases forcedSurface ctx depth with
  | false => simp
  | true =>
    have := reimpose_fold_blocks ctx.surfaceT ps bs hf []
    simpa [entries] using this

theorem reimposeBlocks_fits (ctx : Ctx R) (depth : R) (ps : List Req) (bs : List (List R)) (hf : Fits ps bs) :
    Fits ps (reimposeBlocks ctx depth ps bs) := by
  induction ps generalizing bs with
  | nil => cases bs <;> simp [Fits] at hf; simp [reimposeBlocks, Fits]
  | cons p ps ih =>
    cases bs with
    | nil => simp [Fits] at hf
    | cons b bs =>
      obtain ⟨h1, h2⟩ := hf
      simp only [reimposeBlocks, Fits]
      refine ⟨?_, ih bs h2⟩
      split
      · rename_i hc
        have : p.code = 1 := by simp at hc; exact hc.2
        simp [Req.size?, this]
      · exact h1

/-- the background blocks fit their requests -/
theorem initBlocks_fits (ctx : Ctx R) (gn depth : R) (ps : List Req) (bs : List (List R))
    (h : ps.mapM (initBlock ctx gn depth) = .ok bs) : Fits ps bs := by
  induction ps generalizing bs with
  | nil => simp [List.mapM_nil, pure, Except.pure] at h; subst h; simp [Fits]
  | cons p ps ih =>
    rw [List.mapM_cons] at h
    cases hb : initBlock ctx gn depth p with
    | error e => simp [hb, bind, Except.bind] at h
    | ok b =>
      cases hbs : ps.mapM (initBlock ctx gn depth) with
      | error e => simp [hb, hbs, bind, Except.bind] at h
      | ok bs0 =>
        simp [hb, hbs, bind, Except.bind, pure, Except.pure] at h
        subst h
        refine ⟨?_, ih bs0 hbs⟩
        obtain ⟨code, n, k⟩ := p
        unfold initBlock at hb
        simp only [Req.size?]
        split at hb <;> (try split at hb) <;> simp at hb <;> subst hb <;> simp_all

/-- `World.props3`, block-wise -/
def World.props3Blocks (w : World R) (pt : P3 R) (depth : R) (ps : List Req) : QM G (List (List R)) := fun g =>
  match ps.mapM (initBlock w.ctx w.ctx.gravity depth) with
  | .error e => .error e
  | .ok bs =>
    if earlyReturn w.ctx depth ps then .ok (bs, g)
    else
      match featuresBlocks w.features w.ctx (w.query pt depth) ps bs g with
      | .error e => .error e
      | .ok (bs', g') => .ok (reimposeBlocks w.ctx depth ps bs', g')

/-- **the answer of a batched request is the concatenation of per-request blocks** -/
theorem World.props3_blocks (w : World R) (pt : P3 R) (depth : R) (ps : List Req) (g : G) :
    w.props3 pt depth ps g = embedBlocks [] (w.props3Blocks pt depth ps g) := by
  unfold World.props3 World.props3Blocks
  simp only [QM.bind_apply]
  cases hinit : ps.mapM (initBlock w.ctx w.ctx.gravity depth) with
  | error e => simp [liftE_error, embedBlocks]
  | ok bs =>
    have hf := initBlocks_fits w.ctx w.ctx.gravity depth ps bs hinit
    simp only [liftE_ok]
    cases earlyReturn w.ctx depth ps with
    | true => simp [QM.pure_apply, embedBlocks]
    | false =>
      simp only [Bool.false_eq_true, if_false, QM.bind_apply]
      rw [features_blocks w.features w.ctx _ ps bs hf g]
      cases hfb : featuresBlocks w.features w.ctx (w.query pt depth) ps bs g with
      | error e => simp [embedBlocks]
      | ok r =>
        obtain ⟨bs', g'⟩ := r
        have hf' := featuresBlocks_fits w.features w.ctx _ ps bs hf g bs' g' hfb
        simp only [embedBlocks, List.nil_append, QM.pure_apply]
        rw [reimpose_blocks w.ctx depth ps bs' hf']

end Gwb
