/-
Helpers for C08, part 8: a common longitude offset in the general case (the offset may carry the footprint across the ±π meridian,
the query longitude is re-normalised to `(−π, π]`).

Key fact (specification level): a point of `InPolygon pts q` has its first coordinate between the least and the greatest first
coordinate of the vertices.  For `q` to the right of all vertices every crossing term vanishes; for `q` to the left the crossing terms
are `σ(a) − σ(b)` with `σ(v) = [v.y ≤ q.y]` and telescope around the closed polygon.
-/
import GwbVerif.Proofs.Motion
import Mathlib.Algebra.BigOperators.Group.List.Basic
namespace Gwb
open Scalar
set_option linter.unusedSectionVars false

section field
variable {F : Type} [Field F] [LinearOrder F] [IsStrictOrderedRing F] (T : Transc F)

/-! ### the edge list is a closed cycle -/

theorem polygonEdges_mem {pts : List (P2 F)} {e : P2 F × P2 F} (he : e ∈ polygonEdges pts) : e.1 ∈ pts ∧ e.2 ∈ pts := by
  unfold polygonEdges at he
  cases hl : pts.getLast? with
  | none => simp [hl] at he
  | some l =>
    simp only [hl] at he
    have h1 : e.1 ∈ l :: pts.dropLast := (List.of_mem_zip he).1
    refine ⟨?_, (List.of_mem_zip he).2⟩
    rcases List.mem_cons.mp h1 with h | h
    · rw [h]; exact List.mem_of_getLast? hl
    · exact List.dropLast_subset pts h

theorem zip_sum_fst {α : Type} (g : α → ℤ) : ∀ (xs ys : List α), xs.length = ys.length →
    ((xs.zip ys).map (fun e => g e.1)).sum = (xs.map g).sum
  | [], [], _ => rfl
  | x :: xs, y :: ys, h => by
    simp only [List.zip_cons_cons, List.map_cons, List.sum_cons]
    rw [zip_sum_fst g xs ys (by simpa using h)]
  | [], _ :: _, h => by simp at h
  | _ :: _, [], h => by simp at h

theorem zip_sum_snd {α : Type} (g : α → ℤ) : ∀ (xs ys : List α), xs.length = ys.length →
    ((xs.zip ys).map (fun e => g e.2)).sum = (ys.map g).sum
  | [], [], _ => rfl
  | x :: xs, y :: ys, h => by
    simp only [List.zip_cons_cons, List.map_cons, List.sum_cons]
    rw [zip_sum_snd g xs ys (by simpa using h)]
  | [], _ :: _, h => by simp at h
  | _ :: _, [], h => by simp at h

/-- a function of the vertices summed as `g(start) − g(end)` over the edges of the closed polygon telescopes to `0` -/
theorem polygonEdges_telescope (g : P2 F → ℤ) (pts : List (P2 F)) :
    ((polygonEdges pts).map (fun e => g e.1 - g e.2)).sum = 0 := by
  unfold polygonEdges
  cases hl : pts.getLast? with
  | none => rfl
  | some l =>
    simp only
    have hne : pts ≠ [] := by intro h; simp [h] at hl
    have hlen : (l :: pts.dropLast).length = pts.length := by
      simp [List.length_dropLast]; have := List.length_pos_iff.mpr hne; omega
    have hsplit : pts = pts.dropLast ++ [l] := by
      have := List.dropLast_append_getLast? l hl
      exact this.symm
    have h1 := zip_sum_fst g (l :: pts.dropLast) pts hlen
    have h2 := zip_sum_snd g (l :: pts.dropLast) pts hlen
    have hsub : (((l :: pts.dropLast).zip pts).map (fun e => g e.1 - g e.2)).sum =
        (((l :: pts.dropLast).zip pts).map (fun e => g e.1)).sum - (((l :: pts.dropLast).zip pts).map (fun e => g e.2)).sum := by
      generalize (l :: pts.dropLast).zip pts = es
      induction es with
      | nil => rfl
      | cons e es ih => simp only [List.map_cons, List.sum_cons, ih]; ring
    rw [hsub, h1, h2]
    have : (pts.map g).sum = ((pts.dropLast ++ [l]).map g).sum := by rw [← hsplit]
    rw [this]
    simp only [List.map_cons, List.sum_cons, List.map_append, List.sum_append, List.map_nil, List.sum_nil]
    ring

/-! ### where the points of `InPolygon` can be -/

/-- to the right of both end points an edge contributes no crossing -/
theorem crossing_right (a b q : P2 F) (ha : a.x < q.x) (hb : b.x < q.x) : crossing a b q = 0 := by
  unfold crossing
  rw [if_neg, if_neg]
  · rintro ⟨h1, h2, h3⟩
    unfold crossP at h3
    nlinarith [mul_nonneg (sub_nonneg.mpr h2) (sub_pos.mpr ha).le, mul_pos (sub_pos.mpr h1) (sub_pos.mpr hb)]
  · rintro ⟨h1, h2, h3⟩
    unfold crossP at h3
    nlinarith [mul_nonneg (sub_nonneg.mpr h1) (sub_pos.mpr hb).le, mul_pos (sub_pos.mpr h2) (sub_pos.mpr ha)]

/-- to the left of both end points an edge contributes `[a.y ≤ q.y] − [b.y ≤ q.y]` -/
theorem crossing_left (a b q : P2 F) (ha : q.x < a.x) (hb : q.x < b.x) :
    crossing a b q = (if a.y ≤ q.y then 1 else 0) - (if b.y ≤ q.y then 1 else 0) := by
  unfold crossing
  by_cases h1 : a.y ≤ q.y
  · by_cases h2 : b.y ≤ q.y
    · have : ¬ q.y < b.y := not_lt.mpr h2
      have : ¬ q.y < a.y := not_lt.mpr h1
      simp [*]
    · have h2' : q.y < b.y := not_le.mp h2
      have hc : 0 < crossP a b q := by
        unfold crossP
        nlinarith [mul_nonneg (sub_nonneg.mpr h1) (sub_pos.mpr hb).le, mul_pos (sub_pos.mpr h2') (sub_pos.mpr ha)]
      simp [h1, h2, h2', hc]
  · have h1' : q.y < a.y := not_le.mp h1
    by_cases h2 : b.y ≤ q.y
    · have hc : crossP a b q < 0 := by
        unfold crossP
        nlinarith [mul_nonneg (sub_nonneg.mpr h2) (sub_pos.mpr ha).le, mul_pos (sub_pos.mpr h1') (sub_pos.mpr hb)]
      simp [h1, h2, h1', hc]
    · simp [h1, h2]

/-- a point of a non-degenerate closed edge lies between the end points (first coordinate) -/
theorem onSegment_x_between (a b q : P2 F) (hne : a ≠ b) (h : OnSegment a b q) :
    (a.x ≤ q.x ∨ b.x ≤ q.x) ∧ (q.x ≤ a.x ∨ q.x ≤ b.x) := by
  obtain ⟨hc, hd0, hd1⟩ := h
  have hsql := sqlP_pos a b hne
  have idx : (q.x - a.x) * sqlP a b = (b.x - a.x) * dotP a b q := by
    unfold sqlP dotP; unfold crossP at hc; linear_combination (-(b.y - a.y)) * hc
  rcases le_total a.x b.x with hab | hab
  · refine ⟨Or.inl ?_, Or.inr ?_⟩
    · have : 0 ≤ (q.x - a.x) * sqlP a b := by rw [idx]; exact mul_nonneg (sub_nonneg.mpr hab) hd0
      have := nonneg_of_mul_nonneg_left this hsql
      linarith
    · have : (q.x - a.x) * sqlP a b ≤ (b.x - a.x) * sqlP a b := by
        rw [idx]; exact mul_le_mul_of_nonneg_left hd1 (sub_nonneg.mpr hab)
      have := le_of_mul_le_mul_right this hsql
      linarith
  · refine ⟨Or.inr ?_, Or.inl ?_⟩
    · have : (b.x - a.x) * sqlP a b ≤ (q.x - a.x) * sqlP a b := by
        rw [idx]; exact mul_le_mul_of_nonpos_left hd1 (sub_nonpos.mpr hab)
      have := le_of_mul_le_mul_right this hsql
      linarith
    · have : (q.x - a.x) * sqlP a b ≤ 0 := by rw [idx]; exact mul_nonpos_of_nonpos_of_nonneg (sub_nonpos.mpr hab) hd0
      have : q.x - a.x ≤ 0 := by
        by_contra hh
        have := mul_pos (not_le.mp hh) hsql
        linarith
      linarith

/-- **a point of `InPolygon` lies within the range of first coordinates of the vertices** (non-degenerate edges) -/
theorem inPolygon_x_bounds (pts : List (P2 F)) (q : P2 F) (lo hi : F) (hnd : ∀ e ∈ polygonEdges pts, e.1 ≠ e.2)
    (hlo : ∀ v ∈ pts, lo ≤ v.x) (hhi : ∀ v ∈ pts, v.x ≤ hi) (h : InPolygon pts q) : lo ≤ q.x ∧ q.x ≤ hi := by
  rcases h with ⟨e, he, hon⟩ | hsum
  · obtain ⟨m1, m2⟩ := polygonEdges_mem he
    obtain ⟨h1, h2⟩ := onSegment_x_between e.1 e.2 q (hnd e he) hon
    constructor
    · rcases h1 with h | h
      · exact le_trans (hlo _ m1) h
      · exact le_trans (hlo _ m2) h
    · rcases h2 with h | h
      · exact le_trans h (hhi _ m1)
      · exact le_trans h (hhi _ m2)
  · constructor
    · by_contra hlt
      have hlt' : q.x < lo := not_le.mp hlt
      apply hsum
      have : (polygonEdges pts).map (fun e => crossing e.1 e.2 q) =
          (polygonEdges pts).map (fun e => (fun v : P2 F => if v.y ≤ q.y then (1 : ℤ) else 0) e.1 -
            (fun v : P2 F => if v.y ≤ q.y then (1 : ℤ) else 0) e.2) := by
        apply List.map_congr_left
        intro e he
        obtain ⟨m1, m2⟩ := polygonEdges_mem he
        exact crossing_left e.1 e.2 q (lt_of_lt_of_le hlt' (hlo _ m1)) (lt_of_lt_of_le hlt' (hlo _ m2))
      rw [this]
      exact polygonEdges_telescope (fun v : P2 F => if v.y ≤ q.y then (1 : ℤ) else 0) pts
    · by_contra hgt
      have hgt' : hi < q.x := not_le.mp hgt
      apply hsum
      have : (polygonEdges pts).map (fun e => crossing e.1 e.2 q) = (polygonEdges pts).map (fun _ => (0 : ℤ)) := by
        apply List.map_congr_left
        intro e he
        obtain ⟨m1, m2⟩ := polygonEdges_mem he
        exact crossing_right e.1 e.2 q (lt_of_le_of_lt (hhi _ m1) hgt') (lt_of_le_of_lt (hhi _ m2) hgt')
      rw [this]
      simp

/-! ### the spherical polygon test, specification level -/

/-- footprint longitudes within `[−2π, 2π]`, query longitude `L ∈ (−π, π]`, `L ≠ 0`, tolerances exact for every representation of
the query: the spherical test answers "inside" iff SOME representation `L + 2πk` (any `k`) is in the polygon as drawn -/
theorem polygonContains_spherical_iff_inPolygon (hπ : 0 < T.pi) (pts : List (P2 F)) (p : P2 F)
    (hlo : -T.pi < p.x) (hhi : p.x ≤ T.pi) (hne : p.x ≠ 0)
    (hrange : ∀ v ∈ pts, -(2 * T.pi) ≤ v.x ∧ v.x ≤ 2 * T.pi)
    (hsep : ∀ k : ℤ, Separated T pts ⟨p.x + 2 * T.pi * k, p.y⟩) :
    @polygonContains F (fieldScalar T) true pts p = true ↔ ∃ k : ℤ, InPolygon pts ⟨p.x + 2 * T.pi * k, p.y⟩ := by
  rw [polygonContains_spherical_iff T hπ pts p hlo hhi hne]
  constructor
  · rintro ⟨k, _, h⟩
    exact ⟨k, (polygonContainsImpl_iff T pts _ (hsep k)).mp h⟩
  · rintro ⟨k, h⟩
    have hb := inPolygon_x_bounds pts ⟨p.x + 2 * T.pi * k, p.y⟩ (-(2 * T.pi)) (2 * T.pi) (hsep k).nondegenerate
      (fun v hv => (hrange v hv).1) (fun v hv => (hrange v hv).2) h
    exact ⟨k, hb, (polygonContainsImpl_iff T pts _ (hsep k)).mpr h⟩

/-- **common longitude offset, general case**: the footprint is offset by `d` (both drawings within `[−2π, 2π]`, the offset may carry
it across the `±π` meridian), the query longitude `L` becomes ANY representation `L' = L + d + 2πj` in `(−π, π]` (what `atan2` returns),
both non-zero; tolerances exact.  The spherical polygon test gives the same verdict. -/
theorem polygonContains_lon_offset_general (hπ : 0 < T.pi) (pts : List (P2 F)) (d : F) (p p' : P2 F) (j : ℤ)
    (hlo : -T.pi < p.x) (hhi : p.x ≤ T.pi) (hne : p.x ≠ 0)
    (hlo' : -T.pi < p'.x) (hhi' : p'.x ≤ T.pi) (hne' : p'.x ≠ 0)
    (hrel : p'.x = p.x + d + 2 * T.pi * j) (hy : p'.y = p.y)
    (hrange : ∀ v ∈ pts, -(2 * T.pi) ≤ v.x ∧ v.x ≤ 2 * T.pi)
    (hrange' : ∀ v ∈ pts, -(2 * T.pi) ≤ v.x + d ∧ v.x + d ≤ 2 * T.pi)
    (hsep : ∀ k : ℤ, Separated T pts ⟨p.x + 2 * T.pi * k, p.y⟩)
    (hsep' : ∀ k : ℤ, Separated T (pts.map (P2.shift ⟨d, 0⟩)) ⟨p'.x + 2 * T.pi * k, p'.y⟩) :
    @polygonContains F (fieldScalar T) true (pts.map (P2.shift ⟨d, 0⟩)) p' = @polygonContains F (fieldScalar T) true pts p := by
  have hr' : ∀ v ∈ pts.map (P2.shift ⟨d, 0⟩), -(2 * T.pi) ≤ v.x ∧ v.x ≤ 2 * T.pi := by
    intro v hv
    obtain ⟨v0, hv0, rfl⟩ := List.mem_map.mp hv
    exact hrange' v0 hv0
  have key : ∀ k : ℤ, InPolygon (pts.map (P2.shift ⟨d, 0⟩)) ⟨p'.x + 2 * T.pi * k, p'.y⟩ ↔
      InPolygon pts ⟨p.x + 2 * T.pi * ((j + k : ℤ) : F), p.y⟩ := by
    intro k
    have e : (⟨p'.x + 2 * T.pi * k, p'.y⟩ : P2 F) = P2.shift ⟨d, 0⟩ ⟨p.x + 2 * T.pi * ((j + k : ℤ) : F), p.y⟩ := by
      simp only [P2.shift, P2.mk.injEq, hrel, hy, add_zero, and_true]
      push_cast; ring
    rw [e, inPolygon_shift]
  have h1 := polygonContains_spherical_iff_inPolygon T hπ (pts.map (P2.shift ⟨d, 0⟩)) p' hlo' hhi' hne' hr' hsep'
  have h2 := polygonContains_spherical_iff_inPolygon T hπ pts p hlo hhi hne hrange hsep
  have h3 : (∃ k : ℤ, InPolygon (pts.map (P2.shift ⟨d, 0⟩)) ⟨p'.x + 2 * T.pi * k, p'.y⟩) ↔
      ∃ k : ℤ, InPolygon pts ⟨p.x + 2 * T.pi * k, p.y⟩ := by
    constructor
    · rintro ⟨k, h⟩; exact ⟨j + k, (key k).mp h⟩
    · rintro ⟨k, h⟩
      refine ⟨k - j, (key (k - j)).mpr ?_⟩
      have : j + (k - j) = k := by ring
      rw [this]; exact h
  have : (@polygonContains F (fieldScalar T) true (pts.map (P2.shift ⟨d, 0⟩)) p' = true) ↔
      (@polygonContains F (fieldScalar T) true pts p = true) := by rw [h1, h2, h3]
  cases hA : @polygonContains F (fieldScalar T) true (pts.map (P2.shift ⟨d, 0⟩)) p' <;>
    cases hB : @polygonContains F (fieldScalar T) true pts p <;> simp_all

end field
end Gwb
