/-
`parseArea` and `parseWorld` establish well-formedness (C12), given well-formed surface dumps — core Lean only, every `Scalar R`.
-/
import GwbVerif.Proofs.ParseWF
namespace Gwb
open Scalar Lean
set_option linter.unusedSectionVars false
variable {R : Type} [Scalar R]

/-- all remaining surface dumps are well-formed -/
def AuxOk (st : List (SurfaceAux R)) : Prop := ∀ a ∈ st, a.WellFormed

/-- postcondition of a parser computation that consumes well-formed dumps and leaves well-formed dumps -/
def PostI {α : Type} (m : PM R α) (P : α → Prop) : Prop :=
  ∀ s a s', AuxOk s → m s = .ok (a, s') → P a ∧ AuxOk s'

theorem PostI.pure {α : Type} {a : α} {P : α → Prop} (h : P a) : PostI (R := R) (Pure.pure a : PM R α) P := by
  intro s b s' hs hh
  simp only [QM.pure_apply, Except.ok.injEq, Prod.mk.injEq] at hh
  obtain ⟨rfl, rfl⟩ := hh
  exact ⟨h, hs⟩

theorem PostI.bind {α β : Type} {m : PM R α} {f : α → PM R β} {P : α → Prop} {Q : β → Prop}
    (hm : PostI m P) (hf : ∀ a, P a → PostI (f a) Q) : PostI (m >>= f) Q := by
  intro s b s' hs hh
  rw [QM.bind_apply] at hh
  split at hh
  · rename_i a s1 h1
    obtain ⟨pa, hs1⟩ := hm _ _ _ hs h1
    exact hf a pa _ _ _ hs1 hh
  · simp at hh

theorem PostI.mono {α : Type} {m : PM R α} {P Q : α → Prop} (h : PostI m P) (hpq : ∀ a, P a → Q a) : PostI m Q :=
  fun s a s' hs hh => ⟨hpq a (h s a s' hs hh).1, (h s a s' hs hh).2⟩

theorem PostI.triv_lift {α : Type} (x : Except Err α) : PostI (R := R) (pmLift x : PM R α) (fun _ => True) := by
  intro s a s' hs hh
  cases x with
  | error e => simp [pmLift, Except.map] at hh
  | ok v =>
    simp only [pmLift, Except.map, Except.ok.injEq, Prod.mk.injEq] at hh
    obtain ⟨_, rfl⟩ := hh
    exact ⟨trivial, hs⟩

theorem PostI.pmLift {α : Type} {x : Except Err α} {P : α → Prop} (h : EPost x P) : PostI (R := R) (Gwb.pmLift x : PM R α) P := by
  intro s a s' hs hh
  cases x with
  | error e => simp [Gwb.pmLift, Except.map] at hh
  | ok v =>
    simp only [Gwb.pmLift, Except.map, Except.ok.injEq, Prod.mk.injEq] at hh
    obtain ⟨rfl, rfl⟩ := hh
    exact ⟨h _ rfl, hs⟩

theorem PostI.pmErr {α : Type} {e : Err} {P : α → Prop} : PostI (R := R) (Gwb.pmErr e : PM R α) P := by
  intro s a s' _ hh; simp [Gwb.pmErr] at hh

theorem PostI.pmErr_bind {α β : Type} {e : Err} {f : α → PM R β} {P : β → Prop} :
    PostI (R := R) ((Gwb.pmErr e : PM R α) >>= f) P :=
  PostI.bind (P := fun _ => False) PostI.pmErr (fun _ h => h.elim)

theorem PostI.mapM {α β : Type} (f : α → PM R β) (P : β → Prop) (xs : List α) (hf : ∀ a ∈ xs, PostI (f a) P) :
    PostI (xs.mapM f) (fun ys => ys.length = xs.length ∧ ∀ y ∈ ys, P y) := by
  induction xs with
  | nil => simpa [List.mapM_nil] using PostI.pure (R := R) (a := ([] : List β)) ⟨rfl, fun _ h => by cases h⟩
  | cons x xs ih =>
    rw [List.mapM_cons]
    refine PostI.bind (hf x (List.mem_cons_self ..)) (fun b hb => ?_)
    refine PostI.bind (ih (fun a ha => hf a (List.mem_cons_of_mem _ ha))) (fun bs hbs => ?_)
    refine PostI.pure ⟨by simp [hbs.1], ?_⟩
    intro y hy
    rcases List.mem_cons.1 hy with rfl | hy
    · exact hb
    · exact hbs.2 y hy

theorem PostI.foldlM {α β : Type} (f : β → α → PM R β) (P : β → Prop) (xs : List α)
    (hf : ∀ b a, a ∈ xs → P b → PostI (f b a) P) (b : β) (hb : P b) : PostI (xs.foldlM f b) P := by
  induction xs generalizing b with
  | nil => simpa [List.foldlM] using PostI.pure (R := R) hb
  | cons x xs ih =>
    rw [List.foldlM_cons]
    exact PostI.bind (hf b x (List.mem_cons_self ..) hb)
      (fun b' hb' => ih (fun b a ha => hf b a (List.mem_cons_of_mem _ ha)) b' hb')

macro "pmi_guard" jp:ident : tactic =>
  `(tactic| (split; (· exact PostI.pmErr_bind); simp only [$jp:ident]))

/-! ### depth surfaces -/

theorem Surface.build_wf (values : List R) (pts : List (P2 R)) (aux : Option (SurfaceAux R))
    (haux : ∀ a, aux = some a → a.WellFormed) : EPost (Surface.build values pts aux) Surface.WellFormed := by
  unfold Surface.build
  split
  · exact EPost.error
  · split
    split
    · exact EPost.ok (Or.inl rfl)
    · split
      · exact EPost.error
      · rename_i a
        have ha := haux a rfl
        split
        · exact EPost.ok (Or.inr ⟨ha.1, by simp, ha.2⟩)
        · exact EPost.error

theorem getSurface_post (c : Cur) (name : String) (sph : Bool) (corners : List (P2 R)) :
    PostI (c.getSurface name sph corners) Surface.WellFormed := by
  unfold Cur.getSurface
  refine PostI.bind (PostI.triv_lift _) (fun vp _ => ?_)
  obtain ⟨vals, pts⟩ := vp
  simp only
  split
  · exact PostI.pmLift (Surface.build_wf vals pts none (fun _ h => by cases h))
  · intro s a s' hs hh
    rw [QM.bind_apply] at hh
    have hget : (get : PM R (List (SurfaceAux R))) s = .ok (s, s) := rfl
    rw [hget] at hh
    simp only at hh
    cases s with
    | nil => simp [Gwb.pmErr] at hh
    | cons a0 rest =>
      simp only at hh
      rw [QM.bind_apply] at hh
      have hset : (set rest : PM R PUnit) (a0 :: rest) = .ok (PUnit.unit, rest) := rfl
      rw [hset] at hh
      simp only at hh
      have hrest : AuxOk rest := fun x hx => hs x (List.mem_cons_of_mem _ hx)
      exact PostI.pmLift (Surface.build_wf vals pts (some a0) (fun x hx => by cases hx; exact hs _ (List.mem_cons_self ..)))
        rest a s' hrest hh

theorem getRange_post (c : Cur) (sph : Bool) (corners : List (P2 R)) :
    PostI (c.getRange sph corners) DepthRange.WellFormed := by
  unfold Cur.getRange
  refine PostI.bind (getSurface_post c _ sph corners) (fun mn hmn => ?_)
  refine PostI.bind (getSurface_post c _ sph corners) (fun mx hmx => ?_)
  exact PostI.pure ⟨hmn, hmx⟩

/-! ### models of the area features -/

theorem parseAreaTemp_post (ctx : Ctx R) (kind : Nat) (corners : List (P2 R)) (model : String) (c : Cur) :
    PostI (parseAreaTemp ctx kind corners model c) (fun m => SchemaRidgeCoordinates c → m.WellFormed) := by
  unfold parseAreaTemp
  extract_lets sph
  refine PostI.bind (getRange_post c sph corners) (fun rng hrng => ?_)
  refine PostI.bind (PostI.triv_lift _) (fun op _ => ?_)
  split
  · refine PostI.bind (PostI.triv_lift _) (fun t _ => ?_)
    exact PostI.pure (fun _ => ⟨hrng, trivial⟩)
  · refine PostI.bind (PostI.triv_lift _) (fun t _ => ?_)
    refine PostI.bind (PostI.triv_lift _) (fun b _ => ?_)
    exact PostI.pure (fun _ => ⟨hrng, trivial⟩)
  · refine PostI.bind (PostI.triv_lift _) (fun tp _ => ?_)
    refine PostI.bind (PostI.triv_lift _) (fun al _ => ?_)
    refine PostI.bind (PostI.triv_lift _) (fun cp _ => ?_)
    exact PostI.pure (fun _ => ⟨hrng, trivial⟩)
  · refine PostI.bind (PostI.triv_lift _) (fun k _ => ?_)
    refine PostI.bind (PostI.triv_lift _) (fun h _ => ?_)
    refine PostI.bind (PostI.triv_lift _) (fun f _ => ?_)
    refine PostI.bind (PostI.triv_lift _) (fun t _ => ?_)
    exact PostI.pure (fun _ => ⟨hrng, trivial⟩)
  · refine PostI.bind (PostI.triv_lift _) (fun t _ => ?_)
    refine PostI.bind (PostI.triv_lift _) (fun b _ => ?_)
    refine PostI.bind (PostI.pmLift (getRidgeSpec_post c sph)) (fun rs hrs => ?_)
    exact PostI.pure (fun hs => ⟨⟨hrng, hrs hs⟩, trivial⟩)
  · extract_lets j1
    pmi_guard j1
    refine PostI.bind (PostI.triv_lift _) (fun t _ => ?_)
    refine PostI.bind (PostI.triv_lift _) (fun b _ => ?_)
    refine PostI.bind (PostI.pmLift (getRidgeSpec_post c sph)) (fun rs hrs => ?_)
    exact PostI.pure (fun hs => ⟨⟨hrng, hrs hs⟩, trivial⟩)
  · extract_lets j1
    pmi_guard j1
    refine PostI.bind (PostI.triv_lift _) (fun age _ => ?_)
    refine PostI.bind (PostI.triv_lift _) (fun t _ => ?_)
    refine PostI.bind (PostI.triv_lift _) (fun b _ => ?_)
    exact PostI.pure (fun _ => ⟨hrng, trivial⟩)
  · exact PostI.pmErr

theorem parseAreaComp_post (sph : Bool) (corners : List (P2 R)) (model : String) (c : Cur) :
    PostI (parseAreaComp sph corners model c) CompModel.WellFormed := by
  unfold parseAreaComp
  refine PostI.bind (getRange_post c sph corners) (fun rng hrng => ?_)
  split
  · refine PostI.bind (PostI.triv_lift _) (fun comps _ => ?_)
    refine PostI.bind (PostI.triv_lift _) (fun fr _ => ?_)
    refine PostI.bind (PostI.triv_lift _) (fun op _ => ?_)
    extract_lets j1
    pmi_guard j1; rename_i g1
    exact PostI.pure ⟨hrng, (bne_false_eq g1).symm⟩
  · refine PostI.bind (PostI.triv_lift _) (fun comps _ => ?_)
    refine PostI.bind (PostI.triv_lift _) (fun mn _ => ?_)
    refine PostI.bind (PostI.triv_lift _) (fun mx _ => ?_)
    refine PostI.bind (PostI.triv_lift _) (fun op _ => ?_)
    extract_lets j1
    pmi_guard j1; rename_i g1
    exact PostI.pure ⟨hrng, bor_bne_false g1⟩
  · refine PostI.bind (PostI.triv_lift _) (fun density _ => ?_)
    refine PostI.bind (PostI.triv_lift _) (fun comps _ => ?_)
    refine PostI.bind (PostI.triv_lift _) (fun maxWater _ => ?_)
    refine PostI.bind (PostI.triv_lift _) (fun op _ => ?_)
    refine PostI.bind (PostI.triv_lift _) (fun cutoff _ => ?_)
    refine PostI.bind (PostI.triv_lift _) (fun lith _ => ?_)
    split
    · exact PostI.pmErr
    · exact PostI.pure hrng
  · exact PostI.pmErr

theorem parseAreaVel_post (sph : Bool) (kind : Nat) (corners : List (P2 R)) (model : String) (c : Cur) :
    PostI (parseAreaVel sph kind corners model c) VelModel.WellFormed := by
  unfold parseAreaVel
  refine PostI.bind (getRange_post c sph corners) (fun rng hrng => ?_)
  split
  · refine PostI.bind (PostI.triv_lift _) (fun op _ => ?_)
    refine PostI.bind (PostI.triv_lift _) (fun v _ => ?_)
    refine PostI.bind (PostI.triv_lift _) (fun v0 _ => ?_)
    refine PostI.bind (PostI.triv_lift _) (fun v1 _ => ?_)
    refine PostI.bind (PostI.triv_lift _) (fun v2 _ => ?_)
    exact PostI.pure hrng
  · exact PostI.pmErr

theorem parseGrainsWith_postI (rngM : PM R (DepthRange R)) (hr : PostI rngM DepthRange.WellFormed) (model : String) (c : Cur) :
    PostI (parseGrainsWith rngM model c) GrainsModel.WellFormed := by
  unfold parseGrainsWith
  refine PostI.bind hr (fun rng hrng => ?_)
  refine PostI.bind (PostI.triv_lift _) (fun comps _ => ?_)
  split
  · refine PostI.bind (PostI.triv_lift _) (fun mats _ => ?_)
    refine PostI.bind (PostI.triv_lift _) (fun _ _ => ?_)
    refine PostI.bind (PostI.triv_lift _) (fun sizes _ => ?_)
    extract_lets j2 j1
    pmi_guard j1; rename_i h1
    pmi_guard j2; rename_i h2
    exact PostI.pure ⟨hrng, (bne_false_eq h1).symm, (bne_false_eq h2).symm⟩
  · refine PostI.bind (PostI.triv_lift _) (fun _ _ => ?_)
    refine PostI.bind (PostI.triv_lift _) (fun sizes _ => ?_)
    refine PostI.bind (PostI.triv_lift _) (fun norm _ => ?_)
    extract_lets j2 j1
    pmi_guard j1; rename_i h1
    pmi_guard j2; rename_i h2
    exact PostI.pure ⟨hrng, (bne_false_eq h1).symm, (bne_false_eq h2).symm⟩
  · refine PostI.bind (PostI.triv_lift _) (fun basis _ => ?_)
    refine PostI.bind (PostI.triv_lift _) (fun _ _ => ?_)
    refine PostI.bind (PostI.triv_lift _) (fun sizes _ => ?_)
    refine PostI.bind (PostI.triv_lift _) (fun norm _ => ?_)
    refine PostI.bind (PostI.triv_lift _) (fun defl _ => ?_)
    extract_lets j4 j3 j2 j1
    pmi_guard j1; rename_i h1
    pmi_guard j2; rename_i h2
    pmi_guard j3; rename_i h3
    pmi_guard j4; rename_i h4
    exact PostI.pure ⟨hrng, (bne_false_eq h4).symm, (bne_false_eq h1).symm, (bne_false_eq h2).symm, (bne_false_eq h3).symm⟩
  · exact PostI.pmErr

/-- schema facts used by the area features: every temperature model with ridges lists at least one non-empty ridge -/
def SchemaAreaRidges (c : Cur) : Prop :=
  ∀ l, c.pluginList "temperature models" = .ok l → ∀ mc ∈ l, SchemaRidgeCoordinates mc.2

theorem parseArea_post (ctx : Ctx R) (kind : Nat) (defaultTag : String) (c : Cur) (tags : List String) :
    PostI (parseArea ctx kind defaultTag c tags) (fun r => SchemaAreaRidges c → r.1.IndexSafe) := by
  unfold parseArea
  extract_lets sph
  refine PostI.bind (PostI.triv_lift _) (fun name _ => ?_)
  refine PostI.bind (PostI.triv_lift _) (fun tag _ => ?_)
  split
  refine PostI.bind (PostI.triv_lift _) (fun coords _ => ?_)
  refine PostI.bind (getRange_post c sph coords) (fun rng hrng => ?_)
  refine PostI.bind (PostI.pmLift (P := fun l => c.pluginList "temperature models" = .ok l) (fun _ h => h)) (fun tl htl => ?_)
  refine PostI.bind (PostI.mapM _ (fun m => SchemaAreaRidges c → m.WellFormed) _ ?_) (fun temps htemps => ?_)
  · rintro ⟨m, cc⟩ hmem
    exact (parseAreaTemp_post ctx kind coords m cc).mono (fun tm h hs => h (hs tl htl _ hmem))
  refine PostI.bind (PostI.triv_lift _) (fun velList _ => ?_)
  refine PostI.bind (P := fun vs => ∀ v ∈ vs, VelModel.WellFormed v) ?_ (fun velsFirst hvf => ?_)
  · split
    · exact (PostI.mapM _ VelModel.WellFormed _ (fun mc _ => parseAreaVel_post sph kind coords mc.1 mc.2)).mono (fun _ h => h.2)
    · exact PostI.pure (fun _ h => by cases h)
  refine PostI.bind (PostI.triv_lift _) (fun cl _ => ?_)
  refine PostI.bind (PostI.mapM _ CompModel.WellFormed _ (fun mc _ => parseAreaComp_post sph coords mc.1 mc.2)) (fun comps hcomps => ?_)
  refine PostI.bind (PostI.triv_lift _) (fun gl _ => ?_)
  refine PostI.bind (PostI.mapM _ GrainsModel.WellFormed _
    (fun mc _ => parseGrainsWith_postI _ (getRange_post mc.2 sph coords) mc.1 mc.2)) (fun grains hgrains => ?_)
  refine PostI.bind (P := fun vs => ∀ v ∈ vs, VelModel.WellFormed v) ?_ (fun vels hvels => ?_)
  · split
    · exact PostI.pure hvf
    · exact (PostI.mapM _ VelModel.WellFormed _ (fun mc _ => parseAreaVel_post sph kind coords mc.1 mc.2)).mono (fun _ h => h.2)
  exact PostI.pure (fun hs => ⟨hrng, fun m hm => htemps.2 m hm hs, hvels, hcomps.2, hgrains.2⟩)

/-! ### the plume again, with the dump invariant threaded through -/

theorem parsePlume_postI (ctx : Ctx R) (c : Cur) (tags : List String) :
    PostI (parsePlume ctx c tags)
      (fun r => (SchemaCoordinatesMinItems1 c → r.1.WellFormed) ∧ StrictAscending r.1.depths) := by
  unfold parsePlume
  extract_lets sph
  refine PostI.bind (PostI.triv_lift _) (fun name _ => ?_)
  refine PostI.bind (PostI.triv_lift _) (fun tag _ => ?_)
  split
  refine PostI.bind (PostI.pmLift (getCoordinates_length c sph)) (fun coords hcoords => ?_)
  refine PostI.bind (PostI.triv_lift _) (fun minD _ => ?_)
  refine PostI.bind (PostI.triv_lift _) (fun maxD _ => ?_)
  refine PostI.bind (PostI.triv_lift _) (fun depths _ => ?_)
  refine PostI.bind (PostI.triv_lift _) (fun sma _ => ?_)
  refine PostI.bind (PostI.triv_lift _) (fun ecc _ => ?_)
  refine PostI.bind (PostI.triv_lift _) (fun rot _ => ?_)
  extract_lets rot' sma' jBody j5 j4 j3 j2
  pmi_guard j2; rename_i h1
  pmi_guard j3; rename_i h2
  pmi_guard j4; rename_i h3
  pmi_guard j5; rename_i h4
  pmi_guard jBody; rename_i h5
  refine PostI.bind (PostI.triv_lift _) (fun tl _ => ?_)
  refine PostI.bind (PostI.mapM _ TempModel.WellFormed _ ?_) (fun temps htemps => ?_)
  · rintro ⟨m, cc⟩ _
    refine PostI.pmLift ?_
    refine EPost.bind (EPost.triv _) (fun op _ => ?_)
    split
    · refine EPost.bind (getPlainRange_wf cc) (fun rng hrng => ?_)
      refine EPost.bind (EPost.triv _) (fun t _ => ?_)
      exact EPost.pure ⟨hrng, trivial⟩
    · refine EPost.bind (EPost.triv _) (fun ds _ => ?_)
      refine EPost.bind (EPost.triv _) (fun ct _ => ?_)
      refine EPost.bind (EPost.triv _) (fun sg _ => ?_)
      e_guard0; rename_i g0
      e_guard0; rename_i g1
      e_guard0; rename_i g2
      refine EPost.pure ⟨?_, ?_⟩
      · simp only [bne_iff_ne, Bool.or_eq_true, not_or, ne_eq, Decidable.not_not] at g2
        exact ⟨g2.1, g2.2⟩
      · show 0 < ds.length
        simp only [beq_iff_eq] at g1
        omega
    · exact EPost.error
  refine PostI.bind (PostI.triv_lift _) (fun cl _ => ?_)
  refine PostI.bind (PostI.mapM _ CompModel.WellFormed _ ?_) (fun comps hcomps => ?_)
  · rintro ⟨m, cc⟩ _
    refine PostI.pmLift ?_
    split
    · refine EPost.bind (getPlainRange_wf cc) (fun rng hrng => ?_)
      refine EPost.bind (EPost.triv _) (fun cs _ => ?_)
      refine EPost.bind (EPost.triv _) (fun fr _ => ?_)
      refine EPost.bind (EPost.triv _) (fun op _ => ?_)
      e_guard0; rename_i g1
      exact EPost.pure ⟨hrng, (bne_false_eq g1).symm⟩
    · exact EPost.error
  refine PostI.bind (PostI.triv_lift _) (fun gl _ => ?_)
  refine PostI.bind (PostI.mapM _ GrainsModel.WellFormed _ ?_) (fun grains hgrains => ?_)
  · rintro ⟨m, cc⟩ _
    exact parseGrainsWith_postI _ (PostI.pmLift (getPlainRange_wf cc)) m cc
  refine PostI.bind (PostI.triv_lift _) (fun vl _ => ?_)
  refine PostI.bind (PostI.mapM _ VelModel.WellFormed _ ?_) (fun vels hvels => ?_)
  · rintro ⟨m, cc⟩ _
    refine PostI.pmLift ?_
    split
    · refine EPost.bind (getPlainRange_wf cc) (fun rng hrng => ?_)
      refine EPost.bind (EPost.triv _) (fun op _ => ?_)
      refine EPost.bind (EPost.triv _) (fun v _ => ?_)
      refine EPost.bind (EPost.triv _) (fun v0 _ => ?_)
      refine EPost.bind (EPost.triv _) (fun v1 _ => ?_)
      refine EPost.bind (EPost.triv _) (fun v2 _ => ?_)
      exact EPost.pure hrng
    · exact EPost.error
  refine PostI.pure ⟨fun hschema => ?_, ?_⟩
  · obtain ⟨a, ha, hlen⟩ := hcoords
    have hpos := hschema a ha
    have e1 := bne_false_eq h1
    have e2 := bne_false_eq h2
    have e3 := bne_false_eq h3
    have e4 := bne_false_eq h4
    refine ⟨⟨by show 0 < coords.length; omega, e1, ?_, e3, ?_⟩, htemps.2, hvels.2, hcomps.2, hgrains.2⟩
    · show sma'.length = coords.length
      simp only [sma']; split <;> simp [e2]
    · show rot'.length = coords.length
      simp [rot', e4]
  · exact ascending_strict depths (by simpa using h5)


/-! ### the world -/

/-- a parser step whose result is irrelevant keeps the dump invariant -/
macro "pmi_triv" : tactic => `(tactic| repeat (first
  | exact PostI.triv_lift _
  | exact PostI.pure trivial
  | exact PostI.pmErr
  | exact PostI.pmErr_bind
  | refine PostI.bind (P := fun _ => True) ?_ (fun _ _ => ?_)
  | split))

/-- the schema facts the parser relies on without re-checking them: every feature lists at least one coordinate (`minItems 1`), and
the ridge lists of oceanic temperature models are non-empty (`minItems 1`, `minItems 2`), likewise the ridge lists and the
subducting-velocity rows of the slab temperature models (`SchemaLineTemps`) -/
def SchemaWorldFacts (decl doc : Json) : Prop :=
  ∀ props l, schemaAt decl ["properties"] = .ok props → (⟨doc, props⟩ : Cur).pluginList "features" = .ok l →
    ∀ mc ∈ l, SchemaCoordinatesMinItems1 mc.2 ∧ SchemaAreaRidges mc.2 ∧ SchemaLineTemps mc.2

theorem parseWorld_post (decl : Json) (version : String) (doc : Json) (cull : Bool) :
    PostI (parseWorld (R := R) decl version doc cull) (fun p => SchemaWorldFacts decl doc → p.world.SplineCmp → p.world.WellFormed) := by
  unfold parseWorld
  refine PostI.bind (PostI.pmLift (P := fun props => schemaAt decl ["properties"] = .ok props) (fun _ h => h)) (fun props hprops => ?_)
  extract_lets c jp
  refine PostI.bind (PostI.triv_lift _) (fun v _ => ?_)
  pmi_guard jp
  refine PostI.bind (PostI.triv_lift _) (fun csAlts _ => ?_)
  refine PostI.bind (P := fun _ => True) (by pmi_triv) (fun coord _ => ?_)
  refine PostI.bind (PostI.triv_lift _) (fun gAlts _ => ?_)
  refine PostI.bind (P := fun _ => True) (by pmi_triv) (fun gravity _ => ?_)
  refine PostI.bind (P := fun _ => True) (by pmi_triv) (fun cross _ => ?_)
  refine PostI.bind (PostI.triv_lift _) (fun x1 _ => ?_)
  refine PostI.bind (PostI.triv_lift _) (fun x2 _ => ?_)
  refine PostI.bind (PostI.triv_lift _) (fun x3 _ => ?_)
  refine PostI.bind (PostI.triv_lift _) (fun x4 _ => ?_)
  refine PostI.bind (PostI.triv_lift _) (fun x5 _ => ?_)
  refine PostI.bind (PostI.triv_lift _) (fun x6 _ => ?_)
  refine PostI.bind (PostI.triv_lift _) (fun seed _ => ?_)
  refine PostI.bind (PostI.pmLift (P := fun l => (⟨doc, props⟩ : Cur).pluginList "features" = .ok l) (fun _ h => h)) (fun feats hfeats => ?_)
  refine PostI.bind (P := fun acc => SchemaWorldFacts decl doc → ∀ f ∈ acc.1, f.SplineCmp → f.WellFormed) ?_ (fun acc hacc => ?_)
  · refine PostI.foldlM _ _ _ ?_ _ (fun _ f hf => by cases hf)
    rintro ⟨fs, tags⟩ ⟨m, cc⟩ hmem hfs
    have hfacts : SchemaWorldFacts decl doc → SchemaCoordinatesMinItems1 cc ∧ SchemaAreaRidges cc ∧ SchemaLineTemps cc :=
      fun h => h props feats hprops hfeats _ hmem
    have hstep : ∀ (f : Feature R) (tg : List String), (SchemaWorldFacts decl doc → f.SplineCmp → f.WellFormed) →
        (SchemaWorldFacts decl doc → ∀ f' ∈ (fs ++ [f], tg).1, f'.SplineCmp → f'.WellFormed) := by
      intro f tg hf hs f' hf'
      rcases List.mem_append.1 hf' with h | h
      · exact hfs hs f' h
      · simp only [List.mem_singleton] at h; subst h; exact hf hs
    simp only
    split
    · refine PostI.bind (parseArea_post _ 0 _ cc tags) (fun r hr => ?_)
      obtain ⟨f, tg⟩ := r
      exact PostI.pure (hstep (.area f) tg (fun hs _ => hr (hfacts hs).2.1))
    · refine PostI.bind (parseArea_post _ 1 _ cc tags) (fun r hr => ?_)
      obtain ⟨f, tg⟩ := r
      exact PostI.pure (hstep (.area f) tg (fun hs _ => hr (hfacts hs).2.1))
    · refine PostI.bind (parseArea_post _ 2 _ cc tags) (fun r hr => ?_)
      obtain ⟨f, tg⟩ := r
      exact PostI.pure (hstep (.area f) tg (fun hs _ => hr (hfacts hs).2.1))
    · refine PostI.bind (parsePlume_postI _ cc tags) (fun r hr => ?_)
      obtain ⟨f, tg⟩ := r
      exact PostI.pure (hstep (.plume f) tg (fun hs _ => hr.1 (hfacts hs).1))
    · refine PostI.bind (PostI.pmLift (parseLine_post _ false cc tags cull)) (fun r hr => ?_)
      obtain ⟨f, tg⟩ := r
      exact PostI.pure (hstep (.line f) tg (fun hs hn => hr (hfacts hs).2.2 hn))
    · refine PostI.bind (PostI.pmLift (parseLine_post _ true cc tags cull)) (fun r hr => ?_)
      obtain ⟨f, tg⟩ := r
      exact PostI.pure (hstep (.line f) tg (fun hs hn => hr (hfacts hs).2.2 hn))
    · exact PostI.pmErr
  · obtain ⟨features, tags⟩ := acc
    exact PostI.pure (fun hs ht f hf => hacc hs f hf (ht f hf))

end Gwb
