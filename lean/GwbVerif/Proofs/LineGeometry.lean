/-
Helpers for C06 (slab and fault geometry).

Part 1 (every `Scalar R`): the membership test of `LineFeature.coversBody` as a readable proposition (`LineMember`), and the
equivalence with the code.
Part 2 (ordered field through `fieldScalar T`): the `only_positive` flag of `distance_point_from_curved_planes` only replaces the
signed distance by its absolute value; the straight and the circular piece of `segmentStep` in the vocabulary of plane geometry;
the walk of `segmentLoop` along the segments.
-/
import GwbVerif.Model.Features.Line
import GwbVerif.Proofs.Models
import GwbVerif.Proofs.PolygonField
import Mathlib.Tactic.NormNum
import Mathlib.Algebra.BigOperators.Group.List.Basic
namespace Gwb
open Scalar
set_option linter.unusedSectionVars false
set_option linter.unusedVariables false
set_option linter.unusedSimpArgs false

/-! ## Part 1: every `Scalar R` -/
section generic
variable {R : Type} [Scalar R]

/-- the interpolation the code uses everywhere between the two sections / the two ends of a segment: `a + f·(b − a)` -/
@[inline] def lerpC (a b f : R) : R := a + f * (b - a)

/-- `starting_radius` handed to the geometry: the radius (height) of the query point moved up by its depth below the feature's
min depth, i.e. the radius of the surface the trench lies on -/
def LineFeature.startRadius (f : LineFeature R) (ctx : Ctx R) (q : Query R) : R :=
  depthCoordinate ctx.coord.spherical q.nat + q.depth - f.minDepth

/-- the geometry call of the membership test (`only_positive` is `false` for a slab and `true` for a fault) -/
def LineFeature.geometry (f : LineFeature R) (ctx : Ctx R) (q : Query R) (onlyPositive : Bool) : Except Err (PlaneDist R) :=
  distancePointFromCurvedPlanes ctx.coord q.pt q.nat f.reference f.coords f.lengths f.anglesRad (f.startRadius ctx q) onlyPositive f.bezier

/-- thickness at the foot: between the two sections (`sf`), then between the two ends of the segment (`gf`) -/
def Segment.thLocal (cur next : Segment R) (sf gf : R) : R :=
  lerpC (lerpC cur.thickness.x next.thickness.x sf) (lerpC cur.thickness.y next.thickness.y sf) gf

/-- top truncation at the foot, interpolated the same way -/
def Segment.ttLocal (cur next : Segment R) (sf gf : R) : R :=
  lerpC (lerpC cur.topTruncation.x next.topTruncation.x sf) (lerpC cur.topTruncation.y next.topTruncation.y sf) gf

/-- total length of the surface at the foot: between the total lengths of the two sections -/
def maxLenLocal (secCur secNext : List (Segment R)) (sf : R) : R := lerpC (sectionLength secCur) (sectionLength secNext) sf

/-- the range tests of the membership: slab `tt ≤ d ≤ th ∧ 0 ≤ a ≤ maxLen`; fault `|d| ≤ th/2 ∧ 0 < a ≤ maxLen` -/
def lineInside (isFault : Bool) (d a th tt maxLen : R) : Prop :=
  if isFault then fabs d ≤ th * (0.5 : R) ∧ a > 0 ∧ a ≤ maxLen
  else d ≥ tt ∧ d ≤ th ∧ a ≥ 0 ∧ a ≤ maxLen

/-- **Specification of membership** (everything after the depth/box pre-test): the geometry returned `h.pd`; it is finite in the
sense of the code (`|d| < ∞ ∨ a < ∞`); the two sections around the foot and the segment `pd.segment` of each exist and are
`h.cur`, `h.next`; the interpolated thickness is not (numerically) zero and not below the interpolated top truncation; and the
two distances pass the range tests `lineInside` -/
structure LineMember (f : LineFeature R) (ctx : Ctx R) (q : Query R) (h : LineHit R) : Prop where
  geometry : f.geometry ctx q f.isFault = .ok h.pd
  finite : fabs h.pd.distanceFromPlane < Scalar.inf ∨ h.pd.distanceAlongPlane < Scalar.inf
  segments : ∃ secCur secNext, f.sections[h.pd.sectionIdx]? = some secCur ∧ f.sections[h.pd.sectionIdx + 1]? = some secNext ∧
    secCur[h.pd.segment]? = some h.cur ∧ secNext[h.pd.segment]? = some h.next ∧
    lineInside f.isFault h.pd.distanceFromPlane h.pd.distanceAlongPlane
      (h.cur.thLocal h.next h.pd.fractionOfSection h.pd.fractionOfSegment)
      (h.cur.ttLocal h.next h.pd.fractionOfSection h.pd.fractionOfSegment)
      (maxLenLocal secCur secNext h.pd.fractionOfSection) ∧
    -- the `AdditionalParameters{max_slab_length, thickness_local}` handed to the models are the two interpolated quantities of the test
    h.ap = ⟨maxLenLocal secCur secNext h.pd.fractionOfSection, h.cur.thLocal h.next h.pd.fractionOfSection h.pd.fractionOfSegment⟩
  thicknessNonzero : ¬ fabs (h.cur.thLocal h.next h.pd.fractionOfSection h.pd.fractionOfSegment) < (2.0 : R) * Scalar.eps
  thicknessAboveTruncation : ¬ h.cur.thLocal h.next h.pd.fractionOfSection h.pd.fractionOfSegment
      < h.cur.ttLocal h.next h.pd.fractionOfSection h.pd.fractionOfSegment

theorem idx_eq_ok {α : Type} (xs : List α) (i : Nat) (v : α) : idx xs i = .ok v ↔ xs[i]? = some v := by
  unfold idx
  cases xs[i]? with
  | none => simp
  | some w => simp

theorem LineHit.eta (h : LineHit R) : (⟨h.pd, h.cur, h.next, h.ap⟩ : LineHit R) = h := by cases h; rfl

/-- the tail of `coversBody` once the geometry has returned -/
theorem coversBody_after (f : LineFeature R) (ctx : Ctx R) (q : Query R) (pd : PlaneDist R) (h : LineHit R)
    (hg : f.geometry ctx q f.isFault = .ok pd) :
    f.coversBody ctx q = .ok (some h) ↔ (h.pd = pd ∧ LineMember f ctx q h) := by
  unfold LineFeature.geometry LineFeature.startRadius at hg
  unfold LineFeature.coversBody
  simp only [hg, bind, Except.bind, pure, Except.pure]
  by_cases hfin : (fabs pd.distanceFromPlane < Scalar.inf ∨ pd.distanceAlongPlane < Scalar.inf)
  swap
  · simp only [hfin, decide_false, Bool.not_false, if_true]
    constructor
    · intro hh; cases hh
    · rintro ⟨hpd, hm⟩
      exact absurd (hpd ▸ hm.finite) hfin
  simp only [hfin, decide_true, Bool.not_true, Bool.false_eq_true, if_false]
  cases hsc : f.sections[pd.sectionIdx]? with
  | none =>
    simp only [idx, hsc]
    constructor
    · intro hh; cases hh
    · rintro ⟨hpd, hm⟩
      obtain ⟨sc, sn, h1, _⟩ := hm.segments
      rw [hpd, hsc] at h1; cases h1
  | some secCur =>
  cases hsn : f.sections[pd.sectionIdx + 1]? with
  | none =>
    simp only [idx, hsc, hsn]
    constructor
    · intro hh; cases hh
    · rintro ⟨hpd, hm⟩
      obtain ⟨sc, sn, _, h2, _⟩ := hm.segments
      rw [hpd, hsn] at h2; cases h2
  | some secNext =>
  cases hc : secCur[pd.segment]? with
  | none =>
    simp only [idx, hsc, hsn, hc]
    constructor
    · intro hh; cases hh
    · rintro ⟨hpd, hm⟩
      obtain ⟨sc, sn, h1, _, h3, _⟩ := hm.segments
      rw [hpd, hsc] at h1; cases h1
      rw [hpd, hc] at h3; cases h3
  | some cur =>
  cases hn : secNext[pd.segment]? with
  | none =>
    simp only [idx, hsc, hsn, hc, hn]
    constructor
    · intro hh; cases hh
    · rintro ⟨hpd, hm⟩
      obtain ⟨sc, sn, _, h2, _, h4, _⟩ := hm.segments
      rw [hpd, hsn] at h2; cases h2
      rw [hpd, hn] at h4; cases h4
  | some next =>
  simp only [idx, hsc, hsn, hc, hn]
  -- what a member must look like
  have key : ∀ hm : (h.pd = pd ∧ LineMember f ctx q h),
      h = ⟨pd, cur, next, ⟨maxLenLocal secCur secNext pd.fractionOfSection, cur.thLocal next pd.fractionOfSection pd.fractionOfSegment⟩⟩ := by
    rintro ⟨hpd, hm⟩
    obtain ⟨sc, sn, h1, h2, h3, h4, _, h5⟩ := hm.segments
    rw [hpd, hsc] at h1; cases h1
    rw [hpd, hsn] at h2; cases h2
    rw [hpd, hc] at h3; cases h3
    rw [hpd, hn] at h4; cases h4
    rw [hpd] at h5
    rw [← h5, ← hpd]
  by_cases hth : fabs (cur.thLocal next pd.fractionOfSection pd.fractionOfSegment) < (2.0 : R) * Scalar.eps
  · have hth' := hth
    unfold Segment.thLocal lerpC at hth'
    simp only [hth', if_true]
    constructor
    · intro hh; cases hh
    · intro hm
      have := key hm; subst this
      exact absurd hth hm.2.thicknessNonzero
  have hth' := hth
  unfold Segment.thLocal lerpC at hth'
  simp only [hth', if_false]
  by_cases htt : cur.thLocal next pd.fractionOfSection pd.fractionOfSegment < cur.ttLocal next pd.fractionOfSection pd.fractionOfSegment
  · have htt' := htt
    unfold Segment.thLocal Segment.ttLocal lerpC at htt'
    simp only [htt', if_true]
    constructor
    · intro hh; cases hh
    · intro hm
      have := key hm; subst this
      exact absurd htt hm.2.thicknessAboveTruncation
  have htt' := htt
  unfold Segment.thLocal Segment.ttLocal lerpC at htt'
  simp only [htt', if_false]
  by_cases hin : lineInside f.isFault pd.distanceFromPlane pd.distanceAlongPlane
      (cur.thLocal next pd.fractionOfSection pd.fractionOfSegment) (cur.ttLocal next pd.fractionOfSection pd.fractionOfSegment)
      (maxLenLocal secCur secNext pd.fractionOfSection)
  · have hin' := hin
    unfold lineInside Segment.thLocal Segment.ttLocal maxLenLocal lerpC at hin'
    have hb : (if f.isFault then
          decide (fabs pd.distanceFromPlane ≤ (cur.thickness.x + pd.fractionOfSection * (next.thickness.x - cur.thickness.x) +
            pd.fractionOfSegment * (cur.thickness.y + pd.fractionOfSection * (next.thickness.y - cur.thickness.y) -
              (cur.thickness.x + pd.fractionOfSection * (next.thickness.x - cur.thickness.x)))) * (0.5 : R)) &&
          decide (pd.distanceAlongPlane > 0) &&
          decide (pd.distanceAlongPlane ≤ sectionLength secCur + pd.fractionOfSection * (sectionLength secNext - sectionLength secCur))
        else
          decide (pd.distanceFromPlane ≥ cur.topTruncation.x + pd.fractionOfSection * (next.topTruncation.x - cur.topTruncation.x) +
            pd.fractionOfSegment * (cur.topTruncation.y + pd.fractionOfSection * (next.topTruncation.y - cur.topTruncation.y) -
              (cur.topTruncation.x + pd.fractionOfSection * (next.topTruncation.x - cur.topTruncation.x)))) &&
          decide (pd.distanceFromPlane ≤ cur.thickness.x + pd.fractionOfSection * (next.thickness.x - cur.thickness.x) +
            pd.fractionOfSegment * (cur.thickness.y + pd.fractionOfSection * (next.thickness.y - cur.thickness.y) -
              (cur.thickness.x + pd.fractionOfSection * (next.thickness.x - cur.thickness.x)))) &&
          decide (pd.distanceAlongPlane ≥ 0) &&
          decide (pd.distanceAlongPlane ≤ sectionLength secCur + pd.fractionOfSection * (sectionLength secNext - sectionLength secCur))) = true := by
      cases hf : f.isFault
      · rw [hf] at hin'
        simp only [Bool.false_eq_true, if_false] at hin' ⊢
        simp only [Bool.and_eq_true, decide_eq_true_eq]
        exact ⟨⟨⟨hin'.1, hin'.2.1⟩, hin'.2.2.1⟩, hin'.2.2.2⟩
      · rw [hf] at hin'
        simp only [if_true] at hin' ⊢
        simp only [Bool.and_eq_true, decide_eq_true_eq]
        exact ⟨⟨hin'.1, hin'.2.1⟩, hin'.2.2⟩
    simp only [hb, if_true]
    constructor
    · intro hh
      have : h = ⟨pd, cur, next, ⟨maxLenLocal secCur secNext pd.fractionOfSection,
                                  cur.thLocal next pd.fractionOfSection pd.fractionOfSegment⟩⟩ := by
        injection hh with hh; injection hh with hh; exact hh.symm
      subst this
      refine ⟨rfl, ?_⟩
      refine ⟨?_, hfin, ⟨secCur, secNext, hsc, hsn, hc, hn, hin, rfl⟩, hth, htt⟩
      unfold LineFeature.geometry LineFeature.startRadius
      exact hg
    · intro hm
      rw [key hm]
      rfl
  · have hb : (if f.isFault then
          decide (fabs pd.distanceFromPlane ≤ (cur.thickness.x + pd.fractionOfSection * (next.thickness.x - cur.thickness.x) +
            pd.fractionOfSegment * (cur.thickness.y + pd.fractionOfSection * (next.thickness.y - cur.thickness.y) -
              (cur.thickness.x + pd.fractionOfSection * (next.thickness.x - cur.thickness.x)))) * (0.5 : R)) &&
          decide (pd.distanceAlongPlane > 0) &&
          decide (pd.distanceAlongPlane ≤ sectionLength secCur + pd.fractionOfSection * (sectionLength secNext - sectionLength secCur))
        else
          decide (pd.distanceFromPlane ≥ cur.topTruncation.x + pd.fractionOfSection * (next.topTruncation.x - cur.topTruncation.x) +
            pd.fractionOfSegment * (cur.topTruncation.y + pd.fractionOfSection * (next.topTruncation.y - cur.topTruncation.y) -
              (cur.topTruncation.x + pd.fractionOfSection * (next.topTruncation.x - cur.topTruncation.x)))) &&
          decide (pd.distanceFromPlane ≤ cur.thickness.x + pd.fractionOfSection * (next.thickness.x - cur.thickness.x) +
            pd.fractionOfSegment * (cur.thickness.y + pd.fractionOfSection * (next.thickness.y - cur.thickness.y) -
              (cur.thickness.x + pd.fractionOfSection * (next.thickness.x - cur.thickness.x)))) &&
          decide (pd.distanceAlongPlane ≥ 0) &&
          decide (pd.distanceAlongPlane ≤ sectionLength secCur + pd.fractionOfSection * (sectionLength secNext - sectionLength secCur))) = false := by
      rw [Bool.eq_false_iff]
      intro hb
      apply hin
      unfold lineInside Segment.thLocal Segment.ttLocal maxLenLocal lerpC
      cases hf : f.isFault
      · rw [hf] at hb
        simp only [Bool.false_eq_true, if_false, Bool.and_eq_true, decide_eq_true_eq] at hb ⊢
        exact ⟨hb.1.1.1, hb.1.1.2, hb.1.2, hb.2⟩
      · rw [hf] at hb
        simp only [if_true, Bool.and_eq_true, decide_eq_true_eq] at hb ⊢
        exact ⟨hb.1.1, hb.1.2, hb.2⟩
    simp only [hb, Bool.false_eq_true, if_false]
    constructor
    · intro hh; cases hh
    · intro hm
      have := key hm; subst this
      obtain ⟨sc, sn, h1, h2, _, _, h5, _⟩ := hm.2.segments
      rw [hsc] at h1; cases h1
      rw [hsn] at h2; cases h2
      exact absurd h5 hin

/-! ### `segmentStep` cut into its phases (definitionally the same function, see `segmentStep_eq`) -/

/-- start of a step: the angle correction of the spherical depth methods, then `begin_segment = end_segment` -/
def segPre (dm : DepthMethod) (i : Nat) (s : SegState R) : SegState R :=
  let s :=
    if i != 0 ∧ (dm == .beginSegment ∨ dm == .beginAtEndSegment) then
      let inner := P2.dot s.beginSeg s.endSeg / (P2.norm s.beginSeg * P2.norm s.endSeg)
      let inner := if inner < 0.0 ∧ inner ≥ (-1e-14 : R) then 0.0 else inner
      let inner := if inner > 1.0 ∧ inner ≤ (1.0 : R) + (1e-14 : R) then 1.0 else inner
      let corr := acos inner
      { s with addAngleCorrection := corr, addAngle := s.addAngle + corr }
    else s
  { s with beginSeg := s.endSeg }

/-- dip at the top of the segment (`interpolated_angle_top`), `s` the state after `segPre` -/
def segAngTop (dm : DepthMethod) (fraction : R) (angCur angNext : P2 R) (i : Nat) (s : SegState R) : R :=
  angCur.x + fraction * (angNext.x - angCur.x) + s.addAngle
    + (if dm == .beginAtEndSegment ∧ i != 0 then -s.addAngleCorrection else 0)
/-- dip at the bottom of the segment -/
def segAngBot (fraction : R) (angCur angNext : P2 R) (s : SegState R) : R :=
  angCur.y + fraction * (angNext.y - angCur.y) + s.addAngle

/-- end point of a straight piece of length `len` leaving `b` at dip `angTop` -/
def lineEnd (b : P2 R) (angTop len : R) : P2 R :=
  ⟨b.x + len * sin ((0.5 : R) * Scalar.pi - angTop), b.y - len * cos ((0.5 : R) * Scalar.pi - angTop)⟩
/-- `(e − b)·(c − b)` -/
def lineC1 (b e c : P2 R) : R := P2.dot (e - b) (c - b)
/-- `(e − b)·(e − b)` -/
def lineC2 (b e : P2 R) : R := P2.dot (e - b) (e - b)
/-- the code's test "the foot of `c` is not on the piece `b → e`" -/
def lineOutside (b e c : P2 R) : Prop := lineC1 b e c < 0 ∨ lineC2 b e < lineC1 b e c
instance (b e c : P2 R) : Decidable (lineOutside b e c) := by unfold lineOutside; infer_instance
/-- foot of `c` on the line through `b` and `e` -/
def lineFoot (b e c : P2 R) : P2 R := b + P2.smul (lineC1 b e c / lineC2 b e) (e - b)
/-- the code's side test: `−1` when `(b − e) × (c − b) < 0`, else `+1` -/
def lineSide (b e c : P2 R) : R := if (b.x - e.x) * (c.y - b.y) - (b.y - e.y) * (c.x - b.x) < 0 then -1.0 else 1.0
def lineDistance (b e c : P2 R) : R := lineSide b e c * P2.norm (c - lineFoot b e c)
def lineAlong (b e c : P2 R) : R := P2.norm (b - lineFoot b e c)

/-- the straight branch (equal dips, `|len| > ε`) -/
def segStraight (startRadius : R) (check2d : P2 R) (angTop len : R) (s : SegState R) : SegState R :=
  let endSeg := lineEnd s.endSeg angTop len
  let s := { s with endSeg := endSeg }
  if lineOutside s.beginSeg endSeg check2d then
    { s with newDistance := Scalar.inf, newAlong := Scalar.inf, newDepthRef := Scalar.inf }
  else
    { s with newDistance := lineDistance s.beginSeg endSeg check2d, newAlong := lineAlong s.beginSeg endSeg check2d,
             newDepthRef := startRadius - (lineFoot s.beginSeg endSeg check2d).y }

/-- radius of the circular piece: `|len / (angTop − angBot)|` -/
def arcRadius (len diff : R) : R := fabs (len / diff)
/-- centre of the circle of the circular piece -/
def arcCenter (b : P2 R) (angTop diff radius : R) : P2 R :=
  if fabs (angTop - (0.5 : R) * Scalar.pi) < (1e-8 : R) then
    ⟨if diff > 0 then b.x + radius else b.x - radius, b.y⟩
  else if fabs (angTop - (1.5 : R) * Scalar.pi) < (1e-8 : R) then
    ⟨if diff > 0 then b.x - radius else b.x + radius, b.y⟩
  else
    let tanTop := tan angTop
    let cy := if diff < 0 then b.y - radius * cos angTop else b.y + radius * cos angTop
    let ccybs := cy - b.y
    ⟨b.x + tanTop * ccybs, cy⟩
/-- end point of the circular piece: `b` rotated about the centre by `diff` -/
def arcEnd (b center : P2 R) (diff : R) : P2 R :=
  let bspc := b - center
  ⟨cos diff * bspc.x - sin diff * bspc.y + center.x, sin diff * bspc.x + cos diff * bspc.y + center.y⟩
/-- the angle of the check point seen from the centre, in the code's convention -/
def arcCpa (check2d center : P2 R) (radius diff : R) : R :=
  let cpcr := check2d - center
  let cpcrNorm := P2.norm cpcr
  let dotp := cpcr.x * (0 : R) + cpcr.y * radius
  let cpa : R :=
    if fabs cpcrNorm < Scalar.eps then (2.0 : R) * Scalar.pi
    else if check2d.x ≤ center.x then acos (dotp / (cpcrNorm * radius))
    else (2.0 : R) * Scalar.pi - acos (dotp / (cpcrNorm * radius))
  let cpa := if diff ≥ 0 then Scalar.pi - cpa else (2.0 : R) * Scalar.pi - cpa
  if fabs (cpa - (2 : R) * Scalar.pi) < (1e-14 : R) then 0 else cpa
/-- the sector test: the angle of the check point lies between the two dips (tolerance `1e-12`) -/
def arcAccept (diff cpa angTop angBot : R) : Prop :=
  (diff > 0 ∧ (cpa ≤ angTop ∨ fabs (cpa - angTop) < (1e-12 : R)) ∧ (cpa ≥ angBot ∨ fabs (cpa - angBot) < (1e-12 : R)))
    ∨ (diff < 0 ∧ (cpa ≥ angTop ∨ fabs (cpa - angTop) < (1e-12 : R)) ∧ (cpa ≤ angBot ∨ fabs (cpa - angBot) < (1e-12 : R)))
instance (diff cpa angTop angBot : R) : Decidable (arcAccept diff cpa angTop angBot) := by unfold arcAccept; infer_instance
/-- signed distance from the circular piece -/
def arcDistance (check2d center : P2 R) (radius diff : R) : R :=
  (radius - P2.norm (check2d - center)) * (if diff < 0 then 1 else -1)

/-- the circular branch (dip varying along the segment) -/
def segArc (startRadius : R) (check2d : P2 R) (angTop angBot len : R) (s : SegState R) : SegState R :=
  let diff := angTop - angBot
  let radius := arcRadius len diff
  let center := arcCenter s.beginSeg angTop diff radius
  let bspc := s.beginSeg - center
  let s := { s with endSeg := arcEnd s.beginSeg center diff }
  let cpa := arcCpa check2d center radius diff
  if arcAccept diff cpa angTop angBot then
    { s with newDistance := arcDistance check2d center radius diff,
             newAlong := (radius * cpa - radius * angTop) * (if diff < 0 then 1 else -1),
             newDepthRef := startRadius - (sin (cpa + angTop) * bspc.x + cos (cpa + angTop) * bspc.y + center.y) }
  else { s with newDistance := Scalar.inf, newAlong := Scalar.inf, newDepthRef := Scalar.inf }

/-- the geometry of one segment: straight or circular piece -/
def segGeom (startRadius : R) (check2d : P2 R) (angTop angBot len : R) (s : SegState R) : SegState R :=
  if fabs (angTop - angBot) < (1e-8 : R) then
    if fabs len > Scalar.eps then segStraight startRadius check2d angTop len s else s
  else segArc startRadius check2d angTop angBot len s

/-- "closest segment so far?" -/
def segClosest (onlyPositive : Bool) (i : Nat) (angTop angBot len : R) (s : SegState R) : SegState R :=
  if s.newAlong ≥ (-1e-10 : R) ∧ s.newAlong ≤ fabs len ∧ fabs s.newDistance < fabs s.distance then
    let taa := s.averageAngle * s.totalLength + (0.5 : R) * (angTop + angBot - (2 : R) * s.addAngle) * s.newAlong
    let taa := if fabs taa < Scalar.eps then 0 else taa / (s.totalLength + s.newAlong)
    { s with distance := if onlyPositive then fabs s.newDistance else s.newDistance,
             along := s.newAlong + s.totalLength, segment := i, segmentFraction := s.newAlong / len,
             totalAverageAngle := taa, depthRef := s.newDepthRef, found := true }
  else s

/-- end of a step: running average dip and running length -/
def segFinish (angTop angBot len : R) (s : SegState R) : SegState R :=
  let aa := s.averageAngle * s.totalLength + (0.5 : R) * (angTop + angBot - (2 : R) * s.addAngle) * len
  let aa := if fabs aa < Scalar.eps then 0 else aa / (s.totalLength + len)
  { s with averageAngle := aa, totalLength := s.totalLength + len }

/-- `segmentStep` is the composition of its phases -/
theorem segmentStep_eq (dm : DepthMethod) (onlyPositive : Bool) (startRadius fraction : R) (check2d : P2 R)
    (angCur angNext : P2 R) (lenCur lenNext : R) (i : Nat) (s : SegState R) :
    segmentStep dm onlyPositive startRadius fraction check2d angCur angNext lenCur lenNext i s =
      (let s1 := segPre dm i s
       let angTop := segAngTop dm fraction angCur angNext i s1
       let angBot := segAngBot fraction angCur angNext s1
       let len := lerpC lenCur lenNext fraction
       if len < (1e-14 : R) then s1
       else segFinish angTop angBot len (segClosest onlyPositive i angTop angBot len (segGeom startRadius check2d angTop angBot len s1))) := by
  unfold segmentStep
  -- the `let`s of the model in the order they are met; only the states between the phases are named
  extract_lets +onlyGivenNames _ _ _ _ _ s1 _ angTop angBot len _ _ _ _ _ _ _ _ _ _ _ _ _ _ _ _ _ _ _ _ _ _ _ _ _ _ _ sG _ _ sC _ _
  have hG : sG = segGeom startRadius check2d angTop angBot len s1 := rfl
  have hC : sC = segClosest onlyPositive i angTop angBot len sG := rfl
  show (if len < (1e-14 : R) then s1 else segFinish angTop angBot len sC) = _
  rw [hC, hG]
  rfl

/-! ### the running minimum `distance` is read by the "closest so far" test only -/

/-- overwrite the running minimum -/
def SegState.setDistance (s : SegState R) (d : R) : SegState R := { s with distance := d }

theorem segPre_setDistance (dm : DepthMethod) (i : Nat) (s : SegState R) (d : R) :
    segPre dm i (s.setDistance d) = (segPre dm i s).setDistance d := by
  unfold segPre SegState.setDistance
  by_cases h : i != 0 ∧ (dm == .beginSegment ∨ dm == .beginAtEndSegment)
  · simp only [h, if_true]; trivial
  · simp only [h, if_false]

theorem segAngTop_setDistance (dm : DepthMethod) (fraction : R) (angCur angNext : P2 R) (i : Nat) (s : SegState R) (d : R) :
    segAngTop dm fraction angCur angNext i (s.setDistance d) = segAngTop dm fraction angCur angNext i s := rfl
theorem segAngBot_setDistance (fraction : R) (angCur angNext : P2 R) (s : SegState R) (d : R) :
    segAngBot fraction angCur angNext (s.setDistance d) = segAngBot fraction angCur angNext s := rfl

theorem segStraight_setDistance (startRadius : R) (check2d : P2 R) (angTop len : R) (s : SegState R) (d : R) :
    segStraight startRadius check2d angTop len (s.setDistance d) = (segStraight startRadius check2d angTop len s).setDistance d := by
  unfold segStraight SegState.setDistance
  dsimp only
  by_cases h : lineOutside s.endSeg (lineEnd s.endSeg angTop len) check2d
  · by_cases h' : lineOutside s.beginSeg (lineEnd s.endSeg angTop len) check2d <;> simp only [h', if_true, if_false]
  · by_cases h' : lineOutside s.beginSeg (lineEnd s.endSeg angTop len) check2d <;> simp only [h', if_true, if_false]

theorem segArc_setDistance (startRadius : R) (check2d : P2 R) (angTop angBot len : R) (s : SegState R) (d : R) :
    segArc startRadius check2d angTop angBot len (s.setDistance d) = (segArc startRadius check2d angTop angBot len s).setDistance d := by
  unfold segArc SegState.setDistance
  dsimp only
  split <;> rfl

theorem segGeom_setDistance (startRadius : R) (check2d : P2 R) (angTop angBot len : R) (s : SegState R) (d : R) :
    segGeom startRadius check2d angTop angBot len (s.setDistance d) = (segGeom startRadius check2d angTop angBot len s).setDistance d := by
  unfold segGeom
  split
  · split
    · exact segStraight_setDistance _ _ _ _ _ _
    · rfl
  · exact segArc_setDistance _ _ _ _ _ _ _

theorem segFinish_setDistance (angTop angBot len : R) (s : SegState R) (d : R) :
    segFinish angTop angBot len (s.setDistance d) = (segFinish angTop angBot len s).setDistance d := rfl

end generic
/-! ## Part 2: ordered fields -/
section field
variable {F : Type} [Field F] [LinearOrder F] [IsStrictOrderedRing F] (T : Transc F)

/-! ### `only_positive` -/

/-- the state of the `only_positive = true` run that corresponds to a state of the `false` run -/
def SegState.absD (s : SegState F) : SegState F := { s with distance := |s.distance| }

theorem SegState.absD_eq (s : SegState F) : s.absD = s.setDistance |s.distance| := rfl

theorem SegState.setDistance_self {R : Type} (s : SegState R) : s.setDistance s.distance = s := rfl

theorem segPre_distance {R : Type} [Scalar R] (dm : DepthMethod) (i : Nat) (s : SegState R) : (segPre dm i s).distance = s.distance := by
  have h := segPre_setDistance dm i s s.distance
  rw [SegState.setDistance_self] at h
  rw [h]; rfl

theorem segGeom_distance {R : Type} [Scalar R] (startRadius : R) (check2d : P2 R) (angTop angBot len : R) (s : SegState R) :
    (segGeom startRadius check2d angTop angBot len s).distance = s.distance := by
  have h := segGeom_setDistance startRadius check2d angTop angBot len s s.distance
  rw [SegState.setDistance_self] at h
  rw [h]; rfl

theorem segClosest_absD (i : Nat) (angTop angBot len : F) (s : SegState F) :
    @segClosest F (fieldScalar T) true i angTop angBot len s.absD = (@segClosest F (fieldScalar T) false i angTop angBot len s).absD := by
  unfold segClosest SegState.absD
  dsimp only
  simp only [fabs_eq_abs, abs_abs]
  split
  · simp
  · rfl

theorem segmentStep_absD (dm : DepthMethod) (startRadius fraction : F) (check2d : P2 F) (angCur angNext : P2 F) (lenCur lenNext : F)
    (i : Nat) (s : SegState F) :
    @segmentStep F (fieldScalar T) dm true startRadius fraction check2d angCur angNext lenCur lenNext i s.absD =
      (@segmentStep F (fieldScalar T) dm false startRadius fraction check2d angCur angNext lenCur lenNext i s).absD := by
  rw [@segmentStep_eq F (fieldScalar T), @segmentStep_eq F (fieldScalar T)]
  dsimp only
  rw [SegState.absD_eq, @segPre_setDistance F (fieldScalar T), @segAngTop_setDistance F (fieldScalar T),
    @segAngBot_setDistance F (fieldScalar T)]
  split
  · rw [SegState.absD_eq, @segPre_distance F (fieldScalar T)]
  · rw [@segGeom_setDistance F (fieldScalar T)]
    have hd := @segGeom_distance F (fieldScalar T) startRadius check2d
        (@segAngTop F (fieldScalar T) dm fraction angCur angNext i (@segPre F (fieldScalar T) dm i s))
        (@segAngBot F (fieldScalar T) fraction angCur angNext (@segPre F (fieldScalar T) dm i s))
        (@lerpC F (fieldScalar T) lenCur lenNext fraction) (@segPre F (fieldScalar T) dm i s)
    rw [@segPre_distance F (fieldScalar T)] at hd
    rw [← hd, ← SegState.absD_eq, segClosest_absD]
    rfl


theorem Except.map_bind' {ε α β γ : Type} (x : Except ε α) (f : α → Except ε β) (h : β → γ) :
    Except.map h (x >>= f) = x >>= fun a => Except.map h (f a) := by
  cases x <;> rfl

theorem Except.bind_congr' {ε α β : Type} (x : Except ε α) (f g : α → Except ε β) (h : ∀ a, f a = g a) : x >>= f = x >>= g := by
  cases x
  · rfl
  · exact h _

theorem segmentLoop_absD (dm : DepthMethod) (startRadius fraction : F) (check2d : P2 F) (angsCur angsNext : List (P2 F)) (lensCur lensNext : List F)
    (fuel i : Nat) (s : SegState F) :
    @segmentLoop F (fieldScalar T) dm true startRadius fraction check2d angsCur angsNext lensCur lensNext fuel i s.absD =
      Except.map SegState.absD
        (@segmentLoop F (fieldScalar T) dm false startRadius fraction check2d angsCur angsNext lensCur lensNext fuel i s) := by
  induction fuel generalizing i s with
  | zero => rfl
  | succ fuel ih =>
    unfold segmentLoop
    split
    · rw [Except.map_bind']
      refine Except.bind_congr' _ _ _ fun ac => ?_
      rw [Except.map_bind']
      refine Except.bind_congr' _ _ _ fun an => ?_
      rw [Except.map_bind']
      refine Except.bind_congr' _ _ _ fun lc => ?_
      rw [Except.map_bind']
      refine Except.bind_congr' _ _ _ fun ln => ?_
      rw [← ih, segmentStep_absD]
    · rfl

/-- the result of the `only_positive = true` call that corresponds to a result of the `false` call -/
def PlaneDist.absD (pd : PlaneDist F) : PlaneDist F := { pd with distanceFromPlane := |pd.distanceFromPlane| }

theorem dpfcp_absD (h0 : 0 ≤ T.inf) (coord : CoordSys F) (checkPoint nat : P3 F) (reference : P2 F) (pointList : List (P2 F))
    (lengths : List (List F)) (angles : List (List (P2 F))) (startRadius : F) (bz : Bezier F) :
    @distancePointFromCurvedPlanes F (fieldScalar T) coord checkPoint nat reference pointList lengths angles startRadius true bz =
      Except.map PlaneDist.absD
        (@distancePointFromCurvedPlanes F (fieldScalar T) coord checkPoint nat reference pointList lengths angles startRadius false bz) := by
  unfold distancePointFromCurvedPlanes
  extract_lets sph cart checkSurface checkSurface2d
  rw [Except.map_bind']
  refine Except.bind_congr' _ _ _ fun cpo => ?_
  split
  · show Except.ok _ = Except.ok _
    congr 1
    unfold PlaneDist.absD
    dsimp only
    congr 1
    exact (abs_of_nonneg h0).symm
  · rename_i cp
    extract_lets
    rw [Except.map_bind']
    refine Except.bind_congr' _ _ _ fun angsCur => ?_
    rw [Except.map_bind']
    refine Except.bind_congr' _ _ _ fun angsNext => ?_
    rw [Except.map_bind']
    refine Except.bind_congr' _ _ _ fun lensCur => ?_
    rw [Except.map_bind']
    refine Except.bind_congr' _ _ _ fun lensNext => ?_
    rw [Except.map_bind']
    refine Except.bind_congr' _ _ _ fun fr => ?_
    split
    · rw [Except.map_bind']
      refine Except.bind_congr' _ _ _ fun a0 => ?_
      rw [Except.map_bind']
      refine Except.bind_congr' _ _ _ fun a1 => ?_
      show Except.ok _ = Except.ok _
      congr 1
      unfold PlaneDist.absD
      dsimp only
      congr 1
      sfield
      simp
    · extract_lets check2d begin0 s0
      have hs0 : s0 = s0.absD := by
        unfold SegState.absD
        show s0 = { s0 with distance := |T.inf| }
        rw [abs_of_nonneg h0]
        rfl
      have hl := segmentLoop_absD T coord.depthMethod startRadius cp.fraction check2d angsCur angsNext lensCur lensNext (lensCur.length + 1) 0 s0
      rw [← hs0] at hl
      rw [Except.map_bind']
      refine Eq.trans (congrArg (· >>= _) hl) ?_
      generalize @segmentLoop F (fieldScalar T) coord.depthMethod false startRadius cp.fraction check2d angsCur angsNext lensCur lensNext (lensCur.length + 1) 0 s0 = r
      cases r <;> rfl

end field

/-! ## Part 3: the walk along the segments (every `Scalar R`) -/
section walk
variable {R : Type} [Scalar R]

theorem segPre_beginSeg (dm : DepthMethod) (i : Nat) (s : SegState R) : (segPre dm i s).beginSeg = s.endSeg := by
  unfold segPre; dsimp only; split <;> rfl
theorem segPre_endSeg (dm : DepthMethod) (i : Nat) (s : SegState R) : (segPre dm i s).endSeg = s.endSeg := by
  unfold segPre; dsimp only; split <;> rfl
theorem segPre_totalLength (dm : DepthMethod) (i : Nat) (s : SegState R) : (segPre dm i s).totalLength = s.totalLength := by
  unfold segPre; dsimp only; split <;> rfl

theorem segStraight_beginSeg (startRadius : R) (check2d : P2 R) (angTop len : R) (s : SegState R) :
    (segStraight startRadius check2d angTop len s).beginSeg = s.beginSeg := by
  unfold segStraight; dsimp only; split <;> rfl
theorem segStraight_totalLength (startRadius : R) (check2d : P2 R) (angTop len : R) (s : SegState R) :
    (segStraight startRadius check2d angTop len s).totalLength = s.totalLength := by
  unfold segStraight; dsimp only; split <;> rfl
theorem segStraight_endSeg (startRadius : R) (check2d : P2 R) (angTop len : R) (s : SegState R) :
    (segStraight startRadius check2d angTop len s).endSeg = lineEnd s.endSeg angTop len := by
  unfold segStraight; dsimp only; split <;> rfl
theorem segArc_beginSeg (startRadius : R) (check2d : P2 R) (angTop angBot len : R) (s : SegState R) :
    (segArc startRadius check2d angTop angBot len s).beginSeg = s.beginSeg := by
  unfold segArc; dsimp only; split <;> rfl
theorem segArc_totalLength (startRadius : R) (check2d : P2 R) (angTop angBot len : R) (s : SegState R) :
    (segArc startRadius check2d angTop angBot len s).totalLength = s.totalLength := by
  unfold segArc; dsimp only; split <;> rfl
theorem segArc_endSeg (startRadius : R) (check2d : P2 R) (angTop angBot len : R) (s : SegState R) :
    (segArc startRadius check2d angTop angBot len s).endSeg =
      arcEnd s.beginSeg (arcCenter s.beginSeg angTop (angTop - angBot) (arcRadius len (angTop - angBot))) (angTop - angBot) := by
  unfold segArc; dsimp only; split <;> rfl

theorem segGeom_beginSeg (startRadius : R) (check2d : P2 R) (angTop angBot len : R) (s : SegState R) :
    (segGeom startRadius check2d angTop angBot len s).beginSeg = s.beginSeg := by
  unfold segGeom
  split
  · split
    · exact segStraight_beginSeg _ _ _ _ _
    · rfl
  · exact segArc_beginSeg _ _ _ _ _ _
theorem segGeom_totalLength (startRadius : R) (check2d : P2 R) (angTop angBot len : R) (s : SegState R) :
    (segGeom startRadius check2d angTop angBot len s).totalLength = s.totalLength := by
  unfold segGeom
  split
  · split
    · exact segStraight_totalLength _ _ _ _ _
    · rfl
  · exact segArc_totalLength _ _ _ _ _ _

theorem segClosest_beginSeg (onlyPositive : Bool) (i : Nat) (angTop angBot len : R) (s : SegState R) :
    (segClosest onlyPositive i angTop angBot len s).beginSeg = s.beginSeg := by
  unfold segClosest; split <;> rfl
theorem segClosest_endSeg (onlyPositive : Bool) (i : Nat) (angTop angBot len : R) (s : SegState R) :
    (segClosest onlyPositive i angTop angBot len s).endSeg = s.endSeg := by
  unfold segClosest; split <;> rfl
theorem segClosest_totalLength (onlyPositive : Bool) (i : Nat) (angTop angBot len : R) (s : SegState R) :
    (segClosest onlyPositive i angTop angBot len s).totalLength = s.totalLength := by
  unfold segClosest; split <;> rfl

/-- every iteration starts where the previous one ended -/
theorem segmentStep_beginSeg (dm : DepthMethod) (onlyPositive : Bool) (startRadius fraction : R) (check2d : P2 R)
    (angCur angNext : P2 R) (lenCur lenNext : R) (i : Nat) (s : SegState R) :
    (segmentStep dm onlyPositive startRadius fraction check2d angCur angNext lenCur lenNext i s).beginSeg = s.endSeg := by
  rw [segmentStep_eq]
  dsimp only
  split
  · exact segPre_beginSeg _ _ _
  · show (segClosest _ _ _ _ _ _).beginSeg = _
    rw [segClosest_beginSeg, segGeom_beginSeg, segPre_beginSeg]

/-- the running length grows by the interpolated length of the segment (segments shorter than `1e-14` are skipped) -/
theorem segmentStep_totalLength (dm : DepthMethod) (onlyPositive : Bool) (startRadius fraction : R) (check2d : P2 R)
    (angCur angNext : P2 R) (lenCur lenNext : R) (i : Nat) (s : SegState R) :
    (segmentStep dm onlyPositive startRadius fraction check2d angCur angNext lenCur lenNext i s).totalLength =
      if lerpC lenCur lenNext fraction < (1e-14 : R) then s.totalLength else s.totalLength + lerpC lenCur lenNext fraction := by
  rw [segmentStep_eq]
  dsimp only
  split
  · exact segPre_totalLength _ _ _
  · show (segClosest _ _ _ _ _ _).totalLength + _ = _
    rw [segClosest_totalLength, segGeom_totalLength, segPre_totalLength]

/-- the states of the segment loop: `segStates … s0 k` is the state after `k` iterations (an index beyond a table reads the
default value; `segmentLoop_eq_states` needs the tables long enough) -/
def segStates (dm : DepthMethod) (onlyPositive : Bool) (startRadius fraction : R) (check2d : P2 R)
    (angsCur angsNext : List (P2 R)) (lensCur lensNext : List R) (s0 : SegState R) : Nat → SegState R
  | 0 => s0
  | k + 1 => segmentStep dm onlyPositive startRadius fraction check2d (angsCur[k]?.getD default) (angsNext[k]?.getD default)
      (lensCur[k]?.getD default) (lensNext[k]?.getD default) k
      (segStates dm onlyPositive startRadius fraction check2d angsCur angsNext lensCur lensNext s0 k)

theorem idx_of_lt {α : Type} [Inhabited α] (xs : List α) (i : Nat) (h : i < xs.length) : idx xs i = .ok (xs[i]?.getD default) := by
  unfold idx
  rw [List.getElem?_eq_getElem h]
  rfl

/-- the loop runs over all segments of the current section -/
theorem segmentLoop_states (dm : DepthMethod) (onlyPositive : Bool) (startRadius fraction : R) (check2d : P2 R)
    (angsCur angsNext : List (P2 R)) (lensCur lensNext : List R) (s0 : SegState R)
    (h1 : lensCur.length ≤ angsCur.length) (h2 : lensCur.length ≤ angsNext.length) (h3 : lensCur.length ≤ lensNext.length)
    (fuel i : Nat) (hi : i ≤ lensCur.length) (hf : lensCur.length - i < fuel) :
    segmentLoop dm onlyPositive startRadius fraction check2d angsCur angsNext lensCur lensNext fuel i
        (segStates dm onlyPositive startRadius fraction check2d angsCur angsNext lensCur lensNext s0 i) =
      .ok (segStates dm onlyPositive startRadius fraction check2d angsCur angsNext lensCur lensNext s0 lensCur.length) := by
  induction fuel generalizing i with
  | zero => omega
  | succ fuel ih =>
    unfold segmentLoop
    by_cases hlt : i < lensCur.length
    · rw [if_pos hlt, idx_of_lt angsCur i (by omega), idx_of_lt angsNext i (by omega), idx_of_lt lensCur i hlt, idx_of_lt lensNext i (by omega)]
      exact ih (i + 1) (by omega) (by omega)
    · rw [if_neg hlt]
      have : i = lensCur.length := by omega
      rw [this]

end walk

/-! ## Part 4: the walk over an ordered field -/
section walkField
variable {F : Type} [Field F] [LinearOrder F] [IsStrictOrderedRing F] (T : Transc F)

theorem lit_1em14 : @OfScientific.ofScientific F (@Scalar.instOfScientific F (fieldScalar T)) 1 true 14 = (1 : F) / 10 ^ 14 := by
  rw [lit_sci]; norm_num

theorem lerpC_field (a b t : F) : @lerpC F (fieldScalar T) a b t = a + t * (b - a) := rfl

/-- the interpolated lengths of the segments between two sections -/
def segLens (lensCur lensNext : List F) (fraction : F) : List F := List.zipWith (fun a b => a + fraction * (b - a)) lensCur lensNext

theorem segStates_totalLength (dm : DepthMethod) (onlyPositive : Bool) (startRadius fraction : F) (check2d : P2 F)
    (angsCur angsNext : List (P2 F)) (lensCur lensNext : List F) (s0 : SegState F)
    (h3 : lensCur.length ≤ lensNext.length)
    (hlen : ∀ l ∈ segLens lensCur lensNext fraction, (1 : F) / 10 ^ 14 ≤ l) (k : Nat) (hk : k ≤ lensCur.length) :
    (@segStates F (fieldScalar T) dm onlyPositive startRadius fraction check2d angsCur angsNext lensCur lensNext s0 k).totalLength =
      s0.totalLength + ((segLens lensCur lensNext fraction).take k).sum := by
  induction k with
  | zero => simp [segStates]
  | succ k ih =>
    have hkc : k < lensCur.length := by omega
    have hkn : k < lensNext.length := by omega
    have e1 : lensCur[k]? = some lensCur[k] := List.getElem?_eq_getElem hkc
    have e2 : lensNext[k]? = some lensNext[k] := List.getElem?_eq_getElem hkn
    have hz : (segLens lensCur lensNext fraction)[k]? = some (lensCur[k] + fraction * (lensNext[k] - lensCur[k])) := by
      unfold segLens
      rw [List.getElem?_zipWith, e1, e2]
    have hge : (1 : F) / 10 ^ 14 ≤ lensCur[k] + fraction * (lensNext[k] - lensCur[k]) :=
      hlen _ (List.mem_of_getElem? hz)
    show (@segmentStep F (fieldScalar T) _ _ _ _ _ _ _ _ _ _ _).totalLength = _
    have hv : @lerpC F (fieldScalar T) (@Option.getD F lensCur[k]? (@default F (@Scalar.instInhabited F (fieldScalar T))))
        (@Option.getD F lensNext[k]? (@default F (@Scalar.instInhabited F (fieldScalar T)))) fraction =
        lensCur[k] + fraction * (lensNext[k] - lensCur[k]) := by
      rw [e1, e2]; rfl
    have hnot : ¬ @LT.lt F (fieldScalar T).toLT
        (@lerpC F (fieldScalar T) (@Option.getD F lensCur[k]? (@default F (@Scalar.instInhabited F (fieldScalar T))))
          (@Option.getD F lensNext[k]? (@default F (@Scalar.instInhabited F (fieldScalar T)))) fraction)
        (@OfScientific.ofScientific F (@Scalar.instOfScientific F (fieldScalar T)) 1 true 14) := by
      rw [hv, lit_1em14]; exact not_lt.mpr hge
    rw [@segmentStep_totalLength F (fieldScalar T), ih (by omega), if_neg hnot, hv, List.take_add_one, hz, List.sum_append]
    simp only [Option.toList_some, List.sum_singleton]
    exact add_assoc _ _ _


/-! ### equal sections: the section fraction is irrelevant -/

theorem lerpC_self (a t : F) : @lerpC F (fieldScalar T) a a t = a := by
  rw [lerpC_field, sub_self, mul_zero, add_zero]

theorem segAngTop_equal (dm : DepthMethod) (fr fr' : F) (a : P2 F) (i : Nat) (s : SegState F) :
    @segAngTop F (fieldScalar T) dm fr a a i s = @segAngTop F (fieldScalar T) dm fr' a a i s := by
  unfold segAngTop
  show a.x + fr * (a.x - a.x) + _ + _ = a.x + fr' * (a.x - a.x) + _ + _
  rw [sub_self, mul_zero, mul_zero]
theorem segAngBot_equal (fr fr' : F) (a : P2 F) (s : SegState F) :
    @segAngBot F (fieldScalar T) fr a a s = @segAngBot F (fieldScalar T) fr' a a s := by
  unfold segAngBot
  show a.y + fr * (a.y - a.y) + _ = a.y + fr' * (a.y - a.y) + _
  rw [sub_self, mul_zero, mul_zero]

theorem segmentStep_equal_sections (dm : DepthMethod) (onlyPositive : Bool) (startRadius fr fr' : F) (check2d : P2 F) (a : P2 F) (l : F)
    (i : Nat) (s : SegState F) :
    @segmentStep F (fieldScalar T) dm onlyPositive startRadius fr check2d a a l l i s =
      @segmentStep F (fieldScalar T) dm onlyPositive startRadius fr' check2d a a l l i s := by
  rw [@segmentStep_eq F (fieldScalar T), @segmentStep_eq F (fieldScalar T)]
  dsimp only
  rw [segAngTop_equal T dm fr fr', segAngBot_equal T fr fr', lerpC_self, lerpC_self]

theorem segmentLoop_equal_sections (dm : DepthMethod) (onlyPositive : Bool) (startRadius fr fr' : F) (check2d : P2 F)
    (angs : List (P2 F)) (lens : List F) (fuel i : Nat) (s : SegState F) :
    @segmentLoop F (fieldScalar T) dm onlyPositive startRadius fr check2d angs angs lens lens fuel i s =
      @segmentLoop F (fieldScalar T) dm onlyPositive startRadius fr' check2d angs angs lens lens fuel i s := by
  induction fuel generalizing i s with
  | zero => rfl
  | succ fuel ih =>
    unfold segmentLoop
    split
    · cases idx angs i with
      | error e => rfl
      | ok a =>
        cases idx lens i with
        | error e => rfl
        | ok l =>
          simp only [bind, Except.bind]
          rw [segmentStep_equal_sections T dm onlyPositive startRadius fr fr', ih]
    · rfl

theorem thLocal_equal (cur : Segment F) (sf gf : F) :
    @Segment.thLocal F (fieldScalar T) cur cur sf gf = @lerpC F (fieldScalar T) cur.thickness.x cur.thickness.y gf := by
  unfold Segment.thLocal
  rw [lerpC_self, lerpC_self]
theorem ttLocal_equal (cur : Segment F) (sf gf : F) :
    @Segment.ttLocal F (fieldScalar T) cur cur sf gf = @lerpC F (fieldScalar T) cur.topTruncation.x cur.topTruncation.y gf := by
  unfold Segment.ttLocal
  rw [lerpC_self, lerpC_self]
theorem maxLenLocal_equal (sec : List (Segment F)) (sf : F) :
    @maxLenLocal F (fieldScalar T) sec sec sf = @sectionLength F (fieldScalar T) sec := by
  unfold maxLenLocal
  rw [lerpC_self]

end walkField

/-! ## Part 5: the pieces in the vocabulary of plane geometry -/
section plane
variable {F : Type} [Field F] [LinearOrder F] [IsStrictOrderedRing F] (T : Transc F)

/-- the laws of the libm members the plane geometry needs -/
structure PlaneLaws (T : Transc F) : Prop where
  sin_sq_add_cos_sq : ∀ x, T.sin x * T.sin x + T.cos x * T.cos x = 1
  sin_half_pi_sub : ∀ x, T.sin (1 / 2 * T.pi - x) = T.cos x
  cos_half_pi_sub : ∀ x, T.cos (1 / 2 * T.pi - x) = T.sin x
  sqrt_mul_self : ∀ x, T.sqrt (x * x) = |x|
  tan_eq : ∀ x, T.cos x ≠ 0 → T.tan x = T.sin x / T.cos x

theorem lit_0_5 : @OfScientific.ofScientific F (@Scalar.instOfScientific F (fieldScalar T)) 5 true 1 = (1 : F) / 2 := by
  rw [lit_sci]; norm_num

theorem p2norm_field (a : P2 F) : @P2.norm F (fieldScalar T) a = T.sqrt (a.x * a.x + a.y * a.y) := rfl

/-- a norm whose radicand is a square -/
theorem p2norm_of_sq (L : PlaneLaws T) (a : P2 F) (r : F) (h : a.x * a.x + a.y * a.y = r * r) : @P2.norm F (fieldScalar T) a = |r| := by
  rw [p2norm_field, h, L.sqrt_mul_self]

/-- along-dip coordinate of `c` seen from `b`: `⟨c − b, t⟩`, `t = (cos θ, −sin θ)` the unit tangent pointing down dip -/
def alongDip (b c : P2 F) (θ : F) : F := T.cos θ * (c.x - b.x) - T.sin θ * (c.y - b.y)
/-- signed distance of `c` from the line through `b` with dip `θ`: `⟨c − b, n⟩`, `n = (−sin θ, −cos θ)` the unit normal pointing
below the surface (`t` turned clockwise by a right angle), so positive = below the surface -/
def belowDip (b c : P2 F) (θ : F) : F := -T.sin θ * (c.x - b.x) - T.cos θ * (c.y - b.y)

theorem lineEnd_field (L : PlaneLaws T) (b : P2 F) (θ len : F) :
    @lineEnd F (fieldScalar T) b θ len = ⟨b.x + len * T.cos θ, b.y - len * T.sin θ⟩ := by
  unfold lineEnd
  show (⟨b.x + len * T.sin (_ * T.pi - θ), b.y - len * T.cos (_ * T.pi - θ)⟩ : P2 F) = _
  rw [lit_0_5, L.sin_half_pi_sub, L.cos_half_pi_sub]

theorem lineC1_field (L : PlaneLaws T) (b c : P2 F) (θ len : F) :
    @lineC1 F (fieldScalar T) b ⟨b.x + len * T.cos θ, b.y - len * T.sin θ⟩ c = len * alongDip T b c θ := by
  show (b.x + len * T.cos θ - b.x) * (c.x - b.x) + (b.y - len * T.sin θ - b.y) * (c.y - b.y) = _
  unfold alongDip
  ring

theorem lineC2_field (L : PlaneLaws T) (b : P2 F) (θ len : F) :
    @lineC2 F (fieldScalar T) b ⟨b.x + len * T.cos θ, b.y - len * T.sin θ⟩ = len * len := by
  show (b.x + len * T.cos θ - b.x) * (b.x + len * T.cos θ - b.x) + (b.y - len * T.sin θ - b.y) * (b.y - len * T.sin θ - b.y) = _
  have h := L.sin_sq_add_cos_sq θ
  linear_combination (len * len) * h

theorem lineOutside_field (L : PlaneLaws T) (b c : P2 F) (θ len : F) (hlen : 0 < len) :
    @lineOutside F (fieldScalar T) b ⟨b.x + len * T.cos θ, b.y - len * T.sin θ⟩ c ↔ ¬ (0 ≤ alongDip T b c θ ∧ alongDip T b c θ ≤ len) := by
  unfold lineOutside
  rw [lineC1_field T L, lineC2_field T L]
  show (len * alongDip T b c θ < ((0 : ℕ) : F) ∨ len * len < len * alongDip T b c θ) ↔ _
  rw [Nat.cast_zero, not_and_or, not_le, not_le]
  constructor
  · rintro (h | h)
    · left; by_contra hc; rw [not_lt] at hc
      exact absurd (mul_nonneg hlen.le hc) (not_le.mpr h)
    · right; exact lt_of_mul_lt_mul_left h hlen.le
  · rintro (h | h)
    · left; exact mul_neg_of_pos_of_neg hlen h
    · right; exact mul_lt_mul_of_pos_left h hlen

theorem lineFoot_field (L : PlaneLaws T) (b c : P2 F) (θ len : F) (hlen : 0 < len) :
    @lineFoot F (fieldScalar T) b ⟨b.x + len * T.cos θ, b.y - len * T.sin θ⟩ c =
      ⟨b.x + alongDip T b c θ * T.cos θ, b.y - alongDip T b c θ * T.sin θ⟩ := by
  unfold lineFoot
  rw [lineC1_field T L, lineC2_field T L]
  show (⟨b.x + len * alongDip T b c θ / (len * len) * (b.x + len * T.cos θ - b.x),
         b.y + len * alongDip T b c θ / (len * len) * (b.y - len * T.sin θ - b.y)⟩ : P2 F) = _
  have hne : len ≠ 0 := ne_of_gt hlen
  congr 1
  · field_simp; ring
  · field_simp; ring

theorem lineAlong_field (L : PlaneLaws T) (b c : P2 F) (θ len : F) (hlen : 0 < len) :
    @lineAlong F (fieldScalar T) b ⟨b.x + len * T.cos θ, b.y - len * T.sin θ⟩ c = |alongDip T b c θ| := by
  unfold lineAlong
  rw [lineFoot_field T L b c θ len hlen]
  apply p2norm_of_sq T L
  show (b.x - (b.x + alongDip T b c θ * T.cos θ)) * (b.x - (b.x + alongDip T b c θ * T.cos θ)) +
      (b.y - (b.y - alongDip T b c θ * T.sin θ)) * (b.y - (b.y - alongDip T b c θ * T.sin θ)) = _
  have h := L.sin_sq_add_cos_sq θ
  linear_combination (alongDip T b c θ * alongDip T b c θ) * h

theorem lineSide_field (L : PlaneLaws T) (b c : P2 F) (θ len : F) (hlen : 0 < len) :
    @lineSide F (fieldScalar T) b ⟨b.x + len * T.cos θ, b.y - len * T.sin θ⟩ c = if belowDip T b c θ < 0 then -1 else 1 := by
  unfold lineSide
  show (if (b.x - (b.x + len * T.cos θ)) * (c.y - b.y) - (b.y - (b.y - len * T.sin θ)) * (c.x - b.x) < ((0 : ℕ) : F) then
      -(@OfScientific.ofScientific F (@Scalar.instOfScientific F (fieldScalar T)) 10 true 1)
      else (@OfScientific.ofScientific F (@Scalar.instOfScientific F (fieldScalar T)) 10 true 1)) = _
  rw [lit_1_0, Nat.cast_zero]
  have he : (b.x - (b.x + len * T.cos θ)) * (c.y - b.y) - (b.y - (b.y - len * T.sin θ)) * (c.x - b.x) = len * belowDip T b c θ := by
    unfold belowDip; ring
  rw [he]
  by_cases hw : belowDip T b c θ < 0
  · rw [if_pos hw, if_pos (mul_neg_of_pos_of_neg hlen hw)]
  · rw [if_neg hw, if_neg (not_lt.mpr (mul_nonneg hlen.le (not_lt.mp hw)))]

theorem lineDistance_field (L : PlaneLaws T) (b c : P2 F) (θ len : F) (hlen : 0 < len) :
    @lineDistance F (fieldScalar T) b ⟨b.x + len * T.cos θ, b.y - len * T.sin θ⟩ c = belowDip T b c θ := by
  unfold lineDistance
  rw [lineSide_field T L b c θ len hlen, lineFoot_field T L b c θ len hlen]
  have hn : @P2.norm F (fieldScalar T) (@HSub.hSub (P2 F) (P2 F) (P2 F) (@instHSub (P2 F) (@P2.instSub F (fieldScalar T))) c
      ⟨b.x + alongDip T b c θ * T.cos θ, b.y - alongDip T b c θ * T.sin θ⟩) = |belowDip T b c θ| := by
    apply p2norm_of_sq T L
    show (c.x - (b.x + alongDip T b c θ * T.cos θ)) * (c.x - (b.x + alongDip T b c θ * T.cos θ)) +
      (c.y - (b.y - alongDip T b c θ * T.sin θ)) * (c.y - (b.y - alongDip T b c θ * T.sin θ)) = _
    have h := L.sin_sq_add_cos_sq θ
    unfold alongDip belowDip
    linear_combination ((T.cos θ * (c.x - b.x) - T.sin θ * (c.y - b.y)) * (T.cos θ * (c.x - b.x) - T.sin θ * (c.y - b.y))
      - (c.x - b.x) * (c.x - b.x) - (c.y - b.y) * (c.y - b.y)) * h
  rw [hn]
  show (if belowDip T b c θ < 0 then (-1 : F) else 1) * |belowDip T b c θ| = _
  by_cases hw : belowDip T b c θ < 0
  · rw [if_pos hw, abs_of_neg hw]; ring
  · rw [if_neg hw, abs_of_nonneg (not_lt.mp hw)]; ring


theorem lit_1em8 : @OfScientific.ofScientific F (@Scalar.instOfScientific F (fieldScalar T)) 1 true 8 = (1 : F) / 10 ^ 8 := by
  rw [lit_sci]; norm_num

/-- the straight branch of `segGeom` in plane-geometry vocabulary (`b` = the point the previous piece ended at) -/
theorem segGeom_straight (L : PlaneLaws T) (startRadius : F) (c : P2 F) (θ angBot len : F) (s : SegState F)
    (hb : s.beginSeg = s.endSeg) (hstraight : |θ - angBot| < 1 / 10 ^ 8) (heps : T.eps < |len|) (hlen : 0 < len) :
    (@segGeom F (fieldScalar T) startRadius c θ angBot len s).beginSeg = s.endSeg ∧
    (@segGeom F (fieldScalar T) startRadius c θ angBot len s).endSeg = ⟨s.endSeg.x + len * T.cos θ, s.endSeg.y - len * T.sin θ⟩ ∧
    ((0 ≤ alongDip T s.endSeg c θ ∧ alongDip T s.endSeg c θ ≤ len) →
      (@segGeom F (fieldScalar T) startRadius c θ angBot len s).newAlong = alongDip T s.endSeg c θ ∧
      (@segGeom F (fieldScalar T) startRadius c θ angBot len s).newDistance = belowDip T s.endSeg c θ ∧
      (@segGeom F (fieldScalar T) startRadius c θ angBot len s).newDepthRef =
        startRadius - (s.endSeg.y - alongDip T s.endSeg c θ * T.sin θ)) ∧
    (¬ (0 ≤ alongDip T s.endSeg c θ ∧ alongDip T s.endSeg c θ ≤ len) →
      (@segGeom F (fieldScalar T) startRadius c θ angBot len s).newAlong = T.inf ∧
      (@segGeom F (fieldScalar T) startRadius c θ angBot len s).newDistance = T.inf ∧
      (@segGeom F (fieldScalar T) startRadius c θ angBot len s).newDepthRef = T.inf) := by
  have h1 : @LT.lt F (fieldScalar T).toLT (@fabs F (fieldScalar T) (@HSub.hSub F F F (@instHSub F (fieldScalar T).toSub) θ angBot))
      (@OfScientific.ofScientific F (@Scalar.instOfScientific F (fieldScalar T)) 1 true 8) := by
    rw [fabs_eq_abs, lit_1em8]; exact hstraight
  have h2 : @GT.gt F (fieldScalar T).toLT (@fabs F (fieldScalar T) len) (@Scalar.eps F (fieldScalar T)) := by
    rw [fabs_eq_abs]; exact heps
  have hg : @segGeom F (fieldScalar T) startRadius c θ angBot len s = @segStraight F (fieldScalar T) startRadius c θ len s := by
    unfold segGeom
    rw [if_pos h1, if_pos h2]
  rw [hg]
  unfold segStraight
  dsimp only
  rw [hb, lineEnd_field T L]
  by_cases hin : 0 ≤ alongDip T s.endSeg c θ ∧ alongDip T s.endSeg c θ ≤ len
  · have hno : ¬ @lineOutside F (fieldScalar T) s.endSeg ⟨s.endSeg.x + len * T.cos θ, s.endSeg.y - len * T.sin θ⟩ c :=
      fun h => (lineOutside_field T L _ _ _ _ hlen).1 h hin
    rw [if_neg hno]
    dsimp only
    refine ⟨rfl, rfl, fun _ => ⟨?_, ?_, ?_⟩, fun h => absurd hin h⟩
    · rw [lineAlong_field T L _ _ _ _ hlen, abs_of_nonneg hin.1]
    · exact lineDistance_field T L _ _ _ _ hlen
    · rw [lineFoot_field T L _ _ _ _ hlen]
  · have hout : @lineOutside F (fieldScalar T) s.endSeg ⟨s.endSeg.x + len * T.cos θ, s.endSeg.y - len * T.sin θ⟩ c :=
      (lineOutside_field T L _ _ _ _ hlen).2 hin
    rw [if_pos hout]
    dsimp only
    exact ⟨rfl, rfl, fun h => absurd h hin, fun _ => ⟨rfl, rfl, rfl⟩⟩


/-! ### the circular piece -/

theorem p2norm_sub_of_sq (L : PlaneLaws T) (a b : P2 F) (r : F)
    (h : (a.x - b.x) * (a.x - b.x) + (a.y - b.y) * (a.y - b.y) = r * r) :
    @P2.norm F (fieldScalar T) (@HSub.hSub (P2 F) (P2 F) (P2 F) (@instHSub (P2 F) (@P2.instSub F (fieldScalar T))) a b) = |r| :=
  p2norm_of_sq T L _ r h

theorem arcRadius_field (len diff : F) : @arcRadius F (fieldScalar T) len diff = |len / diff| := by
  unfold arcRadius; rw [fabs_eq_abs]

/-- the centre of the circle is at distance `radius` from the begin point of the piece; in the generic sub-branch (dip at the top
not within `1e-8` of `π/2` or `3π/2`) this needs `cos θ ≠ 0` and `tan = sin / cos` -/
theorem arcCenter_dist (L : PlaneLaws T) (b : P2 F) (θ diff r : F)
    (hcos : ¬ |θ - 1 / 2 * T.pi| < 1 / 10 ^ 8 → ¬ |θ - 3 / 2 * T.pi| < 1 / 10 ^ 8 → T.cos θ ≠ 0) :
    @P2.norm F (fieldScalar T) (@HSub.hSub (P2 F) (P2 F) (P2 F) (@instHSub (P2 F) (@P2.instSub F (fieldScalar T))) b
      (@arcCenter F (fieldScalar T) b θ diff r)) = |r| := by
  have l15 : @OfScientific.ofScientific F (@Scalar.instOfScientific F (fieldScalar T)) 15 true 1 = (3 : F) / 2 := by
    rw [lit_sci]; norm_num
  unfold arcCenter
  by_cases h1 : @LT.lt F (fieldScalar T).toLT (@fabs F (fieldScalar T) (@HSub.hSub F F F (@instHSub F (fieldScalar T).toSub) θ
      (@HMul.hMul F F F (@instHMul F (fieldScalar T).toMul) (@OfScientific.ofScientific F (@Scalar.instOfScientific F (fieldScalar T)) 5 true 1)
        (@Scalar.pi F (fieldScalar T))))) (@OfScientific.ofScientific F (@Scalar.instOfScientific F (fieldScalar T)) 1 true 8)
  · rw [if_pos h1]
    split
    · apply p2norm_sub_of_sq T L; show (b.x - (b.x + r)) * (b.x - (b.x + r)) + (b.y - b.y) * (b.y - b.y) = r * r; ring
    · apply p2norm_sub_of_sq T L; show (b.x - (b.x - r)) * (b.x - (b.x - r)) + (b.y - b.y) * (b.y - b.y) = r * r; ring
  rw [if_neg h1]
  by_cases h2 : @LT.lt F (fieldScalar T).toLT (@fabs F (fieldScalar T) (@HSub.hSub F F F (@instHSub F (fieldScalar T).toSub) θ
      (@HMul.hMul F F F (@instHMul F (fieldScalar T).toMul) (@OfScientific.ofScientific F (@Scalar.instOfScientific F (fieldScalar T)) 15 true 1)
        (@Scalar.pi F (fieldScalar T))))) (@OfScientific.ofScientific F (@Scalar.instOfScientific F (fieldScalar T)) 1 true 8)
  · rw [if_pos h2]
    split
    · apply p2norm_sub_of_sq T L; show (b.x - (b.x - r)) * (b.x - (b.x - r)) + (b.y - b.y) * (b.y - b.y) = r * r; ring
    · apply p2norm_sub_of_sq T L; show (b.x - (b.x + r)) * (b.x - (b.x + r)) + (b.y - b.y) * (b.y - b.y) = r * r; ring
  rw [if_neg h2]
  have hc : T.cos θ ≠ 0 := by
    apply hcos
    · intro h; apply h1; rw [fabs_eq_abs, lit_1em8, lit_0_5]; exact h
    · intro h; apply h2; rw [fabs_eq_abs, lit_1em8, l15]; exact h
  have ht : T.tan θ * T.cos θ - T.sin θ = 0 := by
    rw [L.tan_eq θ hc]; field_simp; ring
  have h := L.sin_sq_add_cos_sq θ
  dsimp only
  split
  · apply p2norm_sub_of_sq T L
    show (b.x - (b.x + T.tan θ * (b.y - r * T.cos θ - b.y))) * (b.x - (b.x + T.tan θ * (b.y - r * T.cos θ - b.y))) +
      (b.y - (b.y - r * T.cos θ)) * (b.y - (b.y - r * T.cos θ)) = r * r
    linear_combination (r * r * (T.tan θ * T.cos θ + T.sin θ)) * ht + (r * r) * h
  · apply p2norm_sub_of_sq T L
    show (b.x - (b.x + T.tan θ * (b.y + r * T.cos θ - b.y))) * (b.x - (b.x + T.tan θ * (b.y + r * T.cos θ - b.y))) +
      (b.y - (b.y + r * T.cos θ)) * (b.y - (b.y + r * T.cos θ)) = r * r
    linear_combination (r * r * (T.tan θ * T.cos θ + T.sin θ)) * ht + (r * r) * h

/-- the end point of the circular piece is the begin point turned about the centre: same distance from the centre -/
theorem arcEnd_dist (L : PlaneLaws T) (b center : P2 F) (diff : F) :
    @P2.norm F (fieldScalar T) (@HSub.hSub (P2 F) (P2 F) (P2 F) (@instHSub (P2 F) (@P2.instSub F (fieldScalar T)))
      (@arcEnd F (fieldScalar T) b center diff) center) =
    @P2.norm F (fieldScalar T) (@HSub.hSub (P2 F) (P2 F) (P2 F) (@instHSub (P2 F) (@P2.instSub F (fieldScalar T))) b center) := by
  rw [p2norm_field, p2norm_field]
  congr 1
  show (T.cos diff * (b.x - center.x) - T.sin diff * (b.y - center.y) + center.x - center.x) *
      (T.cos diff * (b.x - center.x) - T.sin diff * (b.y - center.y) + center.x - center.x) +
      (T.sin diff * (b.x - center.x) + T.cos diff * (b.y - center.y) + center.y - center.y) *
      (T.sin diff * (b.x - center.x) + T.cos diff * (b.y - center.y) + center.y - center.y) =
    (b.x - center.x) * (b.x - center.x) + (b.y - center.y) * (b.y - center.y)
  have h := L.sin_sq_add_cos_sq diff
  linear_combination ((b.x - center.x) * (b.x - center.x) + (b.y - center.y) * (b.y - center.y)) * h

/-- the distance reported for the circular piece is, up to sign, radius minus distance from the centre -/
theorem arcDistance_abs (c center : P2 F) (r diff : F) :
    |@arcDistance F (fieldScalar T) c center r diff| =
      |r - @P2.norm F (fieldScalar T) (@HSub.hSub (P2 F) (P2 F) (P2 F) (@instHSub (P2 F) (@P2.instSub F (fieldScalar T))) c center)| := by
  unfold arcDistance
  show |(r - _) * (if diff < ((0 : ℕ) : F) then ((1 : ℕ) : F) else -((1 : ℕ) : F))| = _
  rw [abs_mul]
  split <;> simp

/-- the circular branch of `segGeom` -/
theorem segGeom_arc (startRadius : F) (c : P2 F) (θ angBot len : F) (s : SegState F) (harc : ¬ |θ - angBot| < 1 / 10 ^ 8) :
    @segGeom F (fieldScalar T) startRadius c θ angBot len s = @segArc F (fieldScalar T) startRadius c θ angBot len s := by
  have h1 : ¬ @LT.lt F (fieldScalar T).toLT (@fabs F (fieldScalar T) (@HSub.hSub F F F (@instHSub F (fieldScalar T).toSub) θ angBot))
      (@OfScientific.ofScientific F (@Scalar.instOfScientific F (fieldScalar T)) 1 true 8) := by
    rw [fabs_eq_abs, lit_1em8]; exact harc
  unfold segGeom
  rw [if_neg h1]

/-- the distance the circular branch stores when the sector test accepts the point -/
theorem segArc_newDistance (startRadius : F) (c : P2 F) (θ angBot len : F) (s : SegState F) :
    let diff := θ - angBot
    let r := @arcRadius F (fieldScalar T) len diff
    let center := @arcCenter F (fieldScalar T) s.beginSeg θ diff r
    (@arcAccept F (fieldScalar T) diff (@arcCpa F (fieldScalar T) c center r diff) θ angBot →
      (@segArc F (fieldScalar T) startRadius c θ angBot len s).newDistance = @arcDistance F (fieldScalar T) c center r diff) ∧
    (¬ @arcAccept F (fieldScalar T) diff (@arcCpa F (fieldScalar T) c center r diff) θ angBot →
      (@segArc F (fieldScalar T) startRadius c θ angBot len s).newDistance = T.inf ∧
      (@segArc F (fieldScalar T) startRadius c θ angBot len s).newAlong = T.inf) := by
  intro diff r center
  constructor
  · intro h
    unfold segArc
    dsimp only
    rw [if_pos h]
  · intro h
    unfold segArc
    dsimp only
    rw [if_neg h]
    exact ⟨rfl, rfl⟩


theorem segClosest_newAlong {R : Type} [Scalar R] (onlyPositive : Bool) (i : Nat) (angTop angBot len : R) (s : SegState R) :
    (segClosest onlyPositive i angTop angBot len s).newAlong = s.newAlong := by
  unfold segClosest; split <;> rfl
theorem segClosest_newDistance {R : Type} [Scalar R] (onlyPositive : Bool) (i : Nat) (angTop angBot len : R) (s : SegState R) :
    (segClosest onlyPositive i angTop angBot len s).newDistance = s.newDistance := by
  unfold segClosest; split <;> rfl
theorem segClosest_newDepthRef {R : Type} [Scalar R] (onlyPositive : Bool) (i : Nat) (angTop angBot len : R) (s : SegState R) :
    (segClosest onlyPositive i angTop angBot len s).newDepthRef = s.newDepthRef := by
  unfold segClosest; split <;> rfl

/-- what one iteration leaves in the geometric members of the state when the segment is not skipped: those of `segGeom` -/
theorem segmentStep_geom {R : Type} [Scalar R] (dm : DepthMethod) (onlyPositive : Bool) (startRadius fraction : R) (check2d : P2 R)
    (angCur angNext : P2 R) (lenCur lenNext : R) (i : Nat) (s : SegState R)
    (hlen : ¬ lerpC lenCur lenNext fraction < (1e-14 : R)) :
    let s1 := segPre dm i s
    let g := segGeom startRadius check2d (segAngTop dm fraction angCur angNext i s1) (segAngBot fraction angCur angNext s1)
      (lerpC lenCur lenNext fraction) s1
    let r := segmentStep dm onlyPositive startRadius fraction check2d angCur angNext lenCur lenNext i s
    r.beginSeg = g.beginSeg ∧ r.endSeg = g.endSeg ∧ r.newAlong = g.newAlong ∧ r.newDistance = g.newDistance ∧ r.newDepthRef = g.newDepthRef := by
  intro s1 g r
  have hr : r = segFinish (segAngTop dm fraction angCur angNext i s1) (segAngBot fraction angCur angNext s1) (lerpC lenCur lenNext fraction)
      (segClosest onlyPositive i (segAngTop dm fraction angCur angNext i s1) (segAngBot fraction angCur angNext s1)
        (lerpC lenCur lenNext fraction) g) := by
    show segmentStep _ _ _ _ _ _ _ _ _ _ _ = _
    rw [segmentStep_eq]
    dsimp only
    rw [if_neg hlen]
  rw [hr]
  refine ⟨?_, ?_, ?_, ?_, ?_⟩
  · exact segClosest_beginSeg _ _ _ _ _ _
  · exact segClosest_endSeg _ _ _ _ _ _
  · exact segClosest_newAlong _ _ _ _ _ _
  · exact segClosest_newDistance _ _ _ _ _ _
  · exact segClosest_newDepthRef _ _ _ _ _ _

theorem belowDip_eq_cross (b c : P2 F) (θ : F) : belowDip T b c θ = (c.x - b.x) * (-T.sin θ) - (c.y - b.y) * T.cos θ := by
  unfold belowDip; ring

end plane

/-! ## Part 6: the Cartesian frame -/
section cartFrame
variable {R : Type} [Scalar R]

/-- the `side` factor of the horizontal axis (Cartesian, check point off the trench) -/
def cartSide (reference pFirst pLast cl2d normal q2d : P2 R) : R :=
  let dref := P2.distanceTo false cl2d reference
  let abn : P2 R := ⟨normal.x * dref, normal.y * dref⟩
  let localRef : P2 R := ⟨abn.x * (1.0 : R) + cl2d.x, abn.y * (1.0 : R) + cl2d.y⟩
  let refNormalSide := decide (P2.dot (q2d - cl2d) (localRef - cl2d) < 0.0)
  let refPointSide := decide ((pLast.x - pFirst.x) * (reference.y - pFirst.y) - (reference.x - pFirst.x) * (pLast.y - pFirst.y) < 0.0)
  if refNormalSide == refPointSide then 1 else -1

/-- the two axes of the vertical plane through the check point, perpendicular to the trench (Cartesian, check point off the trench) -/
def cartAxes (nat : P3 R) (startRadius : R) (cl2d : P2 R) (side : R) : P3 R × P3 R :=
  let clCart : P3 R := ⟨cl2d.x, cl2d.y, startRadius⟩
  let clBottomCart : P3 R := ⟨cl2d.x, cl2d.y, 0⟩
  let checkSurfaceCart : P3 R := ⟨nat.x, nat.y, startRadius⟩
  let yAxis0 := clCart - clBottomCart
  let xAxis0 := clCart - checkSurfaceCart
  (P3.smul' xAxis0 (side / P3.norm xAxis0), P3.sdiv yAxis0 (P3.norm yAxis0))

/-- plane coordinates of the check point: components along the two axes of its offset from the point below the foot at height 0 -/
def cartCheck2d (ax : P3 R × P3 R) (checkPoint : P3 R) (cl2d : P2 R) : P2 R :=
  let clBottomCart : P3 R := ⟨cl2d.x, cl2d.y, 0⟩
  ⟨P3.dot ax.1 (checkPoint - clBottomCart), P3.dot ax.2 (checkPoint - clBottomCart)⟩
/-- plane coordinates of the foot on the trench, where the walk along the surface starts -/
def cartBegin0 (ax : P3 R × P3 R) (startRadius : R) (cl2d : P2 R) : P2 R :=
  let clCart : P3 R := ⟨cl2d.x, cl2d.y, startRadius⟩
  let clBottomCart : P3 R := ⟨cl2d.x, cl2d.y, 0⟩
  ⟨P3.dot ax.1 (clCart - clBottomCart), P3.dot ax.2 (clCart - clBottomCart)⟩

/-- the Cartesian branch of `distance_point_from_curved_planes` for a check point off the trench: the frame is `cartAxes`, the loop is
started at `begin0` with the check point `check2d` -/
theorem dpfcp_cartesian (coord : CoordSys R) (hs : coord.spherical = false) (checkPoint nat : P3 R) (reference : P2 R) (pointList : List (P2 R))
    (lengths : List (List R)) (angles : List (List (P2 R))) (startRadius : R) (onlyPositive : Bool) (bz : Bezier R)
    (cp : ClosestPoint R) (hcp : bz.closestPoint false ⟨nat.x, nat.y⟩ = .ok (some cp))
    (hoff : ¬ fabs (P3.norm ((⟨nat.x, nat.y, startRadius⟩ : P3 R) - ⟨cp.point.x, cp.point.y, startRadius⟩)) < (2e-14 : R))
    (angsCur angsNext : List (P2 R)) (lensCur lensNext : List R) (pFirst pLast : P2 R)
    (h1 : idx angles cp.index = .ok angsCur) (h2 : idx angles (cp.index + 1) = .ok angsNext)
    (h3 : idx lengths cp.index = .ok lensCur) (h4 : idx lengths (cp.index + 1) = .ok lensNext)
    (h5 : idx pointList 0 = .ok pFirst) (h6 : idx pointList (pointList.length - 1) = .ok pLast) :
    distancePointFromCurvedPlanes coord checkPoint nat reference pointList lengths angles startRadius onlyPositive bz =
      (let ax := cartAxes nat startRadius cp.point (cartSide reference pFirst pLast cp.point cp.normal ⟨nat.x, nat.y⟩)
       let clCart : P3 R := ⟨cp.point.x, cp.point.y, startRadius⟩
       let check2d := cartCheck2d ax checkPoint cp.point
       let begin0 := cartBegin0 ax startRadius cp.point
       let s0 : SegState R :=
        { distance := Scalar.inf, newDistance := Scalar.inf, along := Scalar.inf, newAlong := Scalar.inf, newDepthRef := Scalar.inf,
          segment := 0, segmentFraction := 0.0, totalAverageAngle := 0.0, depthRef := 0.0,
          beginSeg := begin0, endSeg := begin0, totalLength := 0.0, addAngle := 0.0, addAngleCorrection := 0.0, averageAngle := 0.0, found := false }
       do
        let s ← segmentLoop coord.depthMethod onlyPositive startRadius cp.fraction check2d angsCur angsNext lensCur lensNext (lensCur.length + 1) 0 s0
        return { distanceFromPlane := s.distance, distanceAlongPlane := s.along,
                 fractionOfSection := if s.found then cp.fraction else 0.0, fractionOfSegment := s.segmentFraction,
                 sectionIdx := if s.found then cp.index else 0, segment := s.segment, averageAngle := s.totalAverageAngle,
                 depthReferenceSurface := s.depthRef, closestTrenchPoint := clCart }) := by
  unfold distancePointFromCurvedPlanes
  simp only [hs, Bool.not_false, if_true, Bool.false_eq_true, if_false, surfacePoint, surface3, CoordSys.toCartesian, hcp, h1, h2, h3, h4, h5, h6,
    hoff, bind, Except.bind, pure, Except.pure]
  rfl

end cartFrame

section cartFrameField
variable {F : Type} [Field F] [LinearOrder F] [IsStrictOrderedRing F] (T : Transc F)

/-- laws of `sqrt` the frame needs -/
structure SqrtLaws (T : Transc F) : Prop where
  sqrt_nonneg : ∀ x, 0 ≤ x → 0 ≤ T.sqrt x
  sqrt_mul_sqrt : ∀ x, 0 ≤ x → T.sqrt x * T.sqrt x = x

theorem SqrtLaws.sqrt_mul_self (L : SqrtLaws T) (x : F) : T.sqrt (x * x) = |x| := by
  have h0 : 0 ≤ x * x := mul_self_nonneg x
  have h1 := L.sqrt_nonneg _ h0
  have h2 := L.sqrt_mul_sqrt _ h0
  have h3 : T.sqrt (x * x) * T.sqrt (x * x) = |x| * |x| := by rw [h2, abs_mul_abs_self]
  exact (mul_self_inj_of_nonneg h1 (abs_nonneg x)).1 h3

/-- what the frame needs of `sqrt`, from the laws -/
theorem SqrtLaws.frame (L : SqrtLaws T) (startRadius d2 : F) (hsr : 0 < startRadius) (hd2 : 0 ≤ d2) :
    T.sqrt (startRadius * startRadius) = startRadius ∧ T.sqrt d2 * T.sqrt d2 = d2 :=
  ⟨by rw [L.sqrt_mul_self T, abs_of_pos hsr], L.sqrt_mul_sqrt d2 hd2⟩

theorem cartSide_pm (reference pFirst pLast cl2d normal q2d : P2 F) :
    @cartSide F (fieldScalar T) reference pFirst pLast cl2d normal q2d = 1 ∨
    @cartSide F (fieldScalar T) reference pFirst pLast cl2d normal q2d = -1 := by
  unfold cartSide
  dsimp only
  split
  · left; exact lit_1 T
  · right; show -(@OfNat.ofNat F 1 (@Scalar.instOfNat F (fieldScalar T) 1)) = -1; rw [lit_1]

theorem ite_beq_decide_congr {α : Type} (p q p' q' : Prop) [Decidable p] [Decidable q] [Decidable p'] [Decidable q'] (a b : α)
    (hp : p ↔ p') (hq : q ↔ q') :
    (if (decide p == decide q) = true then a else b) = (if (decide p' == decide q') = true then a else b) := by
  rw [decide_eq_decide.mpr hp, decide_eq_decide.mpr hq]

/-- the side factor: `+1` when "the check point lies against the curve normal" and "the dip point lies to the right of the trench
direction" are both true or both false (`dref` = distance from the foot to the dip point, assumed positive) -/
theorem cartSide_field (reference pFirst pLast cl2d normal q2d : P2 F)
    (hd : 0 < @P2.distanceTo F (fieldScalar T) false cl2d reference) :
    @cartSide F (fieldScalar T) reference pFirst pLast cl2d normal q2d =
      if (decide ((q2d.x - cl2d.x) * normal.x + (q2d.y - cl2d.y) * normal.y < 0) ==
          decide ((pLast.x - pFirst.x) * (reference.y - pFirst.y) - (reference.x - pFirst.x) * (pLast.y - pFirst.y) < 0)) then 1 else -1 := by
  unfold cartSide
  dsimp only
  refine (ite_beq_decide_congr _ _ ((q2d.x - cl2d.x) * normal.x + (q2d.y - cl2d.y) * normal.y < 0)
    ((pLast.x - pFirst.x) * (reference.y - pFirst.y) - (reference.x - pFirst.x) * (pLast.y - pFirst.y) < 0) _ _ ?_ ?_).trans ?_
  · rw [lit_0_0, lit_1_0]
    show (q2d.x - cl2d.x) * (normal.x * _ * 1 + cl2d.x - cl2d.x) + (q2d.y - cl2d.y) * (normal.y * _ * 1 + cl2d.y - cl2d.y) < 0 ↔ _
    have he : ∀ d : F, (q2d.x - cl2d.x) * (normal.x * d * 1 + cl2d.x - cl2d.x) + (q2d.y - cl2d.y) * (normal.y * d * 1 + cl2d.y - cl2d.y) =
        d * ((q2d.x - cl2d.x) * normal.x + (q2d.y - cl2d.y) * normal.y) := fun d => by ring
    rw [he]
    constructor
    · intro h; by_contra hc; rw [not_lt] at hc
      exact absurd (mul_nonneg hd.le hc) (not_le.mpr h)
    · intro h; exact mul_neg_of_pos_of_neg hd h
  · rw [lit_0_0]
  · rw [lit_1]

/-- the frame and the two plane points: the vertical axis is `(0,0,1)`, the horizontal axis is horizontal; the walk starts at
`(0, startRadius)`; a check point above the surface point `(nat.x, nat.y)` has the plane coordinates
`(−side·‖(nat.x, nat.y) − foot‖, its height)` -/
theorem cartAxes_field (nat : P3 F) (startRadius : F) (cl2d : P2 F) (side z : F) (hsr : 0 < startRadius)
    (hS1 : T.sqrt (startRadius * startRadius) = startRadius)
    (hS2 : T.sqrt ((nat.x - cl2d.x) * (nat.x - cl2d.x) + (nat.y - cl2d.y) * (nat.y - cl2d.y)) *
        T.sqrt ((nat.x - cl2d.x) * (nat.x - cl2d.x) + (nat.y - cl2d.y) * (nat.y - cl2d.y)) =
      (nat.x - cl2d.x) * (nat.x - cl2d.x) + (nat.y - cl2d.y) * (nat.y - cl2d.y))
    (hdpos : 0 < T.sqrt ((nat.x - cl2d.x) * (nat.x - cl2d.x) + (nat.y - cl2d.y) * (nat.y - cl2d.y))) :
    let ax := @cartAxes F (fieldScalar T) nat startRadius cl2d side
    let dist := T.sqrt ((nat.x - cl2d.x) * (nat.x - cl2d.x) + (nat.y - cl2d.y) * (nat.y - cl2d.y))
    ax.2 = ⟨0, 0, 1⟩ ∧ ax.1.z = 0 ∧
    @cartBegin0 F (fieldScalar T) ax startRadius cl2d = ⟨0, startRadius⟩ ∧
    @cartCheck2d F (fieldScalar T) ax ⟨nat.x, nat.y, z⟩ cl2d = ⟨-side * dist, z⟩ := by
  intro ax dist
  have hD : (cl2d.x - nat.x) * (cl2d.x - nat.x) + (cl2d.y - nat.y) * (cl2d.y - nat.y) + (startRadius - startRadius) * (startRadius - startRadius) =
      (nat.x - cl2d.x) * (nat.x - cl2d.x) + (nat.y - cl2d.y) * (nat.y - cl2d.y) := by ring
  have hY : (cl2d.x - cl2d.x) * (cl2d.x - cl2d.x) + (cl2d.y - cl2d.y) * (cl2d.y - cl2d.y) + (startRadius - 0) * (startRadius - 0) =
      startRadius * startRadius := by ring
  have hdd : dist * dist = _ := hS2
  have hn1 : T.sqrt ((cl2d.x - nat.x) * (cl2d.x - nat.x) + (cl2d.y - nat.y) * (cl2d.y - nat.y) +
      (startRadius - startRadius) * (startRadius - startRadius)) = dist := by rw [hD]
  have hax1 : ax.1 = ⟨(cl2d.x - nat.x) * (side / dist), (cl2d.y - nat.y) * (side / dist), (startRadius - startRadius) * (side / dist)⟩ := by
    rw [← hn1]; rfl
  have hn2 : T.sqrt ((cl2d.x - cl2d.x) * (cl2d.x - cl2d.x) + (cl2d.y - cl2d.y) * (cl2d.y - cl2d.y) +
      (startRadius - @OfNat.ofNat F 0 (@Scalar.instOfNat F (fieldScalar T) 0)) * (startRadius - @OfNat.ofNat F 0 (@Scalar.instOfNat F (fieldScalar T) 0))) =
      startRadius := by
    rw [lit_0, hY, hS1]
  have hsr' : startRadius ≠ 0 := ne_of_gt hsr
  have hax2 : ax.2 = ⟨0, 0, 1⟩ := by
    show (⟨(cl2d.x - cl2d.x) * (@OfNat.ofNat F 1 (@Scalar.instOfNat F (fieldScalar T) 1) /
          T.sqrt ((cl2d.x - cl2d.x) * (cl2d.x - cl2d.x) + (cl2d.y - cl2d.y) * (cl2d.y - cl2d.y) +
            (startRadius - @OfNat.ofNat F 0 (@Scalar.instOfNat F (fieldScalar T) 0)) * (startRadius - @OfNat.ofNat F 0 (@Scalar.instOfNat F (fieldScalar T) 0)))),
        (cl2d.y - cl2d.y) * (@OfNat.ofNat F 1 (@Scalar.instOfNat F (fieldScalar T) 1) /
          T.sqrt ((cl2d.x - cl2d.x) * (cl2d.x - cl2d.x) + (cl2d.y - cl2d.y) * (cl2d.y - cl2d.y) +
            (startRadius - @OfNat.ofNat F 0 (@Scalar.instOfNat F (fieldScalar T) 0)) * (startRadius - @OfNat.ofNat F 0 (@Scalar.instOfNat F (fieldScalar T) 0)))),
        (startRadius - @OfNat.ofNat F 0 (@Scalar.instOfNat F (fieldScalar T) 0)) * (@OfNat.ofNat F 1 (@Scalar.instOfNat F (fieldScalar T) 1) /
          T.sqrt ((cl2d.x - cl2d.x) * (cl2d.x - cl2d.x) + (cl2d.y - cl2d.y) * (cl2d.y - cl2d.y) +
            (startRadius - @OfNat.ofNat F 0 (@Scalar.instOfNat F (fieldScalar T) 0)) * (startRadius - @OfNat.ofNat F 0 (@Scalar.instOfNat F (fieldScalar T) 0))))⟩ : P3 F) = _
    rw [hn2, lit_0, lit_1]
    congr 1
    · ring
    · ring
    · rw [sub_zero, mul_one_div, div_self hsr']
  have hne' : dist ≠ 0 := ne_of_gt hdpos
  refine ⟨hax2, ?_, ?_, ?_⟩
  · rw [hax1]; show (startRadius - startRadius) * (side / dist) = 0; ring
  · unfold cartBegin0
    rw [hax1, hax2]
    show (⟨(cl2d.x - nat.x) * (side / dist) * (cl2d.x - cl2d.x) + (cl2d.y - nat.y) * (side / dist) * (cl2d.y - cl2d.y) +
        (startRadius - startRadius) * (side / dist) * (startRadius - @OfNat.ofNat F 0 (@Scalar.instOfNat F (fieldScalar T) 0)),
      (0 : F) * (cl2d.x - cl2d.x) + 0 * (cl2d.y - cl2d.y) + 1 * (startRadius - @OfNat.ofNat F 0 (@Scalar.instOfNat F (fieldScalar T) 0))⟩ : P2 F) = _
    rw [lit_0]
    congr 1 <;> ring
  · unfold cartCheck2d
    rw [hax1, hax2]
    show (⟨(cl2d.x - nat.x) * (side / dist) * (nat.x - cl2d.x) + (cl2d.y - nat.y) * (side / dist) * (nat.y - cl2d.y) +
        (startRadius - startRadius) * (side / dist) * (z - @OfNat.ofNat F 0 (@Scalar.instOfNat F (fieldScalar T) 0)),
      (0 : F) * (nat.x - cl2d.x) + 0 * (nat.y - cl2d.y) + 1 * (z - @OfNat.ofNat F 0 (@Scalar.instOfNat F (fieldScalar T) 0))⟩ : P2 F) = _
    rw [lit_0]
    congr 1
    · have h1 : (cl2d.x - nat.x) * (side / dist) * (nat.x - cl2d.x) + (cl2d.y - nat.y) * (side / dist) * (nat.y - cl2d.y) +
          (startRadius - startRadius) * (side / dist) * (z - 0) = -(side / dist) * (dist * dist) := by
        rw [hdd]; ring
      rw [h1]
      field_simp
    · ring

end cartFrameField

end Gwb
