/-
Helpers for C08, part 9: a common longitude offset in the general case (the offset may carry a feature across the ±π meridian, the
query longitude is re-normalised to `(−π, π]`) for the three kernels that were repaired upstream: the bounding box, the ridge kernel
and the plume footprint.
-/
import GwbVerif.Proofs.MotionSurface
import GwbVerif.Proofs.MotionRidge
import GwbVerif.Proofs.MotionPlume
import GwbVerif.Proofs.MotionRot
import GwbVerif.Proofs.MotionWitness
import GwbVerif.Proofs.Plume
namespace Gwb
open Scalar
set_option linter.unusedSectionVars false

section field
variable {F : Type} [Field F] [LinearOrder F] [IsStrictOrderedRing F] (T : Transc F)

/-! ### (A) bounding box -/

/-- the tolerance-enlarged longitude bounds that `BBox.insideImpl · · ε` really tests -/
def BBox.loX (b : BBox F) : F := b.lo.x - T.eps * |b.hi.x - b.lo.x|
def BBox.hiX (b : BBox F) : F := b.hi.x + T.eps * |b.hi.x - b.lo.x|
/-- the latitude part of the test -/
def BBox.okY (b : BBox F) (y : F) : Prop :=
  b.lo.y - T.eps * |b.hi.y - b.lo.y| ≤ y ∧ y ≤ b.hi.y + T.eps * |b.hi.y - b.lo.y|

theorem BBox.insideImpl_iff (b : BBox F) (p : P2 F) :
    @BBox.insideImpl F (fieldScalar T) b p T.eps = true ↔ (b.loX T ≤ p.x ∧ p.x ≤ b.hiX T) ∧ b.okY T p.y := by
  unfold BBox.insideImpl BBox.loX BBox.hiX BBox.okY
  simp only [fabs_eq_abs, Bool.and_eq_true, Bool.not_eq_true', Bool.or_eq_false_iff, decide_eq_false_iff_not, not_lt, gt_iff_lt]

theorem BBox.loX_shift (d : F) (b : BBox F) : (b.shift ⟨d, 0⟩).loX T = b.loX T + d := by
  unfold BBox.loX BBox.shift; simp only [P2.shift_x, sub_shift_cancel]; ring
theorem BBox.hiX_shift (d : F) (b : BBox F) : (b.shift ⟨d, 0⟩).hiX T = b.hiX T + d := by
  unfold BBox.hiX BBox.shift; simp only [P2.shift_x, sub_shift_cancel]; ring
theorem BBox.okY_shift (d : F) (b : BBox F) (y : F) : (b.shift ⟨d, 0⟩).okY T y ↔ b.okY T y := by
  unfold BBox.okY BBox.shift; simp only [P2.shift_y, add_zero]

/-- the spherical wrapper tries the representations `k = 0, 1, −1` of the query longitude -/
theorem BBox.inside_spherical_iff_three (b : BBox F) (p : P2 F) :
    @BBox.inside F (fieldScalar T) b true p = true ↔
      ((b.loX T ≤ p.x ∧ p.x ≤ b.hiX T) ∨ (b.loX T ≤ p.x + 2 * T.pi ∧ p.x + 2 * T.pi ≤ b.hiX T) ∨
        (b.loX T ≤ p.x - 2 * T.pi ∧ p.x - 2 * T.pi ≤ b.hiX T)) ∧ b.okY T p.y := by
  unfold BBox.inside
  simp only [if_true, Bool.or_eq_true]
  have e : @Scalar.eps F (fieldScalar T) = T.eps := rfl
  have ep : @Scalar.pi F (fieldScalar T) = T.pi := rfl
  rw [e, ep, lit_two_dec, BBox.insideImpl_iff, BBox.insideImpl_iff, BBox.insideImpl_iff]
  constructor
  · rintro ((⟨h, hy⟩ | ⟨h, hy⟩) | ⟨h, hy⟩)
    · exact ⟨Or.inl h, hy⟩
    · exact ⟨Or.inr (Or.inl h), hy⟩
    · exact ⟨Or.inr (Or.inr h), hy⟩
  · rintro ⟨h | h | h, hy⟩
    · exact Or.inl (Or.inl ⟨h, hy⟩)
    · exact Or.inl (Or.inr ⟨h, hy⟩)
    · exact Or.inr ⟨h, hy⟩

/-- **the spherical bounding-box test tries every representation that can matter**: for a canonical query longitude `L ∈ (−π, π]`
and a box whose tolerance-enlarged longitude bounds satisfy `−3π < lo` and `hi ≤ 3π`, it answers "inside" iff SOME representation
`L + 2πk` (any integer `k`) lies within the enlarged bounds -/
theorem BBox.inside_spherical_iff (hπ : 0 < T.pi) (b : BBox F) (p : P2 F) (hlo : -T.pi < p.x) (hhi : p.x ≤ T.pi)
    (hL : -(3 * T.pi) < b.loX T) (hH : b.hiX T ≤ 3 * T.pi) :
    @BBox.inside F (fieldScalar T) b true p = true ↔
      (∃ k : ℤ, b.loX T ≤ p.x + 2 * T.pi * k ∧ p.x + 2 * T.pi * k ≤ b.hiX T) ∧ b.okY T p.y := by
  rw [BBox.inside_spherical_iff_three]
  apply and_congr_left
  intro _
  constructor
  · rintro (h | h | h)
    · exact ⟨0, by simpa using h⟩
    · exact ⟨1, by simpa using h⟩
    · refine ⟨-1, ?_⟩
      have : p.x + 2 * T.pi * ((-1 : ℤ) : F) = p.x - 2 * T.pi := by push_cast; ring
      rw [this]; exact h
  · rintro ⟨k, h1, h2⟩
    have hk0 : (-2 : ℤ) < k := by
      apply int_lt_of_two_pi_mul_lt hπ
      push_cast; linarith
    have hk1 : k < (2 : ℤ) := by
      apply int_lt_of_two_pi_mul_lt hπ
      push_cast; linarith
    have : k = 0 ∨ k = 1 ∨ k = -1 := by omega
    rcases this with rfl | rfl | rfl
    · left; simpa using And.intro h1 h2
    · right; left; simpa using And.intro h1 h2
    · right; right
      have : p.x + 2 * T.pi * ((-1 : ℤ) : F) = p.x - 2 * T.pi := by push_cast; ring
      rw [this] at h1 h2; exact ⟨h1, h2⟩

/-- **common longitude offset, general case, bounding box**: the box is offset by `d`; the canonical query longitude `L ∈ (−π, π]`
becomes any canonical representation `L' = L + d + 2πj`; the enlarged bounds of both boxes lie in `(−3π, 3π]`.  Same verdict. -/
theorem BBox.inside_lon_offset_general (hπ : 0 < T.pi) (b : BBox F) (d : F) (p p' : P2 F) (j : ℤ)
    (hlo : -T.pi < p.x) (hhi : p.x ≤ T.pi) (hlo' : -T.pi < p'.x) (hhi' : p'.x ≤ T.pi)
    (hrel : p'.x = p.x + d + 2 * T.pi * j) (hy : p'.y = p.y)
    (hL : -(3 * T.pi) < b.loX T) (hH : b.hiX T ≤ 3 * T.pi)
    (hL' : -(3 * T.pi) < b.loX T + d) (hH' : b.hiX T + d ≤ 3 * T.pi) :
    @BBox.inside F (fieldScalar T) (b.shift ⟨d, 0⟩) true p' = @BBox.inside F (fieldScalar T) b true p := by
  have h1 := BBox.inside_spherical_iff T hπ (b.shift ⟨d, 0⟩) p' hlo' hhi' (by rw [BBox.loX_shift]; exact hL')
    (by rw [BBox.hiX_shift]; exact hH')
  have h2 := BBox.inside_spherical_iff T hπ b p hlo hhi hL hH
  have h3 : ((∃ k : ℤ, (b.shift ⟨d, 0⟩).loX T ≤ p'.x + 2 * T.pi * k ∧ p'.x + 2 * T.pi * k ≤ (b.shift ⟨d, 0⟩).hiX T) ∧
      (b.shift ⟨d, 0⟩).okY T p'.y) ↔ ((∃ k : ℤ, b.loX T ≤ p.x + 2 * T.pi * k ∧ p.x + 2 * T.pi * k ≤ b.hiX T) ∧ b.okY T p.y) := by
    rw [BBox.loX_shift, BBox.hiX_shift, BBox.okY_shift, hy, hrel]
    apply and_congr_left
    intro _
    constructor
    · rintro ⟨k, h1, h2⟩
      refine ⟨j + k, ?_, ?_⟩ <;> push_cast <;> linarith
    · rintro ⟨k, h1, h2⟩
      refine ⟨k - j, ?_, ?_⟩ <;> push_cast <;> linarith
  have : (@BBox.inside F (fieldScalar T) (b.shift ⟨d, 0⟩) true p' = true) ↔ (@BBox.inside F (fieldScalar T) b true p = true) := by
    rw [h1, h2, h3]
  cases hA : @BBox.inside F (fieldScalar T) (b.shift ⟨d, 0⟩) true p' <;>
    cases hB : @BBox.inside F (fieldScalar T) b true p <;> simp_all

/-! ### (C) the ridge kernel -/

/-- the great-circle distance only sees the longitude DIFFERENCE: both longitudes offset by `d` (the first one possibly
re-normalised: only `sin`, `cos` of it matter) -/
theorem distanceSameDepth_lon (hA : AngleAddLaws T) (r1 L1 L1' lat1 r2 L2 lat2 d : F)
    (hs : T.sin L1' = T.sin (L1 + d)) (hc : T.cos L1' = T.cos (L1 + d)) :
    @distanceSameDepth F (fieldScalar T) true ⟨r1, L1', lat1⟩ ⟨r2, L2 + d, lat2⟩ =
      @distanceSameDepth F (fieldScalar T) true ⟨r1, L1, lat1⟩ ⟨r2, L2, lat2⟩ := by
  have hdot : @P3.dot F (fieldScalar T) (@sphericalToCartesian F (fieldScalar T) ⟨r1, L1', lat1⟩)
        (@sphericalToCartesian F (fieldScalar T) ⟨r2, L2 + d, lat2⟩) =
      @P3.dot F (fieldScalar T) (@sphericalToCartesian F (fieldScalar T) ⟨r1, L1, lat1⟩)
        (@sphericalToCartesian F (fieldScalar T) ⟨r2, L2, lat2⟩) := by
    unfold sphericalToCartesian P3.dot
    show _ * T.cos L1' * (_ * T.cos (L2 + d)) + _ * T.sin L1' * (_ * T.sin (L2 + d)) + _ =
      _ * T.cos L1 * (_ * T.cos L2) + _ * T.sin L1 * (_ * T.sin L2) + _
    rw [hs, hc, hA.sin_add, hA.cos_add, hA.sin_add, hA.cos_add]
    have h1 := hA.sin_sq_add_cos_sq d
    generalize T.sin d = sd at *
    generalize T.cos d = cd at *
    linear_combination
      (r1 * T.sin (@OfScientific.ofScientific F (@Scalar.instOfScientific F (fieldScalar T)) 5 true 1 * T.pi - lat1) *
        (r2 * T.sin (@OfScientific.ofScientific F (@Scalar.instOfScientific F (fieldScalar T)) 5 true 1 * T.pi - lat2)) *
        (T.cos L1 * T.cos L2 + T.sin L1 * T.sin L2)) * h1
  unfold distanceSameDepth
  simp only [if_true]
  rw [hdot]

/-- the copy of the query used by the ridge kernel for a feature at longitude `m`: the closer one of `check`, `other` (ties: `check`) -/
noncomputable def lonPick (check other : P2 F) (m : F) : P2 F := if |other.x - m| < |check.x - m| then other else check

/-- **the reach hypothesis**: one of the TWO descriptions of the query longitude that the kernel tries (`L`, and `L + 2π` for `L < 0`,
`L − 2π` for `L ≥ 0`) lies within `π` (strictly: no tie) of the feature longitude `m` -/
def LonReach (p : P2 F) (m : F) : Prop := |p.x - m| < T.pi ∨ |(@otherPoint F (fieldScalar T) p).x - m| < T.pi

/-- under `LonReach` the picked copy is THE description of the query within `π` of `m` -/
theorem lonPick_spec (hπ : 0 < T.pi) (p : P2 F) (m : F) (h : LonReach T p m) :
    |(lonPick p (@otherPoint F (fieldScalar T) p) m).x - m| < T.pi ∧
    (lonPick p (@otherPoint F (fieldScalar T) p) m).y = p.y ∧
    ∃ k : ℤ, (lonPick p (@otherPoint F (fieldScalar T) p) m).x = p.x + 2 * T.pi * k := by
  have hox := otherPoint_x T p
  have hdiff : |(@otherPoint F (fieldScalar T) p).x - p.x| = 2 * T.pi := by
    rw [hox]
    split
    · rw [show p.x + 2 * T.pi - p.x = 2 * T.pi by ring, abs_of_pos (by positivity)]
    · rw [show p.x + -2 * T.pi - p.x = -(2 * T.pi) by ring, abs_neg, abs_of_pos (by positivity)]
  have htri : 2 * T.pi ≤ |(@otherPoint F (fieldScalar T) p).x - m| + |p.x - m| := by
    rw [← hdiff]
    have := abs_sub_le (@otherPoint F (fieldScalar T) p).x m p.x
    rw [abs_sub_comm m p.x] at this
    exact this
  unfold lonPick
  rcases h with h | h
  · rw [if_neg (by intro hlt; linarith)]
    exact ⟨h, rfl, 0, by simp⟩
  · rw [if_pos (by linarith)]
    refine ⟨h, rfl, ?_⟩
    rw [hox]
    split
    · exact ⟨1, by simp⟩
    · exact ⟨-1, by push_cast; ring⟩

/-- two descriptions of the same longitude within `π` of `m` coincide -/
theorem alias_unique (hπ : 0 < T.pi) (x m : F) (k k' : ℤ) (h : |x + 2 * T.pi * k - m| < T.pi) (h' : |x + 2 * T.pi * k' - m| < T.pi) :
    k = k' := by
  rw [abs_lt] at h h'
  have h1 : k < k' + 1 := by
    apply int_lt_of_two_pi_mul_lt hπ
    push_cast; linarith [h.1, h'.2]
  have h2 : k' < k + 1 := by
    apply int_lt_of_two_pi_mul_lt hπ
    push_cast; linarith [h.2, h'.1]
  omega

/-- **the picked copy follows a common longitude offset**, also across the `±π` meridian -/
theorem lonPick_lon_offset (hπ : 0 < T.pi) (d : F) (p p' : P2 F) (j : ℤ) (m : F)
    (hrel : p'.x = p.x + d + 2 * T.pi * j) (hy : p'.y = p.y)
    (h : LonReach T p m) (h' : LonReach T p' (m + d)) :
    lonPick p' (@otherPoint F (fieldScalar T) p') (m + d) = P2.shift ⟨d, 0⟩ (lonPick p (@otherPoint F (fieldScalar T) p) m) := by
  obtain ⟨a1, a2, k, a3⟩ := lonPick_spec T hπ p m h
  obtain ⟨b1, b2, k', b3⟩ := lonPick_spec T hπ p' (m + d) h'
  generalize lonPick p (@otherPoint F (fieldScalar T) p) m = a at *
  generalize lonPick p' (@otherPoint F (fieldScalar T) p') (m + d) = b at *
  have hk : k = j + k' := by
    apply alias_unique T hπ p.x m
    · rw [← a3]; exact a1
    · rw [b3, hrel] at b1
      have : p.x + d + 2 * T.pi * (j : F) + 2 * T.pi * (k' : F) - (m + d) = p.x + 2 * T.pi * ((j + k' : ℤ) : F) - m := by
        push_cast; ring
      rw [this] at b1; exact b1
  cases a; cases b
  simp only [P2.shift, P2.mk.injEq, add_zero] at *
  refine ⟨?_, by rw [b2, hy, a2]⟩
  rw [b3, a3, hrel, hk]; push_cast; ring

/-- `LonReach` from ranges: a canonical query longitude reaches every feature longitude in `(−π, π)`, a negative one those in
`(−π, 2π]`, a non-negative one those in `[−2π, π)` -/
theorem lonReach_of_range (p : P2 F) (m : F) (hlo : -T.pi < p.x) (hhi : p.x ≤ T.pi)
    (h : (p.x < 0 ∧ -T.pi < m ∧ m ≤ 2 * T.pi) ∨ (0 ≤ p.x ∧ -(2 * T.pi) ≤ m ∧ m < T.pi))
    (hnt : ∀ k : ℤ, |p.x + 2 * T.pi * k - m| ≠ T.pi) : LonReach T p m := by
  unfold LonReach
  rw [otherPoint_x]
  have t0 := hnt 0
  have t1 := hnt 1
  have t2 := hnt (-1)
  simp only [Int.cast_zero, mul_zero, add_zero, Int.cast_one, mul_one, Int.cast_neg] at t0 t1 t2
  rcases h with ⟨hn, h1, h2⟩ | ⟨hn, h1, h2⟩
  · rw [if_pos hn]
    by_cases hc : m < p.x + T.pi
    · left; rw [abs_lt]; constructor <;> linarith
    · right
      have hc' : p.x + T.pi ≤ m := not_lt.mp hc
      have : |p.x + 2 * T.pi - m| ≤ T.pi := by rw [abs_le]; constructor <;> linarith
      exact lt_of_le_of_ne this t1
  · rw [if_neg (not_lt.mpr hn)]
    by_cases hc : p.x - T.pi < m
    · left; rw [abs_lt]; constructor <;> linarith
    · right
      have hc' : m ≤ p.x - T.pi := not_lt.mp hc
      have e : p.x + -2 * T.pi - m = p.x + 2 * T.pi * -1 - m := by ring
      have : |p.x + -2 * T.pi - m| ≤ T.pi := by rw [abs_le]; constructor <;> linarith
      rw [e] at this ⊢
      exact lt_of_le_of_ne this t2

/-- what one segment contributes for the copy `a` of the query: distance to the foot point, interpolated spreading and subducting
velocity -/
noncomputable def segRes (nat : P3 F) (s0 s1 : P2 F) (v0 v1 sub0 sub1 : F) (a : P2 F) : F × F × F :=
  let t := @segClosest F (fieldScalar T) s0 s1 v0 v1 sub0 sub1 sub1 a
  (@distanceSameDepth F (fieldScalar T) true nat ⟨nat.x, t.1.x, t.1.y⟩, t.2.1, t.2.2)

/-- the running minimum of the segment loop -/
def ridgeUpdate (first : Bool) (r : F × F × F) (acc : RidgeAcc F) : RidgeAcc F :=
  if first ∨ r.1 < acc.distance then { acc with distance := r.1, spreading := r.2.1, subducting := r.2.2 } else acc

theorem lit_half_dec : @OfScientific.ofScientific F (@Scalar.instOfScientific F (fieldScalar T)) 5 true 1 = (1 / 2 : F) := by
  show ((OfScientific.ofScientific 5 true 1 : ℚ) : F) = 1 / 2
  norm_num

/-- one segment, spherical: the copy of the query closer in longitude to the segment's mid longitude is projected (since upstream
'fix: far copy of the query took the spreading velocity as subducting velocity' both copies are treated by the same code) -/
theorem ridgeSegment_spherical (nat : P3 F) (check other s0 s1 : P2 F) (v0 v1 sub0 sub1 : F) (first : Bool) (acc : RidgeAcc F) :
    @ridgeSegment F (fieldScalar T) true nat check other s0 s1 v0 v1 sub0 sub1 first acc =
      ridgeUpdate first (segRes T nat s0 s1 v0 v1 sub0 sub1 (lonPick check other (1 / 2 * (s0.x + s1.x)))) acc := by
  rw [@ridgeSegment_eq F (fieldScalar T)]
  simp only [if_true, depthCoordinate, fabs_eq_abs, lit_half_dec]
  unfold ridgeUpdate segRes lonPick
  split <;> rfl

/-- the query's natural coordinates `(r, lon, lat)` with another description of the longitude -/
def P3.withLon (n : P3 F) (L : F) : P3 F := ⟨n.x, L, n.z⟩

/-- segment, copy of the query and the query's own longitude offset by `d` (the latter possibly re-normalised): same contribution -/
theorem segRes_lon (hA : AngleAddLaws T) (d : F) (nat : P3 F) (L' : F) (hs : T.sin L' = T.sin (nat.y + d))
    (hc : T.cos L' = T.cos (nat.y + d)) (s0 s1 : P2 F) (v0 v1 sub0 sub1 : F) (a : P2 F) :
    segRes T (nat.withLon L') (P2.shift ⟨d, 0⟩ s0) (P2.shift ⟨d, 0⟩ s1) v0 v1 sub0 sub1 (P2.shift ⟨d, 0⟩ a) =
      segRes T nat s0 s1 v0 v1 sub0 sub1 a := by
  unfold segRes
  simp only [segClosest_shift, P3.withLon, P2.shift_x, P2.shift_y, add_zero]
  rw [distanceSameDepth_lon T hA nat.x nat.y L' nat.z nat.x _ _ d hs hc]

/-- **one segment under a common longitude offset** (the whole running minimum): the mid longitude of the segment is reached in both
frames -/
theorem ridgeSegment_lon_offset (hπ : 0 < T.pi) (hA : AngleAddLaws T) (d : F) (nat : P3 F) (p' : P2 F) (j : ℤ)
    (hrel : p'.x = nat.y + d + 2 * T.pi * j) (hy : p'.y = nat.z)
    (hs : T.sin p'.x = T.sin (nat.y + d)) (hc : T.cos p'.x = T.cos (nat.y + d))
    (s0 s1 : P2 F) (v0 v1 sub0 sub1 : F) (first : Bool) (acc : RidgeAcc F)
    (h : LonReach T ⟨nat.y, nat.z⟩ (1 / 2 * (s0.x + s1.x))) (h' : LonReach T p' (1 / 2 * (s0.x + s1.x) + d)) :
    @ridgeSegment F (fieldScalar T) true (nat.withLon p'.x) p' (@otherPoint F (fieldScalar T) p') (P2.shift ⟨d, 0⟩ s0)
        (P2.shift ⟨d, 0⟩ s1) v0 v1 sub0 sub1 first acc =
      @ridgeSegment F (fieldScalar T) true nat ⟨nat.y, nat.z⟩ (@otherPoint F (fieldScalar T) ⟨nat.y, nat.z⟩) s0 s1 v0 v1 sub0 sub1
        first acc := by
  rw [ridgeSegment_spherical, ridgeSegment_spherical]
  have hmid : 1 / 2 * ((P2.shift ⟨d, 0⟩ s0).x + (P2.shift ⟨d, 0⟩ s1).x) = 1 / 2 * (s0.x + s1.x) + d := by
    simp only [P2.shift_x]; ring
  rw [hmid, lonPick_lon_offset T hπ d ⟨nat.y, nat.z⟩ p' j (1 / 2 * (s0.x + s1.x)) hrel hy h h', segRes_lon T hA d nat p'.x hs hc]

theorem except_ok_bind {ε α β : Type} (a : α) (f : α → Except ε β) : (Except.ok a >>= f) = f a := rfl
theorem except_pure_bind {ε α β : Type} (a : α) (f : α → Except ε β) : ((pure a : Except ε α) >>= f) = f a := rfl
theorem except_bind_assoc {ε α β γ : Type} (x : Except ε α) (f : α → Except ε β) (g : β → Except ε γ) :
    (x >>= f) >>= g = x >>= fun a => f a >>= g := by
  cases x <;> rfl

theorem idx_ok_getElem? {α : Type} {xs : List α} {i : Nat} {v : α} (h : idx xs i = .ok v) : xs[i]? = some v := by
  unfold idx at h
  cases hx : xs[i]? with
  | none => rw [hx] at h; cases h
  | some w => rw [hx] at h; cases h; rfl

/-- every segment's mid longitude of the ridge is reached, in both frames -/
def SegReach (p p' : P2 F) (d : F) (ridge : List (P2 F)) : Prop :=
  ∀ (i : Nat) (s0 s1 : P2 F), ridge[i]? = some s0 → ridge[i + 1]? = some s1 →
    LonReach T p (1 / 2 * (s0.x + s1.x)) ∧ LonReach T p' (1 / 2 * (s0.x + s1.x) + d)

/-- every transform point (first point of a ridge other than the first) is reached, in both frames -/
def TransReach (p p' : P2 F) (d : F) (ridges : List (List (P2 F))) : Prop :=
  ∀ (i : Nat) (r : List (P2 F)) (t0 : P2 F), ridges[i + 1]? = some r → r[0]? = some t0 →
    LonReach T p t0.x ∧ LonReach T p' (t0.x + d)

theorem ridgeSegments_lon_offset (hπ : 0 < T.pi) (hA : AngleAddLaws T) (d : F) (nat : P3 F) (p' : P2 F) (j : ℤ)
    (hrel : p'.x = nat.y + d + 2 * T.pi * j) (hy : p'.y = nat.z)
    (hs : T.sin p'.x = T.sin (nat.y + d)) (hc : T.cos p'.x = T.cos (nat.y + d))
    (ridge : List (P2 F)) (vels : List F) (subVels : Option (List F)) (sub00 : F)
    (hreach : SegReach T ⟨nat.y, nat.z⟩ p' d ridge) (fuel i : Nat) (acc : RidgeAcc F) :
    @ridgeSegments F (fieldScalar T) true (nat.withLon p'.x) p' (@otherPoint F (fieldScalar T) p')
        (ridge.map (P2.shift ⟨d, 0⟩)) vels subVels sub00 fuel i acc =
      @ridgeSegments F (fieldScalar T) true nat ⟨nat.y, nat.z⟩
        (@otherPoint F (fieldScalar T) ⟨nat.y, nat.z⟩) ridge vels subVels sub00 fuel i acc := by
  induction fuel generalizing i acc with
  | zero => rfl
  | succ m ih =>
    unfold ridgeSegments
    simp only [List.length_map, idx_map, Except.map_bind_eq]
    split
    · cases h0 : idx ridge i with
      | error e => rfl
      | ok s0 =>
        cases h1 : idx ridge (i + 1) with
        | error e => rfl
        | ok s1 =>
          obtain ⟨r1, r2⟩ := hreach i s0 s1 (idx_ok_getElem? h0) (idx_ok_getElem? h1)
          cases idx vels i with
          | error e => rfl
          | ok v0 =>
            cases idx vels (i + 1) with
            | error e => rfl
            | ok v1 =>
              cases subVels with
              | none =>
                simp only [except_ok_bind]
                rw [ridgeSegment_lon_offset T hπ hA d nat p' j hrel hy hs hc s0 s1 v0 v1 sub00 sub00 (i == 0) acc r1 r2]
                exact ih (i + 1) _
              | some sv =>
                simp only [except_bind_assoc]
                cases idx sv i with
                | error e => rfl
                | ok sub0 =>
                  cases idx sv (i + 1) with
                  | error e => rfl
                  | ok sub1 =>
                    simp only [except_ok_bind, except_pure_bind]
                    rw [ridgeSegment_lon_offset T hπ hA d nat p' j hrel hy hs hc s0 s1 v0 v1 sub0 sub1 (i == 0) acc r1 r2]
                    exact ih (i + 1) _
    · rfl

theorem relevantRidge_lon_offset (hπ : 0 < T.pi) (d : F) (p p' : P2 F) (j : ℤ)
    (hrel : p'.x = p.x + d + 2 * T.pi * j) (hy : p'.y = p.y) (ridges : List (List (P2 F)))
    (hreach : TransReach T p p' d ridges) (fuel i : Nat) :
    @relevantRidge F (fieldScalar T) (ridges.map (List.map (P2.shift ⟨d, 0⟩))) p' (@otherPoint F (fieldScalar T) p') fuel i =
      @relevantRidge F (fieldScalar T) ridges p (@otherPoint F (fieldScalar T) p) fuel i := by
  induction fuel generalizing i with
  | zero => rfl
  | succ m ih =>
    unfold relevantRidge
    simp only [List.length_map, idx_map, Except.map_bind_eq]
    split
    · cases h0 : idx ridges (i + 1) with
      | error e => rfl
      | ok rNext =>
        cases idx ridges i with
        | error e => rfl
        | ok rCur =>
          simp only [except_ok_bind]
          cases h1 : idx rNext 0 with
          | error e => rfl
          | ok t0 =>
            cases idx rCur (rCur.length - 1) with
            | error e => rfl
            | ok t1 =>
              cases idx rCur 0 with
              | error e => rfl
              | ok ref =>
                obtain ⟨r1, r2⟩ := hreach i rNext t0 (idx_ok_getElem? h0) (idx_ok_getElem? h1)
                have hp := lonPick_lon_offset T hπ d p p' j t0.x hrel hy r1 r2
                unfold lonPick at hp
                show (if (decide _ == decide _) = true then _ else _) = (if (decide _ == decide _) = true then _ else _)
                simp only [fabs_eq_abs, P2.shift_x, P2.shift_y, add_zero, sub_shift_cancel, hp, ih]
    · rfl

theorem except_bind_congr {ε α β : Type} (x : Except ε α) (f f' : α → Except ε β)
    (h : ∀ a, x = .ok a → f' a = f a) : (x >>= f') = (x >>= f) := by
  cases x with
  | error e => rfl
  | ok a => exact h a rfl

/-- the last step of `ridgeDistanceAndSpreading` -/
noncomputable def ridgeFinish (a : RidgeAcc F) : RidgeParams F :=
  ⟨a.spreading / @secondsInYear F (fieldScalar T), a.distance, a.subducting / @secondsInYear F (fieldScalar T), a.migration⟩

/-- the reach hypotheses of the ridge kernel: every segment mid longitude and every transform point, in both frames -/
structure RidgeReach (p p' : P2 F) (d : F) (ridges : List (List (P2 F))) : Prop where
  seg : ∀ ridge ∈ ridges, SegReach T p p' d ridge
  trans : TransReach T p p' d ridges

/-- **the ridge kernel under a common longitude offset, general case** (all four outputs) -/
theorem ridgeDistanceAndSpreading_lon_offset (hπ : 0 < T.pi) (hP : PeriodLaws T) (hA : AngleAddLaws T) (d : F) (nat : P3 F) (L' : F)
    (j : ℤ) (hrel : L' = nat.y + d + 2 * T.pi * j) (ridges : List (List (P2 F))) (vels : List (List F))
    (subVel : List (List F)) (migr : List F) (hreach : RidgeReach T ⟨nat.y, nat.z⟩ ⟨L', nat.z⟩ d ridges) :
    @ridgeDistanceAndSpreading F (fieldScalar T) true (ridges.map (List.map (P2.shift ⟨d, 0⟩))) vels (nat.withLon L') subVel migr =
      @ridgeDistanceAndSpreading F (fieldScalar T) true ridges vels nat subVel migr := by
  have hs : T.sin L' = T.sin (nat.y + d) := by rw [hrel]; exact hP.sin_int _ j
  have hc : T.cos L' = T.cos (nat.y + d) := by rw [hrel]; exact hP.cos_int _ j
  unfold ridgeDistanceAndSpreading
  have hsp' : @surfacePoint F true (nat.withLon L') = ⟨L', nat.z⟩ := rfl
  have hsp : @surfacePoint F true nat = ⟨nat.y, nat.z⟩ := rfl
  simp only [hsp', hsp, if_true, List.length_map, idx_map, Except.map_bind_eq,
    relevantRidge_lon_offset T hπ d ⟨nat.y, nat.z⟩ ⟨L', nat.z⟩ j hrel rfl ridges hreach.trans]
  refine except_bind_congr _ _ _ (fun r0 _ => ?_)
  refine except_bind_congr _ _ _ (fun rel _ => ?_)
  refine except_bind_congr _ _ _ (fun ridge hr => ?_)
  refine except_bind_congr _ _ _ (fun vs _ => ?_)
  refine except_bind_congr _ _ _ (fun sv0 _ => ?_)
  refine except_bind_congr _ _ _ (fun sub00 _ => ?_)
  refine except_bind_congr _ _ _ (fun subVels _ => ?_)
  refine except_bind_congr _ _ _ (fun migration _ => ?_)
  have hmem : ridge ∈ ridges := List.mem_of_getElem? (idx_ok_getElem? hr)
  rw [ridgeSegments_lon_offset T hπ hA d nat ⟨L', nat.z⟩ j hrel rfl hs hc ridge vs subVels sub00 (hreach.seg ridge hmem)]

/-! #### the offset does not wrap the query longitude: all four outputs -/

theorem ridgeSegment_lon_shift (hA : AngleAddLaws T) (d : F) (nat : P3 F) (check other s0 s1 : P2 F) (v0 v1 sub0 sub1 : F)
    (first : Bool) (acc : RidgeAcc F) :
    @ridgeSegment F (fieldScalar T) true (nat.withLon (nat.y + d)) (P2.shift ⟨d, 0⟩ check) (P2.shift ⟨d, 0⟩ other)
        (P2.shift ⟨d, 0⟩ s0) (P2.shift ⟨d, 0⟩ s1) v0 v1 sub0 sub1 first acc =
      @ridgeSegment F (fieldScalar T) true nat check other s0 s1 v0 v1 sub0 sub1 first acc := by
  rw [ridgeSegment_spherical, ridgeSegment_spherical]
  have hmid : 1 / 2 * ((P2.shift ⟨d, 0⟩ s0).x + (P2.shift ⟨d, 0⟩ s1).x) = 1 / 2 * (s0.x + s1.x) + d := by
    simp only [P2.shift_x]; ring
  have hpick : lonPick (P2.shift ⟨d, 0⟩ check) (P2.shift ⟨d, 0⟩ other) (1 / 2 * (s0.x + s1.x) + d) =
      P2.shift ⟨d, 0⟩ (lonPick check other (1 / 2 * (s0.x + s1.x))) := by
    unfold lonPick
    simp only [P2.shift_x, sub_shift_cancel]
    split <;> rfl
  rw [hmid, hpick, segRes_lon T hA d nat (nat.y + d) rfl rfl]

theorem ridgeSegments_lon_shift (hA : AngleAddLaws T) (d : F) (nat : P3 F) (check other : P2 F) (ridge : List (P2 F)) (vels : List F)
    (subVels : Option (List F)) (sub00 : F) (fuel i : Nat) (acc : RidgeAcc F) :
    @ridgeSegments F (fieldScalar T) true (nat.withLon (nat.y + d)) (P2.shift ⟨d, 0⟩ check) (P2.shift ⟨d, 0⟩ other)
        (ridge.map (P2.shift ⟨d, 0⟩)) vels subVels sub00 fuel i acc =
      @ridgeSegments F (fieldScalar T) true nat check other ridge vels subVels sub00 fuel i acc := by
  induction fuel generalizing i acc with
  | zero => rfl
  | succ m ih =>
    unfold ridgeSegments
    simp only [List.length_map, idx_map, Except.map_bind_eq, ridgeSegment_lon_shift T hA, ih]

/-- **the ridge kernel under a common longitude offset that keeps the sign test of `otherPoint`** (no re-normalisation of the query
longitude): all four outputs -/
theorem ridgeDistanceAndSpreading_lon_shift (hA : AngleAddLaws T) (d : F) (nat : P3 F) (hsign : nat.y + d < 0 ↔ nat.y < 0)
    (ridges : List (List (P2 F))) (vels : List (List F)) (subVel : List (List F)) (migr : List F) :
    @ridgeDistanceAndSpreading F (fieldScalar T) true (ridges.map (List.map (P2.shift ⟨d, 0⟩))) vels (nat.withLon (nat.y + d))
        subVel migr =
      @ridgeDistanceAndSpreading F (fieldScalar T) true ridges vels nat subVel migr := by
  unfold ridgeDistanceAndSpreading
  have hsp : @surfacePoint F true (nat.withLon (nat.y + d)) = P2.shift ⟨d, 0⟩ (@surfacePoint F true nat) := by
    simp only [surfacePoint, P3.withLon, if_true, P2.shift, add_zero]
  have ho : @otherPoint F (fieldScalar T) (P2.shift ⟨d, 0⟩ (@surfacePoint F true nat)) =
      P2.shift ⟨d, 0⟩ (@otherPoint F (fieldScalar T) (@surfacePoint F true nat)) := otherPoint_shift T d _ hsign
  simp only [hsp, ho, if_true, List.length_map, idx_map, Except.map_bind_eq, relevantRidge_shift,
    ridgeSegments_lon_shift T hA]

/-- a single ridge with a single segment, one subducting velocity: the kernel returns the contribution of that segment for the copy
of the query closer in longitude to the segment -/
theorem ridge_one_segment (nat : P3 F) (s0 s1 : P2 F) (v0 v1 sub : F) :
    ∃ r, @ridgeDistanceAndSpreading F (fieldScalar T) true [[s0, s1]] [[v0, v1]] nat [[sub]] [] = .ok r ∧
      (r.distance, r.spreading * @secondsInYear F (fieldScalar T), r.subducting * @secondsInYear F (fieldScalar T)) =
        segRes T nat s0 s1 v0 v1 sub sub
          (lonPick ⟨nat.y, nat.z⟩ (@otherPoint F (fieldScalar T) ⟨nat.y, nat.z⟩) (1 / 2 * (s0.x + s1.x))) := by
  refine ⟨ridgeFinish T (@ridgeSegment F (fieldScalar T) true nat ⟨nat.y, nat.z⟩ (@otherPoint F (fieldScalar T) ⟨nat.y, nat.z⟩)
    s0 s1 v0 v1 sub sub true ⟨T.dblMax, ((0 : ℕ) : F), ((0 : ℕ) : F), ((0 : ℕ) : F)⟩), rfl, ?_⟩
  rw [ridgeSegment_spherical]
  have hsec : @secondsInYear F (fieldScalar T) ≠ 0 := by
    unfold secondsInYear
    show ((OfScientific.ofScientific 600 true 1 : ℚ) : F) * ((OfScientific.ofScientific 600 true 1 : ℚ) : F) *
      ((OfScientific.ofScientific 240 true 1 : ℚ) : F) * ((OfScientific.ofScientific 36525 true 2 : ℚ) : F) ≠ 0
    norm_num
  simp only [ridgeUpdate, ridgeFinish, true_or, if_true]
  rw [div_mul_cancel₀ _ hsec, div_mul_cancel₀ _ hsec]

/-! ### (B) the plume footprint -/

/-- the description of the query longitude chosen for the centre `c`: within `π` of the centre longitude when the canonical
description is at most `3π` away (one step of `2π` suffices) -/
theorem plumeSurfacePoint_spec (c p : P2 F) (hr : |p.x - c.x| ≤ 3 * T.pi) :
    |(@plumeSurfacePoint F (fieldScalar T) true c p).x - c.x| ≤ T.pi ∧ (@plumeSurfacePoint F (fieldScalar T) true c p).y = p.y ∧
    ∃ k : ℤ, (@plumeSurfacePoint F (fieldScalar T) true c p).x = p.x + 2 * T.pi * k := by
  rw [plumeSurfacePoint_field]
  unfold closestAlias
  rw [abs_le] at hr
  simp only [if_true]
  split
  · refine ⟨?_, rfl, -1, by push_cast; ring⟩
    rw [abs_le]; constructor <;> simp only <;> linarith [hr.1, hr.2]
  · split
    · refine ⟨?_, rfl, 1, by push_cast; ring⟩
      rw [abs_le]; constructor <;> simp only <;> linarith [hr.1, hr.2]
    · refine ⟨?_, rfl, 0, by simp⟩
      rw [abs_le]; constructor <;> linarith

/-- **the chosen description follows a common longitude offset**, also across the `±π` meridian (no tie: no description of the query
longitude is exactly `π` away from the centre) -/
theorem plumeSurfacePoint_lon_offset (hπ : 0 < T.pi) (d : F) (c p p' : P2 F) (j : ℤ)
    (hrel : p'.x = p.x + d + 2 * T.pi * j) (hy : p'.y = p.y)
    (hr : |p.x - c.x| ≤ 3 * T.pi) (hr' : |p'.x - (c.x + d)| ≤ 3 * T.pi) (hnt : ∀ k : ℤ, |p.x + 2 * T.pi * k - c.x| ≠ T.pi) :
    @plumeSurfacePoint F (fieldScalar T) true (P2.shift ⟨d, 0⟩ c) p' =
      P2.shift ⟨d, 0⟩ (@plumeSurfacePoint F (fieldScalar T) true c p) := by
  obtain ⟨a1, a2, k, a3⟩ := plumeSurfacePoint_spec T c p hr
  obtain ⟨b1, b2, k', b3⟩ := plumeSurfacePoint_spec T (P2.shift ⟨d, 0⟩ c) p' (by simpa using hr')
  generalize @plumeSurfacePoint F (fieldScalar T) true c p = a at *
  generalize @plumeSurfacePoint F (fieldScalar T) true (P2.shift ⟨d, 0⟩ c) p' = b at *
  simp only [P2.shift_x] at b1
  have e' : b.x - (c.x + d) = p.x + 2 * T.pi * ((j + k' : ℤ) : F) - c.x := by rw [b3, hrel]; push_cast; ring
  have a1' : |p.x + 2 * T.pi * (k : F) - c.x| < T.pi := by
    rw [a3] at a1; exact lt_of_le_of_ne a1 (hnt k)
  have b1' : |p.x + 2 * T.pi * ((j + k' : ℤ) : F) - c.x| < T.pi := by
    rw [e'] at b1; exact lt_of_le_of_ne b1 (hnt (j + k'))
  have hk : k = j + k' := alias_unique T hπ p.x c.x k (j + k') a1' b1'
  cases a; cases b
  simp only [P2.shift, P2.mk.injEq, add_zero] at *
  refine ⟨?_, by rw [b2, hy, a2]⟩
  rw [b3, a3, hrel, hk]; push_cast; ring

theorem plumeTail_lon_offset (hπ : 0 < T.pi) (f : PlumeFeature F) (d depth d0 : F) (p p' : P2 F) (j : ℤ)
    (hrel : p'.x = p.x + d + 2 * T.pi * j) (hy : p'.y = p.y) (sel : P2 F × F × F × F)
    (hr : |p.x - sel.1.x| ≤ 3 * T.pi) (hr' : |p'.x - (sel.1.x + d)| ≤ 3 * T.pi)
    (hnt : ∀ k : ℤ, |p.x + 2 * T.pi * k - sel.1.x| ≠ T.pi) :
    @plumeTail F (fieldScalar T) (f.shift ⟨d, 0⟩) true depth d0 p' (P2.shift ⟨d, 0⟩ sel.1, sel.2) =
      @plumeTail F (fieldScalar T) f true depth d0 p sel := by
  obtain ⟨center, sma, ecc, rot⟩ := sel
  unfold plumeTail
  simp only [plumeSurfacePoint_lon_offset T hπ d center p p' j hrel hy hr hr' hnt, fractionFromEllipseCenter_shift, P2.shift_x,
    P2.shift_y, sub_shift_cancel]
  rfl

/-- **the plume footprint under a common longitude offset, general case**, hypotheses on the centre of the cross-section that is
used at the query depth (`plumeSelect`): both descriptions at most `3π` from the canonical query longitude, no tie -/
theorem PlumeFeature.covers_lon_offset_sel (hπ : 0 < T.pi) (f : PlumeFeature F) (d : F) (ctx : Ctx F) (q q' : Query F) (j : ℤ)
    (hsph : ctx.coord.spherical = true) (hdepth : q'.depth = q.depth)
    (hrel : q'.nat.y = q.nat.y + d + 2 * T.pi * j) (hy : q'.nat.z = q.nat.z)
    (hsel : ∀ up d0 sel, @upperBound F (fieldScalar T) f.depths q.depth (f.depths.length + 1) 0 f.depths.length = .ok up →
      @plumeSelect F (fieldScalar T) f q.depth d0 up = .ok sel →
      |q.nat.y - sel.1.x| ≤ 3 * T.pi ∧ |q'.nat.y - (sel.1.x + d)| ≤ 3 * T.pi ∧ ∀ k : ℤ, |q.nat.y + 2 * T.pi * k - sel.1.x| ≠ T.pi) :
    @PlumeFeature.covers F (fieldScalar T) (f.shift ⟨d, 0⟩) ctx q' = @PlumeFeature.covers F (fieldScalar T) f ctx q := by
  rw [@PlumeFeature.covers_stages F (fieldScalar T), @PlumeFeature.covers_stages F (fieldScalar T), hdepth, hsph]
  simp only [plumeSelect_shift]
  have hd : (f.shift ⟨d, 0⟩).depths = f.depths := rfl
  have hm : (f.shift ⟨d, 0⟩).minDepth = f.minDepth := rfl
  have hc : (f.shift ⟨d, 0⟩).coords = f.coords.map (P2.shift ⟨d, 0⟩) := rfl
  rw [hd, hm, hc]
  rw [idx_map]
  cases hup : @upperBound F (fieldScalar T) f.depths q.depth (f.depths.length + 1) 0 f.depths.length with
  | error e => rfl
  | ok up =>
  rcases idx f.coords 0 with e | c0
  · rfl
  show (if q.depth < f.minDepth then _ else _) = (if q.depth < f.minDepth then _ else _)
  split
  · rfl
  rcases @front F f.depths with e | d0
  · rfl
  show (Except.map (fun sel => (P2.shift ⟨d, 0⟩ sel.1, sel.2)) (@plumeSelect F (fieldScalar T) f q.depth d0 up) >>= _) =
    (@plumeSelect F (fieldScalar T) f q.depth d0 up >>= _)
  cases hs : @plumeSelect F (fieldScalar T) f q.depth d0 up with
  | error e => rfl
  | ok sel =>
    obtain ⟨h1, h2, h3⟩ := hsel up d0 sel hup hs
    exact plumeTail_lon_offset T hπ f d q.depth d0 (surfacePoint true q.nat) (surfacePoint true q'.nat) j hrel hy sel h1 h2 h3

/-- the centre of the cross-section used at the query depth has its longitude within the range of the listed centre longitudes
(it is one of them or a convex combination of two neighbours) -/
theorem plumeSection_center_range (f : PlumeFeature F) (depth d0 : F) (up : Nat) (E : P2 F × F × F × F) (lo hi : F)
    (hS : @PlumeSection F (fieldScalar T) f depth d0 up E) (hrange : ∀ c ∈ f.coords, lo ≤ c.x ∧ c.x ≤ hi)
    (hfrac : ∀ dl dh, up ≠ 0 → f.depths[up - 1]? = some dl → f.depths[up]? = some dh → dl ≤ depth ∧ depth < dh) :
    lo ≤ E.1.x ∧ E.1.x ≤ hi := by
  rcases hS with ⟨_, c, e, r, b, hc, _, _, _, rfl⟩ | ⟨_, _, c, s, e, r, hc, _, _, _, rfl⟩ |
    ⟨h0, _, dl, dh, cl, ch, sl, sh, el, eh, rl, rh, hdl, hdh, hcl, hch, _, _, _, _, _, _, rfl⟩
  · exact hrange c (List.mem_of_getElem? hc)
  · exact hrange c (List.mem_of_getElem? hc)
  · rw [plumeLerpSection_field]
    obtain ⟨f1, f2⟩ := hfrac dl dh h0 hdl hdh
    obtain ⟨t0, t1⟩ := plume_fraction_range dl dh depth f1 f2
    obtain ⟨b1, b2⟩ := lerp_between_ends ((depth - dl) / (dh - dl)) cl.x ch.x t0 t1.le
    obtain ⟨l1, l2⟩ := hrange cl (List.mem_of_getElem? hcl)
    obtain ⟨l3, l4⟩ := hrange ch (List.mem_of_getElem? hch)
    exact ⟨le_trans (le_min l1 l3) b1, le_trans b2 (max_le l2 l4)⟩

/-- **the plume footprint under a common longitude offset, general case**: centre longitudes within `[−2π, 2π]` before and after the
offset `d`, listed depths ascending, canonical query longitudes `L, L' = L + d + 2πj ∈ (−π, π]`, no description of the query longitude
exactly `π` away from the centre of the cross-section used at the query depth: same verdict, same relative distance -/
theorem PlumeFeature.covers_lon_offset (hπ : 0 < T.pi) (f : PlumeFeature F) (d : F) (ctx : Ctx F) (q q' : Query F) (j : ℤ)
    (hsph : ctx.coord.spherical = true) (hdepth : q'.depth = q.depth)
    (hlo : -T.pi < q.nat.y) (hhi : q.nat.y ≤ T.pi) (hlo' : -T.pi < q'.nat.y) (hhi' : q'.nat.y ≤ T.pi)
    (hrel : q'.nat.y = q.nat.y + d + 2 * T.pi * j) (hy : q'.nat.z = q.nat.z)
    (hasc : Ascending f.depths)
    (hrange : ∀ c ∈ f.coords, -(2 * T.pi) ≤ c.x ∧ c.x ≤ 2 * T.pi)
    (hrange' : ∀ c ∈ f.coords, -(2 * T.pi) ≤ c.x + d ∧ c.x + d ≤ 2 * T.pi)
    (hnt : ∀ up d0 sel, @plumeSelect F (fieldScalar T) f q.depth d0 up = .ok sel →
      ∀ k : ℤ, |q.nat.y + 2 * T.pi * k - sel.1.x| ≠ T.pi) :
    @PlumeFeature.covers F (fieldScalar T) (f.shift ⟨d, 0⟩) ctx q' = @PlumeFeature.covers F (fieldScalar T) f ctx q := by
  apply PlumeFeature.covers_lon_offset_sel T hπ f d ctx q q' j hsph hdepth hrel hy
  intro up d0 sel hup hs
  obtain ⟨_, hL, hR⟩ := (upperBound_eq_iff T f.depths hasc q.depth up).mp hup
  have hS := (@plumeSelect_ok_iff F (fieldScalar T) f q.depth d0 up sel).mp hs
  have hfrac : ∀ dl dh, up ≠ 0 → f.depths[up - 1]? = some dl → f.depths[up]? = some dh → dl ≤ q.depth ∧ q.depth < dh :=
    fun dl dh h0 h1 h2 => ⟨hL dl (Nat.pos_of_ne_zero h0) h1, hR dh h2⟩
  obtain ⟨r1, r2⟩ := plumeSection_center_range T f q.depth d0 up sel (-(2 * T.pi)) (2 * T.pi) hS hrange hfrac
  have hr2 : ∀ c ∈ f.coords, -(2 * T.pi) - d ≤ c.x ∧ c.x ≤ 2 * T.pi - d := by
    intro c hc; obtain ⟨a, b⟩ := hrange' c hc; constructor <;> linarith
  obtain ⟨r3, r4⟩ := plumeSection_center_range T f q.depth d0 up sel (-(2 * T.pi) - d) (2 * T.pi - d) hS hr2 hfrac
  refine ⟨?_, ?_, hnt up d0 sel hs⟩
  · rw [abs_le]; constructor <;> linarith
  · rw [abs_le]; constructor <;> linarith

/-- the rule before upstream 'fix: bounding box tried only one longitude alias': the point and `otherPoint` -/
def BBox.insideOld {R : Type} [Scalar R] (b : BBox R) (spherical : Bool) (p : P2 R) : Bool :=
  if spherical then b.insideImpl p Scalar.eps || b.insideImpl (otherPoint p) Scalar.eps else b.insideImpl p Scalar.eps

end field

/-! #### witness: the old single-alias rule is not invariant (`π := 3`) -/

/-- the box with longitudes `[−2π − 0.3, −2π + 0.1]` (`π := 3`) and latitudes `[−1, 1]` -/
def c08Box : BBox ℚ := ⟨⟨-63 / 10, -1⟩, ⟨-59 / 10, 1⟩⟩

/-- the query longitude `−0.005·π`; its representation `−2π − 0.015` lies in the box, but the old rule tried `L` and `L + 2π` only;
after the offset `d = 2π` the box is `[−0.3, 0.1]`, the canonical query longitude is again `−0.015` and the old rule finds it -/
theorem bbox_old_rule_witness :
    @BBox.insideOld ℚ (fieldScalar c08Transc) c08Box true ⟨-15 / 1000, 0⟩ = false ∧
    @BBox.insideOld ℚ (fieldScalar c08Transc) (c08Box.shift ⟨6, 0⟩) true ⟨-15 / 1000, 0⟩ = true ∧
    @BBox.inside ℚ (fieldScalar c08Transc) c08Box true ⟨-15 / 1000, 0⟩ = true ∧
    @BBox.inside ℚ (fieldScalar c08Transc) (c08Box.shift ⟨6, 0⟩) true ⟨-15 / 1000, 0⟩ = true := by
  refine ⟨?_, ?_, ?_, ?_⟩ <;>
  · simp only [BBox.insideOld, BBox.inside, BBox.insideImpl, otherPoint, c08Box, BBox.shift, P2.shift, Scalar.fabs, lit_sci_rat,
      lit_natCast, c08_eps, c08_pi, if_true]
    norm_num

/-! #### witnesses for the ridge kernel (`π := 3`, `sin = 0`, `cos = 1`: periodic, and the addition formulas hold) -/

/-- bundle over `ℚ` with `π := 3` and constant `sin = 0`, `cos = 1`: it satisfies `PeriodLaws` and `AngleAddLaws` -/
def c08Flat : Transc ℚ := { c08Transc with sin := fun _ => 0, cos := fun _ => 1 }

theorem c08Flat_pi : c08Flat.pi = 3 := rfl
theorem c08Flat_periodLaws : PeriodLaws c08Flat := ⟨fun _ => rfl, fun _ => rfl⟩
theorem c08Flat_angleAddLaws : AngleAddLaws c08Flat :=
  ⟨fun _ _ => by simp [c08Flat], fun _ _ => by simp [c08Flat], fun _ => by simp [c08Flat]⟩

theorem otherPoint_flat (p : P2 ℚ) : @otherPoint ℚ (fieldScalar c08Flat) p = ⟨p.x + (if p.x < 0 then 6 else -6), p.y⟩ := by
  have := otherPoint_x c08Flat p
  rw [c08Flat_pi] at this
  cases hq : @otherPoint ℚ (fieldScalar c08Flat) p with
  | mk qx qy =>
    have hy := otherPoint_y c08Flat p
    rw [hq] at this hy
    simp only at this hy
    rw [this, hy]
    norm_num

/-- **in-range longitudes are not enough**.  Ridge `(5,0)–(6,0)` (longitudes `[2π − 1, 2π]`), spreading velocities `1, 2`, query
longitude `1/2`: the description `1/2 + 2π` just east of the ridge is not tried, the kernel projects `1/2` onto the WEST end and
returns its velocity `1`.  Offset `d = −5`: ridge `(0,0)–(1,0)`, canonical query longitude `1/2 − 5 + 2π = 3/2`, projected onto the
EAST end, velocity `2`. -/
theorem ridge_inrange_witness :
    (∃ r, @ridgeDistanceAndSpreading ℚ (fieldScalar c08Flat) true [[⟨5, 0⟩, ⟨6, 0⟩]] [[1, 2]] ⟨1, 1 / 2, 0⟩ [[0]] [] = .ok r ∧
      r.spreading * @secondsInYear ℚ (fieldScalar c08Flat) = 1) ∧
    (∃ r, @ridgeDistanceAndSpreading ℚ (fieldScalar c08Flat) true [[⟨0, 0⟩, ⟨1, 0⟩]] [[1, 2]] ⟨1, 3 / 2, 0⟩ [[0]] [] = .ok r ∧
      r.spreading * @secondsInYear ℚ (fieldScalar c08Flat) = 2) := by
  constructor
  · obtain ⟨r, h1, h2⟩ := ridge_one_segment c08Flat ⟨1, 1 / 2, 0⟩ ⟨5, 0⟩ ⟨6, 0⟩ 1 2 0
    refine ⟨r, h1, ?_⟩
    have := congrArg (fun t => t.2.1) h2
    simp only at this
    rw [this, otherPoint_flat]
    norm_num [segRes, segClosest, lonPick, P2.sub_x', P2.sub_y', abs_of_pos, abs_of_neg]
  · obtain ⟨r, h1, h2⟩ := ridge_one_segment c08Flat ⟨1, 3 / 2, 0⟩ ⟨0, 0⟩ ⟨1, 0⟩ 1 2 0
    refine ⟨r, h1, ?_⟩
    have := congrArg (fun t => t.2.1) h2
    simp only at this
    rw [this, otherPoint_flat]
    norm_num [segRes, segClosest, lonPick, P2.sub_x', P2.sub_y', abs_of_pos, abs_of_neg]

/-- the reach hypotheses hold (both frames) for the ridge `(1,0)–(2,0)`, query longitude `5/2`, offset `d = 2`, re-normalised query
longitude `5/2 + 2 − 2π = −3/2`: `check_point` is used before the offset, `other_check_point = 9/2` after it -/
theorem ridge_reach_example :
    RidgeReach c08Flat ⟨5 / 2, 0⟩ ⟨-3 / 2, 0⟩ 2 [[⟨1, 0⟩, ⟨2, 0⟩]] := by
  constructor
  · intro ridge hr i s0 s1 h0 h1
    simp only [List.mem_cons, List.not_mem_nil, or_false] at hr
    subst hr
    have hi : i = 0 := by
      by_contra hne
      have : ([⟨1, 0⟩, ⟨2, 0⟩] : List (P2 ℚ))[i + 1]? = none := by
        apply List.getElem?_eq_none; simp only [List.length_cons, List.length_nil]; omega
      rw [this] at h1; cases h1
    subst hi
    simp only [List.getElem?_cons_zero, zero_add, List.getElem?_cons_succ, Option.some.injEq] at h0 h1
    subst h0; subst h1
    unfold LonReach
    rw [otherPoint_flat, otherPoint_flat, c08Flat_pi]
    constructor
    · left; norm_num [abs_of_pos]
    · right; norm_num [abs_of_pos]
  · intro i r t0 h
    have : ([[⟨1, 0⟩, ⟨2, 0⟩]] : List (List (P2 ℚ)))[i + 1]? = none := by
      apply List.getElem?_eq_none; simp
    rw [this] at h; cases h

end Gwb
