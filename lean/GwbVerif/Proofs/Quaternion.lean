/-
The quaternion helpers of `include/glm/glm.h` (`quat_cast`, `mat3_cast`, `slerp`, `mix`; model: `quatCast`, `mat3Cast`, `slerp`,
`mix` in `Model/Features/Line.lean`) over an ordered field.

1. `M3.Rot` consequences: the cofactor identities (`row₂ = row₀ × row₁` and cyclic; from `|row₀ × row₁ − row₂|² = 0`), column
   orthonormality, and the eighteen rank-one identities of the symmetric 4×4 matrix `K = 4·q qᵀ` written in the entries of the matrix
   (`K_ww = 1 + tr`, `K_wx = a12 − a21`, `K_xy = a01 + a10`, …).
2. `quatCast_cases`: which of the four branches `quatCast` takes (the FIRST biggest of `fw, fx, fy, fz`), with the explicit quaternion.
3. `mat3Cast_of_products`: a quaternion whose ten products `4·p·q` are the entries of `K` is sent to the matrix by `mat3Cast`;
   `quat_roundtrip_w/x/y/z`, `quat_roundtrip`.
4. `slerp`: the end points in both branches, `mat3Cast (−q) = mat3Cast q`, unit norm in the trigonometric branch, the exact norm in the
   linear branch; `mat3Cast_rot` (unit quaternion ↦ proper rotation) and the exact orthogonality defect of a non-unit quaternion.
5. `quatRealTransc`: the real functions (`Real.sqrt`, `Real.sin`, `Real.cos`, `Real.arccos`) satisfy all assumed laws.
-/
import GwbVerif.Proofs.Rotation
import GwbVerif.Proofs.Models
import GwbVerif.Model.Features.Line
import Mathlib.Analysis.SpecialFunctions.Trigonometric.Inverse
namespace Gwb
open Scalar
set_option linter.unusedSectionVars false
set_option linter.unusedVariables false

section field
variable {F : Type} [Field F] [LinearOrder F] [IsStrictOrderedRing F] (T : Transc F)

/-! ## 1. proper rotations: cofactors, columns, the rank-one identities -/

/-- the consequences of `M3.Rot` used below: the matrix is its own cofactor matrix, and the columns are orthonormal -/
structure M3.RotFull (m : M3 F) : Prop where
  f00 : m.a11 * m.a22 - m.a12 * m.a21 = m.a00
  f01 : -(m.a10 * m.a22 - m.a12 * m.a20) = m.a01
  f02 : m.a10 * m.a21 - m.a11 * m.a20 = m.a02
  f10 : -(m.a01 * m.a22 - m.a02 * m.a21) = m.a10
  f11 : m.a00 * m.a22 - m.a02 * m.a20 = m.a11
  f12 : -(m.a00 * m.a21 - m.a01 * m.a20) = m.a12
  f20 : m.a01 * m.a12 - m.a02 * m.a11 = m.a20
  f21 : -(m.a00 * m.a12 - m.a02 * m.a10) = m.a21
  f22 : m.a00 * m.a11 - m.a01 * m.a10 = m.a22
  c00 : m.a00 * m.a00 + m.a10 * m.a10 + m.a20 * m.a20 = 1
  c01 : m.a00 * m.a01 + m.a10 * m.a11 + m.a20 * m.a21 = 0
  c02 : m.a00 * m.a02 + m.a10 * m.a12 + m.a20 * m.a22 = 0
  c11 : m.a01 * m.a01 + m.a11 * m.a11 + m.a21 * m.a21 = 1
  c12 : m.a01 * m.a02 + m.a11 * m.a12 + m.a21 * m.a22 = 0
  c22 : m.a02 * m.a02 + m.a12 * m.a12 + m.a22 * m.a22 = 1

/-- three squares that add up to zero are zero -/
theorem three_sq_zero (a b c : F) (h : a * a + b * b + c * c = 0) : a = 0 ∧ b = 0 ∧ c = 0 := by
  have ha := mul_self_nonneg a; have hb := mul_self_nonneg b; have hc := mul_self_nonneg c
  refine ⟨mul_self_eq_zero.mp ?_, mul_self_eq_zero.mp ?_, mul_self_eq_zero.mp ?_⟩ <;> linarith

/-- `row₂ = row₀ × row₁`: `|row₀ × row₁ − row₂|² = |row₀|²|row₁|² − (row₀·row₁)² − 2 det + |row₂|² = 0` -/
theorem M3.Rot.cof2 {m : M3 F} (h : m.Rot) :
    m.a01 * m.a12 - m.a02 * m.a11 = m.a20 ∧ -(m.a00 * m.a12 - m.a02 * m.a10) = m.a21 ∧ m.a00 * m.a11 - m.a01 * m.a10 = m.a22 := by
  have hv : (m.a01 * m.a12 - m.a02 * m.a11 - m.a20) * (m.a01 * m.a12 - m.a02 * m.a11 - m.a20)
      + (-(m.a00 * m.a12 - m.a02 * m.a10) - m.a21) * (-(m.a00 * m.a12 - m.a02 * m.a10) - m.a21)
      + (m.a00 * m.a11 - m.a01 * m.a10 - m.a22) * (m.a00 * m.a11 - m.a01 * m.a10 - m.a22) = 0 := by
    linear_combination (m.a10 * m.a10 + m.a11 * m.a11 + m.a12 * m.a12) * h.r00 + h.r11
      - (m.a00 * m.a10 + m.a01 * m.a11 + m.a02 * m.a12 + 0) * h.r01 - 2 * h.det + h.r22
  obtain ⟨h0, h1, h2⟩ := three_sq_zero _ _ _ hv
  exact ⟨by linear_combination h0, by linear_combination h1, by linear_combination h2⟩

/-- `row₀ = row₁ × row₂` -/
theorem M3.Rot.cof0 {m : M3 F} (h : m.Rot) :
    m.a11 * m.a22 - m.a12 * m.a21 = m.a00 ∧ -(m.a10 * m.a22 - m.a12 * m.a20) = m.a01 ∧ m.a10 * m.a21 - m.a11 * m.a20 = m.a02 := by
  have hv : (m.a11 * m.a22 - m.a12 * m.a21 - m.a00) * (m.a11 * m.a22 - m.a12 * m.a21 - m.a00)
      + (-(m.a10 * m.a22 - m.a12 * m.a20) - m.a01) * (-(m.a10 * m.a22 - m.a12 * m.a20) - m.a01)
      + (m.a10 * m.a21 - m.a11 * m.a20 - m.a02) * (m.a10 * m.a21 - m.a11 * m.a20 - m.a02) = 0 := by
    linear_combination (m.a20 * m.a20 + m.a21 * m.a21 + m.a22 * m.a22) * h.r11 + h.r22
      - (m.a10 * m.a20 + m.a11 * m.a21 + m.a12 * m.a22 + 0) * h.r12 - 2 * h.det + h.r00
  obtain ⟨h0, h1, h2⟩ := three_sq_zero _ _ _ hv
  exact ⟨by linear_combination h0, by linear_combination h1, by linear_combination h2⟩

/-- `row₁ = row₂ × row₀` -/
theorem M3.Rot.cof1 {m : M3 F} (h : m.Rot) :
    -(m.a01 * m.a22 - m.a02 * m.a21) = m.a10 ∧ m.a00 * m.a22 - m.a02 * m.a20 = m.a11 ∧ -(m.a00 * m.a21 - m.a01 * m.a20) = m.a12 := by
  have hv : (-(m.a01 * m.a22 - m.a02 * m.a21) - m.a10) * (-(m.a01 * m.a22 - m.a02 * m.a21) - m.a10)
      + (m.a00 * m.a22 - m.a02 * m.a20 - m.a11) * (m.a00 * m.a22 - m.a02 * m.a20 - m.a11)
      + (-(m.a00 * m.a21 - m.a01 * m.a20) - m.a12) * (-(m.a00 * m.a21 - m.a01 * m.a20) - m.a12) = 0 := by
    linear_combination (m.a00 * m.a00 + m.a01 * m.a01 + m.a02 * m.a02) * h.r22 + h.r00
      - (m.a00 * m.a20 + m.a01 * m.a21 + m.a02 * m.a22 + 0) * h.r02 - 2 * h.det + h.r11
  obtain ⟨h0, h1, h2⟩ := three_sq_zero _ _ _ hv
  exact ⟨by linear_combination h0, by linear_combination h1, by linear_combination h2⟩

/-- a proper rotation is its own cofactor matrix and has orthonormal columns (Laplace expansion of `Aᵀ · cof A = det A · I`) -/
theorem M3.Rot.full {m : M3 F} (h : m.Rot) : m.RotFull := by
  obtain ⟨f00, f01, f02⟩ := h.cof0
  obtain ⟨f10, f11, f12⟩ := h.cof1
  obtain ⟨f20, f21, f22⟩ := h.cof2
  refine ⟨f00, f01, f02, f10, f11, f12, f20, f21, f22, ?_, ?_, ?_, ?_, ?_, ?_⟩
  · linear_combination -m.a00 * f00 - m.a10 * f10 - m.a20 * f20 + h.det
  · linear_combination -m.a00 * f01 - m.a10 * f11 - m.a20 * f21
  · linear_combination -m.a00 * f02 - m.a10 * f12 - m.a20 * f22
  · linear_combination -m.a01 * f01 - m.a11 * f11 - m.a21 * f21 + h.det
  · linear_combination -m.a01 * f02 - m.a11 * f12 - m.a21 * f22
  · linear_combination -m.a02 * f02 - m.a12 * f12 - m.a22 * f22 + h.det

/-- the transpose of a proper rotation is a proper rotation -/
theorem M3.Rot.transpose {m : M3 F} (h : m.Rot) : (⟨m.a00, m.a10, m.a20, m.a01, m.a11, m.a21, m.a02, m.a12, m.a22⟩ : M3 F).Rot := by
  have hf := h.full
  exact ⟨hf.c00, hf.c01, hf.c02, hf.c11, hf.c12, hf.c22, by linear_combination h.det⟩

/-- the entries of `K = 4·q qᵀ` written in the matrix entries: `(K_ww, K_xx, K_yy, K_zz, K_wx, K_wy, K_wz, K_xy, K_xz, K_yz)` -/
structure KMat (F : Type) where
  ww : F
  xx : F
  yy : F
  zz : F
  wx : F
  wy : F
  wz : F
  xy : F
  xz : F
  yz : F

def kmat (m : M3 F) : KMat F where
  ww := 1 + (m.a00 + m.a11 + m.a22)
  xx := 1 + (m.a00 - m.a11 - m.a22)
  yy := 1 + (m.a11 - m.a00 - m.a22)
  zz := 1 + (m.a22 - m.a00 - m.a11)
  wx := m.a12 - m.a21
  wy := m.a20 - m.a02
  wz := m.a01 - m.a10
  xy := m.a01 + m.a10
  xz := m.a20 + m.a02
  yz := m.a12 + m.a21

/-- `K` has rank one: all eighteen 2×2 minors that involve a diagonal entry vanish -/
structure KRankOne (k : KMat F) : Prop where
  sq_wx : k.ww * k.xx = k.wx * k.wx
  sq_wy : k.ww * k.yy = k.wy * k.wy
  sq_wz : k.ww * k.zz = k.wz * k.wz
  sq_xy : k.xx * k.yy = k.xy * k.xy
  sq_xz : k.xx * k.zz = k.xz * k.xz
  sq_yz : k.yy * k.zz = k.yz * k.yz
  cr_w_xy : k.ww * k.xy = k.wx * k.wy
  cr_w_xz : k.ww * k.xz = k.wx * k.wz
  cr_w_yz : k.ww * k.yz = k.wy * k.wz
  cr_x_wy : k.xx * k.wy = k.wx * k.xy
  cr_x_wz : k.xx * k.wz = k.wx * k.xz
  cr_x_yz : k.xx * k.yz = k.xy * k.xz
  cr_y_wx : k.yy * k.wx = k.wy * k.xy
  cr_y_wz : k.yy * k.wz = k.wy * k.yz
  cr_y_xz : k.yy * k.xz = k.xy * k.yz
  cr_z_wx : k.zz * k.wx = k.wz * k.xz
  cr_z_wy : k.zz * k.wy = k.wz * k.yz
  cr_z_xy : k.zz * k.xy = k.xz * k.yz

/-- for a proper rotation the matrix `K` has rank one (each identity is a constant-coefficient combination of the orthonormality
and cofactor relations) -/
theorem M3.Rot.kRankOne {m : M3 F} (h0 : m.Rot) : KRankOne (kmat m) := by
  have hf := h0.full
  have h := h0
  constructor <;> simp only [kmat]
  · linear_combination hf.c00 - h.r11 - h.r22 - 2 * hf.f00
  · linear_combination -h.r00 + hf.c11 - h.r22 - 2 * hf.f11
  · linear_combination -hf.c00 - hf.c11 + h.r22 - 2 * hf.f22
  · linear_combination -hf.c00 - hf.c11 + h.r22 + 2 * hf.f22
  · linear_combination -h.r00 + hf.c11 - h.r22 + 2 * hf.f11
  · linear_combination hf.c00 - h.r11 - h.r22 + 2 * hf.f00
  · linear_combination h.r01 + hf.c01 - hf.f01 - hf.f10
  · linear_combination h.r02 + hf.c02 - hf.f02 - hf.f20
  · linear_combination h.r12 + hf.c12 - hf.f12 - hf.f21
  · linear_combination h.r02 - hf.c02 + hf.f02 - hf.f20
  · linear_combination -h.r01 + hf.c01 - hf.f01 + hf.f10
  · linear_combination -h.r12 - hf.c12 - hf.f12 - hf.f21
  · linear_combination -h.r12 + hf.c12 - hf.f12 + hf.f21
  · linear_combination h.r01 - hf.c01 - hf.f01 + hf.f10
  · linear_combination -h.r02 - hf.c02 - hf.f02 - hf.f20
  · linear_combination h.r12 - hf.c12 - hf.f12 + hf.f21
  · linear_combination -h.r02 + hf.c02 + hf.f02 - hf.f20
  · linear_combination -h.r01 - hf.c01 - hf.f01 - hf.f10

/-! ## 2. the four branches of `quatCast` -/

theorem lit_half_q : @OfScientific.ofScientific F (@Scalar.instOfScientific F (fieldScalar T)) 5 true 1 = (1 : F) / 2 := by
  rw [lit_sci]; norm_num
theorem lit_quarter_q : @OfScientific.ofScientific F (@Scalar.instOfScientific F (fieldScalar T)) 25 true 2 = (1 : F) / 4 := by
  rw [lit_sci]; norm_num

/-- the quaternion of the trace branch (`biggestIndex = 0`) -/
def quatW (m : M3 F) : Quat F :=
  let bv := T.sqrt (m.a00 + m.a11 + m.a22 + 1) * (1 / 2)
  ⟨bv, (m.a12 - m.a21) * (1 / 4 / bv), (m.a20 - m.a02) * (1 / 4 / bv), (m.a01 - m.a10) * (1 / 4 / bv)⟩
/-- `biggestIndex = 1` -/
def quatX (m : M3 F) : Quat F :=
  let bv := T.sqrt (m.a00 - m.a11 - m.a22 + 1) * (1 / 2)
  ⟨(m.a12 - m.a21) * (1 / 4 / bv), bv, (m.a01 + m.a10) * (1 / 4 / bv), (m.a20 + m.a02) * (1 / 4 / bv)⟩
/-- `biggestIndex = 2` -/
def quatY (m : M3 F) : Quat F :=
  let bv := T.sqrt (m.a11 - m.a00 - m.a22 + 1) * (1 / 2)
  ⟨(m.a20 - m.a02) * (1 / 4 / bv), (m.a01 + m.a10) * (1 / 4 / bv), bv, (m.a12 + m.a21) * (1 / 4 / bv)⟩
/-- `biggestIndex = 3` -/
def quatZ (m : M3 F) : Quat F :=
  let bv := T.sqrt (m.a22 - m.a00 - m.a11 + 1) * (1 / 2)
  ⟨(m.a01 - m.a10) * (1 / 4 / bv), (m.a20 + m.a02) * (1 / 4 / bv), (m.a12 + m.a21) * (1 / 4 / bv), bv⟩

/-- the branch conditions: the FIRST biggest of `fw, fx, fy, fz` (strict comparisons, in the order w, x, y, z) -/
def BranchW (m : M3 F) : Prop :=
  m.a00 - m.a11 - m.a22 ≤ m.a00 + m.a11 + m.a22 ∧ m.a11 - m.a00 - m.a22 ≤ m.a00 + m.a11 + m.a22 ∧ m.a22 - m.a00 - m.a11 ≤ m.a00 + m.a11 + m.a22
def BranchX (m : M3 F) : Prop :=
  m.a00 + m.a11 + m.a22 < m.a00 - m.a11 - m.a22 ∧ m.a11 - m.a00 - m.a22 ≤ m.a00 - m.a11 - m.a22 ∧ m.a22 - m.a00 - m.a11 ≤ m.a00 - m.a11 - m.a22
def BranchY (m : M3 F) : Prop :=
  m.a00 + m.a11 + m.a22 < m.a11 - m.a00 - m.a22 ∧ m.a00 - m.a11 - m.a22 < m.a11 - m.a00 - m.a22 ∧ m.a22 - m.a00 - m.a11 ≤ m.a11 - m.a00 - m.a22
def BranchZ (m : M3 F) : Prop :=
  m.a00 + m.a11 + m.a22 < m.a22 - m.a00 - m.a11 ∧ m.a00 - m.a11 - m.a22 < m.a22 - m.a00 - m.a11 ∧ m.a11 - m.a00 - m.a22 < m.a22 - m.a00 - m.a11

theorem quatCast_w (m : M3 F) (h : BranchW m) : @quatCast F (fieldScalar T) m = quatW T m := by
  obtain ⟨h1, h2, h3⟩ := h
  unfold quatCast quatW
  simp only [gt_iff_lt, not_lt.mpr h1, not_lt.mpr h2, not_lt.mpr h3, if_false, lit_1 T, lit_half_q T, lit_quarter_q T]
  rfl

theorem quatCast_x (m : M3 F) (h : BranchX m) : @quatCast F (fieldScalar T) m = quatX T m := by
  obtain ⟨h1, h2, h3⟩ := h
  unfold quatCast quatX
  simp only [gt_iff_lt, h1, not_lt.mpr h2, not_lt.mpr h3, if_true, if_false, lit_1 T, lit_half_q T, lit_quarter_q T]
  rfl

theorem quatCast_y (m : M3 F) (h : BranchY m) : @quatCast F (fieldScalar T) m = quatY T m := by
  obtain ⟨h1, h2, h3⟩ := h
  unfold quatCast quatY
  by_cases hx : m.a00 + m.a11 + m.a22 < m.a00 - m.a11 - m.a22
  · simp only [gt_iff_lt, hx, h2, not_lt.mpr h3, if_true, if_false, lit_1 T, lit_half_q T, lit_quarter_q T]
    rfl
  · simp only [gt_iff_lt, hx, h1, not_lt.mpr h3, if_true, if_false, lit_1 T, lit_half_q T, lit_quarter_q T]
    rfl

theorem quatCast_z (m : M3 F) (h : BranchZ m) : @quatCast F (fieldScalar T) m = quatZ T m := by
  obtain ⟨h1, h2, h3⟩ := h
  unfold quatCast quatZ
  by_cases hx : m.a00 + m.a11 + m.a22 < m.a00 - m.a11 - m.a22 <;>
  by_cases hy : m.a00 + m.a11 + m.a22 < m.a11 - m.a00 - m.a22 <;>
  by_cases hy' : m.a00 - m.a11 - m.a22 < m.a11 - m.a00 - m.a22 <;>
  · simp only [gt_iff_lt, hx, hy, hy', h1, h2, h3, if_true, if_false, lit_1 T, lit_half_q T, lit_quarter_q T]
    rfl

/-- exactly one of the four branch conditions holds -/
theorem branch_cases (m : M3 F) : BranchW m ∨ BranchX m ∨ BranchY m ∨ BranchZ m := by
  unfold BranchW BranchX BranchY BranchZ
  rcases lt_or_ge (m.a00 + m.a11 + m.a22) (m.a00 - m.a11 - m.a22) with hx | hx <;>
  rcases lt_or_ge (m.a00 + m.a11 + m.a22) (m.a11 - m.a00 - m.a22) with hy | hy <;>
  rcases lt_or_ge (m.a00 + m.a11 + m.a22) (m.a22 - m.a00 - m.a11) with hz | hz <;>
  rcases lt_or_ge (m.a00 - m.a11 - m.a22) (m.a11 - m.a00 - m.a22) with hxy | hxy <;>
  rcases lt_or_ge (m.a00 - m.a11 - m.a22) (m.a22 - m.a00 - m.a11) with hxz | hxz <;>
  rcases lt_or_ge (m.a11 - m.a00 - m.a22) (m.a22 - m.a00 - m.a11) with hyz | hyz <;>
  first
    | exact Or.inl ⟨hx, hy, hz⟩
    | exact Or.inr (Or.inl ⟨hx, hxy, hxz⟩)
    | exact Or.inr (Or.inr (Or.inl ⟨hy, hxy, hyz⟩))
    | exact Or.inr (Or.inr (Or.inr ⟨hz, hxz, hyz⟩))
    | (exfalso; linarith)

/-! ## 3. the round trip -/

/-- a quaternion whose ten products `4·p·q` are the entries of `K(m)` is sent to `m` by `mat3Cast` (linear in the products) -/
theorem mat3Cast_of_products (q : Quat F) (m : M3 F)
    (hww : 4 * q.w * q.w = (kmat m).ww) (hxx : 4 * q.x * q.x = (kmat m).xx) (hyy : 4 * q.y * q.y = (kmat m).yy)
    (hzz : 4 * q.z * q.z = (kmat m).zz) (hwx : 4 * q.w * q.x = (kmat m).wx) (hwy : 4 * q.w * q.y = (kmat m).wy)
    (hwz : 4 * q.w * q.z = (kmat m).wz) (hxy : 4 * q.x * q.y = (kmat m).xy) (hxz : 4 * q.x * q.z = (kmat m).xz)
    (hyz : 4 * q.y * q.z = (kmat m).yz) : @mat3Cast F (fieldScalar T) q = m := by
  unfold mat3Cast
  simp only [kmat] at *
  simp only [lit_1 T, lit_2 T]
  cases m
  simp only [M3.mk.injEq]
  refine ⟨?_, ?_, ?_, ?_, ?_, ?_, ?_, ?_, ?_⟩
  · linear_combination (-1 / 2 : F) * hyy - (1 / 2 : F) * hzz
  · linear_combination (1 / 2 : F) * hxy + (1 / 2 : F) * hwz
  · linear_combination (1 / 2 : F) * hxz - (1 / 2 : F) * hwy
  · linear_combination (1 / 2 : F) * hxy - (1 / 2 : F) * hwz
  · linear_combination (-1 / 2 : F) * hxx - (1 / 2 : F) * hzz
  · linear_combination (1 / 2 : F) * hyz + (1 / 2 : F) * hwx
  · linear_combination (1 / 2 : F) * hxz + (1 / 2 : F) * hwy
  · linear_combination (1 / 2 : F) * hyz - (1 / 2 : F) * hwx
  · linear_combination (-1 / 2 : F) * hxx - (1 / 2 : F) * hyy

/-- the ten products `4·p·q` of the components of `q` are the entries of `K(m)` -/
structure QProducts (q : Quat F) (m : M3 F) : Prop where
  hww : 4 * q.w * q.w = (kmat m).ww
  hxx : 4 * q.x * q.x = (kmat m).xx
  hyy : 4 * q.y * q.y = (kmat m).yy
  hzz : 4 * q.z * q.z = (kmat m).zz
  hwx : 4 * q.w * q.x = (kmat m).wx
  hwy : 4 * q.w * q.y = (kmat m).wy
  hwz : 4 * q.w * q.z = (kmat m).wz
  hxy : 4 * q.x * q.y = (kmat m).xy
  hxz : 4 * q.x * q.z = (kmat m).xz
  hyz : 4 * q.y * q.z = (kmat m).yz

theorem QProducts.mat3Cast {q : Quat F} {m : M3 F} (h : QProducts q m) : @mat3Cast F (fieldScalar T) q = m :=
  mat3Cast_of_products T q m h.hww h.hxx h.hyy h.hzz h.hwx h.hwy h.hwz h.hxy h.hxz h.hyz

/-- such a quaternion has unit norm: `K_ww + K_xx + K_yy + K_zz = 4` -/
theorem QProducts.unit {q : Quat F} {m : M3 F} (h : QProducts q m) : q.w * q.w + q.x * q.x + q.y * q.y + q.z * q.z = 1 := by
  have h1 := h.hww; have h2 := h.hxx; have h3 := h.hyy; have h4 := h.hzz
  simp only [kmat] at h1 h2 h3 h4
  linear_combination (1 / 4 : F) * h1 + (1 / 4 : F) * h2 + (1 / 4 : F) * h3 + (1 / 4 : F) * h4

/-- the algebra of one branch: `p_i = s/2` with `s² = K_ii`, the others `p_j = K_ij · mult` with `mult · s = 1/2`; the rank-one
identities of `K` give all ten products -/
theorem branch_products (s mult kii kij kik kil kjj kkk kll kjk kjl kkl : F) (hs : s * s = kii) (hm : mult * s = 1 / 2)
    (sq_j : kii * kjj = kij * kij) (sq_k : kii * kkk = kik * kik) (sq_l : kii * kll = kil * kil)
    (cr_jk : kii * kjk = kij * kik) (cr_jl : kii * kjl = kij * kil) (cr_kl : kii * kkl = kik * kil) :
    4 * (s * (1 / 2)) * (s * (1 / 2)) = kii ∧ 4 * (s * (1 / 2)) * (kij * mult) = kij ∧ 4 * (s * (1 / 2)) * (kik * mult) = kik
      ∧ 4 * (s * (1 / 2)) * (kil * mult) = kil ∧ 4 * (kij * mult) * (kij * mult) = kjj ∧ 4 * (kik * mult) * (kik * mult) = kkk
      ∧ 4 * (kil * mult) * (kil * mult) = kll ∧ 4 * (kij * mult) * (kik * mult) = kjk ∧ 4 * (kij * mult) * (kil * mult) = kjl
      ∧ 4 * (kik * mult) * (kil * mult) = kkl := by
  have hs0 : s ≠ 0 := by
    rintro rfl
    rw [mul_zero] at hm
    exact absurd hm (by norm_num)
  have hss : s * s ≠ 0 := mul_ne_zero hs0 hs0
  refine ⟨by linear_combination hs, by linear_combination 2 * kij * hm, by linear_combination 2 * kik * hm,
    by linear_combination 2 * kil * hm, ?_, ?_, ?_, ?_, ?_, ?_⟩
  · apply mul_right_cancel₀ hss
    linear_combination 4 * kij * kij * (mult * s + 1 / 2) * hm - sq_j - kjj * hs
  · apply mul_right_cancel₀ hss
    linear_combination 4 * kik * kik * (mult * s + 1 / 2) * hm - sq_k - kkk * hs
  · apply mul_right_cancel₀ hss
    linear_combination 4 * kil * kil * (mult * s + 1 / 2) * hm - sq_l - kll * hs
  · apply mul_right_cancel₀ hss
    linear_combination 4 * kij * kik * (mult * s + 1 / 2) * hm - cr_jk - kjk * hs
  · apply mul_right_cancel₀ hss
    linear_combination 4 * kij * kil * (mult * s + 1 / 2) * hm - cr_jl - kjl * hs
  · apply mul_right_cancel₀ hss
    linear_combination 4 * kik * kil * (mult * s + 1 / 2) * hm - cr_kl - kkl * hs

/-- `mult · s = 1/2` for `mult = 0.25 / (s · 0.5)` -/
theorem mult_mul (s : F) (hs : s ≠ 0) : 1 / 4 / (s * (1 / 2)) * s = 1 / 2 := by
  field_simp
  norm_num

/-- the only fact about `sqrt` that the round trip needs -/
def SqrtLaw : Prop := ∀ x : F, 0 ≤ x → T.sqrt x * T.sqrt x = x

theorem sqrt_ne_zero (hsq : SqrtLaw T) (x : F) (hx : 0 < x) : T.sqrt x ≠ 0 := by
  intro h0
  have := hsq x hx.le
  rw [h0, mul_zero] at this
  exact absurd this.symm hx.ne'

theorem quat_products_w (hsq : SqrtLaw T) (m : M3 F) (h : m.Rot) (hb : BranchW m) :
    QProducts (quatW T m) m := by
  obtain ⟨h1, h2, h3⟩ := hb
  have hk := h.kRankOne
  have hpos : 0 < m.a00 + m.a11 + m.a22 + 1 := by linarith
  have hs : T.sqrt (m.a00 + m.a11 + m.a22 + 1) * T.sqrt (m.a00 + m.a11 + m.a22 + 1) = (kmat m).ww := by
    rw [hsq _ hpos.le]; simp only [kmat]; ring
  have hm := mult_mul _ (sqrt_ne_zero T hsq _ hpos)
  obtain ⟨p1, p2, p3, p4, p5, p6, p7, p8, p9, p10⟩ :=
    branch_products _ _ _ (kmat m).wx (kmat m).wy (kmat m).wz _ _ _ _ _ _ hs hm hk.sq_wx hk.sq_wy hk.sq_wz hk.cr_w_xy hk.cr_w_xz hk.cr_w_yz
  exact ⟨p1, p5, p6, p7, p2, p3, p4, p8, p9, p10⟩

theorem quat_products_x (hsq : SqrtLaw T) (m : M3 F) (h : m.Rot) (hb : BranchX m) :
    QProducts (quatX T m) m := by
  obtain ⟨h1, h2, h3⟩ := hb
  have hk := h.kRankOne
  have hpos : 0 < m.a00 - m.a11 - m.a22 + 1 := by linarith
  have hs : T.sqrt (m.a00 - m.a11 - m.a22 + 1) * T.sqrt (m.a00 - m.a11 - m.a22 + 1) = (kmat m).xx := by
    rw [hsq _ hpos.le]; simp only [kmat]; ring
  have hm := mult_mul _ (sqrt_ne_zero T hsq _ hpos)
  obtain ⟨p1, p2, p3, p4, p5, p6, p7, p8, p9, p10⟩ :=
    branch_products _ _ _ (kmat m).wx (kmat m).xy (kmat m).xz (kmat m).ww (kmat m).yy (kmat m).zz (kmat m).wy (kmat m).wz (kmat m).yz hs hm
      (by linear_combination hk.sq_wx) hk.sq_xy hk.sq_xz hk.cr_x_wy hk.cr_x_wz hk.cr_x_yz
  refine ⟨p5, p1, p6, p7, ?_, p8, p9, p3, p4, p10⟩
  simp only [quatX, kmat] at p2 ⊢; linear_combination p2

theorem quat_products_y (hsq : SqrtLaw T) (m : M3 F) (h : m.Rot) (hb : BranchY m) :
    QProducts (quatY T m) m := by
  obtain ⟨h1, h2, h3⟩ := hb
  have hk := h.kRankOne
  have hpos : 0 < m.a11 - m.a00 - m.a22 + 1 := by linarith
  have hs : T.sqrt (m.a11 - m.a00 - m.a22 + 1) * T.sqrt (m.a11 - m.a00 - m.a22 + 1) = (kmat m).yy := by
    rw [hsq _ hpos.le]; simp only [kmat]; ring
  have hm := mult_mul _ (sqrt_ne_zero T hsq _ hpos)
  obtain ⟨p1, p2, p3, p4, p5, p6, p7, p8, p9, p10⟩ :=
    branch_products _ _ _ (kmat m).wy (kmat m).xy (kmat m).yz (kmat m).ww (kmat m).xx (kmat m).zz (kmat m).wx (kmat m).wz (kmat m).xz hs hm
      (by linear_combination hk.sq_wy) (by linear_combination hk.sq_xy) hk.sq_yz hk.cr_y_wx hk.cr_y_wz hk.cr_y_xz
  refine ⟨p5, p6, p1, p7, p8, ?_, p9, ?_, p10, p4⟩
  · simp only [quatY, kmat] at p2 ⊢; linear_combination p2
  · simp only [quatY, kmat] at p3 ⊢; linear_combination p3

theorem quat_products_z (hsq : SqrtLaw T) (m : M3 F) (h : m.Rot) (hb : BranchZ m) :
    QProducts (quatZ T m) m := by
  obtain ⟨h1, h2, h3⟩ := hb
  have hk := h.kRankOne
  have hpos : 0 < m.a22 - m.a00 - m.a11 + 1 := by linarith
  have hs : T.sqrt (m.a22 - m.a00 - m.a11 + 1) * T.sqrt (m.a22 - m.a00 - m.a11 + 1) = (kmat m).zz := by
    rw [hsq _ hpos.le]; simp only [kmat]; ring
  have hm := mult_mul _ (sqrt_ne_zero T hsq _ hpos)
  obtain ⟨p1, p2, p3, p4, p5, p6, p7, p8, p9, p10⟩ :=
    branch_products _ _ _ (kmat m).wz (kmat m).xz (kmat m).yz (kmat m).ww (kmat m).xx (kmat m).yy (kmat m).wx (kmat m).wy (kmat m).xy hs hm
      (by linear_combination hk.sq_wz) (by linear_combination hk.sq_xz) (by linear_combination hk.sq_yz) hk.cr_z_wx hk.cr_z_wy hk.cr_z_xy
  refine ⟨p5, p6, p7, p1, p8, p9, ?_, p10, ?_, ?_⟩
  · simp only [quatZ, kmat] at p2 ⊢; linear_combination p2
  · simp only [quatZ, kmat] at p3 ⊢; linear_combination p3
  · simp only [quatZ, kmat] at p4 ⊢; linear_combination p4

theorem quat_roundtrip_w (hsq : SqrtLaw T) (m : M3 F) (h : m.Rot) (hb : BranchW m) :
    @mat3Cast F (fieldScalar T) (quatW T m) = m := (quat_products_w T hsq m h hb).mat3Cast T
theorem quat_roundtrip_x (hsq : SqrtLaw T) (m : M3 F) (h : m.Rot) (hb : BranchX m) :
    @mat3Cast F (fieldScalar T) (quatX T m) = m := (quat_products_x T hsq m h hb).mat3Cast T
theorem quat_roundtrip_y (hsq : SqrtLaw T) (m : M3 F) (h : m.Rot) (hb : BranchY m) :
    @mat3Cast F (fieldScalar T) (quatY T m) = m := (quat_products_y T hsq m h hb).mat3Cast T
theorem quat_roundtrip_z (hsq : SqrtLaw T) (m : M3 F) (h : m.Rot) (hb : BranchZ m) :
    @mat3Cast F (fieldScalar T) (quatZ T m) = m := (quat_products_z T hsq m h hb).mat3Cast T

/-- `quat_cast` of a proper rotation: all ten products, whichever branch is taken -/
theorem quatCast_products (hsq : SqrtLaw T) (m : M3 F) (h : m.Rot) : QProducts (@quatCast F (fieldScalar T) m) m := by
  rcases branch_cases m with hb | hb | hb | hb
  · rw [quatCast_w T m hb]; exact quat_products_w T hsq m h hb
  · rw [quatCast_x T m hb]; exact quat_products_x T hsq m h hb
  · rw [quatCast_y T m hb]; exact quat_products_y T hsq m h hb
  · rw [quatCast_z T m hb]; exact quat_products_z T hsq m h hb

/-- `mat3_cast(quat_cast(A)) = A` for every proper rotation `A` -/
theorem quat_roundtrip (hsq : SqrtLaw T) (m : M3 F) (h : m.Rot) :
    @mat3Cast F (fieldScalar T) (@quatCast F (fieldScalar T) m) = m := (quatCast_products T hsq m h).mat3Cast T

/-! ## 4. `slerp` -/

def qdot (x y : Quat F) : F := x.w * y.w + x.x * y.x + x.y * y.y + x.z * y.z
def qneg (y : Quat F) : Quat F := ⟨-y.w, -y.x, -y.y, -y.z⟩
def qnorm2 (x : Quat F) : F := x.w * x.w + x.x * x.x + x.y * x.y + x.z * x.z
/-- the second end point after the `cosTheta < 0` flip -/
def slerpZ (x y : Quat F) : Quat F := if qdot x y < 0 then qneg y else y
/-- `cosTheta` after the flip: `|x · y|` -/
def slerpC (x y : Quat F) : F := if qdot x y < 0 then -qdot x y else qdot x y

/-- `slerp` over a field, with the literals and the tuple of the flip resolved -/
theorem slerp_field (x y : Quat F) (a : F) : @slerp F (fieldScalar T) x y a =
    if slerpC x y > 1 - T.eps then
      ⟨x.w * (1 - a) + (slerpZ x y).w * a, x.x * (1 - a) + (slerpZ x y).x * a, x.y * (1 - a) + (slerpZ x y).y * a,
        x.z * (1 - a) + (slerpZ x y).z * a⟩
    else
      ⟨(x.w * T.sin ((1 - a) * T.acos (slerpC x y)) + (slerpZ x y).w * T.sin (a * T.acos (slerpC x y))) / T.sin (T.acos (slerpC x y)),
       (x.x * T.sin ((1 - a) * T.acos (slerpC x y)) + (slerpZ x y).x * T.sin (a * T.acos (slerpC x y))) / T.sin (T.acos (slerpC x y)),
       (x.y * T.sin ((1 - a) * T.acos (slerpC x y)) + (slerpZ x y).y * T.sin (a * T.acos (slerpC x y))) / T.sin (T.acos (slerpC x y)),
       (x.z * T.sin ((1 - a) * T.acos (slerpC x y)) + (slerpZ x y).z * T.sin (a * T.acos (slerpC x y))) / T.sin (T.acos (slerpC x y))⟩ := by
  unfold slerp mix slerpC slerpZ qdot qneg
  simp only [lit_0 T, lit_1_0 T]
  by_cases h : x.w * y.w + x.x * y.x + x.y * y.y + x.z * y.z < 0
  · simp only [h, if_true]; rfl
  · simp only [h, if_false]; rfl

/-- the laws of `sin`, `cos`, `acos` and the machine epsilon that the `slerp` theorems use -/
structure SlerpLaws (T : Transc F) : Prop where
  eps_pos : 0 < T.eps
  sin_zero : T.sin 0 = 0
  sin_add : ∀ x y, T.sin (x + y) = T.sin x * T.cos y + T.cos x * T.sin y
  cos_add : ∀ x y, T.cos (x + y) = T.cos x * T.cos y - T.sin x * T.sin y
  sin_sq_add_cos_sq : ∀ x, T.sin x * T.sin x + T.cos x * T.cos x = 1
  cos_acos : ∀ c, -1 ≤ c → c ≤ 1 → T.cos (T.acos c) = c

theorem slerpC_nonneg (x y : Quat F) : 0 ≤ slerpC x y := by
  unfold slerpC; split <;> linarith

theorem qnorm2_slerpZ (x y : Quat F) : qnorm2 (slerpZ x y) = qnorm2 y := by
  unfold slerpZ; split
  · simp only [qnorm2, qneg]; ring
  · rfl

theorem qdot_slerpZ (x y : Quat F) : qdot x (slerpZ x y) = slerpC x y := by
  unfold slerpZ slerpC; split
  · simp only [qdot, qneg]; ring
  · rfl

variable {T} in
/-- in the trigonometric branch `sin(angle) ≠ 0`: `sin² = 1 − c²` with `0 ≤ c ≤ 1 − ε < 1` -/
theorem SlerpLaws.sin_acos_ne_zero (L : SlerpLaws T) (c : F) (h0 : 0 ≤ c) (h1 : ¬ c > 1 - T.eps) : T.sin (T.acos c) ≠ 0 := by
  have he := L.eps_pos
  have h1' : c ≤ 1 - T.eps := not_lt.mp h1
  have hc := L.cos_acos c (by linarith) (by linarith)
  have hsc := L.sin_sq_add_cos_sq (T.acos c)
  intro hs
  rw [hs, hc] at hsc
  nlinarith

variable {T} in
/-- `sin²((1−a)θ) + sin²(aθ) + 2 sin((1−a)θ) sin(aθ) cos θ = sin² θ` -/
theorem SlerpLaws.slerp_identity (L : SlerpLaws T) (a θ : F) :
    T.sin ((1 - a) * θ) * T.sin ((1 - a) * θ) + T.sin (a * θ) * T.sin (a * θ)
      + 2 * T.sin ((1 - a) * θ) * T.sin (a * θ) * T.cos θ = T.sin θ * T.sin θ := by
  have e1 := L.sin_add ((1 - a) * θ) (a * θ)
  have e2 := L.cos_add ((1 - a) * θ) (a * θ)
  rw [show (1 - a) * θ + a * θ = θ by ring] at e1 e2
  have ha := L.sin_sq_add_cos_sq ((1 - a) * θ)
  have hb := L.sin_sq_add_cos_sq (a * θ)
  linear_combination 2 * T.sin ((1 - a) * θ) * T.sin (a * θ) * e2
    - (T.sin θ + (T.sin ((1 - a) * θ) * T.cos (a * θ) + T.cos ((1 - a) * θ) * T.sin (a * θ))) * e1
    - T.sin ((1 - a) * θ) * T.sin ((1 - a) * θ) * hb - T.sin (a * θ) * T.sin (a * θ) * ha

/-- `slerp q1 q2 0 = q1`, in both branches -/
theorem slerp_zero (L : SlerpLaws T) (x y : Quat F) : @slerp F (fieldScalar T) x y 0 = x := by
  rw [slerp_field]
  split
  · cases x; simp
  · rename_i h
    have hsa := L.sin_acos_ne_zero _ (slerpC_nonneg x y) h
    simp only [sub_zero, one_mul, zero_mul, L.sin_zero, mul_zero, add_zero, mul_div_assoc, div_self hsa, mul_one]

/-- `slerp q1 q2 1 = ±q2` (`−q2` when `q1 · q2 < 0`), in both branches -/
theorem slerp_one (L : SlerpLaws T) (x y : Quat F) : @slerp F (fieldScalar T) x y 1 = slerpZ x y := by
  rw [slerp_field]
  split
  · cases h : slerpZ x y; simp
  · rename_i h
    have hsa := L.sin_acos_ne_zero _ (slerpC_nonneg x y) h
    simp only [sub_self, one_mul, zero_mul, L.sin_zero, mul_zero, zero_add, mul_div_assoc, div_self hsa, mul_one]

/-- `mat3_cast` over a field -/
theorem mat3Cast_field (q : Quat F) : @mat3Cast F (fieldScalar T) q =
    ⟨1 - 2 * (q.y * q.y + q.z * q.z), 2 * (q.x * q.y + q.w * q.z), 2 * (q.x * q.z - q.w * q.y),
     2 * (q.x * q.y - q.w * q.z), 1 - 2 * (q.x * q.x + q.z * q.z), 2 * (q.y * q.z + q.w * q.x),
     2 * (q.x * q.z + q.w * q.y), 2 * (q.y * q.z - q.w * q.x), 1 - 2 * (q.x * q.x + q.y * q.y)⟩ := by
  unfold mat3Cast
  simp only [lit_1 T, lit_2 T]

/-- `q` and `−q` are the same rotation -/
theorem mat3Cast_neg (q : Quat F) : @mat3Cast F (fieldScalar T) (qneg q) = @mat3Cast F (fieldScalar T) q := by
  rw [mat3Cast_field, mat3Cast_field]
  simp only [qneg, M3.mk.injEq]
  refine ⟨?_, ?_, ?_, ?_, ?_, ?_, ?_, ?_, ?_⟩ <;> ring

theorem mat3Cast_slerpZ (x y : Quat F) : @mat3Cast F (fieldScalar T) (slerpZ x y) = @mat3Cast F (fieldScalar T) y := by
  unfold slerpZ; split
  · exact mat3Cast_neg T y
  · rfl

/-- the exact orthogonality defect of `M = mat3_cast q` for ANY `q`, with `n = |q|²`: `M Mᵀ − I = 4 (n − 1) (|v|² I − v vᵀ)`,
`det M − 1 = 4 (n − 1) |v|²`, `v = (x, y, z)` -/
theorem mat3Cast_defect (q : Quat F) :
    let M := @mat3Cast F (fieldScalar T) q
    M.a00 * M.a00 + M.a01 * M.a01 + M.a02 * M.a02 - 1 = 4 * (qnorm2 q - 1) * (q.y * q.y + q.z * q.z)
    ∧ M.a00 * M.a10 + M.a01 * M.a11 + M.a02 * M.a12 = 4 * (qnorm2 q - 1) * (-(q.x * q.y))
    ∧ M.a00 * M.a20 + M.a01 * M.a21 + M.a02 * M.a22 = 4 * (qnorm2 q - 1) * (-(q.x * q.z))
    ∧ M.a10 * M.a10 + M.a11 * M.a11 + M.a12 * M.a12 - 1 = 4 * (qnorm2 q - 1) * (q.x * q.x + q.z * q.z)
    ∧ M.a10 * M.a20 + M.a11 * M.a21 + M.a12 * M.a22 = 4 * (qnorm2 q - 1) * (-(q.y * q.z))
    ∧ M.a20 * M.a20 + M.a21 * M.a21 + M.a22 * M.a22 - 1 = 4 * (qnorm2 q - 1) * (q.x * q.x + q.y * q.y)
    ∧ M.a00 * (M.a11 * M.a22 - M.a12 * M.a21) - M.a01 * (M.a10 * M.a22 - M.a12 * M.a20)
        + M.a02 * (M.a10 * M.a21 - M.a11 * M.a20) - 1 = 4 * (qnorm2 q - 1) * (q.x * q.x + q.y * q.y + q.z * q.z) := by
  intro M
  have hM : M = _ := mat3Cast_field T q
  rw [hM]
  simp only [qnorm2]
  refine ⟨?_, ?_, ?_, ?_, ?_, ?_, ?_⟩ <;> ring

/-- a unit quaternion is sent to a proper rotation -/
theorem mat3Cast_rot (q : Quat F) (hq : qnorm2 q = 1) : (@mat3Cast F (fieldScalar T) q).Rot := by
  obtain ⟨d00, d01, d02, d11, d12, d22, dd⟩ := mat3Cast_defect T q
  rw [hq, sub_self, mul_zero, zero_mul] at d00 d01 d02 d11 d12 d22 dd
  exact ⟨by linear_combination d00, d01, d02, by linear_combination d11, d12, by linear_combination d22, by linear_combination dd⟩

/-- `mat3_cast q` has orthonormal rows exactly when `q` is a unit quaternion or a real one (`x = y = z = 0`, the identity matrix) -/
theorem mat3Cast_orthonormal_iff (q : Quat F) :
    (let M := @mat3Cast F (fieldScalar T) q
     M.a00 * M.a00 + M.a01 * M.a01 + M.a02 * M.a02 = 1 ∧ M.a10 * M.a10 + M.a11 * M.a11 + M.a12 * M.a12 = 1
      ∧ M.a20 * M.a20 + M.a21 * M.a21 + M.a22 * M.a22 = 1)
    ↔ (qnorm2 q = 1 ∨ (q.x = 0 ∧ q.y = 0 ∧ q.z = 0)) := by
  obtain ⟨d00, d01, d02, d11, d12, d22, dd⟩ := mat3Cast_defect T q
  constructor
  · rintro ⟨h0, h1, h2⟩
    by_cases hn : qnorm2 q = 1
    · exact Or.inl hn
    · right
      have hn' : (4 : F) * (qnorm2 q - 1) ≠ 0 := mul_ne_zero (by norm_num) (sub_ne_zero.mpr hn)
      have e0 : q.y * q.y + q.z * q.z = 0 := by
        have : 4 * (qnorm2 q - 1) * (q.y * q.y + q.z * q.z) = 0 := by rw [← d00, h0, sub_self]
        exact (mul_eq_zero.mp this).resolve_left hn'
      have e1 : q.x * q.x + q.z * q.z = 0 := by
        have : 4 * (qnorm2 q - 1) * (q.x * q.x + q.z * q.z) = 0 := by rw [← d11, h1, sub_self]
        exact (mul_eq_zero.mp this).resolve_left hn'
      have hx := mul_self_nonneg q.x; have hy := mul_self_nonneg q.y; have hz := mul_self_nonneg q.z
      refine ⟨mul_self_eq_zero.mp ?_, mul_self_eq_zero.mp ?_, mul_self_eq_zero.mp ?_⟩ <;> linarith
  · rintro (hn | ⟨hx, hy, hz⟩)
    · rw [hn, sub_self, mul_zero, zero_mul] at d00 d11 d22
      exact ⟨by linear_combination d00, by linear_combination d11, by linear_combination d22⟩
    · exact ⟨by linear_combination d00 + 4 * (qnorm2 q - 1) * q.y * hy + 4 * (qnorm2 q - 1) * q.z * hz,
        by linear_combination d11 + 4 * (qnorm2 q - 1) * q.x * hx + 4 * (qnorm2 q - 1) * q.z * hz,
        by linear_combination d22 + 4 * (qnorm2 q - 1) * q.x * hx + 4 * (qnorm2 q - 1) * q.y * hy⟩

/-- the trigonometric branch keeps unit norm, for every `a` -/
theorem slerp_trig_unit (L : SlerpLaws T) (x y : Quat F) (a : F) (hx : qnorm2 x = 1) (hy : qnorm2 y = 1)
    (hb : ¬ slerpC x y > 1 - T.eps) : qnorm2 (@slerp F (fieldScalar T) x y a) = 1 := by
  rw [slerp_field, if_neg hb]
  have hsa := L.sin_acos_ne_zero _ (slerpC_nonneg x y) hb
  have hc1 : slerpC x y ≤ 1 := by have := L.eps_pos; linarith [not_lt.mp hb]
  have hcos := L.cos_acos _ (by linarith [slerpC_nonneg x y]) hc1
  have hid := L.slerp_identity a (T.acos (slerpC x y))
  rw [hcos] at hid
  have hz := qnorm2_slerpZ x y
  rw [hy] at hz
  have hd := qdot_slerpZ x y
  generalize slerpZ x y = z at *
  generalize slerpC x y = c at *
  generalize T.sin ((1 - a) * T.acos c) = s1 at *
  generalize T.sin (a * T.acos c) = s2 at *
  generalize T.sin (T.acos c) = sa at *
  simp only [qnorm2, qdot] at *
  have hsa2 : sa * sa ≠ 0 := mul_ne_zero hsa hsa
  rw [div_mul_div_comm, div_mul_div_comm, div_mul_div_comm, div_mul_div_comm, ← add_div, ← add_div, ← add_div,
    div_eq_one_iff_eq hsa2]
  linear_combination s1 * s1 * hx + s2 * s2 * hz + 2 * s1 * s2 * hd + hid

/-- the linear branch: the exact squared norm `1 − 2a(1−a)(1−c)` -/
theorem slerp_linear_norm (x y : Quat F) (a : F) (hx : qnorm2 x = 1) (hy : qnorm2 y = 1) (hb : slerpC x y > 1 - T.eps) :
    qnorm2 (@slerp F (fieldScalar T) x y a) = 1 - 2 * a * (1 - a) * (1 - slerpC x y) := by
  rw [slerp_field, if_pos hb]
  have hz := qnorm2_slerpZ x y
  rw [hy] at hz
  have hd := qdot_slerpZ x y
  generalize slerpZ x y = z at *
  generalize slerpC x y = c at *
  simp only [qnorm2, qdot] at *
  linear_combination (1 - a) * (1 - a) * hx + a * a * hz + 2 * a * (1 - a) * hd

/-- `|q1 · q2| ≤ 1` for unit quaternions -/
theorem slerpC_le_one (x y : Quat F) (hx : qnorm2 x = 1) (hy : qnorm2 y = 1) : slerpC x y ≤ 1 := by
  have hz := qnorm2_slerpZ x y
  rw [hy] at hz
  rw [← qdot_slerpZ x y]
  generalize slerpZ x y = z at *
  simp only [qnorm2, qdot] at *
  nlinarith [mul_self_nonneg (x.w - z.w), mul_self_nonneg (x.x - z.x), mul_self_nonneg (x.y - z.y), mul_self_nonneg (x.z - z.z)]

/-- the linear branch, `0 ≤ a ≤ 1`: `1 − ε/2 < |q|² ≤ 1` -/
theorem slerp_linear_bounds (x y : Quat F) (a : F) (hx : qnorm2 x = 1) (hy : qnorm2 y = 1) (hb : slerpC x y > 1 - T.eps)
    (ha0 : 0 ≤ a) (ha1 : a ≤ 1) :
    1 - T.eps / 2 < qnorm2 (@slerp F (fieldScalar T) x y a) ∧ qnorm2 (@slerp F (fieldScalar T) x y a) ≤ 1 := by
  rw [slerp_linear_norm T x y a hx hy hb]
  have hc1 := slerpC_le_one x y hx hy
  have hq : a * (1 - a) ≤ 1 / 4 := by nlinarith [mul_self_nonneg (a - 1 / 2)]
  have hq0 : 0 ≤ a * (1 - a) := mul_nonneg ha0 (by linarith)
  constructor
  · nlinarith
  · nlinarith

/-- `quat_cast` of a proper rotation is a unit quaternion -/
theorem quatCast_unit (hsq : SqrtLaw T) (m : M3 F) (h : m.Rot) : qnorm2 (@quatCast F (fieldScalar T) m) = 1 :=
  (quatCast_products T hsq m h).unit

/-- the orthogonality defect in the linear branch is below `2ε` in every entry of `M Mᵀ − I` (and in `det M − 1`): `d = 4 (n − 1) E`
with `|E| ≤ n ≤ 1` and `0 ≤ 1 − n < ε/2` -/
theorem defect_bound (n E eps : F) (hn0 : 1 - eps / 2 < n) (hn1 : n ≤ 1) (hE : |E| ≤ 1) : |4 * (n - 1) * E| ≤ 2 * eps := by
  rw [abs_mul, abs_mul]
  have h4 : |(4 : F)| = 4 := abs_of_pos (by norm_num)
  have hn : |n - 1| ≤ eps / 2 := by rw [abs_le]; constructor <;> linarith
  have hE0 := abs_nonneg E
  have hn' := abs_nonneg (n - 1)
  rw [h4]
  nlinarith

theorem slerp_linear_defect (x y : Quat F) (a : F) (hx : qnorm2 x = 1) (hy : qnorm2 y = 1) (hb : slerpC x y > 1 - T.eps)
    (ha0 : 0 ≤ a) (ha1 : a ≤ 1) :
    let M := @mat3Cast F (fieldScalar T) (@slerp F (fieldScalar T) x y a)
    |M.a00 * M.a00 + M.a01 * M.a01 + M.a02 * M.a02 - 1| ≤ 2 * T.eps
    ∧ |M.a00 * M.a10 + M.a01 * M.a11 + M.a02 * M.a12| ≤ 2 * T.eps
    ∧ |M.a00 * M.a20 + M.a01 * M.a21 + M.a02 * M.a22| ≤ 2 * T.eps
    ∧ |M.a10 * M.a10 + M.a11 * M.a11 + M.a12 * M.a12 - 1| ≤ 2 * T.eps
    ∧ |M.a10 * M.a20 + M.a11 * M.a21 + M.a12 * M.a22| ≤ 2 * T.eps
    ∧ |M.a20 * M.a20 + M.a21 * M.a21 + M.a22 * M.a22 - 1| ≤ 2 * T.eps
    ∧ |M.a00 * (M.a11 * M.a22 - M.a12 * M.a21) - M.a01 * (M.a10 * M.a22 - M.a12 * M.a20)
        + M.a02 * (M.a10 * M.a21 - M.a11 * M.a20) - 1| ≤ 2 * T.eps := by
  dsimp only
  obtain ⟨hn0, hn1⟩ := slerp_linear_bounds T x y a hx hy hb ha0 ha1
  obtain ⟨d00, d01, d02, d11, d12, d22, dd⟩ := mat3Cast_defect T (@slerp F (fieldScalar T) x y a)
  generalize @slerp F (fieldScalar T) x y a = q at *
  have hw := mul_self_nonneg q.w; have hxx := mul_self_nonneg q.x; have hyy := mul_self_nonneg q.y; have hzz := mul_self_nonneg q.z
  have hn1' : q.w * q.w + q.x * q.x + q.y * q.y + q.z * q.z ≤ 1 := hn1
  refine ⟨?_, ?_, ?_, ?_, ?_, ?_, ?_⟩
  · rw [d00]; refine defect_bound _ _ _ hn0 hn1 ?_
    rw [abs_le]; constructor <;> linarith
  · rw [d01]; refine defect_bound _ _ _ hn0 hn1 ?_
    rw [abs_le]; constructor <;> linarith [mul_self_nonneg (q.x - q.y), mul_self_nonneg (q.x + q.y)]
  · rw [d02]; refine defect_bound _ _ _ hn0 hn1 ?_
    rw [abs_le]; constructor <;> linarith [mul_self_nonneg (q.x - q.z), mul_self_nonneg (q.x + q.z)]
  · rw [d11]; refine defect_bound _ _ _ hn0 hn1 ?_
    rw [abs_le]; constructor <;> linarith
  · rw [d12]; refine defect_bound _ _ _ hn0 hn1 ?_
    rw [abs_le]; constructor <;> linarith [mul_self_nonneg (q.y - q.z), mul_self_nonneg (q.y + q.z)]
  · rw [d22]; refine defect_bound _ _ _ hn0 hn1 ?_
    rw [abs_le]; constructor <;> linarith
  · rw [dd]; refine defect_bound _ _ _ hn0 hn1 ?_
    rw [abs_le]; constructor <;> linarith

end field

/-! ## 5. the assumed laws hold for the real functions -/

noncomputable def quatRealTransc : Transc ℝ where
  sqrt := Real.sqrt
  exp := Real.exp
  log _ := 0
  sin := Real.sin
  cos := Real.cos
  tan := Real.tan
  asin := Real.arcsin
  acos := Real.arccos
  atan _ := 0
  tanh _ := 0
  erfc _ := 0
  floor x := x
  ceil x := x
  round x := x
  atan2 _ _ := 0
  pow x _ := x
  fmod x _ := x
  pi := Real.pi
  eps := 1 / 2 ^ 52
  dblMin := 0
  dblMax := 1000000000000
  inf := 1000000000000

theorem quatReal_sqrtLaw : SqrtLaw quatRealTransc := fun x hx => Real.mul_self_sqrt hx

theorem quatReal_slerpLaws : SlerpLaws quatRealTransc where
  eps_pos := by simp only [quatRealTransc]; positivity
  sin_zero := Real.sin_zero
  sin_add := Real.sin_add
  cos_add := Real.cos_add
  sin_sq_add_cos_sq x := by
    have := Real.sin_sq_add_cos_sq x
    simp only [quatRealTransc]; nlinarith
  cos_acos c h0 h1 := Real.cos_arccos h0 h1

end Gwb
