/-
Concrete `Transc` bundles for the satisfiability examples of C05 / C20: a toy one over `ℚ` (every law the theorems assume
holds, none of the members is the real function) and the real functions over `ℝ` where Mathlib has them.
-/
import GwbVerif.Proofs.Models
import Mathlib.Analysis.SpecialFunctions.Trigonometric.Basic
namespace Gwb
open Scalar

/-- a toy bundle over `ℚ` that satisfies the laws the theorems assume (satisfiability examples only; none of the members is
the real function) -/
def toyTransc : Transc ℚ where
  sqrt x := x
  exp _ := 1
  log _ := 0
  sin _ := 0
  cos _ := 1
  tan _ := 0
  asin _ := 0
  acos _ := 0
  atan _ := 0
  tanh _ := 0
  erfc x := if x ≤ 0 then 1 else 1 / (1 + x)
  floor x := x
  ceil x := x
  round x := x
  atan2 _ _ := 0
  pow x _ := x * x
  fmod x _ := x
  pi := 3
  eps := 1 / 1000000
  dblMin := 0
  dblMax := 1000000000000
  inf := 1000000000000

theorem toy_erfcLaws : ErfcLaws toyTransc where
  erfc_zero := by simp [toyTransc]
  erfc_nonneg x := by
    simp only [toyTransc]
    split_ifs with h
    · norm_num
    · have : 0 < x := not_le.mp h
      positivity
  erfc_anti x y hx hxy := by
    simp only [toyTransc]
    split_ifs with h1 h2 h2
    · exact le_rfl
    · have : x = 0 := le_antisymm (le_trans hxy h1) hx
      exact absurd (this ▸ le_rfl) h2
    · have : 0 < y := not_le.mp h1
      rw [div_le_one (by linarith)]; linarith
    · have hx0 : 0 < x := not_le.mp h2
      exact one_div_le_one_div_of_le (by linarith) (by linarith)
  sqrt_pos x hx := hx
  sqrt_mono x y _ h := h

/-- the real functions where Mathlib has them (`erfc` is not in Mathlib: `exp (−x)` stands in, it has the assumed laws) -/
noncomputable def realTransc : Transc ℝ where
  sqrt := Real.sqrt
  exp := Real.exp
  log _ := 0
  sin := Real.sin
  cos := Real.cos
  tan := Real.tan
  asin _ := 0
  acos _ := 0
  atan _ := 0
  tanh _ := 0
  erfc x := Real.exp (-x)
  floor x := x
  ceil x := x
  round x := x
  atan2 _ _ := 0
  pow x _ := x * x
  fmod x _ := x
  pi := Real.pi
  eps := 1 / 1000000
  dblMin := 0
  dblMax := 1000000000000
  inf := 1000000000000

theorem real_erfcLaws : ErfcLaws realTransc where
  erfc_zero := by simp [realTransc]
  erfc_nonneg x := (Real.exp_pos _).le
  erfc_anti x y _ hxy := Real.exp_le_exp.mpr (neg_le_neg hxy)
  sqrt_pos x hx := Real.sqrt_pos.mpr hx
  sqrt_mono x y _ h := Real.sqrt_le_sqrt h

theorem real_sinLaws : realTransc.sin 0 = 0 ∧ ∀ i : ℕ, realTransc.sin ((i : ℝ) * realTransc.pi) = 0 :=
  ⟨Real.sin_zero, Real.sin_nat_mul_pi⟩

end Gwb
