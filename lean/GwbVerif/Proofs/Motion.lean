/-
Helpers for C08 (rigid motions of world plus query), part 1: vocabulary, longitude aliases, the polygon test.

Everything is over an ordered field `F` through `fieldScalar T` ("up to rounding" = exact in the field).
* `P2.shift v p` — translation by `v`;  `P2.rot c s p` — rotation about the vertical by `[[c,−s],[s,c]]`.
* longitude: `sphericalToCartesian` is `2π`-periodic in the longitude under `PeriodLaws T`; the representations
  `L + 2πk` of a longitude `L ∈ (−π, π]` that lie in `[−2π, 2π]`.
* polygon test: `edgeStep` only looks at coordinate differences and `y`-comparisons EXCEPT for the vertex test `approx`,
  whose tolerance is relative to the coordinates themselves.
-/
import GwbVerif.Proofs.Surface
namespace Gwb
open Scalar
set_option linter.unusedSectionVars false

section field
variable {F : Type} [Field F] [LinearOrder F] [IsStrictOrderedRing F] (T : Transc F)

/-! ### vocabulary -/

/-- translation of a surface point by the vector `v` -/
def P2.shift (v p : P2 F) : P2 F := ⟨p.x + v.x, p.y + v.y⟩

/-- rotation about the vertical by the matrix `[[c, −s], [s, c]]` -/
def P2.rot (c s : F) (p : P2 F) : P2 F := ⟨c * p.x - s * p.y, s * p.x + c * p.y⟩

@[simp] theorem P2.shift_x (v p : P2 F) : (P2.shift v p).x = p.x + v.x := rfl
@[simp] theorem P2.shift_y (v p : P2 F) : (P2.shift v p).y = p.y + v.y := rfl
@[simp] theorem P2.rot_x (c s : F) (p : P2 F) : (P2.rot c s p).x = c * p.x - s * p.y := rfl
@[simp] theorem P2.rot_y (c s : F) (p : P2 F) : (P2.rot c s p).y = s * p.x + c * p.y := rfl

theorem P2.shift_injective (v : P2 F) {a b : P2 F} (h : P2.shift v a = P2.shift v b) : a = b := by
  cases a; cases b
  simp only [P2.shift, P2.mk.injEq] at h ⊢
  exact ⟨by linarith [h.1], by linarith [h.2]⟩

/-- the literal `2.0` of the model -/
theorem lit_two_dec : @OfScientific.ofScientific F (@Scalar.instOfScientific F (fieldScalar T)) 20 true 1 = (2 : F) := by
  show ((OfScientific.ofScientific 20 true 1 : ℚ) : F) = 2
  norm_num

/-! ### longitude: periodicity of the conversion -/

/-- the `2π`-periodicity of `sin` and `cos` -/
structure PeriodLaws (T : Transc F) : Prop where
  sin_period : ∀ x, T.sin (x + 2 * T.pi) = T.sin x
  cos_period : ∀ x, T.cos (x + 2 * T.pi) = T.cos x

theorem PeriodLaws.sin_sub {T : Transc F} (h : PeriodLaws T) (x : F) : T.sin (x - 2 * T.pi) = T.sin x := by
  have := h.sin_period (x - 2 * T.pi)
  rw [sub_add_cancel] at this
  exact this.symm

theorem PeriodLaws.cos_sub {T : Transc F} (h : PeriodLaws T) (x : F) : T.cos (x - 2 * T.pi) = T.cos x := by
  have := h.cos_period (x - 2 * T.pi)
  rw [sub_add_cancel] at this
  exact this.symm

theorem PeriodLaws.sin_int {T : Transc F} (h : PeriodLaws T) (x : F) (k : ℤ) : T.sin (x + 2 * T.pi * k) = T.sin x := by
  induction k using Int.induction_on with
  | zero => simp
  | succ n ih =>
    rw [show x + 2 * T.pi * ((n : ℤ) + 1 : ℤ) = (x + 2 * T.pi * (n : ℤ)) + 2 * T.pi by push_cast; ring, h.sin_period, ih]
  | pred n ih =>
    rw [show x + 2 * T.pi * ((-(n : ℤ) - 1 : ℤ)) = (x + 2 * T.pi * (-(n : ℤ) : ℤ)) - 2 * T.pi by push_cast; ring, h.sin_sub, ih]

theorem PeriodLaws.cos_int {T : Transc F} (h : PeriodLaws T) (x : F) (k : ℤ) : T.cos (x + 2 * T.pi * k) = T.cos x := by
  induction k using Int.induction_on with
  | zero => simp
  | succ n ih =>
    rw [show x + 2 * T.pi * ((n : ℤ) + 1 : ℤ) = (x + 2 * T.pi * (n : ℤ)) + 2 * T.pi by push_cast; ring, h.cos_period, ih]
  | pred n ih =>
    rw [show x + 2 * T.pi * ((-(n : ℤ) - 1 : ℤ)) = (x + 2 * T.pi * (-(n : ℤ) : ℤ)) - 2 * T.pi by push_cast; ring, h.cos_sub, ih]

/-- `spherical_to_cartesian_coordinates` only sees `sin` and `cos` of the longitude -/
theorem sphericalToCartesian_lon_congr (r L L' lat : F) (hs : T.sin L' = T.sin L) (hc : T.cos L' = T.cos L) :
    @sphericalToCartesian F (fieldScalar T) ⟨r, L', lat⟩ = @sphericalToCartesian F (fieldScalar T) ⟨r, L, lat⟩ := by
  unfold sphericalToCartesian
  show (⟨_ * T.cos L', _ * T.sin L', _⟩ : P3 F) = ⟨_ * T.cos L, _ * T.sin L, _⟩
  rw [hs, hc]

/-! ### longitude: which aliases lie in `[−2π, 2π]` -/

theorem otherPoint_x (p : P2 F) :
    (@otherPoint F (fieldScalar T) p).x = p.x + (if p.x < 0 then 2 * T.pi else -2 * T.pi) := by
  unfold otherPoint
  show p.x + (if p.x < ((0 : ℕ) : F) then _ * T.pi else -_ * T.pi) = _
  rw [lit_two_dec, Nat.cast_zero]

theorem otherPoint_y (p : P2 F) : (@otherPoint F (fieldScalar T) p).y = p.y := rfl

/-- for `π > 0`: `a < b` between integers from `2π·a < 2π·b` -/
theorem int_lt_of_two_pi_mul_lt {π : F} (hπ : 0 < π) {a b : ℤ} (h : 2 * π * (a : F) < 2 * π * (b : F)) : a < b := by
  have h2 : (0 : F) < 2 * π := by positivity
  have := lt_of_mul_lt_mul_left h h2.le
  exact_mod_cast this

/-- **alias completeness** (`L ≠ 0`): among the representations `L + 2πk` of a longitude `L ∈ (−π, π]`, `L ≠ 0`, exactly `L` and the
longitude of `otherPoint` lie in `[−2π, 2π]` -/
theorem alias_in_range_iff (hπ : 0 < T.pi) (p : P2 F) (hlo : -T.pi < p.x) (hhi : p.x ≤ T.pi) (hne : p.x ≠ 0) (k : ℤ) :
    (-(2 * T.pi) ≤ p.x + 2 * T.pi * k ∧ p.x + 2 * T.pi * k ≤ 2 * T.pi) ↔
      (p.x + 2 * T.pi * k = p.x ∨ p.x + 2 * T.pi * k = (@otherPoint F (fieldScalar T) p).x) := by
  rw [otherPoint_x]
  constructor
  · rintro ⟨h1, h2⟩
    rcases lt_or_gt_of_ne hne with hneg | hpos
    · rw [if_pos hneg]
      have hk0 : (-1 : ℤ) < k := by
        apply int_lt_of_two_pi_mul_lt hπ
        push_cast; linarith
      have hk1 : k < (2 : ℤ) := by
        apply int_lt_of_two_pi_mul_lt hπ
        push_cast; linarith
      have : k = 0 ∨ k = 1 := by omega
      rcases this with rfl | rfl
      · left; simp
      · right; simp
    · rw [if_neg (not_lt.mpr hpos.le)]
      have hk0 : (-2 : ℤ) < k := by
        apply int_lt_of_two_pi_mul_lt hπ
        push_cast; linarith
      have hk1 : k < (1 : ℤ) := by
        apply int_lt_of_two_pi_mul_lt hπ
        push_cast; linarith
      have : k = 0 ∨ k = -1 := by omega
      rcases this with rfl | rfl
      · left; simp
      · right; push_cast; ring
  · rintro (h | h)
    · rw [h]; constructor <;> linarith
    · rw [h]
      rcases lt_or_gt_of_ne hne with hneg | hpos
      · rw [if_pos hneg]; constructor <;> linarith
      · rw [if_neg (not_lt.mpr hpos.le)]; constructor <;> linarith

/-- at `L = 0` the alias `+2π` lies in `[−2π, 2π]` but is neither `L` nor the longitude of `otherPoint` (which is `−2π`) -/
theorem alias_zero_missed (hπ : 0 < T.pi) (y : F) :
    (-(2 * T.pi) ≤ (0 : F) + 2 * T.pi * ((1 : ℤ) : F) ∧ (0 : F) + 2 * T.pi * ((1 : ℤ) : F) ≤ 2 * T.pi) ∧
    (0 : F) + 2 * T.pi * ((1 : ℤ) : F) ≠ 0 ∧
    (0 : F) + 2 * T.pi * ((1 : ℤ) : F) ≠ (@otherPoint F (fieldScalar T) ⟨0, y⟩).x ∧
    (@otherPoint F (fieldScalar T) ⟨0, y⟩).x = -(2 * T.pi) := by
  rw [otherPoint_x]
  simp only [lt_irrefl, if_false, Int.cast_one, mul_one, zero_add]
  refine ⟨⟨by linarith, le_rfl⟩, by positivity, ?_, by ring⟩
  intro h
  linarith

/-- **the spherical polygon test tries every in-range alias** (`L ∈ (−π, π]`, `L ≠ 0`): it answers "inside" iff some representation
`L + 2πk ∈ [−2π, 2π]` of the query longitude is inside the footprint as drawn in the (lon, lat) plane -/
theorem polygonContains_spherical_iff (hπ : 0 < T.pi) (pts : List (P2 F)) (p : P2 F) (hlo : -T.pi < p.x) (hhi : p.x ≤ T.pi)
    (hne : p.x ≠ 0) :
    @polygonContains F (fieldScalar T) true pts p = true ↔
      ∃ k : ℤ, (-(2 * T.pi) ≤ p.x + 2 * T.pi * k ∧ p.x + 2 * T.pi * k ≤ 2 * T.pi) ∧
        @polygonContainsImpl F (fieldScalar T) pts ⟨p.x + 2 * T.pi * k, p.y⟩ = true := by
  unfold polygonContains
  simp only [if_true, Bool.or_eq_true]
  constructor
  · rintro (h | h)
    · refine ⟨0, (alias_in_range_iff T hπ p hlo hhi hne 0).mpr (Or.inl (by simp)), ?_⟩
      have : (⟨p.x + 2 * T.pi * ((0 : ℤ) : F), p.y⟩ : P2 F) = p := by cases p; simp
      rw [this]; exact h
    · rcases lt_or_gt_of_ne hne with hneg | hpos
      · have hx : (@otherPoint F (fieldScalar T) p).x = p.x + 2 * T.pi * ((1 : ℤ) : F) := by
          rw [otherPoint_x, if_pos hneg]; simp
        refine ⟨1, (alias_in_range_iff T hπ p hlo hhi hne 1).mpr (Or.inr hx.symm), ?_⟩
        have : (⟨p.x + 2 * T.pi * ((1 : ℤ) : F), p.y⟩ : P2 F) = @otherPoint F (fieldScalar T) p := by
          rw [← hx]; rfl
        rw [this]; exact h
      · have hx : (@otherPoint F (fieldScalar T) p).x = p.x + 2 * T.pi * ((-1 : ℤ) : F) := by
          rw [otherPoint_x, if_neg (not_lt.mpr hpos.le)]; push_cast; ring
        refine ⟨-1, (alias_in_range_iff T hπ p hlo hhi hne (-1)).mpr (Or.inr hx.symm), ?_⟩
        have : (⟨p.x + 2 * T.pi * ((-1 : ℤ) : F), p.y⟩ : P2 F) = @otherPoint F (fieldScalar T) p := by
          rw [← hx]; rfl
        rw [this]; exact h
  · rintro ⟨k, hr, h⟩
    rcases (alias_in_range_iff T hπ p hlo hhi hne k).mp hr with hk | hk
    · left
      have : (⟨p.x + 2 * T.pi * (k : F), p.y⟩ : P2 F) = p := by rw [hk]
      rw [this] at h; exact h
    · right
      have : (⟨p.x + 2 * T.pi * (k : F), p.y⟩ : P2 F) = @otherPoint F (fieldScalar T) p := by rw [hk]; rfl
      rw [this] at h; exact h

/-! ### the polygon test under translation -/

/-- the vertex test of `edgeStep`: `approx(pi.x, p.x) && approx(pi.y, p.y)` -/
noncomputable def vertexTest (b p : P2 F) : Bool := @approx F (fieldScalar T) b.x p.x && @approx F (fieldScalar T) b.y p.y

theorem crossP_shift (v a b p : P2 F) : crossP (P2.shift v a) (P2.shift v b) (P2.shift v p) = crossP a b p := by
  unfold crossP; simp only [P2.shift_x, P2.shift_y]; ring
theorem dotP_shift (v a b p : P2 F) : dotP (P2.shift v a) (P2.shift v b) (P2.shift v p) = dotP a b p := by
  unfold dotP; simp only [P2.shift_x, P2.shift_y]; ring
theorem sqlP_shift (v a b : P2 F) : sqlP (P2.shift v a) (P2.shift v b) = sqlP a b := by
  unfold sqlP; simp only [P2.shift_x, P2.shift_y]; ring

/-- the loop body only looks at differences and `y`-comparisons, except for the vertex test -/
theorem edgeStep_shift (v a b p : P2 F)
    (h : vertexTest T (P2.shift v b) (P2.shift v p) = vertexTest T b p) :
    @edgeStep F (fieldScalar T) (P2.shift v a) (P2.shift v b) (P2.shift v p) = @edgeStep F (fieldScalar T) a b p := by
  rw [edgeStep_field, edgeStep_field, crossP_shift, dotP_shift, sqlP_shift]
  simp only [P2.shift_x, P2.shift_y, add_le_add_iff_right, add_lt_add_iff_right]
  unfold vertexTest at h
  simp only [P2.shift_x, P2.shift_y] at h
  rw [h]

theorem EdgeRes.eq_hit_of_isHit {r : EdgeRes} (h : r.isHit = true) : r = .hit := by
  cases r with
  | hit => rfl
  | delta d => simp [EdgeRes.isHit] at h

/-- with a vertex test that only accepts the vertex itself (in both configurations) the loop body is translation invariant -/
theorem edgeStep_shift_exact (heps : 0 < T.eps) (v a b p : P2 F)
    (h1 : vertexTest T b p = true → b = p)
    (h2 : vertexTest T (P2.shift v b) (P2.shift v p) = true → P2.shift v b = P2.shift v p) :
    @edgeStep F (fieldScalar T) (P2.shift v a) (P2.shift v b) (P2.shift v p) = @edgeStep F (fieldScalar T) a b p := by
  by_cases hb : b = p
  · subst hb
    rw [EdgeRes.eq_hit_of_isHit (hit_of_endpoint T heps a b), EdgeRes.eq_hit_of_isHit (hit_of_endpoint T heps _ _)]
  · apply edgeStep_shift
    have e1 : vertexTest T b p = false := by
      rw [Bool.eq_false_iff]; exact fun h => hb (h1 h)
    have e2 : vertexTest T (P2.shift v b) (P2.shift v p) = false := by
      rw [Bool.eq_false_iff]; exact fun h => hb (P2.shift_injective v (h2 h))
    rw [e1, e2]

/-- the edge list of a mapped polygon -/
theorem polygonEdges_map {α β : Type} (f : P2 α → P2 β) (pts : List (P2 α)) :
    polygonEdges (pts.map f) = (polygonEdges pts).map (fun e => (f e.1, f e.2)) := by
  unfold polygonEdges
  rw [List.getLast?_map]
  cases h : pts.getLast? with
  | none => simp
  | some l =>
    simp only [Option.map_some]
    rw [← List.map_dropLast, ← List.map_cons, List.zip_map]
    simp [Prod.map]

theorem polyLoop_congr (p p' : P2 F) (es : List (P2 F × P2 F)) (g : P2 F → P2 F) (wn : Int)
    (h : ∀ e ∈ es, @edgeStep F (fieldScalar T) (g e.1) (g e.2) p' = @edgeStep F (fieldScalar T) e.1 e.2 p) :
    @polyLoop F (fieldScalar T) p' (es.map (fun e => (g e.1, g e.2))) wn = @polyLoop F (fieldScalar T) p es wn := by
  induction es generalizing wn with
  | nil => rfl
  | cons e es ih =>
    obtain ⟨a, b⟩ := e
    simp only [List.map_cons]
    unfold polyLoop
    rw [h (a, b) List.mem_cons_self]
    cases @edgeStep F (fieldScalar T) a b p with
    | hit => rfl
    | delta d => exact ih _ (fun e he => h e (List.mem_cons_of_mem _ he))

/-- the vertex test only accepts the vertex itself, for every edge of the loop -/
def VertexExact (pts : List (P2 F)) (p : P2 F) : Prop :=
  ∀ e ∈ polygonEdges pts, vertexTest T e.2 p = true → e.2 = p

/-- **the polygon test is translation invariant** when the (relative, hence not translation invariant) vertex tolerance only
accepts the vertex itself in both configurations -/
theorem polygonContainsImpl_shift (heps : 0 < T.eps) (v : P2 F) (pts : List (P2 F)) (p : P2 F)
    (h1 : VertexExact T pts p) (h2 : VertexExact T (pts.map (P2.shift v)) (P2.shift v p)) :
    @polygonContainsImpl F (fieldScalar T) (pts.map (P2.shift v)) (P2.shift v p) = @polygonContainsImpl F (fieldScalar T) pts p := by
  unfold polygonContainsImpl
  rw [polygonEdges_map]
  apply polyLoop_congr
  intro e he
  apply edgeStep_shift_exact T heps v e.1 e.2 p (h1 e he)
  apply h2 (P2.shift v e.1, P2.shift v e.2)
  rw [polygonEdges_map]
  exact List.mem_map.mpr ⟨e, he, rfl⟩

/-- same, assuming only that the vertex test gives the same verdict on every edge in the two configurations -/
theorem polygonContainsImpl_shift_of_vertexTest (v : P2 F) (pts : List (P2 F)) (p : P2 F)
    (h : ∀ e ∈ polygonEdges pts, vertexTest T (P2.shift v e.2) (P2.shift v p) = vertexTest T e.2 p) :
    @polygonContainsImpl F (fieldScalar T) (pts.map (P2.shift v)) (P2.shift v p) = @polygonContainsImpl F (fieldScalar T) pts p := by
  unfold polygonContainsImpl
  rw [polygonEdges_map]
  apply polyLoop_congr
  intro e he
  exact edgeStep_shift T v e.1 e.2 p (h e he)

/-- no vertex of the polygon passes the vertex test: `VertexExact` holds vacuously -/
theorem vertexExact_of_all_false (pts : List (P2 F)) (p : P2 F) (h : ∀ b ∈ pts, vertexTest T b p = false) :
    VertexExact T pts p := by
  intro e he hv
  have hmem : e.2 ∈ pts := by
    unfold polygonEdges at he
    cases hl : pts.getLast? with
    | none => simp [hl] at he
    | some l => simp only [hl] at he; exact (List.of_mem_zip he).2
  rw [h e.2 hmem] at hv
  cases hv

/-- `Separated` (the hypothesis of `polygonContainsImpl_iff`) implies `VertexExact` -/
theorem Separated.vertexExact {pts : List (P2 F)} {p : P2 F} (hs : Separated T pts p) : VertexExact T pts p :=
  fun e he h => hs.vertex e he h

/-! ### the specification `InPolygon` under translation -/

theorem onSegment_shift (v a b p : P2 F) : OnSegment (P2.shift v a) (P2.shift v b) (P2.shift v p) ↔ OnSegment a b p := by
  unfold OnSegment
  rw [crossP_shift, dotP_shift, sqlP_shift]

theorem crossing_shift (v a b p : P2 F) : crossing (P2.shift v a) (P2.shift v b) (P2.shift v p) = crossing a b p := by
  unfold crossing
  simp only [crossP_shift, P2.shift_y, add_le_add_iff_right, add_lt_add_iff_right]

/-- "on the boundary or non-zero crossing sum" is translation invariant (no tolerance involved) -/
theorem inPolygon_shift (v : P2 F) (pts : List (P2 F)) (p : P2 F) :
    InPolygon (pts.map (P2.shift v)) (P2.shift v p) ↔ InPolygon pts p := by
  unfold InPolygon
  rw [polygonEdges_map]
  simp only [List.mem_map, List.map_map, Function.comp_def, crossing_shift]
  constructor
  · rintro (⟨e, ⟨e0, he0, rfl⟩, hon⟩ | h)
    · exact Or.inl ⟨e0, he0, (onSegment_shift v _ _ _).mp hon⟩
    · exact Or.inr h
  · rintro (⟨e, he, hon⟩ | h)
    · exact Or.inl ⟨_, ⟨e, he, rfl⟩, (onSegment_shift v _ _ _).mpr hon⟩
    · exact Or.inr h

end field
end Gwb
