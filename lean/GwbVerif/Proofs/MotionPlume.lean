/-
Helpers for C08, part 2: the plume footprint (`fraction_from_ellipse_center`, `PlumeFeature.covers`) under a translation of the
cross-section centres together with the query's surface point.
-/
import GwbVerif.Proofs.Motion
import GwbVerif.Model.Features.Area
namespace Gwb
open Scalar
set_option linter.unusedSectionVars false

/-! ### `Except` plumbing (every element type) -/

theorem idx_map {α β : Type} (g : α → β) (xs : List α) (i : Nat) : idx (xs.map g) i = Except.map g (idx xs i) := by
  unfold idx
  rw [List.getElem?_map]
  cases xs[i]? <;> rfl

section generic
variable {R : Type} [Scalar R]

/-- plume.cc:283-330: centre, semi-major axis, eccentricity and rotation of the ellipse at the query depth -/
def plumeSelect (f : PlumeFeature R) (depth d0 : R) (up : Nat) : Except Err (P2 R × R × R × R) :=
  if up = 0 then do
      let c ← idx f.coords 0
      let e ← front f.ecc
      let r ← front f.rot
      let fraction := (depth - f.minDepth) / (d0 - f.minDepth)
      let a := d0 - f.minDepth
      let b ← front f.semiMajor
      let y := ((1.0 : R) - fraction) * a
      pure (c, sqrt (((1 : R) - pow (y / a) 2) * b * b), e, r)
    else if up = f.depths.length then do
      pure (← idx f.coords (f.coords.length - 1), ← back f.semiMajor, ← back f.ecc, ← back f.rot)
    else do
      let dl ← idx f.depths (up - 1)
      let dh ← idx f.depths up
      let fraction := (depth - dl) / (dh - dl)
      let cl ← idx f.coords (up - 1)
      let ch ← idx f.coords up
      let sl ← idx f.semiMajor (up - 1)
      let sh ← idx f.semiMajor up
      let el ← idx f.ecc (up - 1)
      let eh ← idx f.ecc up
      let rl ← idx f.rot (up - 1)
      let rh ← idx f.rot up
      pure (⟨((1 : R) - fraction) * cl.x + fraction * ch.x, ((1 : R) - fraction) * cl.y + fraction * ch.y⟩,
            ((1 : R) - fraction) * sl + fraction * sh, ((1 : R) - fraction) * el + fraction * eh,
            interpolateAngleAcrossZero rl rh fraction)

/-- the alias of the query longitude closest to the plume centre (spherical), the point itself (Cartesian) -/
def plumeSurfacePoint (spherical : Bool) (center sp0 : P2 R) : P2 R :=
  if spherical then
    if sp0.x - center.x > Scalar.pi then ⟨sp0.x - (2.0 : R) * Scalar.pi, sp0.y⟩
    else if sp0.x - center.x < -Scalar.pi then ⟨sp0.x + (2.0 : R) * Scalar.pi, sp0.y⟩
    else sp0
  else sp0

/-- plume.cc:331-345: the relative distance and the final test -/
def plumeTail (f : PlumeFeature R) (spherical : Bool) (depth d0 : R) (sp0 : P2 R) (sel : P2 R × R × R × R) :
    Except Err (Option R) :=
  match sel with
  | (center, sma, ecc, rot) => do
    let sp := plumeSurfacePoint spherical center sp0
    let rel0 := fractionFromEllipseCenter center sma ecc rot sp
    let rel ← (if depth ≥ f.minDepth ∧ depth < d0 then do
        let a ← front f.semiMajor
        let b := a * sqrt ((1 : R) - pow ecc 2)
        let c := d0 - f.minDepth
        let x := (sp.x - center.x) * cos rot + (sp.y - center.y) * sin rot
        let y := -(sp.x - center.x) * sin rot + (sp.y - center.y) * cos rot
        let z := d0 - depth
        pure ((x * x) / (a * a) + (y * y) / (b * b) + (z * z) / (c * c))
      else pure rel0 : Except Err R)
    if depth ≤ f.maxDepth ∧ depth ≥ f.minDepth ∧ rel ≤ 1.0 then return some rel else return none

/-- `PlumeFeature.covers` in three stages -/
theorem PlumeFeature.covers_stages (f : PlumeFeature R) (ctx : Ctx R) (q : Query R) :
    f.covers ctx q = (do
      let up ← upperBound f.depths q.depth (f.depths.length + 1) 0 f.depths.length
      let _c0 ← idx f.coords 0
      if q.depth < f.minDepth then return none
      let d0 ← front f.depths
      let sel ← plumeSelect f q.depth d0 up
      plumeTail f ctx.coord.spherical q.depth d0 (surfacePoint ctx.coord.spherical q.nat) sel) := by
  rfl

end generic

section field
variable {F : Type} [Field F] [LinearOrder F] [IsStrictOrderedRing F] (T : Transc F)

theorem sub_shift_cancel (a b c : F) : (a + c) - (b + c) = a - b := by ring

/-- **`fraction_from_ellipse_center` is translation invariant**: it only sees `p − center` -/
theorem fractionFromEllipseCenter_shift (v center : P2 F) (sma ecc theta : F) (p : P2 F) :
    @fractionFromEllipseCenter F (fieldScalar T) (P2.shift v center) sma ecc theta (P2.shift v p) =
      @fractionFromEllipseCenter F (fieldScalar T) center sma ecc theta p := by
  unfold fractionFromEllipseCenter
  simp only [P2.shift_x, P2.shift_y, sub_shift_cancel]

/-- the closest alias is chosen from the longitude difference only -/
theorem plumeSurfacePoint_shift (spherical : Bool) (v center sp0 : P2 F) :
    @plumeSurfacePoint F (fieldScalar T) spherical (P2.shift v center) (P2.shift v sp0) =
      P2.shift v (@plumeSurfacePoint F (fieldScalar T) spherical center sp0) := by
  unfold plumeSurfacePoint
  simp only [P2.shift_x, P2.shift_y, sub_shift_cancel]
  cases spherical with
  | false => rfl
  | true =>
    simp only [if_true]
    split
    · simp only [P2.shift, P2.mk.injEq]; exact ⟨by ring, trivial⟩
    · split
      · simp only [P2.shift, P2.mk.injEq]; exact ⟨by ring, trivial⟩
      · rfl

/-- the feature with its cross-section centres translated -/
def PlumeFeature.shift (v : P2 F) (f : PlumeFeature F) : PlumeFeature F := { f with coords := f.coords.map (P2.shift v) }

theorem plumeTail_shift (f : PlumeFeature F) (v : P2 F) (spherical : Bool) (depth d0 : F) (sp0 : P2 F) (sel : P2 F × F × F × F) :
    @plumeTail F (fieldScalar T) (f.shift v) spherical depth d0 (P2.shift v sp0) (P2.shift v sel.1, sel.2) =
      @plumeTail F (fieldScalar T) f spherical depth d0 sp0 sel := by
  obtain ⟨center, sma, ecc, rot⟩ := sel
  unfold plumeTail
  simp only [plumeSurfacePoint_shift, fractionFromEllipseCenter_shift, P2.shift_x, P2.shift_y, sub_shift_cancel]
  rfl

theorem plumeSelect_shift (f : PlumeFeature F) (v : P2 F) (depth d0 : F) (up : Nat) :
    @plumeSelect F (fieldScalar T) (f.shift v) depth d0 up =
      Except.map (fun sel => (P2.shift v sel.1, sel.2)) (@plumeSelect F (fieldScalar T) f depth d0 up) := by
  unfold plumeSelect PlumeFeature.shift
  simp only [idx_map, List.length_map]
  split
  · rcases idx f.coords 0 with e | c
    · rfl
    rcases front f.ecc with e | ec
    · rfl
    rcases front f.rot with e | r
    · rfl
    rcases front f.semiMajor with e | b
    · rfl
    rfl
  · split
    · rcases idx f.coords (f.coords.length - 1) with e | c
      · rfl
      rcases back f.semiMajor with e | b
      · rfl
      rcases back f.ecc with e | ec
      · rfl
      rcases back f.rot with e | r
      · rfl
      rfl
    · rcases idx f.depths (up - 1) with e | dl
      · rfl
      rcases idx f.depths up with e | dh
      · rfl
      rcases idx f.coords (up - 1) with e | cl
      · rfl
      rcases idx f.coords up with e | ch
      · rfl
      rcases idx f.semiMajor (up - 1) with e | sl
      · rfl
      rcases idx f.semiMajor up with e | sh
      · rfl
      rcases idx f.ecc (up - 1) with e | el
      · rfl
      rcases idx f.ecc up with e | eh
      · rfl
      rcases idx f.rot (up - 1) with e | rl
      · rfl
      rcases idx f.rot up with e | rh
      · rfl
      show Except.ok _ = Except.ok _
      simp only [Except.ok.injEq, Prod.mk.injEq, P2.shift, P2.mk.injEq, and_true]
      have h1 : @OfNat.ofNat F 1 (@Scalar.instOfNat F (fieldScalar T) 1) = (1 : F) := lit_one_nat T
      simp only [h1]
      constructor <;> ring

/-- **the plume footprint is translation invariant**: translating the cross-section centres and the query's surface point by the
same vector leaves the verdict and the relative distance unchanged.  In a spherical world the same statement reads "common offset"
(`v.x` on the longitudes, `v.y` on the latitudes). -/
theorem PlumeFeature.covers_shift (f : PlumeFeature F) (v : P2 F) (ctx : Ctx F) (q q' : Query F)
    (hdepth : q'.depth = q.depth)
    (hsp : surfacePoint ctx.coord.spherical q'.nat = P2.shift v (surfacePoint ctx.coord.spherical q.nat)) :
    @PlumeFeature.covers F (fieldScalar T) (f.shift v) ctx q' = @PlumeFeature.covers F (fieldScalar T) f ctx q := by
  rw [@PlumeFeature.covers_stages F (fieldScalar T), @PlumeFeature.covers_stages F (fieldScalar T), hdepth, hsp]
  simp only [plumeSelect_shift]
  have hd : (f.shift v).depths = f.depths := rfl
  have hm : (f.shift v).minDepth = f.minDepth := rfl
  have hc : (f.shift v).coords = f.coords.map (P2.shift v) := rfl
  rw [hd, hm, hc]
  rw [idx_map]
  rcases @upperBound F (fieldScalar T) f.depths q.depth (f.depths.length + 1) 0 f.depths.length with e | up
  · rfl
  rcases idx f.coords 0 with e | c0
  · rfl
  show (if q.depth < f.minDepth then _ else _) = (if q.depth < f.minDepth then _ else _)
  split
  · rfl
  rcases @front F f.depths with e | d0
  · rfl
  show (Except.map (fun sel => (P2.shift v sel.1, sel.2)) (@plumeSelect F (fieldScalar T) f q.depth d0 up) >>= _) =
    (@plumeSelect F (fieldScalar T) f q.depth d0 up >>= _)
  rcases @plumeSelect F (fieldScalar T) f q.depth d0 up with e | sel
  · rfl
  exact plumeTail_shift T f v ctx.coord.spherical q.depth d0 _ sel

end field
end Gwb
