/-
Helpers for C19 (trench curve): the cubic pieces of `Objects::BezierCurve` and what `closest_point_on_curve_segment` reports.

* every `Scalar R`: `BezierHit` — whatever the search returns lies on a piece of the curve at the reported parameter, passed
  the acceptance test, carries `sign·sqrt(squared distance)` and the `normal` built from `a t² + b t + c`
  (`closestCartesianLoop_hit`, `closestSphericalLoop_hit`, `Bezier.closestPoint_hit`).
* ordered field: power basis = Bernstein form (`cubicPoint_bernstein`), end points, the derivative point is the true
  derivative, the acceptance window in closed form (`accept_field`).
-/
import GwbVerif.Proofs.MotionBezier
import GwbVerif.Proofs.Guards
namespace Gwb
open Scalar
set_option linter.unusedSectionVars false

section generic
variable {R : Type} [Scalar R]

/-- squared distance to the check point in the Cartesian branch, as the code evaluates it (`d − cp` first) -/
def sqDistC (k : Cubic R) (cp : P2 R) (est : R) : R :=
  let dm0 := k.d.x - cp.x
  let dm1 := k.d.y - cp.y
  let e0 := k.a.x * est * est * est + k.b.x * est * est + k.c.x * est + dm0
  let e1 := k.a.y * est * est * est + k.b.y * est * est + k.c.y * est + dm1
  e0 * e0 + e1 * e1

/-- the vector the code calls `derivative` when it builds the normal: `a t² + b t + c` (bezier_curve.cc:355, :553) -/
def pseudoDerivative (k : Cubic R) (t : R) : P2 R :=
  ⟨k.a.x * t * t + k.b.x * t + k.c.x, k.a.y * t * t + k.b.y * t + k.c.y⟩

/-- `closest_point_on_curve.normal`: the pseudo-derivative turned by −90° and normalised (left as it is when its norm is not positive) -/
def bezierNormal (k : Cubic R) (t : R) : P2 R :=
  let dx := k.a.x * t * t + k.b.x * t + k.c.x
  let dy := k.a.y * t * t + k.b.y * t + k.c.y
  let ns := sqrt (dx * dx + dy * dy)
  if ns > 0.0 then ⟨dy / ns, -dx / ns⟩ else ⟨dx, dy⟩

/-- `derivative_point` (bezier_curve.cc:338, :537) -/
def derivativePoint (p0 p1 c0 c1 : P2 R) (est : R) : P2 R :=
  ⟨p0.x * (((6.0 : R) - (3.0 : R) * est) * est - (3.0 : R)) + c0.x * (est * ((9 : R) * est - (12 : R)) + (3 : R))
      + c1.x * ((6.0 : R) - (9.0 : R) * est) * est + p1.x * (3.0 : R) * est * est,
   p0.y * (((6.0 : R) - (3.0 : R) * est) * est - (3.0 : R)) + c0.y * (est * ((9 : R) * est - (12 : R)) + (3 : R))
      + c1.y * ((6.0 : R) - (9.0 : R) * est) * est + p1.y * (3.0 : R) * est * est⟩

/-- the sign given to the distance: `−1` when `(derivative_point − point_on_curve)·(check_point − point_on_curve) < 0`, else `1` -/
def distanceSign (p0 p1 c0 c1 cp : P2 R) (est : R) (onCurve : P2 R) : R :=
  let dp := derivativePoint p0 p1 c0 c1 est
  if (dp.x - onCurve.x) * (cp.x - onCurve.x) + (dp.y - onCurve.y) * (cp.y - onCurve.y) < 0.0 then -1.0 else 1.0

theorem closestOf_fields (k : Cubic R) (p0 p1 c0 c1 cp : P2 R) (i : Nat) (est msd : R) (oc : P2 R) :
    (closestOf k p0 p1 c0 c1 cp i est msd oc).index = i ∧ (closestOf k p0 p1 c0 c1 cp i est msd oc).fraction = est ∧
    (closestOf k p0 p1 c0 c1 cp i est msd oc).point = oc ∧
    (closestOf k p0 p1 c0 c1 cp i est msd oc).normal = bezierNormal k est ∧
    (closestOf k p0 p1 c0 c1 cp i est msd oc).distance = distanceSign p0 p1 c0 c1 cp est oc * sqrt msd :=
  ⟨rfl, rfl, rfl, rfl, rfl⟩

/-- **what a reported closest point is**: it belongs to piece `index` of the curve (`points[index]`, `points[index+1]`, the two
control points), lies on that cubic at the reported parameter, the parameter passed the acceptance test, the distance is
`± sqrt` of the squared distance `D` of that point, the normal is `bezierNormal` -/
def BezierHit (bz : Bezier R) (cp : P2 R) (D : Cubic R → R → R) (c : ClosestPoint R) : Prop :=
  ∃ p0 p1 c0 c1, bz.points[c.index]? = some p0 ∧ bz.points[c.index + 1]? = some p1 ∧ bz.control[c.index]? = some (c0, c1) ∧
    c.point = cubicPoint (cubicOf p0 p1 c0 c1) c.fraction ∧ accept c.index c.fraction = true ∧
    c.distance = distanceSign p0 p1 c0 c1 cp c.fraction c.point * sqrt (D (cubicOf p0 p1 c0 c1) c.fraction) ∧
    c.normal = bezierNormal (cubicOf p0 p1 c0 c1) c.fraction

theorem closestCartesianLoop_hit (bz : Bezier R) (cp : P2 R) (fuel i : Nat) (minSq : R) (best : Option (ClosestPoint R))
    (hb : ∀ c, best = some c → BezierHit bz cp (fun k t => sqDistC k cp t) c)
    (r : Option (ClosestPoint R)) (hr : closestCartesianLoop bz cp fuel i minSq best = .ok r) :
    ∀ c, r = some c → BezierHit bz cp (fun k t => sqDistC k cp t) c := by
  induction fuel generalizing i minSq best with
  | zero =>
    unfold closestCartesianLoop at hr
    cases hr; exact hb
  | succ fuel ih =>
    rw [closestCartesianLoop_succ] at hr
    split at hr
    · rename_i hi
      cases h1 : idx bz.points i with
      | error e => rw [h1] at hr; cases hr
      | ok p1 =>
        cases h2 : idx bz.points (i + 1) with
        | error e => rw [h1, h2] at hr; cases hr
        | ok p2 =>
          cases h3 : idx bz.control i with
          | error e => rw [h1, h2, h3] at hr; cases hr
          | ok cc =>
            rw [h1, h2, h3] at hr
            simp only [bind, Except.bind] at hr
            split at hr
            · cases hr
            · split at hr
              · rename_i hacc
                refine ih _ _ _ ?_ hr
                intro c hc
                cases hc
                refine ⟨p1, p2, cc.1, cc.2, (idx_ok_iff _ _ _).1 h1, (idx_ok_iff _ _ _).1 h2, (idx_ok_iff _ _ _).1 h3, rfl, ?_, rfl, rfl⟩
                exact hacc.2
              · exact ih _ _ _ hb hr
    · cases hr; exact hb

theorem closestSphericalLoop_hit (bz : Bezier R) (cp : P2 R) (cl : R) (fuel i : Nat) (minSq : R) (best : Option (ClosestPoint R))
    (hb : ∀ c, best = some c → BezierHit bz cp (fun k t => sqDistS cl cp (cubicPoint k t)) c)
    (r : Option (ClosestPoint R)) (hr : closestSphericalLoop bz cp cl fuel i minSq best = .ok r) :
    ∀ c, r = some c → BezierHit bz cp (fun k t => sqDistS cl cp (cubicPoint k t)) c := by
  induction fuel generalizing i minSq best with
  | zero =>
    unfold closestSphericalLoop at hr
    cases hr; exact hb
  | succ fuel ih =>
    unfold closestSphericalLoop at hr
    split at hr
    · rename_i hi
      cases h1 : idx bz.points i with
      | error e => rw [h1] at hr; cases hr
      | ok p1 =>
        cases h2 : idx bz.points (i + 1) with
        | error e => rw [h1, h2] at hr; cases hr
        | ok p2 =>
          cases h3 : idx bz.control i with
          | error e => rw [h1, h2, h3] at hr; cases hr
          | ok cc =>
            obtain ⟨c0, c1⟩ := cc
            rw [h1, h2, h3] at hr
            simp only [bind, Except.bind] at hr
            split at hr
            · cases hr
            · split at hr
              · rename_i hacc
                refine ih _ _ _ ?_ hr
                intro c hc
                cases hc
                refine ⟨p1, p2, c0, c1, (idx_ok_iff _ _ _).1 h1, (idx_ok_iff _ _ _).1 h2, (idx_ok_iff _ _ _).1 h3, rfl, ?_, rfl, rfl⟩
                exact hacc.2
              · exact ih _ _ _ hb hr
    · cases hr; exact hb

/-- the squared distance used by `Bezier.closestPoint`: Euclidean (Cartesian) or the haversine expression (spherical) -/
def bezierSqDist (spherical : Bool) (cp : P2 R) (k : Cubic R) (t : R) : R :=
  if spherical then sqDistS (cos cp.y) cp (cubicPoint k t) else sqDistC k cp t

theorem Bezier.closestPoint_hit (bz : Bezier R) (spherical : Bool) (cp : P2 R) (c : ClosestPoint R)
    (h : bz.closestPoint spherical cp = .ok (some c)) : BezierHit bz cp (bezierSqDist spherical cp) c := by
  unfold Bezier.closestPoint at h
  cases spherical with
  | true =>
    simp only [if_true] at h
    exact closestSphericalLoop_hit bz cp _ _ _ _ _ (fun _ hc => by cases hc) _ h c rfl
  | false =>
    simp only [Bool.false_eq_true, if_false] at h
    exact closestCartesianLoop_hit bz cp _ _ _ _ (fun _ hc => by cases hc) _ h c rfl

end generic

/-! ## ordered fields -/
section field
variable {F : Type} [Field F] [LinearOrder F] [IsStrictOrderedRing F] (T : Transc F)

theorem lit_12_nat : @OfNat.ofNat F 12 (@Scalar.instOfNat F (fieldScalar T) 12) = (12 : F) := by
  show ((_ : ℕ) : F) = _; norm_num
theorem lit_9_nat : @OfNat.ofNat F 9 (@Scalar.instOfNat F (fieldScalar T) 9) = (9 : F) := by
  show ((_ : ℕ) : F) = _; norm_num
theorem lit_3_nat : @OfNat.ofNat F 3 (@Scalar.instOfNat F (fieldScalar T) 3) = (3 : F) := by
  show ((_ : ℕ) : F) = _; norm_num
theorem lit_1em8_dec : @OfScientific.ofScientific F (@Scalar.instOfScientific F (fieldScalar T)) 1 true 8 = (1 / 100000000 : F) := by
  rw [lit_sci]; norm_num

theorem lit_half_dec : @OfScientific.ofScientific F (@Scalar.instOfScientific F (fieldScalar T)) 5 true 1 = (1 / 2 : F) := by
  rw [lit_sci]; norm_num
theorem lit_tenth_dec : @OfScientific.ofScientific F (@Scalar.instOfScientific F (fieldScalar T)) 1 true 1 = (1 / 10 : F) := by
  rw [lit_sci]; norm_num
theorem lit_1_1_dec : @OfScientific.ofScientific F (@Scalar.instOfScientific F (fieldScalar T)) 11 true 1 = (11 / 10 : F) := by
  rw [lit_sci]; norm_num
theorem lit_1em4_dec : @OfScientific.ofScientific F (@Scalar.instOfScientific F (fieldScalar T)) 1 true 4 = (1 / 10000 : F) := by
  rw [lit_sci]; norm_num

/-- the Bernstein form of a cubic Bezier piece -/
def bernstein (p0 p1 c0 c1 : P2 F) (t : F) : P2 F :=
  ⟨(1 - t) ^ 3 * p0.x + 3 * (1 - t) ^ 2 * t * c0.x + 3 * (1 - t) * t ^ 2 * c1.x + t ^ 3 * p1.x,
   (1 - t) ^ 3 * p0.y + 3 * (1 - t) ^ 2 * t * c0.y + 3 * (1 - t) * t ^ 2 * c1.y + t ^ 3 * p1.y⟩

/-- derivative of the Bernstein form with respect to the parameter -/
def bernsteinDeriv (p0 p1 c0 c1 : P2 F) (t : F) : P2 F :=
  ⟨3 * (1 - t) ^ 2 * (c0.x - p0.x) + 6 * (1 - t) * t * (c1.x - c0.x) + 3 * t ^ 2 * (p1.x - c1.x),
   3 * (1 - t) ^ 2 * (c0.y - p0.y) + 6 * (1 - t) * t * (c1.y - c0.y) + 3 * t ^ 2 * (p1.y - c1.y)⟩

/-- the power-basis coefficients of the model, read over the field -/
theorem cubicOf_field (p0 p1 c0 c1 : P2 F) :
    @cubicOf F (fieldScalar T) p0 p1 c0 c1 =
      { a := ⟨3 * c0.x - 3 * c1.x + p1.x - p0.x, 3 * c0.y - 3 * c1.y + p1.y - p0.y⟩
        b := ⟨3 * p0.x - 6 * c0.x + 3 * c1.x, 3 * p0.y - 6 * c0.y + 3 * c1.y⟩
        c := ⟨-3 * p0.x + 3 * c0.x, -3 * p0.y + 3 * c0.y⟩
        d := p0 } := by
  unfold cubicOf
  sfield
  simp only [lit_three_dec, lit_six_dec]

/-- **power basis = Bernstein form** for every parameter value -/
theorem cubicPoint_bernstein (p0 p1 c0 c1 : P2 F) (t : F) :
    @cubicPoint F (fieldScalar T) (@cubicOf F (fieldScalar T) p0 p1 c0 c1) t = bernstein p0 p1 c0 c1 t := by
  rw [cubicOf_field]
  unfold cubicPoint bernstein
  sfield
  simp only [P2.mk.injEq]
  constructor <;> ring

theorem bernstein_zero (p0 p1 c0 c1 : P2 F) : bernstein p0 p1 c0 c1 0 = p0 := by
  unfold bernstein
  cases p0
  simp only [P2.mk.injEq]
  constructor <;> ring

theorem bernstein_one (p0 p1 c0 c1 : P2 F) : bernstein p0 p1 c0 c1 1 = p1 := by
  unfold bernstein
  cases p1
  simp only [P2.mk.injEq]
  constructor <;> ring

/-- `derivative_point` is the derivative of the curve -/
theorem derivativePoint_field (p0 p1 c0 c1 : P2 F) (t : F) :
    @derivativePoint F (fieldScalar T) p0 p1 c0 c1 t = bernsteinDeriv p0 p1 c0 c1 t := by
  unfold derivativePoint bernsteinDeriv
  sfield
  simp only [lit_three_dec, lit_six_dec, lit_nine_dec, lit_12_nat, lit_9_nat, lit_3_nat, P2.mk.injEq]
  constructor <;> ring

/-- the derivative of the power basis `a t³ + b t² + c t + d` is `3a t² + 2b t + c`; it is the Bernstein derivative -/
theorem powerDeriv_field (p0 p1 c0 c1 : P2 F) (t : F) :
    (⟨3 * (@cubicOf F (fieldScalar T) p0 p1 c0 c1).a.x * t ^ 2 + 2 * (@cubicOf F (fieldScalar T) p0 p1 c0 c1).b.x * t
        + (@cubicOf F (fieldScalar T) p0 p1 c0 c1).c.x,
      3 * (@cubicOf F (fieldScalar T) p0 p1 c0 c1).a.y * t ^ 2 + 2 * (@cubicOf F (fieldScalar T) p0 p1 c0 c1).b.y * t
        + (@cubicOf F (fieldScalar T) p0 p1 c0 c1).c.y⟩ : P2 F) = bernsteinDeriv p0 p1 c0 c1 t := by
  rw [cubicOf_field]
  unfold bernsteinDeriv
  simp only [P2.mk.injEq]
  constructor <;> ring

/-- the vector used for the normal is `a t² + b t + c`: it differs from the derivative by `2a t² + b t` -/
theorem pseudoDerivative_field (p0 p1 c0 c1 : P2 F) (t : F) :
    @pseudoDerivative F (fieldScalar T) (@cubicOf F (fieldScalar T) p0 p1 c0 c1) t =
      ⟨(bernsteinDeriv p0 p1 c0 c1 t).x - (2 * (3 * c0.x - 3 * c1.x + p1.x - p0.x) * t ^ 2 + (3 * p0.x - 6 * c0.x + 3 * c1.x) * t),
       (bernsteinDeriv p0 p1 c0 c1 t).y - (2 * (3 * c0.y - 3 * c1.y + p1.y - p0.y) * t ^ 2 + (3 * p0.y - 6 * c0.y + 3 * c1.y) * t)⟩ := by
  rw [cubicOf_field]
  unfold pseudoDerivative bernsteinDeriv
  sfield
  simp only [P2.mk.injEq]
  constructor <;> ring

/-- the reported normal is perpendicular to the pseudo-derivative (when that has positive norm) -/
theorem bezierNormal_perp (k : Cubic F) (t : F)
    (hpos : 0 < T.sqrt ((@pseudoDerivative F (fieldScalar T) k t).x * (@pseudoDerivative F (fieldScalar T) k t).x +
      (@pseudoDerivative F (fieldScalar T) k t).y * (@pseudoDerivative F (fieldScalar T) k t).y)) :
    (@bezierNormal F (fieldScalar T) k t).x * (@pseudoDerivative F (fieldScalar T) k t).x +
      (@bezierNormal F (fieldScalar T) k t).y * (@pseudoDerivative F (fieldScalar T) k t).y = 0 := by
  unfold bezierNormal pseudoDerivative at *
  simp only at hpos ⊢
  have h : @GT.gt F (fieldScalar T).toLT
      (@Scalar.sqrt F (fieldScalar T) ((k.a.x * t * t + k.b.x * t + k.c.x) * (k.a.x * t * t + k.b.x * t + k.c.x) +
        (k.a.y * t * t + k.b.y * t + k.c.y) * (k.a.y * t * t + k.b.y * t + k.c.y)))
      (@OfScientific.ofScientific F (@Scalar.instOfScientific F (fieldScalar T)) 0 true 1) := by
    rw [lit_0_0]; exact hpos
  rw [if_pos h]
  sfield
  have hne := hpos.ne'
  field_simp
  ring

/-- **the acceptance test in closed form** -/
theorem accept_field (i : ℕ) (est : F) :
    @accept F (fieldScalar T) i est = true ↔
      -(1 / 100000000) ≤ est ∧ 0 < (i : F) + est ∧ est - 1 ≤ 1 / 100000000 ∧ est - 1 < (i : F) := by
  unfold accept
  simp only [Bool.and_eq_true, decide_eq_true_eq]
  sfield
  simp only [lit_1em8_dec, and_assoc]

/-- the window: every accepted parameter lies in `[−1e-8, 1 + 1e-8]` -/
theorem accept_window (i : ℕ) (est : F) (h : @accept F (fieldScalar T) i est = true) :
    -(1 / 100000000) ≤ est ∧ est ≤ 1 + 1 / 100000000 := by
  obtain ⟨h1, _, h3, _⟩ := (accept_field T i est).1 h
  exact ⟨h1, by linarith⟩

/-- piece 0 accepts exactly the open interval `(0, 1)` -/
theorem accept_zero (est : F) : @accept F (fieldScalar T) 0 est = true ↔ 0 < est ∧ est < 1 := by
  rw [accept_field]
  simp only [Nat.cast_zero, zero_add]
  constructor
  · rintro ⟨_, h2, _, h4⟩; exact ⟨h2, by linarith⟩
  · rintro ⟨h1, h2⟩
    refine ⟨by linarith [show (0 : F) < 1 / 100000000 by norm_num], h1, by linarith [show (0 : F) < 1 / 100000000 by norm_num], by linarith⟩

/-- every later piece accepts exactly the closed window `[−1e-8, 1 + 1e-8]` -/
theorem accept_succ (i : ℕ) (est : F) :
    @accept F (fieldScalar T) (i + 1) est = true ↔ -(1 / 100000000) ≤ est ∧ est ≤ 1 + 1 / 100000000 := by
  rw [accept_field]
  have hi : (1 : F) ≤ ((i + 1 : ℕ) : F) := by
    push_cast
    have : (0 : F) ≤ (i : F) := Nat.cast_nonneg i
    linarith
  have he : (0 : F) < 1 / 100000000 := by norm_num
  have he1 : (1 : F) / 100000000 < 1 := by norm_num
  constructor
  · rintro ⟨h1, _, h3, _⟩; exact ⟨h1, by linarith⟩
  · rintro ⟨h1, h2⟩
    exact ⟨h1, by linarith, by linarith, by linarith⟩

/-- the Cartesian squared distance of the code is the squared Euclidean distance from the point on the curve -/
theorem sqDistC_field (k : Cubic F) (cp : P2 F) (t : F) :
    @sqDistC F (fieldScalar T) k cp t =
      ((@cubicPoint F (fieldScalar T) k t).x - cp.x) ^ 2 + ((@cubicPoint F (fieldScalar T) k t).y - cp.y) ^ 2 := by
  unfold sqDistC cubicPoint
  sfield
  ring

theorem distanceSign_field (p0 p1 c0 c1 cp : P2 F) (est : F) (oc : P2 F) :
    @distanceSign F (fieldScalar T) p0 p1 c0 c1 cp est oc = 1 ∨ @distanceSign F (fieldScalar T) p0 p1 c0 c1 cp est oc = -1 := by
  unfold distanceSign
  simp only
  split
  · right; sfield
  · left; sfield

end field
end Gwb
