/-
Batching is transparent: for worlds without random models, block `i` of a batched answer is the answer of the
stand-alone request `[ps[i]]`.  Holds for every `Scalar R` (no laws).
-/
import GwbVerif.Proofs.World
namespace Gwb
open Scalar
set_option linter.unusedSectionVars false
variable {R G : Type} [Scalar R] [RandGen G R]

/-! ### which models draw random numbers -/

def CompModel.isRandom : CompModel R → Bool
  | .random .. => true
  | .uniform .. => false
  | .tianWater .. => false

def GrainsModel.isRandom : GrainsModel R → Bool
  | .uniform .. => false
  | .randomUniform .. => true
  | .randomUniformDeflected .. => true

def Models.NoRandom (ms : Models R) : Prop :=
  (∀ m ∈ ms.comps, m.isRandom = false) ∧ (∀ m ∈ ms.grains, m.isRandom = false)

/-- the grains models of slabs and faults that draw random numbers (`drawn` is what `LineGrains.prepare` leaves behind: it draws nothing) -/
def LineGrains.isRandom : LineGrains R → Bool
  | .uniform .. => false
  | .randomUniform .. => true
  | .randomUniformDeflected .. => true
  | .drawn .. => false

def Segment.NoRandom (s : Segment R) : Prop := ∀ m ∈ s.grains, m.isRandom = false

/-- slabs and faults: no random grains model in any segment of any section (their only models that draw random numbers) -/
def Feature.NoRandom : Feature R → Prop
  | .area a => a.models.NoRandom
  | .plume p => p.models.NoRandom
  | .line l => ∀ sec ∈ l.sections, ∀ s ∈ sec, s.NoRandom

def Hit.NoRandom : Hit R → Prop
  | .areaLike _ ms .. => ms.NoRandom
  | .line _ h => h.cur.NoRandom ∧ h.next.NoRandom

def World.NoRandom (w : World R) : Prop := ∀ f ∈ w.features, f.NoRandom

theorem Feature.cover_noRandom (f : Feature R) (hnr : f.NoRandom) (ctx : Ctx R) (q : Query R) (hit : Hit R)
    (h : f.cover ctx q = .ok (some hit)) : hit.NoRandom := by
  cases f with
  | area a =>
    simp only [Feature.cover] at h
    cases hc : a.covers ctx q with
    | error e => simp [hc, Except.map] at h
    | ok o => cases o <;> simp [hc, Except.map] at h; subst h; exact hnr
  | plume p =>
    simp only [Feature.cover] at h
    cases hc : p.covers ctx q with
    | error e => simp [hc, Except.map] at h
    | ok o => cases o <;> simp [hc, Except.map] at h; subst h; exact hnr
  | line l =>
    simp only [Feature.cover] at h
    cases hc : l.covers ctx q with
    | error e => simp [hc, Except.map] at h
    | ok o =>
      cases o with
      | none => simp [hc, Except.map] at h
      | some lh =>
        simp [hc, Except.map] at h; subst h
        obtain ⟨⟨s1, hs1, hc1⟩, ⟨s2, hs2, hc2⟩⟩ := l.covers_mem ctx q lh hc
        exact ⟨hnr s1 hs1 _ hc1, hnr s2 hs2 _ hc2⟩

theorem CompModel.get_stateIndep (m : CompModel R) (h : m.isRandom = false) (ctx : Ctx R) (q : Query R) (n : Nat) (old : R) :
    StateIndep (G := G) (m.get ctx q n old) := by
  cases m with
  | random => simp [CompModel.isRandom] at h
  | tianWater rng op comps spec =>
    unfold CompModel.get
    refine StateIndep.bind (StateIndep.liftE _) fun r => ?_
    split
    · exact StateIndep.pure _
    · refine StateIndep.bind (StateIndep.liftE _) fun _ => ?_
      split
      · exact StateIndep.pure _
      · split <;> exact StateIndep.pure _
  | uniform rng op comps fr =>
    unfold CompModel.get
    refine StateIndep.bind (StateIndep.liftE _) fun r => ?_
    split
    · exact StateIndep.pure _
    · split
      · exact StateIndep.bind (StateIndep.liftE _) fun _ => StateIndep.pure _
      · split <;> exact StateIndep.pure _

theorem GrainsModel.get_stateIndep (m : GrainsModel R) (h : m.isRandom = false) (ctx : Ctx R) (q : Query R) (n : Nat) (old : Grains R) :
    StateIndep (G := G) (m.get ctx q n old) := by
  cases m with
  | randomUniform => simp [GrainsModel.isRandom] at h
  | randomUniformDeflected => simp [GrainsModel.isRandom] at h
  | uniform rng comps mats sizes =>
    unfold GrainsModel.get
    refine StateIndep.bind (StateIndep.liftE _) fun r => ?_
    split
    · exact StateIndep.pure _
    · split
      · exact StateIndep.pure _
      · exact StateIndep.bind (StateIndep.liftE _) fun _ => StateIndep.bind (StateIndep.liftE _) fun _ => StateIndep.pure _

theorem foldlM_stateIndep_mem {α β : Type} (f : β → α → QM G β) (xs : List α) (hf : ∀ b, ∀ a ∈ xs, StateIndep (f b a)) (b : β) :
    StateIndep (xs.foldlM f b) := by
  induction xs generalizing b with
  | nil => simpa [List.foldlM] using StateIndep.pure b
  | cons x xs ih =>
    rw [List.foldlM_cons]
    exact StateIndep.bind (hf b x (by simp)) (fun b' => ih (fun b a ha => hf b a (by simp [ha])) b')

theorem paintAt_stateIndep (tag : Nat) (ms : Models R) (hnr : ms.NoRandom) (ctx : Ctx R) (q : Query R) (fMin fMax rel : R)
    (p : Req) (e : Nat) (out : List R) : StateIndep (G := G) (paintAt tag ms ctx q fMin fMax rel p e out) := by
  obtain ⟨hc, hg⟩ := hnr
  unfold paintAt
  split
  · exact StateIndep.bind (StateIndep.liftE _) fun _ => StateIndep.bind (StateIndep.liftE _) fun _ => StateIndep.pure _
  · refine StateIndep.bind (StateIndep.liftE _) fun _ => StateIndep.bind ?_ fun _ => StateIndep.pure _
    exact foldlM_stateIndep_mem _ _ (fun b a ha => CompModel.get_stateIndep a (hc a ha) ctx q _ b) _
  · refine StateIndep.bind ?_ fun _ => StateIndep.pure _
    exact foldlM_stateIndep_mem _ _ (fun b a ha => GrainsModel.get_stateIndep a (hg a ha) ctx q _ b) _
  · exact StateIndep.pure _
  · exact StateIndep.bind (StateIndep.liftE _) fun _ => StateIndep.pure _
  · exact StateIndep.throw _

theorem mapM_stateIndep_mem {α β : Type} (f : α → QM G β) (xs : List α) (hf : ∀ a ∈ xs, StateIndep (f a)) :
    StateIndep (xs.mapM f) := by
  induction xs with
  | nil => simpa using StateIndep.pure (G := G) ([] : List β)
  | cons x xs ih =>
    rw [List.mapM_cons]
    exact StateIndep.bind (hf x (by simp)) fun b =>
      StateIndep.bind (ih (fun a ha => hf a (by simp [ha]))) fun bs => StateIndep.pure _

/-- a grains model that is not random is left alone by the preparation, without a draw -/
theorem LineGrains.prepare_stateIndep (m : LineGrains R) (h : m.isRandom = false) (isFault : Bool) (pd : PlaneDist R) (n : Nat)
    (g0 : Grains R) : StateIndep (G := G) (m.prepare isFault pd n g0) := by
  cases m with
  | randomUniform => simp [LineGrains.isRandom] at h
  | randomUniformDeflected => simp [LineGrains.isRandom] at h
  | uniform mn mx comps mats sizes => exact StateIndep.pure _
  | drawn g => exact StateIndep.pure _

theorem Segment.prepare_stateIndep (s : Segment R) (hnr : s.NoRandom) (isFault : Bool) (q : Query R) (pd : PlaneDist R) (p : Req)
    (g0 : Grains R) : StateIndep (G := G) (s.prepare isFault q pd p g0) := by
  unfold Segment.prepare
  split
  · exact StateIndep.bind (StateIndep.liftE _) fun _ => StateIndep.pure _
  · exact StateIndep.bind (mapM_stateIndep_mem _ _ (fun m hm => LineGrains.prepare_stateIndep m (hnr m hm) isFault pd p.n g0))
      fun _ => StateIndep.pure _
  · exact StateIndep.pure _

theorem linePaintAtM_stateIndep (f : LineFeature R) (ctx : Ctx R) (q : Query R) (h : LineHit R)
    (hnr : h.cur.NoRandom ∧ h.next.NoRandom) (p : Req) (e : Nat) (out : List R) :
    StateIndep (G := G) (linePaintAtM f ctx q h p e out) := by
  unfold linePaintAtM LineHit.prepare
  refine StateIndep.bind ?_ fun _ => StateIndep.liftE _
  exact StateIndep.bind (Segment.prepare_stateIndep h.cur hnr.1 f.isFault q h.pd p _) fun _ =>
    StateIndep.bind (Segment.prepare_stateIndep h.next hnr.2 f.isFault q h.pd p _) fun _ => StateIndep.pure _

theorem Hit.paintAt_stateIndep (hit : Hit R) (hnr : hit.NoRandom) (ctx : Ctx R) (q : Query R)
    (p : Req) (e : Nat) (out : List R) : StateIndep (G := G) (hit.paintAt ctx q p e out) := by
  cases hit with
  | areaLike tag ms a b r => exact Gwb.paintAt_stateIndep tag ms hnr ctx q a b r p e out
  | line f h => exact linePaintAtM_stateIndep f ctx q h hnr p e out

/-! ### block `i` of the batched loop is the single-request loop -/

theorem paintBlocks_stateIndep (hit : Hit R) (hnr : hit.NoRandom) (ctx : Ctx R) (q : Query R)
    (ps : List Req) (bs : List (List R)) : StateIndep (G := G) (paintBlocks hit ctx q ps bs) := by
  induction ps generalizing bs with
  | nil => unfold paintBlocks; exact StateIndep.pure _
  | cons p ps ih =>
    cases bs with
    | nil => unfold paintBlocks; exact StateIndep.pure _
    | cons b bs =>
      unfold paintBlocks
      exact StateIndep.bind (Hit.paintAt_stateIndep hit hnr ctx q p 0 b) fun _ =>
        StateIndep.bind (ih bs) fun _ => StateIndep.pure _

theorem paintBlocks_nth (hit : Hit R) (hnr : hit.NoRandom) (ctx : Ctx R) (q : Query R)
    (ps : List Req) (bs bs' : List (List R)) (g g' : G)
    (h : paintBlocks hit ctx q ps bs g = .ok (bs', g'))
    (i : Nat) (p : Req) (b : List R) (hp : ps[i]? = some p) (hb : bs[i]? = some b) :
    g' = g ∧ ∃ b', bs'[i]? = some b' ∧ ∀ g₂ : G, hit.paintAt ctx q p 0 b g₂ = .ok (b', g₂) := by
  refine ⟨((paintBlocks_stateIndep (G := G) hit hnr ctx q ps bs).ok_any h).1, ?_⟩
  induction ps generalizing bs bs' g g' i with
  | nil => simp at hp
  | cons p0 ps ih =>
    cases bs with
    | nil => simp at hb
    | cons b0 bs =>
      simp only [paintBlocks, QM.bind_apply] at h
      cases h0 : hit.paintAt ctx q p0 0 b0 g with
      | error e => simp [h0] at h
      | ok r0 =>
        obtain ⟨b0', g1⟩ := r0
        simp only [h0] at h
        have hsi := (Hit.paintAt_stateIndep (G := G) hit hnr ctx q p0 0 b0).ok_any h0
        obtain ⟨rfl, hany⟩ := hsi
        cases h1 : paintBlocks hit ctx q ps bs g1 with
        | error e => simp [h1] at h
        | ok r1 =>
          obtain ⟨bs1, g2⟩ := r1
          simp only [h1, QM.pure_apply, Except.ok.injEq, Prod.mk.injEq] at h
          obtain ⟨rfl, rfl⟩ := h
          cases i with
          | zero =>
            simp only [List.getElem?_cons_zero, Option.some.injEq] at hp hb
            subst hp; subst hb
            exact ⟨b0', by simp, hany⟩
          | succ i =>
            simp only [List.getElem?_cons_succ] at hp hb
            obtain ⟨b', hb', hall⟩ := ih bs bs1 g1 g2 h1 i hp hb
            exact ⟨b', by simpa using hb', hall⟩

theorem Feature.applyBlocks_nth (f : Feature R) (hnr : f.NoRandom) (ctx : Ctx R) (q : Query R)
    (ps : List Req) (bs bs' : List (List R)) (g g' : G)
    (h : f.applyBlocks ctx q ps bs g = .ok (bs', g'))
    (i : Nat) (p : Req) (b : List R) (hp : ps[i]? = some p) (hb : bs[i]? = some b) :
    g' = g ∧ ∃ b', bs'[i]? = some b' ∧ ∀ g₂ : G, f.applyBlocks ctx q [p] [b] g₂ = .ok ([b'], g₂) := by
  unfold Feature.applyBlocks at h ⊢
  cases hc : f.cover ctx q with
  | error e => simp [hc] at h
  | ok o =>
    cases o with
    | none =>
      simp only [hc, Except.ok.injEq, Prod.mk.injEq] at h
      obtain ⟨rfl, rfl⟩ := h
      exact ⟨rfl, b, hb, fun _ => rfl⟩
    | some hit =>
      simp only [hc] at h
      obtain ⟨hg, b', hb', hall⟩ := paintBlocks_nth hit (Feature.cover_noRandom f hnr ctx q hit hc) ctx q ps bs bs' g g' h i p b hp hb
      refine ⟨hg, b', hb', fun g₂ => ?_⟩
      simp only [paintBlocks, QM.bind_apply, hall g₂, QM.pure_apply]

theorem featuresBlocks_nth (fs : List (Feature R)) (hnr : ∀ f ∈ fs, f.NoRandom) (ctx : Ctx R) (q : Query R)
    (ps : List Req) (bs bs' : List (List R)) (g g' : G)
    (h : featuresBlocks fs ctx q ps bs g = .ok (bs', g'))
    (i : Nat) (p : Req) (b : List R) (hp : ps[i]? = some p) (hb : bs[i]? = some b) :
    g' = g ∧ ∃ b', bs'[i]? = some b' ∧ ∀ g₂ : G, featuresBlocks fs ctx q [p] [b] g₂ = .ok ([b'], g₂) := by
  induction fs generalizing bs b g with
  | nil =>
    simp only [featuresBlocks, List.foldlM_nil, QM.pure_apply, Except.ok.injEq, Prod.mk.injEq] at h
    obtain ⟨rfl, rfl⟩ := h
    exact ⟨rfl, b, hb, fun _ => rfl⟩
  | cons f fs ih =>
    simp only [featuresBlocks, List.foldlM_cons, QM.bind_apply] at h
    cases h0 : f.applyBlocks ctx q ps bs g with
    | error e => simp [h0] at h
    | ok r0 =>
      obtain ⟨bs1, g1⟩ := r0
      simp only [h0] at h
      obtain ⟨rfl, b1, hb1, hall1⟩ := Feature.applyBlocks_nth f (hnr f (by simp)) ctx q ps bs bs1 g g1 h0 i p b hp hb
      obtain ⟨hg, b', hb', hall⟩ := ih (fun f hf => hnr f (by simp [hf])) bs1 g1 h b1 hb1
      refine ⟨hg, b', hb', fun g₂ => ?_⟩
      simp only [featuresBlocks, List.foldlM_cons, QM.bind_apply, hall1 g₂]
      exact hall g₂

theorem reimposeBlocks_nth (ctx : Ctx R) (depth : R) (ps : List Req) (bs : List (List R))
    (i : Nat) (p : Req) (b : List R) (hp : ps[i]? = some p) (hb : bs[i]? = some b) :
    (reimposeBlocks ctx depth ps bs)[i]? = some (if forcedSurface ctx depth && p.code == 1 then [ctx.surfaceT] else b) := by
  induction ps generalizing bs i with
  | nil => simp at hp
  | cons p0 ps ih =>
    cases bs with
    | nil => simp at hb
    | cons b0 bs =>
      cases i with
      | zero =>
        simp only [List.getElem?_cons_zero, Option.some.injEq] at hp hb
        subst hp; subst hb
        simp [reimposeBlocks]
      | succ i =>
        simp only [List.getElem?_cons_succ] at hp hb
        simp only [reimposeBlocks, List.getElem?_cons_succ]
        exact ih bs i hp hb

theorem mapM_nth (ctx : Ctx R) (gn depth : R) (ps : List Req) (bs : List (List R))
    (h : ps.mapM (initBlock ctx gn depth) = .ok bs) (i : Nat) (p : Req) (hp : ps[i]? = some p) :
    ∃ b, bs[i]? = some b ∧ initBlock ctx gn depth p = .ok b := by
  induction ps generalizing bs i with
  | nil => simp at hp
  | cons p0 ps ih =>
    rw [List.mapM_cons] at h
    cases hb : initBlock ctx gn depth p0 with
    | error e => simp [hb, bind, Except.bind] at h
    | ok b0 =>
      cases hbs : ps.mapM (initBlock ctx gn depth) with
      | error e => simp [hb, hbs, bind, Except.bind] at h
      | ok bs0 =>
        simp [hb, hbs, bind, Except.bind, pure, Except.pure] at h
        subst h
        cases i with
        | zero =>
          simp only [List.getElem?_cons_zero, Option.some.injEq] at hp
          subst hp
          exact ⟨b0, by simp, hb⟩
        | succ i =>
          simp only [List.getElem?_cons_succ] at hp
          obtain ⟨b, hb', hi⟩ := ih bs0 hbs i hp
          exact ⟨b, by simpa using hb', hi⟩

/-- **block `i` of a batched answer is the stand-alone answer** (block form) -/
theorem World.props3Blocks_nth (w : World R) (hnr : w.NoRandom) (pt : P3 R) (depth : R)
    (ps : List Req) (bs' : List (List R)) (g g' : G)
    (h : w.props3Blocks pt depth ps g = .ok (bs', g'))
    (i : Nat) (p : Req) (hp : ps[i]? = some p) :
    g' = g ∧ ∃ b', bs'[i]? = some b' ∧ ∀ g₂ : G, w.props3Blocks pt depth [p] g₂ = .ok ([b'], g₂) := by
  unfold World.props3Blocks at h
  cases hinit : ps.mapM (initBlock w.ctx w.ctx.gravity depth) with
  | error e => simp [hinit] at h
  | ok bs =>
    simp only [hinit] at h
    obtain ⟨b, hb, hib⟩ := mapM_nth w.ctx w.ctx.gravity depth ps bs hinit i p hp
    have hsingle : [p].mapM (initBlock w.ctx w.ctx.gravity depth) = .ok [b] := by
      simp [List.mapM_cons, hib, bind, Except.bind, pure, Except.pure]
    by_cases hearly : earlyReturn w.ctx depth ps = true
    · -- the batched request itself is the one-entry request
      simp only [hearly, if_true, Except.ok.injEq, Prod.mk.injEq] at h
      obtain ⟨rfl, rfl⟩ := h
      have hps : ps = [p] := by
        match ps, hearly, hp with
        | [p0], _, hp =>
          cases i with
          | zero => simp at hp; subst hp; rfl
          | succ i => simp at hp
        | [], he, _ => simp [earlyReturn] at he
        | _ :: _ :: _, he, _ => simp [earlyReturn] at he
      subst hps
      refine ⟨rfl, b, hb, fun g₂ => ?_⟩
      unfold World.props3Blocks
      simp [hsingle, hearly]
    · simp only [hearly, Bool.false_eq_true, if_false] at h
      cases hfb : featuresBlocks w.features w.ctx (w.query pt depth) ps bs g with
      | error e => simp [hfb] at h
      | ok r =>
        obtain ⟨bs1, g1⟩ := r
        simp only [hfb, Except.ok.injEq, Prod.mk.injEq] at h
        obtain ⟨rfl, rfl⟩ := h
        obtain ⟨hg, b1, hb1, hall⟩ := featuresBlocks_nth w.features hnr w.ctx _ ps bs bs1 g g1 hfb i p b hp hb
        have hre := reimposeBlocks_nth w.ctx depth ps bs1 i p b1 hp hb1
        refine ⟨hg, _, hre, fun g₂ => ?_⟩
        unfold World.props3Blocks
        simp only [hsingle]
        by_cases he1 : earlyReturn w.ctx depth [p] = true
        · -- single request returns early with the forced surface temperature; the batched block was re-imposed
          simp only [he1, if_true]
          have hcode : p.code = 1 ∧ forcedSurface w.ctx depth = true := by
            simpa [earlyReturn] using he1
          have hbT : b = [w.ctx.surfaceT] := by
            obtain ⟨code, n, k⟩ := p
            simp only at hcode
            obtain ⟨rfl, hfo⟩ := hcode
            simp [initBlock, hfo] at hib
            exact hib.symm
          simp [hcode.1, hcode.2, hbT]
        · simp only [he1, Bool.false_eq_true, if_false, hall g₂]
          simp [reimposeBlocks]

end Gwb
