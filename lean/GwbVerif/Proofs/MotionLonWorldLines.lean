/-
C08 for worlds that contain slabs and faults, and for the ridge of the `mass conserving` slab temperature model.

1. the world relations `FeatureTempAlias` / `FeatureAlias` of `MotionLonFeatures.lean` extended by the `line` case (`FeatureTempAliasL`,
   `FeatureAliasL`): a slab / fault whose trench, trench curve and dip point are written `k` turns away (`LineFeature.lonShiftGeom`), `k` chosen
   per feature; `World.temperaturePure_lon_alias_lines`, `World.props3_lon_alias_lines`.
2. `MassConserving.get` with its ridge coordinates written `kR` turns away (`MassConserving.lonShift`): composition of the ridge kernel
   theorem `ridge_lon_alias` (`MotionLonFeatures.lean`) with `MassConserving.get`.  The point handed to the ridge kernel is
   `ctx.coord.toNatural pd.closestTrenchPoint`: the CARTESIAN closest trench point converted back with `atan2`, so it carries the canonical
   longitude whatever alias the trench was written in.

Nothing is re-proved; `d := 2πk`, `p' := p`, `j := −k` as in the other feature-level files.
-/
import GwbVerif.Proofs.MotionLonLines
namespace Gwb
open Scalar
set_option linter.unusedSectionVars false
set_option linter.unusedVariables false

/-! ### the `mass conserving` slab temperature: its ridge re-described -/

section generic
variable {R : Type} [Scalar R]

/-- the model with another `RidgeSpec` (coordinates and spreading velocities of its mid-oceanic ridges) -/
def MassConserving.withRidge (m : MassConserving R) (r : RidgeSpec R) : MassConserving R := { m with ridge := r }

@[simp] theorem MassConserving.withRidge_ridge (m : MassConserving R) (r : RidgeSpec R) : (m.withRidge r).ridge = r := rfl
@[simp] theorem MassConserving.withRidge_mn (m : MassConserving R) (r : RidgeSpec R) : (m.withRidge r).mn = m.mn := rfl
@[simp] theorem MassConserving.withRidge_mx (m : MassConserving R) (r : RidgeSpec R) : (m.withRidge r).mx = m.mx := rfl
@[simp] theorem MassConserving.withRidge_op (m : MassConserving R) (r : RidgeSpec R) : (m.withRidge r).op = m.op := rfl
@[simp] theorem MassConserving.withRidge_density (m : MassConserving R) (r : RidgeSpec R) : (m.withRidge r).density = m.density := rfl
@[simp] theorem MassConserving.withRidge_conductivity (m : MassConserving R) (r : RidgeSpec R) :
    (m.withRidge r).conductivity = m.conductivity := rfl
@[simp] theorem MassConserving.withRidge_couplingDepth (m : MassConserving R) (r : RidgeSpec R) :
    (m.withRidge r).couplingDepth = m.couplingDepth := rfl
@[simp] theorem MassConserving.withRidge_forearc (m : MassConserving R) (r : RidgeSpec R) :
    (m.withRidge r).forearcCoolingFactor = m.forearcCoolingFactor := rfl
@[simp] theorem MassConserving.withRidge_taper (m : MassConserving R) (r : RidgeSpec R) : (m.withRidge r).taperDistance = m.taperDistance := rfl
@[simp] theorem MassConserving.withRidge_alpha (m : MassConserving R) (r : RidgeSpec R) : (m.withRidge r).alpha = m.alpha := rfl
@[simp] theorem MassConserving.withRidge_cp (m : MassConserving R) (r : RidgeSpec R) : (m.withRidge r).cp = m.cp := rfl
@[simp] theorem MassConserving.withRidge_kappa (m : MassConserving R) (r : RidgeSpec R) : (m.withRidge r).kappa = m.kappa := rfl
@[simp] theorem MassConserving.withRidge_adiabatic (m : MassConserving R) (r : RidgeSpec R) :
    (m.withRidge r).adiabaticHeating = m.adiabaticHeating := rfl
@[simp] theorem MassConserving.withRidge_potentialT (m : MassConserving R) (r : RidgeSpec R) : (m.withRidge r).potentialT = m.potentialT := rfl
@[simp] theorem MassConserving.withRidge_surfaceT (m : MassConserving R) (r : RidgeSpec R) : (m.withRidge r).surfaceT = m.surfaceT := rfl
@[simp] theorem MassConserving.withRidge_subVel (m : MassConserving R) (r : RidgeSpec R) : (m.withRidge r).subVel = m.subVel := rfl
@[simp] theorem MassConserving.withRidge_migr (m : MassConserving R) (r : RidgeSpec R) : (m.withRidge r).migrationTimes = m.migrationTimes := rfl
@[simp] theorem MassConserving.withRidge_plateRef (m : MassConserving R) (r : RidgeSpec R) : (m.withRidge r).plateRef = m.plateRef := rfl
@[simp] theorem MassConserving.withRidge_applySpline (m : MassConserving R) (r : RidgeSpec R) : (m.withRidge r).applySpline = m.applySpline := rfl
@[simp] theorem MassConserving.withRidge_splineN (m : MassConserving R) (r : RidgeSpec R) : (m.withRidge r).splineNPoints = m.splineNPoints := rfl

/-- the helper series do not read the ridge -/
theorem heatContentSeries_withRidge (m : MassConserving R) (r : RidgeSpec R) (dT svUI t1 t2 : R) :
    ∀ (fuel i : Nat) (hc : R), heatContentSeries (m.withRidge r) dT svUI t1 t2 fuel i hc = heatContentSeries m dT svUI t1 t2 fuel i hc
  | 0, _, _ => rfl
  | fuel + 1, i, hc => by
    unfold heatContentSeries
    exact heatContentSeries_withRidge m r dT svUI t1 t2 fuel (i + 1) _

theorem analyticPlateSeries_withRidge (m : MassConserving R) (r : RidgeSpec R) (minT bg svUI epa adj : R) :
    ∀ (fuel i : Nat) (t : R), analyticPlateSeries (m.withRidge r) minT bg svUI epa adj fuel i t = analyticPlateSeries m minT bg svUI epa adj fuel i t
  | 0, _, _ => rfl
  | fuel + 1, i, t => by
    unfold analyticPlateSeries
    exact analyticPlateSeries_withRidge m r minT bg svUI epa adj fuel (i + 1) _

theorem MassConserving.analytic_withRidge (m : MassConserving R) (r : RidgeSpec R) (thc minT bg old velocity epa adj : R) :
    (m.withRidge r).analytic thc minT bg old velocity epa adj = m.analytic thc minT bg old velocity epa adj := by
  unfold MassConserving.analytic
  simp only [analyticPlateSeries_withRidge, MassConserving.withRidge_mx, MassConserving.withRidge_kappa, MassConserving.withRidge_density,
    MassConserving.withRidge_cp, MassConserving.withRidge_plateRef]

theorem splineSamples_withRidge (m : MassConserving R) (r : RidgeSpec R) (thc minT bg old velocity epa interval : R) :
    ∀ (fuel i : Nat), splineSamples (m.withRidge r) thc minT bg old velocity epa interval fuel i =
      splineSamples m thc minT bg old velocity epa interval fuel i
  | 0, _ => rfl
  | fuel + 1, i => by
    unfold splineSamples
    simp only [splineSamples_withRidge m r thc minT bg old velocity epa interval fuel (i + 1), MassConserving.analytic_withRidge,
      MassConserving.withRidge_mx]

theorem MassConserving.profile_withRidge (m : MassConserving R) (r : RidgeSpec R) (thc minT bg old sv eas adj : R) :
    (m.withRidge r).profile thc minT bg old sv eas adj = m.profile thc minT bg old sv eas adj := by
  unfold MassConserving.profile
  simp only [splineSamples_withRidge, MassConserving.analytic_withRidge, MassConserving.withRidge_mx, MassConserving.withRidge_applySpline,
    MassConserving.withRidge_splineN]

/-- **`MassConserving.get` reads its ridge only through the one call of `calculate_ridge_distance_and_spreading`** at the (canonical) natural
coordinates of the closest trench point -/
theorem MassConserving.get_withRidge (m : MassConserving R) (r : RidgeSpec R) (ctx : Ctx R) (depth g : R) (pd : PlaneDist R)
    (ap : AdditionalParams R) (old : R)
    (h : (pd.distanceFromPlane ≤ m.mx ∧ pd.distanceFromPlane ≥ m.mn) →
      ridgeDistanceAndSpreading ctx.coord.spherical r.ridges r.vels (ctx.coord.toNatural pd.closestTrenchPoint) m.subVel m.migrationTimes =
      ridgeDistanceAndSpreading ctx.coord.spherical m.ridge.ridges m.ridge.vels (ctx.coord.toNatural pd.closestTrenchPoint) m.subVel
        m.migrationTimes) :
    (m.withRidge r).get ctx depth g pd ap old = m.get ctx depth g pd ap old := by
  unfold MassConserving.get
  by_cases hd : pd.distanceFromPlane ≤ m.mx ∧ pd.distanceFromPlane ≥ m.mn
  · have hd' : pd.distanceFromPlane ≤ (m.withRidge r).mx ∧ pd.distanceFromPlane ≥ (m.withRidge r).mn := hd
    rw [if_pos hd, if_pos hd']
    simp only [MassConserving.withRidge_ridge, MassConserving.withRidge_subVel, MassConserving.withRidge_migr, h hd]
    simp only [heatContentSeries_withRidge, MassConserving.profile_withRidge, MassConserving.withRidge_mn, MassConserving.withRidge_mx,
      MassConserving.withRidge_op, MassConserving.withRidge_density, MassConserving.withRidge_conductivity,
      MassConserving.withRidge_couplingDepth, MassConserving.withRidge_forearc, MassConserving.withRidge_taper, MassConserving.withRidge_alpha,
      MassConserving.withRidge_cp, MassConserving.withRidge_kappa, MassConserving.withRidge_adiabatic, MassConserving.withRidge_potentialT,
      MassConserving.withRidge_surfaceT, MassConserving.withRidge_plateRef]
    rfl
  · have hd' : ¬ (pd.distanceFromPlane ≤ (m.withRidge r).mx ∧ pd.distanceFromPlane ≥ (m.withRidge r).mn) := hd
    rw [if_neg hd, if_neg hd']

end generic

section field
variable {F : Type} [Field F] [LinearOrder F] [IsStrictOrderedRing F] (T : Transc F)

/-- the `mass conserving` model with every ridge coordinate written `kR` turns away -/
def MassConserving.lonShift (kR : ℤ) (m : MassConserving F) : MassConserving F := m.withRidge (m.ridge.lonShift T kR)

/-- the (canonical) natural coordinates of the closest trench point: what `MassConserving::get_temperature` hands to the ridge kernel -/
noncomputable def trenchNat (ctx : Ctx F) (pd : PlaneDist F) : P3 F := @CoordSys.toNatural F (fieldScalar T) ctx.coord pd.closestTrenchPoint

/-- the ridge hypothesis of the `mass conserving` model: `RidgeReach` (kernel theorem `C08_ridge_lon_offset`) at the closest trench point —
NOT at the query —, same point before and after; only asked where the model's range test passes -/
def MassConserving.RidgeAliasOk (m : MassConserving F) (ctx : Ctx F) (pd : PlaneDist F) (kR : ℤ) : Prop :=
  (pd.distanceFromPlane ≤ m.mx ∧ pd.distanceFromPlane ≥ m.mn) →
    RidgeReach T ⟨(trenchNat T ctx pd).y, (trenchNat T ctx pd).z⟩ ⟨(trenchNat T ctx pd).y, (trenchNat T ctx pd).z⟩ (2 * T.pi * kR) m.ridge.ridges

/-- **the `mass conserving` temperature with its ridge written `kR` turns away**: same temperature, same error -/
theorem MassConserving.get_lon_alias (hπ : 0 < T.pi) (hP : PeriodLaws T) (hA : AngleAddLaws T) (m : MassConserving F) (ctx : Ctx F)
    (depth g : F) (pd : PlaneDist F) (ap : AdditionalParams F) (kR : ℤ) (hsph : ctx.coord.spherical = true)
    (h : m.RidgeAliasOk T ctx pd kR) (old : F) :
    @MassConserving.get F (fieldScalar T) (m.lonShift T kR) ctx depth g pd ap old = @MassConserving.get F (fieldScalar T) m ctx depth g pd ap old := by
  refine @MassConserving.get_withRidge F (fieldScalar T) m (m.ridge.lonShift T kR) ctx depth g pd ap old (fun hd => ?_)
  rw [hsph]
  exact ridge_lon_alias T hπ hP hA (trenchNat T ctx pd) kR m.ridge.ridges m.ridge.vels m.subVel m.migrationTimes (h hd)

/-- a slab temperature model / an entry of a segment's temperature list with its ridge (if it holds one) written `kR` turns away -/
def SlabTemp.lonShift (kR : ℤ) : SlabTemp F → SlabTemp F
  | .plateModel p => .plateModel p
  | .massConserving m => .massConserving (m.lonShift T kR)

def SegTemp.lonShift (kR : ℤ) : SegTemp F → SegTemp F
  | .basic b => .basic b
  | .slab s => .slab (s.lonShift T kR)

def SlabTemp.RidgeAliasOk (ctx : Ctx F) (pd : PlaneDist F) (kR : ℤ) : SlabTemp F → Prop
  | .plateModel _ => True
  | .massConserving m => m.RidgeAliasOk T ctx pd kR

def SegTemp.RidgeAliasOk (ctx : Ctx F) (pd : PlaneDist F) (kR : ℤ) : SegTemp F → Prop
  | .basic _ => True
  | .slab s => s.RidgeAliasOk T ctx pd kR

theorem SlabTemp.get_lon_alias (hπ : 0 < T.pi) (hP : PeriodLaws T) (hA : AngleAddLaws T) (m : SlabTemp F) (ctx : Ctx F)
    (depth g : F) (pd : PlaneDist F) (ap : AdditionalParams F) (kR : ℤ) (hsph : ctx.coord.spherical = true)
    (h : m.RidgeAliasOk T ctx pd kR) (old : F) :
    @SlabTemp.get F (fieldScalar T) (m.lonShift T kR) ctx depth g pd ap old = @SlabTemp.get F (fieldScalar T) m ctx depth g pd ap old := by
  cases m with
  | plateModel p => rfl
  | massConserving m => exact MassConserving.get_lon_alias T hπ hP hA m ctx depth g pd ap kR hsph h old

theorem SegTemp.get_lon_alias (hπ : 0 < T.pi) (hP : PeriodLaws T) (hA : AngleAddLaws T) (m : SegTemp F) (isFault : Bool) (ctx : Ctx F)
    (depth g : F) (pd : PlaneDist F) (ap : AdditionalParams F) (kR : ℤ) (hsph : ctx.coord.spherical = true)
    (h : m.RidgeAliasOk T ctx pd kR) (old : F) :
    @SegTemp.get F (fieldScalar T) (m.lonShift T kR) isFault ctx depth g pd ap old =
      @SegTemp.get F (fieldScalar T) m isFault ctx depth g pd ap old := by
  cases m with
  | basic b => rfl
  | slab s => exact SlabTemp.get_lon_alias T hπ hP hA s ctx depth g pd ap kR hsph h old

/-- the temperature list of a segment, every ridge `kR` turns away -/
theorem segTemps_foldlM_lon_alias (hπ : 0 < T.pi) (hP : PeriodLaws T) (hA : AngleAddLaws T) (ms : List (SegTemp F)) (isFault : Bool)
    (ctx : Ctx F) (depth g : F) (pd : PlaneDist F) (ap : AdditionalParams F) (kR : ℤ) (hsph : ctx.coord.spherical = true)
    (h : ∀ m ∈ ms, m.RidgeAliasOk T ctx pd kR) (old : F) :
    (ms.map (SegTemp.lonShift T kR)).foldlM (fun t m => @SegTemp.get F (fieldScalar T) m isFault ctx depth g pd ap t) old =
      ms.foldlM (fun t m => @SegTemp.get F (fieldScalar T) m isFault ctx depth g pd ap t) old :=
  foldlM_map_congr _ _ ms (fun m hm t => SegTemp.get_lon_alias T hπ hP hA m isFault ctx depth g pd ap kR hsph (h m hm) t) old

end field

/-! ### slabs and faults whose segments are re-described (generic: any map of the segments that keeps lengths, thicknesses, truncations, angles) -/

section generic
variable {R : Type} [Scalar R]

structure SegGeomSame (g : Segment R → Segment R) : Prop where
  length : ∀ s, (g s).length = s.length
  thickness : ∀ s, (g s).thickness = s.thickness
  topTruncation : ∀ s, (g s).topTruncation = s.topTruncation
  angle : ∀ s, (g s).angle = s.angle

def LineFeature.mapSegments (g : Segment R → Segment R) (f : LineFeature R) : LineFeature R :=
  { f with sections := f.sections.map (List.map g) }

def LineHit.mapSegments (g : Segment R → Segment R) (h : LineHit R) : LineHit R := { h with cur := g h.cur, next := g h.next }

theorem sectionLength_map (g : Segment R → Segment R) (hg : SegGeomSame g) (sec : List (Segment R)) :
    sectionLength (sec.map g) = sectionLength sec := by
  unfold sectionLength
  rw [List.foldl_map]
  simp only [hg.length]

theorem LineFeature.maxTotalLength_mapSegments (g : Segment R → Segment R) (hg : SegGeomSame g) (f : LineFeature R) :
    (f.mapSegments g).maxTotalLength = f.maxTotalLength := by
  unfold LineFeature.maxTotalLength LineFeature.mapSegments
  simp only [List.foldl_map, sectionLength_map g hg]

theorem LineFeature.maxThickness_mapSegments (g : Segment R → Segment R) (hg : SegGeomSame g) (f : LineFeature R) :
    (f.mapSegments g).maxThickness = f.maxThickness := by
  unfold LineFeature.maxThickness LineFeature.mapSegments
  simp only [List.foldl_map, hg.thickness, hg.topTruncation]

theorem LineFeature.lengths_mapSegments (g : Segment R → Segment R) (hg : SegGeomSame g) (f : LineFeature R) :
    (f.mapSegments g).lengths = f.lengths := by
  unfold LineFeature.lengths LineFeature.mapSegments
  simp only [List.map_map, Function.comp_def, hg.length]

theorem LineFeature.anglesRad_mapSegments (g : Segment R → Segment R) (hg : SegGeomSame g) (f : LineFeature R) :
    (f.mapSegments g).anglesRad = f.anglesRad := by
  unfold LineFeature.anglesRad LineFeature.mapSegments
  simp only [List.map_map, Function.comp_def, hg.angle]

theorem LineFeature.bbox_mapSegments (g : Segment R → Segment R) (hg : SegGeomSame g) (f : LineFeature R) (coord : CoordSys R) :
    (f.mapSegments g).bbox coord = f.bbox coord := by
  unfold LineFeature.bbox
  rw [LineFeature.maxTotalLength_mapSegments g hg, LineFeature.maxThickness_mapSegments g hg]
  rfl

theorem LineFeature.preTest_mapSegments (g : Segment R → Segment R) (hg : SegGeomSame g) (f : LineFeature R) (ctx : Ctx R) (q : Query R) :
    (f.mapSegments g).preTest ctx q = f.preTest ctx q := by
  unfold LineFeature.preTest
  rw [LineFeature.bbox_mapSegments g hg, LineFeature.maxTotalLength_mapSegments g hg, LineFeature.maxThickness_mapSegments g hg]
  rfl

theorem LineFeature.coversBody_mapSegments (g : Segment R → Segment R) (hg : SegGeomSame g) (f : LineFeature R) (ctx : Ctx R) (q : Query R) :
    (f.mapSegments g).coversBody ctx q = Except.map (Option.map (LineHit.mapSegments g)) (f.coversBody ctx q) := by
  unfold LineFeature.coversBody
  simp only []
  rw [LineFeature.lengths_mapSegments g hg, LineFeature.anglesRad_mapSegments g hg]
  have e1 : (f.mapSegments g).reference = f.reference := rfl
  have e2 : (f.mapSegments g).coords = f.coords := rfl
  have e3 : (f.mapSegments g).minDepth = f.minDepth := rfl
  have e4 : (f.mapSegments g).isFault = f.isFault := rfl
  have e5 : (f.mapSegments g).bezier = f.bezier := rfl
  have e6 : (f.mapSegments g).sections = f.sections.map (List.map g) := rfl
  rw [e1, e2, e3, e4, e5, e6]
  cases distancePointFromCurvedPlanes ctx.coord q.pt q.nat f.reference f.coords f.lengths f.anglesRad
      (depthCoordinate ctx.coord.spherical q.nat + q.depth - f.minDepth) f.isFault f.bezier with
  | error e => rfl
  | ok pd =>
    simp only [bind, Except.bind, idx_map]
    by_cases h0 : (!decide (fabs pd.distanceFromPlane < Scalar.inf ∨ pd.distanceAlongPlane < Scalar.inf)) = true
    · simp only [h0, if_true]; rfl
    · simp only [h0]
      cases idx f.sections pd.sectionIdx with
      | error e => rfl
      | ok secCur =>
        cases idx f.sections (pd.sectionIdx + 1) with
        | error e => rfl
        | ok secNext =>
          simp only [Except.map, idx_map]
          cases idx secCur pd.segment with
          | error e => rfl
          | ok cur =>
            cases idx secNext pd.segment with
            | error e => rfl
            | ok next =>
              simp only [hg.thickness, hg.topTruncation, sectionLength_map g hg]
              simp only [Bool.false_eq_true, if_false]
              split_ifs <;> rfl

/-- a slab / fault without sections never writes (used for non-vacuity only) -/
theorem LineFeature.covers_ne_some_of_no_sections (f : LineFeature R) (hs : f.sections = []) (ctx : Ctx R) (q : Query R) (h : LineHit R) :
    f.covers ctx q ≠ .ok (some h) := by
  unfold LineFeature.covers LineFeature.coversBody
  cases f.preTest ctx q with
  | error e => intro hc; cases hc
  | ok b =>
    cases b with
    | false => intro hc; simp [bind, Except.bind, pure, Except.pure] at hc
    | true =>
      simp only [bind, Except.bind, Bool.not_true, Bool.false_eq_true, if_false]
      cases distancePointFromCurvedPlanes ctx.coord q.pt q.nat f.reference f.coords f.lengths f.anglesRad
        (depthCoordinate ctx.coord.spherical q.nat + q.depth - f.minDepth) f.isFault f.bezier with
      | error e => intro hc; cases hc
      | ok pd =>
        simp only [hs, idx, List.getElem?_nil]
        split
        · intro hc; simp [pure, Except.pure] at hc
        · intro hc; cases hc
theorem LineFeature.covers_mapSegments (g : Segment R → Segment R) (hg : SegGeomSame g) (f : LineFeature R) (ctx : Ctx R) (q : Query R) :
    (f.mapSegments g).covers ctx q = Except.map (Option.map (LineHit.mapSegments g)) (f.covers ctx q) := by
  unfold LineFeature.covers
  rw [LineFeature.preTest_mapSegments g hg, LineFeature.coversBody_mapSegments g hg]
  cases f.preTest ctx q with
  | error e => rfl
  | ok b => cases b <;> rfl

end generic

section field
variable {F : Type} [Field F] [LinearOrder F] [IsStrictOrderedRing F] (T : Transc F)

/-! ### the slab with the ridges of all its `mass conserving` models re-described -/

/-- a segment with every ridge its temperature models hold written `kR` turns away -/
def Segment.lonShiftRidge (kR : ℤ) (s : Segment F) : Segment F := { s with temps := s.temps.map (SegTemp.lonShift T kR) }

theorem Segment.lonShiftRidge_geomSame (kR : ℤ) : SegGeomSame (Segment.lonShiftRidge T kR) := ⟨fun _ => rfl, fun _ => rfl, fun _ => rfl, fun _ => rfl⟩

/-- the slab / fault with the ridge coordinates of every `mass conserving` temperature model written `kR` turns away (trench unchanged) -/
def LineFeature.lonShiftRidge (kR : ℤ) (f : LineFeature F) : LineFeature F := f.mapSegments (Segment.lonShiftRidge T kR)

/-- trench, trench curve and dip point `k` turns away, ridges `kR` turns away, independently -/
def LineFeature.lonShiftAll (k kR : ℤ) (f : LineFeature F) : LineFeature F := (f.lonShiftGeom T k).lonShiftRidge T kR

/-- the ridge hypotheses of a slab at the query: where the slab writes (`covers` returns a hit), `RidgeReach` at the hit's closest trench
point for every `mass conserving` model of the two segments the hit interpolates between -/
def LineFeature.RidgeAliasOk (f : LineFeature F) (ctx : Ctx F) (q : Query F) (kR : ℤ) : Prop :=
  ∀ h, @LineFeature.covers F (fieldScalar T) f ctx q = .ok (some h) →
    (∀ m ∈ h.cur.temps, m.RidgeAliasOk T ctx h.pd kR) ∧ (∀ m ∈ h.next.temps, m.RidgeAliasOk T ctx h.pd kR)

/-- **`LineFeature.applyTemp`, ridges of the `mass conserving` models `kR` turns away** (trench unchanged) -/
theorem LineFeature.applyTemp_ridge_lon_alias (hπ : 0 < T.pi) (hP : PeriodLaws T) (hA : AngleAddLaws T) (f : LineFeature F) (ctx : Ctx F)
    (q : Query F) (kR : ℤ) (hsph : ctx.coord.spherical = true) (h : f.RidgeAliasOk T ctx q kR) (old : F) :
    @LineFeature.applyTemp F (fieldScalar T) (f.lonShiftRidge T kR) ctx q old = @LineFeature.applyTemp F (fieldScalar T) f ctx q old := by
  unfold LineFeature.applyTemp LineFeature.lonShiftRidge
  rw [@LineFeature.covers_mapSegments F (fieldScalar T) _ (Segment.lonShiftRidge_geomSame T kR)]
  cases hc : @LineFeature.covers F (fieldScalar T) f ctx q with
  | error e => rfl
  | ok o =>
    cases o with
    | none => rfl
    | some hit =>
      obtain ⟨h1, h2⟩ := h hit hc
      have e1 := fun t => segTemps_foldlM_lon_alias T hπ hP hA hit.cur.temps f.isFault ctx q.depth q.gravityNorm hit.pd hit.ap kR hsph h1 t
      have e2 := fun t => segTemps_foldlM_lon_alias T hπ hP hA hit.next.temps f.isFault ctx q.depth q.gravityNorm hit.pd hit.ap kR hsph h2 t
      simp only [Except.map, Option.map, bind, Except.bind, LineHit.mapSegments, Segment.lonShiftRidge, LineFeature.mapSegments, e1, e2]

/-- the ridge hypothesis follows the trench: the hit of the re-described trench is the same hit -/
theorem LineFeature.ridgeAliasOk_lonShiftGeom (hπ : 0 < T.pi) (hH : HalfTurnLaws T) (f : LineFeature F) (ctx : Ctx F) (q : Query F) (k kR : ℤ)
    (hsph : ctx.coord.spherical = true) (h : f.AliasOk T ctx q k) (hr : f.RidgeAliasOk T ctx q kR) :
    (f.lonShiftGeom T k).RidgeAliasOk T ctx q kR := by
  intro hit hc
  rw [LineFeature.covers_lon_alias T hπ hH f ctx q k hsph h] at hc
  exact hr hit hc

/-- **`LineFeature.applyTemp`: trench and dip point `k` turns away, ridges `kR` turns away, independently** -/
theorem LineFeature.applyTemp_lon_alias_all (hπ : 0 < T.pi) (hH : HalfTurnLaws T) (hA : AngleAddLaws T) (f : LineFeature F) (ctx : Ctx F)
    (q : Query F) (k kR : ℤ) (hsph : ctx.coord.spherical = true) (h : f.AliasOk T ctx q k) (hr : f.RidgeAliasOk T ctx q kR) (old : F) :
    @LineFeature.applyTemp F (fieldScalar T) (f.lonShiftAll T k kR) ctx q old = @LineFeature.applyTemp F (fieldScalar T) f ctx q old := by
  unfold LineFeature.lonShiftAll
  rw [LineFeature.applyTemp_ridge_lon_alias T hπ hH.periodLaws hA (f.lonShiftGeom T k) ctx q kR hsph
    (LineFeature.ridgeAliasOk_lonShiftGeom T hπ hH f ctx q k kR hsph h hr) old]
  exact LineFeature.applyTemp_lon_alias T hπ hH f ctx q k hsph h old

/-! #### every property -/

theorem Segment.prepare_lonShiftRidge {G : Type} [@RandGen G F] (kR : ℤ) (s : Segment F) (isFault : Bool) (q : Query F) (pd : PlaneDist F)
    (p : Req) (g0 : Grains F) :
    @Segment.prepare F (fieldScalar T) G _ (s.lonShiftRidge T kR) isFault q pd p g0 =
      (Segment.lonShiftRidge T kR) <$> @Segment.prepare F (fieldScalar T) G _ s isFault q pd p g0 := by
  unfold Segment.prepare
  split
  · simp only [map_bind, map_pure]; rfl
  · simp only [map_bind, map_pure]; rfl
  · simp only [map_pure]

theorem LineHit.prepare_lonShiftRidge {G : Type} [@RandGen G F] (kR : ℤ) (h : LineHit F) (isFault : Bool) (q : Query F)
    (p : Req) (g0 : Grains F) :
    @LineHit.prepare F (fieldScalar T) G _ (h.mapSegments (Segment.lonShiftRidge T kR)) isFault q p g0 =
      (LineHit.mapSegments (Segment.lonShiftRidge T kR)) <$> @LineHit.prepare F (fieldScalar T) G _ h isFault q p g0 := by
  unfold LineHit.prepare
  have e1 : (h.mapSegments (Segment.lonShiftRidge T kR)).cur = h.cur.lonShiftRidge T kR := rfl
  have e2 : (h.mapSegments (Segment.lonShiftRidge T kR)).next = h.next.lonShiftRidge T kR := rfl
  have e3 : (h.mapSegments (Segment.lonShiftRidge T kR)).pd = h.pd := rfl
  rw [e1, e2, e3]
  simp only [Segment.prepare_lonShiftRidge, bind_map_left, map_bind, map_pure]
  rfl

/-- requests other than the temperature do not read the temperature lists -/
theorem linePaintAt_lonShiftRidge_other (kR : ℤ) (f : LineFeature F) (ctx : Ctx F) (q : Query F) (h : LineHit F) (p : Req) (e : Nat)
    (out : List F) (hp : p.code ≠ 1) :
    @linePaintAt F (fieldScalar T) (f.lonShiftRidge T kR) ctx q (h.mapSegments (Segment.lonShiftRidge T kR)) p e out =
      @linePaintAt F (fieldScalar T) f ctx q h p e out := by
  unfold linePaintAt
  split
  · exact absurd (by assumption) hp
  all_goals rfl

theorem linePaintAt_lonShiftRidge_temp (hπ : 0 < T.pi) (hP : PeriodLaws T) (hA : AngleAddLaws T) (kR : ℤ) (f : LineFeature F) (ctx : Ctx F)
    (q : Query F) (h : LineHit F) (p : Req) (e : Nat) (out : List F) (hsph : ctx.coord.spherical = true) (hp : p.code = 1)
    (h1 : ∀ m ∈ h.cur.temps, m.RidgeAliasOk T ctx h.pd kR) (h2 : ∀ m ∈ h.next.temps, m.RidgeAliasOk T ctx h.pd kR) :
    @linePaintAt F (fieldScalar T) (f.lonShiftRidge T kR) ctx q (h.mapSegments (Segment.lonShiftRidge T kR)) p e out =
      @linePaintAt F (fieldScalar T) f ctx q h p e out := by
  have e1 := fun t => segTemps_foldlM_lon_alias T hπ hP hA h.cur.temps f.isFault ctx q.depth q.gravityNorm h.pd h.ap kR hsph h1 t
  have e2 := fun t => segTemps_foldlM_lon_alias T hπ hP hA h.next.temps f.isFault ctx q.depth q.gravityNorm h.pd h.ap kR hsph h2 t
  unfold linePaintAt
  simp only [hp, LineHit.mapSegments, Segment.lonShiftRidge, LineFeature.lonShiftRidge, LineFeature.mapSegments, e1, e2]

theorem linePaintAtM_lonShiftRidge {G : Type} [@RandGen G F] (hπ : 0 < T.pi) (hP : PeriodLaws T) (hA : AngleAddLaws T) (kR : ℤ)
    (f : LineFeature F) (ctx : Ctx F)
    (q : Query F) (h : LineHit F) (p : Req) (e : Nat) (out : List F) (hsph : ctx.coord.spherical = true)
    (h1 : ∀ m ∈ h.cur.temps, m.RidgeAliasOk T ctx h.pd kR) (h2 : ∀ m ∈ h.next.temps, m.RidgeAliasOk T ctx h.pd kR) :
    @linePaintAtM F (fieldScalar T) G _ (f.lonShiftRidge T kR) ctx q (h.mapSegments (Segment.lonShiftRidge T kR)) p e out =
      @linePaintAtM F (fieldScalar T) G _ f ctx q h p e out := by
  unfold linePaintAtM
  have e0 : (f.lonShiftRidge T kR).isFault = f.isFault := rfl
  rw [e0, LineHit.prepare_lonShiftRidge, bind_map_left]
  by_cases hp : p.code = 1
  · have hprep : ∀ g0, @LineHit.prepare F (fieldScalar T) G _ h f.isFault q p g0 = pure h := by
      intro g0
      unfold LineHit.prepare Segment.prepare
      simp only [hp, pure_bind]
    simp only [hprep, pure_bind, linePaintAt_lonShiftRidge_temp T hπ hP hA kR f ctx q h p e out hsph hp h1 h2]
  · simp only [linePaintAt_lonShiftRidge_other T kR f ctx q _ p e out hp]

theorem LineFeature.apply_ridge_lon_alias {G : Type} [@RandGen G F] (hπ : 0 < T.pi) (hP : PeriodLaws T) (hA : AngleAddLaws T)
    (f : LineFeature F) (ctx : Ctx F) (q : Query F) (kR : ℤ) (hsph : ctx.coord.spherical = true) (h : f.RidgeAliasOk T ctx q kR)
    (pes : List (Req × Nat)) (out : List F) :
    @LineFeature.apply F (fieldScalar T) G _ (f.lonShiftRidge T kR) ctx q pes out = @LineFeature.apply F (fieldScalar T) G _ f ctx q pes out := by
  unfold LineFeature.apply
  have hc' : @LineFeature.covers F (fieldScalar T) (f.lonShiftRidge T kR) ctx q =
      Except.map (Option.map (LineHit.mapSegments (Segment.lonShiftRidge T kR))) (@LineFeature.covers F (fieldScalar T) f ctx q) :=
    @LineFeature.covers_mapSegments F (fieldScalar T) _ (Segment.lonShiftRidge_geomSame T kR) f ctx q
  rw [hc']
  cases hc : @LineFeature.covers F (fieldScalar T) f ctx q with
  | error e => rfl
  | ok o =>
    cases o with
    | none => rfl
    | some hit =>
      obtain ⟨h1, h2⟩ := h hit hc
      have hl : ∀ x : Option (LineHit F), (liftE (Except.ok x) : QM G (Option (LineHit F))) = pure x := fun x => rfl
      simp only [Except.map, Option.map, hl, pure_bind, linePaintAtM_lonShiftRidge T hπ hP hA kR f ctx q hit _ _ _ hsph h1 h2]

/-- **`LineFeature.apply`: trench and dip point `k` turns away, ridges `kR` turns away, independently** (every property, random draws
included) -/
theorem LineFeature.apply_lon_alias_all {G : Type} [@RandGen G F] (hπ : 0 < T.pi) (hH : HalfTurnLaws T) (hA : AngleAddLaws T)
    (f : LineFeature F) (ctx : Ctx F) (q : Query F) (k kR : ℤ) (hsph : ctx.coord.spherical = true) (h : f.AliasOk T ctx q k)
    (hr : f.RidgeAliasOk T ctx q kR) (pes : List (Req × Nat)) (out : List F) :
    @LineFeature.apply F (fieldScalar T) G _ (f.lonShiftAll T k kR) ctx q pes out = @LineFeature.apply F (fieldScalar T) G _ f ctx q pes out := by
  unfold LineFeature.lonShiftAll
  rw [LineFeature.apply_ridge_lon_alias T hπ hH.periodLaws hA (f.lonShiftGeom T k) ctx q kR hsph
    (LineFeature.ridgeAliasOk_lonShiftGeom T hπ hH f ctx q k kR hsph h hr) pes out]
  exact LineFeature.apply_lon_alias T hπ hH f ctx q k hsph h pes out

theorem LineFeature.covers_worldT (f : LineFeature F) (ctx : Ctx F) (q : Query F) (t : Unit → Except Err F) :
    @LineFeature.covers F (fieldScalar T) f ctx { q with worldT := t } = @LineFeature.covers F (fieldScalar T) f ctx q := rfl

theorem LineFeature.ridgeAliasOk_worldT (f : LineFeature F) (ctx : Ctx F) (q : Query F) (t : Unit → Except Err F) (kR : ℤ) :
    f.RidgeAliasOk T ctx { q with worldT := t } kR ↔ f.RidgeAliasOk T ctx q kR := by
  unfold LineFeature.RidgeAliasOk
  rw [LineFeature.covers_worldT]

end field

section field
variable {F : Type} [Field F] [LinearOrder F] [IsStrictOrderedRing F] (T : Transc F)

/-! ### whole worlds with slabs and faults: `World.temperaturePure` -/

/-- one feature of the re-described world against the corresponding feature of the original: the same feature, or an area feature / a plume /
a slab or fault written `k` turns away with the ridges of its `mass conserving` models `kR` turns away (`k`, `kR` chosen per feature) for which the kernel hypotheses hold at the query -/
inductive FeatureTempAliasL (ctx : Ctx F) (q : Query F) : Feature F → Feature F → Prop
  | same (f : Feature F) : FeatureTempAliasL ctx q f f
  | area (a : AreaFeature F) (k : ℤ) (hpoly : PolygonAliasOk T a.coords (surfacePoint true q.nat) k)
      (hrng : a.rng.AliasOk T (surfacePoint true q.nat) k) (hm : ∀ m ∈ a.models.temps, m.AliasOk T ctx q k k) :
      FeatureTempAliasL ctx q (.area (a.lonShift T k)) (.area a)
  | plume (p : PlumeFeature F) (k : ℤ) (h : p.AliasOk T q k) (hm : ∀ m ∈ p.models.temps, m.AliasOk T ctx q k k) :
      FeatureTempAliasL ctx q (.plume (p.lonShift T k)) (.plume p)
  | line (l : LineFeature F) (k kR : ℤ) (h : l.AliasOk T ctx q k) (hr : l.RidgeAliasOk T ctx q kR) :
      FeatureTempAliasL ctx q (.line (l.lonShiftAll T k kR)) (.line l)

/-- the relation without lines is a special case -/
theorem FeatureTempAlias.toL (ctx : Ctx F) (q : Query F) (f' f : Feature F) (h : FeatureTempAlias T ctx q f' f) :
    FeatureTempAliasL T ctx q f' f := by
  cases h with
  | same => exact .same _
  | area a k hpoly hrng hm => exact .area a k hpoly hrng hm
  | plume p k h hm => exact .plume p k h hm

theorem Feature.applyTemp_lon_alias_lines (hπ : 0 < T.pi) (hH : HalfTurnLaws T) (hA : AngleAddLaws T) (ctx : Ctx F) (q : Query F)
    (hsph : ctx.coord.spherical = true) (f' f : Feature F) (h : FeatureTempAliasL T ctx q f' f) (old : F) :
    @Feature.applyTemp F (fieldScalar T) f' ctx q old = @Feature.applyTemp F (fieldScalar T) f ctx q old := by
  cases h with
  | same => rfl
  | area a k hpoly hrng hm => exact AreaFeature.applyTemp_lon_alias T hπ hH.periodLaws hA a ctx q k hsph hpoly hrng hm old
  | plume p k h hm => exact PlumeFeature.applyTemp_lon_alias T hπ hH.periodLaws hA p ctx q k hsph h hm old
  | line l k kR h hr => exact LineFeature.applyTemp_lon_alias_all T hπ hH hA l ctx q k kR hsph h hr old

/-- **the temperature of a whole world** whose area features, plumes, slabs and faults are written any number of turns away, feature by
feature -/
theorem World.temperaturePure_lon_alias_lines (hπ : 0 < T.pi) (hH : HalfTurnLaws T) (hA : AngleAddLaws T) (w w' : World F) (pt : P3 F)
    (depth : F) (hctx : w'.ctx = w.ctx) (hsph : w.ctx.coord.spherical = true)
    (hf : List.Forall₂ (FeatureTempAliasL T w.ctx (w.tempQuery T pt depth)) w'.features w.features) :
    @World.temperaturePure F (fieldScalar T) w' pt depth = @World.temperaturePure F (fieldScalar T) w pt depth := by
  unfold World.temperaturePure
  rw [hctx]
  have := foldlM_forall₂_congr (fun (t : F) (f : Feature F) => @Feature.applyTemp F (fieldScalar T) f w.ctx (w.tempQuery T pt depth) t)
    w'.features w.features
    (List.Forall₂.imp (fun f' f h t => Feature.applyTemp_lon_alias_lines T hπ hH hA w.ctx _ hsph f' f h t) hf)
  unfold World.tempQuery at this
  simp only [this]

/-! ### whole worlds with slabs and faults: `World.props3`, every property -/

/-- as `FeatureTempAliasL`, with the hypotheses on all four model lists of area features and plumes -/
inductive FeatureAliasL (ctx : Ctx F) (q : Query F) : Feature F → Feature F → Prop
  | same (f : Feature F) : FeatureAliasL ctx q f f
  | area (a : AreaFeature F) (k : ℤ) (hpoly : PolygonAliasOk T a.coords (surfacePoint true q.nat) k)
      (hrng : a.rng.AliasOk T (surfacePoint true q.nat) k) (hm : a.models.AliasOk T ctx q k) :
      FeatureAliasL ctx q (.area (a.lonShift T k)) (.area a)
  | plume (p : PlumeFeature F) (k : ℤ) (h : p.AliasOk T q k) (hm : p.models.AliasOk T ctx q k) :
      FeatureAliasL ctx q (.plume (p.lonShift T k)) (.plume p)
  | line (l : LineFeature F) (k kR : ℤ) (h : l.AliasOk T ctx q k) (hr : l.RidgeAliasOk T ctx q kR) :
      FeatureAliasL ctx q (.line (l.lonShiftAll T k kR)) (.line l)

theorem FeatureAlias.toL (ctx : Ctx F) (q : Query F) (f' f : Feature F) (h : FeatureAlias T ctx q f' f) : FeatureAliasL T ctx q f' f := by
  cases h with
  | same => exact .same _
  | area a k hpoly hrng hm => exact .area a k hpoly hrng hm
  | plume p k h hm => exact .plume p k h hm

theorem Feature.apply_lon_alias_lines {G : Type} [@RandGen G F] (hπ : 0 < T.pi) (hH : HalfTurnLaws T) (hA : AngleAddLaws T) (ctx : Ctx F)
    (q : Query F) (hsph : ctx.coord.spherical = true) (f' f : Feature F) (h : FeatureAliasL T ctx q f' f) (pes : List (Req × Nat))
    (out : List F) :
    @Feature.apply F (fieldScalar T) G _ f' ctx q pes out = @Feature.apply F (fieldScalar T) G _ f ctx q pes out := by
  cases h with
  | same => rfl
  | area a k hpoly hrng hm => exact AreaFeature.apply_lon_alias T hπ hH.periodLaws hA a ctx q k hsph hpoly hrng hm pes out
  | plume p k h hm => exact PlumeFeature.apply_lon_alias T hπ hH.periodLaws hA p ctx q k hsph h hm pes out
  | line l k kR h hr => exact LineFeature.apply_lon_alias_all T hπ hH hA l ctx q k kR hsph h hr pes out

/-- the hypotheses on a slab / fault do not look at the `worldT` member of the query -/
theorem LineFeature.aliasOk_worldT (l : LineFeature F) (ctx : Ctx F) (q : Query F) (t : Unit → Except Err F) (k : ℤ) :
    l.AliasOk T ctx { q with worldT := t } k ↔ l.AliasOk T ctx q k :=
  ⟨fun h => ⟨fun hc => ⟨(h.box hc).lo, (h.box hc).hi, (h.box hc).range⟩, h.geom⟩,
   fun h => ⟨fun hc => ⟨(h.box hc).lo, (h.box hc).hi, (h.box hc).range⟩, h.geom⟩⟩

theorem FeatureAliasL.toTemp (ctx : Ctx F) (q : Query F) (t : Unit → Except Err F) (f' f : Feature F)
    (h : FeatureAliasL T ctx { q with worldT := t } f' f) : FeatureTempAliasL T ctx q f' f := by
  cases h with
  | same => exact .same _
  | area a k hpoly hrng hm =>
    exact .area a k hpoly hrng (fun m hmem => (TempModel.aliasOk_worldT T m ctx q t k k).mp (hm.temps m hmem))
  | plume p k h hm =>
    exact .plume p k h (fun m hmem => (TempModel.aliasOk_worldT T m ctx q t k k).mp (hm.temps m hmem))
  | line l k kR h hr =>
    exact .line l k kR ((LineFeature.aliasOk_worldT T l ctx q t k).mp h) ((LineFeature.ridgeAliasOk_worldT T l ctx q t kR).mp hr)

/-- **every property of a whole world** (`World.props3`, random draws included) whose area features, plumes, slabs and faults are written
any number of turns away, feature by feature; the hypotheses are those of the kernels, at the query the world builds from the point -/
theorem World.props3_lon_alias_lines {G : Type} [@RandGen G F] (hπ : 0 < T.pi) (hH : HalfTurnLaws T) (hA : AngleAddLaws T) (w w' : World F)
    (pt : P3 F) (depth : F) (ps : List Req) (hctx : w'.ctx = w.ctx) (hsph : w.ctx.coord.spherical = true)
    (hf : List.Forall₂ (FeatureAliasL T w.ctx (@World.query F (fieldScalar T) w pt depth)) w'.features w.features) :
    @World.props3 F (fieldScalar T) G _ w' pt depth ps = @World.props3 F (fieldScalar T) G _ w pt depth ps := by
  have hT : @World.temperaturePure F (fieldScalar T) w' pt depth = @World.temperaturePure F (fieldScalar T) w pt depth :=
    World.temperaturePure_lon_alias_lines T hπ hH hA w w' pt depth hctx hsph
      (List.Forall₂.imp (fun f' f h => FeatureAliasL.toTemp T w.ctx (w.tempQuery T pt depth) _ f' f h) hf)
  have hq : @World.query F (fieldScalar T) w' pt depth = @World.query F (fieldScalar T) w pt depth := by
    unfold World.query
    rw [hctx, hT]
  have hfold := fun (pes : List (Req × Nat)) => foldlM_forall₂_congr
    (fun (out : List F) (f : Feature F) => @Feature.apply F (fieldScalar T) G _ f w.ctx (@World.query F (fieldScalar T) w pt depth) pes out)
    w'.features w.features
    (List.Forall₂.imp (fun f' f h out => Feature.apply_lon_alias_lines T hπ hH hA w.ctx _ hsph f' f h pes out) hf)
  unfold World.props3
  rw [hq, hctx]
  simp only [hfold]

end field

end Gwb
