/-
C08 at the level of slabs and faults (`LineFeature`): the QUERY is fixed (canonical longitude), the FEATURE is re-described `k` full
turns away in longitude: every trench coordinate, hence every point and control point of the trench curve (`Bezier.shift`; this is what
`Bezier.build` produces from the shifted coordinates, `Bezier.build_shift`), hence the bounding box, and the dip point.

Composes the kernel theorems of `MotionLonKernels.lean` (bounding box), `MotionLonBezier.lean` (closest point on the trench curve,
aligned on-trench test), `MotionLonSurface.lean` (`dpfcpAlias`), `MotionLonFeatures.lean` (ridge) with `d := 2πk`, `p' := p`, `j := −k`.
-/
import GwbVerif.Proofs.MotionLonFeatures
import GwbVerif.Proofs.MotionLonBezier
import Mathlib.Tactic.Ring
import Mathlib.Tactic.Linarith
namespace Gwb
open Scalar
set_option linter.unusedSectionVars false
set_option linter.unusedVariables false

section field
variable {F : Type} [Field F] [LinearOrder F] [IsStrictOrderedRing F] (T : Transc F)

/-! ### the re-described feature -/

/-- the slab / fault with its trench (coordinates and curve) written `kT` turns away and its dip point written `kD` turns away -/
def LineFeature.lonShift2 (kT kD : ℤ) (f : LineFeature F) : LineFeature F :=
  { f with coords := f.coords.map (P2.shift (lonTurns T kT)), bezier := f.bezier.shift (lonTurns T kT),
           reference := P2.shift (lonTurns T kD) f.reference }

/-- trench and dip point written the same `k` turns away -/
def LineFeature.lonShiftGeom (k : ℤ) (f : LineFeature F) : LineFeature F := f.lonShift2 T k k

/-! ### the bounding box -/

theorem foldl_minProj_shift {α : Type} (g g' : α → F) (d : F) (φ : α → α) (hg : ∀ a, g' (φ a) = g a + d) (l : List α) (m : F) :
    (l.map φ).foldl (fun m v => if @LT.lt F (fieldScalar T).toLT (g' v) m then g' v else m) (m + d) =
      l.foldl (fun m v => if @LT.lt F (fieldScalar T).toLT (g v) m then g v else m) m + d := by
  induction l generalizing m with
  | nil => rfl
  | cons a t ih =>
    simp only [List.map_cons, List.foldl_cons, hg]
    have e : (if @LT.lt F (fieldScalar T).toLT (g a + d) (m + d) then g a + d else m + d) =
        (if @LT.lt F (fieldScalar T).toLT (g a) m then g a else m) + d := by
      by_cases h : g a < m
      · rw [if_pos h, if_pos (show g a + d < m + d by linarith)]
      · rw [if_neg h, if_neg (show ¬ g a + d < m + d by intro h'; exact h (by linarith))]
    rw [e]
    exact ih _

theorem foldl_maxProj_shift {α : Type} (g g' : α → F) (d : F) (φ : α → α) (hg : ∀ a, g' (φ a) = g a + d) (l : List α) (m : F) :
    (l.map φ).foldl (fun m v => if @LT.lt F (fieldScalar T).toLT m (g' v) then g' v else m) (m + d) =
      l.foldl (fun m v => if @LT.lt F (fieldScalar T).toLT m (g v) then g v else m) m + d := by
  induction l generalizing m with
  | nil => rfl
  | cons a t ih =>
    simp only [List.map_cons, List.foldl_cons, hg]
    have e : (if @LT.lt F (fieldScalar T).toLT (m + d) (g a + d) then g a + d else m + d) =
        (if @LT.lt F (fieldScalar T).toLT m (g a) then g a else m) + d := by
      by_cases h : m < g a
      · rw [if_pos h, if_pos (show m + d < g a + d by linarith)]
      · rw [if_neg h, if_neg (show ¬ m + d < g a + d by intro h'; exact h (by linarith))]
    rw [e]
    exact ih _

theorem minBy_map_shift (g : P2 F → F) (d : F) (v : P2 F) (hg : ∀ a, g (P2.shift v a) = g a + d) (l : List (P2 F)) :
    @minBy F (fieldScalar T) ((l.map (P2.shift v)).map g) = Except.map (· + d) (@minBy F (fieldScalar T) (l.map g)) := by
  cases l with
  | nil => rfl
  | cons a t =>
    simp only [List.map_cons, minBy, Except.map, hg]
    have := foldl_minProj_shift T (fun x : F => x) (fun x : F => x) d (· + d) (fun _ => rfl) (t.map g) (g a)
    rw [← this]
    congr 2
    simp only [List.map_map]
    apply List.map_congr_left
    intro x _
    exact hg x

theorem maxBy_map_shift (g : P2 F → F) (d : F) (v : P2 F) (hg : ∀ a, g (P2.shift v a) = g a + d) (l : List (P2 F)) :
    @maxBy F (fieldScalar T) ((l.map (P2.shift v)).map g) = Except.map (· + d) (@maxBy F (fieldScalar T) (l.map g)) := by
  cases l with
  | nil => rfl
  | cons a t =>
    simp only [List.map_cons, maxBy, Except.map, hg]
    have := foldl_maxProj_shift T (fun x : F => x) (fun x : F => x) d (· + d) (fun _ => rfl) (t.map g) (g a)
    rw [← this]
    congr 2
    simp only [List.map_map]
    apply List.map_congr_left
    intro x _
    exact hg x

theorem control_flat_shift (v : P2 F) (bz : Bezier F) :
    (bz.shift v).control.flatMap (fun c => [c.1, c.2]) = (bz.control.flatMap (fun c => [c.1, c.2])).map (P2.shift v) := by
  unfold Bezier.shift
  simp only [List.flatMap_map, List.map_flatMap, List.map_cons, List.map_nil, Function.comp_def]

/-- **the bounding box follows the trench**: a feature whose trench is written `d` further in longitude has its box `d` further -/
theorem LineFeature.bbox_lon_shift (kT kD : ℤ) (f : LineFeature F) (coord : CoordSys F) (hsph : coord.spherical = true) :
    @LineFeature.bbox F (fieldScalar T) (f.lonShift2 T kT kD) coord =
      Except.map (BBox.shift (lonTurns T kT)) (@LineFeature.bbox F (fieldScalar T) f coord) := by
  unfold LineFeature.bbox
  have ec : (f.lonShift2 T kT kD).coords = f.coords.map (P2.shift (lonTurns T kT)) := rfl
  have eb : (f.lonShift2 T kT kD).bezier = f.bezier.shift (lonTurns T kT) := rfl
  have et : @LineFeature.maxThickness F (fieldScalar T) (f.lonShift2 T kT kD) = @LineFeature.maxThickness F (fieldScalar T) f := rfl
  have el : @LineFeature.maxTotalLength F (fieldScalar T) (f.lonShift2 T kT kD) = @LineFeature.maxTotalLength F (fieldScalar T) f := rfl
  have hx : ∀ a : P2 F, (P2.shift (lonTurns T kT) a).x = a.x + 2 * T.pi * kT := fun a => rfl
  have hy : ∀ a : P2 F, (P2.shift (lonTurns T kT) a).y = a.y + 0 := fun a => rfl
  rw [ec, eb, et, el, control_flat_shift,
    minBy_map_shift T (·.x) (2 * T.pi * kT) _ hx, maxBy_map_shift T (·.x) (2 * T.pi * kT) _ hx,
    minBy_map_shift T (·.y) 0 _ hy, maxBy_map_shift T (·.y) 0 _ hy]
  cases @minBy F (fieldScalar T) (f.coords.map (·.x)) with
  | error e => rfl
  | ok minX =>
    cases @maxBy F (fieldScalar T) (f.coords.map (·.x)) with
    | error e => rfl
    | ok maxX =>
      cases @minBy F (fieldScalar T) (f.coords.map (·.y)) with
      | error e => rfl
      | ok minY =>
        cases @maxBy F (fieldScalar T) (f.coords.map (·.y)) with
        | error e => rfl
        | ok maxY =>
          simp only [Except.map, bind, Except.bind, hsph, if_true, pure, Except.pure, Except.ok.injEq]
          rw [foldl_minProj_shift T (fun v : P2 F => v.x) (fun v : P2 F => v.x) (2 * T.pi * kT) _ hx,
            foldl_maxProj_shift T (fun v : P2 F => v.x) (fun v : P2 F => v.x) (2 * T.pi * kT) _ hx,
            foldl_minProj_shift T (fun v : P2 F => v.y) (fun v : P2 F => v.y) 0 _ hy,
            foldl_maxProj_shift T (fun v : P2 F => v.y) (fun v : P2 F => v.y) 0 _ hy]
          simp only [add_zero, BBox.shift, P2.shift, lonTurns, BBox.mk.injEq, P2.mk.injEq]
          refine ⟨⟨by ring, trivial⟩, by ring, trivial⟩

/-! ### the bounding-box pre-test -/

/-- hypotheses of the bounding-box kernel theorem (`BBox.inside_lon_offset_general`) for a fixed canonical query and the feature's box
written `k` turns away: the tolerance-enlarged longitude bounds of the box lie in `(−3π, 3π]` in both descriptions -/
structure LineFeature.BoxAliasOk (f : LineFeature F) (ctx : Ctx F) (q : Query F) (k : ℤ) : Prop where
  lo : -T.pi < q.nat.y
  hi : q.nat.y ≤ T.pi
  range : ∀ b, @LineFeature.bbox F (fieldScalar T) f ctx.coord = .ok b →
    -(3 * T.pi) < b.loX T ∧ b.hiX T ≤ 3 * T.pi ∧ -(3 * T.pi) < b.loX T + 2 * T.pi * k ∧ b.hiX T + 2 * T.pi * k ≤ 3 * T.pi

/-- **the culling pre-test** (depth window, reach below the starting depth, bounding box) of a slab / fault whose trench is written `kT`
turns away (dip point anywhere): same verdict, same error -/
theorem LineFeature.preTest_lon_alias (hπ : 0 < T.pi) (kT kD : ℤ) (f : LineFeature F) (ctx : Ctx F) (q : Query F)
    (hsph : ctx.coord.spherical = true) (h : f.cull = true → f.BoxAliasOk T ctx q kT) :
    @LineFeature.preTest F (fieldScalar T) (f.lonShift2 T kT kD) ctx q = @LineFeature.preTest F (fieldScalar T) f ctx q := by
  unfold LineFeature.preTest
  rw [LineFeature.bbox_lon_shift T kT kD f ctx.coord hsph]
  have e1 : (f.lonShift2 T kT kD).cull = f.cull := rfl
  have e2 : (f.lonShift2 T kT kD).maxDepth = f.maxDepth := rfl
  have e3 : (f.lonShift2 T kT kD).minDepth = f.minDepth := rfl
  have et : @LineFeature.maxThickness F (fieldScalar T) (f.lonShift2 T kT kD) = @LineFeature.maxThickness F (fieldScalar T) f := rfl
  have el : @LineFeature.maxTotalLength F (fieldScalar T) (f.lonShift2 T kT kD) = @LineFeature.maxTotalLength F (fieldScalar T) f := rfl
  rw [e1, e2, e3, et, el]
  cases hb : @LineFeature.bbox F (fieldScalar T) f ctx.coord with
  | error e => rfl
  | ok b =>
    cases hc : f.cull with
    | false => rfl
    | true =>
      have hr := (h hc).range b hb
      have hin : @BBox.inside F (fieldScalar T) (b.shift (lonTurns T kT)) true (surfacePoint true q.nat) =
          @BBox.inside F (fieldScalar T) b true (surfacePoint true q.nat) :=
        BBox.inside_lon_offset_general T hπ b (2 * T.pi * kT) (surfacePoint true q.nat) (surfacePoint true q.nat) (-kT)
          (h hc).lo (h hc).hi (h hc).lo (h hc).hi (turns_rel T q.nat.y kT) rfl hr.1 hr.2.1 hr.2.2.1 hr.2.2.2
      simp only [Except.map, bind, Except.bind, hsph, if_true, pure, Except.pure, hin]

end field

/-! ### `distance_point_from_curved_planes` cut into its stages -/
section generic
variable {R : Type} [Scalar R]

/-- `(check − foot) · (local reference − foot) < 0`: the query and the point `dref` along the trench normal are on opposite sides -/
def dpfcpRefNormalSide (cs2dTemp cl2d normal : P2 R) (dref : R) : Bool :=
  let abn : P2 R := ⟨normal.x * dref, normal.y * dref⟩
  let localRef : P2 R := ⟨abn.x * (1.0 : R) + cl2d.x, abn.y * (1.0 : R) + cl2d.y⟩
  decide (P2.dot (cs2dTemp - cl2d) (localRef - cl2d) < 0.0)

/-- on which side of the chord first trench point → last trench point the dip point lies: a cross product in the (lon, lat) PLANE -/
def dpfcpRefPointSide (reference pFirst pLast : P2 R) : Bool :=
  decide ((pLast.x - pFirst.x) * (reference.y - pFirst.y) - (reference.x - pFirst.x) * (pLast.y - pFirst.y) < 0.0)

/-- the frame of the generic branch (query not vertically below the trench): the side of the trench the query is on -/
def dpfcpGenericFrame (sph : Bool) (checkSurface2d cl2d normal : P2 R) (k : Nat) (reference : P2 R)
    (pointList : List (P2 R)) (xAxis0 yAxis0 : P3 R) : Except Err (Option (P3 R × P3 R)) := do
  let cart := !sph
  let y := P3.sdiv yAxis0 (P3.norm yAxis0)
  let cs2dTemp ← (if !cart then do
      let pk ← idx pointList k
      pure (dpfcpAlias checkSurface2d pk.x)
    else pure checkSurface2d : Except Err (P2 R))
  let dref := P2.distanceTo sph cl2d reference
  let refNormalSide := dpfcpRefNormalSide cs2dTemp cl2d normal dref
  let pFirst ← idx pointList 0
  let pLast ← idx pointList (pointList.length - 1)
  let refPointSide := dpfcpRefPointSide reference pFirst pLast
  let side : R := if refNormalSide == refPointSide then 1 else -1
  pure (some (P3.smul' xAxis0 (side / P3.norm xAxis0), y))

/-- the frame of the on-trench branch (query vertically below the trench, not at the foot point itself) -/
def dpfcpOnTrenchFrame (coord : CoordSys R) (pointList : List (P2 R)) (startRadius : R) (cl2d normal : P2 R) (iSec : Nat)
    (clCart clBottomCart : P3 R) (checkSurface2dAl : P2 R) : Except Err (Option (P3 R × P3 R)) := do
  let sph := coord.spherical
  let p1 ← idx pointList iSec
  let p2 ← idx pointList (iSec + 1)
  let p1p2 := p2 - p1
  let un := P2.sdiv p1p2 (P2.norm p1p2)
  let nrm := P2.norm cl2d
  let f := (1e-8 : R) * (if nrm > 1.0 then nrm else 1.0)
  let plus : P2 R := cl2d + P2.smul' un f
  let plusCart := coord.toCartesian (surface3 sph plus startRadius)
  let ntp := plusCart - clCart
  let ntp := P3.sdiv ntp (P3.norm ntp)
  let y := clCart - clBottomCart
  let y := P3.sdiv y (P3.norm y)
  let vx := y.x; let vy := y.y; let vz := y.z
  let ux := ntp.x; let uy := ntp.y; let uz := ntp.z
  let x : P3 R := ⟨ux * ux * vx + ux * uy * vy - uz * vy + uy * uz * vz + uy * vz,
                   uy * ux * vx + uz * vx + uy * uy * vy + uy * uz * vz - ux * vz,
                   uz * ux * vx - uy * vx + uz * uy * vy + ux * vy + uz * uz * vz⟩
  let refp : P2 R := ⟨(normal.x - cl2d.x) * (1e2 : R) + cl2d.x, (normal.y - cl2d.y) * (1e2 : R) + cl2d.y⟩
  let side : R := if P2.normSq (cl2d - refp) < P2.normSq (checkSurface2dAl - refp) then -1 else 1
  let x := P3.smul' x (side / P3.norm x)
  pure (some (x, y))

/-- everything after the frame: the walk down the segments in the plane of the frame -/
def dpfcpFinish (dm : DepthMethod) (onlyPositive : Bool) (startRadius : R) (checkPoint : P3 R) (fraction : R) (iSec : Nat)
    (clCart clBottomCart : P3 R) (angsCur angsNext : List (P2 R)) (lensCur lensNext : List R) (fr : Option (P3 R × P3 R)) :
    Except Err (PlaneDist R) :=
  match fr with
  | none => do
    let a0 ← idx angsCur 0
    let a1 ← idx angsNext 0
    return { distanceFromPlane := 0.0, distanceAlongPlane := 0.0, fractionOfSection := fraction, fractionOfSegment := 0.0,
             sectionIdx := iSec, segment := 0, averageAngle := a0.x + fraction * (a1.x - a0.x), depthReferenceSurface := 0.0,
             closestTrenchPoint := clCart }
  | some (xAxis, yAxis) => do
    let check2d : P2 R := ⟨P3.dot xAxis (checkPoint - clBottomCart), P3.dot yAxis (checkPoint - clBottomCart)⟩
    let begin0 : P2 R := ⟨P3.dot xAxis (clCart - clBottomCart), P3.dot yAxis (clCart - clBottomCart)⟩
    let s0 : SegState R :=
      { distance := Scalar.inf, newDistance := Scalar.inf, along := Scalar.inf, newAlong := Scalar.inf, newDepthRef := Scalar.inf,
        segment := 0, segmentFraction := 0.0, totalAverageAngle := 0.0, depthRef := 0.0,
        beginSeg := begin0, endSeg := begin0, totalLength := 0.0, addAngle := 0.0, addAngleCorrection := 0.0, averageAngle := 0.0, found := false }
    let s ← segmentLoop dm onlyPositive startRadius fraction check2d angsCur angsNext lensCur lensNext (lensCur.length + 1) 0 s0
    return { distanceFromPlane := s.distance, distanceAlongPlane := s.along,
             fractionOfSection := if s.found then fraction else 0.0, fractionOfSegment := s.segmentFraction,
             sectionIdx := if s.found then iSec else 0, segment := s.segment, averageAngle := s.totalAverageAngle,
             depthReferenceSurface := s.depthRef, closestTrenchPoint := clCart }

/-- `distancePointFromCurvedPlanes` after the closest point `cp` on the trench curve has been found -/
def dpfcpTail (coord : CoordSys R) (checkPoint nat : P3 R) (reference : P2 R) (pointList : List (P2 R))
    (lengths : List (List R)) (angles : List (List (P2 R))) (startRadius : R) (onlyPositive : Bool) (cp : ClosestPoint R) :
    Except Err (PlaneDist R) := do
  let sph := coord.spherical
  let cart := !sph
  let checkSurface : P3 R := ⟨if cart then nat.x else startRadius, nat.y, if cart then startRadius else nat.z⟩
  let checkSurface2d := surfacePoint sph nat
  let cl2d := cp.point
  let clSurface := surface3 sph cl2d startRadius
  let clCart := coord.toCartesian clSurface
  let iSec := cp.index
  let fraction := cp.fraction
  let clBottom : P3 R := if cart then { clSurface with z := 0 } else { clSurface with x := 0 }
  let clBottomCart := coord.toCartesian clBottom
  let checkSurfaceCart := coord.toCartesian checkSurface
  let yAxis0 := clCart - clBottomCart
  let xAxis0 := clCart - checkSurfaceCart
  let angsCur ← idx angles iSec
  let angsNext ← idx angles (iSec + 1)
  let lensCur ← idx lengths iSec
  let lensNext ← idx lengths (iSec + 1)
  let lonShift : R := dpfcpLonShift checkSurface2d.x cl2d.x
  let checkSurfaceAl : P3 R := if cart then checkSurface else { checkSurface with y := checkSurface.y + lonShift }
  let checkSurface2dAl : P2 R := if cart then checkSurface2d else ⟨checkSurface2d.x + lonShift, checkSurface2d.y⟩
  let frame : Except Err (Option (P3 R × P3 R)) :=
    if DpfcpOnTrench checkSurfaceAl clSurface then
      if fabs (P3.norm (checkPoint - clCart)) > (2e-14 : R) then
        dpfcpOnTrenchFrame coord pointList startRadius cl2d cp.normal iSec clCart clBottomCart checkSurface2dAl
      else pure none
    else dpfcpGenericFrame sph checkSurface2d cl2d cp.normal (iSec + (if round fraction ≥ 1.0 then 1 else 0)) reference pointList xAxis0 yAxis0
  let fr ← frame
  dpfcpFinish coord.depthMethod onlyPositive startRadius checkPoint fraction iSec clCart clBottomCart angsCur angsNext lensCur lensNext fr

theorem dpfcp_of_closest_some (coord : CoordSys R) (checkPoint nat : P3 R) (reference : P2 R) (pointList : List (P2 R))
    (lengths : List (List R)) (angles : List (List (P2 R))) (startRadius : R) (onlyPositive : Bool) (bz : Bezier R) (cp : ClosestPoint R)
    (h : bz.closestPoint coord.spherical (surfacePoint coord.spherical nat) = .ok (some cp)) :
    distancePointFromCurvedPlanes coord checkPoint nat reference pointList lengths angles startRadius onlyPositive bz =
      dpfcpTail coord checkPoint nat reference pointList lengths angles startRadius onlyPositive cp := by
  rw [distancePointFromCurvedPlanes_eq_A]
  unfold distancePointFromCurvedPlanesA
  simp only [h]
  rfl

theorem dpfcp_of_closest_none (coord : CoordSys R) (checkPoint nat : P3 R) (reference reference' : P2 R) (pointList pointList' : List (P2 R))
    (lengths : List (List R)) (angles : List (List (P2 R))) (startRadius : R) (onlyPositive : Bool) (bz bz' : Bezier R)
    (h : bz.closestPoint coord.spherical (surfacePoint coord.spherical nat) = .ok none)
    (h' : bz'.closestPoint coord.spherical (surfacePoint coord.spherical nat) = .ok none) :
    distancePointFromCurvedPlanes coord checkPoint nat reference' pointList' lengths angles startRadius onlyPositive bz' =
      distancePointFromCurvedPlanes coord checkPoint nat reference pointList lengths angles startRadius onlyPositive bz := by
  rw [distancePointFromCurvedPlanes_eq_A, distancePointFromCurvedPlanes_eq_A]
  unfold distancePointFromCurvedPlanesA
  simp only [h, h']
  rfl

theorem dpfcp_of_closest_error (coord : CoordSys R) (checkPoint nat : P3 R) (reference : P2 R) (pointList : List (P2 R))
    (lengths : List (List R)) (angles : List (List (P2 R))) (startRadius : R) (onlyPositive : Bool) (bz : Bezier R) (e : Err)
    (h : bz.closestPoint coord.spherical (surfacePoint coord.spherical nat) = .error e) :
    distancePointFromCurvedPlanes coord checkPoint nat reference pointList lengths angles startRadius onlyPositive bz = .error e := by
  rw [distancePointFromCurvedPlanes_eq_A]
  unfold distancePointFromCurvedPlanesA
  simp only [h]
  rfl

end generic

section field
variable {F : Type} [Field F] [LinearOrder F] [IsStrictOrderedRing F] (T : Transc F)

@[simp] theorem lonTurns_x (k : ℤ) : (lonTurns T k).x = 2 * T.pi * k := rfl
@[simp] theorem lonTurns_y (k : ℤ) : (lonTurns T k).y = 0 := rfl
@[simp] theorem ClosestPoint.shift_point (v : P2 F) (c : ClosestPoint F) : (c.shift v).point = P2.shift v c.point := rfl
@[simp] theorem ClosestPoint.shift_index (v : P2 F) (c : ClosestPoint F) : (c.shift v).index = c.index := rfl
@[simp] theorem ClosestPoint.shift_fraction (v : P2 F) (c : ClosestPoint F) : (c.shift v).fraction = c.fraction := rfl
@[simp] theorem ClosestPoint.shift_normal (v : P2 F) (c : ClosestPoint F) : (c.shift v).normal = c.normal := rfl

/-- the haversine angle only sees the longitude difference -/
theorem P2.distanceTo_sph_shift (k : ℤ) (a b : P2 F) :
    @P2.distanceTo F (fieldScalar T) true (P2.shift (lonTurns T k) a) (P2.shift (lonTurns T k) b) =
      @P2.distanceTo F (fieldScalar T) true a b := by
  unfold P2.distanceTo
  simp only [↓reduceIte, P2.shift_x, P2.shift_y, lonTurns_x, lonTurns_y]
  sfield
  simp only [sub_shift_cancel, add_zero]

theorem dpfcpRefNormalSide_shift (v a c n : P2 F) (dref : F) :
    @dpfcpRefNormalSide F (fieldScalar T) (P2.shift v a) (P2.shift v c) n dref = @dpfcpRefNormalSide F (fieldScalar T) a c n dref := by
  unfold dpfcpRefNormalSide
  simp only [P2.sub_shift]
  have e : ∀ X Y : F, @HSub.hSub (P2 F) (P2 F) (P2 F) (@instHSub (P2 F) (@P2.instSub F (fieldScalar T)))
      (⟨X + (P2.shift v c).x, Y + (P2.shift v c).y⟩ : P2 F) (P2.shift v c) =
      @HSub.hSub (P2 F) (P2 F) (P2 F) (@instHSub (P2 F) (@P2.instSub F (fieldScalar T))) (⟨X + c.x, Y + c.y⟩ : P2 F) c := by
    intro X Y
    rw [P2.sub_field, P2.sub_field]
    simp only [P2.shift_x, P2.shift_y, P2.mk.injEq]
    exact ⟨by ring, by ring⟩
  sfield
  rw [e]

theorem dpfcpRefPointSide_shift (v r a b : P2 F) :
    @dpfcpRefPointSide F (fieldScalar T) (P2.shift v r) (P2.shift v a) (P2.shift v b) = @dpfcpRefPointSide F (fieldScalar T) r a b := by
  unfold dpfcpRefPointSide
  simp only [P2.shift_x, P2.shift_y]
  sfield
  simp only [sub_shift_cancel]

/-- every trench point is within reach of the (fixed) query in both descriptions: at most `3π` away, no description of the query
exactly `π` away (the hypothesis `EstReach` of the Bezier kernel theorem; the same one serves `dpfcpAlias_lon_offset`) -/
def TrenchReach (p : P2 F) (k : ℤ) (pts : List (P2 F)) : Prop :=
  ∀ (i : Nat) (p1 : P2 F), pts[i]? = some p1 → EstReach T (2 * T.pi * k) p p p1

theorem dpfcpAlias_turns (hπ : 0 < T.pi) (k : ℤ) (cs pk : P2 F) (h : EstReach T (2 * T.pi * k) cs cs pk) :
    @dpfcpAlias F (fieldScalar T) cs (P2.shift (lonTurns T k) pk).x = P2.shift (lonTurns T k) (@dpfcpAlias F (fieldScalar T) cs pk.x) :=
  dpfcpAlias_lon_offset T hπ (2 * T.pi * k) cs cs pk.x (-k) (turns_rel T cs.x k) rfl h.1 h.2.1 h.2.2

/-- **the frame of the generic branch** does not see a re-description of trench AND dip point by the same `k` turns -/
theorem dpfcpGenericFrame_lon_alias (hπ : 0 < T.pi) (k : ℤ) (cs cl2d normal : P2 F) (kk : Nat) (reference : P2 F)
    (pts : List (P2 F)) (x0 y0 : P3 F) (hpk : TrenchReach T cs k pts) :
    @dpfcpGenericFrame F (fieldScalar T) true cs (P2.shift (lonTurns T k) cl2d) normal kk
        (P2.shift (lonTurns T k) reference) (pts.map (P2.shift (lonTurns T k))) x0 y0 =
      @dpfcpGenericFrame F (fieldScalar T) true cs cl2d normal kk reference pts x0 y0 := by
  unfold dpfcpGenericFrame
  simp only [Bool.not_true, Bool.not_false, ↓reduceIte, idx_map, List.length_map, P2.distanceTo_sph_shift]
  cases h1 : idx pts kk with
  | error e => rfl
  | ok pk =>
    have ha := dpfcpAlias_turns T hπ k cs pk (hpk kk pk (idx_ok_getElem? h1))
    cases h0 : idx pts 0 with
    | error e => rfl
    | ok pFirst =>
      cases hl : idx pts (pts.length - 1) with
      | error e => rfl
      | ok pLast =>
        simp only [Except.map, bind, Except.bind, pure, Except.pure, ha, dpfcpRefNormalSide_shift, dpfcpRefPointSide_shift]

/-- a longitude written `k` turns away is the same Cartesian point -/
theorem toCartesian_turns (hP : PeriodLaws T) (dm : DepthMethod) (radius r L lat : F) (k : ℤ) :
    @CoordSys.toCartesian F (fieldScalar T) ⟨true, dm, radius⟩ ⟨r, L + 2 * T.pi * k, lat⟩ =
      @CoordSys.toCartesian F (fieldScalar T) ⟨true, dm, radius⟩ ⟨r, L, lat⟩ := by
  unfold CoordSys.toCartesian
  simp only [↓reduceIte]
  exact sphericalToCartesian_lon_congr T r L _ lat (hP.sin_int L k) (hP.cos_int L k)

/-- "the query is vertically below the trench curve without being the foot point itself": the branch of
`distance_point_from_curved_planes` (utilities.cc:489-560) that builds the frame from `max(‖closest_point‖, 1)` and from
`(normal − closest_point)·100 + closest_point`, both of which depend on where the origin of the (lon, lat) plane is -/
def DpfcpBelowTrench (coord : CoordSys F) (checkPoint nat : P3 F) (sr : F) (cp : ClosestPoint F) : Prop :=
  @DpfcpOnTrench F (fieldScalar T) ⟨sr, nat.y + @dpfcpLonShift F (fieldScalar T) nat.y cp.point.x, nat.z⟩ ⟨sr, cp.point.x, cp.point.y⟩ ∧
    @Scalar.fabs F (fieldScalar T) (@P3.norm F (fieldScalar T)
      (@HSub.hSub (P3 F) (P3 F) (P3 F) (@instHSub (P3 F) (@P3.instSub F (fieldScalar T))) checkPoint
        (@CoordSys.toCartesian F (fieldScalar T) coord ⟨sr, cp.point.x, cp.point.y⟩))) >
      @OfScientific.ofScientific F (@Scalar.instOfScientific F (fieldScalar T)) 2 true 14

/-- **everything after the closest point**: trench points, dip point and foot point written `k` turns away, same query -/
theorem dpfcpTail_lon_alias (hπ : 0 < T.pi) (hP : PeriodLaws T) (coord : CoordSys F) (hsph : coord.spherical = true)
    (checkPoint nat : P3 F) (reference : P2 F) (pts : List (P2 F)) (lengths : List (List F)) (angles : List (List (P2 F)))
    (sr : F) (op : Bool) (cp : ClosestPoint F) (k : ℤ)
    (hfoot : EstReach T (2 * T.pi * k) (surfacePoint true nat) (surfacePoint true nat) cp.point)
    (hpk : TrenchReach T (surfacePoint true nat) k pts)
    (hoff : ¬ DpfcpBelowTrench T coord checkPoint nat sr cp) :
    @dpfcpTail F (fieldScalar T) coord checkPoint nat (P2.shift (lonTurns T k) reference) (pts.map (P2.shift (lonTurns T k)))
        lengths angles sr op (cp.shift (lonTurns T k)) =
      @dpfcpTail F (fieldScalar T) coord checkPoint nat reference pts lengths angles sr op cp := by
  obtain ⟨sph, dm, radius⟩ := coord
  simp only at hsph
  subst hsph
  have hiff := dpfcpOnTrench_aligned_lon_offset T hπ (2 * T.pi * k) sr nat.y nat.y nat.z sr cp.point.x cp.point.y (-k)
    (turns_rel T nat.y k) hfoot.1 hfoot.2.1 hfoot.2.2
  unfold DpfcpBelowTrench at hoff
  unfold dpfcpTail
  simp only [ClosestPoint.shift_point, ClosestPoint.shift_index, ClosestPoint.shift_fraction, ClosestPoint.shift_normal, surface3,
    surfacePoint, Bool.not_true, ↓reduceIte, Bool.false_eq_true, P2.shift_x, P2.shift_y, lonTurns_x, lonTurns_y, add_zero,
    toCartesian_turns T hP]
  by_cases hot : @DpfcpOnTrench F (fieldScalar T) ⟨sr, nat.y + @dpfcpLonShift F (fieldScalar T) nat.y cp.point.x, nat.z⟩
      ⟨sr, cp.point.x, cp.point.y⟩
  · have hot' := hiff.mpr hot
    by_cases hin : @Scalar.fabs F (fieldScalar T) (@P3.norm F (fieldScalar T)
      (@HSub.hSub (P3 F) (P3 F) (P3 F) (@instHSub (P3 F) (@P3.instSub F (fieldScalar T))) checkPoint
        (@CoordSys.toCartesian F (fieldScalar T) ⟨true, dm, radius⟩ ⟨sr, cp.point.x, cp.point.y⟩))) >
      @OfScientific.ofScientific F (@Scalar.instOfScientific F (fieldScalar T)) 2 true 14
    · exact absurd ⟨hot, hin⟩ hoff
    · simp only [if_pos hot, if_pos hot', if_neg hin]
  · have hot' := fun h => hot (hiff.mp h)
    have hpk' : TrenchReach T ⟨nat.y, nat.z⟩ k pts := hpk
    simp only [if_neg hot, if_neg hot', dpfcpGenericFrame_lon_alias T hπ k _ _ _ _ _ _ _ _ hpk']
    rfl

/-- the stages after the closest point do not read its signed distance -/
theorem dpfcpTail_congr_unsign (coord : CoordSys F) (checkPoint nat : P3 F) (reference : P2 F) (pts : List (P2 F))
    (lengths : List (List F)) (angles : List (List (P2 F))) (sr : F) (op : Bool) (c1 c2 : ClosestPoint F) (h : c1.unsign = c2.unsign) :
    @dpfcpTail F (fieldScalar T) coord checkPoint nat reference pts lengths angles sr op c1 =
      @dpfcpTail F (fieldScalar T) coord checkPoint nat reference pts lengths angles sr op c2 := by
  cases c1; cases c2
  simp only [ClosestPoint.unsign, ClosestPoint.mk.injEq] at h
  obtain ⟨_, rfl, rfl, rfl, rfl⟩ := h
  rfl

theorem except_map_eq_cases {α β : Type} (f g : α → β) (x' x : Except Err α) (h : Except.map f x' = Except.map g x) :
    (∃ e, x' = .error e ∧ x = .error e) ∨ (∃ a' a, x' = .ok a' ∧ x = .ok a ∧ f a' = g a) := by
  cases x' <;> cases x <;> simp only [Except.map, reduceCtorEq, Except.error.injEq, Except.ok.injEq] at h
  · exact Or.inl ⟨_, rfl, by rw [h]⟩
  · exact Or.inr ⟨_, _, rfl, rfl, h⟩

/-- what the kernel theorems need of the geometry call at a fixed query (natural coordinates `nat`, Cartesian `pt`), trench surface
radius `sr`, for a re-description by `k` turns: every trench coordinate and every point of the trench curve within reach
(`TrenchReach`), the foot point on the curve within reach, and the query not vertically below the trench (`DpfcpBelowTrench`) -/
structure DpfcpAliasOk (coord : CoordSys F) (pt nat : P3 F) (pts : List (P2 F)) (bz : Bezier F) (sr : F) (k : ℤ) : Prop where
  trench : TrenchReach T (surfacePoint true nat) k pts
  curve : TrenchReach T (surfacePoint true nat) k bz.points
  foot : ∀ cp, @Bezier.closestPoint F (fieldScalar T) bz true (surfacePoint true nat) = .ok (some cp) →
    EstReach T (2 * T.pi * k) (surfacePoint true nat) (surfacePoint true nat) cp.point
  offTrench : ∀ cp, @Bezier.closestPoint F (fieldScalar T) bz true (surfacePoint true nat) = .ok (some cp) →
    ¬ DpfcpBelowTrench T coord pt nat sr cp

/-- **`distance_point_from_curved_planes`**: trench coordinates, trench curve and dip point written `k` turns away, same query: the same
`PlaneDist` (all nine members), the same error -/
theorem dpfcp_lon_alias (hπ : 0 < T.pi) (hH : HalfTurnLaws T) (coord : CoordSys F) (hsph : coord.spherical = true)
    (pt nat : P3 F) (reference : P2 F) (pts : List (P2 F)) (lengths : List (List F)) (angles : List (List (P2 F)))
    (sr : F) (op : Bool) (bz : Bezier F) (k : ℤ) (h : DpfcpAliasOk T coord pt nat pts bz sr k) :
    @distancePointFromCurvedPlanes F (fieldScalar T) coord pt nat (P2.shift (lonTurns T k) reference) (pts.map (P2.shift (lonTurns T k)))
        lengths angles sr op (bz.shift (lonTurns T k)) =
      @distancePointFromCurvedPlanes F (fieldScalar T) coord pt nat reference pts lengths angles sr op bz := by
  have hcp : Except.map (Option.map ClosestPoint.unsign)
      (@Bezier.closestPoint F (fieldScalar T) (bz.shift (lonTurns T k)) true (surfacePoint true nat)) =
      Except.map (Option.map (fun c => (c.shift (lonTurns T k)).unsign))
        (@Bezier.closestPoint F (fieldScalar T) bz true (surfacePoint true nat)) :=
    Bezier.closestPoint_lon_offset T hπ hH (2 * T.pi * k) bz (surfacePoint true nat) (surfacePoint true nat) (-k)
      (turns_rel T (surfacePoint true nat).x k) rfl h.curve
  rcases except_map_eq_cases _ _ _ _ hcp with ⟨e, h1', h1⟩ | ⟨o', o, h1', h1, ho⟩
  · rw [← hsph] at h1' h1
    rw [@dpfcp_of_closest_error F (fieldScalar T) _ _ _ _ _ _ _ _ _ _ e h1', @dpfcp_of_closest_error F (fieldScalar T) _ _ _ _ _ _ _ _ _ _ e h1]
  · cases o with
    | none =>
      cases o' with
      | some c' => simp only [Option.map, reduceCtorEq] at ho
      | none =>
        rw [← hsph] at h1' h1
        exact @dpfcp_of_closest_none F (fieldScalar T) _ _ _ _ _ _ _ _ _ _ _ _ _ h1 h1'
    | some c =>
      cases o' with
      | none => simp only [Option.map, reduceCtorEq] at ho
      | some c' =>
        simp only [Option.map, Option.some.injEq] at ho
        have hf := h.foot c h1
        have ho' := h.offTrench c h1
        rw [← hsph] at h1' h1
        rw [@dpfcp_of_closest_some F (fieldScalar T) _ _ _ _ _ _ _ _ _ _ c' h1', @dpfcp_of_closest_some F (fieldScalar T) _ _ _ _ _ _ _ _ _ _ c h1,
          dpfcpTail_congr_unsign T _ _ _ _ _ _ _ _ _ c' (c.shift (lonTurns T k)) ho]
        exact dpfcpTail_lon_alias T hπ hH.periodLaws coord hsph pt nat reference pts lengths angles sr op c k hf h.trench ho'

/-! ### the feature: membership test, temperature, every property -/

/-- `starting_radius`: the radius of the surface the trench lies on -/
def LineFeature.c08StartRadius (f : LineFeature F) (ctx : Ctx F) (q : Query F) : F :=
  @depthCoordinate F ctx.coord.spherical q.nat + q.depth - f.minDepth

/-- the kernel hypotheses at the query the feature is asked at -/
def LineFeature.GeomAliasOk (f : LineFeature F) (ctx : Ctx F) (q : Query F) (k : ℤ) : Prop :=
  DpfcpAliasOk T ctx.coord q.pt q.nat f.coords f.bezier (f.c08StartRadius ctx q) k

/-- **the geometry call of the membership test** (`only_positive` arbitrary) -/
theorem LineFeature.geometry_lon_alias (hπ : 0 < T.pi) (hH : HalfTurnLaws T) (f : LineFeature F) (ctx : Ctx F) (q : Query F) (k : ℤ)
    (hsph : ctx.coord.spherical = true) (h : f.GeomAliasOk T ctx q k) (op : Bool) :
    @distancePointFromCurvedPlanes F (fieldScalar T) ctx.coord q.pt q.nat (f.lonShiftGeom T k).reference (f.lonShiftGeom T k).coords
        (f.lonShiftGeom T k).lengths (@LineFeature.anglesRad F (fieldScalar T) (f.lonShiftGeom T k))
        (@depthCoordinate F ctx.coord.spherical q.nat + q.depth - (f.lonShiftGeom T k).minDepth) op (f.lonShiftGeom T k).bezier =
      @distancePointFromCurvedPlanes F (fieldScalar T) ctx.coord q.pt q.nat f.reference f.coords f.lengths
        (@LineFeature.anglesRad F (fieldScalar T) f) (@depthCoordinate F ctx.coord.spherical q.nat + q.depth - f.minDepth) op f.bezier :=
  dpfcp_lon_alias T hπ hH ctx.coord hsph q.pt q.nat f.reference f.coords f.lengths (@LineFeature.anglesRad F (fieldScalar T) f) _ op
    f.bezier k h

/-- **`LineFeature.coversBody`**: geometry and membership, the `LineHit` handed to the models included -/
theorem LineFeature.coversBody_lon_alias (hπ : 0 < T.pi) (hH : HalfTurnLaws T) (f : LineFeature F) (ctx : Ctx F) (q : Query F) (k : ℤ)
    (hsph : ctx.coord.spherical = true) (h : f.GeomAliasOk T ctx q k) :
    @LineFeature.coversBody F (fieldScalar T) (f.lonShiftGeom T k) ctx q = @LineFeature.coversBody F (fieldScalar T) f ctx q := by
  unfold LineFeature.coversBody
  simp only []
  rw [LineFeature.geometry_lon_alias T hπ hH f ctx q k hsph h]
  rfl

/-- pre-test and geometry together -/
structure LineFeature.AliasOk (f : LineFeature F) (ctx : Ctx F) (q : Query F) (k : ℤ) : Prop where
  box : f.cull = true → f.BoxAliasOk T ctx q k
  geom : f.GeomAliasOk T ctx q k

/-- **`LineFeature.covers`** (the guards of `SubductingPlate::properties` / `Fault::properties`) -/
theorem LineFeature.covers_lon_alias (hπ : 0 < T.pi) (hH : HalfTurnLaws T) (f : LineFeature F) (ctx : Ctx F) (q : Query F) (k : ℤ)
    (hsph : ctx.coord.spherical = true) (h : f.AliasOk T ctx q k) :
    @LineFeature.covers F (fieldScalar T) (f.lonShiftGeom T k) ctx q = @LineFeature.covers F (fieldScalar T) f ctx q := by
  unfold LineFeature.covers
  rw [LineFeature.coversBody_lon_alias T hπ hH f ctx q k hsph h.geom]
  unfold LineFeature.lonShiftGeom
  rw [LineFeature.preTest_lon_alias T hπ k k f ctx q hsph h.box]

/-- **`LineFeature.applyTemp`** (trench and dip point re-described; the models of a slab / fault hold no coordinates except the ridge of
`mass conserving`, treated separately) -/
theorem LineFeature.applyTemp_lon_alias (hπ : 0 < T.pi) (hH : HalfTurnLaws T) (f : LineFeature F) (ctx : Ctx F) (q : Query F) (k : ℤ)
    (hsph : ctx.coord.spherical = true) (h : f.AliasOk T ctx q k) (old : F) :
    @LineFeature.applyTemp F (fieldScalar T) (f.lonShiftGeom T k) ctx q old = @LineFeature.applyTemp F (fieldScalar T) f ctx q old := by
  unfold LineFeature.applyTemp
  rw [LineFeature.covers_lon_alias T hπ hH f ctx q k hsph h]
  rfl

/-- **`LineFeature.apply`** (every property, random draws included) -/
theorem LineFeature.apply_lon_alias {G : Type} [@RandGen G F] (hπ : 0 < T.pi) (hH : HalfTurnLaws T) (f : LineFeature F) (ctx : Ctx F)
    (q : Query F) (k : ℤ) (hsph : ctx.coord.spherical = true) (h : f.AliasOk T ctx q k) (pes : List (Req × Nat)) (out : List F) :
    @LineFeature.apply F (fieldScalar T) G _ (f.lonShiftGeom T k) ctx q pes out = @LineFeature.apply F (fieldScalar T) G _ f ctx q pes out := by
  unfold LineFeature.apply
  rw [LineFeature.covers_lon_alias T hπ hH f ctx q k hsph h]
  rfl

end field

/-! ### witness: the dip point written one turn away from the trench's description turns the slab round (`π := 3`)

Trench `[190°,−10°] – [200°,10°]` (`19/6, −1/6` and `10/3, 1/6` in units where `π = 3`), dip point `[220°, 0°]` (`11/3, 0`) and the same dip
point written `[−140°, 0°]` (`11/3 − 2π`). -/

theorem dipPoint_alias_witness :
    @dpfcpRefPointSide ℚ (fieldScalar c08Transc) ⟨11 / 3, 0⟩ ⟨19 / 6, -1 / 6⟩ ⟨10 / 3, 1 / 6⟩ = true ∧
    @dpfcpRefPointSide ℚ (fieldScalar c08Transc) (P2.shift (lonTurns c08Transc (-1)) ⟨11 / 3, 0⟩) ⟨19 / 6, -1 / 6⟩ ⟨10 / 3, 1 / 6⟩ = false := by
  have hpi : c08Transc.pi = 3 := rfl
  unfold dpfcpRefPointSide
  simp only [P2.shift, lonTurns, hpi, lit_sci_rat]
  constructor <;> norm_num

/-! ### instance of the hypotheses (`c08Half`: `π := 3`, `sin := (−1)^⌊x/3⌋`, `cos := 0`, which satisfies `HalfTurnLaws`) -/

/-- as `c08HLine_closest`, returning the foot point: the middle of the curve -/
theorem c08HLine_closest_point (x0 cx : ℚ)
    (hest : @initialEstimateSph ℚ (fieldScalar c08Half) ⟨x0, 1⟩ ⟨x0 + 1, 1⟩ ⟨cx, 2⟩ = 1 / 2) :
    ∃ c, @Bezier.closestPoint ℚ (fieldScalar c08Half) (c08HLine x0) true ⟨cx, 2⟩ = .ok (some c) ∧ c.point = ⟨x0 + 1 / 2, 1⟩ := by
  unfold Bezier.closestPoint
  simp only [if_true]
  have hcos : @Scalar.cos ℚ (fieldScalar c08Half) (⟨cx, 2⟩ : P2 ℚ).y = 0 := rfl
  rw [hcos]
  show ∃ c, @closestSphericalLoop ℚ (fieldScalar c08Half) (c08HLine x0) ⟨cx, 2⟩ 0 (1 + 1) 0 _ none = _ ∧ _
  rw [@closestSphericalLoop_succ ℚ (fieldScalar c08Half)]
  simp only [c08HLine, idx, List.length_cons, List.length_nil, List.getElem?_cons_zero, List.getElem?_cons_succ, bind, Except.bind]
  rw [c08Half_piece, hest]
  have hacc : @accept ℚ (fieldScalar c08Half) 0 (1 / 2) = true := by
    unfold accept
    simp only [Scalar.nat, lit_sci_rat]
    show (decide _ && decide ((((0 : ℕ) : ℚ)) + 1 / 2 > 0) && decide _ && decide (_ < ((0 : ℕ) : ℚ))) = true
    norm_num
  have hinf : (1 : ℚ) < @Scalar.inf ℚ (fieldScalar c08Half) := by
    show (1 : ℚ) < 1000
    norm_num
  simp only [hacc, hinf, Bool.not_true, Bool.false_eq_true, if_false, and_self, if_true, Nat.zero_add, Nat.lt_add_one]
  rw [show (1 : ℕ) = 0 + 1 from rfl, @closestSphericalLoop_succ ℚ (fieldScalar c08Half)]
  simp only [List.length_cons, List.length_nil, Nat.reduceAdd, Nat.lt_irrefl, if_false]
  refine ⟨_, rfl, ?_⟩
  rw [c08HLine_cubic]
  unfold closestOf cubicPoint
  simp only [lit_sci_rat, lit_natCast, P2.mk.injEq]
  norm_num
  ring

theorem c08_no_tie (a : ℚ) (n : ℤ) (ha : 2 * a = n) (hodd : n % 2 = 0) (j : ℤ) : |(3 / 2 : ℚ) + 2 * 3 * j - a| ≠ 3 := by
  intro hk
  rcases (abs_eq (by norm_num : (0 : ℚ) ≤ 3)).mp hk with h | h
  · have : (12 * j - n : ℤ) = 3 := by
      have : (12 : ℚ) * j - n = 3 := by rw [← ha]; linarith
      exact_mod_cast this
    omega
  · have : (12 * j - n : ℤ) = -9 := by
      have : (12 : ℚ) * j - n = -9 := by rw [← ha]; linarith
      exact_mod_cast this
    omega

/-- the curve along latitude `1` from longitude `1` to `2` (also as the list of trench coordinates), the query `(lon, lat) = (3/2, 2)`,
everything written one turn to the west: all hypotheses of `dpfcp_lon_alias` hold (the foot point is `(3/2, 1)`, one unit of
latitude away from the query: the query is not below the trench) -/
theorem c08HLine_dpfcpAliasOk (pt : P3 ℚ) (sr : ℚ) :
    DpfcpAliasOk c08Half ⟨true, .none, 1⟩ pt ⟨1, 3 / 2, 2⟩ (c08HLine 1).points (c08HLine 1) sr (-1) := by
  have e : c08Half.pi = 3 := rfl
  have hreach : TrenchReach c08Half (surfacePoint true (⟨1, 3 / 2, 2⟩ : P3 ℚ)) (-1) (c08HLine 1).points := by
    intro i p1 h
    have hp : p1 = ⟨1, 1⟩ ∨ p1 = ⟨2, 1⟩ := by
      have := List.mem_of_getElem? h
      simp only [c08HLine, List.mem_cons, List.not_mem_nil, or_false] at this
      rcases this with rfl | rfl
      · exact Or.inl rfl
      · right; congr 1; norm_num
    show EstReach c08Half _ ⟨3 / 2, 2⟩ ⟨3 / 2, 2⟩ p1
    unfold EstReach
    rw [e]
    rcases hp with rfl | rfl
    · exact ⟨by norm_num [abs_of_pos], by norm_num [abs_of_pos], c08_no_tie 1 2 (by norm_num) (by norm_num)⟩
    · refine ⟨by norm_num [abs_of_neg], by norm_num [abs_of_pos], ?_⟩
      intro j
      exact c08_no_tie 2 4 (by norm_num) (by norm_num) j
  have hest : @initialEstimateSph ℚ (fieldScalar c08Half) ⟨1, 1⟩ ⟨1 + 1, 1⟩ ⟨3 / 2, 2⟩ = 1 / 2 := by
    rw [c08Half_est]
    simp only [sphDx, e]
    norm_num
  obtain ⟨c, hc, hcp⟩ := c08HLine_closest_point 1 (3 / 2) hest
  have hc' : @Bezier.closestPoint ℚ (fieldScalar c08Half) (c08HLine 1) true (surfacePoint true (⟨1, 3 / 2, 2⟩ : P3 ℚ)) = .ok (some c) := hc
  have hcp' : c.point = ⟨3 / 2, 1⟩ := by rw [hcp]; congr 1; norm_num
  refine ⟨hreach, hreach, ?_, ?_⟩
  · intro cp h
    rw [hc'] at h
    simp only [Except.ok.injEq, Option.some.injEq] at h
    subst h
    rw [hcp']
    show EstReach c08Half _ ⟨3 / 2, 2⟩ ⟨3 / 2, 2⟩ ⟨3 / 2, 1⟩
    unfold EstReach
    rw [e]
    refine ⟨by norm_num, by norm_num [abs_of_pos], ?_⟩
    intro j hk
    rcases (abs_eq (by norm_num : (0 : ℚ) ≤ 3)).mp hk with h | h
    · have : (2 * j : ℤ) = 1 := by
        have : (2 : ℚ) * j = 1 := by linarith
        exact_mod_cast this
      omega
    · have : (2 * j : ℤ) = -1 := by
        have : (2 : ℚ) * j = -1 := by linarith
        exact_mod_cast this
      omega
  · intro cp h
    rw [hc'] at h
    simp only [Except.ok.injEq, Option.some.injEq] at h
    subst h
    unfold DpfcpBelowTrench
    rw [hcp']
    intro hbt
    have h1 := hbt.1
    rw [dpfcpOnTrench_field, dpfcpLonShift_field] at h1
    simp only [e] at h1
    norm_num [c08Half, c08Transc] at h1

end Gwb
