/-
The block view of the output vector: every write a feature performs for request `i` stays inside the block of
request `i` and depends only on that block (`paintAt_shift`), hence a whole feature acts block-wise
(`paintAll_blocks`).  Holds for every `Scalar R` (no laws).
-/
import GwbVerif.Model.World
import GwbVerif.Proofs.Layout
import GwbVerif.Proofs.QM
namespace Gwb
open Scalar
set_option linter.unusedSectionVars false
variable {R G : Type} [Scalar R] [RandGen G R]

/-! ### grains blocks keep their shape -/

/-- well-formed grains: `k` sizes and `k` matrices -/
def Grains.WF (k : Nat) (g : Grains R) : Prop := g.sizes.length = k ∧ g.mats.length = k

theorem flatten_toList_length (ms : List (M3 R)) : ((ms.map M3.toList).flatten).length = 9 * ms.length := by
  induction ms with
  | nil => rfl
  | cons m ms ih => simp [List.flatten_cons, ih, M3.toList]; omega

theorem Grains.toBlock_length (k : Nat) (g : Grains R) (h : g.WF k) : g.toBlock.length = k * 10 := by
  obtain ⟨h1, h2⟩ := h
  unfold Grains.toBlock
  rw [List.length_append, flatten_toList_length, h1, h2]; omega

theorem chunkM3_length (k : Nat) (xs : List R) (h : xs.length = 9 * k) : (chunkM3 k xs).length = k := by
  induction k generalizing xs with
  | zero => rfl
  | succ k ih =>
    unfold chunkM3
    have h9 : (xs.take 9).length = 9 := by simp; omega
    match hx : xs.take 9, h9 with
    | [a, b, c, d, e, f, g, h', i], _ =>
      simp only [M3.ofList?, List.length_cons]
      rw [ih (xs.drop 9) (by simp; omega)]

theorem Grains.ofBlock_wf (k : Nat) (blk : List R) (h : blk.length = k * 10) : (Grains.ofBlock k blk).WF k := by
  constructor
  · simp [Grains.ofBlock]; omega
  · simp only [Grains.ofBlock]
    exact chunkM3_length k _ (by simp; omega)

theorem drawMatrices_length (d : Option R) (b : Option (M3 R)) (n : Nat) :
    Post (G := G) (drawMatrices d b n) (fun ms => ms.length = n) := by
  induction n with
  | zero => exact Post.pure rfl
  | succ n ih =>
    unfold drawMatrices
    refine Post.bind (Post.triv _) fun _ _ => Post.bind (Post.triv _) fun _ _ => Post.bind (Post.triv _) fun _ _ => ?_
    refine Post.bind ih fun rest hrest => Post.pure ?_
    simp [hrest]

theorem drawSizes_length (size : R) (n : Nat) (tot : R) :
    Post (G := G) (drawSizes size n tot) (fun r => r.1.length = n) := by
  induction n generalizing tot with
  | zero => exact Post.pure rfl
  | succ n ih =>
    unfold drawSizes
    refine Post.bind (Post.triv _) fun s _ => Post.bind (ih _) fun r hr => ?_
    obtain ⟨rest, t⟩ := r
    exact Post.pure (by simpa using hr)

theorem GrainsModel.get_wf (m : GrainsModel R) (ctx : Ctx R) (q : Query R) (n k : Nat) (old : Grains R) (hwf : old.WF k) :
    Post (G := G) (m.get ctx q n old) (Grains.WF k) := by
  obtain ⟨h1, h2⟩ := hwf
  cases m with
  | uniform rng comps mats sizes =>
    unfold GrainsModel.get
    refine Post.bind (Post.triv _) fun r _ => ?_
    split
    · exact Post.pure ⟨h1, h2⟩
    · split
      · exact Post.pure ⟨h1, h2⟩
      · refine Post.bind (Post.triv _) fun _ _ => Post.bind (Post.triv _) fun _ _ => Post.pure ?_
        constructor <;> simp [h1, h2]
  | randomUniform rng comps sizes normalize =>
    unfold GrainsModel.get
    refine Post.bind (Post.triv _) fun r _ => ?_
    split
    · exact Post.pure ⟨h1, h2⟩
    · split
      · exact Post.pure ⟨h1, h2⟩
      · refine Post.bind (drawMatrices_length _ _ _) fun ms hms => Post.bind (Post.triv _) fun _ _ => ?_
        refine Post.bind (drawSizes_length _ _ _) fun r hr => ?_
        obtain ⟨ss, tot⟩ := r
        refine Post.bind (Post.triv _) fun nrm _ => Post.pure ?_
        constructor
        · simp only at hr; split <;> simp [hr, h1]
        · simp [hms, h2]
  | randomUniformDeflected rng comps basis sizes normalize deflections =>
    unfold GrainsModel.get
    refine Post.bind (Post.triv _) fun r _ => ?_
    split
    · exact Post.pure ⟨h1, h2⟩
    · split
      · exact Post.pure ⟨h1, h2⟩
      · refine Post.bind (Post.triv _) fun _ _ => Post.bind (Post.triv _) fun _ _ => ?_
        refine Post.bind (drawMatrices_length _ _ _) fun ms hms => Post.bind (Post.triv _) fun _ _ => ?_
        refine Post.bind (drawSizes_length _ _ _) fun r hr => ?_
        obtain ⟨ss, tot⟩ := r
        refine Post.bind (Post.triv _) fun nrm _ => Post.pure ?_
        constructor
        · simp only at hr; split <;> simp [hr, h1]
        · simp [hms, h2]

theorem grainsFold_wf (ms : List (GrainsModel R)) (ctx : Ctx R) (q : Query R) (n k : Nat) (g0 : Grains R) (h : g0.WF k) :
    Post (G := G) (ms.foldlM (fun g m => m.get ctx q n g) g0) (Grains.WF k) :=
  Post.foldlM _ _ (fun b a hb => GrainsModel.get_wf a ctx q n k b hb) ms g0 h

/-! ### one request, one block -/

/-- lift a block-level result into the surrounding vector -/
def embed (pre post : List R) : Except Err (List R × G) → Except Err (List R × G)
  | .ok (b, g) => .ok (pre ++ b ++ post, g)
  | .error e => .error e

/-- what a feature writes for a request keeps the block's length -/
theorem paintAt_length (tag : Nat) (ms : Models R) (ctx : Ctx R) (q : Query R) (fMin fMax rel : R)
    (p : Req) (blk : List R) (hsz : p.size? = some blk.length) :
    Post (G := G) (paintAt tag ms ctx q fMin fMax rel p 0 blk) (fun b => b.length = blk.length) := by
  obtain ⟨code, n, k⟩ := p
  simp only [Req.size?] at hsz
  match code, hsz with
  | 1, hsz =>
    simp only [Option.some.injEq] at hsz
    unfold paintAt
    refine Post.bind (Post.triv _) fun _ _ => Post.bind (Post.triv _) fun _ _ => Post.pure ?_
    rw [writeBlock_zero] <;> simp [← hsz]
  | 2, hsz =>
    simp only [Option.some.injEq] at hsz
    unfold paintAt
    refine Post.bind (Post.triv _) fun _ _ => Post.bind (Post.triv _) fun _ _ => Post.pure ?_
    rw [writeBlock_zero] <;> simp [← hsz]
  | 3, hsz =>
    simp only [Option.some.injEq] at hsz
    unfold paintAt
    have hwf := Grains.ofBlock_wf k (readBlock 0 (k * 10) blk) (by rw [readBlock_zero _ _ hsz.symm]; exact hsz.symm)
    refine Post.bind (grainsFold_wf _ ctx q n k _ hwf) fun g' hg' => Post.pure ?_
    have := Grains.toBlock_length k g' hg'
    rw [writeBlock_zero] <;> omega
  | 4, hsz =>
    simp only [Option.some.injEq] at hsz
    unfold paintAt
    refine Post.pure ?_
    rw [writeBlock_zero] <;> simp [← hsz]
  | 5, hsz =>
    simp only [Option.some.injEq] at hsz
    unfold paintAt
    refine Post.bind (Post.triv _) fun _ _ => Post.pure ?_
    rw [writeBlock_zero] <;> simp [← hsz]
  | 0, hsz => simp at hsz
  | c + 6, hsz => simp at hsz

/-- **slot locality**: painting request `p` whose block sits between `pre` and `post` is painting the block alone -/
theorem paintAt_shift (tag : Nat) (ms : Models R) (ctx : Ctx R) (q : Query R) (fMin fMax rel : R)
    (p : Req) (pre blk post : List R) (g : G) (hsz : p.size? = some blk.length) :
    paintAt tag ms ctx q fMin fMax rel p pre.length (pre ++ blk ++ post) g
      = embed pre post (paintAt tag ms ctx q fMin fMax rel p 0 blk g) := by
  have hlen := paintAt_length (G := G) tag ms ctx q fMin fMax rel p blk hsz
  obtain ⟨code, n, k⟩ := p
  simp only [Req.size?] at hsz
  match code, hsz with
  | 1, hsz =>
    simp only [Option.some.injEq] at hsz
    have hpos : 0 < blk.length := by omega
    simp only [paintAt, QM.bind_apply, idx_append_zero pre blk post hpos]
    cases h0 : idx blk 0 with
    | error e => simp [liftE_error, embed]
    | ok old =>
      simp only [liftE_ok]
      cases h1 : (liftE (List.foldlM (fun t m => m.get ctx q t fMin fMax rel) old ms.temps) : QM G R) g with
      | error e => simp [embed]
      | ok r =>
        obtain ⟨t, g1⟩ := r
        simp only [QM.pure_apply, embed]
        rw [writeBlock_append _ _ _ _ (by simp [← hsz]), writeBlock_zero _ _ (by simp [← hsz])]
  | 2, hsz =>
    simp only [Option.some.injEq] at hsz
    have hpos : 0 < blk.length := by omega
    simp only [paintAt, QM.bind_apply, idx_append_zero pre blk post hpos]
    cases h0 : idx blk 0 with
    | error e => simp [liftE_error, embed]
    | ok old =>
      simp only [liftE_ok]
      cases h1 : (List.foldlM (fun c m => m.get ctx q n c) old ms.comps : QM G R) g with
      | error e => simp [embed]
      | ok r =>
        obtain ⟨t, g1⟩ := r
        simp only [QM.pure_apply, embed]
        rw [writeBlock_append _ _ _ _ (by simp [← hsz]), writeBlock_zero _ _ (by simp [← hsz])]
  | 3, hsz =>
    simp only [Option.some.injEq] at hsz
    simp only [paintAt, QM.bind_apply, readBlock_append pre blk post _ hsz.symm, readBlock_zero blk _ hsz.symm]
    have hwf := Grains.ofBlock_wf k blk hsz.symm
    cases h1 : (List.foldlM (fun g m => m.get ctx q n g) (Grains.ofBlock k blk) ms.grains : QM G (Grains R)) g with
    | error e => simp [embed]
    | ok r =>
      obtain ⟨g2, g1⟩ := r
      have hg2 := grainsFold_wf (G := G) ms.grains ctx q n k _ hwf _ _ _ h1
      have hl := Grains.toBlock_length k g2 hg2
      simp only [QM.pure_apply, embed]
      rw [writeBlock_append _ _ _ _ (by omega), writeBlock_zero _ _ (by omega)]
  | 4, hsz =>
    simp only [Option.some.injEq] at hsz
    simp only [paintAt, QM.pure_apply, embed]
    rw [writeBlock_append _ _ _ _ (by simp [← hsz]), writeBlock_zero _ _ (by simp [← hsz])]
  | 5, hsz =>
    simp only [Option.some.injEq] at hsz
    simp only [paintAt, QM.bind_apply]
    cases h1 : (liftE (List.foldlM (fun v m => m.get ctx q v) (⟨0, 0, 0⟩ : P3 R) ms.vels) : QM G (P3 R)) g with
    | error e => simp [embed]
    | ok r =>
      obtain ⟨v, g1⟩ := r
      simp only [QM.pure_apply, embed]
      rw [writeBlock_append _ _ _ _ (by simp [← hsz]), writeBlock_zero _ _ (by simp [← hsz])]
  | 0, hsz => simp at hsz
  | c + 6, hsz => simp at hsz

/-! ### line features: the same two facts -/

theorem LineGrains.get_wf (m : LineGrains R) (isFault : Bool) (pd : PlaneDist R) (n k : Nat) (old new : Grains R)
    (hwf : old.WF k) (h : m.get isFault pd n old = .ok new) : new.WF k := by
  obtain ⟨h1, h2⟩ := hwf
  cases m with
  | uniform mn mx comps mats sizes =>
    unfold LineGrains.get at h
    simp only at h
    split at h
    · split at h
      · simp only [Except.ok.injEq] at h; subst h; exact ⟨h1, h2⟩
      · cases hm : idx mats ‹Nat› with
        | error e => simp [hm, bind, Except.bind] at h
        | ok mat =>
          cases hs : idx sizes ‹Nat› with
          | error e => simp [hm, hs, bind, Except.bind] at h
          | ok gs =>
            simp [hm, hs, bind, Except.bind, pure, Except.pure] at h
            subst h
            constructor <;> simp [h1, h2]
    · simp only [Except.ok.injEq] at h; subst h; exact ⟨h1, h2⟩
  | randomUniform mn mx comps sizes normalize =>
    simp only [LineGrains.get, Except.ok.injEq] at h; subst h; exact ⟨h1, h2⟩
  | randomUniformDeflected mn mx comps basis sizes normalize deflections =>
    simp only [LineGrains.get, Except.ok.injEq] at h; subst h; exact ⟨h1, h2⟩
  | drawn g =>
    simp only [LineGrains.get] at h
    split at h
    · rename_i hg
      simp only [Except.ok.injEq] at h; subst h
      exact ⟨hg.1.trans h1, hg.2.trans h2⟩
    · simp only [Except.ok.injEq] at h; subst h; exact ⟨h1, h2⟩

theorem lineGrainsFold_wf (ms : List (LineGrains R)) (isFault : Bool) (pd : PlaneDist R) (n k : Nat) (g0 g1 : Grains R)
    (h0 : g0.WF k) (h : ms.foldlM (fun g m => m.get isFault pd n g) g0 = .ok g1) : g1.WF k := by
  induction ms generalizing g0 with
  | nil => simp [List.foldlM_nil, pure, Except.pure] at h; subst h; exact h0
  | cons m ms ih =>
    rw [List.foldlM_cons] at h
    cases hm : m.get isFault pd n g0 with
    | error e => simp [hm, bind, Except.bind] at h
    | ok g' =>
      simp only [hm, bind, Except.bind] at h
      exact ih g' (LineGrains.get_wf m isFault pd n k g0 g' h0 hm) h

theorem zipGrains_length (k : Nat) (gc gn : Grains R) (hc : gc.WF k) (hn : gn.WF k)
    (fs : R → R → R) (fm : M3 R → M3 R → M3 R) :
    (Grains.toBlock (⟨List.zipWith fs gc.sizes gn.sizes, List.zipWith fm gc.mats gn.mats⟩ : Grains R)).length = k * 10 := by
  apply Grains.toBlock_length
  constructor <;> simp [hc.1, hc.2, hn.1, hn.2]

/-- lift a block-level result into the surrounding vector (exception monad) -/
def embedE (pre post : List R) : Except Err (List R) → Except Err (List R)
  | .ok b => .ok (pre ++ b ++ post)
  | .error e => .error e

theorem linePaintAt_length (f : LineFeature R) (ctx : Ctx R) (q : Query R) (h : LineHit R) (p : Req) (blk b : List R)
    (hsz : p.size? = some blk.length) (hb : linePaintAt f ctx q h p 0 blk = .ok b) : b.length = blk.length := by
  obtain ⟨code, n, k⟩ := p
  simp only [Req.size?] at hsz
  match code, hsz with
  | 1, hsz =>
    simp only [Option.some.injEq] at hsz
    simp only [linePaintAt] at hb
    cases h0 : idx blk 0 with
    | error e => simp [h0, bind, Except.bind] at hb
    | ok old =>
      simp only [h0, bind, Except.bind] at hb
      split at hb
      · simp at hb
      · split at hb
        · simp at hb
        · simp [pure, Except.pure] at hb
          subst hb
          rw [writeBlock_zero] <;> simp [← hsz]
  | 2, hsz =>
    simp only [Option.some.injEq] at hsz
    simp only [linePaintAt] at hb
    cases h0 : idx blk 0 with
    | error e => simp [h0, bind, Except.bind] at hb
    | ok old =>
      simp only [h0, bind, Except.bind] at hb
      split at hb
      · simp at hb
      · split at hb
        · simp at hb
        · simp [pure, Except.pure] at hb
          subst hb
          rw [writeBlock_zero] <;> simp [← hsz]
  | 3, hsz =>
    simp only [Option.some.injEq] at hsz
    simp only [linePaintAt, readBlock_zero blk _ hsz.symm] at hb
    have hwf := Grains.ofBlock_wf k blk hsz.symm
    simp only [bind, Except.bind] at hb
    split at hb
    · simp at hb
    · rename_i gc hgc
      split at hb
      · simp at hb
      · rename_i gn hgn
        have hc := lineGrainsFold_wf _ f.isFault h.pd n k _ gc hwf hgc
        have hn := lineGrainsFold_wf _ f.isFault h.pd n k _ gn hwf hgn
        simp [pure, Except.pure] at hb
        subst hb
        have hl := zipGrains_length k gc gn hc hn
        rw [writeBlock_zero _ _ (by rw [hl]; omega)]; rw [hl]; omega
  | 4, hsz =>
    simp only [Option.some.injEq] at hsz
    simp [linePaintAt, pure, Except.pure] at hb
    subst hb
    rw [writeBlock_zero] <;> simp [← hsz]
  | 5, hsz =>
    simp only [Option.some.injEq] at hsz
    simp only [linePaintAt, bind, Except.bind] at hb
    split at hb
    · simp at hb
    · split at hb
      · simp at hb
      · simp [pure, Except.pure] at hb
        subst hb
        rw [writeBlock_zero] <;> simp [← hsz]
  | 0, hsz => simp at hsz
  | c + 6, hsz => simp at hsz

theorem linePaintAt_shift (f : LineFeature R) (ctx : Ctx R) (q : Query R) (h : LineHit R) (p : Req) (pre blk post : List R)
    (hsz : p.size? = some blk.length) :
    linePaintAt f ctx q h p pre.length (pre ++ blk ++ post) = embedE pre post (linePaintAt f ctx q h p 0 blk) := by
  have hlen := fun b => linePaintAt_length f ctx q h p blk b hsz
  obtain ⟨code, n, k⟩ := p
  simp only [Req.size?] at hsz
  match code, hsz with
  | 1, hsz =>
    simp only [Option.some.injEq] at hsz
    have hpos : 0 < blk.length := by omega
    simp only [linePaintAt, idx_append_zero pre blk post hpos]
    cases h0 : idx blk 0 with
    | error e => simp [bind, Except.bind, embedE]
    | ok old =>
      simp only [bind, Except.bind]
      split
      · simp [embedE]
      · split
        · simp [embedE]
        · simp only [pure, Except.pure, embedE]
          rw [writeBlock_append _ _ _ _ (by simp [← hsz]), writeBlock_zero _ _ (by simp [← hsz])]
  | 2, hsz =>
    simp only [Option.some.injEq] at hsz
    have hpos : 0 < blk.length := by omega
    simp only [linePaintAt, idx_append_zero pre blk post hpos]
    cases h0 : idx blk 0 with
    | error e => simp [bind, Except.bind, embedE]
    | ok old =>
      simp only [bind, Except.bind]
      split
      · simp [embedE]
      · split
        · simp [embedE]
        · simp only [pure, Except.pure, embedE]
          rw [writeBlock_append _ _ _ _ (by simp [← hsz]), writeBlock_zero _ _ (by simp [← hsz])]
  | 3, hsz =>
    simp only [Option.some.injEq] at hsz
    have h3 := hlen
    simp only [linePaintAt, readBlock_append pre blk post _ hsz.symm, readBlock_zero blk _ hsz.symm] at h3 ⊢
    simp only [bind, Except.bind] at h3 ⊢
    split
    · simp [embedE]
    · rename_i gc hgc
      split
      · simp [embedE]
      · rename_i gn hgn
        simp only [hgc, hgn, pure, Except.pure] at h3
        have hl := h3 _ rfl
        simp only [pure, Except.pure, embedE]
        have hwf := Grains.ofBlock_wf k blk hsz.symm
        have hc := lineGrainsFold_wf _ f.isFault h.pd n k _ gc hwf hgc
        have hn := lineGrainsFold_wf _ f.isFault h.pd n k _ gn hwf hgn
        have hbl := zipGrains_length k gc gn hc hn
        rw [writeBlock_append _ _ _ _ (by rw [hbl]; omega), writeBlock_zero _ _ (by rw [hbl]; omega)]
  | 4, hsz =>
    simp only [Option.some.injEq] at hsz
    simp only [linePaintAt, pure, Except.pure, embedE]
    rw [writeBlock_append _ _ _ _ (by simp [← hsz]), writeBlock_zero _ _ (by simp [← hsz])]
  | 5, hsz =>
    simp only [Option.some.injEq] at hsz
    have e0 : idx (pre ++ blk ++ post) pre.length = idx blk 0 := idx_append_zero pre blk post (by omega)
    have e1 : idx (pre ++ blk ++ post) (pre.length + 1) = idx blk 1 := idx_append_left pre blk post 1 (by omega)
    simp only [linePaintAt, e0, e1, Nat.zero_add]
    simp only [bind, Except.bind]
    split
    · simp [embedE]
    · split
      · simp [embedE]
      · simp only [pure, Except.pure, embedE]
        rw [writeBlock_append _ _ _ _ (by simp [← hsz]), writeBlock_zero _ _ (by simp [← hsz])]
  | 0, hsz => simp at hsz
  | c + 6, hsz => simp at hsz

/-! ### a covering feature, abstractly -/

/-- what a feature that covers the query point does: an area feature / plume with its models and the numbers handed to them,
or a slab / fault with its geometry result -/
inductive Hit (R : Type)
  | areaLike (tag : Nat) (ms : Models R) (fMin fMax rel : R)
  | line (f : LineFeature R) (h : LineHit R)

def Hit.tag : Hit R → Nat
  | .areaLike tag .. => tag
  | .line f _ => f.tag

/-- the per-request `switch` of the covering feature -/
def Hit.paintAt (hit : Hit R) (ctx : Ctx R) (q : Query R) (p : Req) (e : Nat) (out : List R) : QM G (List R) :=
  match hit with
  | .areaLike tag ms a b r => Gwb.paintAt tag ms ctx q a b r p e out
  | .line f h => linePaintAtM f ctx q h p e out

/-- for every request but a grains request the preparation of a segment's models does not look at the grains -/
theorem Segment.prepare_irrel (s : Segment R) (isFault : Bool) (q : Query R) (pd : PlaneDist R) (p : Req) (g0 g1 : Grains R)
    (hne : p.code ≠ 3) : (s.prepare isFault q pd p g0 : QM G (Segment R)) = s.prepare isFault q pd p g1 := by
  unfold Segment.prepare
  split
  · rfl
  · rename_i h3; exact absurd h3 hne
  · rfl

/-- the preparation reads the request's own block only (its number of grains) -/
theorem LineHit.prepare_shift (h : LineHit R) (isFault : Bool) (q : Query R) (p : Req) (pre blk post : List R)
    (hsz : p.size? = some blk.length) :
    (h.prepare isFault q p (Grains.ofBlock p.k (readBlock pre.length (p.k * 10) (pre ++ blk ++ post))) : QM G (LineHit R)) =
      h.prepare isFault q p (Grains.ofBlock p.k (readBlock 0 (p.k * 10) blk)) := by
  by_cases h3 : p.code = 3
  · have hl : blk.length = p.k * 10 := by
      simp only [Req.size?, h3, Option.some.injEq] at hsz; exact hsz.symm
    rw [readBlock_append pre blk post _ hl, readBlock_zero blk _ hl]
  · unfold LineHit.prepare
    rw [Segment.prepare_irrel h.cur isFault q h.pd p _ (Grains.ofBlock p.k (readBlock 0 (p.k * 10) blk)) h3]
    simp only [Segment.prepare_irrel h.next isFault q h.pd p _ (Grains.ofBlock p.k (readBlock 0 (p.k * 10) blk)) h3]

theorem linePaintAtM_length (f : LineFeature R) (ctx : Ctx R) (q : Query R) (h : LineHit R) (p : Req) (blk : List R)
    (hsz : p.size? = some blk.length) :
    Post (G := G) (linePaintAtM f ctx q h p 0 blk) (fun b => b.length = blk.length) := by
  unfold linePaintAtM
  exact Post.bind (Post.triv _) fun h' _ => Post.liftE (fun b hb => linePaintAt_length f ctx q h' p blk b hsz hb)

theorem linePaintAtM_shift (f : LineFeature R) (ctx : Ctx R) (q : Query R) (h : LineHit R) (p : Req) (pre blk post : List R) (g : G)
    (hsz : p.size? = some blk.length) :
    linePaintAtM f ctx q h p pre.length (pre ++ blk ++ post) g = embed pre post (linePaintAtM f ctx q h p 0 blk g) := by
  unfold linePaintAtM
  rw [LineHit.prepare_shift h f.isFault q p pre blk post hsz]
  simp only [QM.bind_apply]
  cases h.prepare f.isFault q p (Grains.ofBlock p.k (readBlock 0 (p.k * 10) blk)) g with
  | error e => simp [embed]
  | ok r =>
    obtain ⟨h', g'⟩ := r
    simp only [linePaintAt_shift f ctx q h' p pre blk post hsz]
    cases linePaintAt f ctx q h' p 0 blk with
    | error e => simp [embedE, liftE_error, embed]
    | ok b => simp [embedE, liftE_ok, embed]

theorem Hit.paintAt_length (hit : Hit R) (ctx : Ctx R) (q : Query R) (p : Req) (blk : List R) (hsz : p.size? = some blk.length) :
    Post (G := G) (hit.paintAt ctx q p 0 blk) (fun b => b.length = blk.length) := by
  cases hit with
  | areaLike tag ms a b r => exact Gwb.paintAt_length tag ms ctx q a b r p blk hsz
  | line f h => exact linePaintAtM_length f ctx q h p blk hsz

theorem Hit.paintAt_shift (hit : Hit R) (ctx : Ctx R) (q : Query R) (p : Req) (pre blk post : List R) (g : G)
    (hsz : p.size? = some blk.length) :
    hit.paintAt ctx q p pre.length (pre ++ blk ++ post) g = embed pre post (hit.paintAt ctx q p 0 blk g) := by
  cases hit with
  | areaLike tag ms a b r => exact Gwb.paintAt_shift tag ms ctx q a b r p pre blk post g hsz
  | line f h => exact linePaintAtM_shift f ctx q h p pre blk post g hsz

end Gwb
