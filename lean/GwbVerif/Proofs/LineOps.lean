/-
Helper lemmas for C02 inside slabs and faults (`Properties/C02Lines.lean`): what one section's model list makes of the value painted
so far (`sectionTemp/Comp/Grains/Vel` of Proofs/Sections.lean) for the empty list and for a single uniform model, the unfolding of
`linePaintAt` into "both sections fold from the SAME old value, then `lerp`", `writeBlock` of the value already there, and the
self-`slerp` of a rotation matrix entry (`selfSlerp`): what a slab / fault without grains models writes back.
-/
import GwbVerif.Proofs.Sections
import GwbVerif.Proofs.Models
import GwbVerif.Proofs.Layout
import GwbVerif.Proofs.LineInstances
import GwbVerif.Proofs.QM
namespace Gwb
open Scalar
set_option linter.unusedSectionVars false
set_option linter.unusedVariables false

/-! ## 1. every `Scalar R` -/

section anyScalar
variable {R : Type} [Scalar R]

/-! ### a section without models of a kind returns the value it was handed -/

theorem sectionTemp_nil (isFault : Bool) (ctx : Ctx R) (q : Query R) (pd : PlaneDist R) (ap : AdditionalParams R) (seg : Segment R)
    (h : seg.temps = []) (old : R) : sectionTemp isFault ctx q pd ap seg old = .ok old := by
  unfold sectionTemp; rw [h]; rfl

theorem sectionComp_nil (isFault : Bool) (pd : PlaneDist R) (n : Nat) (seg : Segment R) (h : seg.comps = []) (old : R) :
    sectionComp isFault pd n seg old = .ok old := by
  unfold sectionComp; rw [h]; rfl

theorem sectionGrains_nil (isFault : Bool) (pd : PlaneDist R) (n : Nat) (seg : Segment R) (h : seg.grains = []) (g : Grains R) :
    sectionGrains isFault pd n seg g = .ok g := by
  unfold sectionGrains; rw [h]; rfl

theorem sectionVel_nil (isFault : Bool) (pd : PlaneDist R) (seg : Segment R) (h : seg.vels = []) (v0 : P3 R) :
    sectionVel isFault pd seg v0 = v0 := by
  unfold sectionVel; rw [h]; rfl

/-! ### a section with a single uniform model -/

/-- the range test of the line models: `min distance ≤ d ≤ max distance`, `d` the (for faults: absolute) distance from the plane -/
def inLineRange (isFault : Bool) (pd : PlaneDist R) (mn mx : R) : Prop :=
  lineDist isFault pd.distanceFromPlane ≤ mx ∧ lineDist isFault pd.distanceFromPlane ≥ mn

theorem sectionTemp_single_uniform (isFault : Bool) (ctx : Ctx R) (q : Query R) (pd : PlaneDist R) (ap : AdditionalParams R)
    (seg : Segment R) (mn mx : R) (op : Op) (M : R) (h : seg.temps = [.basic (.uniform mn mx op M)])
    (hin : inLineRange isFault pd mn mx) (old : R) :
    sectionTemp isFault ctx q pd ap seg old = .ok (applyOp op old M) := by
  unfold sectionTemp inLineRange at *
  rw [h]
  simp only [List.foldlM_cons, List.foldlM_nil, SegTemp.get, LineTemp.get, hin, and_self, if_true, bind, Except.bind, pure, Except.pure]

theorem sectionTemp_single_uniform_out (isFault : Bool) (ctx : Ctx R) (q : Query R) (pd : PlaneDist R) (ap : AdditionalParams R)
    (seg : Segment R) (mn mx : R) (op : Op) (M : R) (h : seg.temps = [.basic (.uniform mn mx op M)])
    (hout : ¬ inLineRange isFault pd mn mx) (old : R) :
    sectionTemp isFault ctx q pd ap seg old = .ok old := by
  unfold sectionTemp inLineRange at *
  rw [h]
  simp only [List.foldlM_cons, List.foldlM_nil, SegTemp.get, LineTemp.get, hout, if_false, bind, Except.bind, pure, Except.pure]

theorem sectionComp_single_uniform_listed (isFault : Bool) (pd : PlaneDist R) (n : Nat) (seg : Segment R) (mn mx : R) (op : Op)
    (comps : List Nat) (fr : List R) (i : Nat) (M : R) (h : seg.comps = [.uniform mn mx op comps fr])
    (hin : inLineRange isFault pd mn mx) (hi : findComposition comps n = some i) (hf : fr[i]? = some M) (old : R) :
    sectionComp isFault pd n seg old = .ok (applyOp op old M) := by
  unfold sectionComp inLineRange at *
  rw [h]
  simp only [List.foldlM_cons, List.foldlM_nil, LineComp.get, hin, and_self, if_true, hi, idx, hf, bind, Except.bind, pure, Except.pure]

theorem sectionComp_single_uniform_unlisted (isFault : Bool) (pd : PlaneDist R) (n : Nat) (seg : Segment R) (mn mx : R) (op : Op)
    (comps : List Nat) (fr : List R) (h : seg.comps = [.uniform mn mx op comps fr])
    (hin : inLineRange isFault pd mn mx) (hi : findComposition comps n = none) (old : R) :
    sectionComp isFault pd n seg old = .ok (if op = .replace then (0.0 : R) else old) := by
  unfold sectionComp inLineRange at *
  rw [h]
  simp only [List.foldlM_cons, List.foldlM_nil, LineComp.get, hin, and_self, if_true, hi, bind, Except.bind, pure, Except.pure]
  cases op <;> rfl

theorem sectionComp_single_uniform_out (isFault : Bool) (pd : PlaneDist R) (n : Nat) (seg : Segment R) (mn mx : R) (op : Op)
    (comps : List Nat) (fr : List R) (h : seg.comps = [.uniform mn mx op comps fr])
    (hout : ¬ inLineRange isFault pd mn mx) (old : R) :
    sectionComp isFault pd n seg old = .ok old := by
  unfold sectionComp inLineRange at *
  rw [h]
  simp only [List.foldlM_cons, List.foldlM_nil, LineComp.get, hout, if_false, bind, Except.bind, pure, Except.pure]

theorem sectionVel_single_uniform (isFault : Bool) (pd : PlaneDist R) (seg : Segment R) (mn mx : R) (op : Op) (v : P3 R)
    (h : seg.vels = [.uniformRaw mn mx op v]) (hin : inLineRange isFault pd mn mx) (v0 : P3 R) :
    sectionVel isFault pd seg v0 = ⟨applyOp op v0.x v.x, applyOp op v0.y v.y, applyOp op v0.z v.z⟩ := by
  unfold sectionVel inLineRange at *
  rw [h]
  simp only [List.foldl_cons, List.foldl_nil, LineVel.get, hin, and_self, if_true]

/-! ### `linePaintAt` unfolded: both sections start from the same value -/

/-- temperature (code 1), no hypothesis on success: read `old`, fold the models of the current section from `old`, fold the models of
the next section from THE SAME `old`, write the `lerp` -/
theorem linePaintAt_temperature_eq (f : LineFeature R) (ctx : Ctx R) (q : Query R) (h : LineHit R) (p : Req) (e : Nat) (out : List R)
    (hcode : p.code = 1) :
    linePaintAt f ctx q h p e out = (do
      let old ← idx out e
      let tc ← sectionTemp f.isFault ctx q h.pd h.ap h.cur old
      let tn ← sectionTemp f.isFault ctx q h.pd h.ap h.next old
      return writeBlock e [lerp tc tn h.pd.fractionOfSection] out) := by
  unfold linePaintAt sectionTemp lerp
  simp only [hcode]

theorem linePaintAt_composition_eq (f : LineFeature R) (ctx : Ctx R) (q : Query R) (h : LineHit R) (p : Req) (e : Nat) (out : List R)
    (hcode : p.code = 2) :
    linePaintAt f ctx q h p e out = (do
      let old ← idx out e
      let cc ← sectionComp f.isFault h.pd p.n h.cur old
      let cn ← sectionComp f.isFault h.pd p.n h.next old
      return writeBlock e [lerp cc cn h.pd.fractionOfSection] out) := by
  unfold linePaintAt sectionComp lerp
  simp only [hcode]

theorem linePaintAt_velocity_eq (f : LineFeature R) (ctx : Ctx R) (q : Query R) (h : LineHit R) (p : Req) (e : Nat) (out : List R)
    (hcode : p.code = 5) :
    linePaintAt f ctx q h p e out = (do
      let o0 ← idx out e
      let o1 ← idx out (e + 1)
      let v0 : P3 R := ⟨o0, o1, o0 + (2 : R)⟩
      let vc := sectionVel f.isFault h.pd h.cur v0
      let vn := sectionVel f.isFault h.pd h.next v0
      return writeBlock e [lerp vc.x vn.x h.pd.fractionOfSection, lerp vc.y vn.y h.pd.fractionOfSection,
                           lerp vc.z vn.z h.pd.fractionOfSection] out) := by
  unfold linePaintAt sectionVel lerp
  simp only [hcode]

/-- what the two sections' grains are blended to: sizes pairwise `lerp`, matrices pairwise through quaternion `slerp` -/
def blendGrains (gc gn : Grains R) (sf : R) : Grains R :=
  { sizes := List.zipWith (fun a b => lerp a b sf) gc.sizes gn.sizes,
    mats := List.zipWith (fun (a b : M3 R) => mat3Cast (slerp (quatCast a) (quatCast b) sf)) gc.mats gn.mats }

theorem linePaintAt_grains_eq (f : LineFeature R) (ctx : Ctx R) (q : Query R) (h : LineHit R) (p : Req) (e : Nat) (out : List R)
    (hcode : p.code = 3) :
    linePaintAt f ctx q h p e out = (do
      let g := Grains.ofBlock p.k (readBlock e (p.k * 10) out)
      let gc ← sectionGrains f.isFault h.pd p.n h.cur g
      let gn ← sectionGrains f.isFault h.pd p.n h.next g
      return writeBlock e (blendGrains gc gn h.pd.fractionOfSection).toBlock out) := by
  unfold linePaintAt sectionGrains blendGrains lerp
  simp only [hcode]

/-- the matrix a slab / fault writes back for a grain whose two sections carry the same matrix `a`:
`mat3_cast(slerp(quat_cast(a), quat_cast(a), section_fraction))` -/
def selfSlerp (a : M3 R) (sf : R) : M3 R := mat3Cast (slerp (quatCast a) (quatCast a) sf)

/-- two equal grain sets blended: every size `a` becomes `lerp a a sf`, every matrix `a` becomes `selfSlerp a sf` -/
theorem blendGrains_self (g : Grains R) (sf : R) :
    blendGrains g g sf = { sizes := g.sizes.map (fun a => lerp a a sf), mats := g.mats.map (fun a => selfSlerp a sf) } := by
  unfold blendGrains selfSlerp
  simp only [List.zipWith_self]

/-! ### writing back what is there -/

theorem writeBlock_self1 (e : Nat) (out : List R) (old : R) (h : idx out e = .ok old) : writeBlock e [old] out = out := by
  unfold idx at h
  split at h
  · rename_i v hv
    cases h
    unfold writeBlock
    obtain ⟨hlt, rfl⟩ := List.getElem?_eq_some_iff.mp hv
    simp only [List.length_cons, List.length_nil, Nat.zero_add, List.append_assoc, List.singleton_append]
    rw [List.getElem_cons_drop]
    exact List.take_append_drop e out
  · exact absurd h (by simp)

end anyScalar

/-! ## 2. ordered fields -/

section field
variable {F : Type} [Field F] [LinearOrder F] [IsStrictOrderedRing F] (T : Transc F)

/-- sizes blended with themselves stay what they are -/
theorem map_lerp_self (xs : List F) (sf : F) : xs.map (fun a => @lerp F (fieldScalar T) a a sf) = xs := by
  have : (fun a => @lerp F (fieldScalar T) a a sf) = id := by
    funext a; exact lerp_same T a sf
  rw [this, List.map_id]

/-- `quat_cast` of the all-zero "rotation matrix" (the background value of a grains block): the trace branch, `(sqrt(1)/2, 0, 0, 0)` -/
theorem quatCast_zero : @quatCast F (fieldScalar T) ⟨0, 0, 0, 0, 0, 0, 0, 0, 0⟩ = ⟨T.sqrt 1 * (1 / 2), 0, 0, 0⟩ := by
  unfold quatCast
  simp only [sub_zero, add_zero, gt_iff_lt, lt_irrefl, if_false, zero_mul, lit_1 T, zero_add]
  rw [lit_sci]
  norm_num
  rfl

/-- the all-zero matrix blended with itself is the IDENTITY matrix, whatever the section fraction and whatever `sqrt`, `acos`, `sin`
are: the vector part of the quaternion is zero in both `slerp` branches and `mat3_cast` of `(w, 0, 0, 0)` is the identity for every `w` -/
theorem selfSlerp_zero (sf : F) : @selfSlerp F (fieldScalar T) ⟨0, 0, 0, 0, 0, 0, 0, 0, 0⟩ sf = ⟨1, 0, 0, 0, 1, 0, 0, 0, 1⟩ := by
  unfold selfSlerp
  rw [quatCast_zero]
  unfold slerp
  simp only [mul_zero, add_zero, neg_zero]
  split <;> split <;> simp [mat3Cast, mix, lit_1 T, lit_2 T]

/-- a quaternion whose squared norm exceeds `1 − eps` blended with itself is itself (the `mix` branch of `slerp`) -/
theorem slerp_self_of_near_unit (x : Quat F) (sf : F) (h : x.w * x.w + x.x * x.x + x.y * x.y + x.z * x.z > 1 - T.eps) :
    @slerp F (fieldScalar T) x x sf = x := by
  unfold slerp
  have h0 : ¬ (x.w * x.w + x.x * x.x + x.y * x.y + x.z * x.z < 0) := by
    have := mul_self_nonneg x.w; have := mul_self_nonneg x.x; have := mul_self_nonneg x.y; have := mul_self_nonneg x.z
    intro hc; linarith
  have h1 : @OfScientific.ofScientific F (@Scalar.instOfScientific F (fieldScalar T)) 10 true 1 = (1 : F) := lit_1_0 T
  simp only [lit_0 T, h0, if_false, h1]
  have h' : x.w * x.w + x.x * x.x + x.y * x.y + x.z * x.z > 1 - @Scalar.eps F (fieldScalar T) := h
  rw [if_pos h']
  cases x
  simp only [mix, h1]
  congr 1 <;> ring

end field

/-! ## 3. the preparation step in front of the painting code -/

section prepare
variable {R G : Type} [Scalar R] [RandGen G R]

/-- `LineHit.prepare` / `Segment.prepare` change nothing for a temperature, tag or velocity request -/
theorem Segment.prepare_other (s : Segment R) (isFault : Bool) (q : Query R) (pd : PlaneDist R) (p : Req) (g0 : Grains R)
    (h2 : p.code ≠ 2) (h3 : p.code ≠ 3) : (s.prepare isFault q pd p g0 : QM G (Segment R)) = pure s := by
  unfold Segment.prepare
  split
  · rename_i h; exact absurd h h2
  · rename_i h; exact absurd h h3
  · rfl

theorem Segment.prepare_no_comps (s : Segment R) (isFault : Bool) (q : Query R) (pd : PlaneDist R) (p : Req) (g0 : Grains R)
    (h2 : p.code = 2) (hs : s.comps = []) : (s.prepare isFault q pd p g0 : QM G (Segment R)) = pure s := by
  unfold Segment.prepare
  simp only [h2]
  obtain ⟨a, b, c, d, e, cs, gr, v⟩ := s
  simp only at hs
  subst hs
  rfl

theorem Segment.prepare_no_grains (s : Segment R) (isFault : Bool) (q : Query R) (pd : PlaneDist R) (p : Req) (g0 : Grains R)
    (h3 : p.code = 3) (hs : s.grains = []) : (s.prepare isFault q pd p g0 : QM G (Segment R)) = pure s := by
  unfold Segment.prepare
  simp only [h3]
  obtain ⟨a, b, c, d, e, cs, gr, v⟩ := s
  simp only at hs
  subst hs
  rfl

theorem linePaintAtM_of_prepare_id (f : LineFeature R) (ctx : Ctx R) (q : Query R) (h : LineHit R) (p : Req) (e : Nat) (out : List R)
    (hc : ∀ g0, (h.cur.prepare f.isFault q h.pd p g0 : QM G (Segment R)) = pure h.cur)
    (hn : ∀ g0, (h.next.prepare f.isFault q h.pd p g0 : QM G (Segment R)) = pure h.next) :
    (linePaintAtM f ctx q h p e out : QM G (List R)) = liftE (linePaintAt f ctx q h p e out) := by
  unfold linePaintAtM LineHit.prepare
  rw [hc]
  simp only [hn]
  rfl

end prepare

end Gwb
