/-
Helper lemmas about the output layout: `readBlock` / `writeBlock` on concatenations, prefix sums.
Core Lean only.
-/
import GwbVerif.Model.Layout
namespace Gwb
variable {R : Type}

@[simp] theorem readBlock_append (pre blk post : List R) (n : Nat) (h : blk.length = n) :
    readBlock pre.length n (pre ++ blk ++ post) = blk := by
  subst h
  simp [readBlock, List.append_assoc]

@[simp] theorem readBlock_zero (blk : List R) (n : Nat) (h : blk.length = n) : readBlock 0 n blk = blk := by
  subst h; simp [readBlock]

theorem writeBlock_append (pre blk post b' : List R) (h : b'.length = blk.length) :
    writeBlock pre.length b' (pre ++ blk ++ post) = pre ++ b' ++ post := by
  unfold writeBlock
  rw [h]
  simp [List.append_assoc]

theorem writeBlock_zero (blk b' : List R) (h : b'.length = blk.length) : writeBlock 0 b' blk = b' := by
  unfold writeBlock
  rw [h]; simp

theorem idx_append_left {α : Type} (pre blk post : List α) (j : Nat) (h : j < blk.length) :
    idx (pre ++ blk ++ post) (pre.length + j) = idx blk j := by
  unfold idx
  have h1 : (pre ++ blk ++ post)[pre.length + j]? = blk[j]? := by
    rw [List.append_assoc, List.getElem?_append_right (by omega)]
    simp [List.getElem?_append_left h]
  rw [h1]

theorem idx_append_zero {α : Type} (pre blk post : List α) (h : 0 < blk.length) :
    idx (pre ++ blk ++ post) pre.length = idx blk 0 := by
  have := idx_append_left pre blk post 0 h
  simpa using this

/-- `entries` are the prefix sums of the block sizes -/
theorem entriesFrom_cons (s : Nat) (p : Req) (ps : List Req) :
    entriesFrom s (p :: ps) = s :: entriesFrom (s + p.size) ps := rfl

theorem entriesFrom_length (s : Nat) (ps : List Req) : (entriesFrom s ps).length = ps.length := by
  induction ps generalizing s with
  | nil => rfl
  | cons p ps ih => simp [entriesFrom, ih]

theorem entriesFrom_getElem (s : Nat) (ps : List Req) (i : Nat) (h : i < ps.length) :
    (entriesFrom s ps)[i]'(by rw [entriesFrom_length]; exact h) = s + ((ps.take i).map Req.size).sum := by
  induction ps generalizing s i with
  | nil => simp at h
  | cons p ps ih =>
    cases i with
    | zero => simp [entriesFrom]
    | succ i =>
      simp only [entriesFrom, List.getElem_cons_succ, List.take_succ_cons, List.map_cons, List.sum_cons]
      rw [ih (s + p.size) i (by simpa using h)]
      omega

theorem sum_take_succ (ps : List Req) (i : Nat) (h : i < ps.length) :
    ((ps.take (i + 1)).map Req.size).sum = ((ps.take i).map Req.size).sum + (ps[i]'h).size := by
  induction ps generalizing i with
  | nil => simp at h
  | cons p ps ih =>
    cases i with
    | zero => simp
    | succ i =>
      simp only [List.take_succ_cons, List.map_cons, List.sum_cons, List.getElem_cons_succ]
      rw [ih i (by simpa using h)]
      omega

/-- offsets are strictly increasing by the block size: blocks are laid out in request order and are disjoint -/
theorem entries_step (ps : List Req) (i : Nat) (h : i + 1 < ps.length) :
    (entries ps)[i + 1]'(by unfold entries; rw [entriesFrom_length]; exact h)
      = (entries ps)[i]'(by unfold entries; rw [entriesFrom_length]; omega) + (ps[i]'(by omega)).size := by
  unfold entries
  rw [entriesFrom_getElem 0 ps (i + 1) h, entriesFrom_getElem 0 ps i (by omega)]
  rw [sum_take_succ ps i (by omega)]
  omega

theorem outputSize?_eq (ps : List Req) (h : ∀ p ∈ ps, p.valid = true) : outputSize? ps = .ok (outputSize ps) := by
  induction ps with
  | nil => rfl
  | cons p ps ih =>
    have hp := h p (by simp)
    have ih' := ih (fun q hq => h q (by simp [hq]))
    unfold outputSize?
    unfold Req.valid at hp
    cases hs : p.size? with
    | none => simp [hs] at hp
    | some s =>
      simp only [ih', Except.map]
      simp [outputSize, Req.size, hs]

theorem outputSize?_error (ps : List Req) (h : ∃ p ∈ ps, p.valid = false) : outputSize? ps = .error .unknownProperty := by
  induction ps with
  | nil => simp at h
  | cons p ps ih =>
    unfold outputSize?
    cases hs : p.size? with
    | none => rfl
    | some s =>
      have : ∃ q ∈ ps, q.valid = false := by
        obtain ⟨q, hq, hv⟩ := h
        rcases List.mem_cons.mp hq with rfl | hq'
        · simp [Req.valid, hs] at hv
        · exact ⟨q, hq', hv⟩
      simp [ih this, Except.map]

end Gwb
