/-
The 2-D interface: the wrapper's own counter walks the same offsets as the 3-D layout, so the 2-D answer is the
3-D answer at the lifted point with every velocity block projected into the section (block-wise).
-/
import GwbVerif.Proofs.Batch
namespace Gwb
open Scalar
set_option linter.unusedSectionVars false
variable {R G : Type} [Scalar R] [RandGen G R]

/-- the wrapper's counter advances by the block size of every implemented request -/
theorem wrapper2dAdvance_eq_size (p : Req) (h : p.valid = true) : wrapper2dAdvance p = p.size := by
  obtain ⟨code, n, k⟩ := p
  unfold Req.valid Req.size? at h
  unfold wrapper2dAdvance Req.size Req.size?
  split <;> simp_all

/-- projection of one block into the cross section: `(u·(vx,vy), vz, 0)` for a velocity block, identity otherwise -/
def projBlock (conv : P2 R) (p : Req) (b : List R) : List R :=
  if p.code == 5 then
    match b with
    | [r0, r1, r2] => [conv.x * r0 + conv.y * r1, r2, 0]
    | _ => b
  else b

theorem Fits.valid {ps : List Req} {bs : List (List R)} (h : Fits ps bs) : ∀ p ∈ ps, p.valid = true := by
  induction ps generalizing bs with
  | nil => simp
  | cons p ps ih =>
    cases bs with
    | nil => simp [Fits] at h
    | cons b bs =>
      obtain ⟨h1, h2⟩ := h
      intro q hq
      rcases List.mem_cons.mp hq with rfl | hq
      · simp [Req.valid, h1]
      · exact ih h2 q hq

/-- the re-walk of the 2-D wrapper is the block-wise projection -/
theorem rewalk2_blocks (conv : P2 R) (ps : List Req) (bs : List (List R)) (hf : Fits ps bs) (pre : List R) :
    rewalk2 conv ps pre.length (pre ++ bs.flatten) = .ok (pre ++ (List.zipWith (projBlock conv) ps bs).flatten) := by
  induction ps generalizing bs pre with
  | nil => cases bs <;> simp [Fits] at hf; simp [rewalk2]
  | cons p ps ih =>
    cases bs with
    | nil => simp [Fits] at hf
    | cons b bs =>
      obtain ⟨h1, h2⟩ := hf
      have hv : p.valid = true := by simp [Req.valid, h1]
      unfold rewalk2
      by_cases hc : (p.code == 5) = true
      · have hcode : p.code = 5 := by simpa using hc
        have hb : b.length = 3 := by simp [Req.size?, hcode] at h1; omega
        match b, hb with
        | [r0, r1, r2], _ =>
          simp only [hc, if_true, List.flatten_cons, List.zipWith_cons_cons, projBlock]
          have e0 : idx (pre ++ ([r0, r1, r2] ++ bs.flatten)) pre.length = .ok r0 := by
            rw [← List.append_assoc, idx_append_zero pre [r0, r1, r2] bs.flatten (by simp)]; rfl
          have e1 : idx (pre ++ ([r0, r1, r2] ++ bs.flatten)) (pre.length + 1) = .ok r1 := by
            rw [← List.append_assoc, idx_append_left pre [r0, r1, r2] bs.flatten 1 (by simp)]; rfl
          have e2 : idx (pre ++ ([r0, r1, r2] ++ bs.flatten)) (pre.length + 2) = .ok r2 := by
            rw [← List.append_assoc, idx_append_left pre [r0, r1, r2] bs.flatten 2 (by simp)]; rfl
          simp only [e0, e1, e2, bind, Except.bind]
          rw [← List.append_assoc, writeBlock_append pre [r0, r1, r2] bs.flatten _ (by simp)]
          have := ih bs h2 (pre ++ [conv.x * r0 + conv.y * r1, r2, 0])
          simp only [List.length_append, List.length_cons, List.length_nil] at this
          rw [List.append_assoc] at this ⊢
          rw [this]
          simp [List.append_assoc]
      · simp only [hc, Bool.false_eq_true, if_false, List.flatten_cons, List.zipWith_cons_cons, projBlock]
        rw [wrapper2dAdvance_eq_size p hv]
        have hpre : (pre ++ b).length = pre.length + p.size := by
          rw [List.length_append, Req.size_of_size? h1]
        have := ih bs h2 (pre ++ b)
        rw [hpre, List.append_assoc] at this
        rw [this]
        simp [List.append_assoc]

/-- `World.props2`, block-wise -/
def World.props2Blocks (w : World R) (pt : P2 R) (depth : R) (ps : List Req) : QM G (List (List R)) := fun g =>
  match w.cross with
  | none => .error .noCrossSection
  | some (c0, c1) =>
    match w.props3Blocks (w.lift2 c0 c1 pt) depth ps g with
    | .error e => .error e
    | .ok (bs, g') => .ok (List.zipWith (projBlock (surfaceCoordConversions c0 c1)) ps bs, g')

theorem World.props3Blocks_fits (w : World R) (pt : P3 R) (depth : R) (ps : List Req) :
    Post (G := G) (w.props3Blocks pt depth ps) (fun bs => Fits ps bs) := by
  intro g bs g' h
  unfold World.props3Blocks at h
  cases hinit : ps.mapM (initBlock w.ctx w.ctx.gravity depth) with
  | error e => simp [hinit] at h
  | ok bs0 =>
    have hf := initBlocks_fits w.ctx w.ctx.gravity depth ps bs0 hinit
    simp only [hinit] at h
    split at h
    · simp only [Except.ok.injEq, Prod.mk.injEq] at h; obtain ⟨rfl, _⟩ := h; exact hf
    · cases hfb : featuresBlocks w.features w.ctx (w.query pt depth) ps bs0 g with
      | error e => simp [hfb] at h
      | ok r =>
        obtain ⟨bs1, g1⟩ := r
        simp only [hfb, Except.ok.injEq, Prod.mk.injEq] at h
        obtain ⟨rfl, _⟩ := h
        exact reimposeBlocks_fits w.ctx depth ps bs1 (featuresBlocks_fits w.features w.ctx _ ps bs0 hf g bs1 g1 hfb)

/-- **the 2-D answer is the block-wise projection of the 3-D answer at the lifted point** -/
theorem World.props2_blocks (w : World R) (pt : P2 R) (depth : R) (ps : List Req) (g : G) :
    w.props2 pt depth ps g = embedBlocks [] (w.props2Blocks pt depth ps g) := by
  unfold World.props2 World.props2Blocks
  cases hc : w.cross with
  | none => simp [QM.throw_apply, embedBlocks]
  | some cs =>
    obtain ⟨c0, c1⟩ := cs
    simp only [QM.bind_apply]
    rw [World.props3_blocks]
    cases h3 : w.props3Blocks (w.lift2 c0 c1 pt) depth ps g with
    | error e => simp [embedBlocks]
    | ok r =>
      obtain ⟨bs, g'⟩ := r
      have hf := World.props3Blocks_fits w _ depth ps g bs g' h3
      simp only [embedBlocks, List.nil_append]
      have := rewalk2_blocks (surfaceCoordConversions c0 c1) ps bs hf []
      simp only [List.length_nil, List.nil_append] at this
      rw [this]; rfl

theorem projBlocks_fits (conv : P2 R) (ps : List Req) (bs : List (List R)) (hf : Fits ps bs) :
    Fits ps (List.zipWith (projBlock conv) ps bs) := by
  induction ps generalizing bs with
  | nil => cases bs <;> simp [Fits] at hf; simp [Fits]
  | cons p0 ps ih =>
    cases bs with
    | nil => simp [Fits] at hf
    | cons b0 bs =>
      obtain ⟨h1, h2⟩ := hf
      refine ⟨?_, ih bs h2⟩
      unfold projBlock
      split
      · rename_i hc5
        have hcode : p0.code = 5 := by simpa using hc5
        have hb0 : b0.length = 3 := by simp [Req.size?, hcode] at h1; omega
        match b0, hb0 with
        | [r0, r1, r2], _ => simpa using h1
      · exact h1

theorem World.props2Blocks_fits (w : World R) (pt : P2 R) (depth : R) (ps : List Req) :
    Post (G := G) (w.props2Blocks pt depth ps) (fun bs => Fits ps bs) := by
  intro g bs g' hb
  unfold World.props2Blocks at hb
  cases hc : w.cross with
  | none => simp [hc] at hb
  | some cs =>
    obtain ⟨c0, c1⟩ := cs
    simp only [hc] at hb
    cases h3 : w.props3Blocks (w.lift2 c0 c1 pt) depth ps g with
    | error e => simp [h3] at hb
    | ok r3 =>
      obtain ⟨bs3, g3⟩ := r3
      simp only [h3, Except.ok.injEq, Prod.mk.injEq] at hb
      obtain ⟨rfl, _⟩ := hb
      exact projBlocks_fits _ ps bs3 (World.props3Blocks_fits w _ depth ps g bs3 g3 h3)

theorem zipWith_nth {α β γ : Type} (f : α → β → γ) (xs : List α) (ys : List β) (i : Nat) (x : α) (y : β)
    (hx : xs[i]? = some x) (hy : ys[i]? = some y) : (List.zipWith f xs ys)[i]? = some (f x y) := by
  simp [List.getElem?_zipWith, hx, hy]

/-- block `i` of a batched 2-D answer is the stand-alone 2-D answer -/
theorem World.props2Blocks_nth (w : World R) (hnr : w.NoRandom) (pt : P2 R) (depth : R)
    (ps : List Req) (bs' : List (List R)) (g g' : G)
    (h : w.props2Blocks pt depth ps g = .ok (bs', g'))
    (i : Nat) (p : Req) (hp : ps[i]? = some p) :
    g' = g ∧ ∃ b', bs'[i]? = some b' ∧ ∀ g₂ : G, w.props2Blocks pt depth [p] g₂ = .ok ([b'], g₂) := by
  unfold World.props2Blocks at h ⊢
  cases hc : w.cross with
  | none => simp [hc] at h
  | some cs =>
    obtain ⟨c0, c1⟩ := cs
    simp only [hc] at h ⊢
    cases h3 : w.props3Blocks (w.lift2 c0 c1 pt) depth ps g with
    | error e => simp [h3] at h
    | ok r =>
      obtain ⟨bs, g1⟩ := r
      simp only [h3, Except.ok.injEq, Prod.mk.injEq] at h
      obtain ⟨rfl, rfl⟩ := h
      obtain ⟨hg, b, hb, hall⟩ := World.props3Blocks_nth w hnr _ depth ps bs g g1 h3 i p hp
      refine ⟨hg, _, zipWith_nth _ ps bs i p b hp hb, fun g₂ => ?_⟩
      simp [hall g₂]

end Gwb
