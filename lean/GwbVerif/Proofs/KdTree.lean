/-
Helper definitions and lemmas for C19 (kd-tree part): the tree invariant and the correctness of the
nearest-neighbour walk `kdSearch` (Model/Geometry/KdTree.lean, kd_tree.cc:66-210).

What is assumed about `sqrt` (explicit hypotheses on `T : Transc F`, nothing is postulated):
* `SqrtMono T`  : `0 ≤ x → x ≤ y → T.sqrt x ≤ T.sqrt y`;
* `SqrtSq T`    : `T.sqrt (x*x) = |x|`.
From these two `0 ≤ T.sqrt x` for `0 ≤ x` and `|d| ≤ T.sqrt (d*d+e*e)`, `|e| ≤ T.sqrt (d*d+e*e)` are derived
(`sqrt_nonneg_of`, `abs_le_sqrt_left`, `abs_le_sqrt_right`).  Both hold for `Real.sqrt` (Properties/C19.lean).
-/
import GwbVerif.Model.Geometry.KdTree
import GwbVerif.Proofs.FieldScalar
import Mathlib.Algebra.Order.AbsoluteValue.Basic
import Mathlib.Algebra.Order.Ring.Abs
namespace Gwb
open Scalar

/-! ### The invariant -/

section inv
variable {R : Type} [Scalar R]

/-- What `create_tree` (`nth_element` at `mid = (l+r)/2`, recursively on both halves with the axis flipped)
establishes on the index range `[l, r]`: every node left of `mid` has key `≤` the key of `mid`, every node
right of `mid` has key `≥` it. Out-of-range indices impose nothing. -/
inductive KdInv (nodes : Array (KdNode R)) : Nat → Nat → Bool → Prop
  | node (l r : Nat) (ax : Bool) :
      (∀ j nj nm, nodes[(l + r) / 2]? = some nm → nodes[j]? = some nj → l ≤ j → j < (l + r) / 2 →
          nj.get ax ≤ nm.get ax) →
      (∀ j nj nm, nodes[(l + r) / 2]? = some nm → nodes[j]? = some nj → (l + r) / 2 < j → j ≤ r →
          nm.get ax ≤ nj.get ax) →
      (l < (l + r) / 2 → KdInv nodes l ((l + r) / 2 - 1) (!ax)) →
      ((l + r) / 2 < r → KdInv nodes ((l + r) / 2 + 1) r (!ax)) →
      KdInv nodes l r ax

/-- The part of `KdInv` the search actually relies on.  Only the *right* half is constrained: the walk prunes
the right subtree when `node[ax] - p[ax] ≥ best` in the branch `p[ax] < node[ax]`; in the other branch the very
same expression `node[ax] - p[ax]` (which is `≤ 0` there) is compared with `best`, so the left subtree is pruned
only when `best ≤ 0`, which needs no ordering of the tree at all (kd_tree.cc:126, :206). -/
inductive KdInvSearch (nodes : Array (KdNode R)) : Nat → Nat → Bool → Prop
  | node (l r : Nat) (ax : Bool) :
      (∀ j nj nm, nodes[(l + r) / 2]? = some nm → nodes[j]? = some nj → (l + r) / 2 < j → j ≤ r →
          nm.get ax ≤ nj.get ax) →
      (l < (l + r) / 2 → KdInvSearch nodes l ((l + r) / 2 - 1) (!ax)) →
      ((l + r) / 2 < r → KdInvSearch nodes ((l + r) / 2 + 1) r (!ax)) →
      KdInvSearch nodes l r ax

end inv

section acc
variable {R : Type}

theorem KdInv.toSearch {_i : Scalar R} {nodes : Array (KdNode R)} {l r : Nat} {ax : Bool} (h : KdInv nodes l r ax) :
    KdInvSearch nodes l r ax := by
  induction h with
  | node l r ax _ hR _ _ ihL ihR => exact .node l r ax hR ihL ihR

theorem KdInvSearch.right {_i : Scalar R} {nodes : Array (KdNode R)} {l r : Nat} {ax : Bool} (h : KdInvSearch nodes l r ax) :
    ∀ j nj nm, nodes[(l + r) / 2]? = some nm → nodes[j]? = some nj → (l + r) / 2 < j → j ≤ r →
      nm.get ax ≤ nj.get ax := by
  cases h with | node _ _ _ hR _ _ => exact hR

theorem KdInvSearch.subL {_i : Scalar R} {nodes : Array (KdNode R)} {l r : Nat} {ax : Bool} (h : KdInvSearch nodes l r ax) :
    l < (l + r) / 2 → KdInvSearch nodes l ((l + r) / 2 - 1) (!ax) := by
  cases h with | node _ _ _ _ hL _ => exact hL

theorem KdInvSearch.subR {_i : Scalar R} {nodes : Array (KdNode R)} {l r : Nat} {ax : Bool} (h : KdInvSearch nodes l r ax) :
    (l + r) / 2 < r → KdInvSearch nodes ((l + r) / 2 + 1) r (!ax) := by
  cases h with | node _ _ _ _ _ hR => exact hR

end acc

/-! ### Square-root facts -/

section field
variable {F : Type} [Field F] [LinearOrder F] [IsStrictOrderedRing F]

/-- `sqrt` is monotone on the non-negatives -/
def SqrtMono (T : Transc F) : Prop := ∀ x y : F, 0 ≤ x → x ≤ y → T.sqrt x ≤ T.sqrt y
/-- `sqrt (x²) = |x|` -/
def SqrtSq (T : Transc F) : Prop := ∀ x : F, T.sqrt (x * x) = |x|

variable {T : Transc F}

theorem sqrt_nonneg_of (hm : SqrtMono T) (hs : SqrtSq T) {x : F} (hx : 0 ≤ x) : 0 ≤ T.sqrt x := by
  have h0 : T.sqrt 0 = 0 := by simpa using hs 0
  simpa [h0] using hm 0 x le_rfl hx

theorem abs_le_sqrt_left (hm : SqrtMono T) (hs : SqrtSq T) (d e : F) : |d| ≤ T.sqrt (d * d + e * e) := by
  rw [← hs d]
  exact hm _ _ (mul_self_nonneg d) (le_add_of_nonneg_right (mul_self_nonneg e))

theorem abs_le_sqrt_right (hm : SqrtMono T) (hs : SqrtSq T) (d e : F) : |e| ≤ T.sqrt (d * d + e * e) := by
  rw [← hs e]
  exact hm _ _ (mul_self_nonneg e) (le_add_of_nonneg_left (mul_self_nonneg d))

/-- the model's distance, spelled out over the field -/
theorem kdDistance_eq (T : Transc F) (n : KdNode F) (p : P2 F) :
    @kdDistance F (fieldScalar T) n p = T.sqrt ((n.x - p.x) * (n.x - p.x) + (n.y - p.y) * (n.y - p.y)) := rfl

theorem kdDistance_nonneg (hm : SqrtMono T) (hs : SqrtSq T) (n : KdNode F) (p : P2 F) :
    0 ≤ @kdDistance F (fieldScalar T) n p := by
  rw [kdDistance_eq]
  exact sqrt_nonneg_of hm hs (add_nonneg (mul_self_nonneg _) (mul_self_nonneg _))

/-- the coordinate difference along either axis bounds the distance from below -/
theorem axis_le_kdDistance (hm : SqrtMono T) (hs : SqrtSq T) (n : KdNode F) (p : P2 F) (ax : Bool) :
    |n.get ax - p.get ax| ≤ @kdDistance F (fieldScalar T) n p := by
  rw [kdDistance_eq]
  cases ax
  · exact abs_le_sqrt_left hm hs _ _
  · exact abs_le_sqrt_right hm hs _ _

/-! ### State invariant of the walk -/

/-- Invariant of the `IndexDistances` accumulator: every recorded entry is `(i, distance of node i)` for an
in-range `i`; the running minimum is `≤` every recorded distance; and it is either the initial `dblMax`
(nothing visited yet) or the distance of the recorded entry `minIndex`. -/
structure KdGood (T : Transc F) (nodes : Array (KdNode F)) (p : P2 F) (s : KdState F) : Prop where
  entries : ∀ e ∈ s.visited, ∃ n, nodes[e.index]? = some n ∧ e.distance = @kdDistance F (fieldScalar T) n p
  le_all : ∀ e ∈ s.visited, s.minDistance ≤ e.distance
  attained : (s.visited = [] ∧ s.minDistance = T.dblMax) ∨
    ∃ e ∈ s.visited, e.index = s.minIndex ∧ e.distance = s.minDistance

/-- the running minimum is `≤` the distance of every node with index in `[l, r]` -/
def KdCovers (T : Transc F) (nodes : Array (KdNode F)) (p : P2 F) (s : KdState F) (l r : Nat) : Prop :=
  ∀ j n, l ≤ j → j ≤ r → nodes[j]? = some n → s.minDistance ≤ @kdDistance F (fieldScalar T) n p

theorem KdCovers.mono {nodes : Array (KdNode F)} {p : P2 F} {s s' : KdState F} {l r : Nat}
    (h : KdCovers T nodes p s l r) (hle : s'.minDistance ≤ s.minDistance) : KdCovers T nodes p s' l r :=
  fun j n hl hr hn => le_trans hle (h j n hl hr hn)

theorem KdCovers.empty {nodes : Array (KdNode F)} {p : P2 F} {s : KdState F} {l r : Nat} (h : r < l) :
    KdCovers T nodes p s l r := fun _ _ hl hr _ => absurd (Nat.lt_of_le_of_lt (Nat.le_trans hl hr) h) (Nat.lt_irrefl _)

/-- `[l, m-1]`, `m`, `[m+1, r]` together cover `[l, r]` -/
theorem KdCovers.join {nodes : Array (KdNode F)} {p : P2 F} {s : KdState F} {l m r : Nat}
    (hL : l < m → KdCovers T nodes p s l (m - 1)) (hM : KdCovers T nodes p s m m)
    (hR : m < r → KdCovers T nodes p s (m + 1) r) : KdCovers T nodes p s l r := by
  intro j n hl hr hn
  rcases Nat.lt_trichotomy j m with h | h | h
  · exact hL (by omega) j n hl (by omega) hn
  · exact hM j n (by omega) (by omega) hn
  · exact hR (by omega) j n (by omega) hr hn

/-- one `emplace_back` + minimum update -/
theorem kdVisit_spec {nodes : Array (KdNode F)} {p : P2 F} {s : KdState F} {mid : Nat} {node : KdNode F}
    (hg : KdGood T nodes p s) (hn : nodes[mid]? = some node)
    (hmax : @kdDistance F (fieldScalar T) node p < T.dblMax) :
    let s' := @kdVisit F (fieldScalar T) mid node p s
    KdGood T nodes p s' ∧ s'.minDistance ≤ s.minDistance ∧ KdCovers T nodes p s' mid mid ∧ s'.visited ≠ [] ∧
      ∃ e, s'.visited = e :: s.visited ∧ e.index = mid := by
  intro s'
  by_cases hlt : @kdDistance F (fieldScalar T) node p < s.minDistance
  · have hs' : s' = ⟨mid, @kdDistance F (fieldScalar T) node p, ⟨mid, @kdDistance F (fieldScalar T) node p⟩ :: s.visited⟩ := by
      simp only [s', kdVisit]; rw [if_pos hlt]
    rw [hs']
    refine ⟨⟨?_, ?_, ?_⟩, le_of_lt hlt, ?_, by simp, ⟨_, rfl, rfl⟩⟩
    · intro e he
      rcases List.mem_cons.1 he with rfl | he
      · exact ⟨node, hn, rfl⟩
      · exact hg.entries e he
    · intro e he
      rcases List.mem_cons.1 he with rfl | he
      · exact le_rfl
      · exact le_trans (le_of_lt hlt) (hg.le_all e he)
    · exact Or.inr ⟨_, List.mem_cons_self, rfl, rfl⟩
    · intro j n hl hr hj
      obtain rfl : j = mid := by omega
      rw [hn] at hj; cases hj; exact le_rfl
  · have hs' : s' = ⟨s.minIndex, s.minDistance, ⟨mid, @kdDistance F (fieldScalar T) node p⟩ :: s.visited⟩ := by
      simp only [s', kdVisit]; rw [if_neg hlt]
    have hle : s.minDistance ≤ @kdDistance F (fieldScalar T) node p := not_lt.1 hlt
    rw [hs']
    refine ⟨⟨?_, ?_, ?_⟩, le_rfl, ?_, by simp, ⟨_, rfl, rfl⟩⟩
    · intro e he
      rcases List.mem_cons.1 he with rfl | he
      · exact ⟨node, hn, rfl⟩
      · exact hg.entries e he
    · intro e he
      rcases List.mem_cons.1 he with rfl | he
      · exact hle
      · exact hg.le_all e he
    · rcases hg.attained with ⟨_, hd⟩ | ⟨e, he, h1, h2⟩
      · exact absurd (hd ▸ hmax) hlt
      · exact Or.inr ⟨e, List.mem_cons_of_mem _ he, h1, h2⟩
    · intro j n hl hr hj
      obtain rfl : j = mid := by omega
      rw [hn] at hj; cases hj; exact hle

/-! ### The walk -/

/-- what one call of `kdSearch` on `[l, r]` guarantees about the state it returns -/
def KdPost (T : Transc F) (nodes : Array (KdNode F)) (p : P2 F) (s s' : KdState F) (l r : Nat) : Prop :=
  KdGood T nodes p s' ∧ s'.minDistance ≤ s.minDistance ∧ KdCovers T nodes p s' l r ∧ s'.visited ≠ []

/-- the optional first recursive call -/
theorem kd_stage1 {nodes : Array (KdNode F)} {p : P2 F} {s sA : KdState F} {l r : Nat} (c : Prop) [Decidable c]
    (hg : KdGood T nodes p s) (h : c → KdPost T nodes p s sA l r) :
    KdGood T nodes p (if c then sA else s) ∧ (if c then sA else s).minDistance ≤ s.minDistance ∧
      (c → KdCovers T nodes p (if c then sA else s) l r) := by
  by_cases hc : c
  · simp only [if_pos hc]; exact ⟨(h hc).1, (h hc).2.1, fun _ => (h hc).2.2.1⟩
  · simp only [if_neg hc]; exact ⟨hg, le_rfl, fun h => absurd h hc⟩

/-- pruning the right subtree (branch `p[ax] < node[ax]`) is justified by the invariant -/
theorem kd_prune_right (hm : SqrtMono T) (hs : SqrtSq T) {nodes : Array (KdNode F)} {p : P2 F} {s : KdState F}
    {l r : Nat} {ax : Bool} {node : KdNode F} (hn : nodes[(l + r) / 2]? = some node)
    (hinv : @KdInvSearch F (fieldScalar T) nodes l r ax)
    (hnp : ¬ (node.get ax - p.get ax < s.minDistance)) : KdCovers T nodes p s ((l + r) / 2 + 1) r := by
  intro j nj hl hr hj
  have h1 : node.get ax ≤ nj.get ax := hinv.right j nj node hn hj (by omega) hr
  have h2 := axis_le_kdDistance hm hs nj p ax
  have h3 := le_abs_self (nj.get ax - p.get ax)
  have h4 : s.minDistance ≤ node.get ax - p.get ax := not_lt.1 hnp
  linarith

/-- pruning the left subtree (branch `¬ p[ax] < node[ax]`) happens only when the best distance is `≤ 0` -/
theorem kd_prune_left (hm : SqrtMono T) (hs : SqrtSq T) {nodes : Array (KdNode F)} {p : P2 F} {s : KdState F}
    {ax : Bool} {node : KdNode F} (hlt : ¬ (p.get ax < node.get ax))
    (hnp : ¬ (node.get ax - p.get ax < s.minDistance)) (l r : Nat) : KdCovers T nodes p s l r := by
  intro j nj _ _ _
  have h1 : node.get ax ≤ p.get ax := not_lt.1 hlt
  have h2 := kdDistance_nonneg hm hs nj p
  have h4 : s.minDistance ≤ node.get ax - p.get ax := not_lt.1 hnp
  linarith

theorem kdSearch_spec (hm : SqrtMono T) (hs : SqrtSq T) (nodes : Array (KdNode F)) (p : P2 F)
    (hmax : ∀ (j : Nat) n, nodes[j]? = some n → @kdDistance F (fieldScalar T) n p < T.dblMax)
    (l r : Nat) (ax : Bool) (s : KdState F) :
    KdGood T nodes p s → l ≤ r → r < nodes.size → @KdInvSearch F (fieldScalar T) nodes l r ax →
      KdPost T nodes p s (@kdSearch F (fieldScalar T) nodes p l r ax s) l r := by
  fun_induction @kdSearch F (fieldScalar T) nodes p l r ax s with
  | case1 l r ax s mid hnone =>
    intro _ hlr hr _
    have : mid < nodes.size := by omega
    simp at hnone
    omega
  | case2 l r ax s mid node hn hlt s1 s2 hrm hnp ih1 _ ih2 =>
    intro hg hlr hr hinv
    obtain ⟨g1, le1, cov1⟩ := kd_stage1 (l < mid) hg
      (fun h => ih1 h hg (by omega) (by omega) (hinv.subL h))
    obtain ⟨g2, le2, cov2, _, _⟩ := kdVisit_spec g1 hn (hmax _ _ hn)
    obtain ⟨g3, le3, cov3, ne3⟩ := ih2 g2 (by omega) hr (hinv.subR hrm)
    exact ⟨g3, le_trans le3 (le_trans le2 le1),
      KdCovers.join (fun h => ((cov1 h).mono le2).mono le3) (cov2.mono le3) (fun _ => cov3), ne3⟩
  | case3 l r ax s mid node hn hlt s1 s2 hrm hnp ih1 =>
    intro hg hlr hr hinv
    obtain ⟨g1, le1, cov1⟩ := kd_stage1 (l < mid) hg
      (fun h => ih1 h hg (by omega) (by omega) (hinv.subL h))
    obtain ⟨g2, le2, cov2, ne2, _⟩ := kdVisit_spec g1 hn (hmax _ _ hn)
    exact ⟨g2, le_trans le2 le1,
      KdCovers.join (fun h => (cov1 h).mono le2) cov2 (fun _ => kd_prune_right hm hs hn hinv hnp), ne2⟩
  | case4 l r ax s mid node hn hlt s1 s2 hrm ih1 =>
    intro hg hlr hr hinv
    obtain ⟨g1, le1, cov1⟩ := kd_stage1 (l < mid) hg
      (fun h => ih1 h hg (by omega) (by omega) (hinv.subL h))
    obtain ⟨g2, le2, cov2, ne2, _⟩ := kdVisit_spec g1 hn (hmax _ _ hn)
    exact ⟨g2, le_trans le2 le1,
      KdCovers.join (fun h => (cov1 h).mono le2) cov2 (fun h => absurd h hrm), ne2⟩
  | case5 l r ax s mid node hn hlt s1 s2 hlm hnp ih1 _ ih2 =>
    intro hg hlr hr hinv
    obtain ⟨g1, le1, cov1⟩ := kd_stage1 (r > mid) hg
      (fun h => ih1 h hg (by omega) (by omega) (hinv.subR h))
    obtain ⟨g2, le2, cov2, _, _⟩ := kdVisit_spec g1 hn (hmax _ _ hn)
    obtain ⟨g3, le3, cov3, ne3⟩ := ih2 g2 (by omega) (by omega) (hinv.subL hlm)
    exact ⟨g3, le_trans le3 (le_trans le2 le1),
      KdCovers.join (fun _ => cov3) (cov2.mono le3) (fun h => ((cov1 h).mono le2).mono le3), ne3⟩
  | case6 l r ax s mid node hn hlt s1 s2 hlm hnp ih1 =>
    intro hg hlr hr hinv
    obtain ⟨g1, le1, cov1⟩ := kd_stage1 (r > mid) hg
      (fun h => ih1 h hg (by omega) (by omega) (hinv.subR h))
    obtain ⟨g2, le2, cov2, ne2, _⟩ := kdVisit_spec g1 hn (hmax _ _ hn)
    exact ⟨g2, le_trans le2 le1,
      KdCovers.join (fun _ => kd_prune_left hm hs hlt hnp _ _) cov2 (fun h => (cov1 h).mono le2), ne2⟩
  | case7 l r ax s mid node hn hlt s1 s2 hlm ih1 =>
    intro hg hlr hr hinv
    obtain ⟨g1, le1, cov1⟩ := kd_stage1 (r > mid) hg
      (fun h => ih1 h hg (by omega) (by omega) (hinv.subR h))
    obtain ⟨g2, le2, cov2, ne2, _⟩ := kdVisit_spec g1 hn (hmax _ _ hn)
    exact ⟨g2, le_trans le2 le1,
      KdCovers.join (fun h => absurd h hlm) cov2 (fun h => (cov1 h).mono le2), ne2⟩

/-- the initial accumulator `{0, DBL_MAX, {}}` satisfies the state invariant -/
theorem kdGood_init (T : Transc F) (nodes : Array (KdNode F)) (p : P2 F) :
    KdGood T nodes p ⟨0, T.dblMax, []⟩ :=
  ⟨fun _ h => absurd h List.not_mem_nil, fun _ h => absurd h List.not_mem_nil, Or.inl ⟨rfl, rfl⟩⟩

/-- `find_closest_points` on a non-empty tree: succeeds, and the returned state satisfies the invariant, covers
every index and has visited at least one node -/
theorem kdFindClosestPoints_spec (hm : SqrtMono T) (hs : SqrtSq T) (nodes : Array (KdNode F)) (p : P2 F)
    (hpos : 0 < nodes.size) (hinv : @KdInvSearch F (fieldScalar T) nodes 0 (nodes.size - 1) false)
    (hmax : ∀ (j : Nat) n, nodes[j]? = some n → @kdDistance F (fieldScalar T) n p < T.dblMax) :
    ∃ s, @kdFindClosestPoints F (fieldScalar T) nodes p = .ok s ∧ KdGood T nodes p s ∧
      KdCovers T nodes p s 0 (nodes.size - 1) ∧ s.visited ≠ [] := by
  have h := kdSearch_spec hm hs nodes p hmax 0 (nodes.size - 1) false ⟨0, T.dblMax, []⟩
    (kdGood_init T nodes p) (Nat.zero_le _) (by omega) hinv
  refine ⟨_, ?_, h.1, h.2.2.1, h.2.2.2⟩
  unfold kdFindClosestPoints
  rw [if_neg (by omega)]
  rfl

end field
end Gwb
