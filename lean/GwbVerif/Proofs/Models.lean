/-
Helper lemmas for C05 / C20: the per-model `get` functions against the closed forms of `Spec/Models.lean`.

* generic part (every `Scalar R`, no laws): range handling of the area models (`TempModel.rangeOf`, `get_out`, `get_err`,
  `locals_constant`, `locals_bounds`), `findComposition` against `List.idxOf`, the ridge query as one definition;
* field part (`fieldScalar T`): literals, `Scalar.max/min`, the adiabat, the series of the plate models as sums, the
  order lemmas behind the envelopes (linear interpolation, `erfc` profile).
-/
import GwbVerif.Spec.Models
import GwbVerif.Model.Features.Line
import GwbVerif.Proofs.FieldScalar
import Mathlib.Tactic.NormNum
import Mathlib.Tactic.Ring
import Mathlib.Tactic.Linarith
import Mathlib.Tactic.FieldSimp
import Mathlib.Tactic.Positivity
import Mathlib.Algebra.Order.Field.Basic
namespace Gwb
open Scalar
set_option linter.unusedSectionVars false
set_option linter.unusedVariables false

/-! ## every `Scalar` -/
section generic
variable {R : Type} [Scalar R]

/-- the depth range of an area temperature model and the order of its two range tests (`none`: the plume's `gaussian`,
which is limited by the feature's depths and the relative distance instead) -/
def TempModel.rangeOf : TempModel R → Option (DepthRange R × Bool)
  | .uniform rng _ _ lf => some (rng, lf)
  | .linear rng _ _ _ => some (rng, false)
  | .adiabatic rng _ _ _ _ => some (rng, false)
  | .chapman rng _ _ _ _ _ => some (rng, false)
  | .halfSpace rng _ _ _ _ => some (rng, false)
  | .plateModel rng _ _ _ _ => some (rng, false)
  | .plateModelConstantAge rng _ _ _ _ => some (rng, false)
  | .gaussian _ _ _ _ => none

/-- outside its own range a temperature model returns the temperature it was handed -/
theorem TempModel.get_out (m : TempModel R) (rng : DepthRange R) (lf : Bool) (ctx : Ctx R) (q : Query R) (old fMin fMax rel : R)
    (h : m.rangeOf = some (rng, lf)) (hl : rng.locals ctx q lf = .ok none) : m.get ctx q old fMin fMax rel = .ok old := by
  cases m <;> simp only [TempModel.rangeOf, Option.some.injEq, Prod.mk.injEq, reduceCtorEq] at h <;>
    (obtain ⟨rfl, rfl⟩ := h; simp [TempModel.get, hl, bind, Except.bind, pure, Except.pure])

/-- an error of the range test (a point outside the triangulation of a depth surface) is the model's answer -/
theorem TempModel.get_err (m : TempModel R) (rng : DepthRange R) (lf : Bool) (ctx : Ctx R) (q : Query R) (old fMin fMax rel : R) (e : Err)
    (h : m.rangeOf = some (rng, lf)) (hl : rng.locals ctx q lf = .error e) : m.get ctx q old fMin fMax rel = .error e := by
  cases m <;> simp only [TempModel.rangeOf, Option.some.injEq, Prod.mk.injEq, reduceCtorEq] at h <;>
    (obtain ⟨rfl, rfl⟩ := h; simp [TempModel.get, hl, bind, Except.bind])

/-- with constant `min depth` / `max depth` the range test is the plain interval test, in either order -/
theorem DepthRange.locals_constant (r : DepthRange R) (ctx : Ctx R) (q : Query R) (lf : Bool)
    (h1 : r.minS.constant = true) (h2 : r.maxS.constant = true) :
    r.locals ctx q lf = .ok (if q.depth ≤ r.maxDepth ∧ q.depth ≥ r.minDepth then some (r.minDepth, r.maxDepth) else none) := by
  unfold DepthRange.locals
  cases lf <;> simp [Surface.localOr, h1, h2, bind, Except.bind, pure, Except.pure] <;> split <;> simp_all

/-- a successful range test returns local bounds that enclose the depth -/
theorem DepthRange.locals_bounds (r : DepthRange R) (ctx : Ctx R) (q : Query R) (lf : Bool) (mn mx : R)
    (h : r.locals ctx q lf = .ok (some (mn, mx))) : q.depth ≤ mx ∧ q.depth ≥ mn := by
  unfold DepthRange.locals at h
  cases lf
  · simp only [Bool.false_eq_true, ↓reduceIte] at h
    split at h
    · cases h1 : r.minS.localOr r.minDepth ctx.coord.spherical (surfacePoint ctx.coord.spherical q.nat) with
      | error e => simp [h1, bind, Except.bind] at h
      | ok a =>
        cases h2 : r.maxS.localOr r.maxDepth ctx.coord.spherical (surfacePoint ctx.coord.spherical q.nat) with
        | error e => simp [h1, h2, bind, Except.bind] at h
        | ok b =>
          simp only [h1, h2, bind, Except.bind, pure, Except.pure] at h
          split at h
          · rename_i hc
            simp only [Except.ok.injEq, Option.some.injEq, Prod.mk.injEq] at h
            obtain ⟨rfl, rfl⟩ := h
            exact hc
          · simp at h
    · simp [pure, Except.pure] at h
  · simp only [↓reduceIte] at h
    cases h1 : r.minS.localOr r.minDepth ctx.coord.spherical (surfacePoint ctx.coord.spherical q.nat) with
    | error e => simp [h1, bind, Except.bind] at h
    | ok a =>
      cases h2 : r.maxS.localOr r.maxDepth ctx.coord.spherical (surfacePoint ctx.coord.spherical q.nat) with
      | error e => simp [h1, h2, bind, Except.bind] at h
      | ok b =>
        simp only [h1, h2, bind, Except.bind, pure, Except.pure] at h
        split at h
        · rename_i hc
          split at h
          · simp only [Except.ok.injEq, Option.some.injEq, Prod.mk.injEq] at h
            obtain ⟨rfl, rfl⟩ := h
            exact hc
          · simp at h
        · simp at h

/-- the loop `for i: if compositions[i] == composition_number` finds the first occurrence of a listed label … -/
theorem findComposition_of_mem (comps : List Nat) (n : Nat) (h : n ∈ comps) : findComposition comps n = some (comps.idxOf n) := by
  unfold findComposition
  rw [List.findIdx?_eq_guard_findIdx_lt]
  have h1 : comps.idxOf n < comps.length := List.idxOf_lt_length_of_mem h
  have h2 : comps.idxOf n = comps.findIdx (· == n) := rfl
  rw [← h2]
  simp [Option.guard, h1]

/-- … and nothing for an unlisted one -/
theorem findComposition_of_not_mem (comps : List Nat) (n : Nat) (h : n ∉ comps) : findComposition comps n = none := by
  unfold findComposition
  rw [List.findIdx?_eq_none_iff]
  intro x hx
  have hxn : x ≠ n := fun e => h (e ▸ hx)
  simpa using hxn

/-- the ridge query of `half space model` and `plate model`: distance to, and spreading velocity of, the nearest ridge
for the point moved to the model's `min depth`, with no subducting-plate velocity and no ridge migration -/
def ridgeQuery (ctx : Ctx R) (q : Query R) (rng : DepthRange R) (ridge : RidgeSpec R) : Except Err (RidgeParams R) :=
  ridgeDistanceAndSpreading ctx.coord.spherical ridge.ridges ridge.vels (natAtMinDepth ctx q rng.minDepth) [[0]] [0.0]

/-- the table look-up of the plume's `gaussian` model for the position `up` that `std::upper_bound` returned:
first entry, last entry, or the two neighbours blended with the code's `(1 − f)·a + f·b` -/
def gaussianTable (depths centerT sigmas : List R) (d : R) (up : Nat) : Except Err (R × R) :=
  if up = 0 then do
    pure (← front centerT, ← front sigmas)
  else if up = depths.length then do
    pure (← back centerT, ← back sigmas)
  else do
    let d0 ← idx depths (up - 1)
    let d1 ← idx depths up
    let fraction := (d - d0) / (d1 - d0)
    let c0 ← idx centerT (up - 1)
    let c1 ← idx centerT up
    let s0 ← idx sigmas (up - 1)
    let s1 ← idx sigmas up
    pure (((1 : R) - fraction) * c0 + fraction * c1, ((1 : R) - fraction) * s0 + fraction * s1)


/-- the code's sentinel test is the specification's, by definition -/
theorem orAdiabatic_fold {R : Type} [Scalar R] (t tp a g cp z : R) :
    (if t < 0 then Spec.adiabatic tp a g cp z else t) = Spec.orAdiabatic t tp a g cp z := rfl

end generic

/-! ## ordered fields -/
section field
variable {F : Type} [Field F] [LinearOrder F] [IsStrictOrderedRing F]

/-! ### literals of the model read over a field -/

theorem lit_nat (T : Transc F) (n : ℕ) : @OfNat.ofNat F n (@Scalar.instOfNat F (fieldScalar T) n) = (n : F) := rfl
theorem lit_sci (T : Transc F) (m : ℕ) (s : Bool) (e : ℕ) :
    @OfScientific.ofScientific F (@Scalar.instOfScientific F (fieldScalar T)) m s e = ((OfScientific.ofScientific m s e : ℚ) : F) := rfl
theorem lit_nat' (T : Transc F) (n : ℕ) : @Scalar.nat F (fieldScalar T) n = (n : F) := rfl

theorem lit_0_0 (T : Transc F) : @OfScientific.ofScientific F (@Scalar.instOfScientific F (fieldScalar T)) 0 true 1 = (0 : F) := by
  rw [lit_sci]; norm_num
theorem lit_1_0 (T : Transc F) : @OfScientific.ofScientific F (@Scalar.instOfScientific F (fieldScalar T)) 10 true 1 = (1 : F) := by
  rw [lit_sci]; norm_num
theorem lit_2_0 (T : Transc F) : @OfScientific.ofScientific F (@Scalar.instOfScientific F (fieldScalar T)) 20 true 1 = (2 : F) := by
  rw [lit_sci]; norm_num
theorem lit_10_0 (T : Transc F) : @OfScientific.ofScientific F (@Scalar.instOfScientific F (fieldScalar T)) 100 true 1 = (10 : F) := by
  rw [lit_sci]; norm_num
theorem lit_0 (T : Transc F) : @OfNat.ofNat F 0 (@Scalar.instOfNat F (fieldScalar T) 0) = (0 : F) := by
  show ((_ : ℕ) : F) = _; norm_num
theorem lit_1 (T : Transc F) : @OfNat.ofNat F 1 (@Scalar.instOfNat F (fieldScalar T) 1) = (1 : F) := by
  show ((_ : ℕ) : F) = _; norm_num
theorem lit_2 (T : Transc F) : @OfNat.ofNat F 2 (@Scalar.instOfNat F (fieldScalar T) 2) = (2 : F) := by
  show ((_ : ℕ) : F) = _; norm_num
theorem lit_4 (T : Transc F) : @OfNat.ofNat F 4 (@Scalar.instOfNat F (fieldScalar T) 4) = (4 : F) := by
  show ((_ : ℕ) : F) = _; norm_num
theorem lit_10 (T : Transc F) : @OfNat.ofNat F 10 (@Scalar.instOfNat F (fieldScalar T) 10) = (10 : F) := by
  show ((_ : ℕ) : F) = _; norm_num

/-- `std::max` / `std::min` as libstdc++ defines them are the lattice operations of a linear order -/
theorem smax_eq (T : Transc F) (a b : F) : @Scalar.max F (fieldScalar T) a b = max a b := by
  show (if a < b then b else a) = max a b
  split
  · rename_i h; rw [max_eq_right (le_of_lt h)]
  · rename_i h; rw [max_eq_left (not_lt.mp h)]
theorem smin_eq (T : Transc F) (a b : F) : @Scalar.min F (fieldScalar T) a b = min a b := by
  show (if b < a then b else a) = min a b
  split
  · rename_i h; rw [min_eq_right (le_of_lt h)]
  · rename_i h; rw [min_eq_left (not_lt.mp h)]

/-! ### the `Scalar` members of `fieldScalar T` are the field's -/

theorem s_add (T : Transc F) (a b : F) : @HAdd.hAdd F F F (@instHAdd F (fieldScalar T).toAdd) a b = a + b := rfl
theorem s_sub (T : Transc F) (a b : F) : @HSub.hSub F F F (@instHSub F (fieldScalar T).toSub) a b = a - b := rfl
theorem s_mul (T : Transc F) (a b : F) : @HMul.hMul F F F (@instHMul F (fieldScalar T).toMul) a b = a * b := rfl
theorem s_div (T : Transc F) (a b : F) : @HDiv.hDiv F F F (@instHDiv F (fieldScalar T).toDiv) a b = a / b := rfl
theorem s_neg (T : Transc F) (a : F) : @Neg.neg F (fieldScalar T).toNeg a = -a := rfl
theorem s_lt (T : Transc F) (a b : F) : @LT.lt F (fieldScalar T).toLT a b = (a < b) := rfl
theorem s_le (T : Transc F) (a b : F) : @LE.le F (fieldScalar T).toLE a b = (a ≤ b) := rfl
theorem s_gt (T : Transc F) (a b : F) : @GT.gt F (fieldScalar T).toLT a b = (b < a) := rfl
theorem s_ge (T : Transc F) (a b : F) : @GE.ge F (fieldScalar T).toLE a b = (b ≤ a) := rfl
theorem s_eps (T : Transc F) : @Scalar.eps F (fieldScalar T) = T.eps := rfl
theorem s_pi (T : Transc F) : @Scalar.pi F (fieldScalar T) = T.pi := rfl
theorem s_exp (T : Transc F) (x : F) : @Scalar.exp F (fieldScalar T) x = T.exp x := rfl
theorem s_sin (T : Transc F) (x : F) : @Scalar.sin F (fieldScalar T) x = T.sin x := rfl
theorem s_sqrt (T : Transc F) (x : F) : @Scalar.sqrt F (fieldScalar T) x = T.sqrt x := rfl
theorem s_erfc (T : Transc F) (x : F) : @Scalar.erfc F (fieldScalar T) x = T.erfc x := rfl
theorem s_tanh (T : Transc F) (x : F) : @Scalar.tanh F (fieldScalar T) x = T.tanh x := rfl
theorem s_pow (T : Transc F) (x y : F) : @Scalar.pow F (fieldScalar T) x y = T.pow x y := rfl

/-- rewrite every `Scalar` operation, comparison, libm member and literal of `fieldScalar T` into the field's own -/
macro "sfield" : tactic => `(tactic| simp only [s_add, s_sub, s_mul, s_div, s_neg, s_lt, s_le, s_gt, s_ge, s_eps, s_pi, s_exp, s_sin,
  s_sqrt, s_erfc, s_tanh, s_pow, lit_0, lit_1, lit_2, lit_4, lit_10, lit_0_0, lit_1_0, lit_2_0, lit_10_0, lit_nat', smax_eq, smin_eq])

/-- the code's `Tp·exp(((α·g)/cp)·d)` is the documented `Tp·exp(α·g·d/cp)` -/
theorem adiabat_eq_spec (T : Transc F) (tp a g cp d : F) :
    @adiabat F (fieldScalar T) tp a g cp d = @Spec.adiabatic F (fieldScalar T) tp a g cp d := by
  unfold adiabat Spec.adiabatic
  show tp * T.exp (a * g / cp * d) = tp * T.exp (a * g * d / cp)
  congr 2; ring

theorem spec_adiabatic_field (T : Transc F) (tp a g cp d : F) :
    @Spec.adiabatic F (fieldScalar T) tp a g cp d = tp * T.exp (a * g * d / cp) := rfl

theorem spec_orAdiabatic_neg (T : Transc F) (t tp a g cp z : F) (h : t < 0) :
    @Spec.orAdiabatic F (fieldScalar T) t tp a g cp z = tp * T.exp (a * g * z / cp) := by
  unfold Spec.orAdiabatic
  have h' : @LT.lt F (fieldScalar T).toLT t (@OfNat.ofNat F 0 (@Scalar.instOfNat F (fieldScalar T) 0)) := by
    rw [lit_0]; exact h
  rw [if_pos h']; rfl

theorem spec_orAdiabatic_nonneg (T : Transc F) (t tp a g cp z : F) (h : 0 ≤ t) :
    @Spec.orAdiabatic F (fieldScalar T) t tp a g cp z = t := by
  unfold Spec.orAdiabatic
  have h' : ¬ @LT.lt F (fieldScalar T).toLT t (@OfNat.ofNat F 0 (@Scalar.instOfNat F (fieldScalar T) 0)) := by
    rw [lit_0]; exact not_lt.mpr h
  rw [if_neg h']

theorem spec_orGlobal_neg (T : Transc F) (x g : F) (h : x < 0) : @Spec.orGlobal F (fieldScalar T) x g = g := by
  unfold Spec.orGlobal
  have h' : @LT.lt F (fieldScalar T).toLT x (@OfNat.ofNat F 0 (@Scalar.instOfNat F (fieldScalar T) 0)) := by
    rw [lit_0]; exact h
  rw [if_pos h']

theorem spec_orGlobal_nonneg (T : Transc F) (x g : F) (h : 0 ≤ x) : @Spec.orGlobal F (fieldScalar T) x g = x := by
  unfold Spec.orGlobal
  have h' : ¬ @LT.lt F (fieldScalar T).toLT x (@OfNat.ofNat F 0 (@Scalar.instOfNat F (fieldScalar T) 0)) := by
    rw [lit_0]; exact not_lt.mpr h
  rw [if_neg h']

theorem spec_linearBetween_field (T : Transc F) (tT tB zT zB z : F) :
    @Spec.linearBetween F (fieldScalar T) tT tB zT zB z = tT + (z - zT) * (tB - tT) / (zB - zT) := rfl

theorem applyOp_field (T : Transc F) (op : Op) (old new : F) :
    @applyOp F (fieldScalar T) op old new = (match op with
      | .replace => new | .replaceDefinedOnly => new | .add => old + new | .subtract => old - new) := by
  cases op <;> rfl


/-! ### sums -/

theorem spec_sumRange_zero (T : Transc F) (f : ℕ → F) (i : ℕ) : @Spec.sumRange F (fieldScalar T) f i 0 = 0 := by
  show @OfNat.ofNat F 0 (@Scalar.instOfNat F (fieldScalar T) 0) = 0
  exact lit_0 T

theorem spec_sumRange_succ (T : Transc F) (f : ℕ → F) (i n : ℕ) :
    @Spec.sumRange F (fieldScalar T) f i (n + 1) = @Spec.sumRange F (fieldScalar T) f i n + f (i + n) := rfl

theorem spec_sumRange_front (T : Transc F) (f : ℕ → F) (i n : ℕ) :
    @Spec.sumRange F (fieldScalar T) f i (n + 1) = f i + @Spec.sumRange F (fieldScalar T) f (i + 1) n := by
  induction n with
  | zero => rw [spec_sumRange_succ, spec_sumRange_zero, spec_sumRange_zero]; simp
  | succ n ih =>
    rw [spec_sumRange_succ, ih, spec_sumRange_succ]
    have : i + 1 + n = i + (n + 1) := by omega
    rw [this]; ring

theorem spec_sumRange_of_zero (T : Transc F) (f : ℕ → F) (i n : ℕ) (h : ∀ j, f j = 0) :
    @Spec.sumRange F (fieldScalar T) f i n = 0 := by
  induction n with
  | zero => exact spec_sumRange_zero T f i
  | succ n ih => rw [spec_sumRange_succ, ih, h]; simp

/-- one term of the `plate model` series as the code writes it -/
def plateTerm (T : Transc F) (depth maxDepth kappa spreading age : F) (i : ℕ) : F :=
  (2 / ((i : F) * T.pi)) * T.sin (((i : F) * T.pi * depth) / maxDepth) *
    T.exp ((((spreading * maxDepth) / (2 * kappa)) -
            T.sqrt (((spreading * spreading * maxDepth * maxDepth) / (4 * kappa * kappa)) + (i : F) * (i : F) * T.pi * T.pi)) *
           ((spreading * age) / maxDepth))

def plateTermConstAge (T : Transc F) (depth maxDepth kappa plateAge : F) (i : ℕ) : F :=
  (2 / ((i : F) * T.pi)) * T.sin (((i : F) * T.pi * depth) / maxDepth) *
    T.exp (-1 * (i : F) * (i : F) * T.pi * T.pi * kappa * plateAge / (maxDepth * maxDepth))

theorem plateSeries_step (T : Transc F) (depth D kappa v age dT : F) (fuel i : ℕ) (t : F) :
    @plateSeries F (fieldScalar T) depth D kappa v age dT (fuel + 1) i t =
      @plateSeries F (fieldScalar T) depth D kappa v age dT fuel (i + 1) (t + dT * plateTerm T depth D kappa v age i) := by
  conv_lhs => unfold plateSeries
  simp only [lit_nat', lit_2, lit_4]
  rfl

theorem plateSeriesConstAge_step (T : Transc F) (depth D kappa age dT : F) (fuel i : ℕ) (t : F) :
    @plateSeriesConstAge F (fieldScalar T) depth D kappa age dT (fuel + 1) i t =
      @plateSeriesConstAge F (fieldScalar T) depth D kappa age dT fuel (i + 1) (t + dT * plateTermConstAge T depth D kappa age i) := by
  conv_lhs => unfold plateSeriesConstAge
  simp only [lit_nat', lit_2, lit_1_0]
  rfl

theorem plateSeries_sum (T : Transc F) (depth D kappa v age dT : F) (fuel i : ℕ) (t : F) :
    @plateSeries F (fieldScalar T) depth D kappa v age dT fuel i t =
      t + dT * @Spec.sumRange F (fieldScalar T) (plateTerm T depth D kappa v age) i fuel := by
  induction fuel generalizing i t with
  | zero => rw [spec_sumRange_zero]; simp [plateSeries]
  | succ fuel ih => rw [plateSeries_step, ih, spec_sumRange_front]; ring

theorem plateSeriesConstAge_sum (T : Transc F) (depth D kappa age dT : F) (fuel i : ℕ) (t : F) :
    @plateSeriesConstAge F (fieldScalar T) depth D kappa age dT fuel i t =
      t + dT * @Spec.sumRange F (fieldScalar T) (plateTermConstAge T depth D kappa age) i fuel := by
  induction fuel generalizing i t with
  | zero => rw [spec_sumRange_zero]; simp [plateSeriesConstAge]
  | succ fuel ih => rw [plateSeriesConstAge_step, ih, spec_sumRange_front]; ring


/-! ### order lemmas -/

/-- linear interpolation stays between its end values -/
theorem lerp_between (tT tB zT zB z : F) (hz : zT < zB) (h1 : zT ≤ z) (h2 : z ≤ zB) :
    min tT tB ≤ tT + (z - zT) * (tB - tT) / (zB - zT) ∧ tT + (z - zT) * (tB - tT) / (zB - zT) ≤ max tT tB := by
  have hd : 0 < zB - zT := sub_pos.mpr hz
  have hl0 : 0 ≤ (z - zT) / (zB - zT) := div_nonneg (sub_nonneg.mpr h1) hd.le
  have hl1 : (z - zT) / (zB - zT) ≤ 1 := by rw [div_le_one hd]; linarith
  have he : tT + (z - zT) * (tB - tT) / (zB - zT) = tT + (z - zT) / (zB - zT) * (tB - tT) := by ring
  rw [he]
  generalize (z - zT) / (zB - zT) = l at hl0 hl1
  rcases le_total tT tB with h | h
  · rw [min_eq_left h, max_eq_right h]
    constructor <;> nlinarith
  · rw [min_eq_right h, max_eq_left h]
    constructor <;> nlinarith

theorem lerp_top (tT tB zT zB : F) : tT + (zT - zT) * (tB - tT) / (zB - zT) = tT := by
  rw [sub_self, zero_mul, zero_div, add_zero]

theorem lerp_bottom (tT tB zT zB : F) (hz : zT ≠ zB) : tT + (zB - zT) * (tB - tT) / (zB - zT) = tB := by
  have : zB - zT ≠ 0 := sub_ne_zero.mpr (Ne.symm hz)
  field_simp; ring

/-- the `erfc` laws C20 assumes -/
structure ErfcLaws (T : Transc F) : Prop where
  erfc_zero : T.erfc 0 = 1
  erfc_nonneg : ∀ x, 0 ≤ T.erfc x
  erfc_anti : ∀ x y, 0 ≤ x → x ≤ y → T.erfc y ≤ T.erfc x
  sqrt_pos : ∀ x, 0 < x → 0 < T.sqrt x
  sqrt_mono : ∀ x y, 0 < x → x ≤ y → T.sqrt x ≤ T.sqrt y

theorem ErfcLaws.erfc_le_one {T : Transc F} (L : ErfcLaws T) (x : F) (hx : 0 ≤ x) : T.erfc x ≤ 1 := by
  rw [← L.erfc_zero]; exact L.erfc_anti 0 x le_rfl hx

/-- the similarity variable `z / (2 √(κ·age))` is non-negative, grows with depth and shrinks with age -/
theorem ErfcLaws.arg_nonneg {T : Transc F} (L : ErfcLaws T) (kappa age d : F) (hk : 0 < kappa) (ha : 0 < age) (hd : 0 ≤ d) :
    0 ≤ d / (2 * T.sqrt (kappa * age)) :=
  div_nonneg hd (by have := L.sqrt_pos _ (mul_pos hk ha); positivity)

theorem ErfcLaws.arg_mono_depth {T : Transc F} (L : ErfcLaws T) (kappa age d1 d2 : F) (hk : 0 < kappa) (ha : 0 < age) (h : d1 ≤ d2) :
    d1 / (2 * T.sqrt (kappa * age)) ≤ d2 / (2 * T.sqrt (kappa * age)) := by
  have := L.sqrt_pos _ (mul_pos hk ha)
  exact div_le_div_of_nonneg_right h (by positivity)

theorem ErfcLaws.arg_anti_age {T : Transc F} (L : ErfcLaws T) (kappa a1 a2 d : F) (hk : 0 < kappa) (ha : 0 < a1) (h : a1 ≤ a2) (hd : 0 ≤ d) :
    d / (2 * T.sqrt (kappa * a2)) ≤ d / (2 * T.sqrt (kappa * a1)) := by
  have h1 := L.sqrt_pos _ (mul_pos hk ha)
  have h2 := L.sqrt_mono (kappa * a1) (kappa * a2) (mul_pos hk ha) (mul_le_mul_of_nonneg_left h hk.le)
  exact div_le_div_of_nonneg_left hd (by positivity) (by linarith)

/-- the half-space profile `T_b + (T_t − T_b)·e` with `0 ≤ e ≤ 1` lies between its end members -/
theorem halfspace_between (top bot e : F) (h : top ≤ bot) (h0 : 0 ≤ e) (h1 : e ≤ 1) :
    top ≤ bot + (top - bot) * e ∧ bot + (top - bot) * e ≤ bot := by
  constructor <;> nlinarith

theorem halfspace_mono (top bot e1 e2 : F) (h : top ≤ bot) (he : e2 ≤ e1) :
    bot + (top - bot) * e1 ≤ bot + (top - bot) * e2 := by nlinarith

/-! ### the closed forms of `Spec/Models.lean` in the field's own notation -/

theorem spec_areaLinear_field (T : Transc F) (top bottom tp a g cp fMin fMax mn mx d : F) :
    @Spec.areaLinear F (fieldScalar T) top bottom tp a g cp fMin fMax mn mx d =
      (let zT := max fMin mn
       let zB := min fMax mx
       let tT := @Spec.orAdiabatic F (fieldScalar T) top tp a g cp zT
       let tB := @Spec.orAdiabatic F (fieldScalar T) bottom tp a g cp zB
       if zB - zT < 10 * T.eps then tT else tT + (d - zT) * (tB - tT) / (zB - zT)) := by
  unfold Spec.areaLinear Spec.linearBetween
  sfield

theorem spec_chapman_field (T : Transc F) (tTop qf k A dz : F) :
    @Spec.chapman F (fieldScalar T) tTop qf k A dz = tTop + (qf / k) * dz - (A / (2 * k)) * (dz * dz) := by
  unfold Spec.chapman; sfield

theorem spec_halfSpace_field (T : Transc F) (top bot kappa age d : F) :
    @Spec.halfSpace F (fieldScalar T) top bot kappa age d =
      if 0 < age then bot + (top - bot) * T.erfc (d / (2 * T.sqrt (kappa * age))) else bot := by
  unfold Spec.halfSpace; sfield

theorem spec_plate_field (T : Transc F) (N : ℕ) (top bot kappa v age D d : F) :
    @Spec.plate F (fieldScalar T) N top bot kappa v age D d =
      top + (bot - top) * (d / D + @Spec.sumRange F (fieldScalar T) (plateTerm T d D kappa v age) 1 N) := by
  unfold Spec.plate
  sfield
  rfl

theorem spec_plateConstAge_field (T : Transc F) (N : ℕ) (top bot kappa age D d : F) :
    @Spec.plateConstAge F (fieldScalar T) N top bot kappa age D d =
      top + (bot - top) * (d / D + @Spec.sumRange F (fieldScalar T) (plateTermConstAge T d D kappa age) 1 N) := by
  unfold Spec.plateConstAge
  sfield
  congr 3
  have : (fun n : ℕ => 2 / ((n : F) * T.pi) * T.sin ((n : F) * T.pi * d / D) *
      T.exp (-((n : F) * (n : F) * T.pi * T.pi * kappa * age) / (D * D))) = plateTermConstAge T d D kappa age := by
    funext n
    unfold plateTermConstAge
    congr 2
    ring
  rw [this]

theorem spec_gaussian_field (T : Transc F) (tc sigma r2 : F) :
    @Spec.gaussian F (fieldScalar T) tc sigma r2 = tc * T.exp (-r2 / (2 * (sigma * sigma))) := by
  unfold Spec.gaussian; sfield

theorem spec_lerp_field (T : Transc F) (x0 x1 y0 y1 x : F) :
    @Spec.lerp F (fieldScalar T) x0 x1 y0 y1 x = y0 + (x - x0) / (x1 - x0) * (y1 - y0) := rfl

theorem spec_lineLinear_field (T : Transc F) (top bottom tp a g cp mn mx x : F) :
    @Spec.lineLinear F (fieldScalar T) top bottom tp a g cp mn mx x =
      (let tT := @Spec.orAdiabatic F (fieldScalar T) top tp a g cp mn
       let tB := @Spec.orAdiabatic F (fieldScalar T) bottom tp a g cp mx
       tT + (x - mn) * (tB - tT) / (mx - mn)) := rfl

theorem lineDist_field (T : Transc F) (isFault : Bool) (d : F) : @lineDist F (fieldScalar T) isFault d = if isFault then |d| else d := by
  unfold lineDist
  cases isFault
  · rfl
  · simp only [if_true]
    show (if d < ((0 : ℕ) : F) then -d else d) = |d|
    rw [Nat.cast_zero]
    split
    · rename_i h; rw [abs_of_neg h]
    · rename_i h; rw [abs_of_nonneg (not_lt.mp h)]

theorem spec_smoothSlab_field (T : Transc F) (topF botF mn side x : F) :
    @Spec.smoothSlab F (fieldScalar T) topF botF mn side x =
      botF + (topF - botF) * ((1 - T.tanh (10 * (x - mn - side / 2) / side)) / 2) := by
  unfold Spec.smoothSlab; sfield

theorem spec_smoothFault_field (T : Transc F) (cF sF side x : F) :
    @Spec.smoothFault F (fieldScalar T) cF sF side x =
      sF + (cF - sF) * ((1 - T.tanh (10 * (x - side / 2) / side)) / 2) := by
  unfold Spec.smoothFault; sfield

/-! ### the plate series where every sine factor vanishes -/

/-- if every sine factor vanishes the series leaves its start value untouched (induction on the fuel) -/
theorem plateSeries_of_sin_zero (T : Transc F) (depth D kappa v age dT : F)
    (hs : ∀ i : ℕ, T.sin (((i : F) * T.pi * depth) / D) = 0) (fuel i : ℕ) (t : F) :
    @plateSeries F (fieldScalar T) depth D kappa v age dT fuel i t = t := by
  induction fuel generalizing i t with
  | zero => rfl
  | succ fuel ih =>
    rw [plateSeries_step, ih]
    unfold plateTerm
    rw [hs]; ring

theorem plateSeriesConstAge_of_sin_zero (T : Transc F) (depth D kappa age dT : F)
    (hs : ∀ i : ℕ, T.sin (((i : F) * T.pi * depth) / D) = 0) (fuel i : ℕ) (t : F) :
    @plateSeriesConstAge F (fieldScalar T) depth D kappa age dT fuel i t = t := by
  induction fuel generalizing i t with
  | zero => rfl
  | succ fuel ih =>
    rw [plateSeriesConstAge_step, ih]
    unfold plateTermConstAge
    rw [hs]; ring

/-- the arguments of the sines: `0` at depth zero, `i·π` at `depth = max depth` -/
theorem sin_arg_surface (T : Transc F) (hsin0 : T.sin 0 = 0) (D : F) (i : ℕ) : T.sin (((i : F) * T.pi * 0) / D) = 0 := by
  rw [mul_zero, zero_div]; exact hsin0

theorem sin_arg_bottom (T : Transc F) (hsinpi : ∀ i : ℕ, T.sin ((i : F) * T.pi) = 0) (D : F) (hD : D ≠ 0) (i : ℕ) :
    T.sin (((i : F) * T.pi * D) / D) = 0 := by
  rw [mul_div_assoc, div_self hD, mul_one]; exact hsinpi i

/-! ### `std::upper_bound` on an ascending list -/

/-- ascending list: entries at smaller positions are not larger -/
def Ascending (xs : List F) : Prop := ∀ (i j : ℕ) (a b : F), i ≤ j → xs[i]? = some a → xs[j]? = some b → a ≤ b

/-- libstdc++'s binary search on an ascending list: the returned position splits the searched window into entries `≤ val`
and entries `> val` -/
theorem upperBound_spec (T : Transc F) (xs : List F) (val : F) (hs : Ascending xs) (fuel first len : ℕ)
    (hlen : first + len ≤ xs.length) (hfuel : len < fuel) :
    ∃ r, @upperBound F (fieldScalar T) xs val fuel first len = .ok r ∧ first ≤ r ∧ r ≤ first + len ∧
      (∀ j a, first ≤ j → j < r → xs[j]? = some a → a ≤ val) ∧
      (∀ j a, r ≤ j → j < first + len → xs[j]? = some a → val < a) := by
  induction fuel generalizing first len with
  | zero => omega
  | succ fuel ih =>
    unfold upperBound
    by_cases hl : len > 0
    · rw [if_pos hl]
      have hmid : first + len / 2 < xs.length := by
        have : len / 2 < len := Nat.div_lt_self hl (by norm_num)
        omega
      obtain ⟨m, hm⟩ : ∃ m, xs[first + len / 2]? = some m := ⟨xs[first + len / 2], List.getElem?_eq_getElem hmid⟩
      simp only [idx, hm, bind, Except.bind]
      by_cases hv : val < m
      · have hv' : @LT.lt F (fieldScalar T).toLT val m := hv
        rw [if_pos hv']
        have hh : len / 2 < len := Nat.div_lt_self hl (by norm_num)
        obtain ⟨r, hr, h1, h2, h3, h4⟩ := ih first (len / 2) (by omega) (by omega)
        refine ⟨r, hr, h1, by omega, h3, ?_⟩
        intro j a hj1 hj2 hja
        by_cases hj : j < first + len / 2
        · exact h4 j a hj1 hj hja
        · exact lt_of_lt_of_le hv (hs _ _ _ _ (by omega) hm hja)
      · have hv' : ¬ @LT.lt F (fieldScalar T).toLT val m := hv
        rw [if_neg hv']
        have hh : len / 2 < len := Nat.div_lt_self hl (by norm_num)
        obtain ⟨r, hr, h1, h2, h3, h4⟩ := ih (first + len / 2 + 1) (len - len / 2 - 1) (by omega) (by omega)
        refine ⟨r, hr, by omega, by omega, ?_, ?_⟩
        · intro j a hj1 hj2 hja
          by_cases hj : first + len / 2 + 1 ≤ j
          · exact h3 j a hj hj2 hja
          · exact le_trans (hs _ _ _ _ (by omega) hja hm) (not_lt.mp hv)
        · intro j a hj1 hj2 hja
          exact h4 j a hj1 (by omega) hja
    · rw [if_neg hl]
      exact ⟨first, rfl, le_rfl, by omega, fun j a h1 h2 => by omega, fun j a h1 h2 => by omega⟩

/-! ### concrete ranges, worlds and queries for witnesses and satisfiability examples -/

/-- a depth range with constant bounds -/
def constRange (lo hi : F) : DepthRange F :=
  ⟨{ constant := true, minimum := lo, maximum := lo, triangles := #[], pre := #[], nodes := #[] },
   { constant := true, minimum := hi, maximum := hi, triangles := #[], pre := #[], nodes := #[] }⟩

/-- a Cartesian world with the default thermal constants (their values play no role in the witnesses) -/
def witnessCtx : Ctx F := ⟨⟨false, .none, 0⟩, 1600, 293, false, 0, 1, 1, 10⟩
def witnessQuery (d : F) : Query F := { pt := ⟨0, 0, 0⟩, nat := ⟨0, 0, 0⟩, depth := d, gravityNorm := 10 }

theorem constRange_locals (T : Transc F) (lo hi : F) (lf : Bool) (ctx : Ctx F) (q : Query F) (h1 : lo ≤ q.depth) (h2 : q.depth ≤ hi) :
    @DepthRange.locals F (fieldScalar T) (constRange lo hi) ctx q lf = .ok (some (lo, hi)) := by
  rw [@DepthRange.locals_constant F (fieldScalar T) _ _ _ _ rfl rfl]
  have : @LE.le F (fieldScalar T).toLE q.depth (@DepthRange.maxDepth F (constRange lo hi)) ∧
      @GE.ge F (fieldScalar T).toLE q.depth (@DepthRange.minDepth F (constRange lo hi)) := ⟨h2, h1⟩
  rw [if_pos this]
  rfl

end field
end Gwb
