/-
The parser establishes well-formedness (C12) — core Lean only, every `Scalar R`.

`EPost x P` / `Post m P`: partial-correctness postconditions for the `Except` and `PM` do-blocks of `Model/Parse/Json.lean`;
`pm_guard` / `e_guard` handle the `if c then throw; rest` idiom (a join point in the elaborated term).
`parsePlume_wf`, `parseLine_post`, `Bezier.build_wf`; `Proofs/ParseWorldWF.lean` continues with `parseArea` / `parseWorld`
(where the surface dumps in the parser state need an invariant).
-/
import GwbVerif.Model.Parse.Json
import GwbVerif.Proofs.WellFormed
namespace Gwb
open Scalar Lean
set_option linter.unusedSectionVars false
variable {R : Type} [Scalar R]

/-- partial-correctness postcondition of an `Except` computation -/
def EPost {α : Type} (x : Except Err α) (P : α → Prop) : Prop := ∀ a, x = .ok a → P a

theorem EPost.pure {α : Type} {a : α} {P : α → Prop} (h : P a) : EPost (Pure.pure a : Except Err α) P := by
  intro b hb; cases hb; exact h
theorem EPost.ok {α : Type} {a : α} {P : α → Prop} (h : P a) : EPost (.ok a : Except Err α) P := by
  intro b hb; cases hb; exact h
theorem EPost.error {α : Type} {e : Err} {P : α → Prop} : EPost (.error e : Except Err α) P := by
  intro b hb; cases hb
theorem EPost.triv {α : Type} (x : Except Err α) : EPost x (fun _ => True) := fun _ _ => trivial
theorem EPost.mono {α : Type} {x : Except Err α} {P Q : α → Prop} (h : EPost x P) (hpq : ∀ a, P a → Q a) : EPost x Q :=
  fun a ha => hpq a (h a ha)
theorem EPost.bind {α β : Type} {x : Except Err α} {f : α → Except Err β} {P : α → Prop} {Q : β → Prop}
    (hx : EPost x P) (hf : ∀ a, P a → EPost (f a) Q) : EPost (x >>= f) Q := by
  cases x with
  | error e => intro b hb; cases hb
  | ok a => exact hf a (hx a rfl)
/-- `if c then throw` in front of the rest: afterwards `¬c` -/
theorem EPost.guard {c : Prop} [Decidable c] {e : Err} :
    EPost (if c then (.error e : Except Err PUnit) else Pure.pure PUnit.unit) (fun _ => ¬c) := by
  intro a ha
  split at ha
  · cases ha
  · assumption

theorem EPost.mapM {α β : Type} (f : α → Except Err β) (P : β → Prop) (xs : List α) (hf : ∀ a ∈ xs, EPost (f a) P) :
    EPost (xs.mapM f) (fun ys => ys.length = xs.length ∧ ∀ y ∈ ys, P y) := by
  induction xs with
  | nil => exact EPost.pure ⟨rfl, fun _ h => by cases h⟩
  | cons x xs ih =>
    rw [List.mapM_cons]
    refine EPost.bind (hf x (List.mem_cons_self ..)) (fun b hb => ?_)
    refine EPost.bind (ih (fun a ha => hf a (List.mem_cons_of_mem _ ha))) (fun bs hbs => ?_)
    refine EPost.pure ⟨by simp [hbs.1], ?_⟩
    intro y hy
    rcases List.mem_cons.1 hy with rfl | hy
    · exact hb
    · exact hbs.2 y hy

/-! ### the parser monad is the query monad over the list of surface dumps -/

theorem Post.pmLift {α : Type} {x : Except Err α} {P : α → Prop} (h : EPost x P) : Post (G := List (SurfaceAux R)) (Gwb.pmLift x : PM R α) P := by
  intro s a s' hh
  cases x with
  | error e => simp [Gwb.pmLift, Except.map] at hh
  | ok v =>
    simp only [Gwb.pmLift, Except.map, Except.ok.injEq, Prod.mk.injEq] at hh
    obtain ⟨rfl, _⟩ := hh
    exact h _ rfl

theorem Post.pmErr {α : Type} {e : Err} {P : α → Prop} : Post (G := List (SurfaceAux R)) (Gwb.pmErr e : PM R α) P := by
  intro s a s' hh; simp [Gwb.pmErr] at hh

theorem Post.pmGuard {c : Prop} [Decidable c] {e : Err} :
    Post (G := List (SurfaceAux R)) (if c then (Gwb.pmErr e : PM R PUnit) else Pure.pure PUnit.unit) (fun _ => ¬c) := by
  intro s a s' hh
  split at hh
  · simp [Gwb.pmErr] at hh
  · assumption

theorem Post.mapM {G α β : Type} (f : α → QM G β) (P : β → Prop) (xs : List α) (hf : ∀ a ∈ xs, Post (f a) P) :
    Post (xs.mapM f) (fun ys => ys.length = xs.length ∧ ∀ y ∈ ys, P y) := by
  induction xs with
  | nil => simpa [List.mapM_nil] using Post.pure (G := G) (a := ([] : List β)) ⟨rfl, fun _ h => by cases h⟩
  | cons x xs ih =>
    rw [List.mapM_cons]
    refine Post.bind (hf x (List.mem_cons_self ..)) (fun b hb => ?_)
    refine Post.bind (ih (fun a ha => hf a (List.mem_cons_of_mem _ ha))) (fun bs hbs => ?_)
    refine Post.pure ⟨by simp [hbs.1], ?_⟩
    intro y hy
    rcases List.mem_cons.1 hy with rfl | hy
    · exact hb
    · exact hbs.2 y hy

theorem Post.pmErr_bind {α β : Type} {e : Err} {f : α → PM R β} {P : β → Prop} :
    Post (G := List (SurfaceAux R)) ((Gwb.pmErr e : PM R α) >>= f) P :=
  Post.bind (P := fun _ => False) Post.pmErr (fun _ h => h.elim)

theorem EPost.error_bind {α β : Type} {e : Err} {f : α → Except Err β} {P : β → Prop} :
    EPost ((.error e : Except Err α) >>= f) P := by
  intro b hb; cases hb

/-- one `if c then throw; rest` of a `PM` do-block whose join point `jp` has been extracted -/
macro "pm_guard" jp:ident : tactic =>
  `(tactic| (split; (· exact Post.pmErr_bind); simp only [$jp:ident]))
macro "e_guard0" : tactic => `(tactic| (split; (· exact EPost.error_bind)))
macro "e_guard" jp:ident : tactic =>
  `(tactic| (split; (· exact EPost.error_bind); simp only [$jp:ident]))

/-! ### helper facts about the `get…` functions -/

theorem getCoordinates_length (c : Cur) (sph : Bool) :
    EPost (getCoordinates (R := R) c sph) (fun cs => ∃ a, c.val? "coordinates" = some (Json.arr a) ∧ cs.length = a.size) := by
  unfold getCoordinates Cur.getPoint2Vec
  cases hv : c.val? "coordinates" with
  | none => exact EPost.error_bind
  | some v =>
    simp only
    cases v with
    | arr a =>
      refine EPost.bind (P := fun pts => pts.length = a.size) ?_ (fun pts hpts => ?_)
      · refine EPost.bind (P := fun b => b = a) (by intro b hb; simp [jarr] at hb; exact hb.symm) (fun b hb => ?_)
        subst hb
        exact (EPost.mapM jpoint2 (fun _ => True) _ (fun _ _ => EPost.triv _)).mono (fun ys h => by simpa using h.1)
      · split
        · exact EPost.pure ⟨a, rfl, by simpa using hpts⟩
        · exact EPost.pure ⟨a, rfl, hpts⟩
    | _ => intro b hb; simp [jarr, bind, Except.bind] at hb

theorem constantOf_wf (v : R) : (Surface.constantOf v).WellFormed := Or.inl rfl

theorem getPlainRange_wf (c : Cur) : EPost (c.getPlainRange (R := R)) DepthRange.WellFormed := by
  unfold Cur.getPlainRange
  refine EPost.bind (EPost.triv _) (fun mn _ => ?_)
  refine EPost.bind (EPost.triv _) (fun mx _ => ?_)
  exact EPost.pure ⟨constantOf_wf _, constantOf_wf _⟩

theorem ascending_strict (xs : List R) (h : ascending xs = true) : StrictAscending xs := by
  induction xs with
  | nil => intro i a b ha; simp at ha
  | cons x xs ih =>
    cases xs with
    | nil => intro i a b ha hb; cases i <;> simp at hb
    | cons y ys =>
      simp only [ascending, Bool.and_eq_true, decide_eq_true_eq] at h
      intro i a b ha hb
      cases i with
      | zero => simp at ha hb; subst ha; subst hb; exact h.1
      | succ i => exact ih h.2 i a b (by simpa using ha) (by simpa using hb)

theorem bne_false_eq {a b : Nat} (h : ¬(a != b) = true) : a = b := by simpa using h

theorem parseGrainsWith_wf (rngM : PM R (DepthRange R)) (hr : Post rngM DepthRange.WellFormed) (model : String) (c : Cur) :
    Post (parseGrainsWith rngM model c) GrainsModel.WellFormed := by
  unfold parseGrainsWith
  refine Post.bind hr (fun rng hrng => ?_)
  refine Post.bind (Post.triv _) (fun comps _ => ?_)
  split
  · refine Post.bind (Post.triv _) (fun mats _ => ?_)
    refine Post.bind (Post.triv _) (fun _ _ => ?_)
    refine Post.bind (Post.triv _) (fun sizes _ => ?_)
    extract_lets j2 j1
    pm_guard j1; rename_i h1
    pm_guard j2; rename_i h2
    exact Post.pure ⟨hrng, (bne_false_eq h1).symm, (bne_false_eq h2).symm⟩
  · refine Post.bind (Post.triv _) (fun _ _ => ?_)
    refine Post.bind (Post.triv _) (fun sizes _ => ?_)
    refine Post.bind (Post.triv _) (fun norm _ => ?_)
    extract_lets j2 j1
    pm_guard j1; rename_i h1
    pm_guard j2; rename_i h2
    exact Post.pure ⟨hrng, (bne_false_eq h1).symm, (bne_false_eq h2).symm⟩
  · refine Post.bind (Post.triv _) (fun basis _ => ?_)
    refine Post.bind (Post.triv _) (fun _ _ => ?_)
    refine Post.bind (Post.triv _) (fun sizes _ => ?_)
    refine Post.bind (Post.triv _) (fun norm _ => ?_)
    refine Post.bind (Post.triv _) (fun defl _ => ?_)
    extract_lets j4 j3 j2 j1
    pm_guard j1; rename_i h1
    pm_guard j2; rename_i h2
    pm_guard j3; rename_i h3
    pm_guard j4; rename_i h4
    exact Post.pure ⟨hrng, (bne_false_eq h4).symm, (bne_false_eq h1).symm, (bne_false_eq h2).symm, (bne_false_eq h3).symm⟩
  · exact Post.pmErr

/-- schema fact used by the plume: `coordinates` has `minItems 1` -/
def SchemaCoordinatesMinItems1 (c : Cur) : Prop := ∀ a, c.val? "coordinates" = some (Json.arr a) → 0 < a.size

theorem parsePlume_wf (ctx : Ctx R) (c : Cur) (tags : List String) :
    Post (G := List (SurfaceAux R)) (parsePlume ctx c tags)
      (fun r => (SchemaCoordinatesMinItems1 c → r.1.WellFormed) ∧ StrictAscending r.1.depths) := by
  unfold parsePlume
  extract_lets sph
  refine Post.bind (Post.triv _) (fun name _ => ?_)
  refine Post.bind (Post.triv _) (fun tag _ => ?_)
  split
  refine Post.bind (Post.pmLift (getCoordinates_length c sph)) (fun coords hcoords => ?_)
  refine Post.bind (Post.triv _) (fun minD _ => ?_)
  refine Post.bind (Post.triv _) (fun maxD _ => ?_)
  refine Post.bind (Post.triv _) (fun depths _ => ?_)
  refine Post.bind (Post.triv _) (fun sma _ => ?_)
  refine Post.bind (Post.triv _) (fun ecc _ => ?_)
  refine Post.bind (Post.triv _) (fun rot _ => ?_)
  extract_lets rot' sma' jBody j5 j4 j3 j2
  pm_guard j2; rename_i h1
  pm_guard j3; rename_i h2
  pm_guard j4; rename_i h3
  pm_guard j5; rename_i h4
  pm_guard jBody; rename_i h5
  refine Post.bind (Post.triv _) (fun tl _ => ?_)
  refine Post.bind (Post.mapM _ TempModel.WellFormed _ ?_) (fun temps htemps => ?_)
  · rintro ⟨m, cc⟩ _
    refine Post.pmLift ?_
    refine EPost.bind (EPost.triv _) (fun op _ => ?_)
    split
    · refine EPost.bind (getPlainRange_wf cc) (fun rng hrng => ?_)
      refine EPost.bind (EPost.triv _) (fun t _ => ?_)
      exact EPost.pure ⟨hrng, trivial⟩
    · refine EPost.bind (EPost.triv _) (fun ds _ => ?_)
      refine EPost.bind (EPost.triv _) (fun ct _ => ?_)
      refine EPost.bind (EPost.triv _) (fun sg _ => ?_)
      e_guard0; rename_i g0
      e_guard0; rename_i g1
      e_guard0; rename_i g2
      refine EPost.pure ⟨?_, ?_⟩
      · simp only [bne_iff_ne, Bool.or_eq_true, not_or, ne_eq, Decidable.not_not] at g2
        exact ⟨g2.1, g2.2⟩
      · show 0 < ds.length
        simp only [beq_iff_eq] at g1
        omega
    · exact EPost.error
  refine Post.bind (Post.triv _) (fun cl _ => ?_)
  refine Post.bind (Post.mapM _ CompModel.WellFormed _ ?_) (fun comps hcomps => ?_)
  · rintro ⟨m, cc⟩ _
    refine Post.pmLift ?_
    split
    · refine EPost.bind (getPlainRange_wf cc) (fun rng hrng => ?_)
      refine EPost.bind (EPost.triv _) (fun cs _ => ?_)
      refine EPost.bind (EPost.triv _) (fun fr _ => ?_)
      refine EPost.bind (EPost.triv _) (fun op _ => ?_)
      e_guard0; rename_i g1
      exact EPost.pure ⟨hrng, (bne_false_eq g1).symm⟩
    · exact EPost.error
  refine Post.bind (Post.triv _) (fun gl _ => ?_)
  refine Post.bind (Post.mapM _ GrainsModel.WellFormed _ ?_) (fun grains hgrains => ?_)
  · rintro ⟨m, cc⟩ _
    exact parseGrainsWith_wf _ (Post.pmLift (getPlainRange_wf cc)) m cc
  refine Post.bind (Post.triv _) (fun vl _ => ?_)
  refine Post.bind (Post.mapM _ VelModel.WellFormed _ ?_) (fun vels hvels => ?_)
  · rintro ⟨m, cc⟩ _
    refine Post.pmLift ?_
    split
    · refine EPost.bind (getPlainRange_wf cc) (fun rng hrng => ?_)
      refine EPost.bind (EPost.triv _) (fun op _ => ?_)
      refine EPost.bind (EPost.triv _) (fun v _ => ?_)
      refine EPost.bind (EPost.triv _) (fun v0 _ => ?_)
      refine EPost.bind (EPost.triv _) (fun v1 _ => ?_)
      refine EPost.bind (EPost.triv _) (fun v2 _ => ?_)
      exact EPost.pure hrng
    · exact EPost.error
  refine Post.pure ⟨fun hschema => ?_, ?_⟩
  · obtain ⟨a, ha, hlen⟩ := hcoords
    have hpos := hschema a ha
    have e1 := bne_false_eq h1
    have e2 := bne_false_eq h2
    have e3 := bne_false_eq h3
    have e4 := bne_false_eq h4
    refine ⟨⟨by show 0 < coords.length; omega, e1, ?_, e3, ?_⟩, htemps.2, hvels.2, hcomps.2, hgrains.2⟩
    · show sma'.length = coords.length
      simp only [sma']; split <;> simp [e2]
    · show rot'.length = coords.length
      simp [rot', e4]
  · exact ascending_strict depths (by simpa using h5)

/-! ### slabs and faults -/

theorem EPost.foldlM {α β : Type} (f : β → α → Except Err β) (P : β → Prop) (hf : ∀ b a, P b → EPost (f b a) P)
    (xs : List α) (b : β) (hb : P b) : EPost (xs.foldlM f b) P := by
  induction xs generalizing b with
  | nil => exact EPost.pure hb
  | cons x xs ih =>
    rw [List.foldlM_cons]
    exact EPost.bind (hf b x hb) (fun b' hb' => ih b' hb')

theorem EPost.foldlM_mem {α β : Type} (f : β → α → Except Err β) (P : β → Prop) (xs : List α)
    (hf : ∀ b a, a ∈ xs → P b → EPost (f b a) P) (b : β) (hb : P b) : EPost (xs.foldlM f b) P := by
  induction xs generalizing b with
  | nil => exact EPost.pure hb
  | cons x xs ih =>
    rw [List.foldlM_cons]
    exact EPost.bind (hf b x (List.mem_cons_self ..) hb) (fun b' hb' => ih (fun b a ha => hf b a (List.mem_cons_of_mem _ ha)) b' hb')

theorem bezierAngles_length (pts : List (P2 R)) : EPost (bezierAngles pts) (fun a => a.length = pts.length ∧ 2 ≤ pts.length) := by
  unfold bezierAngles
  extract_lets n jp
  split
  · exact EPost.error_bind
  · rename_i hn
    simp only [jp]
    refine EPost.bind (EPost.triv _) (fun p0 _ => ?_)
    refine EPost.bind (EPost.triv _) (fun p1 _ => ?_)
    refine EPost.bind (EPost.mapM _ (fun _ => True) _ (fun _ _ => EPost.triv _)) (fun inner hin => ?_)
    refine EPost.bind (EPost.triv _) (fun pl _ => ?_)
    refine EPost.bind (EPost.triv _) (fun pk _ => ?_)
    refine EPost.pure ?_
    have := hin.1
    simp only [List.length_range] at this
    simp only [List.length_cons, List.length_append, List.length_nil, this]
    omega

theorem bezierControlRest_length (pts : List (P2 R)) (angles : List R) (n fuel i : Nat) (c : P2 R) :
    EPost (bezierControlRest pts angles n fuel i c) (fun r => r.length = min fuel (n - 1 - i)) := by
  induction fuel generalizing i c with
  | zero => exact EPost.ok (by simp)
  | succ fuel ih =>
    unfold bezierControlRest
    split
    · rename_i hi
      refine EPost.bind (EPost.triv _) (fun p1 _ => ?_)
      refine EPost.bind (EPost.triv _) (fun p2 _ => ?_)
      refine EPost.bind (EPost.triv _) (fun ai _ => ?_)
      refine EPost.bind (EPost.triv _) (fun an _ => ?_)
      refine EPost.bind (EPost.triv _) (fun c1 _ => ?_)
      refine EPost.bind (ih (i + 1) _) (fun rest hrest => ?_)
      refine EPost.pure ?_
      simp only [List.length_cons, hrest]
      omega
    · rename_i hi
      refine EPost.ok ?_
      simp only [List.length_nil]
      omega

theorem Bezier.build_wf (pts : List (P2 R)) : EPost (Bezier.build pts) (fun bz => bz.WellFormedFor pts) := by
  unfold Bezier.build
  extract_lets n
  refine EPost.bind (bezierAngles_length pts) (fun angles hang => ?_)
  refine EPost.bind (EPost.triv _) (fun p0 _ => ?_)
  split
  · exact EPost.pure ⟨rfl, by show (List.replicate (pts.length - 1) _).length = _; simp, hang.1⟩
  · rename_i hn
    extract_lets p1
    refine EPost.bind (EPost.triv _) (fun p2 _ => ?_)
    refine EPost.bind (EPost.triv _) (fun p3 _ => ?_)
    extract_lets len
    refine EPost.bind (EPost.triv _) (fun a0 _ => ?_)
    refine EPost.bind (EPost.triv _) (fun a1 _ => ?_)
    extract_lets c00 c01 c01'
    refine EPost.bind (bezierControlRest_length pts angles n n 1 _) (fun rest hrest => ?_)
    refine EPost.pure ⟨rfl, ?_, hang.1⟩
    show (_ :: rest).length = pts.length - 1
    have hn' : ¬ pts.length ≤ 2 := hn
    have hr : rest.length = min pts.length (pts.length - 1 - 1) := hrest
    simp only [List.length_cons, hr]
    omega

theorem bor_bne_false {a b c : Nat} (h : ¬(a != b || a != c) = true) : b = a ∧ c = a := by
  simp only [bne_iff_ne, Bool.or_eq_true, not_or, ne_eq, Decidable.not_not] at h
  exact ⟨h.1.symm, h.2.symm⟩

theorem parseLineComp_post (isFault : Bool) (model : String) (c : Cur) :
    EPost (parseLineComp (R := R) isFault model c) LineComp.WellFormed := by
  unfold parseLineComp
  split
  · refine EPost.bind (EPost.triv _) (fun mn _ => ?_)
    refine EPost.bind (EPost.triv _) (fun mx _ => ?_)
    refine EPost.bind (EPost.triv _) (fun comps _ => ?_)
    refine EPost.bind (EPost.triv _) (fun fr _ => ?_)
    refine EPost.bind (EPost.triv _) (fun op _ => ?_)
    extract_lets j1
    e_guard j1; rename_i g1
    exact EPost.pure (bne_false_eq g1).symm
  · split
    · refine EPost.bind (EPost.triv _) (fun mn _ => ?_)
      refine EPost.bind (EPost.triv _) (fun side _ => ?_)
      refine EPost.bind (EPost.triv _) (fun op _ => ?_)
      refine EPost.bind (EPost.triv _) (fun cf _ => ?_)
      refine EPost.bind (EPost.triv _) (fun sf _ => ?_)
      refine EPost.bind (EPost.triv _) (fun comps _ => ?_)
      extract_lets j1
      e_guard j1; rename_i g1
      exact EPost.pure (bor_bne_false g1)
    · refine EPost.bind (EPost.triv _) (fun mn _ => ?_)
      refine EPost.bind (EPost.triv _) (fun mx _ => ?_)
      refine EPost.bind (EPost.triv _) (fun op _ => ?_)
      refine EPost.bind (EPost.triv _) (fun cf _ => ?_)
      refine EPost.bind (EPost.triv _) (fun sf _ => ?_)
      refine EPost.bind (EPost.triv _) (fun comps _ => ?_)
      extract_lets j1
      e_guard j1; rename_i g1
      exact EPost.pure (bor_bne_false g1)
  · split
    · exact EPost.error
    · refine EPost.bind (EPost.triv _) (fun mn _ => ?_)
      refine EPost.bind (EPost.triv _) (fun mx _ => ?_)
      refine EPost.bind (EPost.triv _) (fun density _ => ?_)
      refine EPost.bind (EPost.triv _) (fun comps _ => ?_)
      refine EPost.bind (EPost.triv _) (fun maxWater _ => ?_)
      refine EPost.bind (EPost.triv _) (fun cutoff _ => ?_)
      refine EPost.bind (EPost.triv _) (fun op _ => ?_)
      refine EPost.bind (EPost.triv _) (fun lith _ => ?_)
      split
      · exact EPost.error
      · exact EPost.pure (by simp [LineComp.WellFormed])
  · exact EPost.error

theorem parseLineGrains_post (isFault : Bool) (model : String) (c : Cur) :
    EPost (parseLineGrains (R := R) isFault model c) LineGrains.WellFormed := by
  unfold parseLineGrains
  split
  · refine EPost.bind (EPost.triv _) (fun mn _ => ?_)
    refine EPost.bind (EPost.triv _) (fun mx _ => ?_)
    refine EPost.bind (EPost.triv _) (fun comps _ => ?_)
    refine EPost.bind (EPost.triv _) (fun mats _ => ?_)
    refine EPost.bind (EPost.triv _) (fun _ _ => ?_)
    refine EPost.bind (EPost.triv _) (fun sizes _ => ?_)
    extract_lets j2 j1
    e_guard j1; rename_i g1
    e_guard j2; rename_i g2
    exact EPost.pure ⟨(bne_false_eq g1).symm, (bne_false_eq g2).symm⟩
  · refine EPost.bind (EPost.triv _) (fun mn _ => ?_)
    refine EPost.bind (EPost.triv _) (fun mx _ => ?_)
    refine EPost.bind (EPost.triv _) (fun comps _ => ?_)
    refine EPost.bind (EPost.triv _) (fun _ _ => ?_)
    refine EPost.bind (EPost.triv _) (fun sizes _ => ?_)
    refine EPost.bind (EPost.triv _) (fun norm _ => ?_)
    extract_lets j2 j1
    e_guard j1; rename_i g1
    e_guard j2; rename_i g2
    exact EPost.pure ⟨(bne_false_eq g1).symm, (bne_false_eq g2).symm⟩
  · refine EPost.bind (EPost.triv _) (fun mn _ => ?_)
    refine EPost.bind (EPost.triv _) (fun mx _ => ?_)
    refine EPost.bind (EPost.triv _) (fun comps _ => ?_)
    refine EPost.bind (EPost.triv _) (fun basis _ => ?_)
    refine EPost.bind (EPost.triv _) (fun _ _ => ?_)
    refine EPost.bind (EPost.triv _) (fun sizes _ => ?_)
    refine EPost.bind (EPost.triv _) (fun norm _ => ?_)
    refine EPost.bind (EPost.triv _) (fun defl _ => ?_)
    extract_lets j4 j3 j2 j1
    e_guard j1; rename_i g1
    e_guard j2; rename_i g2
    e_guard j3; rename_i g3
    e_guard j4; rename_i g4
    exact EPost.pure ⟨(bne_false_eq g4).symm, (bne_false_eq g1).symm, (bne_false_eq g2).symm, (bne_false_eq g3).symm⟩
  · exact EPost.error


/-! ### ridges -/

theorem ridgeGo_shape (second : List R) (ridges : List (List (P2 R))) (k : Nat) :
    EPost (Cur.getRidgeSpec.go second ridges k) (fun vels => vels.length = ridges.length ∧
      ∀ (i : Nat) (rd : List (P2 R)) (vs : List R), ridges[i]? = some rd → vels[i]? = some vs → vs.length = rd.length) := by
  induction ridges generalizing k with
  | nil =>
    unfold Cur.getRidgeSpec.go
    exact EPost.ok ⟨rfl, fun i rd vs h => by simp at h⟩
  | cons r rs ih =>
    unfold Cur.getRidgeSpec.go
    refine EPost.bind (EPost.mapM _ (fun _ => True) _ (fun _ _ => EPost.triv _)) (fun vs hvs => ?_)
    refine EPost.bind (ih (k + r.length)) (fun rest hrest => ?_)
    refine EPost.pure ⟨by simp [hrest.1], ?_⟩
    intro i rd vs' h1 h2
    cases i with
    | zero =>
      simp only [List.getElem?_cons_zero, Option.some.injEq] at h1 h2
      subst h1; subst h2
      simpa using hvs.1
    | succ i =>
      simp only [List.getElem?_cons_succ] at h1 h2
      exact hrest.2 i rd vs' h1 h2

/-- schema facts about `ridge coordinates` (`minItems 1`, each ridge `minItems 2`): at least one ridge, no empty ridge -/
def SchemaRidgeCoordinates (c : Cur) : Prop :=
  ∀ a, c.val? "ridge coordinates" = some (Json.arr a) → 0 < a.size ∧ ∀ r ∈ a.toList, ∀ b, r = Json.arr b → 0 < b.size

theorem getRidgeSpec_post (c : Cur) (sph : Bool) :
    EPost (c.getRidgeSpec (R := R) sph) (fun r => SchemaRidgeCoordinates c → r.WellFormed) := by
  unfold Cur.getRidgeSpec
  refine EPost.bind (EPost.triv _) (fun vs _ => ?_)
  obtain ⟨_, second⟩ := vs
  simp only
  refine EPost.bind (P := fun rj => c.val? "ridge coordinates" = some (Json.arr rj)) ?_ (fun ridgesJ hrj => ?_)
  · split
    · rename_i v hv
      cases v with
      | arr a => intro b hb; simp [jarr] at hb; subst hb; exact hv
      | _ => intro b hb; simp [jarr] at hb
    · exact EPost.error
  refine EPost.bind (EPost.mapM _ (fun rd => (∀ r ∈ ridgesJ.toList, ∀ b, r = Json.arr b → 0 < b.size) → 0 < rd.length) _ ?_)
    (fun ridges hridges => ?_)
  · intro rj hmem
    refine EPost.bind (P := fun b => rj = Json.arr b) ?_ (fun b hb => ?_)
    · cases rj with
      | arr a => intro b hb; simp [jarr] at hb; subst hb; rfl
      | _ => intro b hb; simp [jarr] at hb
    refine EPost.bind (EPost.mapM _ (fun _ => True) _ (fun _ _ => EPost.triv _)) (fun pts hpts => ?_)
    refine EPost.pure (fun hall => ?_)
    have := hall rj hmem b hb
    simp only [List.length_map, hpts.1, Array.length_toList]
    exact this
  split
  · exact EPost.error_bind
  · refine EPost.bind (ridgeGo_shape second ridges 0) (fun vels hvels => ?_)
    refine EPost.pure (fun hschema => ?_)
    obtain ⟨hpos, hall⟩ := hschema ridgesJ hrj
    refine ⟨?_, fun rd hrd => hridges.2 rd hrd hall, hvels.1, hvels.2⟩
    show 0 < ridges.length
    rw [hridges.1]; simpa using hpos


/-! ### the slab-only temperature models -/

/-- schema facts about `subducting velocity` (inner arrays `minItems 1`): no empty row -/
def SchemaSubductingRows (c : Cur) : Prop :=
  ∀ a, c.val? "subducting velocity" = some (Json.arr a) → ∀ r ∈ a.toList, ∀ b, r = Json.arr b → 0 < b.size

theorem getVectorOrDouble_post (c : Cur) :
    EPost (c.getVectorOrDouble (R := R) "subducting velocity") (fun sv => SchemaSubductingRows c → ∀ row ∈ sv, 0 < row.length) := by
  unfold Cur.getVectorOrDouble
  split
  · refine EPost.bind (EPost.triv _) (fun j _ => ?_)
    refine EPost.bind (EPost.triv _) (fun d _ => ?_)
    refine EPost.pure (fun _ row h => ?_)
    simp only [List.mem_singleton] at h
    subst h; simp
  · rename_i arr hv
    refine (EPost.mapM _ (fun row => (∀ r ∈ arr.toList, ∀ b, r = Json.arr b → 0 < b.size) → 0 < row.length) _ ?_).mono ?_
    · intro l hl
      refine EPost.bind (P := fun b => l = Json.arr b) ?_ (fun b hb => ?_)
      · cases l with
        | arr a => intro b hb; simp [jarr] at hb; subst hb; rfl
        | _ => intro b hb; simp [jarr] at hb
      refine (EPost.mapM _ (fun _ => True) _ (fun _ _ => EPost.triv _)).mono (fun ys hys hall => ?_)
      rw [hys.1, Array.length_toList]
      exact hall l hl b hb
    · intro ys hys hs row hrow
      exact hys.2 row hrow (hs arr hv)
  · refine EPost.bind (EPost.triv _) (fun d _ => ?_)
    refine EPost.pure (fun _ row h => ?_)
    simp only [List.mem_singleton] at h
    subst h; simp

theorem checkSubductingVelocities_post (ridges : List (List (P2 R))) (vels subVel : List (List R)) (fuel r : Nat)
    (hf : ridges.length ≤ r + fuel) :
    EPost (checkSubductingVelocities ridges vels subVel fuel r) (fun _ =>
      ∀ i, r ≤ i → i < ridges.length → subVel.length = ridges.length ∧
        ∀ (rd : List (P2 R)) (sv : List R), ridges[i]? = some rd → subVel[i]? = some sv → sv.length = rd.length) := by
  induction fuel generalizing r with
  | zero =>
    unfold checkSubductingVelocities
    exact EPost.ok (fun i h1 h2 => by omega)
  | succ fuel ih =>
    unfold checkSubductingVelocities
    split
    · refine EPost.bind (P := fun ridge => ridges[r]? = some ridge) (fun a h => (idx_ok_iff _ _ _).1 h) (fun ridge hridge => ?_)
      extract_lets j1
      e_guard j1; rename_i g1
      refine EPost.bind (P := fun sv => subVel[r]? = some sv) (fun a h => (idx_ok_iff _ _ _).1 h) (fun sv hsv => ?_)
      e_guard0; rename_i g2
      refine EPost.bind (EPost.triv _) (fun vs _ => ?_)
      refine EPost.bind (EPost.triv _) (fun _ _ => ?_)
      refine (ih (r + 1) (by omega)).mono (fun _ hrest i h1 h2 => ?_)
      have e1 : subVel.length = ridges.length := by simpa using g1
      have e2 : sv.length = ridge.length := by simpa using g2
      by_cases hi : i = r
      · subst hi
        refine ⟨e1, fun rd sv' hrd hsv' => ?_⟩
        rw [hridge] at hrd; rw [hsv] at hsv'
        cases hrd; cases hsv'; exact e2
      · exact hrest i (by omega) h2
    · exact EPost.ok (fun i h1 h2 => by omega)

/-- the schema facts `parse_entries` of the slab temperature models relies on without re-checking them -/
def SchemaSlabTemp (c : Cur) : Prop := SchemaRidgeCoordinates c ∧ SchemaSubductingRows c

/-- **`MassConserving::parse_entries` establishes `MassConserving.WellFormed`** on a schema-valid model object — up to the NaN clause
of the spline, which is a property of the scalar type -/
theorem parseMassConserving_post (ctx : Ctx R) (c : Cur) :
    EPost (parseMassConserving ctx c) (fun m => SchemaSlabTemp c → (m.applySpline = true → CmpTotal R) → m.WellFormed) := by
  unfold parseMassConserving
  extract_lets sph
  refine EPost.bind (EPost.triv _) (fun mn _ => ?_)
  refine EPost.bind (EPost.triv _) (fun mx _ => ?_)
  refine EPost.bind (EPost.triv _) (fun op _ => ?_)
  refine EPost.bind (EPost.triv _) (fun density _ => ?_)
  refine EPost.bind (EPost.triv _) (fun k _ => ?_)
  refine EPost.bind (EPost.triv _) (fun fs _ => ?_)
  obtain ⟨first, second⟩ := fs
  simp only
  refine EPost.bind (getVectorOrDouble_post c) (fun subVel hrows => ?_)
  refine EPost.bind (EPost.triv _) (fun coupling _ => ?_)
  refine EPost.bind (EPost.triv _) (fun forearc _ => ?_)
  refine EPost.bind (EPost.triv _) (fun taper _ => ?_)
  refine EPost.bind (EPost.triv _) (fun al _ => ?_)
  refine EPost.bind (EPost.triv _) (fun cp _ => ?_)
  refine EPost.bind (EPost.triv _) (fun kappa _ => ?_)
  refine EPost.bind (EPost.triv _) (fun ah _ => ?_)
  refine EPost.bind (EPost.triv _) (fun tp _ => ?_)
  refine EPost.bind (getRidgeSpec_post c sph) (fun ridge hridge => ?_)
  refine EPost.bind (EPost.triv _) (fun refName _ => ?_)
  refine EPost.bind (EPost.triv _) (fun plateRef _ => ?_)
  refine EPost.bind (EPost.triv _) (fun spline _ => ?_)
  refine EPost.bind (EPost.triv _) (fun nPts _ => ?_)
  split
  · exact EPost.error_bind
  split
  · exact EPost.error_bind
  refine EPost.bind (P := fun sv0 => subVel[0]? = some sv0) (fun a h => (idx_ok_iff _ _ _).1 h) (fun sv0 hsv0 => ?_)
  have hfinal : ∀ m : MassConserving R, m.ridge = ridge → m.subVel = subVel → m.migrationTimes = first →
      (sv0.length > 1 → first.length = ridge.ridges.length ∧
        ∀ i, i < ridge.ridges.length → subVel.length = ridge.ridges.length ∧
          ∀ (rd : List (P2 R)) (sv : List R), ridge.ridges[i]? = some rd → subVel[i]? = some sv → sv.length = rd.length) →
      SchemaSlabTemp c → (m.applySpline = true → CmpTotal R) → m.WellFormed := by
    intro m e1 e2 e3 hblock hschema hnan
    have hrw : ridge.WellFormed := hridge hschema.1
    have hmem0 : sv0 ∈ subVel := List.mem_of_getElem? hsv0
    have hpos0 : 0 < sv0.length := hrows hschema.2 sv0 hmem0
    unfold MassConserving.WellFormed
    rw [e1, e2, e3]
    refine ⟨hrw, ⟨sv0, sv0[0], hsv0, List.getElem?_eq_getElem hpos0⟩, ?_, hnan⟩
    rintro ⟨sv0', hs0', hlt⟩
    have : sv0' = sv0 := Option.some.inj (hs0'.symm.trans hsv0)
    subst this
    obtain ⟨hfirst, hall⟩ := hblock hlt
    refine ⟨(hall 0 hrw.1).1, by omega, fun i rd sv hrd hsv => ?_⟩
    exact (hall i (List.getElem?_eq_some_iff.1 hrd).1).2 rd sv hrd hsv
  split
  · split
    · exact EPost.error_bind
    · rename_i hlt g1
      refine EPost.bind (checkSubductingVelocities_post ridge.ridges ridge.vels subVel (ridge.ridges.length + 1) 0 (by omega)) (fun _ hc => ?_)
      exact EPost.pure (hfinal _ rfl rfl rfl (fun _ => ⟨by simpa using g1, fun i hi => hc i (Nat.zero_le _) hi⟩))
  · rename_i hn
    exact EPost.pure (hfinal _ rfl rfl rfl (fun h => absurd h hn))

/-- one entry of a segment's temperature-model list: the models shared with the fault and the slab `plate model` index nothing -/
theorem parseSegTemp_post (ctx : Ctx R) (isFault : Bool) (model : String) (c : Cur) :
    EPost (parseSegTemp ctx isFault model c) (fun m => SchemaSlabTemp c → m.SplineCmp → m.WellFormed) := by
  unfold parseSegTemp
  split
  · refine EPost.bind (EPost.triv _) (fun p _ => ?_)
    exact EPost.pure (fun _ _ => trivial)
  · split
    · refine EPost.bind (parseMassConserving_post ctx c) (fun m hm => ?_)
      exact EPost.pure (fun hs hn => hm hs hn)
    · refine EPost.bind (EPost.triv _) (fun b _ => ?_)
      exact EPost.pure (fun _ _ => trivial)

/-- schema facts for the temperature models a segment ends up with (its own list or the inherited one): `SchemaSlabTemp` of each -/
def SchemaSegmentTemps (seg : Cur) (anc : List Json) : Prop :=
  ∀ l, resolveModels seg anc "temperature models" = .ok l → ∀ mc ∈ l, SchemaSlabTemp mc.2

/-- … for every entry of the `segments` array of `obj` -/
def SchemaSegments (obj segSchema : Json) (anc : List Json) : Prop :=
  ∀ v a, (obj.getObjVal? "segments").toOption = some v → jarr v = .ok a → ∀ sj ∈ a.toList, SchemaSegmentTemps ⟨sj, segSchema⟩ anc

/-- … for the feature's own `segments` and for those of every `sections` entry -/
def SchemaLineTemps (c : Cur) : Prop :=
  (∀ segSchema, schemaAt c.schema ["segments", "items", "properties"] = .ok segSchema → SchemaSegments c.obj segSchema [c.obj]) ∧
  (∀ v arr s2, c.val? "sections" = some v → jarr v = .ok arr →
    schemaAt c.schema ["sections", "items", "properties", "segments", "items", "properties"] = .ok s2 →
    ∀ sj ∈ arr.toList, SchemaSegments sj s2 [sj, c.obj])

theorem parseSegment_post (ctx : Ctx R) (isFault : Bool) (seg : Cur) (anc : List Json) :
    EPost (parseSegment ctx isFault seg anc) (fun s => SchemaSegmentTemps seg anc → s.SplineCmp → s.WellFormed) := by
  unfold parseSegment
  refine EPost.bind (EPost.triv _) (fun len _ => ?_)
  refine EPost.bind (EPost.triv _) (fun th _ => ?_)
  refine EPost.bind (EPost.triv _) (fun tt _ => ?_)
  refine EPost.bind (EPost.triv _) (fun ang _ => ?_)
  refine EPost.bind (P := fun l => resolveModels seg anc "temperature models" = .ok l) (fun _ h => h) (fun l hl => ?_)
  refine EPost.bind (EPost.mapM _ (fun m => (∀ mc ∈ l, SchemaSlabTemp mc.2) → m.SplineCmp → m.WellFormed) _ ?_) (fun temps htemps => ?_)
  · rintro ⟨m, cc⟩ hmem
    exact (parseSegTemp_post ctx isFault m cc).mono (fun sm h hall => h (hall _ hmem))
  refine EPost.bind (EPost.triv _) (fun _ _ => ?_)
  refine EPost.bind (EPost.mapM _ LineComp.WellFormed _ ?_) (fun comps hcomps => ?_)
  · rintro ⟨m, cc⟩ _; exact parseLineComp_post isFault m cc
  refine EPost.bind (EPost.triv _) (fun _ _ => ?_)
  refine EPost.bind (EPost.mapM _ LineGrains.WellFormed _ ?_) (fun grains hgrains => ?_)
  · rintro ⟨m, cc⟩ _; exact parseLineGrains_post isFault m cc
  refine EPost.bind (EPost.triv _) (fun _ _ => ?_)
  refine EPost.bind (EPost.triv _) (fun vels _ => ?_)
  exact EPost.pure (fun hs hn => ⟨hcomps.2, hgrains.2, fun m hm => htemps.2 m hm (hs l hl) (hn m hm)⟩)

theorem parseSegments_post (ctx : Ctx R) (isFault : Bool) (obj segSchema : Json) (anc : List Json) :
    EPost (parseSegments ctx isFault obj segSchema anc)
      (fun segs => SchemaSegments obj segSchema anc → ∀ s ∈ segs, s.SplineCmp → s.WellFormed) := by
  unfold parseSegments
  split
  · exact EPost.error
  · rename_i v hv
    refine EPost.bind (P := fun a => jarr v = .ok a) (fun _ h => h) (fun a ha => ?_)
    refine (EPost.mapM _ (fun s => (∀ sj ∈ a.toList, SchemaSegmentTemps ⟨sj, segSchema⟩ anc) → s.SplineCmp → s.WellFormed) _
      (fun sj hsj => (parseSegment_post ctx isFault _ anc).mono (fun s h hall => h (hall sj hsj)))).mono ?_
    intro segs h hs s hmem
    exact h.2 s hmem (hs v a hv ha)

theorem parseLine_post (ctx : Ctx R) (isFault : Bool) (c : Cur) (tags : List String) (cull : Bool) :
    EPost (parseLine ctx isFault c tags cull) (fun r => SchemaLineTemps c → r.1.SplineCmp → r.1.WellFormed) := by
  unfold parseLine
  extract_lets sph
  refine EPost.bind (EPost.triv _) (fun name _ => ?_)
  refine EPost.bind (EPost.triv _) (fun tag _ => ?_)
  split
  refine EPost.bind (EPost.triv _) (fun coords _ => ?_)
  extract_lets n jp
  e_guard jp; rename_i hlen
  refine EPost.bind (Bezier.build_wf coords) (fun bz hbz => ?_)
  refine EPost.bind (EPost.triv _) (fun minD _ => ?_)
  refine EPost.bind (EPost.triv _) (fun maxD _ => ?_)
  refine EPost.bind (EPost.triv _) (fun dip _ => ?_)
  refine EPost.bind (P := fun segSchema => schemaAt c.schema ["segments", "items", "properties"] = .ok segSchema) (fun _ h => h)
    (fun segSchema hsegSchema => ?_)
  refine EPost.bind (parseSegments_post ctx isFault _ _ _) (fun defaultSegs hdef => ?_)
  e_guard0; rename_i hne
  refine EPost.bind (P := fun secs => secs.length = n ∧ ∀ sec ∈ secs, sec.length = defaultSegs.length ∧
      (SchemaLineTemps c → ∀ s ∈ sec, s.SplineCmp → s.WellFormed))
    ?_ (fun secs hsecs => ?_)
  · have hinit : (List.replicate n defaultSegs).length = n ∧
        ∀ sec ∈ List.replicate n defaultSegs, sec.length = defaultSegs.length ∧
          (SchemaLineTemps c → ∀ s ∈ sec, s.SplineCmp → s.WellFormed) := by
      refine ⟨by simp, ?_⟩
      intro sec hsec
      have : sec = defaultSegs := (List.mem_replicate.1 hsec).2
      subst this
      exact ⟨rfl, fun hs => hdef (hs.1 segSchema hsegSchema)⟩
    split
    · exact EPost.ok hinit
    · rename_i v hv
      refine EPost.bind (P := fun s2 => schemaAt c.schema ["sections", "items", "properties", "segments", "items", "properties"] = .ok s2)
        (fun _ h => h) (fun secSegSchema hs2 => ?_)
      refine EPost.bind (EPost.triv _) (fun secProps _ => ?_)
      refine EPost.bind (P := fun arr => jarr v = .ok arr) (fun _ h => h) (fun arr harr => ?_)
      refine EPost.foldlM_mem _ _ _ ?_ _ hinit
      intro acc sj hsj hacc
      extract_lets
      refine EPost.bind (EPost.triv _) (fun k _ => ?_)
      e_guard0; rename_i hk
      refine EPost.bind (parseSegments_post ctx isFault _ _ _) (fun segs hsegs => ?_)
      e_guard0; rename_i hsl
      refine EPost.pure ⟨by simp [hacc.1], ?_⟩
      intro sec hsec
      rcases List.mem_or_eq_of_mem_set hsec with h | h
      · exact hacc.2 sec h
      · subst h; exact ⟨bne_false_eq hsl, fun hs => hsegs (hs.2 v arr secSegSchema hv harr hs2 sj hsj)⟩
  · have hpos : 0 < defaultSegs.length := by
      simp only [beq_iff_eq] at hne
      omega
    refine EPost.pure (fun hs ht => ⟨by simpa using hlen, hsecs.1, ⟨defaultSegs.length, hpos, fun sec h => (hsecs.2 sec h).1⟩, hbz,
      fun sec h s hmem => (hsecs.2 sec h).2 hs s hmem (ht sec h s hmem)⟩)

end Gwb
