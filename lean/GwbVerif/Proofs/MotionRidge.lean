/-
Helpers for C08, part 6: `calculate_ridge_distance_and_spreading` (Cartesian) under a translation of all ridge coordinates together
with the query's surface coordinates.
-/
import GwbVerif.Proofs.MotionBezier
import GwbVerif.Model.Geometry.Ridge
namespace Gwb
open Scalar
set_option linter.unusedSectionVars false

section generic
variable {R : Type} [Scalar R]

/-- closest point of the segment `s0 s1` to `q` with the interpolated velocities (`endSub`: what the code takes at the far end) -/
def segClosest (s0 s1 : P2 R) (v0 v1 sub0 sub1 endSub : R) (q : P2 R) : P2 R × R × R :=
  let v := s1 - s0
  let w := q - s0
  let c1 := w.x * v.x + w.y * v.y
  let c := v.x * v.x + v.y * v.y
  if c1 ≤ 0 then (s0, v0, sub0)
  else if c ≤ c1 then (s1, v1, endSub)
  else (s0 + P2.smul (c1 / c) v, v0 + (v1 - v0) * (c1 / c), sub0 + (sub1 - sub0) * (c1 / c))

theorem ridgeSegment_eq (spherical : Bool) (nat : P3 R) (check other s0 s1 : P2 R) (v0 v1 sub0 sub1 : R) (first : Bool)
    (acc : RidgeAcc R) :
    ridgeSegment spherical nat check other s0 s1 v0 v1 sub0 sub1 first acc =
      (let t1 := segClosest s0 s1 v0 v1 sub0 sub1 sub1 check
       let t2 := segClosest s0 s1 v0 v1 sub0 sub1 sub1 other
       let dc := depthCoordinate spherical nat
       let cmp1 : P3 R := if spherical then ⟨dc, t1.1.x, t1.1.y⟩ else ⟨t1.1.x, t1.1.y, dc⟩
       let cmp2 : P3 R := if spherical then ⟨dc, t2.1.x, t2.1.y⟩ else ⟨t2.1.x, t2.1.y, dc⟩
       let d1 := distanceSameDepth spherical nat cmp1
       let d2 := distanceSameDepth spherical nat cmp2
       let mid := (0.5 : R) * (s0.x + s1.x)
       let r : R × R × R := if fabs (other.x - mid) < fabs (check.x - mid) then (d2, t2.2.1, t2.2.2) else (d1, t1.2.1, t1.2.2)
       if first ∨ r.1 < acc.distance then { acc with distance := r.1, spreading := r.2.1, subducting := r.2.2 } else acc) := by
  rfl

end generic

section field
variable {F : Type} [Field F] [LinearOrder F] [IsStrictOrderedRing F] (T : Transc F)

/-- the query's natural coordinates with the surface part translated (Cartesian) -/
def P3.shiftXY (v : P2 F) (n : P3 F) : P3 F := ⟨n.x + v.x, n.y + v.y, n.z⟩

theorem segClosest_shift (v s0 s1 : P2 F) (v0 v1 sub0 sub1 endSub : F) (q : P2 F) :
    @segClosest F (fieldScalar T) (P2.shift v s0) (P2.shift v s1) v0 v1 sub0 sub1 endSub (P2.shift v q) =
      (P2.shift v (@segClosest F (fieldScalar T) s0 s1 v0 v1 sub0 sub1 endSub q).1,
        (@segClosest F (fieldScalar T) s0 s1 v0 v1 sub0 sub1 endSub q).2) := by
  unfold segClosest
  simp only [P2.sub_shift]
  split
  · rfl
  · split
    · rfl
    · simp only [Prod.mk.injEq, and_true]
      show (⟨_, _⟩ : P2 F) = ⟨_, _⟩
      simp only [P2.shift_x, P2.shift_y, P2.mk.injEq]
      constructor
      · show s0.x + v.x + _ = s0.x + _ + v.x
        ring
      · show s0.y + v.y + _ = s0.y + _ + v.y
        ring

/-- one segment: the running minimum is updated in the same way -/
theorem ridgeSegment_shift (v : P2 F) (nat : P3 F) (check other s0 s1 : P2 F) (v0 v1 sub0 sub1 : F) (first : Bool)
    (acc : RidgeAcc F) :
    @ridgeSegment F (fieldScalar T) false (P3.shiftXY v nat) (P2.shift v check) (P2.shift v other) (P2.shift v s0) (P2.shift v s1)
        v0 v1 sub0 sub1 first acc =
      @ridgeSegment F (fieldScalar T) false nat check other s0 s1 v0 v1 sub0 sub1 first acc := by
  rw [@ridgeSegment_eq F (fieldScalar T), @ridgeSegment_eq F (fieldScalar T)]
  have hmid : ∀ a : F, @HSub.hSub F F F (@instHSub F (fieldScalar T).toSub) (a + v.x)
      (@HMul.hMul F F F (@instHMul F (fieldScalar T).toMul) (@OfScientific.ofScientific F (@Scalar.instOfScientific F (fieldScalar T)) 5 true 1)
        (@HAdd.hAdd F F F (@instHAdd F (fieldScalar T).toAdd) (s0.x + v.x) (s1.x + v.x))) =
      @HSub.hSub F F F (@instHSub F (fieldScalar T).toSub) a
      (@HMul.hMul F F F (@instHMul F (fieldScalar T).toMul) (@OfScientific.ofScientific F (@Scalar.instOfScientific F (fieldScalar T)) 5 true 1)
        (@HAdd.hAdd F F F (@instHAdd F (fieldScalar T).toAdd) s0.x s1.x)) := by
    intro a
    have h05 : (@OfScientific.ofScientific F (@Scalar.instOfScientific F (fieldScalar T)) 5 true 1) = 1 / 2 := by
      show ((OfScientific.ofScientific 5 true 1 : ℚ) : F) = 1 / 2
      norm_num
    rw [h05]
    show a + v.x - 1 / 2 * (s0.x + v.x + (s1.x + v.x)) = a - 1 / 2 * (s0.x + s1.x)
    ring
  simp only [segClosest_shift, Bool.false_eq_true, if_false, distanceSameDepth, depthCoordinate, P3.shiftXY, P2.shift_x, P2.shift_y,
    sub_shift_cancel]
  rw [hmid other.x, hmid check.x]

theorem ridgeSegments_shift (v : P2 F) (nat : P3 F) (check other : P2 F) (ridge : List (P2 F)) (vels : List F)
    (subVels : Option (List F)) (sub00 : F) (fuel i : Nat) (acc : RidgeAcc F) :
    @ridgeSegments F (fieldScalar T) false (P3.shiftXY v nat) (P2.shift v check) (P2.shift v other) (ridge.map (P2.shift v)) vels
        subVels sub00 fuel i acc =
      @ridgeSegments F (fieldScalar T) false nat check other ridge vels subVels sub00 fuel i acc := by
  induction fuel generalizing i acc with
  | zero => rfl
  | succ m ih =>
    unfold ridgeSegments
    simp only [List.length_map, idx_map, Except.map_bind_eq, ridgeSegment_shift, ih]

theorem relevantRidge_shift (v : P2 F) (ridges : List (List (P2 F))) (check other : P2 F) (fuel i : Nat) :
    @relevantRidge F (fieldScalar T) (ridges.map (List.map (P2.shift v))) (P2.shift v check) (P2.shift v other) fuel i =
      @relevantRidge F (fieldScalar T) ridges check other fuel i := by
  induction fuel generalizing i with
  | zero => rfl
  | succ m ih =>
    have hite : ∀ (c : Prop) [Decidable c] (a b : P2 F), (if c then P2.shift v a else P2.shift v b) = P2.shift v (if c then a else b) := by
      intro c _ a b; split <;> rfl
    unfold relevantRidge
    simp only [List.length_map, idx_map, Except.map_bind_eq, P2.shift_x, P2.shift_y, sub_shift_cancel, hite, ih]

/-- **the ridge kernel (Cartesian) is translation invariant**: all ridge coordinates and the surface part of the query's natural
coordinates moved by the same vector -/
theorem ridgeDistanceAndSpreading_shift (v : P2 F) (ridges : List (List (P2 F))) (vels : List (List F)) (nat : P3 F)
    (subVel : List (List F)) (migr : List F) :
    @ridgeDistanceAndSpreading F (fieldScalar T) false (ridges.map (List.map (P2.shift v))) vels (P3.shiftXY v nat) subVel migr =
      @ridgeDistanceAndSpreading F (fieldScalar T) false ridges vels nat subVel migr := by
  unfold ridgeDistanceAndSpreading
  have hsp : @surfacePoint F false (P3.shiftXY v nat) = P2.shift v (@surfacePoint F false nat) := rfl
  simp only [hsp, Bool.false_eq_true, if_false, List.length_map, idx_map, Except.map_bind_eq, relevantRidge_shift,
    ridgeSegments_shift]

end field
end Gwb
