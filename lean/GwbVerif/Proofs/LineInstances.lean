/-
Concrete instances for the satisfiability examples of C06: the real functions satisfy `PlaneLaws`; a *computable* copy `ratToy`
of `fieldScalar toyTransc` (equal to it, `ratToy_eq`) so that concrete slab / fault queries can be evaluated by the kernel
(`decide +kernel`: no axiom beyond the usual three, see `Audit/C06.lean`); and a small straight two-point trench `exLine`.
-/
import GwbVerif.Proofs.LineGeometry
import GwbVerif.Proofs.ModelInstances
namespace Gwb
open Scalar
set_option linter.unusedVariables false
set_option warn.classDefReducibility false

/-- the real functions satisfy the laws the plane geometry needs -/
theorem real_planeLaws : PlaneLaws realTransc where
  sin_sq_add_cos_sq x := by
    show Real.sin x * Real.sin x + Real.cos x * Real.cos x = 1
    rw [← sq, ← sq]; exact Real.sin_sq_add_cos_sq x
  sin_half_pi_sub x := by
    show Real.sin (1 / 2 * Real.pi - x) = Real.cos x
    rw [show (1 / 2 * Real.pi) = Real.pi / 2 by ring]; exact Real.sin_pi_div_two_sub x
  cos_half_pi_sub x := by
    show Real.cos (1 / 2 * Real.pi - x) = Real.sin x
    rw [show (1 / 2 * Real.pi) = Real.pi / 2 by ring]; exact Real.cos_pi_div_two_sub x
  sqrt_mul_self x := Real.sqrt_mul_self_eq_abs x
  tan_eq x _ := Real.tan_eq_sin_div_cos x

/-- the toy bundle over `ℚ` as a *computable* `Scalar` (the comparisons are `ℚ`'s own decision procedures), so that concrete
queries can be evaluated by the kernel -/
def ratToy : Scalar ℚ where
  ofNat n := (n : ℚ)
  ofScientific m s e := (OfScientific.ofScientific m s e : ℚ)
  decLt a b := inferInstance
  decLe a b := inferInstance
  beq a b := decide (a = b)
  sqrt := toyTransc.sqrt
  exp := toyTransc.exp
  log := toyTransc.log
  sin := toyTransc.sin
  cos := toyTransc.cos
  tan := toyTransc.tan
  asin := toyTransc.asin
  acos := toyTransc.acos
  atan := toyTransc.atan
  tanh := toyTransc.tanh
  erfc := toyTransc.erfc
  floor := toyTransc.floor
  ceil := toyTransc.ceil
  round := toyTransc.round
  atan2 := toyTransc.atan2
  pow := toyTransc.pow
  fmod := toyTransc.fmod
  pi := toyTransc.pi
  eps := toyTransc.eps
  dblMin := toyTransc.dblMin
  dblMax := toyTransc.dblMax
  inf := toyTransc.inf
  isNaN _ := false
  isFinite _ := true

/-- the computable copy *is* the proof instance (decidability instances are unique) -/
theorem ratToy_eq : fieldScalar toyTransc = ratToy := by
  unfold fieldScalar ratToy
  congr 1

def exSeg : Segment ℚ :=
  { length := 100, thickness := ⟨100, 100⟩, topTruncation := ⟨0, 0⟩, angle := ⟨45, 45⟩, temps := [], comps := [], grains := [], vels := [] }

/-- a straight two-point trench from `(0,0)` to `(0,3)` (one linearly parametrised Bézier piece), two equal sections of one
segment each (length 100, thickness 100, no top truncation), min depth 0, culling shortcuts off -/
def exLine (isFault : Bool) : LineFeature ℚ :=
  { name := "line", tag := 0, isFault := isFault, coords := [⟨0, 0⟩, ⟨0, 3⟩], reference := ⟨10, 0⟩, minDepth := 0, maxDepth := 1000,
    sections := [[exSeg], [exSeg]], bezier := ⟨[⟨0, 0⟩, ⟨0, 3⟩], [(⟨0, 1⟩, ⟨0, 2⟩)], [0, 0]⟩, cull := false }

/-- a Cartesian world -/
def exCtx : Ctx ℚ :=
  { coord := ⟨false, .none, 1000000000000⟩, potentialT := 1600, surfaceT := 293, forceSurfaceT := false, alpha := 0, cp := 1, kappa := 1,
    gravity := 10 }
/-- a query on the trench, at the feature's min depth -/
def exQ0 : Query ℚ := { pt := ⟨0, 3 / 2, 100⟩, nat := ⟨0, 3 / 2, 100⟩, depth := 0, gravityNorm := 10 }
/-- a query straight below the trench, 50 below the min depth -/
def exQ1 : Query ℚ := { pt := ⟨0, 3 / 2, 50⟩, nat := ⟨0, 3 / 2, 50⟩, depth := 50, gravityNorm := 10 }

theorem exists_of_check {α : Type} (x : Except Err (Option α)) (p : α → Bool)
    (h : (match x with | .ok (some v) => p v | _ => false) = true) : ∃ v, x = .ok (some v) ∧ p v = true := by
  match x, h with
  | .ok (some v), h => exact ⟨v, rfl, h⟩

/-- the point on the trench at min depth is covered by the slab, at distance 0 below and 0 along the surface, half-way between
the two sections -/
theorem ex_slab_member : ∃ h, @LineFeature.covers ℚ ratToy (exLine false) exCtx exQ0 = .ok (some h) ∧
    (decide (h.pd.distanceFromPlane = 0) && decide (h.pd.distanceAlongPlane = 0) && decide (h.pd.fractionOfSection = 1 / 2)) = true := by
  apply exists_of_check
  decide +kernel

/-- the point straight below the trench is covered by the fault (toy libm: the "surface" hangs vertically), at distance 0 and a
positive distance along the plane -/
theorem ex_fault_member : ∃ h, @LineFeature.coversBody ℚ (fieldScalar toyTransc) (exLine true) exCtx exQ1 = .ok (some h) ∧
    (decide (h.pd.distanceFromPlane = 0) && decide (h.pd.distanceAlongPlane > 0)) = true := by
  rw [ratToy_eq]
  apply exists_of_check
  decide +kernel

/-- the real square root satisfies the laws the Cartesian frame needs -/
theorem real_sqrtLaws : SqrtLaws realTransc where
  sqrt_nonneg x _ := Real.sqrt_nonneg x
  sqrt_mul_sqrt x hx := Real.mul_self_sqrt hx

/-- the closest-point routine on the straight trench of `exLine`, for the surface point `(1, 3/2)`: the foot `(0, 3/2)` on piece 0 -/
theorem ex_frame_cp : ∃ cp, @Bezier.closestPoint ℚ (fieldScalar toyTransc) (exLine false).bezier false ⟨1, 3 / 2⟩ = .ok (some cp) ∧
    (decide (cp.point.x = 0) && decide (cp.point.y = 3 / 2) && decide (cp.index = 0)) = true := by
  rw [ratToy_eq]
  apply exists_of_check
  decide +kernel

end Gwb
