/-
The grains blend of slabs and faults, `mat3_cast(slerp(quat_cast A, quat_cast B, f))`, on whole grain blocks
(joins `Proofs/Quaternion.lean` — the four-branch round trip, `slerp` — with `Proofs/LineOps.lean` — `selfSlerp`, `blendGrains`).

1. `selfSlerp_rot`: a proper rotation blended with itself is itself (`|q|² = 1 > 1 − eps` ⇒ linear branch ⇒ `mix q q f = q` ⇒ round trip);
   `toBlock_ofBlock`, `writeBlock_readBlock`: a grains block read and unrolled again is the block; writing back what was read changes nothing.
2. `slerp_trig_dot_left/right`: in the trigonometric branch `slerp x y a · x = cos(a θ)`, `slerp x y a · (±y) = cos((1−a) θ)`,
   `θ = acos |x·y|` — the blend lies on the great circle through `x` and `±y`, at angle `aθ` from `x` and `(1−a)θ` from `±y`.
3. `blendGrains_getElem`: the entries of `blendGrains`.
-/
import GwbVerif.Proofs.Quaternion
import GwbVerif.Proofs.LineOps
import GwbVerif.Proofs.Blocks
namespace Gwb
open Scalar
set_option linter.unusedSectionVars false
set_option linter.unusedVariables false

/-! ## 0. blocks (every `Scalar R`) -/

section anyScalar
variable {R : Type} [Scalar R]

/-- chunks of nine unrolled again are the list -/
theorem flatten_chunkM3 (k : Nat) (xs : List R) (h : xs.length = 9 * k) : ((chunkM3 k xs).map M3.toList).flatten = xs := by
  induction k generalizing xs with
  | zero =>
    have : xs = [] := List.length_eq_zero_iff.mp (by omega)
    subst this; rfl
  | succ k ih =>
    unfold chunkM3
    have h9 : (xs.take 9).length = 9 := by simp; omega
    match hx : xs.take 9, h9 with
    | [a, b, c, d, e, f, g, h', i], _ =>
      simp only [M3.ofList?, List.map_cons, List.flatten_cons, M3.toList]
      rw [ih (xs.drop 9) (by simp; omega), ← hx, List.take_append_drop]

/-- a grains block of `k` grains (`10 k` numbers) split into sizes and matrices and unrolled again is the block -/
theorem toBlock_ofBlock (k : Nat) (blk : List R) (h : blk.length = k * 10) : (Grains.ofBlock k blk).toBlock = blk := by
  unfold Grains.toBlock Grains.ofBlock
  simp only
  rw [flatten_chunkM3 k _ (by simp; omega), List.take_append_drop]

/-- writing back the entries just read changes nothing -/
theorem writeBlock_readBlock (e n : Nat) (out : List R) (h : e + n ≤ out.length) : writeBlock e (readBlock e n out) out = out := by
  unfold writeBlock readBlock
  have hl : ((out.drop e).take n).length = n := by simp; omega
  rw [hl, List.append_assoc]
  have : out.drop (e + n) = (out.drop e).drop n := by rw [List.drop_drop]
  rw [this, List.take_append_drop, List.take_append_drop]

theorem readBlock_length (e n : Nat) (out : List R) (h : e + n ≤ out.length) : (readBlock e n out).length = n := by
  unfold readBlock; simp; omega

/-- writing a block of the right length leaves the output as it was iff the block is what was there -/
theorem writeBlock_eq_self_iff (e n : Nat) (blk out : List R) (h : e + n ≤ out.length) (hb : blk.length = n) :
    writeBlock e blk out = out ↔ blk = readBlock e n out := by
  constructor
  · intro hw
    have h0 := writeBlock_readBlock e n out h
    have hw' := hw.trans h0.symm
    unfold writeBlock at hw'
    rw [hb, readBlock_length e n out h, List.append_assoc, List.append_assoc] at hw'
    have h1 := List.append_cancel_left hw'
    exact List.append_cancel_right h1
  · intro hw; rw [hw]; exact writeBlock_readBlock e n out h

theorem M3.toList_inj (m m' : M3 R) (h : m.toList = m'.toList) : m = m' := by
  cases m; cases m'
  simp only [M3.toList, List.cons.injEq, and_true] at h
  obtain ⟨h0, h1, h2, h3, h4, h5, h6, h7, h8⟩ := h
  subst h0 h1 h2 h3 h4 h5 h6 h7 h8
  rfl

/-- unrolling a list of matrices is injective on lists of the same length -/
theorem flatten_toList_inj (ms ms' : List (M3 R)) (hl : ms.length = ms'.length)
    (h : (ms.map M3.toList).flatten = (ms'.map M3.toList).flatten) : ms = ms' := by
  induction ms generalizing ms' with
  | nil =>
    cases ms' with
    | nil => rfl
    | cons _ _ => simp at hl
  | cons m ms ih =>
    cases ms' with
    | nil => simp at hl
    | cons m' ms' =>
      simp only [List.map_cons, List.flatten_cons] at h
      obtain ⟨ha, hb⟩ := List.append_inj h (by simp [M3.toList])
      rw [M3.toList_inj m m' ha, ih ms' (by simpa using hl) hb]

end anyScalar

section field
variable {F : Type} [Field F] [LinearOrder F] [IsStrictOrderedRing F] (T : Transc F)

/-! ## 1. a proper rotation blended with itself -/

/-- a unit quaternion blended with itself is itself (needs only `0 < eps`) -/
theorem slerp_self_of_unit (heps : 0 < T.eps) (x : Quat F) (hx : qnorm2 x = 1) (sf : F) : @slerp F (fieldScalar T) x x sf = x := by
  apply slerp_self_of_near_unit T x sf
  unfold qnorm2 at hx
  rw [hx]; linarith

/-- `mat3_cast(slerp(quat_cast a, quat_cast a, sf)) = a` for every proper rotation `a` and every `sf` -/
theorem selfSlerp_rot (hsq : SqrtLaw T) (heps : 0 < T.eps) (a : M3 F) (ha : a.Rot) (sf : F) :
    @selfSlerp F (fieldScalar T) a sf = a := by
  unfold selfSlerp
  rw [slerp_self_of_unit T heps _ (quatCast_unit T hsq a ha) sf]
  exact quat_roundtrip T hsq a ha

/-- a list of proper rotations is left alone by the self blend -/
theorem map_selfSlerp_rot (hsq : SqrtLaw T) (heps : 0 < T.eps) (ms : List (M3 F)) (h : ∀ a ∈ ms, a.Rot) (sf : F) :
    ms.map (fun a => @selfSlerp F (fieldScalar T) a sf) = ms := by
  induction ms with
  | nil => rfl
  | cons m ms ih =>
    rw [List.map_cons, selfSlerp_rot T hsq heps m (h m (List.mem_cons_self ..)) sf,
      ih (fun a ha => h a (List.mem_cons_of_mem _ ha))]

/-! ## 2. the blend lies on the great circle -/

variable {T} in
/-- `sin((1−a)θ) + cos θ · sin(aθ) = sin θ · cos(aθ)` -/
theorem SlerpLaws.geodesic_left (L : SlerpLaws T) (a θ : F) :
    T.sin ((1 - a) * θ) + T.cos θ * T.sin (a * θ) = T.sin θ * T.cos (a * θ) := by
  have e1 := L.sin_add ((1 - a) * θ) (a * θ)
  have e2 := L.cos_add ((1 - a) * θ) (a * θ)
  rw [show (1 - a) * θ + a * θ = θ by ring] at e1 e2
  have hb := L.sin_sq_add_cos_sq (a * θ)
  linear_combination T.sin (a * θ) * e2 - T.cos (a * θ) * e1 - T.sin ((1 - a) * θ) * hb

variable {T} in
/-- `cos θ · sin((1−a)θ) + sin(aθ) = sin θ · cos((1−a)θ)` -/
theorem SlerpLaws.geodesic_right (L : SlerpLaws T) (a θ : F) :
    T.cos θ * T.sin ((1 - a) * θ) + T.sin (a * θ) = T.sin θ * T.cos ((1 - a) * θ) := by
  have e1 := L.sin_add ((1 - a) * θ) (a * θ)
  have e2 := L.cos_add ((1 - a) * θ) (a * θ)
  rw [show (1 - a) * θ + a * θ = θ by ring] at e1 e2
  have ha := L.sin_sq_add_cos_sq ((1 - a) * θ)
  linear_combination T.sin ((1 - a) * θ) * e2 - T.cos ((1 - a) * θ) * e1 - T.sin (a * θ) * ha

/-- trigonometric branch, unit quaternions: `slerp x y a · x = cos(a θ)` with `θ = acos |x·y|` -/
theorem slerp_trig_dot_left (L : SlerpLaws T) (x y : Quat F) (a : F) (hx : qnorm2 x = 1) (hy : qnorm2 y = 1)
    (hb : ¬ slerpC x y > 1 - T.eps) :
    qdot (@slerp F (fieldScalar T) x y a) x = T.cos (a * T.acos (slerpC x y)) := by
  rw [slerp_field, if_neg hb]
  have hsa := L.sin_acos_ne_zero _ (slerpC_nonneg x y) hb
  have hc1 : slerpC x y ≤ 1 := by have := L.eps_pos; linarith [not_lt.mp hb]
  have hcos := L.cos_acos _ (by linarith [slerpC_nonneg x y]) hc1
  have hid := L.geodesic_left a (T.acos (slerpC x y))
  rw [hcos] at hid
  have hd := qdot_slerpZ x y
  generalize slerpZ x y = z at *
  generalize slerpC x y = c at *
  generalize T.cos (a * T.acos c) = ca at *
  generalize T.sin ((1 - a) * T.acos c) = s1 at *
  generalize T.sin (a * T.acos c) = s2 at *
  generalize T.sin (T.acos c) = sa at *
  simp only [qnorm2, qdot] at *
  rw [div_mul_eq_mul_div, div_mul_eq_mul_div, div_mul_eq_mul_div, div_mul_eq_mul_div, ← add_div, ← add_div, ← add_div,
    div_eq_iff hsa]
  linear_combination s1 * hx + s2 * hd + hid

/-- trigonometric branch, unit quaternions: `slerp x y a · (±y) = cos((1−a) θ)` (`−y` when `x·y < 0`) -/
theorem slerp_trig_dot_right (L : SlerpLaws T) (x y : Quat F) (a : F) (hx : qnorm2 x = 1) (hy : qnorm2 y = 1)
    (hb : ¬ slerpC x y > 1 - T.eps) :
    qdot (@slerp F (fieldScalar T) x y a) (slerpZ x y) = T.cos ((1 - a) * T.acos (slerpC x y)) := by
  rw [slerp_field, if_neg hb]
  have hsa := L.sin_acos_ne_zero _ (slerpC_nonneg x y) hb
  have hc1 : slerpC x y ≤ 1 := by have := L.eps_pos; linarith [not_lt.mp hb]
  have hcos := L.cos_acos _ (by linarith [slerpC_nonneg x y]) hc1
  have hid := L.geodesic_right a (T.acos (slerpC x y))
  rw [hcos] at hid
  have hz := qnorm2_slerpZ x y
  rw [hy] at hz
  have hd := qdot_slerpZ x y
  generalize slerpZ x y = z at *
  generalize slerpC x y = c at *
  generalize T.cos ((1 - a) * T.acos c) = ca at *
  generalize T.sin ((1 - a) * T.acos c) = s1 at *
  generalize T.sin (a * T.acos c) = s2 at *
  generalize T.sin (T.acos c) = sa at *
  simp only [qnorm2, qdot] at *
  rw [div_mul_eq_mul_div, div_mul_eq_mul_div, div_mul_eq_mul_div, div_mul_eq_mul_div, ← add_div, ← add_div, ← add_div,
    div_eq_iff hsa]
  linear_combination s1 * hd + s2 * hz + hid

/-- the inverse law of `acos` that turns "`x·y = cos θ`" into "`acos (x·y) = θ`" -/
structure AcosLaws (T : Transc F) : Prop where
  acos_cos : ∀ x, 0 ≤ x → x ≤ T.pi → T.acos (T.cos x) = x

theorem slerpC_of_nonneg (x y : Quat F) (h : 0 ≤ qdot x y) : slerpC x y = qdot x y ∧ slerpZ x y = y := by
  unfold slerpC slerpZ
  rw [if_neg (not_lt.mpr h), if_neg (not_lt.mpr h)]
  exact ⟨rfl, rfl⟩

end field

theorem quatReal_acosLaws : AcosLaws quatRealTransc where
  acos_cos x h0 h1 := Real.arccos_cos h0 h1

end Gwb
