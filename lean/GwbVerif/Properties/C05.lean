/-
C05 — Models documented by a closed-form expression return that expression.

Reference formulas: `GwbVerif/Spec/Models.lean` (one closed form per documented model, each citing the lines of
`doc/world_builder_declarations_open.md` it is written from).  Range test of an area model: `DepthRange.locals … =
ok (some (mn, mx))` means "inside the model's own min/max depth, `mn`/`mx` the local bounds", `ok none` "outside".

Proved for **every** `Scalar R` (no laws, so also for the `Float` instance that is diffed against the library):
* `C05_out_of_range`            every ranged temperature model returns the incoming temperature outside its range, and passes on
                                an error of the range test;
* `C05_uniform`                 `uniform` temperature = `applyOp op old temperature`;
* `C05_composition_uniform`     listed label → `applyOp op old fraction`; unlisted → 0 for `replace`, untouched otherwise; outside → untouched;
* `C05_velocity_uniform_raw`    component-wise `applyOp`;  `C05_grains_uniform`  all grains get the listed matrix and size (`< 0` → `1/k`);
* `C05_halfspace_code`, `C05_plate_model_unfold`, `C05_plate_model_constant_age_unfold`, `C05_ridge_error`, `C05_gaussian_code`:
  the `get` functions unfolded (ridge result and table position as given);
* slab / fault: `C05_line_uniform`, `C05_line_composition_uniform`, `C05_line_adiabatic_code`, `C05_line_linear_out`, `C05_line_smooth_unlisted`.

Proved over every ordered field `F` through `fieldScalar T` (real arithmetic; libm laws only where named):
* `C05_adiabatic`, `C05_adiabatic_sentinel`   `Tp·exp(α·g·d/cp)`; the parser's `x < 0 ? global : x` is `Spec.orGlobal` by definition;
* `C05_linear_code`             what `linear` computes (one code for all three area features);
  `C05_linear_full`             every area copy (continental plate, oceanic plate, mantle layer) returns the documented line
                                `Spec.areaLinear`; `C05_linear_example` (plate 50–150 km, model 0–200 km, 300 → 1300 K: 300 K at the
                                local top, 1300 K at the local bottom, 800 K half-way);
* `C05_chapman_code`, `C05_chapman_full`   `T_top + (q/k)Δz − (A/2k)Δz²` for every top temperature, `T_top` adiabatic at the local top
                                when negative; `C05_chapman_example` (top −1 K gives the positive adiabat);
* `C05_halfspace`               `T_b + (T_t − T_b)·erfc(d/(2√(κ·age)))` for `age > 0`, `T_b` for `age ≤ 0`, `age = distance/spreading`;
* `C05_plate_model`, `C05_plate_model_constant_age`   the loops are the documented 100-term sums;
* `C05_gaussian_upper_bound` (the table position for ascending depths), `C05_gaussian_table`, `C05_gaussian` (needs `pow x 2 = x·x`);
* `C05_line_linear`, `C05_line_adiabatic`, `C05_slab_smooth`;
  `C05_fault_smooth_code`, `C05_fault_smooth_full` (the fault's `smooth` is the blend from the centre to the side fraction, for
  every side fraction), `C05_fault_smooth_example` (centre 1, side 1 gives 1 everywhere);
* `C05_uniform_grains_total`    the sizes of a `< 0` entry sum to 1.

History: earlier versions of this file kept `C05_linear_full`, `C05_chapman_full` and `C05_fault_smooth_full` as `Prop`s and
REFUTED them for the code as it then was (continental `linear` offset by `d − mn`: 800 K instead of 300 K at the local top;
`chapman` using the raw negative top temperature; fault `smooth` returning the blend minus the side fraction).  The three
defects were fixed upstream —
  'fix: continental plate linear temperature measured depth from the model's min depth instead of the local top',
  'fix: chapman geotherm ignored the adiabatic top temperature it had just computed',
  'fix: fault smooth composition dropped the side fraction' —
the model follows the fixed code, and the three statements are now theorems; the former counterexamples are kept as positive
examples (`C05_linear_example`, `C05_chapman_example`, `C05_fault_smooth_example`).

NOT proved here: that `ridgeDistanceAndSpreading` is the distance to the nearest ridge segment (the ridge result is a hypothesis);
anything about `Surface.localValue` (the local bounds are whatever the range test returns); the parser (the sentinel
resolution of `adiabatic` is quoted, not derived from `parseAreaTemp`); `random` composition and the random grains models
(no closed form); the mass-conserving and plate-model slab temperatures; the gap between real and double arithmetic.
-/
import GwbVerif.Proofs.Models
import GwbVerif.Proofs.ModelInstances
import GwbVerif.Proofs.QM
import Mathlib.Algebra.BigOperators.Group.List.Basic
namespace Gwb
open Scalar
set_option linter.unusedSectionVars false
set_option linter.unusedVariables false
set_option linter.unusedSimpArgs false
set_option linter.unnecessarySeqFocus false

/-! ## every `Scalar` (in particular the `Float` instance that is diffed against the library) -/
section generic
variable {R G : Type} [Scalar R] [RandGen G R]

/-- **C05** a ranged temperature model (all but the plume's `gaussian`) applies only inside its own range: outside it the
incoming temperature is returned; an error of the range test is the model's answer -/
theorem C05_out_of_range (m : TempModel R) (rng : DepthRange R) (lf : Bool) (ctx : Ctx R) (q : Query R) (old fMin fMax rel : R)
    (h : m.rangeOf = some (rng, lf)) :
    (rng.locals ctx q lf = .ok none → m.get ctx q old fMin fMax rel = .ok old) ∧
    (∀ e, rng.locals ctx q lf = .error e → m.get ctx q old fMin fMax rel = .error e) :=
  ⟨TempModel.get_out m rng lf ctx q old fMin fMax rel h, fun e => TempModel.get_err m rng lf ctx q old fMin fMax rel e h⟩

/-- **C05** `uniform` temperature inside its range: the configured temperature, combined by the operation -/
theorem C05_uniform (rng : DepthRange R) (op : Op) (t : R) (lf : Bool) (ctx : Ctx R) (q : Query R) (old fMin fMax rel : R) (p : R × R)
    (hl : rng.locals ctx q lf = .ok (some p)) :
    (TempModel.uniform rng op t lf).get ctx q old fMin fMax rel = .ok (applyOp op old (Spec.uniformT t)) := by
  simp [TempModel.get, hl, bind, Except.bind, pure, Except.pure, Spec.uniformT]

/-- **C05** `uniform` composition: a listed label gets its fraction (first occurrence) combined by the operation — an index
beyond the fractions list is the model's `internal` error (undefined behaviour in the C++; the parser rejects unequal lengths);
an unlisted label is set to zero by `replace` and left alone by the other operations; outside the range nothing happens -/
theorem C05_composition_uniform (rng : DepthRange R) (op : Op) (comps : List Nat) (fr : List R) (ctx : Ctx R) (q : Query R) (n : Nat) (old : R) (g : G) :
    (∀ p, rng.locals ctx q false = .ok (some p) → n ∈ comps →
      (CompModel.uniform rng op comps fr).get ctx q n old g =
        (match Spec.listed comps fr n with
         | some f => .ok (Spec.paintComposition op old (some f), g)
         | none => .error .internal)) ∧
    (∀ p, rng.locals ctx q false = .ok (some p) → n ∉ comps →
      (CompModel.uniform rng op comps fr).get ctx q n old g = .ok (Spec.paintComposition op old none, g)) ∧
    (rng.locals ctx q false = .ok none → (CompModel.uniform rng op comps fr).get ctx q n old g = .ok (old, g)) := by
  refine ⟨?_, ?_, ?_⟩
  · intro p hl hn
    simp only [CompModel.get, QM.bind_apply, hl, liftE_ok, findComposition_of_mem comps n hn, Spec.listed, hn, if_true, idx]
    cases fr[comps.idxOf n]? with
    | none => simp [liftE_error]
    | some f => simp [liftE_ok, QM.pure_apply, Spec.paintComposition]
  · intro p hl hn
    simp only [CompModel.get, QM.bind_apply, hl, liftE_ok, findComposition_of_not_mem comps n hn, Spec.paintComposition]
    cases op <;> simp [QM.pure_apply]
  · intro hl
    simp only [CompModel.get, QM.bind_apply, hl, liftE_ok, QM.pure_apply]

/-- **C05** `uniform raw` velocity: the three components as given, combined component-wise; outside the range untouched -/
theorem C05_velocity_uniform_raw (rng : DepthRange R) (op : Op) (v : P3 R) (lf : Bool) (ctx : Ctx R) (q : Query R) (old : P3 R) :
    (∀ p, rng.locals ctx q lf = .ok (some p) → (VelModel.uniformRaw rng op v lf).get ctx q old = .ok (Spec.uniformVelocity op old v)) ∧
    (rng.locals ctx q lf = .ok none → (VelModel.uniformRaw rng op v lf).get ctx q old = .ok old) := by
  constructor
  · intro p hl; simp [VelModel.get, hl, bind, Except.bind, pure, Except.pure, Spec.uniformVelocity]
  · intro hl; simp [VelModel.get, hl, bind, Except.bind, pure, Except.pure]

/-- **C05** `uniform` grains: every grain gets the matrix and the size listed for the composition (`size < 0`: `1/k`);
unlisted compositions and points outside the range keep their grains -/
theorem C05_grains_uniform (rng : DepthRange R) (comps : List Nat) (mats : List (M3 R)) (sizes : List R) (ctx : Ctx R) (q : Query R) (n : Nat)
    (old : Grains R) (g : G) :
    (∀ p mat size, rng.locals ctx q false = .ok (some p) → Spec.listed comps mats n = some mat → Spec.listed comps sizes n = some size →
      old.mats.length = old.sizes.length →
      (GrainsModel.uniform rng comps mats sizes).get ctx q n old g = .ok (Spec.uniformGrains old.sizes.length mat size, g)) ∧
    (∀ p, rng.locals ctx q false = .ok (some p) → n ∉ comps → (GrainsModel.uniform rng comps mats sizes).get ctx q n old g = .ok (old, g)) ∧
    (rng.locals ctx q false = .ok none → (GrainsModel.uniform rng comps mats sizes).get ctx q n old g = .ok (old, g)) := by
  refine ⟨?_, ?_, ?_⟩
  · intro p mat size hl hm hs hlen
    have hn : n ∈ comps := by
      by_contra hn; simp [Spec.listed, hn] at hm
    simp only [Spec.listed, hn, if_true] at hm hs
    simp only [GrainsModel.get, QM.bind_apply, hl, liftE_ok, findComposition_of_mem comps n hn, idx, hm, hs, QM.pure_apply,
      Spec.uniformGrains, List.map_const', hlen]
  · intro p hl hn
    simp only [GrainsModel.get, QM.bind_apply, hl, liftE_ok, findComposition_of_not_mem comps n hn, QM.pure_apply]
  · intro hl
    simp only [GrainsModel.get, QM.bind_apply, hl, liftE_ok, QM.pure_apply]

/-- **C05** `half space model` unfolded, the ridge result `rp` as given (every `Scalar`) -/
theorem C05_halfspace_code (rng : DepthRange R) (op : Op) (top bottom : R) (ridge : RidgeSpec R) (ctx : Ctx R) (q : Query R)
    (old fMin fMax rel : R) (p : R × R) (rp : RidgeParams R)
    (hl : rng.locals ctx q false = .ok (some p)) (hr : ridgeQuery ctx q rng ridge = .ok rp) :
    (TempModel.halfSpace rng op top bottom ridge).get ctx q old fMin fMax rel =
      .ok (applyOp op old
        (let botL := if bottom < 0 then adiabat ctx.potentialT ctx.alpha q.gravityNorm ctx.cp q.depth else bottom
         let age := rp.distance / rp.spreading
         botL + (if age > 0 then (top - botL) * erfc (q.depth / ((2 : R) * sqrt (ctx.kappa * age))) else 0.0))) := by
  unfold ridgeQuery at hr
  simp only [TempModel.get, hl, hr, bind, Except.bind, pure, Except.pure]

/-- **C05** an error of the ridge query is the answer of both ridge-based models -/
theorem C05_ridge_error (rng : DepthRange R) (op : Op) (top bottom : R) (ridge : RidgeSpec R) (ctx : Ctx R) (q : Query R)
    (old fMin fMax rel : R) (p : R × R) (e : Err)
    (hl : rng.locals ctx q false = .ok (some p)) (hr : ridgeQuery ctx q rng ridge = .error e) :
    (TempModel.halfSpace rng op top bottom ridge).get ctx q old fMin fMax rel = .error e ∧
    (TempModel.plateModel rng op top bottom ridge).get ctx q old fMin fMax rel = .error e := by
  unfold ridgeQuery at hr
  constructor <;> simp only [TempModel.get, hl, hr, bind, Except.bind, pure, Except.pure]

/-- **C05** `plate model` inside its range: `applyOp op old (plateSeries …)` started from the linear term `T_t + (T_b − T_t)·d/D` -/
theorem C05_plate_model_unfold (rng : DepthRange R) (op : Op) (top bottom : R) (ridge : RidgeSpec R) (ctx : Ctx R) (q : Query R)
    (old fMin fMax rel : R) (p : R × R) (rp : RidgeParams R)
    (hl : rng.locals ctx q false = .ok (some p)) (hr : ridgeQuery ctx q rng ridge = .ok rp) :
    (TempModel.plateModel rng op top bottom ridge).get ctx q old fMin fMax rel =
      .ok (applyOp op old
        (let botL := if bottom < 0 then adiabat ctx.potentialT ctx.alpha q.gravityNorm ctx.cp q.depth else bottom
         plateSeries q.depth rng.maxDepth ctx.kappa rp.spreading (rp.distance / rp.spreading) (botL - top) 100 1
           (top + (botL - top) * (q.depth / rng.maxDepth)))) := by
  unfold ridgeQuery at hr
  simp only [TempModel.get, hl, hr, bind, Except.bind, pure, Except.pure]

/-- **C05** `plate model constant age` inside its range: `applyOp op old (plateSeriesConstAge …)` started from the linear term -/
theorem C05_plate_model_constant_age_unfold (rng : DepthRange R) (op : Op) (top bottom plateAge : R) (ctx : Ctx R) (q : Query R)
    (old fMin fMax rel : R) (p : R × R) (hl : rng.locals ctx q false = .ok (some p)) :
    (TempModel.plateModelConstantAge rng op top bottom plateAge).get ctx q old fMin fMax rel =
      .ok (applyOp op old
        (let botL := if bottom < 0 then adiabat ctx.potentialT ctx.alpha q.gravityNorm ctx.cp q.depth else bottom
         plateSeriesConstAge q.depth rng.maxDepth ctx.kappa plateAge (botL - top) 100 1
           (top + (botL - top) * (q.depth / rng.maxDepth)))) := by
  simp only [TempModel.get, hl, bind, Except.bind, pure, Except.pure]

/-- **C05** the plume's `gaussian` unfolded: inside the feature's depths and the unit relative distance the centre temperature
`ct` (adiabatic if negative) times `exp(−rel/(2·pow(σ,2)))`; outside untouched.  `up` is the result of `std::upper_bound`,
`(ct, sg)` that of the table look-up `gaussianTable` -/
theorem C05_gaussian_code (op : Op) (depths centerT sigmas : List R) (ctx : Ctx R) (q : Query R) (old fMin fMax rel : R) :
    (q.depth ≤ fMax ∧ q.depth ≥ fMin ∧ rel ≤ 1.0 →
      ∀ up ct sg, upperBound depths q.depth (depths.length + 1) 0 depths.length = .ok up →
        gaussianTable depths centerT sigmas q.depth up = .ok (ct, sg) →
        (TempModel.gaussian op depths centerT sigmas).get ctx q old fMin fMax rel =
          .ok (applyOp op old
            ((if ct < 0 then adiabat ctx.potentialT ctx.alpha q.gravityNorm ctx.cp q.depth else ct) *
              exp (-rel / ((2.0 : R) * pow sg 2))))) ∧
    (¬ (q.depth ≤ fMax ∧ q.depth ≥ fMin ∧ rel ≤ 1.0) → (TempModel.gaussian op depths centerT sigmas).get ctx q old fMin fMax rel = .ok old) := by
  constructor
  · intro h up ct sg hu ht
    unfold gaussianTable at ht
    simp only [TempModel.get]
    rw [if_pos h]
    simp only [hu, bind, Except.bind] at ht ⊢
    rw [ht]
    rfl
  · intro h
    simp only [TempModel.get]
    rw [if_neg h]
    rfl

/-! ### slab and fault models -/

/-- **C05** slab / fault `uniform` temperature (the fault tests `|distance|`) -/
theorem C05_line_uniform (mn mx : R) (op : Op) (t : R) (isFault : Bool) (ctx : Ctx R) (depth g : R) (pd : PlaneDist R) (old : R) :
    let x := lineDist isFault pd.distanceFromPlane
    (x ≤ mx ∧ x ≥ mn → (LineTemp.uniform mn mx op t).get isFault ctx depth g pd old = applyOp op old (Spec.uniformT t)) ∧
    (¬ (x ≤ mx ∧ x ≥ mn) → (LineTemp.uniform mn mx op t).get isFault ctx depth g pd old = old) := by
  intro x
  constructor <;> intro h <;> simp only [LineTemp.get] <;> [rw [if_pos h]; rw [if_neg h]] <;> rfl

/-- **C05** slab / fault `uniform` composition: as for the area features -/
theorem C05_line_composition_uniform (mn mx : R) (op : Op) (comps : List Nat) (fr : List R) (isFault : Bool) (pd : PlaneDist R) (n : Nat) (old : R) :
    let x := lineDist isFault pd.distanceFromPlane
    (x ≤ mx ∧ x ≥ mn → n ∈ comps → (LineComp.uniform mn mx op comps fr).get isFault pd n old =
        (match Spec.listed comps fr n with
         | some f => .ok (Spec.paintComposition op old (some f))
         | none => .error .internal)) ∧
    (x ≤ mx ∧ x ≥ mn → n ∉ comps → (LineComp.uniform mn mx op comps fr).get isFault pd n old = .ok (Spec.paintComposition op old none)) ∧
    (¬ (x ≤ mx ∧ x ≥ mn) → (LineComp.uniform mn mx op comps fr).get isFault pd n old = .ok old) := by
  intro x
  refine ⟨?_, ?_, ?_⟩
  · intro h hn
    simp only [LineComp.get]
    rw [if_pos h]
    simp only [findComposition_of_mem comps n hn, Spec.listed, hn, if_true, idx]
    cases fr[comps.idxOf n]? with
    | none => rfl
    | some f => rfl
  · intro h hn
    simp only [LineComp.get]
    rw [if_pos h]
    simp only [findComposition_of_not_mem comps n hn, Spec.paintComposition]
    cases op <;> simp
  · intro h
    simp only [LineComp.get]
    rw [if_neg h]

/-- **C05** slab / fault `adiabatic`: the adiabat at the point's **depth**, inside the model's distance range (slab: distance
from the slab top, fault: |distance from the fault centre|; the fault copy used to test the depth — fixed upstream, 'fix: fault
adiabatic temperature tested the query depth against its distance range') -/
theorem C05_line_adiabatic_code (mn mx : R) (op : Op) (tp alpha cp : R) (isFault : Bool) (ctx : Ctx R) (depth g : R) (pd : PlaneDist R) (old : R) :
    let x := lineDist isFault pd.distanceFromPlane
    (x ≤ mx ∧ x ≥ mn → (LineTemp.adiabatic mn mx op tp alpha cp).get isFault ctx depth g pd old = applyOp op old (adiabat tp alpha g cp depth)) ∧
    (¬ (x ≤ mx ∧ x ≥ mn) → (LineTemp.adiabatic mn mx op tp alpha cp).get isFault ctx depth g pd old = old) := by
  intro x
  constructor <;> intro h <;> simp only [LineTemp.get]
  · exact if_pos h
  · exact if_neg h

/-- **C05** slab / fault `linear` outside its distance range: untouched -/
theorem C05_line_linear_out (mn mx : R) (op : Op) (top bottom : R) (isFault : Bool) (ctx : Ctx R) (depth g : R) (pd : PlaneDist R) (old : R)
    (h : ¬ (lineDist isFault pd.distanceFromPlane ≤ mx ∧ lineDist isFault pd.distanceFromPlane ≥ mn)) :
    (LineTemp.linear mn mx op top bottom).get isFault ctx depth g pd old = old := by
  simp only [LineTemp.get]; rw [if_neg h]

/-- **C05** slab / fault `smooth` for an unlisted label: zero for `replace`, untouched otherwise (the fault copy has no range
test at all); a slab point outside the range is untouched -/
theorem C05_line_smooth_unlisted (mn mx side : R) (op : Op) (comps : List Nat) (topF botF : List R) (isFault : Bool) (pd : PlaneDist R) (n : Nat) (old : R)
    (hn : n ∉ comps) :
    (isFault = true ∨ (pd.distanceFromPlane ≤ mx ∧ pd.distanceFromPlane ≥ mn) →
      (LineComp.smooth mn mx side op comps topF botF).get isFault pd n old = .ok (Spec.paintComposition op old none)) ∧
    (isFault = false → ¬ (pd.distanceFromPlane ≤ mx ∧ pd.distanceFromPlane ≥ mn) →
      (LineComp.smooth mn mx side op comps topF botF).get isFault pd n old = .ok old) := by
  constructor
  · intro h
    cases isFault
    · have h' := h.resolve_left (by simp)
      simp only [LineComp.get, Bool.false_eq_true, if_false]
      rw [if_pos h']
      simp only [findComposition_of_not_mem comps n hn, Spec.paintComposition]
      cases op <;> simp
    · simp only [LineComp.get, if_true, findComposition_of_not_mem comps n hn, Spec.paintComposition]
      cases op <;> simp
  · intro hf h
    subst hf
    simp only [LineComp.get, Bool.false_eq_true, if_false]
    rw [if_neg h]

end generic

/-! ## ordered fields -/
section field
variable {F : Type} [Field F] [LinearOrder F] [IsStrictOrderedRing F]

/-- the hypothesis "inside the range" / "outside the range" is satisfiable: constant bounds 0 … 200 km, depths 50 km and 250 km -/
example : @DepthRange.locals ℚ (fieldScalar toyTransc) (constRange 0 200000) witnessCtx (witnessQuery 50000) false = .ok (some (0, 200000)) ∧
    @DepthRange.locals ℚ (fieldScalar toyTransc) (constRange 0 200000) witnessCtx (witnessQuery 250000) false = .ok none := by
  constructor
  · exact constRange_locals toyTransc 0 200000 false _ _ (by norm_num [witnessQuery]) (by norm_num [witnessQuery])
  · rw [@DepthRange.locals_constant ℚ (fieldScalar toyTransc) _ _ _ _ rfl rfl]
    have : ¬ (@LE.le ℚ (fieldScalar toyTransc).toLE (witnessQuery (250000 : ℚ)).depth (@DepthRange.maxDepth ℚ (constRange 0 200000)) ∧
        @GE.ge ℚ (fieldScalar toyTransc).toLE (witnessQuery (250000 : ℚ)).depth (@DepthRange.minDepth ℚ (constRange 0 200000))) := by
      intro h
      have h1 : (250000 : ℚ) ≤ 200000 := h.1
      norm_num at h1
    rw [if_neg this]

/-- **C05** `adiabatic` inside its range: `Tp·exp(α·g·d/cp)` with the model's three constants and the gravity norm of the query -/
theorem C05_adiabatic (T : Transc F) (rng : DepthRange F) (op : Op) (tp alpha cp : F) (ctx : Ctx F) (q : Query F) (old fMin fMax rel : F) (p : F × F)
    (hl : @DepthRange.locals F (fieldScalar T) rng ctx q false = .ok (some p)) :
    @TempModel.get F (fieldScalar T) (.adiabatic rng op tp alpha cp) ctx q old fMin fMax rel =
      .ok (@applyOp F (fieldScalar T) op old (tp * T.exp (alpha * q.gravityNorm * q.depth / cp))) := by
  simp only [TempModel.get, hl, bind, Except.bind, pure, Except.pure, adiabat_eq_spec, spec_adiabatic_field]

/-- the parser resolves the three sentinels when it builds the model (`parseAreaTemp`, `"adiabatic"` branch:
`if tp < 0 then ctx.potentialT else tp`, …): that expression is `Spec.orGlobal` by definition -/
example {R : Type} [Scalar R] (x glob : R) : (if x < 0 then glob else x) = Spec.orGlobal x glob := rfl

/-- **C05** `adiabatic` as parsed from possibly negative parameters (doc: "If the value is lower then zero, the global value is
used."): the adiabat with each negative constant replaced by the world's -/
theorem C05_adiabatic_sentinel (T : Transc F) (rng : DepthRange F) (op : Op) (tp alpha cp : F) (ctx : Ctx F) (q : Query F) (old fMin fMax rel : F) (p : F × F)
    (hl : @DepthRange.locals F (fieldScalar T) rng ctx q false = .ok (some p)) :
    @TempModel.get F (fieldScalar T)
        (.adiabatic rng op (@Spec.orGlobal F (fieldScalar T) tp ctx.potentialT) (@Spec.orGlobal F (fieldScalar T) alpha ctx.alpha)
          (@Spec.orGlobal F (fieldScalar T) cp ctx.cp))
        ctx q old fMin fMax rel =
      .ok (@applyOp F (fieldScalar T) op old
        (@Spec.adiabatic F (fieldScalar T) (@Spec.orGlobal F (fieldScalar T) tp ctx.potentialT) (@Spec.orGlobal F (fieldScalar T) alpha ctx.alpha)
          q.gravityNorm (@Spec.orGlobal F (fieldScalar T) cp ctx.cp) q.depth)) := by
  simp only [TempModel.get, hl, bind, Except.bind, pure, Except.pure, adiabat_eq_spec]

example : @Spec.orGlobal ℚ (fieldScalar toyTransc) (-1) 1600 = 1600 ∧ @Spec.orGlobal ℚ (fieldScalar toyTransc) 1500 1600 = 1500 :=
  ⟨spec_orGlobal_neg toyTransc (-1) 1600 (by norm_num), spec_orGlobal_nonneg toyTransc 1500 1600 (by norm_num)⟩

/-- **C05** what `linear` of an area feature computes (one code for continental plate, oceanic plate and mantle layer since the
upstream fix): between the local top `zT = max(fMin, mn)` and bottom `zB = min(fMax, mx)`, boundary temperatures resolved at
those depths, the top temperature on a degenerate range, with the code's association `(d − zT)·((T_b − T_t)/(zB − zT))` -/
theorem C05_linear_code (T : Transc F) (rng : DepthRange F) (op : Op) (top bottom : F) (ctx : Ctx F) (q : Query F) (old fMin fMax rel mn mx : F)
    (hl : @DepthRange.locals F (fieldScalar T) rng ctx q false = .ok (some (mn, mx))) :
    @TempModel.get F (fieldScalar T) (.linear rng op top bottom) ctx q old fMin fMax rel =
      .ok (@applyOp F (fieldScalar T) op old
        (let zT := max fMin mn
         let zB := min fMax mx
         let tT := @Spec.orAdiabatic F (fieldScalar T) top ctx.potentialT ctx.alpha q.gravityNorm ctx.cp zT
         let tB := @Spec.orAdiabatic F (fieldScalar T) bottom ctx.potentialT ctx.alpha q.gravityNorm ctx.cp zB
         if zB - zT < 10 * T.eps then tT else tT + (q.depth - zT) * ((tB - tT) / (zB - zT)))) := by
  simp only [TempModel.get, hl, bind, Except.bind, pure, Except.pure, adiabat_eq_spec]
  congr 2
  unfold Spec.orAdiabatic
  sfield
  split_ifs <;> simp

/-- **C05** `linear` of every area feature (continental plate, oceanic plate, mantle layer) returns the documented line
`top + (d − max(fMin,mn))·(bottom − top)/(min(fMax,mx) − max(fMin,mn))` with the adiabatic sentinels and the degenerate branch
(`Spec.areaLinear`).  Earlier versions of this file kept this as a `Prop` and refuted it for the continental copy; the defect
was fixed upstream ('fix: continental plate linear temperature measured depth from the model's min depth instead of the
local top') and the statement is now a theorem -/
theorem C05_linear_full (T : Transc F) (rng : DepthRange F) (op : Op) (top bottom : F) (ctx : Ctx F) (q : Query F)
    (old fMin fMax rel mn mx : F)
    (hl : @DepthRange.locals F (fieldScalar T) rng ctx q false = .ok (some (mn, mx))) :
    @TempModel.get F (fieldScalar T) (.linear rng op top bottom) ctx q old fMin fMax rel =
      .ok (@applyOp F (fieldScalar T) op old
        (@Spec.areaLinear F (fieldScalar T) top bottom ctx.potentialT ctx.alpha q.gravityNorm ctx.cp fMin fMax mn mx q.depth)) := by
  rw [C05_linear_code T rng op top bottom ctx q old fMin fMax rel mn mx hl, spec_areaLinear_field]
  congr 2
  dsimp only
  split_ifs
  · rfl
  · ring

/-- **C05** a non-vacuous instance (the former counterexample): plate 50–150 km, model 0–200 km, 300 → 1300 K, any `ε` up to
10 km.  At the local top (50 km) the model returns 300 K, at the local bottom (150 km) 1300 K, half-way 800 K — before the fix
the continental copy returned 800 K, 1800 K and 1300 K there -/
theorem C05_linear_example (T : Transc F) (heps : 10 * T.eps ≤ 100000) :
    @TempModel.get F (fieldScalar T) (.linear (constRange 0 200000) .replace 300 1300) witnessCtx (witnessQuery 50000) 0 50000 150000 0
      = .ok 300 ∧
    @TempModel.get F (fieldScalar T) (.linear (constRange 0 200000) .replace 300 1300) witnessCtx (witnessQuery 150000) 0 50000 150000 0
      = .ok 1300 ∧
    @TempModel.get F (fieldScalar T) (.linear (constRange 0 200000) .replace 300 1300) witnessCtx (witnessQuery 100000) 0 50000 150000 0
      = .ok 800 := by
  have hl : ∀ d : F, 0 ≤ d → d ≤ 200000 →
      @DepthRange.locals F (fieldScalar T) (constRange 0 200000) witnessCtx (witnessQuery d) false = .ok (some (0, 200000)) :=
    fun d h1 h2 => constRange_locals T 0 200000 false _ _ h1 h2
  have hmax : max (50000 : F) 0 = 50000 := max_eq_left (by norm_num)
  have hmin : min (150000 : F) 200000 = 150000 := min_eq_left (by norm_num)
  have hnd : ¬ ((150000 : F) - 50000 < 10 * T.eps) := by
    rw [not_lt]; have : (150000 : F) - 50000 = 100000 := by norm_num
    rw [this]; exact heps
  refine ⟨?_, ?_, ?_⟩
  · rw [C05_linear_code T _ _ _ _ _ _ _ _ _ _ _ _ (hl 50000 (by norm_num) (by norm_num))]
    simp only [hmax, hmin, if_neg hnd, applyOp_field, witnessQuery]
    rw [spec_orAdiabatic_nonneg T 300 _ _ _ _ _ (by norm_num), spec_orAdiabatic_nonneg T 1300 _ _ _ _ _ (by norm_num)]
    norm_num
  · rw [C05_linear_code T _ _ _ _ _ _ _ _ _ _ _ _ (hl 150000 (by norm_num) (by norm_num))]
    simp only [hmax, hmin, if_neg hnd, applyOp_field, witnessQuery]
    rw [spec_orAdiabatic_nonneg T 300 _ _ _ _ _ (by norm_num), spec_orAdiabatic_nonneg T 1300 _ _ _ _ _ (by norm_num)]
    norm_num
  · rw [C05_linear_code T _ _ _ _ _ _ _ _ _ _ _ _ (hl 100000 (by norm_num) (by norm_num))]
    simp only [hmax, hmin, if_neg hnd, applyOp_field, witnessQuery]
    rw [spec_orAdiabatic_nonneg T 300 _ _ _ _ _ (by norm_num), spec_orAdiabatic_nonneg T 1300 _ _ _ _ _ (by norm_num)]
    norm_num

example : 10 * toyTransc.eps ≤ 100000 := by norm_num [toyTransc]

/-- **C05** what `chapman` computes: `T_top + (q/k)·Δz − (A/(2k))·Δz²`, `Δz = d − max(fMin, mn)`, where `T_top` is the configured
top temperature or — negative — the adiabat at the local top (since the upstream fix the value computed for the sentinel is
the one that is used) -/
theorem C05_chapman_code (T : Transc F) (rng : DepthRange F) (op : Op) (top flux k heat : F) (ctx : Ctx F) (q : Query F)
    (old fMin fMax rel mn mx : F)
    (hl : @DepthRange.locals F (fieldScalar T) rng ctx q false = .ok (some (mn, mx))) :
    @TempModel.get F (fieldScalar T) (.chapman rng op top flux k heat) ctx q old fMin fMax rel =
      .ok (@applyOp F (fieldScalar T) op old
        (@Spec.chapman F (fieldScalar T)
          (@Spec.orAdiabatic F (fieldScalar T) top ctx.potentialT ctx.alpha q.gravityNorm ctx.cp (max fMin mn))
          flux k heat (q.depth - max fMin mn))) := by
  simp only [TempModel.get, hl, bind, Except.bind, pure, Except.pure, adiabat_eq_spec]
  congr 2
  unfold Spec.chapman Spec.orAdiabatic
  sfield
  ring

/-- **C05** `chapman` returns the documented geotherm for **every** top temperature, the sentinel included ("If the value is
below zero, then an adiabatic temperature is used.").  Earlier versions of this file kept this as a `Prop` and refuted it for
`top < 0`; the defect was fixed upstream ('fix: chapman geotherm ignored the adiabatic top temperature it had just computed')
and the statement is now a theorem -/
theorem C05_chapman_full (T : Transc F) (rng : DepthRange F) (op : Op) (top flux k heat : F) (ctx : Ctx F) (q : Query F)
    (old fMin fMax rel mn mx : F)
    (hl : @DepthRange.locals F (fieldScalar T) rng ctx q false = .ok (some (mn, mx))) :
    @TempModel.get F (fieldScalar T) (.chapman rng op top flux k heat) ctx q old fMin fMax rel =
      .ok (@applyOp F (fieldScalar T) op old
        (@Spec.chapmanDocumented F (fieldScalar T) top flux k heat ctx.potentialT ctx.alpha q.gravityNorm ctx.cp fMin mn q.depth)) := by
  rw [C05_chapman_code T rng op top flux k heat ctx q old fMin fMax rel mn mx hl]
  unfold Spec.chapmanDocumented
  simp only [smax_eq]

/-- **C05** a non-vacuous instance with the sentinel (the former counterexample): top temperature −1 K, no heat flux or
production, query at the surface of a 0–200 km model: the result is the adiabat `1600·exp(0·10·0/1)` of the witness world, a
positive temperature when `exp` is positive — before the fix it was −1 K -/
theorem C05_chapman_example (T : Transc F) (hexp : ∀ x, 0 < T.exp x) :
    ∃ v, @TempModel.get F (fieldScalar T) (.chapman (constRange 0 200000) .replace (-1) 0 1 0) witnessCtx (witnessQuery 0) 0 0 200000 0 = .ok v ∧
      v = 1600 * T.exp (0 * 10 * max 0 0 / 1) ∧ 0 < v := by
  have hl : @DepthRange.locals F (fieldScalar T) (constRange 0 200000) witnessCtx (witnessQuery 0) false = .ok (some (0, 200000)) :=
    constRange_locals T 0 200000 false _ _ (by simp [witnessQuery]) (by simp [witnessQuery])
  refine ⟨_, C05_chapman_code T _ _ _ _ _ _ _ _ _ _ _ _ _ _ hl, ?_, ?_⟩
  · simp only [applyOp_field, spec_chapman_field, spec_orAdiabatic_neg T (-1) _ _ _ _ _ (by norm_num), witnessCtx, witnessQuery]
    ring
  · simp only [applyOp_field, spec_chapman_field, spec_orAdiabatic_neg T (-1) _ _ _ _ _ (by norm_num), witnessCtx, witnessQuery]
    have := hexp (0 * 10 * max 0 0 / 1)
    nlinarith

example : ∀ x, 0 < toyTransc.exp x := fun _ => by norm_num [toyTransc]

/-- **C05** `half space model`: `T_b + (T_t − T_b)·erfc(d/(2·√(κ·age)))` for `age > 0`, `T_b` for `age ≤ 0`, where
`age = distance/spreading` of the ridge result and `T_b` is the bottom temperature or — negative — the adiabat at the depth -/
theorem C05_halfspace (T : Transc F) (rng : DepthRange F) (op : Op) (top bottom : F) (ridge : RidgeSpec F) (ctx : Ctx F) (q : Query F)
    (old fMin fMax rel : F) (p : F × F) (rp : RidgeParams F)
    (hl : @DepthRange.locals F (fieldScalar T) rng ctx q false = .ok (some p))
    (hr : @ridgeQuery F (fieldScalar T) ctx q rng ridge = .ok rp) :
    @TempModel.get F (fieldScalar T) (.halfSpace rng op top bottom ridge) ctx q old fMin fMax rel =
      .ok (@applyOp F (fieldScalar T) op old
        (@Spec.halfSpace F (fieldScalar T) top
          (@Spec.orAdiabatic F (fieldScalar T) bottom ctx.potentialT ctx.alpha q.gravityNorm ctx.cp q.depth)
          ctx.kappa (@Spec.ridgeAge F (fieldScalar T) rp.distance rp.spreading) q.depth)) := by
  rw [@C05_halfspace_code F (fieldScalar T) rng op top bottom ridge ctx q old fMin fMax rel p rp hl hr]
  congr 2
  unfold Spec.halfSpace Spec.orAdiabatic Spec.ridgeAge
  simp only [adiabat_eq_spec]
  sfield
  split_ifs <;> simp

/-- **C05** `plate model`: the loop is the documented sum with `N = 100` terms -/
theorem C05_plate_model (T : Transc F) (rng : DepthRange F) (op : Op) (top bottom : F) (ridge : RidgeSpec F) (ctx : Ctx F) (q : Query F)
    (old fMin fMax rel : F) (p : F × F) (rp : RidgeParams F)
    (hl : @DepthRange.locals F (fieldScalar T) rng ctx q false = .ok (some p))
    (hr : @ridgeQuery F (fieldScalar T) ctx q rng ridge = .ok rp) :
    @TempModel.get F (fieldScalar T) (.plateModel rng op top bottom ridge) ctx q old fMin fMax rel =
      .ok (@applyOp F (fieldScalar T) op old
        (@Spec.plate F (fieldScalar T) 100 top
          (@Spec.orAdiabatic F (fieldScalar T) bottom ctx.potentialT ctx.alpha q.gravityNorm ctx.cp q.depth)
          ctx.kappa rp.spreading (@Spec.ridgeAge F (fieldScalar T) rp.distance rp.spreading) rng.maxDepth q.depth)) := by
  rw [@C05_plate_model_unfold F (fieldScalar T) rng op top bottom ridge ctx q old fMin fMax rel p rp hl hr]
  congr 2
  dsimp only
  rw [plateSeries_sum, spec_plate_field]
  unfold Spec.orAdiabatic Spec.ridgeAge
  simp only [adiabat_eq_spec]
  sfield
  ring

/-- **C05** `plate model constant age`: the loop is the documented sum with `N = 100` terms -/
theorem C05_plate_model_constant_age (T : Transc F) (rng : DepthRange F) (op : Op) (top bottom plateAge : F) (ctx : Ctx F) (q : Query F)
    (old fMin fMax rel : F) (p : F × F)
    (hl : @DepthRange.locals F (fieldScalar T) rng ctx q false = .ok (some p)) :
    @TempModel.get F (fieldScalar T) (.plateModelConstantAge rng op top bottom plateAge) ctx q old fMin fMax rel =
      .ok (@applyOp F (fieldScalar T) op old
        (@Spec.plateConstAge F (fieldScalar T) 100 top
          (@Spec.orAdiabatic F (fieldScalar T) bottom ctx.potentialT ctx.alpha q.gravityNorm ctx.cp q.depth)
          ctx.kappa plateAge rng.maxDepth q.depth)) := by
  rw [@C05_plate_model_constant_age_unfold F (fieldScalar T) rng op top bottom plateAge ctx q old fMin fMax rel p hl]
  congr 2
  dsimp only
  rw [plateSeriesConstAge_sum, spec_plateConstAge_field]
  unfold Spec.orAdiabatic
  simp only [adiabat_eq_spec]
  sfield
  ring

/-- **C05** (gaussian) the position used by the plume's table look-up: for ascending `depths` the call of `std::upper_bound`
succeeds and returns the number `up` of leading entries `≤ depth`: all entries before `up` are `≤ depth`, all from `up` on are
`> depth` -/
theorem C05_gaussian_upper_bound (T : Transc F) (depths : List F) (d : F) (hs : Ascending depths) :
    ∃ up, @upperBound F (fieldScalar T) depths d (depths.length + 1) 0 depths.length = .ok up ∧ up ≤ depths.length ∧
      (∀ j a, j < up → depths[j]? = some a → a ≤ d) ∧ (∀ j a, up ≤ j → depths[j]? = some a → d < a) := by
  obtain ⟨r, hr, _, h2, h3, h4⟩ := upperBound_spec T depths d hs (depths.length + 1) 0 depths.length (by omega) (by omega)
  refine ⟨r, hr, by omega, fun j a hj => h3 j a (Nat.zero_le _) hj, fun j a hj hja => h4 j a hj ?_ hja⟩
  rw [Nat.zero_add]
  by_contra hcon
  rw [List.getElem?_eq_none (by omega)] at hja
  simp at hja

/-- **C05** (gaussian) the table look-up in the vocabulary of the documentation: end values outside the listed depths, linear
interpolation between the two neighbouring depths inside -/
theorem C05_gaussian_table (T : Transc F) (depths centerT sigmas : List F) (d : F) (up : ℕ) :
    (up = 0 → ∀ c s, centerT[0]? = some c → sigmas[0]? = some s →
      @gaussianTable F (fieldScalar T) depths centerT sigmas d up = .ok (c, s)) ∧
    (up ≠ 0 → up = depths.length → ∀ c s, centerT[centerT.length - 1]? = some c → sigmas[sigmas.length - 1]? = some s →
      @gaussianTable F (fieldScalar T) depths centerT sigmas d up = .ok (c, s)) ∧
    (up ≠ 0 → up ≠ depths.length → ∀ d0 d1 c0 c1 s0 s1, depths[up - 1]? = some d0 → depths[up]? = some d1 →
      centerT[up - 1]? = some c0 → centerT[up]? = some c1 → sigmas[up - 1]? = some s0 → sigmas[up]? = some s1 →
      @gaussianTable F (fieldScalar T) depths centerT sigmas d up =
        .ok (@Spec.lerp F (fieldScalar T) d0 d1 c0 c1 d, @Spec.lerp F (fieldScalar T) d0 d1 s0 s1 d)) := by
  refine ⟨?_, ?_, ?_⟩
  · intro h c s hc hs
    simp [gaussianTable, h, front, idx, hc, hs, bind, Except.bind, pure, Except.pure]
  · intro h0 h c s hc hs
    unfold gaussianTable
    rw [if_neg h0, if_pos h]
    simp [back, idx, hc, hs, bind, Except.bind, pure, Except.pure]
  · intro h0 h d0 d1 c0 c1 s0 s1 hd0 hd1 hc0 hc1 hs0 hs1
    simp only [gaussianTable, h0, h, if_false, idx, hd0, hd1, hc0, hc1, hs0, hs1, bind, Except.bind, pure, Except.pure]
    simp only [spec_lerp_field]
    sfield
    congr 2 <;> ring

/-- **C05** `gaussian` (plume): `T_c·exp(−r²/(2σ²))`, `r²` the squared relative distance handed over by the plume, `T_c` adiabatic if
negative; needs `pow x 2 = x·x` -/
theorem C05_gaussian (T : Transc F) (hpow : ∀ x, T.pow x 2 = x * x) (op : Op) (depths centerT sigmas : List F) (ctx : Ctx F) (q : Query F)
    (old fMin fMax rel : F) (hin : q.depth ≤ fMax ∧ fMin ≤ q.depth ∧ rel ≤ 1) (up : ℕ) (ct sg : F)
    (hu : @upperBound F (fieldScalar T) depths q.depth (depths.length + 1) 0 depths.length = .ok up)
    (ht : @gaussianTable F (fieldScalar T) depths centerT sigmas q.depth up = .ok (ct, sg)) :
    @TempModel.get F (fieldScalar T) (.gaussian op depths centerT sigmas) ctx q old fMin fMax rel =
      .ok (@applyOp F (fieldScalar T) op old
        (@Spec.gaussian F (fieldScalar T) (@Spec.orAdiabatic F (fieldScalar T) ct ctx.potentialT ctx.alpha q.gravityNorm ctx.cp q.depth) sg rel)) := by
  have hin' : @LE.le F (fieldScalar T).toLE q.depth fMax ∧ @GE.ge F (fieldScalar T).toLE q.depth fMin ∧
      @LE.le F (fieldScalar T).toLE rel (@OfScientific.ofScientific F (@Scalar.instOfScientific F (fieldScalar T)) 10 true 1) := by
    rw [lit_1_0]; exact hin
  rw [(@C05_gaussian_code F (fieldScalar T) op depths centerT sigmas ctx q old fMin fMax rel).1 hin' up ct sg hu ht]
  congr 2
  unfold Spec.gaussian Spec.orAdiabatic
  simp only [adiabat_eq_spec]
  sfield
  rw [hpow]

/-- a non-trivial instance of the hypotheses of `C05_gaussian`: depths 0 and 100 km, query at 50 km -/
example : (∀ x, toyTransc.pow x 2 = x * x) ∧
    @upperBound ℚ (fieldScalar toyTransc) [0, 100000] 50000 3 0 2 = .ok 1 ∧
    @gaussianTable ℚ (fieldScalar toyTransc) [0, 100000] [1700, 1900] [1/4, 1/2] 50000 1 = .ok (1800, 3/8) := by
  refine ⟨fun _ => rfl, ?_, ?_⟩
  · simp [upperBound, idx, bind, Except.bind]
    sfield
    norm_num
  · have := (C05_gaussian_table toyTransc [0, 100000] [1700, 1900] [1/4, 1/2] 50000 1).2.2 (by norm_num) (by simp)
      0 100000 1700 1900 (1/4) (1/2) rfl rfl rfl rfl rfl rfl
    rw [this, spec_lerp_field, spec_lerp_field]
    norm_num

/-- **C05** slab / fault `linear`: the line between the two distances, sentinels as adiabats evaluated at those distances -/
theorem C05_line_linear (T : Transc F) (mn mx : F) (op : Op) (top bottom : F) (isFault : Bool) (ctx : Ctx F) (depth g : F) (pd : PlaneDist F) (old : F)
    (h : @lineDist F (fieldScalar T) isFault pd.distanceFromPlane ≤ mx ∧ mn ≤ @lineDist F (fieldScalar T) isFault pd.distanceFromPlane)
    (hw : ¬ (mx - mn < 10 * T.eps)) :
    @LineTemp.get F (fieldScalar T) (.linear mn mx op top bottom) isFault ctx depth g pd old =
      @applyOp F (fieldScalar T) op old
        (@Spec.lineLinear F (fieldScalar T) top bottom ctx.potentialT ctx.alpha g ctx.cp mn mx (@lineDist F (fieldScalar T) isFault pd.distanceFromPlane)) := by
  simp only [LineTemp.get]
  have h' : @LE.le F (fieldScalar T).toLE (@lineDist F (fieldScalar T) isFault pd.distanceFromPlane) mx ∧
      @GE.ge F (fieldScalar T).toLE (@lineDist F (fieldScalar T) isFault pd.distanceFromPlane) mn := h
  rw [if_pos h']
  congr 1
  unfold Spec.lineLinear Spec.linearBetween Spec.orAdiabatic
  simp only [adiabat_eq_spec]
  sfield
  rw [if_neg hw]
  ring

/-- **C05** slab / fault `linear` on a degenerate range (`max − min < 10 ε`, in particular `min = max`): the top (centre) temperature, as the area
copies return it (the unguarded `0 * (x / 0)` was NaN in the code until the `fix:` commit recorded in KNOWN_FINDINGS) -/
theorem C05_line_linear_degenerate (T : Transc F) (mn mx : F) (op : Op) (top bottom : F) (isFault : Bool) (ctx : Ctx F) (depth g : F) (pd : PlaneDist F) (old : F)
    (h : @lineDist F (fieldScalar T) isFault pd.distanceFromPlane ≤ mx ∧ mn ≤ @lineDist F (fieldScalar T) isFault pd.distanceFromPlane)
    (hw : mx - mn < 10 * T.eps) :
    @LineTemp.get F (fieldScalar T) (.linear mn mx op top bottom) isFault ctx depth g pd old =
      @applyOp F (fieldScalar T) op old (@Spec.orAdiabatic F (fieldScalar T) top ctx.potentialT ctx.alpha g ctx.cp mn) := by
  simp only [LineTemp.get]
  have h' : @LE.le F (fieldScalar T).toLE (@lineDist F (fieldScalar T) isFault pd.distanceFromPlane) mx ∧
      @GE.ge F (fieldScalar T).toLE (@lineDist F (fieldScalar T) isFault pd.distanceFromPlane) mn := h
  rw [if_pos h']
  congr 1
  unfold Spec.orAdiabatic
  simp only [adiabat_eq_spec]
  sfield
  rw [if_pos hw]
  ring

/-- **C05** slab / fault `adiabatic`: `Tp·exp(α·g·depth/cp)` -/
theorem C05_line_adiabatic (T : Transc F) (mn mx : F) (op : Op) (tp alpha cp : F) (isFault : Bool) (ctx : Ctx F) (depth g : F) (pd : PlaneDist F) (old : F)
    (h : @lineDist F (fieldScalar T) isFault pd.distanceFromPlane ≤ mx ∧ mn ≤ @lineDist F (fieldScalar T) isFault pd.distanceFromPlane) :
    @LineTemp.get F (fieldScalar T) (.adiabatic mn mx op tp alpha cp) isFault ctx depth g pd old =
      @applyOp F (fieldScalar T) op old (tp * T.exp (alpha * g * depth / cp)) := by
  have h' : @LE.le F (fieldScalar T).toLE (@lineDist F (fieldScalar T) isFault pd.distanceFromPlane) mx ∧
      @GE.ge F (fieldScalar T).toLE (@lineDist F (fieldScalar T) isFault pd.distanceFromPlane) mn := h
  rw [(@C05_line_adiabatic_code F (fieldScalar T) mn mx op tp alpha cp isFault ctx depth g pd old).1 h', adiabat_eq_spec, spec_adiabatic_field]

/-- **C05** slab `smooth`: the `tanh` blend from the top to the bottom fraction -/
theorem C05_slab_smooth (T : Transc F) (mn mx side : F) (op : Op) (comps : List Nat) (topF botF : List F) (pd : PlaneDist F) (n : Nat) (old : F)
    (h : pd.distanceFromPlane ≤ mx ∧ mn ≤ pd.distanceFromPlane) (hn : n ∈ comps) :
    @LineComp.get F (fieldScalar T) (.smooth mn mx side op comps topF botF) false pd n old =
      (match Spec.listed comps topF n, Spec.listed comps botF n with
       | some t, some b => .ok (@applyOp F (fieldScalar T) op old (@Spec.smoothSlab F (fieldScalar T) t b mn side pd.distanceFromPlane))
       | _, _ => .error .internal) := by
  have h' : @LE.le F (fieldScalar T).toLE pd.distanceFromPlane mx ∧ @GE.ge F (fieldScalar T).toLE pd.distanceFromPlane mn := h
  simp only [LineComp.get, Bool.false_eq_true, if_false]
  rw [if_pos h']
  simp only [findComposition_of_mem comps n hn, Spec.listed, hn, if_true, idx]
  cases topF[comps.idxOf n]? with
  | none => rfl
  | some t =>
    cases botF[comps.idxOf n]? with
    | none => rfl
    | some b =>
      simp only [bind, Except.bind, pure, Except.pure]
      congr 2
      unfold Spec.smoothSlab
      sfield
      have harg : 10 * (pd.distanceFromPlane - side / 2 - mn) / side = 10 * (pd.distanceFromPlane - mn - side / 2) / side := by ring
      rw [harg]
      ring

/-- **C05** what the fault's `smooth` computes for a listed label, missing table entries included: the `tanh` blend from the
centre fraction to the side fraction (no range test in the fault copy) -/
theorem C05_fault_smooth_code (T : Transc F) (mn mx side : F) (op : Op) (comps : List Nat) (cF sF : List F) (pd : PlaneDist F) (n : Nat) (old : F)
    (hn : n ∈ comps) :
    @LineComp.get F (fieldScalar T) (.smooth mn mx side op comps cF sF) true pd n old =
      (match Spec.listed comps cF n, Spec.listed comps sF n with
       | some c, some s => .ok (@applyOp F (fieldScalar T) op old (@Spec.smoothFault F (fieldScalar T) c s side pd.distanceFromPlane))
       | _, _ => .error .internal) := by
  simp only [LineComp.get, if_true]
  simp only [findComposition_of_mem comps n hn, Spec.listed, hn, if_true, idx]
  cases cF[comps.idxOf n]? with
  | none => rfl
  | some c =>
    cases sF[comps.idxOf n]? with
    | none => rfl
    | some s =>
      simp only [bind, Except.bind, pure, Except.pure]
      congr 2
      unfold Spec.smoothFault
      sfield
      ring

/-- **C05** the fault's `smooth` returns the documented blend `s + (c − s)·(1 − tanh(10·(x − side/2)/side))/2` from the centre
fraction `c` to the side fraction `s`, for every side fraction.  Earlier versions of this file kept this as a `Prop` and
refuted it for `s ≠ 0` (the code returned the blend minus `s`); the defect was fixed upstream ('fix: fault smooth composition
dropped the side fraction') and the statement is now a theorem -/
theorem C05_fault_smooth_full (T : Transc F) (mn mx side : F) (op : Op) (comps : List Nat) (cF sF : List F) (pd : PlaneDist F) (n : Nat)
    (old c s : F) (hn : n ∈ comps) (hc : Spec.listed comps cF n = some c) (hs : Spec.listed comps sF n = some s) :
    @LineComp.get F (fieldScalar T) (.smooth mn mx side op comps cF sF) true pd n old =
      .ok (@applyOp F (fieldScalar T) op old (@Spec.smoothFault F (fieldScalar T) c s side pd.distanceFromPlane)) := by
  rw [C05_fault_smooth_code T mn mx side op comps cF sF pd n old hn, hc, hs]

/-- **C05** a non-vacuous instance (the former counterexample): centre fraction 1 and side fraction 1 give 1 at every distance,
whatever `tanh` is — before the fix the code returned 0 -/
theorem C05_fault_smooth_example (T : Transc F) (side : F) (pd : PlaneDist F) :
    @LineComp.get F (fieldScalar T) (.smooth 0 0 side .replace [0] [1] [1]) true pd 0 0 = .ok 1 := by
  rw [C05_fault_smooth_full T 0 0 side .replace [0] [1] [1] pd 0 0 1 1 (by simp) (by simp [Spec.listed]) (by simp [Spec.listed])]
  simp [applyOp_field, spec_smoothFault_field]

/-- **C05** `uniform` grains with a negative size entry: `k` grains of size `1/k`, total 1 (doc: "the size will be set so that the
total is equal to 1") -/
theorem C05_uniform_grains_total (T : Transc F) (k : ℕ) (hk : 0 < k) (mat : M3 F) (size : F) (hs : size < 0) :
    (@Spec.uniformGrains F (fieldScalar T) k mat size).sizes.sum = 1 ∧
    (@Spec.uniformGrains F (fieldScalar T) k mat size).sizes.length = k ∧
    (@Spec.uniformGrains F (fieldScalar T) k mat size).mats = List.replicate k mat := by
  unfold Spec.uniformGrains
  have h' : @LT.lt F (fieldScalar T).toLT size (@OfNat.ofNat F 0 (@Scalar.instOfNat F (fieldScalar T) 0)) := by
    rw [lit_0]; exact hs
  simp only [if_pos h', List.length_replicate, List.sum_replicate, nsmul_eq_mul, and_true]
  sfield
  have : (k : F) ≠ 0 := Nat.cast_ne_zero.mpr (Nat.pos_iff_ne_zero.mp hk)
  field_simp

end field
end Gwb
