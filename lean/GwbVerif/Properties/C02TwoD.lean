/-
C02 — the 2-D (cross-section) form of "only covering features matter": a corollary of `C02_same_covering_same_answer`
at the lifted point, so deleting or moving a feature that does not contain the lifted point changes no 2-D answer there.
-/
import GwbVerif.Properties.C02
namespace Gwb
open Scalar
set_option linter.unusedSectionVars false
variable {R G : Type} [Scalar R] [RandGen G R]

/-- **C02 (2-D)** through the cross-section interface too, only the features covering the lifted point, in file order, matter -/
theorem C02_same_covering_same_answer_2d (w : World R) (fs' : List (Feature R)) (c0 c1 : P2 R) (hc : w.cross = some (c0, c1))
    (pt : P2 R) (depth : R) (ps : List Req)
    (h : w.features.filter (fun f => f.covers w.ctx (w.query (w.lift2 c0 c1 pt) depth))
       = fs'.filter (fun f => f.covers w.ctx (w.query (w.lift2 c0 c1 pt) depth))) :
    w.props2 (G := G) pt depth ps = ({ w with features := fs' } : World R).props2 pt depth ps := by
  have h3 := C02_same_covering_same_answer (G := G) w fs' (w.lift2 c0 c1 pt) depth ps h
  unfold World.props2
  simp only [hc]
  have hl : ({ ctx := w.ctx, cross := some (c0, c1), features := fs' } : World R).lift2 c0 c1 pt = w.lift2 c0 c1 pt := rfl
  rw [hc] at h3
  rw [hl, h3]

end Gwb
