/-
C08 at the level of whole features — which description of a FEATURE's own longitudes is used does not change the answers.

Setting.  Spherical world.  The query `q` is FIXED: the library builds it from the Cartesian point (`World.query`, `atan2`), so it always
carries the canonical longitude; `C08_longitude_alias_same_answer` (Properties/C08.lean) already says that a caller's `L`, `L ± 360°` are
the same Cartesian point.  What can vary is the description the FILE uses for a feature: here every longitude the feature holds is
written `k` full turns away (`lonTurns T k = ⟨2πk, 0⟩`, `k : ℤ`; `k = ±1` is "± 360°").  A feature holds longitudes in
  * its polygon (`coords`), its min/max depth surfaces (`rng`: triangle vertices and kd-nodes),
  * the min/max depth surfaces of EVERY model (temperature, composition, velocity, grains: `DepthRange`),
  * the ridge coordinates of the `half space model` / `plate model` temperature models (`RidgeSpec`),
  * the cross-section centres of a plume.
`AreaFeature.lonShift T k`, `PlumeFeature.lonShift T k`, `TempModel.lonShift T kS kR` (Proofs/MotionLonFeatures.lean) re-describe all of
them.  Ordered field `F`, `fieldScalar T`; laws used: `PeriodLaws T`, `AngleAddLaws T` (only where a ridge kernel is involved — they are
hypotheses of the theorems that run temperature models), `0 < T.pi`.  Everything is a COMPOSITION of the kernel theorems of
Properties/C08.lean with `d := 2πk`, `p' := p`, `j := −k`; no kernel is re-proved.

Hypotheses (all inherited from the kernels; nothing new had to be added for the composition):
  `PolygonAliasOk T pts p k`   = hypotheses of `C08_polygonContains_lon_offset_general`: canonical query longitude `≠ 0`, footprint within
                                 `[−2π, 2π]` in both descriptions, tolerances exact (`Separated`) for every description of the query.
  `Surface.AliasOk T s p k`    = hypotheses of `C08_surface_lon_offset_of_reach` (`PreOk`, `NodesOk`, `SurfaceReach`, `SingleValuedAt`);
                                 only asked of NON-constant surfaces; from ranges: `C08_surface_aliasOk_of_range`.
  `RidgeSpec.AliasOk …`        = `RidgeReach` of `C08_ridge_lon_offset` at the point the model hands to the kernel.
  `PlumeFeature.AliasOk T f q k` = hypotheses of `C08_plume_covers_lon_offset_of_centre`.

Theorems
* `C08_area_covers_lon_alias`      the guard `AreaFeature.covers` (verdict and local depth range): polygon and both depth surfaces `k` turns away.
  `C08_area_covers_lon_offset`     the two cases of the property text, `+2π` and `−2π`, written out.
  `C08_area_covers_lon_alias_indep` polygon `kP` turns away, depth surfaces `kF` turns away, independently.
* `C08_temp_model_lon_alias`       ONE temperature model, its depth surfaces `kS` turns away and its ridge `kR` turns away, INDEPENDENTLY of each
                                   other and of the plate: same temperature.  (So "the ridge must be written in the same alias as the plate"
                                   is NOT needed: every kernel chooses its description of the query against its own coordinates.)
* `C08_area_applyTemp_lon_alias`   `AreaFeature.applyTemp` with everything `k` turns away;
  `C08_area_applyTemp_lon_alias_indep`  polygon, feature surfaces and every model (surfaces, ridge) by amounts of their own (`TempsAlias`).
* `C08_area_apply_lon_alias`       `AreaFeature.apply`: every property (temperature, composition, grains, tag, velocity), the state of the random
                                   generator included; composition/velocity/grains models hold depth surfaces only.
* `C08_plume_covers_lon_alias`, `C08_plume_covers_lon_alias_of_range`, `C08_plume_applyTemp_lon_alias`, `C08_plume_apply_lon_alias`
                                   the same for the plume (kernel: `C08_plume_covers_lon_offset_of_centre` / `C08_plume_covers_lon_offset`).
* `C08_world_temperature_lon_alias` `World.temperaturePure` of a world in which each area feature / plume is written its own number of turns
                                   away (`FeatureTempAlias`, `List.Forall₂`; other features unchanged);
  `C08_world_props3_lon_alias`     `World.props3`, every property (the `worldT` callback of `tian water content` follows from the former).
* `C08_surface_aliasOk_of_range`, `C08_depthRange_aliasOk_of_constant`  dischargers for the surface hypotheses;
  `C08_ridge_reach_alias_of_range`  `RidgeReach` from ranges: ridge longitudes in `(−π, 2π]` (query longitude `< 0`) resp. `[−2π, π)`
                                   (`≥ 0`) in both descriptions, no tie.

CANDIDATE FINDING (feature-level instance of `C08_ridge_lon_offset_inrange_full_false`)
* `C08_ridge_alias_inrange_full_false`  "All longitudes within `[−2π, 2π]`" is NOT enough for the ridge of an oceanic `half space model` /
                                   `plate model`: the SAME query, the SAME ridge written one turn away, both descriptions within the
                                   documented range, give different spreading velocity / distance.  Witness (`π := 3`): query longitude
                                   `1/2`; ridge `(−1,0)–(0,0)`, velocities `1, 2`: velocity `2` (foot point: the EAST end, `1/2` away);
                                   ridge `(5,0)–(6,0)` (the same ridge `+2π`): velocity `1` (foot point: the WEST end — the kernel tries the
                                   descriptions `1/2` and `1/2 − 2π` of the query, never `1/2 + 2π = 6.5`).  In degrees: ridge
                                   `[[-10,0],[0,0]]` against `[[350,0],[360,0]]`, query at longitude `5°`: ridge distance `5°` against `15°`.
                                   Unlike the common-offset form this IS reachable inside the documented range: only the ridge of the model
                                   is re-described, the plate polygon stays.

What is NOT proved
* That `Surface.build` / the kd-tree construction commute with the re-description (the theorems take the BUILT surface with its vertices
  and kd-nodes moved: `Surface.shift`); for degenerate node sets the Delaunay triangulation may differ (known finding
  `depth-surface-triangulation-not-unique`).
* Line features (slabs, faults): only the kernel-level results of Properties/C08.lean.
* Query longitude exactly `0` (`C08_alias_zero_missed`), footprints leaving `[−2π, 2π]` in one of the descriptions, ties (a description of
  the query exactly `π` from a ridge point / plume centre).
* Exact field arithmetic only.
-/
import GwbVerif.Proofs.MotionLonFeatures
import GwbVerif.Properties.C08
namespace Gwb
open Scalar
set_option linter.unusedSectionVars false

section field
variable {F : Type} [Field F] [LinearOrder F] [IsStrictOrderedRing F] (T : Transc F)

/-! ### 1 the guard of an area feature -/

/-- **C08** the guard of an area feature (continental plate, oceanic plate, mantle layer): polygon and both depth surfaces written `k`
full turns away, the query unchanged: same verdict and same local depth range (or the same error) -/
theorem C08_area_covers_lon_alias (hπ : 0 < T.pi) (f : AreaFeature F) (ctx : Ctx F) (q : Query F) (k : ℤ)
    (hsph : ctx.coord.spherical = true)
    (hpoly : PolygonAliasOk T f.coords (surfacePoint true q.nat) k)
    (hrng : f.rng.AliasOk T (surfacePoint true q.nat) k) :
    @AreaFeature.covers F (fieldScalar T) (f.shift T (lonTurns T k)) ctx q = @AreaFeature.covers F (fieldScalar T) f ctx q :=
  AreaFeature.covers_lon_alias T hπ f ctx q k hsph hpoly hrng

/-- **C08** the two cases of the property text written out: every longitude of the feature `+2π`, resp. `−2π` -/
theorem C08_area_covers_lon_offset (hπ : 0 < T.pi) (f : AreaFeature F) (ctx : Ctx F) (q : Query F)
    (hsph : ctx.coord.spherical = true) :
    (PolygonAliasOk T f.coords (surfacePoint true q.nat) 1 → f.rng.AliasOk T (surfacePoint true q.nat) 1 →
      @AreaFeature.covers F (fieldScalar T) (f.shift T ⟨2 * T.pi, 0⟩) ctx q = @AreaFeature.covers F (fieldScalar T) f ctx q) ∧
    (PolygonAliasOk T f.coords (surfacePoint true q.nat) (-1) → f.rng.AliasOk T (surfacePoint true q.nat) (-1) →
      @AreaFeature.covers F (fieldScalar T) (f.shift T ⟨-(2 * T.pi), 0⟩) ctx q = @AreaFeature.covers F (fieldScalar T) f ctx q) := by
  have e1 : lonTurns T 1 = ⟨2 * T.pi, 0⟩ := by unfold lonTurns; simp
  have e2 : lonTurns T (-1) = ⟨-(2 * T.pi), 0⟩ := by unfold lonTurns; simp
  constructor
  · intro h1 h2
    rw [← e1]
    exact AreaFeature.covers_lon_alias T hπ f ctx q 1 hsph h1 h2
  · intro h1 h2
    rw [← e2]
    exact AreaFeature.covers_lon_alias T hπ f ctx q (-1) hsph h1 h2

/-- **C08** polygon `kP` turns away, the depth surfaces `kF` turns away: the two kernels choose their description of the query
independently -/
theorem C08_area_covers_lon_alias_indep (hπ : 0 < T.pi) (f f' : AreaFeature F) (ctx : Ctx F) (q : Query F) (kP kF : ℤ)
    (hsph : ctx.coord.spherical = true)
    (hcoords : f'.coords = f.coords.map (P2.shift (lonTurns T kP))) (hr : f'.rng = f.rng.shift T (lonTurns T kF))
    (hpoly : PolygonAliasOk T f.coords (surfacePoint true q.nat) kP) (hrng : f.rng.AliasOk T (surfacePoint true q.nat) kF) :
    @AreaFeature.covers F (fieldScalar T) f' ctx q = @AreaFeature.covers F (fieldScalar T) f ctx q :=
  AreaFeature.covers_lon_alias_indep T hπ f f' ctx q kP kF hsph hcoords hr hpoly hrng

/-- **C08** `Surface.AliasOk` from ranges: canonical non-zero query longitude, every point a reachable triangle accepts has its longitude
within `[−2π, 2π]` in both descriptions (`C08_surface_accepts_lon_bounds` for the margin), one value at the query -/
theorem C08_surface_aliasOk_of_range (hπ : 0 < T.pi) (s : Surface F) (p : P2 F) (k : ℤ)
    (hpre : @Surface.PreOk F (fieldScalar T) s) (hok : s.NodesOk)
    (hlo : -T.pi < p.x) (hhi : p.x ≤ T.pi) (hne : p.x ≠ 0)
    (hrange : ∀ t, s.NodeTri t → ∀ q : P2 F, @Tri.Accepts F (fieldScalar T) t q →
      (-(2 * T.pi) ≤ q.x ∧ q.x ≤ 2 * T.pi) ∧ (-(2 * T.pi) ≤ q.x + 2 * T.pi * k ∧ q.x + 2 * T.pi * k ≤ 2 * T.pi))
    (hsv : Surface.SingleValuedAt T s p) : s.AliasOk T p k :=
  Surface.aliasOk_of_range T hπ s p k hpre hok hlo hhi hne hrange hsv

/-- **C08** constant min/max depths (a number in the file) need no hypothesis -/
theorem C08_depthRange_aliasOk_of_constant (r : DepthRange F) (p : P2 F) (k : ℤ) (h1 : r.minS.constant = true)
    (h2 : r.maxS.constant = true) : r.AliasOk T p k :=
  DepthRange.aliasOk_of_constant T r p k h1 h2

/-! ### 2 the models -/

/-- **C08** one temperature model: its min/max depth surfaces written `kS` turns away and — `half space model`, `plate model` — its ridge
coordinates `kR` turns away, independently: same temperature for the same query (`fMin`, `fMax`, `rel`: what the feature hands over) -/
theorem C08_temp_model_lon_alias (hπ : 0 < T.pi) (hP : PeriodLaws T) (hA : AngleAddLaws T) (m : TempModel F) (ctx : Ctx F) (q : Query F)
    (kS kR : ℤ) (hsph : ctx.coord.spherical = true) (h : m.AliasOk T ctx q kS kR) (old fMin fMax rel : F) :
    @TempModel.get F (fieldScalar T) (m.lonShift T kS kR) ctx q old fMin fMax rel =
      @TempModel.get F (fieldScalar T) m ctx q old fMin fMax rel :=
  TempModel.get_lon_alias T hπ hP hA m ctx q kS kR hsph h old fMin fMax rel

/-- **C08** the ridge hypothesis (`RidgeReach`, same query, ridge `k` turns away) from ranges.  `LonInReach T p m`: `m ∈ (−π, 2π]` when the
canonical query longitude is negative, `m ∈ [−2π, π)` when it is `≥ 0` — the longitudes within reach of the TWO descriptions of the query
the kernel tries (the complement inside `[−2π, 2π]` is where `C08_ridge_alias_inrange_full_false` lives).  Every ridge vertex within
reach in both descriptions; no description of the query exactly `π` from a segment's mid longitude or a ridge's first point. -/
theorem C08_ridge_reach_alias_of_range (p : P2 F) (k : ℤ) (ridges : List (List (P2 F))) (hlo : -T.pi < p.x) (hhi : p.x ≤ T.pi)
    (hr : ∀ ridge ∈ ridges, ∀ v ∈ ridge, LonInReach T p v.x ∧ LonInReach T p (v.x + 2 * T.pi * k))
    (hnt : ∀ ridge ∈ ridges, ∀ (i : Nat) (s0 s1 : P2 F), ridge[i]? = some s0 → ridge[i + 1]? = some s1 →
      ∀ j : ℤ, |p.x + 2 * T.pi * j - 1 / 2 * (s0.x + s1.x)| ≠ T.pi)
    (hnt' : ∀ ridge ∈ ridges, ∀ t0 : P2 F, ridge[0]? = some t0 → ∀ j : ℤ, |p.x + 2 * T.pi * j - t0.x| ≠ T.pi) :
    RidgeReach T p p (2 * T.pi * k) ridges :=
  ridgeReach_of_range T p k ridges hlo hhi hr hnt hnt'

/-- **C08** the temperature an area feature paints: polygon, depth surfaces, and every coordinate of every temperature model (depth
surfaces, ridges) written `k` turns away -/
theorem C08_area_applyTemp_lon_alias (hπ : 0 < T.pi) (hP : PeriodLaws T) (hA : AngleAddLaws T) (f : AreaFeature F) (ctx : Ctx F)
    (q : Query F) (k : ℤ) (hsph : ctx.coord.spherical = true)
    (hpoly : PolygonAliasOk T f.coords (surfacePoint true q.nat) k) (hrng : f.rng.AliasOk T (surfacePoint true q.nat) k)
    (hm : ∀ m ∈ f.models.temps, m.AliasOk T ctx q k k) (old : F) :
    @AreaFeature.applyTemp F (fieldScalar T) (f.lonShift T k) ctx q old = @AreaFeature.applyTemp F (fieldScalar T) f ctx q old :=
  AreaFeature.applyTemp_lon_alias T hπ hP hA f ctx q k hsph hpoly hrng hm old

/-- **C08** the same with independent descriptions: polygon `kP`, the feature's depth surfaces `kF`, and each temperature model its own
`kS` (depth surfaces) and `kR` (ridge): `TempsAlias` -/
theorem C08_area_applyTemp_lon_alias_indep (hπ : 0 < T.pi) (hP : PeriodLaws T) (hA : AngleAddLaws T) (f f' : AreaFeature F)
    (ctx : Ctx F) (q : Query F) (kP kF : ℤ) (hsph : ctx.coord.spherical = true)
    (hcoords : f'.coords = f.coords.map (P2.shift (lonTurns T kP))) (hr : f'.rng = f.rng.shift T (lonTurns T kF))
    (hpoly : PolygonAliasOk T f.coords (surfacePoint true q.nat) kP) (hrng : f.rng.AliasOk T (surfacePoint true q.nat) kF)
    (hm : TempsAlias T ctx q f'.models.temps f.models.temps) (old : F) :
    @AreaFeature.applyTemp F (fieldScalar T) f' ctx q old = @AreaFeature.applyTemp F (fieldScalar T) f ctx q old :=
  AreaFeature.applyTemp_lon_alias_indep T hπ hP hA f f' ctx q kP kF hsph hcoords hr hpoly hrng hm old

/-- **C08** every property an area feature paints (`AreaFeature.apply`: temperature, composition, grains, tag, velocity), as a computation
in the query monad: same output AND same state of the random generator -/
theorem C08_area_apply_lon_alias {G : Type} [@RandGen G F] (hπ : 0 < T.pi) (hP : PeriodLaws T) (hA : AngleAddLaws T)
    (f : AreaFeature F) (ctx : Ctx F) (q : Query F) (k : ℤ) (hsph : ctx.coord.spherical = true)
    (hpoly : PolygonAliasOk T f.coords (surfacePoint true q.nat) k) (hrng : f.rng.AliasOk T (surfacePoint true q.nat) k)
    (hm : f.models.AliasOk T ctx q k) (pes : List (Req × Nat)) (out : List F) :
    @AreaFeature.apply F (fieldScalar T) G _ (f.lonShift T k) ctx q pes out = @AreaFeature.apply F (fieldScalar T) G _ f ctx q pes out :=
  AreaFeature.apply_lon_alias T hπ hP hA f ctx q k hsph hpoly hrng hm pes out

/-! ### 3 the plume -/

/-- **C08** the plume's footprint test (verdict and relative distance), every cross-section centre written `k` turns away; hypotheses on
the centre used at the query depth only -/
theorem C08_plume_covers_lon_alias (hπ : 0 < T.pi) (f : PlumeFeature F) (ctx : Ctx F) (q : Query F) (k : ℤ)
    (hsph : ctx.coord.spherical = true) (h : f.AliasOk T q k) :
    @PlumeFeature.covers F (fieldScalar T) (f.shift (lonTurns T k)) ctx q = @PlumeFeature.covers F (fieldScalar T) f ctx q :=
  PlumeFeature.covers_lon_alias T hπ f ctx q k hsph h

/-- **C08** the same from ranges: canonical query longitude, centres within `[−2π, 2π]` in both descriptions, listed depths ascending, no
description of the query exactly `π` from the centre used -/
theorem C08_plume_covers_lon_alias_of_range (hπ : 0 < T.pi) (f : PlumeFeature F) (ctx : Ctx F) (q : Query F) (k : ℤ)
    (hsph : ctx.coord.spherical = true) (hlo : -T.pi < q.nat.y) (hhi : q.nat.y ≤ T.pi) (hasc : Ascending f.depths)
    (hrange : ∀ c ∈ f.coords, -(2 * T.pi) ≤ c.x ∧ c.x ≤ 2 * T.pi)
    (hrange' : ∀ c ∈ f.coords, -(2 * T.pi) ≤ c.x + 2 * T.pi * k ∧ c.x + 2 * T.pi * k ≤ 2 * T.pi)
    (hnt : ∀ up d0 sel, @plumeSelect F (fieldScalar T) f q.depth d0 up = .ok sel →
      ∀ j : ℤ, |q.nat.y + 2 * T.pi * j - sel.1.x| ≠ T.pi) :
    @PlumeFeature.covers F (fieldScalar T) (f.shift (lonTurns T k)) ctx q = @PlumeFeature.covers F (fieldScalar T) f ctx q :=
  PlumeFeature.covers_lon_alias_of_range T hπ f ctx q k hsph hlo hhi hasc hrange hrange' hnt

/-- **C08** the temperature a plume paints (the `gaussian` model holds no coordinates; `uniform` holds depth surfaces) -/
theorem C08_plume_applyTemp_lon_alias (hπ : 0 < T.pi) (hP : PeriodLaws T) (hA : AngleAddLaws T) (f : PlumeFeature F) (ctx : Ctx F)
    (q : Query F) (k : ℤ) (hsph : ctx.coord.spherical = true) (h : f.AliasOk T q k)
    (hm : ∀ m ∈ f.models.temps, m.AliasOk T ctx q k k) (old : F) :
    @PlumeFeature.applyTemp F (fieldScalar T) (f.lonShift T k) ctx q old = @PlumeFeature.applyTemp F (fieldScalar T) f ctx q old :=
  PlumeFeature.applyTemp_lon_alias T hπ hP hA f ctx q k hsph h hm old

/-- **C08** every property a plume paints -/
theorem C08_plume_apply_lon_alias {G : Type} [@RandGen G F] (hπ : 0 < T.pi) (hP : PeriodLaws T) (hA : AngleAddLaws T)
    (f : PlumeFeature F) (ctx : Ctx F) (q : Query F) (k : ℤ) (hsph : ctx.coord.spherical = true) (h : f.AliasOk T q k)
    (hm : f.models.AliasOk T ctx q k) (pes : List (Req × Nat)) (out : List F) :
    @PlumeFeature.apply F (fieldScalar T) G _ (f.lonShift T k) ctx q pes out =
      @PlumeFeature.apply F (fieldScalar T) G _ f ctx q pes out :=
  PlumeFeature.apply_lon_alias T hπ hP hA f ctx q k hsph h hm pes out

/-! ### 4 whole worlds -/

/-- **C08** the temperature of a whole world (`World.temperaturePure`: background, then the features in order) when each area feature and
each plume is written its own number of turns away (`FeatureTempAlias`; other features are the same) -/
theorem C08_world_temperature_lon_alias (hπ : 0 < T.pi) (hP : PeriodLaws T) (hA : AngleAddLaws T) (w w' : World F) (pt : P3 F)
    (depth : F) (hctx : w'.ctx = w.ctx) (hsph : w.ctx.coord.spherical = true)
    (hf : List.Forall₂ (FeatureTempAlias T w.ctx (w.tempQuery T pt depth)) w'.features w.features) :
    @World.temperaturePure F (fieldScalar T) w' pt depth = @World.temperaturePure F (fieldScalar T) w pt depth :=
  World.temperaturePure_lon_alias T hπ hP hA w w' pt depth hctx hsph hf

/-- **C08** every property of a whole world (`World.props3`), random draws included; the temperature `tian water content` asks the world
for (`Query.worldT`) is covered by `C08_world_temperature_lon_alias` -/
theorem C08_world_props3_lon_alias {G : Type} [@RandGen G F] (hπ : 0 < T.pi) (hP : PeriodLaws T) (hA : AngleAddLaws T) (w w' : World F)
    (pt : P3 F) (depth : F) (ps : List Req) (hctx : w'.ctx = w.ctx) (hsph : w.ctx.coord.spherical = true)
    (hf : List.Forall₂ (FeatureAlias T w.ctx (@World.query F (fieldScalar T) w pt depth)) w'.features w.features) :
    @World.props3 F (fieldScalar T) G _ w' pt depth ps = @World.props3 F (fieldScalar T) G _ w pt depth ps :=
  World.props3_lon_alias T hπ hP hA w w' pt depth ps hctx hsph hf

/-- the statement for the ridge kernel with the range hypothesis of the documentation only ("longitudes within `[−360°, 360°]`", in both
descriptions) in place of `RidgeReach`; same query — FALSE, see `C08_ridge_alias_inrange_full_false` -/
def C08_ridge_alias_inrange_full : Prop :=
  0 < T.pi → PeriodLaws T → AngleAddLaws T →
  ∀ (nat : P3 F) (k : ℤ) (ridges : List (List (P2 F))) (vels subVel : List (List F)) (migr : List F),
    -T.pi < nat.y → nat.y ≤ T.pi →
    (∀ ridge ∈ ridges, ∀ v ∈ ridge, (-(2 * T.pi) ≤ v.x ∧ v.x ≤ 2 * T.pi) ∧
      (-(2 * T.pi) ≤ v.x + 2 * T.pi * k ∧ v.x + 2 * T.pi * k ≤ 2 * T.pi)) →
    @ridgeDistanceAndSpreading F (fieldScalar T) true (ridges.map (List.map (P2.shift (lonTurns T k)))) vels nat subVel migr =
      @ridgeDistanceAndSpreading F (fieldScalar T) true ridges vels nat subVel migr

end field

/-- **C08** (candidate finding; feature-level form of `C08_ridge_lon_offset_inrange_full_false`) the ridge of a `half space model` /
`plate model` written one turn away, within the documented range, changes the answer for the SAME query (`π := 3`, constant `sin`,
`cos`): ridge `(5,0)–(6,0)`, spreading velocities `1, 2`, query `(r, lon, lat) = (1, 1/2, 0)`: velocity `1` (the WEST end; the description
`1/2 + 2π` of the query, half a unit east of the ridge, is never tried); the same ridge written `(−1,0)–(0,0)` (`k = −1`): velocity `2`
(the EAST end).  In degrees: ridge `[[350,0],[360,0]]` against `[[-10,0],[0,0]]`, query at longitude `5`. -/
theorem C08_ridge_alias_inrange_full_false : ¬ C08_ridge_alias_inrange_full c08Flat := by
  intro h
  have e : c08Flat.pi = 3 := rfl
  have := h (by rw [e]; norm_num) c08Flat_periodLaws c08Flat_angleAddLaws ⟨1, 1 / 2, 0⟩ (-1) [[⟨5, 0⟩, ⟨6, 0⟩]] [[1, 2]] [[0]] []
    (by rw [e]; norm_num) (by rw [e]; norm_num)
    (by
      intro ridge hr v hv
      simp only [List.mem_cons, List.not_mem_nil, or_false] at hr
      subst hr
      simp only [List.mem_cons, List.not_mem_nil, or_false] at hv
      rcases hv with rfl | rfl <;> rw [e] <;> norm_num)
  have e1 : ([[⟨5, 0⟩, ⟨6, 0⟩]] : List (List (P2 ℚ))).map (List.map (P2.shift (lonTurns c08Flat (-1)))) = [[⟨-1, 0⟩, ⟨0, 0⟩]] := by
    simp only [List.map_cons, List.map_nil, P2.shift, lonTurns, e]; norm_num
  obtain ⟨⟨r, hr, hv⟩, ⟨r', hr', hv'⟩⟩ := ridge_alias_witness
  rw [e1, hr, hr'] at this
  have hs : r' = r := by simpa using this
  rw [hs, hv] at hv'
  exact absurd hv' (by norm_num)

/-! ### non-vacuity: concrete instances of every hypothesis (`π := 3`) -/

/-- a spherical context -/
def c08Ctx : Ctx ℚ := { (default : Ctx ℚ) with coord := ⟨true, .none, 1⟩ }

example : c08Ctx.coord.spherical = true := rfl

/-- the natural coordinates the library computes for the Cartesian point `(1, 3/2, 0)` in the bundle `c08Flat` (`atan2 y x := y`, `sqrt`,
`acos` the identity): radius `13/4`, longitude `3/2`, latitude `3/2` -/
theorem c08_toNatural : @CoordSys.toNatural ℚ (fieldScalar c08Flat) c08Ctx.coord ⟨1, 3 / 2, 0⟩ = ⟨13 / 4, 3 / 2, 3 / 2⟩ := by
  unfold CoordSys.toNatural cartesianToSpherical
  simp only [c08Ctx, if_true]
  show (⟨_, (3 / 2 : ℚ), if _ > (0 : ℚ) then _ else _⟩ : P3 ℚ) = _
  unfold P3.norm
  have hs : ∀ x : ℚ, @Scalar.sqrt ℚ (fieldScalar c08Flat) x = x := fun _ => rfl
  have ha : ∀ x : ℚ, @Scalar.acos ℚ (fieldScalar c08Flat) x = x := fun _ => rfl
  have hp : @Scalar.pi ℚ (fieldScalar c08Flat) = 3 := rfl
  simp only [hs, ha, hp, lit_sci_rat]
  norm_num

/-- a query at that point, depth `20` -/
def c08Query : Query ℚ := { pt := ⟨1, 3 / 2, 0⟩, nat := ⟨13 / 4, 3 / 2, 3 / 2⟩, depth := 20, gravityNorm := 10 }

/-- an area feature whose max depth is given at points (the one-triangle surface `c08Surface`), footprint the square `[1,2]²` -/
noncomputable def c08Area : AreaFeature ℚ :=
  { name := "a", tag := 0, coords := c08Square, rng := ⟨Surface.constantOf 0, c08Surface⟩, models := {} }

/-- `C08_area_covers_lon_alias`, `C08_area_covers_lon_offset` (second case), `C08_surface_aliasOk_of_range`: all hypotheses hold for
`c08Area` written one turn to the west, and the theorem applies -/
example :
    @AreaFeature.covers ℚ (fieldScalar c08Transc) (c08Area.shift c08Transc (lonTurns c08Transc (-1))) c08Ctx c08Query =
      @AreaFeature.covers ℚ (fieldScalar c08Transc) c08Area c08Ctx c08Query :=
  C08_area_covers_lon_alias c08Transc (by show (0 : ℚ) < 3; norm_num) c08Area c08Ctx c08Query (-1) rfl c08Square_aliasOk
    ⟨fun h => (by cases h), fun _ => c08Surface_aliasOk ⟨3 / 2, 3 / 2⟩ (by norm_num) (by norm_num) (by norm_num)⟩

/-- constant depths `0 … 100` -/
def c08Const : DepthRange ℚ := ⟨Surface.constantOf 0, Surface.constantOf 100⟩

example (p : P2 ℚ) (k : ℤ) : c08Const.AliasOk c08Flat p k := C08_depthRange_aliasOk_of_constant c08Flat c08Const p k rfl rfl

/-- a `half space model` and a `plate model` with the ridge `(1,0)–(2,0)`, spreading velocities `1, 2` -/
def c08HalfSpace : TempModel ℚ := .halfSpace c08Const .replace 300 1600 ⟨[[⟨1, 0⟩, ⟨2, 0⟩]], [[1, 2]]⟩
def c08PlateModel : TempModel ℚ := .plateModel c08Const .add 300 1600 ⟨[[⟨1, 0⟩, ⟨2, 0⟩]], [[1, 2]]⟩

/-- an oceanic plate with ridge-based and plain temperature models, a composition, a velocity and a grains model -/
def c08Ocean : AreaFeature ℚ :=
  { name := "o", tag := 1, coords := c08Square, rng := c08Const,
    models := { temps := [c08HalfSpace, c08PlateModel, .linear c08Const .add 0 1],
                comps := [.uniform c08Const .replace [0] [1]],
                vels := [.uniformRaw c08Const .replace ⟨1, 0, 0⟩ false],
                grains := [.uniform c08Const [0] [] [1]] } }

/-- the ridge hypothesis at a query whose Cartesian point has `y = 3/2` (longitude `3/2` in `c08Flat`): ridge written one turn west -/
theorem c08_ridge_aliasOk (q : Query ℚ) (hpt : q.pt.y = 3 / 2) (md : ℚ) :
    RidgeSpec.AliasOk c08Flat (⟨[[⟨1, 0⟩, ⟨2, 0⟩]], [[1, 2]]⟩ : RidgeSpec ℚ) c08Ctx q md (-1) := by
  have hy : (@natAtMinDepth ℚ (fieldScalar c08Flat) c08Ctx q md).y = q.pt.y := rfl
  unfold RidgeSpec.AliasOk
  rw [hy, hpt]
  exact c08Ridge_reach _

/-- `C08_temp_model_lon_alias`, `C08_area_applyTemp_lon_alias`, `C08_area_apply_lon_alias`: the hypotheses on all models of `c08Ocean` -/
theorem c08Ocean_models_aliasOk (q : Query ℚ) (hpt : q.pt.y = 3 / 2) : c08Ocean.models.AliasOk c08Flat c08Ctx q (-1) := by
  have hc : ∀ p, c08Const.AliasOk c08Flat p (-1) := fun p => DepthRange.aliasOk_of_constant c08Flat c08Const p (-1) rfl rfl
  constructor
  · intro m hm
    simp only [c08Ocean, List.mem_cons, List.not_mem_nil, or_false] at hm
    rcases hm with rfl | rfl | rfl
    · exact ⟨hc _, c08_ridge_aliasOk q hpt _⟩
    · exact ⟨hc _, c08_ridge_aliasOk q hpt _⟩
    · exact hc _
  · intro m hm
    simp only [c08Ocean, List.mem_cons, List.not_mem_nil, or_false] at hm
    subst hm
    exact hc _
  · intro m hm
    simp only [c08Ocean, List.mem_cons, List.not_mem_nil, or_false] at hm
    subst hm
    exact hc _
  · intro m hm
    simp only [c08Ocean, List.mem_cons, List.not_mem_nil, or_false] at hm
    subst hm
    exact hc _

/-- one model: depth surfaces two turns east, ridge one turn west -/
example (old fMin fMax rel : ℚ) :
    @TempModel.get ℚ (fieldScalar c08Flat) (c08HalfSpace.lonShift c08Flat 2 (-1)) c08Ctx c08Query old fMin fMax rel =
      @TempModel.get ℚ (fieldScalar c08Flat) c08HalfSpace c08Ctx c08Query old fMin fMax rel :=
  C08_temp_model_lon_alias c08Flat (by show (0 : ℚ) < 3; norm_num) c08Flat_periodLaws c08Flat_angleAddLaws c08HalfSpace c08Ctx c08Query
    2 (-1) rfl ⟨DepthRange.aliasOk_of_constant c08Flat c08Const _ 2 rfl rfl, c08_ridge_aliasOk c08Query rfl _⟩ old fMin fMax rel

example (old : ℚ) :
    @AreaFeature.applyTemp ℚ (fieldScalar c08Flat) (c08Ocean.lonShift c08Flat (-1)) c08Ctx c08Query old =
      @AreaFeature.applyTemp ℚ (fieldScalar c08Flat) c08Ocean c08Ctx c08Query old :=
  C08_area_applyTemp_lon_alias c08Flat (by show (0 : ℚ) < 3; norm_num) c08Flat_periodLaws c08Flat_angleAddLaws c08Ocean c08Ctx c08Query
    (-1) rfl c08Square_aliasOk_flat (DepthRange.aliasOk_of_constant c08Flat c08Const _ (-1) rfl rfl)
    (c08Ocean_models_aliasOk c08Query rfl).temps old

example {G : Type} [@RandGen G ℚ] (pes : List (Req × Nat)) (out : List ℚ) :
    @AreaFeature.apply ℚ (fieldScalar c08Flat) G _ (c08Ocean.lonShift c08Flat (-1)) c08Ctx c08Query pes out =
      @AreaFeature.apply ℚ (fieldScalar c08Flat) G _ c08Ocean c08Ctx c08Query pes out :=
  C08_area_apply_lon_alias c08Flat (by show (0 : ℚ) < 3; norm_num) c08Flat_periodLaws c08Flat_angleAddLaws c08Ocean c08Ctx c08Query
    (-1) rfl c08Square_aliasOk_flat (DepthRange.aliasOk_of_constant c08Flat c08Const _ (-1) rfl rfl)
    (c08Ocean_models_aliasOk c08Query rfl) pes out

/-- `C08_area_applyTemp_lon_alias_indep`, `C08_area_covers_lon_alias_indep`: polygon one turn west, the feature's (constant) surfaces three
turns east, the first model's ridge one turn west and its surfaces unchanged, the other models unchanged -/
example (old : ℚ) :
    @AreaFeature.applyTemp ℚ (fieldScalar c08Flat)
        { c08Ocean with coords := c08Square.map (P2.shift (lonTurns c08Flat (-1))), rng := c08Const.shift c08Flat (lonTurns c08Flat 3),
                        models := { c08Ocean.models with temps := [c08HalfSpace.lonShift c08Flat 0 (-1), c08PlateModel.lonShift c08Flat 0 0,
                                      (TempModel.linear c08Const .add 0 1).lonShift c08Flat 0 0] } } c08Ctx c08Query old =
      @AreaFeature.applyTemp ℚ (fieldScalar c08Flat) c08Ocean c08Ctx c08Query old := by
  have hc : ∀ p k, c08Const.AliasOk c08Flat p k := fun p k => DepthRange.aliasOk_of_constant c08Flat c08Const p k rfl rfl
  refine C08_area_applyTemp_lon_alias_indep c08Flat (by show (0 : ℚ) < 3; norm_num) c08Flat_periodLaws c08Flat_angleAddLaws c08Ocean _
    c08Ctx c08Query (-1) 3 rfl rfl rfl c08Square_aliasOk_flat (hc _ _) ?_ old
  refine List.Forall₂.cons ⟨0, -1, rfl, hc _ _, c08_ridge_aliasOk c08Query rfl _⟩
    (List.Forall₂.cons ⟨0, 0, rfl, hc _ _, ?_⟩ (List.Forall₂.cons ⟨0, 0, rfl, hc _ _⟩ List.Forall₂.nil))
  -- ridge unchanged (`k = 0`): reached before = reached after
  have h := c08_ridge_aliasOk c08Query rfl c08Const.minDepth
  unfold RidgeSpec.AliasOk at h ⊢
  refine ⟨fun ridge hr i s0 s1 h0 h1 => ?_, fun i r t0 hr h0 => ?_⟩
  · have := (h.seg ridge hr i s0 s1 h0 h1).1
    exact ⟨this, by simpa using this⟩
  · have := (h.trans i r t0 hr h0).1
    exact ⟨this, by simpa using this⟩

/-- the plume `c08Plume` (centre `(1, 0)`) at a query of longitude `3/2`, written one turn west (centre `−5`): both descriptions of the
centre at most `3π` from the query, no description `3/2 + 6j` exactly `3` from `1` -/
theorem c08Plume_aliasOk (q : Query ℚ) (hy : q.nat.y = 3 / 2) : c08Plume.AliasOk c08Flat q (-1) := by
  intro up d0 sel _ hs
  have hc : ∀ c ∈ c08Plume.coords, c = ⟨1, 0⟩ := by
    intro c hc
    simpa [c08Plume] using hc
  have hS := (@plumeSelect_ok_iff ℚ (fieldScalar c08Flat) c08Plume q.depth d0 up sel).mp hs
  have hx : sel.1.x = 1 := by
    rcases hS with ⟨_, c, _, _, _, h0, _, _, _, rfl⟩ | ⟨_, _, c, _, _, _, h0, _, _, _, rfl⟩ |
      ⟨h0, _, _, _, _, ch, _, _, _, _, _, _, _, _, _, h1, _⟩
    · rw [hc c (List.mem_of_getElem? h0)]
    · rw [hc c (List.mem_of_getElem? h0)]
    · exfalso
      have : c08Plume.coords[up]? = none := by apply List.getElem?_eq_none; simp [c08Plume]; omega
      rw [this] at h1; cases h1
  rw [hx, hy, c08Flat_pi]
  refine ⟨by norm_num [abs_of_pos], by norm_num [abs_of_pos], ?_⟩
  intro j h
  rcases (abs_eq (by norm_num : (0 : ℚ) ≤ 3)).mp h with h | h
  · have : (12 * j : ℤ) = 5 := by
      have : (12 : ℚ) * j = 5 := by linarith
      exact_mod_cast this
    omega
  · have : (12 * j : ℤ) = -7 := by
      have : (12 : ℚ) * j = -7 := by linarith
      exact_mod_cast this
    omega

/-- `C08_plume_covers_lon_alias`, `C08_plume_applyTemp_lon_alias`, `C08_plume_apply_lon_alias` -/
example {G : Type} [@RandGen G ℚ] (pes : List (Req × Nat)) (out : List ℚ) (old : ℚ) :
    (@PlumeFeature.covers ℚ (fieldScalar c08Flat) (c08Plume.shift (lonTurns c08Flat (-1))) c08Ctx c08Query =
      @PlumeFeature.covers ℚ (fieldScalar c08Flat) c08Plume c08Ctx c08Query) ∧
    (@PlumeFeature.applyTemp ℚ (fieldScalar c08Flat) (c08Plume.lonShift c08Flat (-1)) c08Ctx c08Query old =
      @PlumeFeature.applyTemp ℚ (fieldScalar c08Flat) c08Plume c08Ctx c08Query old) ∧
    (@PlumeFeature.apply ℚ (fieldScalar c08Flat) G _ (c08Plume.lonShift c08Flat (-1)) c08Ctx c08Query pes out =
      @PlumeFeature.apply ℚ (fieldScalar c08Flat) G _ c08Plume c08Ctx c08Query pes out) := by
  have hπ : (0 : ℚ) < c08Flat.pi := by show (0 : ℚ) < 3; norm_num
  have hm : c08Plume.models.AliasOk c08Flat c08Ctx c08Query (-1) :=
    ⟨fun m hm => (by cases hm), fun m hm => (by cases hm), fun m hm => (by cases hm), fun m hm => (by cases hm)⟩
  exact ⟨C08_plume_covers_lon_alias c08Flat hπ c08Plume c08Ctx c08Query (-1) rfl (c08Plume_aliasOk c08Query rfl),
    C08_plume_applyTemp_lon_alias c08Flat hπ c08Flat_periodLaws c08Flat_angleAddLaws c08Plume c08Ctx c08Query (-1) rfl
      (c08Plume_aliasOk c08Query rfl) hm.temps old,
    C08_plume_apply_lon_alias c08Flat hπ c08Flat_periodLaws c08Flat_angleAddLaws c08Plume c08Ctx c08Query (-1) rfl
      (c08Plume_aliasOk c08Query rfl) hm pes out⟩

/-- a world: the oceanic plate and the plume; and the same world with the plate written one turn west and the plume one turn west -/
def c08World : World ℚ := ⟨c08Ctx, none, [.area c08Ocean, .plume c08Plume]⟩
noncomputable def c08World' : World ℚ :=
  ⟨c08Ctx, none, [.area (c08Ocean.lonShift c08Flat (-1)), .plume (c08Plume.lonShift c08Flat (-1))]⟩

/-- `C08_world_props3_lon_alias`, `C08_world_temperature_lon_alias`: at the Cartesian point `(1, 3/2, 0)`, any depth, any request list -/
example {G : Type} [@RandGen G ℚ] (depth : ℚ) (ps : List Req) :
    (@World.props3 ℚ (fieldScalar c08Flat) G _ c08World' ⟨1, 3 / 2, 0⟩ depth ps =
      @World.props3 ℚ (fieldScalar c08Flat) G _ c08World ⟨1, 3 / 2, 0⟩ depth ps) ∧
    (@World.temperaturePure ℚ (fieldScalar c08Flat) c08World' ⟨1, 3 / 2, 0⟩ depth =
      @World.temperaturePure ℚ (fieldScalar c08Flat) c08World ⟨1, 3 / 2, 0⟩ depth) := by
  have hπ : (0 : ℚ) < c08Flat.pi := by show (0 : ℚ) < 3; norm_num
  have hnat : (@World.query ℚ (fieldScalar c08Flat) c08World ⟨1, 3 / 2, 0⟩ depth).nat = ⟨13 / 4, 3 / 2, 3 / 2⟩ := c08_toNatural
  have hsp : surfacePoint true (@World.query ℚ (fieldScalar c08Flat) c08World ⟨1, 3 / 2, 0⟩ depth).nat = ⟨3 / 2, 3 / 2⟩ := by
    rw [hnat]; rfl
  have hpm : c08Plume.models.AliasOk c08Flat c08Ctx (@World.query ℚ (fieldScalar c08Flat) c08World ⟨1, 3 / 2, 0⟩ depth) (-1) :=
    ⟨fun m hm => (by cases hm), fun m hm => (by cases hm), fun m hm => (by cases hm), fun m hm => (by cases hm)⟩
  have hf : List.Forall₂ (FeatureAlias c08Flat c08World.ctx (@World.query ℚ (fieldScalar c08Flat) c08World ⟨1, 3 / 2, 0⟩ depth))
      c08World'.features c08World.features :=
    List.Forall₂.cons
      (.area c08Ocean (-1) (by rw [hsp]; exact c08Square_aliasOk_flat) (DepthRange.aliasOk_of_constant c08Flat c08Const _ (-1) rfl rfl)
        (c08Ocean_models_aliasOk _ rfl))
      (List.Forall₂.cons (.plume c08Plume (-1) (c08Plume_aliasOk _ (by rw [hnat])) hpm) List.Forall₂.nil)
  refine ⟨C08_world_props3_lon_alias c08Flat hπ c08Flat_periodLaws c08Flat_angleAddLaws c08World c08World' _ depth ps rfl rfl hf, ?_⟩
  exact C08_world_temperature_lon_alias c08Flat hπ c08Flat_periodLaws c08Flat_angleAddLaws c08World c08World' _ depth rfl rfl
    (List.Forall₂.imp (fun f' f h => FeatureAlias.toTemp c08Flat c08World.ctx (c08World.tempQuery c08Flat ⟨1, 3 / 2, 0⟩ depth) _ f' f h) hf)

/-- the hypotheses of `C08_ridge_alias_inrange_full` are satisfiable (they hold in the refuting instance: see the proof of
`C08_ridge_alias_inrange_full_false`); the laws hold for the real functions as well (`c08Real_periodLaws`, `c08Real_angleAddLaws`) -/
example : PeriodLaws c08Flat ∧ AngleAddLaws c08Flat ∧ PeriodLaws c08Real ∧ AngleAddLaws c08Real :=
  ⟨c08Flat_periodLaws, c08Flat_angleAddLaws, c08Real_periodLaws, c08Real_angleAddLaws⟩

/-- `C08_ridge_reach_alias_of_range`: query longitude `3/2 ≥ 0` (reach `[−2π, π) = [−6, 3)`), the ridge `(1/2,0)–(1,0)` and the same ridge
one turn west, `(−11/2,0)–(−5,0)`: every vertex within reach in both descriptions, no tie -/
example : RidgeReach c08Flat ⟨3 / 2, 0⟩ ⟨3 / 2, 0⟩ (2 * c08Flat.pi * ((-1 : ℤ) : ℚ)) [[⟨1 / 2, 0⟩, ⟨1, 0⟩]] := by
  have e : c08Flat.pi = 3 := rfl
  have hv : ∀ ridge ∈ ([[⟨1 / 2, 0⟩, ⟨1, 0⟩]] : List (List (P2 ℚ))), ridge = [⟨1 / 2, 0⟩, ⟨1, 0⟩] := by
    intro r hr; simpa using hr
  refine C08_ridge_reach_alias_of_range c08Flat ⟨3 / 2, 0⟩ (-1) _ (by rw [e]; norm_num) (by rw [e]; norm_num) ?_ ?_ ?_
  · intro ridge hr v hv'
    rw [hv ridge hr] at hv'
    simp only [List.mem_cons, List.not_mem_nil, or_false] at hv'
    unfold LonInReach
    rw [e]
    rcases hv' with rfl | rfl <;> constructor <;> right <;> norm_num
  · intro ridge hr i s0 s1 h0 h1 j h
    rw [hv ridge hr] at h0 h1
    have hi : i = 0 := by
      by_contra hne
      have : ([⟨1 / 2, 0⟩, ⟨1, 0⟩] : List (P2 ℚ))[i + 1]? = none := by
        apply List.getElem?_eq_none; simp only [List.length_cons, List.length_nil]; omega
      rw [this] at h1; cases h1
    subst hi
    simp only [List.getElem?_cons_zero, zero_add, List.getElem?_cons_succ, Option.some.injEq] at h0 h1
    subst h0; subst h1
    rw [e] at h
    simp only at h
    rcases (abs_eq (by norm_num : (0 : ℚ) ≤ 3)).mp h with h | h
    · have : (24 * j : ℤ) = 9 := by
        have : (24 : ℚ) * j = 9 := by linarith
        exact_mod_cast this
      omega
    · have : (24 * j : ℤ) = -15 := by
        have : (24 : ℚ) * j = -15 := by linarith
        exact_mod_cast this
      omega
  · intro ridge hr t0 h0 j h
    rw [hv ridge hr] at h0
    simp only [List.getElem?_cons_zero, Option.some.injEq] at h0
    subst h0
    rw [e] at h
    simp only at h
    rcases (abs_eq (by norm_num : (0 : ℚ) ≤ 3)).mp h with h | h
    · have : (6 * j : ℤ) = 2 := by
        have : (6 : ℚ) * j = 2 := by linarith
        exact_mod_cast this
      omega
    · have : (6 * j : ℤ) = -4 := by
        have : (6 : ℚ) * j = -4 := by linarith
        exact_mod_cast this
      omega

end Gwb
