/-
C04 (plume part) — "A plume contains a point iff min depth ≤ depth ≤ max depth and the surface position lies in the ellipse obtained
by linearly interpolating centre, semi-major axis, eccentricity and (cyclically) rotation angle between the cross-section depths,
continued unchanged below the deepest cross-section and closed above the shallowest one by a half-ellipsoid reaching up to min depth."

Model: `PlumeFeature.covers` (Model/Features/Area.lean; plume.cc:262-345).  `covers … = .ok (some rel)` means "the plume writes at this
point, handing the relative distance `rel` to its models".  Definitions used below are in `Proofs/Plume.lean`.

Every scalar type (no laws; `Float` included):
* `C04_plume_covers_iff_lookup`  `covers = ok (some rel)` ⇔ `PlumeContainsAt … up rel` for the offset `up` returned by the model's
  `std::upper_bound`: not `depth < min`, `min ≤ depth ≤ max`, `rel ≤ 1`, the cross-section `PlumeSection` (first / last /
  interpolated entries according to `up = 0`, `up = size`, otherwise) and `PlumeRel` (ellipsoid level if `depth < depths.front()`,
  else `fraction_from_ellipse_center`).  No well-formedness is needed: a missing list entry makes both sides false.
* `C04_plume_lookup_bracket`     what is known about `up` on any list: `up ≤ size`, the entry before it is not `> depth`, the entry
  at it is `> depth`.
* `C04_plume_head_radius_unused` in the head regime the semi-major axis computed at plume.cc:283-291 is dead: the tip branch
  always overwrites the distance computed from it (observation, not a defect).

Ordered field (`fieldScalar T`), plume with one entry per cross-section in each list (`ListsOk`) and strictly ascending depths:
* `C04_plume_covers_iff`         `covers = ok (some rel)` ⇔ `PlumeContains` — the declarative three-regime description
  (head: `depth < d₀`; between `d_k ≤ depth < d_{k+1}`; below: `d_{n−1} ≤ depth`), no reference to the binary search.
* `C04_plume_head`, `C04_plume_between`, `C04_plume_below`   each regime on its own: in its depth interval the decision is *only* that
  regime's formula (the regimes are mutually exclusive, `k` is unique).
* `C04_plume_listed_depth`       at a listed depth `d_k` the ellipse is the listed one (fraction 0; the cyclically interpolated
  angle differs from the listed angle by whole turns, which the ellipse does not see) — needs `PlumeLaws`.
* `C04_plume_between_convex`     between two listed depths the fraction is in `[0,1)` and centre, semi-major axis, eccentricity lie
  between the two listed values.
* `C04_plume_rotation_cyclic`    the interpolated angle is `(1−t)·θ₁' + t·θ₂' + whole turns` with `θᵢ' ∈ {θᵢ, θᵢ + 2π}`, and
  `|θ₂' − θ₁'| ≤ π` whenever the listed angles are less than a turn apart (the short way round).
* `C04_plume_head_inside`        a point in the head satisfies `z² ≤ c²` and lies in the first ellipse's cylinder;
  `C04_plume_head_base`          at `z = 0` the ellipsoid level is the level of the first ellipse (no jump at `d₀`);
  `C04_plume_head_closes`        at `depth = min depth` the plume contains exactly the axis point (`rel = 1`).
* `C04_plume_laws_toy`, `C04_plume_laws_real`   `PlumeLaws` is satisfiable (toy bundle over `ℚ`; real `sin`, `cos`, `π`, `⌊·⌋` over `ℝ`).

Not covered: that `rel ≤ 1` describes a *geometric* ellipse on the sphere (the code works in longitude/latitude radians as if they
were planar coordinates; that is the documented behaviour); degenerate ellipses give `inf` (never contained) by the code's own test.
-/
import GwbVerif.Proofs.Plume
import GwbVerif.Proofs.ModelInstances
namespace Gwb
open Scalar
set_option linter.unusedSectionVars false
set_option linter.unusedVariables false

section generic
variable {R : Type} [Scalar R]

/-- **C04 (plume)** every scalar type: the code's decision, regime named by the offset of `std::upper_bound` -/
theorem C04_plume_covers_iff_lookup (f : PlumeFeature R) (ctx : Ctx R) (q : Query R) (rel : R) :
    f.covers ctx q = .ok (some rel) ↔
      ∃ up, upperBound f.depths q.depth (f.depths.length + 1) 0 f.depths.length = .ok up ∧
        PlumeContainsAt f ctx.coord.spherical q.depth (surfacePoint ctx.coord.spherical q.nat) up rel :=
  PlumeFeature.covers_ok_iff f ctx q rel

/-- **C04 (plume)** every scalar type: what the look-up has established about `up`, sorted list or not -/
theorem C04_plume_lookup_bracket (f : PlumeFeature R) (depth : R) (up : Nat)
    (h : upperBound f.depths depth (f.depths.length + 1) 0 f.depths.length = .ok up) :
    up ≤ f.depths.length ∧ (∀ a, 0 < up → f.depths[up - 1]? = some a → ¬ depth < a) ∧ (∀ b, f.depths[up]? = some b → depth < b) :=
  ⟨upperBound_le _ _ _ h, (upperBound_bracket _ _ _ h).1, (upperBound_bracket _ _ _ h).2⟩

/-- **C04 (plume)** every scalar type: in the head regime (`up = 0`) the semi-major axis computed at plume.cc:283-291
(`sqrt((1 − (y/a)²)·b²)`) never influences the decision or the relative distance — the look-up itself has established
`depth < depths.front()`, so the tip branch (plume.cc:329-341) overwrites the ellipse distance computed from it -/
theorem C04_plume_head_radius_unused (f : PlumeFeature R) (spherical : Bool) (depth d0 : R) (sp0 c : P2 R) (s s' e r rel : R)
    (hup : upperBound f.depths depth (f.depths.length + 1) 0 f.depths.length = .ok 0) (hd0 : f.depths[0]? = some d0) :
    PlumeRel f spherical depth d0 sp0 (c, s, e, r) rel ↔ PlumeRel f spherical depth d0 sp0 (c, s', e, r) rel := by
  have hlt : depth < d0 := (upperBound_bracket _ _ _ hup).2 d0 hd0
  unfold PlumeRel
  rw [if_pos hlt, if_pos hlt]

end generic

section field
variable {F : Type} [Field F] [LinearOrder F] [IsStrictOrderedRing F] (T : Transc F)

/-- **C04 (plume)** the code decides the declarative three-regime description `PlumeContains` -/
theorem C04_plume_covers_iff (f : PlumeFeature F) (hl : @PlumeFeature.ListsOk F f)
    (hasc : @StrictAscending F (fieldScalar T) f.depths) (ctx : Ctx F) (q : Query F) (rel : F) :
    @PlumeFeature.covers F (fieldScalar T) f ctx q = .ok (some rel) ↔
      PlumeContains T f ctx.coord.spherical q.depth (surfacePoint ctx.coord.spherical q.nat) rel :=
  PlumeFeature.covers_iff_contains T f hl hasc ctx q rel

/-- **C04 (plume)** head: above the shallowest cross-section (`depth < d₀`) the plume is the half-ellipsoid over the first ellipse
with height `d₀ − min depth` -/
theorem C04_plume_head (f : PlumeFeature F) (hl : @PlumeFeature.ListsOk F f) (hasc : @StrictAscending F (fieldScalar T) f.depths)
    (ctx : Ctx F) (q : Query F) (rel : F) (d0 : F) (c : P2 F) (a e r : F)
    (hd0 : f.depths[0]? = some d0) (hc : f.coords[0]? = some c) (ha : f.semiMajor[0]? = some a) (he : f.ecc[0]? = some e)
    (hr : f.rot[0]? = some r) (hlt : q.depth < d0) :
    @PlumeFeature.covers F (fieldScalar T) f ctx q = .ok (some rel) ↔
      f.minDepth ≤ q.depth ∧ q.depth ≤ f.maxDepth ∧ rel ≤ 1 ∧
        rel = headLevel T c a e r (d0 - f.minDepth) (d0 - q.depth)
          (closestAlias T ctx.coord.spherical c (surfacePoint ctx.coord.spherical q.nat)) := by
  rw [C04_plume_covers_iff T f hl hasc]
  exact PlumeContains_head_iff T f hasc _ _ _ rel d0 c a e r hd0 hc ha he hr hlt

/-- **C04 (plume)** between the cross-sections `k` and `k+1` (`d_k ≤ depth < d_{k+1}`): the ellipse with linearly interpolated
centre, semi-major axis, eccentricity and cyclically interpolated angle -/
theorem C04_plume_between (f : PlumeFeature F) (hl : @PlumeFeature.ListsOk F f) (hasc : @StrictAscending F (fieldScalar T) f.depths)
    (ctx : Ctx F) (q : Query F) (rel : F) (k : ℕ) (dl dh : F) (cl ch : P2 F) (sl sh el eh rl rh : F)
    (hdl : f.depths[k]? = some dl) (hdh : f.depths[k + 1]? = some dh)
    (hcl : f.coords[k]? = some cl) (hch : f.coords[k + 1]? = some ch) (hsl : f.semiMajor[k]? = some sl)
    (hsh : f.semiMajor[k + 1]? = some sh) (hel : f.ecc[k]? = some el) (heh : f.ecc[k + 1]? = some eh)
    (hrl : f.rot[k]? = some rl) (hrh : f.rot[k + 1]? = some rh) (h1 : dl ≤ q.depth) (h2 : q.depth < dh) :
    @PlumeFeature.covers F (fieldScalar T) f ctx q = .ok (some rel) ↔
      f.minDepth ≤ q.depth ∧ q.depth ≤ f.maxDepth ∧ rel ≤ 1 ∧
        rel = ellipseLevel T
          ⟨(1 - (q.depth - dl) / (dh - dl)) * cl.x + (q.depth - dl) / (dh - dl) * ch.x,
           (1 - (q.depth - dl) / (dh - dl)) * cl.y + (q.depth - dl) / (dh - dl) * ch.y⟩
          ((1 - (q.depth - dl) / (dh - dl)) * sl + (q.depth - dl) / (dh - dl) * sh)
          ((1 - (q.depth - dl) / (dh - dl)) * el + (q.depth - dl) / (dh - dl) * eh)
          (cyclicLerp T rl rh ((q.depth - dl) / (dh - dl)))
          (closestAlias T ctx.coord.spherical
            ⟨(1 - (q.depth - dl) / (dh - dl)) * cl.x + (q.depth - dl) / (dh - dl) * ch.x,
             (1 - (q.depth - dl) / (dh - dl)) * cl.y + (q.depth - dl) / (dh - dl) * ch.y⟩
            (surfacePoint ctx.coord.spherical q.nat)) := by
  rw [C04_plume_covers_iff T f hl hasc]
  exact PlumeContains_between_iff T f hasc _ _ _ rel k dl dh cl ch sl sh el eh rl rh hdl hdh hcl hch hsl hsh hel heh hrl hrh h1 h2

/-- **C04 (plume)** at and below the deepest cross-section the last ellipse is continued unchanged -/
theorem C04_plume_below (f : PlumeFeature F) (hl : @PlumeFeature.ListsOk F f) (hasc : @StrictAscending F (fieldScalar T) f.depths)
    (ctx : Ctx F) (q : Query F) (rel : F) (dn : F) (c : P2 F) (a e r : F)
    (hdn : f.depths[f.depths.length - 1]? = some dn) (hc : f.coords[f.depths.length - 1]? = some c)
    (ha : f.semiMajor[f.depths.length - 1]? = some a) (he : f.ecc[f.depths.length - 1]? = some e)
    (hr : f.rot[f.depths.length - 1]? = some r) (hle : dn ≤ q.depth) :
    @PlumeFeature.covers F (fieldScalar T) f ctx q = .ok (some rel) ↔
      f.minDepth ≤ q.depth ∧ q.depth ≤ f.maxDepth ∧ rel ≤ 1 ∧
        rel = ellipseLevel T c a e r (closestAlias T ctx.coord.spherical c (surfacePoint ctx.coord.spherical q.nat)) := by
  rw [C04_plume_covers_iff T f hl hasc]
  exact PlumeContains_below_iff T f hasc _ _ _ rel dn c a e r hdn hc ha he hr hle

/-- **C04 (plume)** at a listed depth `d_k` the cross-section is the listed ellipse `k` -/
theorem C04_plume_listed_depth (L : PlumeLaws T) (f : PlumeFeature F) (hl : @PlumeFeature.ListsOk F f)
    (hasc : @StrictAscending F (fieldScalar T) f.depths) (ctx : Ctx F) (q : Query F) (rel : F)
    (k : ℕ) (c : P2 F) (a e r : F) (hd : f.depths[k]? = some q.depth) (hc : f.coords[k]? = some c)
    (ha : f.semiMajor[k]? = some a) (he : f.ecc[k]? = some e) (hr : f.rot[k]? = some r) :
    @PlumeFeature.covers F (fieldScalar T) f ctx q = .ok (some rel) ↔
      f.minDepth ≤ q.depth ∧ q.depth ≤ f.maxDepth ∧ rel ≤ 1 ∧
        rel = ellipseLevel T c a e r (closestAlias T ctx.coord.spherical c (surfacePoint ctx.coord.spherical q.nat)) := by
  have hkn : k < f.depths.length := (List.getElem?_eq_some_iff.1 hd).1
  by_cases hlast : k + 1 < f.depths.length
  · obtain ⟨_, hld, hls, hle, hlr⟩ := hl
    have g (xs : List F) (hx : xs.length = f.coords.length) : xs[k + 1]? = some xs[k + 1] := List.getElem?_eq_getElem (by omega)
    have gc : f.coords[k + 1]? = some f.coords[k + 1] := List.getElem?_eq_getElem (by omega)
    have hlt : q.depth < f.depths[k + 1] := hasc k _ _ hd (g f.depths hld)
    rw [C04_plume_between T f ⟨by omega, hld, hls, hle, hlr⟩ hasc ctx q rel k q.depth _ c _ a _ e _ r _ hd (g f.depths hld) hc gc ha
      (g f.semiMajor hls) he (g f.ecc hle) hr (g f.rot hlr) le_rfl hlt]
    obtain ⟨z, hz⟩ := cyclicLerp_zero T L r f.rot[k + 1]
    simp only [sub_self, zero_div, plume_lerp_zero, hz, ellipseLevel_turns T L]
  · have hk : k = f.depths.length - 1 := by omega
    subst hk
    exact C04_plume_below T f hl hasc ctx q rel q.depth c a e r hd hc ha he hr le_rfl

/-- **C04 (plume)** between two listed depths the fraction lies in `[0,1)` and every linearly interpolated quantity
(centre coordinates, semi-major axis, eccentricity) lies between its two listed values -/
theorem C04_plume_between_convex (dl dh depth : F) (h1 : dl ≤ depth) (h2 : depth < dh) :
    0 ≤ (depth - dl) / (dh - dl) ∧ (depth - dl) / (dh - dl) < 1 ∧
      ∀ u v : F, min u v ≤ (1 - (depth - dl) / (dh - dl)) * u + (depth - dl) / (dh - dl) * v ∧
        (1 - (depth - dl) / (dh - dl)) * u + (depth - dl) / (dh - dl) * v ≤ max u v := by
  obtain ⟨a, b⟩ := plume_fraction_range dl dh depth h1 h2
  exact ⟨a, b, fun u v => lerp_between_ends _ u v a b.le⟩

/-- **C04 (plume)** the rotation angle is interpolated cyclically: along the shorter arc, up to whole turns -/
theorem C04_plume_rotation_cyclic (L : PlumeLaws T) (a1 a2 t : F) :
    ∃ (k1 k2 z : ℤ), (k1 = 0 ∨ k1 = 1) ∧ (k2 = 0 ∨ k2 = 1) ∧
      @interpolateAngleAcrossZero F (fieldScalar T) a1 a2 t =
        (1 - t) * (a1 + 2 * T.pi * k1) + t * (a2 + 2 * T.pi * k2) + 2 * T.pi * z ∧
      (|a2 - a1| ≤ 2 * T.pi → |(a2 + 2 * T.pi * k2) - (a1 + 2 * T.pi * k1)| ≤ T.pi) := by
  rw [interpolateAngleAcrossZero_field]
  exact cyclicLerp_spec T L a1 a2 t

/-- **C04 (plume)** a point inside the head ellipsoid (level `≤ 1`) has `z² ≤ c²` for its height `z` over the shallowest
cross-section (`c = d₀ − min depth`: the head does not reach above `min depth`), and its surface position lies in the first ellipse
(level at `z = 0` at most 1) -/
theorem C04_plume_head_inside (c : P2 F) (a e θ cz z : F) (p : P2 F) (hcz : cz ≠ 0) (h : headLevel T c a e θ cz z p ≤ 1) :
    z * z ≤ cz * cz ∧ headLevel T c a e θ cz 0 p ≤ 1 :=
  headLevel_le_one T c a e θ cz z p hcz h

/-- **C04 (plume)** the base of the head is the first ellipse: the two regimes agree where they meet -/
theorem C04_plume_head_base (L : PlumeLaws T) (c : P2 F) (a e θ cz : F) (p : P2 F)
    (hnd : ¬ (a < 10 * T.dblMin ∨ a * T.sqrt (1 - e * e) < 10 * T.dblMin)) :
    headLevel T c a e θ cz 0 p = ellipseLevel T c a e θ p :=
  headLevel_base T L c a e θ cz p hnd

/-- **C04 (plume)** the head closes at `min depth`: at `depth = min depth` (above the shallowest cross-section, non-degenerate first
ellipse) the plume contains exactly the point on its axis, with relative distance 1 -/
theorem C04_plume_head_closes (L : PlumeLaws T) (f : PlumeFeature F) (hl : @PlumeFeature.ListsOk F f)
    (hasc : @StrictAscending F (fieldScalar T) f.depths) (ctx : Ctx F) (q : Query F) (rel : F) (d0 : F) (c : P2 F) (a e r : F)
    (hd0 : f.depths[0]? = some d0) (hc : f.coords[0]? = some c) (ha : f.semiMajor[0]? = some a) (he : f.ecc[0]? = some e)
    (hr : f.rot[0]? = some r) (hq : q.depth = f.minDepth) (hlt : f.minDepth < d0)
    (ha0 : a ≠ 0) (hb0 : a * T.sqrt (1 - T.pow e 2) ≠ 0) :
    @PlumeFeature.covers F (fieldScalar T) f ctx q = .ok (some rel) ↔
      f.minDepth ≤ f.maxDepth ∧ closestAlias T ctx.coord.spherical c (surfacePoint ctx.coord.spherical q.nat) = c ∧ rel = 1 := by
  rw [C04_plume_head T f hl hasc ctx q rel d0 c a e r hd0 hc ha he hr (by rw [hq]; exact hlt), hq]
  have hcz : d0 - f.minDepth ≠ 0 := by
    have : 0 < d0 - f.minDepth := by linarith
    exact this.ne'
  have htop := headLevel_top T L c a e r (d0 - f.minDepth)
    (closestAlias T ctx.coord.spherical c (surfacePoint ctx.coord.spherical q.nat)) ha0 hb0 hcz
  have hone : headLevel T c a e r (d0 - f.minDepth) (d0 - f.minDepth) c = 1 := by
    unfold headLevel
    simp only [sub_self, zero_mul, neg_zero, add_zero, zero_div, zero_add]
    exact div_self (mul_ne_zero hcz hcz)
  constructor
  · rintro ⟨_, h2, h3, h4⟩
    have hp := htop.1 (h4 ▸ h3)
    refine ⟨h2, hp, ?_⟩
    rw [h4, hp]; exact hone
  · rintro ⟨h2, hp, h4⟩
    refine ⟨le_rfl, h2, by rw [h4], ?_⟩
    rw [h4, hp]; exact hone.symm

end field

/-! ### the laws are satisfiable -/

/-- the toy bundle with an integer-valued `floor` -/
def plumeToyTransc : Transc ℚ := { toyTransc with floor := fun _ => 0 }

/-- `PlumeLaws` holds for a toy bundle over `ℚ` (`sin = 0`, `cos = 1`, `pow x _ = x²`, `floor = 0`) -/
theorem C04_plume_laws_toy : PlumeLaws plumeToyTransc where
  pow_two _ := rfl
  sin_cos_sq _ := by simp [plumeToyTransc, toyTransc]
  floor_int _ := ⟨0, by simp [plumeToyTransc]⟩
  sin_period _ _ := rfl
  cos_period _ _ := rfl

/-- the real functions with the real floor -/
noncomputable def plumeRealTransc : Transc ℝ := { realTransc with floor := fun x => (⌊x⌋ : ℝ) }

/-- `PlumeLaws` holds for the real `sin`, `cos`, `π`, `⌊·⌋` and `pow x 2 = x²` -/
theorem C04_plume_laws_real : PlumeLaws plumeRealTransc where
  pow_two _ := rfl
  sin_cos_sq x := by
    show Real.sin x * Real.sin x + Real.cos x * Real.cos x = 1
    have := Real.sin_sq_add_cos_sq x
    nlinarith [this]
  floor_int x := ⟨⌊x⌋, rfl⟩
  sin_period x z := by
    show Real.sin (x + 2 * Real.pi * z) = Real.sin x
    rw [mul_comm]; exact Real.sin_add_int_mul_two_pi x z
  cos_period x z := by
    show Real.cos (x + 2 * Real.pi * z) = Real.cos x
    rw [mul_comm]; exact Real.cos_add_int_mul_two_pi x z

/-! ### non-vacuity: a concrete plume with two cross-sections -/

/-- two cross-sections at depths 10 and 20, centres (0,0) and (2,0), semi-major axes 1 and 3, circles; `min depth` 5, `max depth` 30 -/
def plumeExample : PlumeFeature ℚ :=
  { name := "p", tag := 0, coords := [⟨0, 0⟩, ⟨2, 0⟩], minDepth := 5, maxDepth := 30, depths := [10, 20],
    semiMajor := [1, 3], ecc := [0, 0], rot := [0, 0], models := {} }

theorem plumeExample_listsOk : @PlumeFeature.ListsOk ℚ plumeExample := by
  simp [PlumeFeature.ListsOk, plumeExample]

theorem plumeExample_ascending : @StrictAscending ℚ (fieldScalar plumeToyTransc) plumeExample.depths := by
  intro i a b ha hb
  match i with
  | 0 =>
    simp [plumeExample] at ha hb
    subst ha; subst hb
    show (10 : ℚ) < 20
    norm_num
  | 1 => simp [plumeExample] at hb
  | (n + 2) => simp [plumeExample] at ha

/-- a Cartesian world and a query at `(x, y)`, depth `d` -/
def plumeCtx : Ctx ℚ := ⟨⟨false, .none, 0⟩, 1600, 293, false, 0, 1, 1, 10⟩
def plumeQuery (x y d : ℚ) : Query ℚ := { pt := ⟨0, 0, 0⟩, nat := ⟨x, y, 0⟩, depth := d, gravityNorm := 10 }

/-- between the cross-sections: at depth 15 the centre is (1,0), the radius 2; the point (2,0) is inside with `rel = 1/4` -/
example : @PlumeFeature.covers ℚ (fieldScalar plumeToyTransc) plumeExample plumeCtx (plumeQuery 2 0 15) = .ok (some (1 / 4)) := by
  rw [C04_plume_between plumeToyTransc plumeExample plumeExample_listsOk plumeExample_ascending plumeCtx (plumeQuery 2 0 15) (1 / 4)
    0 10 20 ⟨0, 0⟩ ⟨2, 0⟩ 1 3 0 0 0 0 rfl rfl rfl rfl rfl rfl rfl rfl rfl rfl (by norm_num [plumeQuery]) (by norm_num [plumeQuery])]
  simp only [plumeExample, plumeQuery, plumeCtx, surfacePoint, closestAlias, ellipseLevel, plumeToyTransc, toyTransc]
  norm_num

/-- the head: at `depth = min depth = 5` the axis point (0,0) is contained with `rel = 1` -/
example : @PlumeFeature.covers ℚ (fieldScalar plumeToyTransc) plumeExample plumeCtx (plumeQuery 0 0 5) = .ok (some 1) := by
  rw [C04_plume_head_closes plumeToyTransc C04_plume_laws_toy plumeExample plumeExample_listsOk plumeExample_ascending plumeCtx
    (plumeQuery 0 0 5) 1 10 ⟨0, 0⟩ 1 0 0 rfl rfl rfl rfl rfl rfl (by norm_num [plumeExample])
    (by norm_num) (by norm_num [plumeToyTransc, toyTransc])]
  refine ⟨by norm_num [plumeExample], ?_, rfl⟩
  simp [closestAlias, plumeCtx, surfacePoint, plumeQuery]

/-- a listed depth: at depth 20 the ellipse is the second listed one (centre (2,0), radius 3); (2,3) is on its rim -/
example : @PlumeFeature.covers ℚ (fieldScalar plumeToyTransc) plumeExample plumeCtx (plumeQuery 2 3 20) = .ok (some 1) := by
  rw [C04_plume_listed_depth plumeToyTransc C04_plume_laws_toy plumeExample plumeExample_listsOk plumeExample_ascending plumeCtx
    (plumeQuery 2 3 20) 1 1 ⟨2, 0⟩ 3 0 0 rfl rfl rfl rfl rfl]
  simp only [plumeExample, plumeQuery, plumeCtx, surfacePoint, closestAlias, ellipseLevel, plumeToyTransc, toyTransc]
  norm_num

end Gwb
