/-
C20 — Cooling models stay inside their physical envelope.

All statements are over an ordered field `F` through `fieldScalar T`; the laws of the libm members are explicit hypotheses:
`ErfcLaws T` (Proofs/Models.lean) = `erfc 0 = 1`, `0 ≤ erfc x`, `erfc` antitone on `[0,∞)`, `sqrt` positive and monotone on
the positives; for the plate models `sin 0 = 0` and `sin (i·π) = 0` for every natural `i`.  `Proofs/ModelInstances.lean`
exhibits bundles with these laws (a toy one over `ℚ`; over `ℝ` the real `sqrt`, `sin`, `π`, with `exp(−x)` standing in for `erfc`,
which Mathlib does not have).

* `C20_halfspace_envelope`        `top ≤ bot`, `0 ≤ d`, `age > 0`, `κ > 0`  ⟹  `top ≤ T_halfspace ≤ bot`;
  `C20_halfspace_monotone_depth`  non-decreasing in depth;  `C20_halfspace_antitone_age`  non-increasing in age;
  `C20_halfspace_surface`         equals `top` at depth 0;  `C20_halfspace_ridge`  equals `bot` for `age ≤ 0`;
  `C20_halfspace_model`           the same for `TempModel.get` of a replacing `half space model` (via `C05_halfspace`), with the
                                  bottom sentinel resolved at the depth of the query;
* `C20_linear_envelope_spec`      the documented area `linear` lies between its boundary temperatures between the local top
                                  and bottom and attains them there (bottom: on a non-degenerate range);
  `C20_linear_envelope`           the same for `TempModel.get` of every area copy (continental plate, oceanic plate, mantle
                                  layer).  Earlier versions excluded the continental copy and proved
                                  `C20_continental_linear_outside_envelope` (1800 K for a 300 → 1300 K profile); that defect was
                                  fixed upstream ('fix: continental plate linear temperature measured depth from the model's min
                                  depth instead of the local top'), the theorem now has no such hypothesis and the witness is gone;
  `C20_line_linear_envelope`      slab / fault `linear` (`LineTemp.get`): between, and equal at the two ends;
* `C20_plate_boundaries`          `plateSeries` / `plateSeriesConstAge`, for any number of terms, return `top` at depth 0 and
                                  `bot` at `depth = max depth` exactly (induction on the fuel: every sine factor vanishes);
  `C20_plate_model_boundaries`, `C20_plate_model_constant_age_boundaries`  the same for `TempModel.get`.

NOT a theorem, and not claimed: bounds or monotonicity of the truncated plate series between its boundaries.  The 100-term
partial sums overshoot near age 0 (Gibbs): `plate model` on its ridge and `plate model constant age` with an age of 1 yr,
273 → 1573 K over 100 km, return about 1805 K at 1 km depth.  With uninterpreted `sin`/`exp` this cannot be stated as a Lean
theorem either way; it is recorded as a known finding and explored numerically.
Also not proved: the mass-conserving and plate-model slab temperatures (not modelled here); monotonicity of the half-space
profile when the bottom temperature is the adiabatic sentinel (it then depends on depth through `exp`, for which no law is
assumed — the envelope itself is proved with the sentinel resolved).
-/
import GwbVerif.Properties.C05
namespace Gwb
open Scalar
set_option linter.unusedSectionVars false
set_option linter.unusedVariables false
set_option linter.unusedSimpArgs false

section field
variable {F : Type} [Field F] [LinearOrder F] [IsStrictOrderedRing F]

/-! ### half-space cooling -/

/-- **C20** half-space cooling stays between its end members -/
theorem C20_halfspace_envelope (T : Transc F) (L : ErfcLaws T) (top bot kappa age d : F)
    (htb : top ≤ bot) (hd : 0 ≤ d) (ha : 0 < age) (hk : 0 < kappa) :
    top ≤ @Spec.halfSpace F (fieldScalar T) top bot kappa age d ∧ @Spec.halfSpace F (fieldScalar T) top bot kappa age d ≤ bot := by
  rw [spec_halfSpace_field, if_pos ha]
  have h0 := L.arg_nonneg kappa age d hk ha hd
  exact halfspace_between top bot _ htb (L.erfc_nonneg _) (L.erfc_le_one _ h0)

example : ErfcLaws toyTransc ∧ ErfcLaws realTransc := ⟨toy_erfcLaws, real_erfcLaws⟩

example : (273 : ℚ) ≤ @Spec.halfSpace ℚ (fieldScalar toyTransc) 273 1600 (1 / 1000000) 1 1000 ∧
    @Spec.halfSpace ℚ (fieldScalar toyTransc) 273 1600 (1 / 1000000) 1 1000 ≤ 1600 :=
  C20_halfspace_envelope toyTransc toy_erfcLaws 273 1600 (1 / 1000000) 1 1000 (by norm_num) (by norm_num) (by norm_num) (by norm_num)

/-- **C20** half-space cooling does not get colder with depth -/
theorem C20_halfspace_monotone_depth (T : Transc F) (L : ErfcLaws T) (top bot kappa age d1 d2 : F)
    (htb : top ≤ bot) (hd : 0 ≤ d1) (h12 : d1 ≤ d2) (ha : 0 < age) (hk : 0 < kappa) :
    @Spec.halfSpace F (fieldScalar T) top bot kappa age d1 ≤ @Spec.halfSpace F (fieldScalar T) top bot kappa age d2 := by
  rw [spec_halfSpace_field, spec_halfSpace_field, if_pos ha, if_pos ha]
  exact halfspace_mono top bot _ _ htb
    (L.erfc_anti _ _ (L.arg_nonneg kappa age d1 hk ha hd) (L.arg_mono_depth kappa age d1 d2 hk ha h12))

/-- **C20** half-space cooling does not get warmer with age -/
theorem C20_halfspace_antitone_age (T : Transc F) (L : ErfcLaws T) (top bot kappa a1 a2 d : F)
    (htb : top ≤ bot) (hd : 0 ≤ d) (ha : 0 < a1) (h12 : a1 ≤ a2) (hk : 0 < kappa) :
    @Spec.halfSpace F (fieldScalar T) top bot kappa a2 d ≤ @Spec.halfSpace F (fieldScalar T) top bot kappa a1 d := by
  have ha2 : 0 < a2 := lt_of_lt_of_le ha h12
  rw [spec_halfSpace_field, spec_halfSpace_field, if_pos ha, if_pos ha2]
  exact halfspace_mono top bot _ _ htb
    (L.erfc_anti _ _ (L.arg_nonneg kappa a2 d hk ha2 hd) (L.arg_anti_age kappa a1 a2 d hk ha h12 hd))

/-- **C20** at depth zero the top temperature is attained (positive age) -/
theorem C20_halfspace_surface (T : Transc F) (L : ErfcLaws T) (top bot kappa age : F) (ha : 0 < age) :
    @Spec.halfSpace F (fieldScalar T) top bot kappa age 0 = top := by
  rw [spec_halfSpace_field, if_pos ha, zero_div, L.erfc_zero]; ring

/-- **C20** on the ridge and behind it (`age ≤ 0`) the profile is the bottom temperature -/
theorem C20_halfspace_ridge (T : Transc F) (top bot kappa age d : F) (ha : age ≤ 0) :
    @Spec.halfSpace F (fieldScalar T) top bot kappa age d = bot := by
  rw [spec_halfSpace_field, if_neg (not_lt.mpr ha)]

/-- **C20** the model: a replacing `half space model` inside its range returns a temperature between its top temperature and
its (resolved) bottom temperature, and the top temperature at depth zero for a positive age.  The ridge result is a hypothesis -/
theorem C20_halfspace_model (T : Transc F) (L : ErfcLaws T) (rng : DepthRange F) (top bottom : F) (ridge : RidgeSpec F) (ctx : Ctx F) (q : Query F)
    (old fMin fMax rel : F) (p : F × F) (rp : RidgeParams F)
    (hl : @DepthRange.locals F (fieldScalar T) rng ctx q false = .ok (some p))
    (hr : @ridgeQuery F (fieldScalar T) ctx q rng ridge = .ok rp)
    (hd : 0 ≤ q.depth) (hk : 0 < ctx.kappa)
    (htb : top ≤ @Spec.orAdiabatic F (fieldScalar T) bottom ctx.potentialT ctx.alpha q.gravityNorm ctx.cp q.depth) :
    ∃ v, @TempModel.get F (fieldScalar T) (.halfSpace rng .replace top bottom ridge) ctx q old fMin fMax rel = .ok v ∧
      top ≤ v ∧ v ≤ @Spec.orAdiabatic F (fieldScalar T) bottom ctx.potentialT ctx.alpha q.gravityNorm ctx.cp q.depth ∧
      (q.depth = 0 → 0 < rp.distance / rp.spreading → v = top) := by
  refine ⟨_, C05_halfspace T rng .replace top bottom ridge ctx q old fMin fMax rel p rp hl hr, ?_⟩
  simp only [applyOp_field]
  have hage : @Spec.ridgeAge F (fieldScalar T) rp.distance rp.spreading = rp.distance / rp.spreading := rfl
  rw [hage]
  rcases lt_or_ge 0 (rp.distance / rp.spreading) with ha | ha
  · obtain ⟨h1, h2⟩ := C20_halfspace_envelope T L top _ ctx.kappa _ q.depth htb hd ha hk
    refine ⟨h1, h2, fun h0 _ => ?_⟩
    rw [h0]; exact C20_halfspace_surface T L top _ ctx.kappa _ ha
  · rw [C20_halfspace_ridge T top _ ctx.kappa _ q.depth ha]
    exact ⟨htb, le_rfl, fun _ h => absurd h (not_lt.mpr ha)⟩

/-! ### linear models -/

/-- **C20** the documented area `linear` profile: inside the local range the value lies between the two boundary temperatures;
the top temperature is attained at the local top, the bottom temperature at the local bottom of a range that is not
degenerate (`10 ε ≤` thickness; a thinner range returns the top temperature everywhere) -/
theorem C20_linear_envelope_spec (T : Transc F) (heps : 0 < T.eps) (top bottom tp a g cp fMin fMax mn mx d : F) :
    let zT := max fMin mn
    let zB := min fMax mx
    let tT := @Spec.orAdiabatic F (fieldScalar T) top tp a g cp zT
    let tB := @Spec.orAdiabatic F (fieldScalar T) bottom tp a g cp zB
    (zT ≤ d → d ≤ zB →
      min tT tB ≤ @Spec.areaLinear F (fieldScalar T) top bottom tp a g cp fMin fMax mn mx d ∧
      @Spec.areaLinear F (fieldScalar T) top bottom tp a g cp fMin fMax mn mx d ≤ max tT tB) ∧
    @Spec.areaLinear F (fieldScalar T) top bottom tp a g cp fMin fMax mn mx zT = tT ∧
    (10 * T.eps ≤ zB - zT → @Spec.areaLinear F (fieldScalar T) top bottom tp a g cp fMin fMax mn mx zB = tB) := by
  intro zT zB tT tB
  simp only [spec_areaLinear_field]
  refine ⟨?_, ?_, ?_⟩
  · intro h1 h2
    show min tT tB ≤ (if zB - zT < 10 * T.eps then tT else tT + (d - zT) * (tB - tT) / (zB - zT)) ∧
      (if zB - zT < 10 * T.eps then tT else tT + (d - zT) * (tB - tT) / (zB - zT)) ≤ max tT tB
    split_ifs with hc
    · exact ⟨min_le_left _ _, le_max_left _ _⟩
    · have hz : zT < zB := by
        have := not_lt.mp hc
        linarith
      exact lerp_between tT tB zT zB d hz h1 h2
  · show (if zB - zT < 10 * T.eps then tT else tT + (zT - zT) * (tB - tT) / (zB - zT)) = tT
    split_ifs
    · rfl
    · exact lerp_top tT tB zT zB
  · intro hnd
    show (if zB - zT < 10 * T.eps then tT else tT + (zB - zT) * (tB - tT) / (zB - zT)) = tB
    rw [if_neg (not_lt.mpr hnd)]
    have hz : zT ≠ zB := by
      intro h; rw [h, sub_self] at hnd; linarith
    exact lerp_bottom tT tB zT zB hz

/-- **C20** the model, every area copy (continental plate, oceanic plate, mantle layer): a replacing `linear` inside its range
and inside the feature's depths stays between its boundary temperatures and attains them at the local top and bottom -/
theorem C20_linear_envelope (T : Transc F) (heps : 0 < T.eps) (rng : DepthRange F) (top bottom : F) (ctx : Ctx F) (q : Query F)
    (old fMin fMax rel mn mx : F)
    (hl : @DepthRange.locals F (fieldScalar T) rng ctx q false = .ok (some (mn, mx)))
    (hf1 : fMin ≤ q.depth) (hf2 : q.depth ≤ fMax) :
    let zT := max fMin mn
    let zB := min fMax mx
    let tT := @Spec.orAdiabatic F (fieldScalar T) top ctx.potentialT ctx.alpha q.gravityNorm ctx.cp zT
    let tB := @Spec.orAdiabatic F (fieldScalar T) bottom ctx.potentialT ctx.alpha q.gravityNorm ctx.cp zB
    ∃ v, @TempModel.get F (fieldScalar T) (.linear rng .replace top bottom) ctx q old fMin fMax rel = .ok v ∧
      min tT tB ≤ v ∧ v ≤ max tT tB ∧ (q.depth = zT → v = tT) ∧ (q.depth = zB → 10 * T.eps ≤ zB - zT → v = tB) := by
  intro zT zB tT tB
  refine ⟨_, C05_linear_full T rng .replace top bottom ctx q old fMin fMax rel mn mx hl, ?_⟩
  simp only [applyOp_field]
  obtain ⟨hb2, hb1⟩ := @DepthRange.locals_bounds F (fieldScalar T) rng ctx q false mn mx hl
  have hb1' : mn ≤ q.depth := hb1
  have hb2' : q.depth ≤ mx := hb2
  obtain ⟨henv, htop, hbot⟩ := C20_linear_envelope_spec T heps top bottom ctx.potentialT ctx.alpha q.gravityNorm ctx.cp fMin fMax mn mx q.depth
  obtain ⟨h1, h2⟩ := henv (max_le hf1 hb1') (le_min hf2 hb2')
  refine ⟨h1, h2, ?_, ?_⟩
  · intro h; rw [h]
    exact (C20_linear_envelope_spec T heps top bottom ctx.potentialT ctx.alpha q.gravityNorm ctx.cp fMin fMax mn mx zT).2.1
  · intro h hnd; rw [h]
    exact (C20_linear_envelope_spec T heps top bottom ctx.potentialT ctx.alpha q.gravityNorm ctx.cp fMin fMax mn mx zB).2.2 hnd

/-- a non-trivial instance of the hypotheses of `C20_linear_envelope`: model 0–200 km, feature 50–150 km, query at 100 km -/
example : (0 : ℚ) < toyTransc.eps ∧
    @DepthRange.locals ℚ (fieldScalar toyTransc) (constRange 0 200000) witnessCtx (witnessQuery 100000) false = .ok (some (0, 200000)) ∧
    (50000 : ℚ) ≤ (witnessQuery (100000 : ℚ)).depth ∧ (witnessQuery (100000 : ℚ)).depth ≤ 150000 :=
  ⟨by norm_num [toyTransc], constRange_locals toyTransc 0 200000 false _ _ (by norm_num [witnessQuery]) (by norm_num [witnessQuery]),
   by norm_num [witnessQuery], by norm_num [witnessQuery]⟩

/-- **C20** slab / fault `linear`: between the two boundary temperatures for distances inside the range, and equal to them at the
two ends (ranges of at least `10 ε`; on a narrower range the model returns the top temperature, `C05_line_linear_degenerate`) -/
theorem C20_line_linear_envelope (T : Transc F) (mn mx : F) (top bottom : F) (isFault : Bool) (ctx : Ctx F) (depth g : F) (pd : PlaneDist F) (old : F)
    (heps : 0 < T.eps) (hw : ¬ (mx - mn < 10 * T.eps))
    (h : @lineDist F (fieldScalar T) isFault pd.distanceFromPlane ≤ mx ∧ mn ≤ @lineDist F (fieldScalar T) isFault pd.distanceFromPlane) :
    let x := @lineDist F (fieldScalar T) isFault pd.distanceFromPlane
    let tT := @Spec.orAdiabatic F (fieldScalar T) top ctx.potentialT ctx.alpha g ctx.cp mn
    let tB := @Spec.orAdiabatic F (fieldScalar T) bottom ctx.potentialT ctx.alpha g ctx.cp mx
    let v := @LineTemp.get F (fieldScalar T) (.linear mn mx .replace top bottom) isFault ctx depth g pd old
    min tT tB ≤ v ∧ v ≤ max tT tB ∧ (x = mn → v = tT) ∧ (x = mx → v = tB) := by
  intro x tT tB v
  have hmm : mn < mx := by
    have : 10 * T.eps ≤ mx - mn := not_lt.mp hw
    nlinarith
  have hv : v = tT + (x - mn) * (tB - tT) / (mx - mn) := by
    show @LineTemp.get F (fieldScalar T) (.linear mn mx .replace top bottom) isFault ctx depth g pd old = _
    rw [C05_line_linear T mn mx .replace top bottom isFault ctx depth g pd old h hw, spec_lineLinear_field]
    rfl
  rw [hv]
  obtain ⟨h1, h2⟩ := lerp_between tT tB mn mx x hmm h.2 h.1
  refine ⟨h1, h2, ?_, ?_⟩
  · intro hx; rw [hx]; exact lerp_top tT tB mn mx
  · intro hx; rw [hx]; exact lerp_bottom tT tB mn mx (ne_of_lt hmm)

/-! ### plate models -/

/-- **C20** the truncated series of both plate models, for any number of terms: at depth zero the start value (the linear
term, which is the top temperature there) is returned, at `depth = max depth` likewise (the bottom temperature) -/
theorem C20_plate_boundaries (T : Transc F) (hsin0 : T.sin 0 = 0) (hsinpi : ∀ i : ℕ, T.sin ((i : F) * T.pi) = 0)
    (top bot D kappa v age plateAge : F) (hD : D ≠ 0) (fuel i : ℕ) :
    @plateSeries F (fieldScalar T) 0 D kappa v age (bot - top) fuel i (top + (bot - top) * (0 / D)) = top ∧
    @plateSeries F (fieldScalar T) D D kappa v age (bot - top) fuel i (top + (bot - top) * (D / D)) = bot ∧
    @plateSeriesConstAge F (fieldScalar T) 0 D kappa plateAge (bot - top) fuel i (top + (bot - top) * (0 / D)) = top ∧
    @plateSeriesConstAge F (fieldScalar T) D D kappa plateAge (bot - top) fuel i (top + (bot - top) * (D / D)) = bot := by
  refine ⟨?_, ?_, ?_, ?_⟩
  · rw [plateSeries_of_sin_zero T 0 D kappa v age _ (sin_arg_surface T hsin0 D)]; simp
  · rw [plateSeries_of_sin_zero T D D kappa v age _ (sin_arg_bottom T hsinpi D hD), div_self hD]; ring
  · rw [plateSeriesConstAge_of_sin_zero T 0 D kappa plateAge _ (sin_arg_surface T hsin0 D)]; simp
  · rw [plateSeriesConstAge_of_sin_zero T D D kappa plateAge _ (sin_arg_bottom T hsinpi D hD), div_self hD]; ring

example : realTransc.sin 0 = 0 ∧ ∀ i : ℕ, realTransc.sin ((i : ℝ) * realTransc.pi) = 0 := real_sinLaws

/-- **C20** a replacing `plate model` returns exactly its top temperature at depth zero and exactly its (resolved) bottom
temperature at `depth = max depth` -/
theorem C20_plate_model_boundaries (T : Transc F) (hsin0 : T.sin 0 = 0) (hsinpi : ∀ i : ℕ, T.sin ((i : F) * T.pi) = 0)
    (rng : DepthRange F) (top bottom : F) (ridge : RidgeSpec F) (ctx : Ctx F) (q : Query F)
    (old fMin fMax rel : F) (p : F × F) (rp : RidgeParams F)
    (hl : @DepthRange.locals F (fieldScalar T) rng ctx q false = .ok (some p))
    (hr : @ridgeQuery F (fieldScalar T) ctx q rng ridge = .ok rp) (hD : rng.maxDepth ≠ 0) :
    (q.depth = 0 → @TempModel.get F (fieldScalar T) (.plateModel rng .replace top bottom ridge) ctx q old fMin fMax rel = .ok top) ∧
    (q.depth = rng.maxDepth → @TempModel.get F (fieldScalar T) (.plateModel rng .replace top bottom ridge) ctx q old fMin fMax rel =
      .ok (@Spec.orAdiabatic F (fieldScalar T) bottom ctx.potentialT ctx.alpha q.gravityNorm ctx.cp q.depth)) := by
  have hget := @C05_plate_model_unfold F (fieldScalar T) rng .replace top bottom ridge ctx q old fMin fMax rel p rp hl hr
  simp only [adiabat_eq_spec, @orAdiabatic_fold F (fieldScalar T)] at hget
  constructor
  · intro h0
    rw [hget, h0, (C20_plate_boundaries T hsin0 hsinpi top _ rng.maxDepth ctx.kappa rp.spreading _ 0 hD 100 1).1]
    rfl
  · intro hd
    rw [hget, hd, (C20_plate_boundaries T hsin0 hsinpi top _ rng.maxDepth ctx.kappa rp.spreading _ 0 hD 100 1).2.1]
    rfl

/-- **C20** a replacing `plate model constant age` returns exactly its top temperature at depth zero and exactly its (resolved)
bottom temperature at `depth = max depth` -/
theorem C20_plate_model_constant_age_boundaries (T : Transc F) (hsin0 : T.sin 0 = 0) (hsinpi : ∀ i : ℕ, T.sin ((i : F) * T.pi) = 0)
    (rng : DepthRange F) (top bottom plateAge : F) (ctx : Ctx F) (q : Query F)
    (old fMin fMax rel : F) (p : F × F)
    (hl : @DepthRange.locals F (fieldScalar T) rng ctx q false = .ok (some p)) (hD : rng.maxDepth ≠ 0) :
    (q.depth = 0 → @TempModel.get F (fieldScalar T) (.plateModelConstantAge rng .replace top bottom plateAge) ctx q old fMin fMax rel = .ok top) ∧
    (q.depth = rng.maxDepth → @TempModel.get F (fieldScalar T) (.plateModelConstantAge rng .replace top bottom plateAge) ctx q old fMin fMax rel =
      .ok (@Spec.orAdiabatic F (fieldScalar T) bottom ctx.potentialT ctx.alpha q.gravityNorm ctx.cp q.depth)) := by
  have hget := @C05_plate_model_constant_age_unfold F (fieldScalar T) rng .replace top bottom plateAge ctx q old fMin fMax rel p hl
  simp only [adiabat_eq_spec, @orAdiabatic_fold F (fieldScalar T)] at hget
  constructor
  · intro h0
    rw [hget, h0, (C20_plate_boundaries T hsin0 hsinpi top _ rng.maxDepth ctx.kappa 0 0 plateAge hD 100 1).2.2.1]
    rfl
  · intro hd
    rw [hget, hd, (C20_plate_boundaries T hsin0 hsinpi top _ rng.maxDepth ctx.kappa 0 0 plateAge hD 100 1).2.2.2]
    rfl

end field
end Gwb
