/-
C02 — Features paint in file order; only covering features matter; operations compose.

Model: `World.props3` = fold of `Feature.apply` over the feature list in file order (Model/World.lean).
`Feature.cover f ctx q` is the conjunction of the guards the code evaluates before a feature writes
(area: global depth range ∧ polygon ∧ local depth range; plume: depth range ∧ ellipse/ellipsoid ≤ 1).
All theorems hold for every `Scalar R` (no laws).
-/
import GwbVerif.Proofs.TwoD
namespace Gwb
open Scalar
set_option linter.unusedSectionVars false
variable {R G : Type} [Scalar R] [RandGen G R]

/-- does `f` have an influence at the query point?  (A guard that throws counts as "covers": the exception must surface.) -/
def Feature.covers (f : Feature R) (ctx : Ctx R) (q : Query R) : Bool :=
  match f.cover ctx q with
  | .ok none => false
  | _ => true

/-- **C02.1** a feature that does not contain the point has no influence -/
theorem C02_noncovering_noop (f : Feature R) (ctx : Ctx R) (q : Query R) (h : f.covers ctx q = false)
    (pes : List (Req × Nat)) (out : List R) : f.apply (G := G) ctx q pes out = pure out := by
  funext g
  rw [Feature.apply_eq]
  unfold Feature.covers at h
  split at h <;> simp_all [QM.pure_apply]

theorem foldlM_filter_covering (fs : List (Feature R)) (ctx : Ctx R) (q : Query R) (pes : List (Req × Nat)) (out : List R) :
    fs.foldlM (fun out f => f.apply (G := G) ctx q pes out) out
      = (fs.filter (fun f => f.covers ctx q)).foldlM (fun out f => f.apply (G := G) ctx q pes out) out := by
  induction fs generalizing out with
  | nil => rfl
  | cons f fs ih =>
    by_cases hc : f.covers ctx q = true
    · simp only [List.filter_cons, hc, if_true, List.foldlM_cons]
      congr 1; funext out'; exact ih out'
    · have hc' : f.covers ctx q = false := by simpa using hc
      simp only [List.filter_cons, hc', List.foldlM_cons, C02_noncovering_noop f ctx q hc']
      simpa using ih out

/-! #### the world temperature the water-content models ask for: the same filter argument

`World.props3` hands the features the query `w.query pt depth`, which carries (unevaluated) `w.temperaturePure pt depth`.  For the
statements below the two worlds must agree on it: the temperature at the point is painted by the covering features only. -/

/-- the guards of a feature do not look at the world-temperature call-back of the query -/
theorem Feature.cover_worldT (f : Feature R) (ctx : Ctx R) (q : Query R) (t : Unit → Except Err R) :
    f.cover ctx { q with worldT := t } = f.cover ctx q := by
  cases f with
  | area a => rfl
  | plume p => rfl
  | line l => rfl

theorem Feature.covers_worldT (f : Feature R) (ctx : Ctx R) (q : Query R) (t : Unit → Except Err R) :
    f.covers ctx { q with worldT := t } = f.covers ctx q := by
  unfold Feature.covers
  rw [Feature.cover_worldT]

/-- two worlds with the same constants hand their features queries with the same guards -/
theorem Feature.covers_query (f : Feature R) (w w' : World R) (hctx : w'.ctx = w.ctx) (pt : P3 R) (depth : R) :
    f.covers w.ctx (w'.query pt depth) = f.covers w.ctx (w.query pt depth) := by
  have h1 := Feature.covers_worldT f w.ctx (w.query pt depth) (w'.query pt depth).worldT
  rw [← h1]
  simp only [World.query, hctx]

/-- a feature that does not contain the point leaves the temperature alone -/
theorem Feature.applyTemp_noncovering (f : Feature R) (ctx : Ctx R) (q : Query R) (h : f.covers ctx q = false) (old : R) :
    f.applyTemp ctx q old = .ok old := by
  unfold Feature.covers at h
  cases f with
  | area a =>
    simp only [Feature.cover] at h
    simp only [Feature.applyTemp, AreaFeature.applyTemp]
    cases hc : a.covers ctx q with
    | error e => simp [hc, Except.map] at h
    | ok o => cases o <;> simp [hc, Except.map] at h ⊢ <;> rfl
  | plume p =>
    simp only [Feature.cover] at h
    simp only [Feature.applyTemp, PlumeFeature.applyTemp]
    cases hc : p.covers ctx q with
    | error e => simp [hc, Except.map] at h
    | ok o => cases o <;> simp [hc, Except.map] at h ⊢ <;> rfl
  | line l =>
    simp only [Feature.cover] at h
    simp only [Feature.applyTemp, LineFeature.applyTemp]
    cases hc : l.covers ctx q with
    | error e => simp [hc, Except.map] at h
    | ok o => cases o <;> simp [hc, Except.map] at h ⊢ <;> rfl

theorem foldlM_applyTemp_filter_covering (fs : List (Feature R)) (ctx : Ctx R) (q : Query R) (t : R) :
    fs.foldlM (fun t f => f.applyTemp ctx q t) t = (fs.filter (fun f => f.covers ctx q)).foldlM (fun t f => f.applyTemp ctx q t) t := by
  induction fs generalizing t with
  | nil => rfl
  | cons f fs ih =>
    by_cases hc : f.covers ctx q = true
    · simp only [List.filter_cons, hc, if_true, List.foldlM_cons]
      congr 1; funext t'; exact ih t'
    · have hc' : f.covers ctx q = false := by simpa using hc
      simp only [List.filter_cons, hc', List.foldlM_cons, Feature.applyTemp_noncovering f ctx q hc']
      simpa [bind, Except.bind] using ih t

/-- the world temperature at a point is that of the world that keeps the covering features -/
theorem World.temperaturePure_filter_covering (w : World R) (pt : P3 R) (depth : R) :
    ({ w with features := w.features.filter (fun f => f.covers w.ctx (w.query pt depth)) } : World R).temperaturePure pt depth =
      w.temperaturePure pt depth := by
  have hq : ∀ f : Feature R, f.covers w.ctx (w.query pt depth) =
      f.covers w.ctx { pt := pt, nat := w.ctx.coord.toNatural pt, depth := depth, gravityNorm := w.ctx.gravity } :=
    fun f => (Feature.covers_worldT f w.ctx _ (w.query pt depth).worldT).symm
  unfold World.temperaturePure
  simp only [hq]
  split
  · rfl
  · rw [foldlM_applyTemp_filter_covering w.features]

theorem World.query_filter_covering (w : World R) (pt : P3 R) (depth : R) :
    ({ w with features := w.features.filter (fun f => f.covers w.ctx (w.query pt depth)) } : World R).query pt depth =
      w.query pt depth := by
  have h := World.temperaturePure_filter_covering w pt depth
  simp only [World.query] at h ⊢
  simp only [h]

/-- **C02.2** only covering features matter: the answer at a point is the answer of the world that keeps exactly
the features containing that point, in file order.  (Hence deleting a non-covering feature, or moving it anywhere
in the list, changes nothing there.) -/
theorem C02_filter_covering (w : World R) (pt : P3 R) (depth : R) (ps : List Req) :
    w.props3 (G := G) pt depth ps =
      ({ w with features := (w.features.filter
          (fun f => f.covers w.ctx (w.query pt depth))) } : World R).props3 pt depth ps := by
  unfold World.props3
  simp only [World.query_filter_covering w pt depth, foldlM_filter_covering w.features]

/-- corollary: any two feature lists with the same covering sub-list give the same answer at the point -/
theorem C02_same_covering_same_answer (w : World R) (fs' : List (Feature R)) (pt : P3 R) (depth : R) (ps : List Req)
    (h : w.features.filter (fun f => f.covers w.ctx (w.query pt depth))
       = fs'.filter (fun f => f.covers w.ctx (w.query pt depth))) :
    w.props3 (G := G) pt depth ps = ({ w with features := fs' } : World R).props3 pt depth ps := by
  rw [C02_filter_covering w, C02_filter_covering { w with features := fs' }]
  have hq : ∀ f : Feature R, f.covers w.ctx (({ w with features := fs' } : World R).query pt depth) = f.covers w.ctx (w.query pt depth) :=
    fun f => Feature.covers_query f w { w with features := fs' } rfl pt depth
  simp only [hq, h]

/-! ### the tag -/

theorem featuresBlocks_tag (fs : List (Feature R)) (ctx : Ctx R) (q : Query R) (b : List R) (hb : b.length = 1) (g g' : G) (bs' : List (List R))
    (h : featuresBlocks fs ctx q [Req.tag] [b] g = .ok (bs', g')) :
    bs' = [match (fs.filter (fun f => f.covers ctx q)).getLast? with
           | some f => [Scalar.nat f.tag]
           | none => b] := by
  induction fs generalizing b g with
  | nil =>
    simp only [featuresBlocks, List.foldlM_nil, QM.pure_apply, Except.ok.injEq, Prod.mk.injEq] at h
    simp [← h.1]
  | cons f fs ih =>
    simp only [featuresBlocks, List.foldlM_cons, QM.bind_apply] at h
    cases h0 : f.applyBlocks ctx q [Req.tag] [b] g with
    | error e => simp [h0] at h
    | ok r0 =>
      obtain ⟨bs1, g1⟩ := r0
      simp only [h0] at h
      unfold Feature.applyBlocks at h0
      cases hc : f.cover ctx q with
      | error e => simp [hc] at h0
      | ok o =>
        cases o with
        | none =>
          simp only [hc, Except.ok.injEq, Prod.mk.injEq] at h0
          obtain ⟨rfl, rfl⟩ := h0
          have hcov : f.covers ctx q = false := by simp [Feature.covers, hc]
          have := ih b hb g h
          simpa [List.filter_cons, hcov] using this
        | some hit =>
          have htag : hit.paintAt (G := G) ctx q Req.tag 0 b g = .ok (writeBlock 0 [Scalar.nat hit.tag] b, g) := by
            cases hit with
            | areaLike tag ms a c r => simp [Hit.paintAt, paintAt, Req.tag, QM.pure_apply, Hit.tag]
            | line l hh =>
              simp [Hit.paintAt, linePaintAtM, LineHit.prepare, Segment.prepare, linePaintAt, Req.tag, pure, Except.pure, liftE_ok,
                Hit.tag, StateT.pure, StateT.bind, bind, Except.bind]
          simp only [hc, paintBlocks, QM.bind_apply, htag, QM.pure_apply] at h0
          rw [writeBlock_zero b [Scalar.nat hit.tag] (by simp [hb]), Feature.cover_tag f ctx q hit hc] at h0
          simp only [Except.ok.injEq, Prod.mk.injEq] at h0
          obtain ⟨rfl, rfl⟩ := h0
          have hcov : f.covers ctx q = true := by simp [Feature.covers, hc]
          have := ih _ (by simp) _ h
          rw [this]
          simp only [List.filter_cons, hcov, if_true]
          cases hl : (fs.filter (fun f => f.covers ctx q)).getLast? with
          | none =>
            have : fs.filter (fun f => f.covers ctx q) = [] := by simpa using hl
            simp [this]
          | some f' =>
            have hne : fs.filter (fun f => f.covers ctx q) ≠ [] := by intro hh; simp [hh] at hl
            simp [List.getLast?_cons_of_ne_nil hne, hl]

/-- **C02.3** the reported tag is that of the last feature (in file order) containing the point, else −1 -/
theorem C02_tag_last_covering (w : World R) (pt : P3 R) (depth : R) (g g' : G) (out : List R)
    (h : w.props3 pt depth [Req.tag] g = .ok (out, g')) :
    out = (match (w.features.filter
                (fun f => f.covers w.ctx (w.query pt depth))).getLast? with
           | some f => [Scalar.nat f.tag]
           | none => [-1]) := by
  rw [World.props3_blocks] at h
  unfold World.props3Blocks at h
  have hinit : [Req.tag].mapM (initBlock w.ctx w.ctx.gravity depth) = .ok [[-1]] := by
    simp [List.mapM_cons, initBlock, Req.tag, bind, Except.bind, pure, Except.pure]
  simp only [hinit] at h
  have hearly : earlyReturn w.ctx depth [Req.tag] = false := by simp [earlyReturn, Req.tag]
  simp only [hearly, Bool.false_eq_true, if_false] at h
  cases hfb : featuresBlocks w.features w.ctx (w.query pt depth) [Req.tag] [[-1]] g with
  | error e => simp [hfb, embedBlocks] at h
  | ok r =>
    obtain ⟨bs', g1⟩ := r
    have := featuresBlocks_tag w.features w.ctx _ _ (by simp) g g1 bs' hfb
    simp only [hfb, embedBlocks, List.nil_append, Except.ok.injEq, Prod.mk.injEq] at h
    obtain ⟨rfl, _⟩ := h
    rw [this]
    simp only [reimposeBlocks, Req.tag]
    cases (w.features.filter (fun f => f.covers w.ctx (w.query pt depth))).getLast? <;> simp

/-! ### the operation algebra -/

/-- **C02.4a** `replace` overwrites, `add` / `subtract` offset the earlier value -/
theorem C02_applyOp (old new : R) :
    applyOp .replace old new = new ∧ applyOp .replaceDefinedOnly old new = new ∧
    applyOp .add old new = old + new ∧ applyOp .subtract old new = old - new := ⟨rfl, rfl, rfl, rfl⟩

/-- **C02.4b** uniform composition inside its range: a listed composition gets `applyOp op old fraction`;
an unlisted one is cleared by `replace` and left untouched by every other operation (`replace defined only`, `add`, `subtract`). -/
theorem C02_uniform_composition (rng : DepthRange R) (op : Op) (comps : List Nat) (fr : List R) (ctx : Ctx R) (q : Query R)
    (n : Nat) (old : R) (loc : R × R) (hin : rng.locals ctx q false = .ok (some loc)) (g : G) :
    (∀ i f, findComposition comps n = some i → fr[i]? = some f →
        (CompModel.uniform rng op comps fr).get ctx q n old g = .ok (applyOp op old f, g)) ∧
    (findComposition comps n = none →
        (CompModel.uniform rng op comps fr).get ctx q n old g = .ok (if op = .replace then 0.0 else old, g)) := by
  constructor
  · intro i f hi hf
    simp [CompModel.get, QM.bind_apply, QM.map_apply, hin, liftE_ok, hi, idx, hf]
  · intro hi
    simp only [CompModel.get, QM.bind_apply, hin, liftE_ok, hi]
    by_cases ho : op = .replace
    · subst ho; simp [QM.pure_apply]
    · have : (op == Op.replace) = false := by simpa using ho
      simp [this, ho, QM.pure_apply]

/-- **C02.4c** a model outside its own depth range leaves the value as it was (shown for the uniform models; the
other models have the same shape and are covered per model in C05) -/
theorem C02_out_of_range_identity (rng : DepthRange R) (op : Op) (ctx : Ctx R) (q : Query R)
    (hout : rng.locals ctx q false = .ok none) (t : R) (comps : List Nat) (fr : List R) (n : Nat) (old fMin fMax : R) (g : G) :
    (TempModel.uniform rng op t false).get ctx q old fMin fMax = .ok old ∧
    (CompModel.uniform rng op comps fr).get ctx q n old g = .ok (old, g) := by
  constructor
  · simp [TempModel.get, hout, bind, Except.bind, pure, Except.pure]
  · simp [CompModel.get, QM.bind_apply, hout, liftE_ok, QM.pure_apply]

/-- **C02.5** a feature without models of a kind leaves that temperature, composition or grains value as it was -/
theorem C02_empty_model_list_identity (tag : Nat) (ms : Models R) (ctx : Ctx R) (q : Query R) (fMin fMax rel : R) (g : G) :
    (ms.temps = [] → ∀ t : R, paintAt tag ms ctx q fMin fMax rel Req.temperature 0 [t] g = .ok ([t], g)) ∧
    (ms.comps = [] → ∀ (n : Nat) (c : R), paintAt tag ms ctx q fMin fMax rel (Req.composition n) 0 [c] g = .ok ([c], g)) ∧
    (ms.grains = [] → ∀ (n k : Nat) (blk : List R), blk.length = k * 10 →
        ∃ blk', paintAt tag ms ctx q fMin fMax rel (Req.grains n k) 0 blk g = .ok (blk', g) ∧
          blk' = (Grains.ofBlock k blk).toBlock) := by
  refine ⟨fun h t => ?_, fun h n c => ?_, fun h n k blk hb => ?_⟩
  · simp [paintAt, Req.temperature, QM.bind_apply, idx, liftE_ok, h, List.foldlM_nil, pure, Except.pure, writeBlock]; rfl
  · simp [paintAt, Req.composition, QM.bind_apply, idx, liftE_ok, h, List.foldlM_nil, writeBlock, QM.pure_apply]
  · refine ⟨_, ?_, rfl⟩
    simp only [paintAt, Req.grains, QM.bind_apply, h, List.foldlM_nil, QM.pure_apply, readBlock_zero blk _ hb]
    have hwf := Grains.ofBlock_wf k blk hb
    rw [writeBlock_zero _ _ (by rw [Grains.toBlock_length k _ hwf, hb])]

end Gwb
