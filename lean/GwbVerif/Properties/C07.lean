/-
C07 — Acceleration shortcuts never change an answer.

Slabs and faults (every `Scalar R`): the model carries the shortcuts as the flag `cull` (`cull = false` is what the `GWB_VERIF` hook
`inflate_culling_bounds` produces in the library: infinite bounding box, infinite depth cut-off).
* `C07_cull_pretest_only`   with shortcuts on and off the feature runs the *same* geometry and membership code; the shortcuts only decide
                            whether that code is entered.
* `C07_cull_equiv`          hence shortcuts on = shortcuts off at a query point **iff-style reduction**: they agree whenever the culled
                            points are non-members (`cullPre = false → un-culled result is "not covered"`), and if they agree everywhere
                            no member is ever discarded.
* `C07_no_member_discarded` a point that satisfies the membership definition (un-culled `covers = some hit`) and passes the pre-test is
                            answered identically.
That the premise "culled ⇒ non-member" holds for *every* slab (curved trenches, high latitudes, dateline) is geometry about the Newton
closest-point search and the buffer construction which is not proved here; it is searched by the oracle (library with the hook on vs off,
bit for bit).  The depth half of the premise was false for `min depth > 0` until the `fix:` commit recorded in KNOWN_FINDINGS.
Area features: the global `min/max` pre-test and the kd-guided triangle lookup are treated in C11 (boundedness ⇒ the pre-test is implied
by the local test; any containing triangle gives the same value for consistent nodal data).
-/
import GwbVerif.Properties.C04
namespace Gwb
open Scalar
set_option linter.unusedSectionVars false
variable {R : Type} [Scalar R]

/-- **C07** with shortcuts on and off the feature runs the same geometry and membership code -/
theorem C07_cull_pretest_only (f : LineFeature R) (ctx : Ctx R) (q : Query R) (b : Bool) :
    ({ f with cull := b } : LineFeature R).coversBody ctx q = f.coversBody ctx q ∧
    ({ f with cull := b } : LineFeature R).covers ctx q =
      (do if !(← ({ f with cull := b } : LineFeature R).preTest ctx q) then return none
          f.coversBody ctx q) := ⟨rfl, rfl⟩

/-- **C07** a point that passes the culling pre-test is answered identically with the shortcuts on and off -/
theorem C07_no_member_discarded (f : LineFeature R) (ctx : Ctx R) (q : Query R)
    (hpre : ({ f with cull := true } : LineFeature R).preTest ctx q = .ok true) :
    ({ f with cull := true } : LineFeature R).covers ctx q = ({ f with cull := false } : LineFeature R).covers ctx q := by
  have hoff : ({ f with cull := false } : LineFeature R).preTest ctx q = .ok true := by
    unfold LineFeature.preTest at hpre ⊢
    simp only at hpre ⊢
    cases hb : f.bbox ctx.coord with
    | error e =>
      have hb1 : ({ f with cull := true } : LineFeature R).bbox ctx.coord = .error e := hb
      simp [hb1, bind, Except.bind] at hpre
    | ok box =>
      have hb1 : ({ f with cull := true } : LineFeature R).bbox ctx.coord = .ok box := hb
      have hb2 : ({ f with cull := false } : LineFeature R).bbox ctx.coord = .ok box := hb
      simp only [hb1, bind, Except.bind, pure, Except.pure, if_true, Except.ok.injEq, Bool.and_eq_true] at hpre
      simp only [hb2, bind, Except.bind, pure, Except.pure, Bool.false_eq_true, if_false, Except.ok.injEq, Bool.and_eq_true]
      exact ⟨hpre.1.1.1, hpre.1.1.2⟩
  rw [(C07_cull_pretest_only f ctx q true).2, (C07_cull_pretest_only f ctx q false).2, hpre, hoff]

/-- **C07** shortcuts on = shortcuts off at a query point, provided the point the shortcuts discard is not a member
(`pre = false → un-culled result is "not covered"`); no premise is needed when the pre-test passes -/
theorem C07_cull_equiv (f : LineFeature R) (ctx : Ctx R) (q : Query R) (pre : Bool)
    (hpre : ({ f with cull := true } : LineFeature R).preTest ctx q = .ok pre)
    (hdiscard : pre = false → ({ f with cull := false } : LineFeature R).covers ctx q = .ok none) :
    ({ f with cull := true } : LineFeature R).covers ctx q = ({ f with cull := false } : LineFeature R).covers ctx q := by
  cases pre with
  | true => exact C07_no_member_discarded f ctx q hpre
  | false =>
    rw [hdiscard rfl, (C07_cull_pretest_only f ctx q true).2, hpre]
    rfl

end Gwb
