/-
C20 (slab envelopes) — what is true, and what is not, of "the mass-conserving and plate-model slab temperatures lie between the surface
temperature and the larger of the ambient temperature and the background adiabat; at a model's own top and bottom boundaries its
prescribed boundary temperatures are attained".

Ordered field `F`, `fieldScalar T`; libm laws are the explicit bundle `SlabLaws T` (`ErfcLaws`, `exp > 0`, `exp ≤ 1` on `(-∞,0]`,
`pow x 2 = x·x`, `sqrt (x·x) = x` for `x ≥ 0`, `π > 0`, `erfc ≥ 1` on `(-∞,0]`), satisfied by `realTransc` (`real_slabLaws`).

Slab `plate model` (`SlabPlateModel.get`, plate_model.cc):
* `C20_slab_plate_model_bottom_boundary`  at `distance = min(local thickness, max distance)` the result is exactly the adiabat of the potential
                                          mantle temperature (every sine factor is `sin 0`; any number of terms);
* `C20_slab_plate_model_envelope_full`    (a `def … : Prop`, NOT proved) the envelope `273.15 ≤ T ≤ adiabat`.  It is not a consequence of termwise
                                          laws: the 500-term partial sum of the sawtooth overshoots (Gibbs).  Float evaluation of the model
                                          (`scratch/MQEval.lean`): 100 km thick slab, Tp = 1600 K, 5 cm/yr, distance along the slab 0, 200 m
                                          below the slab top: 38.3 K.  At distance 0 the model does NOT return a surface temperature: the scaled
                                          coordinate is `1 − 2ε`, every sine is `≈ 0`, the result is the potential temperature (1600 K), the
                                          boundary condition of McKenzie's slab.
`mass conserving` (`MassConserving.analytic`, `get_temperature_analytic`, no spline):
* `C20_mass_conserving_top_envelope`      above the minimum (`adjusted distance < 0`), incoming temperature `≥ T_min`, top heat content `≤ 0`:
                                          `T_min − 1e-16 ≤ T ≤ T_old` (with `T_old < T_min` the incoming temperature is kept:
                                          `MassConserving.analytic_top_cold`).  Forced hypotheses: `κ, ρ, c_p > 0`; top heat content `≤ 0` — see
                                          `C20_mass_conserving_top_heat_content_nonpos`: it needs `forearc cooling factor ≥ 0`
                                          (with −1 the Float model returns 2791 K above a 1600 K mantle);
* `C20_mass_conserving_plate_reference_minimum`  plate-model reference: exactly `T_min` at adjusted distance 0, any number of terms
                                          (at and beyond `max distance`: the background, `MassConserving.analytic_plate_beyond`).
                                          Between the two no bound holds termwise (49-term sine series; Float: ridge 2.5 km from the
                                          trench, 8 km below the slab top: 1653.5 K > 1600 K);
* `C20_mass_conserving_subfact_bounds`, `C20_mass_conserving_min_temperature_above_coupling`, `…_below_coupling`, `…_below_coupling_drops`,
  `…_taper`                               the empirical `min_temperature − T_surface − adiabatic gradient` of the three branches of
                                          `MassConserving.get` (formulas, in the field's notation): `≥ 0` above the coupling depth; `≥ T_coup ≥ 10`
                                          below it PROVIDED `coupling depth < 660 km`; with `coupling depth > 660 km` it DROPS below `T_coup`
                                          towards `T_coup − T_min660 ≤ −290` (Float: coupling depth 700 km, slab surface at 760 km: 156 K in the
                                          slab with a surface temperature of 293.15 K); in the taper between the value at the start of the taper
                                          and `Tp` — the value at the start is computed from `depth − Δ·sin(average dip)`, which can lie above
                                          the coupling depth (same drop).
  That `min_temperature ≤ background` is not a property of the formulas: the code tests it (`if min_temperature < background`) and
  otherwise leaves the temperature alone.
Spline (`Utilities::interpolation`, monotone cubic with harmonic-mean tangents):
* `C20_spline_piece_between`, `C20_spline_tangent_bounds`   a piece whose end tangents lie between 0 and 3× its secant stays between its two
                                          samples; the interior tangents of `set_points` lie between 0 and 2× both neighbouring secants
                                          (the end tangents are 0 and the last secant).  So inside the table there is no overshoot.  Outside
                                          (`index < 0`: quadratic extrapolation; `index > 2n`: towards the never-assigned last sample `0.0`) there
                                          is no bound; reachable only with `adjusted distance > max distance`, i.e. a negative offset (Float:
                                          the 700 km coupling depth case with `apply spline`: 1282.8 K instead of 1585–1600 K at 199 km).
Not proved: the end-to-end statement about `MassConserving.get` (the formulas above are not tied to `get` by a theorem; the heat-content
bookkeeping enters only through `top heat content ≤ 0`), the list machinery of `splineSetPoints`/`splineEval`.
-/
import GwbVerif.Proofs.SlabEnvelope
namespace Gwb
open Scalar
set_option linter.unusedSectionVars false
set_option linter.unusedVariables false

section field
variable {F : Type} [Field F] [LinearOrder F] [IsStrictOrderedRing F]

/-- **C20** slab `plate model`: at the bottom of the slab the adiabat of the potential temperature is attained exactly -/
theorem C20_slab_plate_model_bottom_boundary (T : Transc F) (hsin0 : T.sin 0 = 0) (m : SlabPlateModel F) (depth g : F) (pd : PlaneDist F)
    (ap : AdditionalParams F) (old : F)
    (hr : pd.distanceFromPlane ≤ m.mx ∧ m.mn ≤ pd.distanceFromPlane)
    (hd : pd.distanceFromPlane = min ap.localThickness m.mx) (hnz : ¬ |pd.distanceFromPlane| < 2 * T.eps) (hne : pd.distanceFromPlane ≠ 0) :
    @SlabPlateModel.get F (fieldScalar T) m depth g pd ap old =
      @applyOp F (fieldScalar T) m.op old ((if m.adiabaticHeating then T.exp ((m.alpha * g * depth) / m.cp) else 1) * m.potentialT) :=
  SlabPlateModel.get_at_bottom T hsin0 m depth g pd ap old hr hd hnz hne

/-- the full envelope of the slab `plate model` (NOT proved; Gibbs overshoot of the 500-term sum, see the header) -/
def C20_slab_plate_model_envelope_full (T : Transc F) : Prop :=
  ∀ (m : SlabPlateModel F) (depth g : F) (pd : PlaneDist F) (ap : AdditionalParams F) (old : F),
    m.op = .replace → pd.distanceFromPlane ≤ m.mx ∧ m.mn ≤ pd.distanceFromPlane → 0 ≤ pd.distanceFromPlane → 0 ≤ pd.distanceAlongPlane →
    (27315 / 100 : F) ≤ m.potentialT →
    (27315 / 100 : F) ≤ @SlabPlateModel.get F (fieldScalar T) m depth g pd ap old ∧
    @SlabPlateModel.get F (fieldScalar T) m depth g pd ap old ≤
      (if m.adiabaticHeating then T.exp ((m.alpha * g * depth) / m.cp) else 1) * m.potentialT

/-- **C20** `mass conserving`, top side: `T_min − 1e-16 ≤ T ≤ T_old` -/
theorem C20_mass_conserving_top_envelope (T : Transc F) (L : SlabLaws T) (m : MassConserving F) (thc minT bg old v epa adj : F)
    (hk : 0 < m.kappa) (hrho : 0 < m.density) (hcp : 0 < m.cp) (hadj : adj < 0) (hold : ¬ old < minT) (hthc : thc ≤ 0)
    (hne : minT - old + ((OfScientific.ofScientific 1 true 16 : ℚ) : F) ≠ 0) :
    minT - ((OfScientific.ofScientific 1 true 16 : ℚ) : F) ≤ @MassConserving.analytic F (fieldScalar T) m thc minT bg old v epa adj ∧
    @MassConserving.analytic F (fieldScalar T) m thc minT bg old v epa adj ≤ old :=
  MassConserving.analytic_top_bounds T L m thc minT bg old v epa adj hk hrho hcp hadj hold hthc hne

/-- **C20** the top heat content `min(−1e9·f·T_bg, ΔH)·e` is non-positive for a non-negative forearc cooling factor `f` -/
theorem C20_mass_conserving_top_heat_content_nonpos (fc bg x e : F) (hfc : 0 ≤ fc) (hbg : 0 ≤ bg) (he : 0 ≤ e) :
    min (-1000000000 * fc * bg) x ≤ 0 ∧ min (-1000000000 * fc * bg) x * e ≤ 0 :=
  mc_top_heat_content_nonpos fc bg x e hfc hbg he

/-- **C20** plate-model reference: the minimum temperature is attained at adjusted distance 0 -/
theorem C20_mass_conserving_plate_reference_minimum (T : Transc F) (hsin0 : T.sin 0 = 0) (m : MassConserving F) (hp : m.plateRef = true)
    (thc minT bg old v epa : F) (hmx : 0 < m.mx) :
    @MassConserving.analytic F (fieldScalar T) m thc minT bg old v epa 0 = minT :=
  MassConserving.analytic_plate_at_zero T hsin0 m hp thc minT bg old v epa hmx

/-- **C20** `subfact ∈ [0.5, 1.65]`, hence `T_coup ≥ 10`, `T_min660 ≥ 300` -/
theorem C20_mass_conserving_subfact_bounds (x y : F) :
    let s := 3 / 10 + min (max x (1 / 10)) (35 / 100) + min (max y (1 / 10)) 1
    (1 / 2 : F) ≤ s ∧ s ≤ 165 / 100 ∧ (10 : F) ≤ 10 + (s - 1 / 2) * (350 - 10) ∧ (300 : F) ≤ 300 + (s - 1 / 2) * (900 - 300) := by
  intro s
  obtain ⟨h1, h2⟩ := mc_subfact_bounds x y
  obtain ⟨h3, h4⟩ := mc_tcoup_tmin660 s h1
  exact ⟨h1, h2, h3, h4⟩

/-- **C20** above the coupling depth the minimum temperature is at least the surface temperature (`T_coup·erfc θ ≥ 0`) -/
theorem C20_mass_conserving_min_temperature_above_coupling (T : Transc F) (L : SlabLaws T) (tcoup θ : F) (ht : 0 ≤ tcoup) :
    0 ≤ tcoup * T.erfc θ := mc_minT0_coupling T L tcoup θ ht

/-- **C20** below a coupling depth shallower than 660 km the minimum temperature is at least `T_surface + T_coup` -/
theorem C20_mass_conserving_min_temperature_below_coupling (T : Transc F) (L : SlabLaws T) (tcoup tmin660 cd depthRef s : F)
    (ht : 0 ≤ tmin660) (hs : 0 < s) (hcd : cd < 660000) (hd : cd ≤ depthRef) :
    tcoup ≤ tcoup + tmin660 * T.erfc ((cd - depthRef) / (s * (660000 - cd))) - tmin660 :=
  mc_minT0_deep T L tcoup tmin660 _ ht (mc_theta_deep_nonpos cd depthRef s hs hcd hd)

/-- **C20** below a coupling depth DEEPER than 660 km the same formula drops below `T_surface + T_coup` (finding) -/
theorem C20_mass_conserving_min_temperature_below_coupling_drops (T : Transc F) (L : SlabLaws T) (tcoup tmin660 cd depthRef s : F)
    (ht : 0 ≤ tmin660) (hs : 0 < s) (hcd : 660000 < cd) (hd : cd ≤ depthRef) :
    tcoup + tmin660 * T.erfc ((cd - depthRef) / (s * (660000 - cd))) - tmin660 ≤ tcoup := by
  refine mc_minT0_deep_wrong_side T L tcoup tmin660 _ ht ?_
  exact div_nonneg_of_nonpos (by linarith) (mul_nonpos_of_nonneg_of_nonpos hs.le (by linarith))

/-- **C20** in the taper the minimum temperature lies between its value at the start of the taper and the potential temperature -/
theorem C20_mass_conserving_min_temperature_taper (T : Transc F) (L : SlabLaws T) (a tp x : F) (hx : 0 ≤ x) :
    min a tp ≤ a + (tp - a) * (1 - T.erfc x) ∧ a + (tp - a) * (1 - T.erfc x) ≤ max a tp :=
  mc_minT0_taper T L a tp x hx

/-- **C20** a piece of the monotone spline with tangents between 0 and three times its secant stays between its two samples -/
theorem C20_spline_piece_between (y m c0 c1 h : F) (h0 : 0 ≤ h) (h1 : h ≤ 1) :
    (0 ≤ m → 0 ≤ c0 → c0 ≤ 3 * m → 0 ≤ c1 → c1 ≤ 3 * m →
      y ≤ (((c0 + c1 - m - m) * h + (m - c0 - (c0 + c1 - m - m))) * h + c0) * h + y ∧
      (((c0 + c1 - m - m) * h + (m - c0 - (c0 + c1 - m - m))) * h + c0) * h + y ≤ y + m) ∧
    (m ≤ 0 → c0 ≤ 0 → 3 * m ≤ c0 → c1 ≤ 0 → 3 * m ≤ c1 →
      y + m ≤ (((c0 + c1 - m - m) * h + (m - c0 - (c0 + c1 - m - m))) * h + c0) * h + y ∧
      (((c0 + c1 - m - m) * h + (m - c0 - (c0 + c1 - m - m))) * h + c0) * h + y ≤ y) :=
  ⟨fun hm a b c d => spline_piece_between_up y m c0 c1 h hm h0 h1 a b c d,
   fun hm a b c d => spline_piece_between_down y m c0 c1 h hm h0 h1 a b c d⟩

/-- **C20** the interior tangents of `set_points` are admissible for `C20_spline_piece_between` -/
theorem C20_spline_tangent_bounds (m0 m1 : F) (h0 : 0 ≤ m0) (h1 : 0 ≤ m1) :
    0 ≤ (if m0 * m1 ≤ 0 then 0 else 2 * m0 * m1 / (m0 + m1)) ∧
    (if m0 * m1 ≤ 0 then 0 else 2 * m0 * m1 / (m0 + m1)) ≤ 2 * m0 ∧
    (if m0 * m1 ≤ 0 then 0 else 2 * m0 * m1 / (m0 + m1)) ≤ 2 * m1 :=
  spline_tangent_bounds_up m0 m1 h0 h1

end field

/-! ### non-vacuity -/

example : SlabLaws realTransc := real_slabLaws
example : realTransc.sin 0 = 0 := Real.sin_zero

/-- the top-side envelope instantiated over ℝ: 1 km above the minimum, `T_min = 600`, incoming 1600 K, negative top heat content -/
example :
    (600 : ℝ) - ((OfScientific.ofScientific 1 true 16 : ℚ) : ℝ) ≤
      @MassConserving.analytic ℝ (fieldScalar realTransc) exMassConserving (-1000000000000) 600 1600 1600 1 1000000 (-1000) ∧
    @MassConserving.analytic ℝ (fieldScalar realTransc) exMassConserving (-1000000000000) 600 1600 1600 1 1000000 (-1000) ≤ 1600 :=
  C20_mass_conserving_top_envelope realTransc real_slabLaws exMassConserving (-1000000000000) 600 1600 1600 1 1000000 (-1000)
    (by norm_num [exMassConserving]) (by norm_num [exMassConserving]) (by norm_num [exMassConserving]) (by norm_num) (by norm_num) (by norm_num)
    (by norm_num)

/-- the plate-model reference instantiated -/
example : @MassConserving.analytic ℝ (fieldScalar realTransc) { exMassConserving with plateRef := true } 0 600 1600 1600 1 1000000 0 = 600 :=
  C20_mass_conserving_plate_reference_minimum realTransc Real.sin_zero _ rfl 0 600 1600 1600 1 1000000 (by norm_num [exMassConserving])

/-- a slab `plate model` query at the bottom of a 100 km slab -/
example : ∃ (m : SlabPlateModel ℝ) (pd : PlaneDist ℝ) (ap : AdditionalParams ℝ),
    (pd.distanceFromPlane ≤ m.mx ∧ m.mn ≤ pd.distanceFromPlane) ∧ pd.distanceFromPlane = min ap.localThickness m.mx ∧
    ¬ |pd.distanceFromPlane| < 2 * realTransc.eps ∧ pd.distanceFromPlane ≠ 0 :=
  ⟨⟨0, 100000, .replace, 3300, 0.05, 2.5, 0, 1250, false, 1600⟩, ⟨100000, 0, 0, 0, 0, 0, 45, 0, ⟨0, 0, 0⟩⟩, ⟨300000, 100000⟩,
   by norm_num, by norm_num, by norm_num [realTransc, abs_of_pos], by norm_num⟩

/-- spline piece: secant 2, tangents 1 and 4 -/
example : (0 : ℚ) ≤ 2 ∧ (0 : ℚ) ≤ 1 ∧ (1 : ℚ) ≤ 3 * 2 ∧ (0 : ℚ) ≤ 4 ∧ (4 : ℚ) ≤ 3 * 2 := by norm_num

end Gwb
