/-
C08 — Answers are invariant under rigid motions of world plus query.

Setting.  Everything is stated over a linearly ordered field `F` through `fieldScalar T` ("up to rounding" = exact in the field);
laws of libm members are explicit hypotheses (`PeriodLaws`, `AngleAddLaws`), each shown satisfiable (toy bundle over `ℚ`, real
functions over `ℝ`).  Vocabulary (Proofs/Motion*.lean): `P2.shift v p = p + v`, `P2.rot c s p = [[c,−s],[s,c]]·p`;
`X.shift v` for a polygon (`List.map`), a `Bezier`, a `PlumeFeature`, an `AreaFeature`, a `BBox`, a kd-node array, a `Surface`
moves every coordinate of `X` by `v`.

1. Translation, Cartesian
* `C08_polygon_translation_spec`     the SPECIFICATION of the polygon test (`InPolygon`: on a closed edge or non-zero crossing sum) is
                                     translation invariant.
* `C08_polygon_translation`          the transliterated loop `polygonContainsImpl` gives the same verdict on the translated polygon at the
                                     translated point, PROVIDED the vertex test `approx(v.x,p.x) && approx(v.y,p.y)` only accepts the vertex itself
                                     in both configurations (`VertexExact`; implied by `Separated` of `Proofs/PolygonField.lean`).  Everything
                                     else in the loop body is a function of coordinate differences and of `y`-comparisons
                                     (`C08_polygon_translation_of_vertexTest`: it suffices that the vertex test gives the same verdict edge by edge).
* `C08_approx_not_translation_invariant`, `C08_polygon_translation_full_false`
                                     CANDIDATE FINDING.  `approx(a,b) = |a−b| < |min(a,b)|·ε·1e4` is relative to the coordinates, hence not
                                     translation invariant, and the polygon test inherits this: with `ε = 2⁻⁵²` the point `(2+2⁻⁴⁰, 2+2⁻⁴⁰)` OUTSIDE
                                     the square `[1,2]²` is reported inside (it is `approx`-equal to the corner `(2,2)`), and reported outside after
                                     polygon and point are moved by `(−2,−2)` (corner at the origin, where the relative tolerance is zero).
                                     All numbers are doubles, the translation is exact in double arithmetic: replayable on the library.
* `C08_bezier_build_translation`     `Bezier.build` on translated points: translated points, translated control points, the same angles.
* `C08_bezier_closest_translation_partial`
                                     `Bezier.closestPoint false` on the translated curve at the translated point: same piece index, same parametric
                                     fraction, same normal, translated foot point, same ABSOLUTE distance (every Newton iterate is equal: the
                                     power-basis coefficients `a,b,c` are differences, `d − check_point` too).  Partial: the SIGN of `distance`.
* `C08_bezier_closest_translation_full_false`
                                     CANDIDATE FINDING.  The sign is taken from `(derivative_point − point_on_curve)·(check_point − point_on_curve)`
                                     (bezier_curve.cc:341-344, 533-536): a derivative VECTOR minus a POSITION.  At the foot point the derivative is
                                     orthogonal to `check − foot`, so the sign is that of `−foot·(check − foot)`: it tells on which side of the
                                     curve the ORIGIN lies.  Witness: straight curve `(−1,y),(0,y),(1,y)`, check point `(0,y+1)`: distance `+1` for
                                     `y = 0`, `−1` for `y = 1`.  (Inside the library nothing reads the signed `distance`; users of
                                     `BezierCurve::closest_point_on_curve_segment` do.)
* `C08_ridge_translation`            `ridgeDistanceAndSpreading false` (all four outputs) when every ridge coordinate and the query's surface
                                     coordinates move together.
* `C08_bbox_translation`, `C08_kd_translation`, `C08_surface_translation`, `C08_triangle_translation`
                                     `BBox.inside false`; the kd-tree search (same visited list, same distances); `inTriangle` with its absolute
                                     tolerance; `Surface.localValue false` when triangle vertices, kd-nodes and query move together (surface with
                                     `pre = triangles.map precompute`, which `Surface.build` establishes).
* `C08_ellipse_translation`, `C08_plume_covers_translation`
                                     `fractionFromEllipseCenter`; `PlumeFeature.covers` (verdict and relative distance) under translating `coords`
                                     and the query's surface point — Cartesian, and verbatim for a common (lon, lat) offset in spherical worlds,
                                     because the alias of the query longitude is chosen from the difference to the centre.
* `C08_area_covers_translation`      the guard `AreaFeature.covers` (polygon + both depth surfaces), Cartesian, same proviso as the polygon test.

2. Rotation about the vertical by `[[c,−s],[s,c]]`, `c² + s² = 1`
* `C08_rotation_partial`             dot product, cross product `(b−a)×(p−a)`, `sideOfLine`, `P2.normSq`, `P2.norm`, Cartesian `P2.distanceTo`,
                                     "on the closed edge" are invariant term by term.  NOT covered: the polygon test.  Its crossing count compares
                                     the `y`-coordinates of the vertices with the point's (which edges are visited, half-open rule), and a rotation
                                     changes these edge by edge; only the total (the winding number) is invariant, which is not a term-wise fact.
* `C08_ellipse_rotation`             `fractionFromEllipseCenter` when centre and point are rotated and the ellipse angle `θ` becomes `θ + φ`
                                     (`c = cos φ`, `s = sin φ`, angle-addition laws as hypotheses); `C08_ellipse_rotation_gen` with the two
                                     addition formulas for the new angle as direct hypotheses.

3. Longitude
* `C08_longitude_alias_same_point`   `sin`, `cos` `2π`-periodic: `CoordSys.toCartesian` of `(r, L + 2πk, lat)` is that of `(r, L, lat)`
                                     (`C08_longitude_plus_minus_two_pi`: `k = ±1`);
  `C08_longitude_alias_same_answer`  hence `World.props3` (every property) at the two descriptions is literally the same computation.
* `C08_alias_complete`               for `L ∈ (−π, π]`, `L ≠ 0` the representations `L + 2πk` lying in `[−2π, 2π]` are exactly `L` and
                                     `(otherPoint p).x`;  `C08_polygonContains_tries_all_aliases`: the spherical polygon test answers "inside" iff
                                     some in-range representation of the query longitude is inside the footprint as drawn.
* `C08_alias_zero_missed`, `C08_footprint_at_zero_missed`
                                     CANDIDATE FINDING (boundary case).  At `L = 0` `otherPoint` is `−2π` only; the representation `+2π` is never
                                     tried.  Witness (`π := 3`): footprint with longitudes `[5, 6 = 2π]`; the point `(2π, 0)` lies on its boundary
                                     (`polygonContainsImpl = true`), the spherical test at `(0, 0)` says outside.
* `C08_polygonContains_lon_offset`, `C08_bbox_lon_offset`
                                     the spherical wrappers under a common longitude offset `d` of footprint/box and point representation,
                                     when `d` keeps the sign test `lon < 0` of `otherPoint` (translation in the `lon` coordinate, from 1).
* `C08_polygonContains_lon_offset_general`
                                     the general case: footprint offset by `d` (drawn within `[−2π, 2π]` before and after; it may cross the
                                     `±π` meridian), query longitude re-normalised to `(−π, π]` (`L' = L + d + 2πj`), `L, L' ≠ 0`, tolerances exact
                                     (`Separated` for every representation): same verdict.  Rests on `C08_polygonContains_tries_all_aliases` and
                                     on `C08_inPolygon_lon_bounds`: a point of `InPolygon` has its longitude within the vertex longitudes (to the
                                     right of all vertices every crossing term is `0`; to the left the terms are `[a.y ≤ y] − [b.y ≤ y]` and
                                     telescope around the closed polygon).  Not done: the analogue for `BBox.inside true`.

What is NOT proved
* No statement about a whole `World.props3` under translation/rotation of a world: the theorems are per kernel (polygon, Bezier, ridge,
  surface, plume/area guards).  `distance_point_from_curved_planes` (Dpfcp.lean) is not treated; note its on-trench branch computes
  `reference_p = (normal − closest_point)*1e2 + closest_point` (utilities.cc:557), again a direction minus a position, and scales a step by
  `max(‖closest_point‖, 1)` — both depend on where the origin is.
* Rotation of the polygon test, of the Bezier construction (angles shift by `φ` modulo the `atan2` branch) and of the kd-tree (axis
  aligned) are not term-wise invariants and are not claimed.
* Exact field arithmetic only; rounding is out of scope.
-/
import GwbVerif.Proofs.MotionSurface
import GwbVerif.Proofs.MotionWitness
import GwbVerif.Proofs.MotionRidge
import GwbVerif.Proofs.MotionRot
import GwbVerif.Proofs.MotionLon
import Mathlib.Analysis.SpecialFunctions.Trigonometric.Basic
import GwbVerif.Model.World
namespace Gwb
open Scalar
set_option linter.unusedSectionVars false

section field
variable {F : Type} [Field F] [LinearOrder F] [IsStrictOrderedRing F] (T : Transc F)

/-! ### 3(a) a query described with `L` or `L ± 2π` is the same Cartesian point -/

/-- **C08** `natural_to_cartesian_coordinates` of `(r, L + 2πk, lat)` equals that of `(r, L, lat)` (spherical system, `sin`/`cos`
`2π`-periodic); `k = ±1` is "`L ± 360°`" -/
theorem C08_longitude_alias_same_point (hT : PeriodLaws T) (c : CoordSys F) (hc : c.spherical = true) (r L lat : F) (k : ℤ) :
    @CoordSys.toCartesian F (fieldScalar T) c ⟨r, L + 2 * T.pi * k, lat⟩ = @CoordSys.toCartesian F (fieldScalar T) c ⟨r, L, lat⟩ := by
  unfold CoordSys.toCartesian
  simp only [hc, if_true]
  exact sphericalToCartesian_lon_congr T r L _ lat (hT.sin_int L k) (hT.cos_int L k)

/-- **C08** the two cases of the property text: `L + 360°` and `L − 360°` -/
theorem C08_longitude_plus_minus_two_pi (hT : PeriodLaws T) (c : CoordSys F) (hc : c.spherical = true) (r L lat : F) :
    @CoordSys.toCartesian F (fieldScalar T) c ⟨r, L + 2 * T.pi, lat⟩ = @CoordSys.toCartesian F (fieldScalar T) c ⟨r, L, lat⟩ ∧
    @CoordSys.toCartesian F (fieldScalar T) c ⟨r, L - 2 * T.pi, lat⟩ = @CoordSys.toCartesian F (fieldScalar T) c ⟨r, L, lat⟩ := by
  have h1 := C08_longitude_alias_same_point T hT c hc r L lat 1
  have h2 := C08_longitude_alias_same_point T hT c hc r L lat (-1)
  have e1 : L + 2 * T.pi * ((1 : ℤ) : F) = L + 2 * T.pi := by push_cast; ring
  have e2 : L + 2 * T.pi * ((-1 : ℤ) : F) = L - 2 * T.pi := by push_cast; ring
  rw [e1] at h1
  rw [e2] at h2
  exact ⟨h1, h2⟩

/-- **C08** hence every property at every depth: the two descriptions of the query point run literally the same computation
(everything downstream of the API takes the Cartesian point) -/
theorem C08_longitude_alias_same_answer {G : Type} [@RandGen G F] (hT : PeriodLaws T) (w : World F)
    (hc : w.ctx.coord.spherical = true) (r L lat : F) (k : ℤ) (depth : F) (ps : List Req) :
    @World.props3 F (fieldScalar T) G _ w (@CoordSys.toCartesian F (fieldScalar T) w.ctx.coord ⟨r, L + 2 * T.pi * k, lat⟩) depth ps =
      @World.props3 F (fieldScalar T) G _ w (@CoordSys.toCartesian F (fieldScalar T) w.ctx.coord ⟨r, L, lat⟩) depth ps := by
  rw [C08_longitude_alias_same_point T hT w.ctx.coord hc]

/-! ### 3(b) alias completeness -/

/-- **C08** for `L ∈ (−π, π]`, `L ≠ 0`: a representation `L + 2πk` lies in `[−2π, 2π]` iff it is `L` or the longitude of `otherPoint` -/
theorem C08_alias_complete (hπ : 0 < T.pi) (p : P2 F) (hlo : -T.pi < p.x) (hhi : p.x ≤ T.pi) (hne : p.x ≠ 0) (k : ℤ) :
    (-(2 * T.pi) ≤ p.x + 2 * T.pi * k ∧ p.x + 2 * T.pi * k ≤ 2 * T.pi) ↔
      (p.x + 2 * T.pi * k = p.x ∨ p.x + 2 * T.pi * k = (@otherPoint F (fieldScalar T) p).x) :=
  alias_in_range_iff T hπ p hlo hhi hne k

/-- **C08** so trying the point and `otherPoint` covers every footprint whose longitudes stay in `[−2π, 2π]`: the spherical polygon
test says "inside" iff some in-range representation of the query longitude is inside the footprint as drawn in the (lon, lat) plane -/
theorem C08_polygonContains_tries_all_aliases (hπ : 0 < T.pi) (pts : List (P2 F)) (p : P2 F) (hlo : -T.pi < p.x) (hhi : p.x ≤ T.pi)
    (hne : p.x ≠ 0) :
    @polygonContains F (fieldScalar T) true pts p = true ↔
      ∃ k : ℤ, (-(2 * T.pi) ≤ p.x + 2 * T.pi * k ∧ p.x + 2 * T.pi * k ≤ 2 * T.pi) ∧
        @polygonContainsImpl F (fieldScalar T) pts ⟨p.x + 2 * T.pi * k, p.y⟩ = true :=
  polygonContains_spherical_iff T hπ pts p hlo hhi hne

/-- **C08** (candidate finding, boundary case) at `L = 0` the representation `+2π` lies in `[−2π, 2π]` but is neither `L` nor the
longitude of `otherPoint`, which is `−2π` -/
theorem C08_alias_zero_missed (hπ : 0 < T.pi) (y : F) :
    (-(2 * T.pi) ≤ (0 : F) + 2 * T.pi * ((1 : ℤ) : F) ∧ (0 : F) + 2 * T.pi * ((1 : ℤ) : F) ≤ 2 * T.pi) ∧
    (0 : F) + 2 * T.pi * ((1 : ℤ) : F) ≠ 0 ∧
    (0 : F) + 2 * T.pi * ((1 : ℤ) : F) ≠ (@otherPoint F (fieldScalar T) ⟨0, y⟩).x ∧
    (@otherPoint F (fieldScalar T) ⟨0, y⟩).x = -(2 * T.pi) :=
  alias_zero_missed T hπ y

/-! ### 1(a) the polygon test under translation -/

/-- **C08** the specification of the polygon test is translation invariant -/
theorem C08_polygon_translation_spec (v : P2 F) (pts : List (P2 F)) (p : P2 F) :
    InPolygon (pts.map (P2.shift v)) (P2.shift v p) ↔ InPolygon pts p :=
  inPolygon_shift v pts p

/-- **C08** the transliterated polygon test (Cartesian: `polygonContains false`) is translation invariant when the vertex tolerance
only accepts the vertex itself in both configurations -/
theorem C08_polygon_translation (heps : 0 < T.eps) (v : P2 F) (pts : List (P2 F)) (p : P2 F)
    (h1 : VertexExact T pts p) (h2 : VertexExact T (pts.map (P2.shift v)) (P2.shift v p)) :
    @polygonContains F (fieldScalar T) false (pts.map (P2.shift v)) (P2.shift v p) = @polygonContains F (fieldScalar T) false pts p := by
  unfold polygonContains
  simp only [Bool.false_eq_true, if_false]
  exact polygonContainsImpl_shift T heps v pts p h1 h2

/-- **C08** it suffices that the vertex test gives the same verdict edge by edge: the rest of the loop body is a function of
coordinate differences and of `y`-comparisons -/
theorem C08_polygon_translation_of_vertexTest (v : P2 F) (pts : List (P2 F)) (p : P2 F)
    (h : ∀ e ∈ polygonEdges pts, vertexTest T (P2.shift v e.2) (P2.shift v p) = vertexTest T e.2 p) :
    @polygonContains F (fieldScalar T) false (pts.map (P2.shift v)) (P2.shift v p) = @polygonContains F (fieldScalar T) false pts p := by
  unfold polygonContains
  simp only [Bool.false_eq_true, if_false]
  exact polygonContainsImpl_shift_of_vertexTest T v pts p h

/-- the hypothesis `Separated` of `polygonContainsImpl_iff` implies `VertexExact` -/
theorem C08_vertexExact_of_separated (pts : List (P2 F)) (p : P2 F) (hs : Separated T pts p) : VertexExact T pts p :=
  hs.vertexExact T

/-- the unconditional statement (FALSE, see `C08_polygon_translation_full_false`) -/
def C08_polygon_translation_full : Prop :=
  ∀ (v : P2 F) (pts : List (P2 F)) (p : P2 F),
    @polygonContains F (fieldScalar T) false (pts.map (P2.shift v)) (P2.shift v p) = @polygonContains F (fieldScalar T) false pts p

/-! ### 1(e) plume -/

/-- **C08** `fraction_from_ellipse_center` only sees `point − centre` -/
theorem C08_ellipse_translation (v center : P2 F) (sma ecc theta : F) (p : P2 F) :
    @fractionFromEllipseCenter F (fieldScalar T) (P2.shift v center) sma ecc theta (P2.shift v p) =
      @fractionFromEllipseCenter F (fieldScalar T) center sma ecc theta p :=
  fractionFromEllipseCenter_shift T v center sma ecc theta p

/-- **C08** the plume's footprint test (verdict and relative distance handed to the models): cross-section centres and the query's
surface point translated by the same vector (Cartesian), or offset by the same (lon, lat) amounts (spherical) -/
theorem C08_plume_covers_translation (f : PlumeFeature F) (v : P2 F) (ctx : Ctx F) (q q' : Query F) (hdepth : q'.depth = q.depth)
    (hsp : surfacePoint ctx.coord.spherical q'.nat = P2.shift v (surfacePoint ctx.coord.spherical q.nat)) :
    @PlumeFeature.covers F (fieldScalar T) (f.shift v) ctx q' = @PlumeFeature.covers F (fieldScalar T) f ctx q :=
  PlumeFeature.covers_shift T f v ctx q q' hdepth hsp

/-! ### 2 rotation about the vertical -/

/-- **C08** (partial: everything but the polygon test) the kernels built from dot products, cross products and norms are invariant
under `[[c,−s],[s,c]]`, `c² + s² = 1`, term by term -/
theorem C08_rotation_partial (c s : F) (h : c * c + s * s = 1) :
    (∀ a b : P2 F, @P2.dot F (fieldScalar T) (P2.rot c s a) (P2.rot c s b) = @P2.dot F (fieldScalar T) a b) ∧
    (∀ a b p : P2 F, crossP (P2.rot c s a) (P2.rot c s b) (P2.rot c s p) = crossP a b p) ∧
    (∀ p1 p2 q : P2 F, @sideOfLine F (fieldScalar T) (P2.rot c s p1) (P2.rot c s p2) (P2.rot c s q) =
        @sideOfLine F (fieldScalar T) p1 p2 q) ∧
    (∀ a : P2 F, @P2.normSq F (fieldScalar T) (P2.rot c s a) = @P2.normSq F (fieldScalar T) a) ∧
    (∀ a : P2 F, @P2.norm F (fieldScalar T) (P2.rot c s a) = @P2.norm F (fieldScalar T) a) ∧
    (∀ a b : P2 F, @P2.distanceTo F (fieldScalar T) false (P2.rot c s a) (P2.rot c s b) = @P2.distanceTo F (fieldScalar T) false a b) ∧
    (∀ a b p : P2 F, OnSegment (P2.rot c s a) (P2.rot c s b) (P2.rot c s p) ↔ OnSegment a b p) :=
  ⟨P2.dot_rot T c s h, crossP_rot c s h, sideOfLine_rot T c s h, P2.normSq_rot T c s h, P2.norm_rot T c s h,
    P2.distanceTo_rot T c s h, onSegment_rot c s h⟩

/-- **C08** `fraction_from_ellipse_center` under rotation, the new ellipse angle `θ'` given by its addition formulas -/
theorem C08_ellipse_rotation_gen (c s : F) (h : c * c + s * s = 1) (center : P2 F) (sma ecc theta theta' : F) (p : P2 F)
    (hcos : T.cos theta' = T.cos theta * c - T.sin theta * s) (hsin : T.sin theta' = T.sin theta * c + T.cos theta * s) :
    @fractionFromEllipseCenter F (fieldScalar T) (P2.rot c s center) sma ecc theta' (P2.rot c s p) =
      @fractionFromEllipseCenter F (fieldScalar T) center sma ecc theta p :=
  fractionFromEllipseCenter_rot T c s h center sma ecc theta theta' p hcos hsin

/-- **C08** rotation of the world by `φ`: plume centre and query rotated, the plume's rotation angle shifted to `θ + φ` -/
theorem C08_ellipse_rotation (hT : AngleAddLaws T) (phi : F) (center : P2 F) (sma ecc theta : F) (p : P2 F) :
    @fractionFromEllipseCenter F (fieldScalar T) (P2.rot (T.cos phi) (T.sin phi) center) sma ecc (theta + phi)
        (P2.rot (T.cos phi) (T.sin phi) p) =
      @fractionFromEllipseCenter F (fieldScalar T) center sma ecc theta p :=
  fractionFromEllipseCenter_rot_angle T hT phi center sma ecc theta p

/-! ### 1(b) the Bezier trench curve -/

/-- **C08** `BezierCurve::BezierCurve` on translated points: translated points and control points, the same angles -/
theorem C08_bezier_build_translation (v : P2 F) (pts : List (P2 F)) :
    @Bezier.build F (fieldScalar T) (pts.map (P2.shift v)) = Except.map (Bezier.shift v) (@Bezier.build F (fieldScalar T) pts) :=
  Bezier.build_shift T v pts

/-- the full statement: the result follows the translation in every member (FALSE: `C08_bezier_closest_translation_full_false`) -/
def C08_bezier_closest_translation_full : Prop :=
  ∀ (v : P2 F) (bz : Bezier F) (cp : P2 F),
    @Bezier.closestPoint F (fieldScalar T) (bz.shift v) false (P2.shift v cp) =
      Except.map (Option.map (ClosestPoint.shift v)) (@Bezier.closestPoint F (fieldScalar T) bz false cp)

/-- **C08** (partial: the sign of `distance` is missing) the whole damped Newton iteration is translation invariant: same piece,
same parametric fraction, same normal, translated foot point, same absolute distance; errors and the "nothing accepted" result agree -/
theorem C08_bezier_closest_translation_partial (v : P2 F) (bz : Bezier F) (cp : P2 F) :
    Except.map (Option.map ClosestPoint.unsign) (@Bezier.closestPoint F (fieldScalar T) (bz.shift v) false (P2.shift v cp)) =
      Except.map (Option.map (fun c => (c.shift v).unsign)) (@Bezier.closestPoint F (fieldScalar T) bz false cp) :=
  Bezier.closestPoint_shift T v bz cp

/-! ### 1(c) ridge distance -/

/-- **C08** `calculate_ridge_distance_and_spreading` (Cartesian): spreading velocity, distance, subducting velocity and migration
time are unchanged when all ridge coordinates and the query's surface coordinates are translated together -/
theorem C08_ridge_translation (v : P2 F) (ridges : List (List (P2 F))) (vels : List (List F)) (nat : P3 F)
    (subVel : List (List F)) (migr : List F) :
    @ridgeDistanceAndSpreading F (fieldScalar T) false (ridges.map (List.map (P2.shift v))) vels (P3.shiftXY v nat) subVel migr =
      @ridgeDistanceAndSpreading F (fieldScalar T) false ridges vels nat subVel migr :=
  ridgeDistanceAndSpreading_shift T v ridges vels nat subVel migr

/-! ### 1(d) bounding box, kd-tree, depth surfaces -/

/-- **C08** `BoundingBox::point_inside` (Cartesian), any tolerance -/
theorem C08_bbox_translation (v : P2 F) (b : BBox F) (p : P2 F) :
    @BBox.inside F (fieldScalar T) (b.shift v) false (P2.shift v p) = @BBox.inside F (fieldScalar T) b false p :=
  BBox.inside_shift T v b p

/-- **C08** the kd-tree search visits the same nodes with the same distances when nodes and query move together -/
theorem C08_kd_translation (v : P2 F) (nodes : Array (KdNode F)) (p : P2 F) :
    @kdFindClosestPoints F (fieldScalar T) (nodes.map (KdNode.shift v)) (P2.shift v p) =
      @kdFindClosestPoints F (fieldScalar T) nodes p :=
  kdFindClosestPoints_shift T v nodes p

/-- **C08** the triangle test (absolute tolerance on cross products of differences) and its interpolated value -/
theorem C08_triangle_translation (v : P2 F) (t : Tri F) (p : P2 F) :
    @inTriangle F (fieldScalar T) (t.shift v) (@Tri.precompute F (fieldScalar T) (t.shift v)) (P2.shift v p) =
      @inTriangle F (fieldScalar T) t (@Tri.precompute F (fieldScalar T) t) p :=
  inTriangle_shift T v t p

/-- **C08** `Surface::local_value` (Cartesian) when triangle vertices, kd-nodes and the query move together -/
theorem C08_surface_translation (v : P2 F) (s : Surface F) (hs : @Surface.PreOk F (fieldScalar T) s) (p : P2 F) :
    @Surface.localValue F (fieldScalar T) (s.shift T v) false (P2.shift v p) = @Surface.localValue F (fieldScalar T) s false p :=
  Surface.localValue_shift T v s hs p

/-- **C08** the footprint-and-depth guard of the area features (Cartesian) -/
theorem C08_area_covers_translation (heps : 0 < T.eps) (v : P2 F) (f : AreaFeature F) (ctx : Ctx F) (q q' : Query F)
    (hcart : ctx.coord.spherical = false) (hdepth : q'.depth = q.depth)
    (hsp : surfacePoint false q'.nat = P2.shift v (surfacePoint false q.nat))
    (hmin : @Surface.PreOk F (fieldScalar T) f.rng.minS) (hmax : @Surface.PreOk F (fieldScalar T) f.rng.maxS)
    (h1 : VertexExact T f.coords (surfacePoint false q.nat))
    (h2 : VertexExact T (f.coords.map (P2.shift v)) (P2.shift v (surfacePoint false q.nat))) :
    @AreaFeature.covers F (fieldScalar T) (f.shift T v) ctx q' = @AreaFeature.covers F (fieldScalar T) f ctx q :=
  AreaFeature.covers_shift T heps v f ctx q q' hcart hdepth hsp hmin hmax h1 h2

/-! ### 3(c) common longitude offset in the (lon, lat) plane -/

/-- **C08** the spherical polygon test under a common longitude offset `d` of footprint and point representation
(`d` keeps the sign test of `otherPoint`; vertex tolerance exact in the four tests) -/
theorem C08_polygonContains_lon_offset (heps : 0 < T.eps) (d : F) (pts : List (P2 F)) (p : P2 F) (hs : p.x + d < 0 ↔ p.x < 0)
    (h1 : VertexExact T pts p) (h1' : VertexExact T (pts.map (P2.shift ⟨d, 0⟩)) (P2.shift ⟨d, 0⟩ p))
    (h2 : VertexExact T pts (@otherPoint F (fieldScalar T) p))
    (h2' : VertexExact T (pts.map (P2.shift ⟨d, 0⟩)) (P2.shift ⟨d, 0⟩ (@otherPoint F (fieldScalar T) p))) :
    @polygonContains F (fieldScalar T) true (pts.map (P2.shift ⟨d, 0⟩)) (P2.shift ⟨d, 0⟩ p) =
      @polygonContains F (fieldScalar T) true pts p :=
  polygonContains_lon_offset T heps d pts p hs h1 h1' h2 h2'

/-- **C08** (specification level) a point of the polygon — on a closed edge or with non-zero crossing sum — has its longitude between
the least and the greatest vertex longitude (non-degenerate edges): representations of the query outside `[−2π, 2π]` cannot be inside
a footprint drawn within `[−2π, 2π]` -/
theorem C08_inPolygon_lon_bounds (pts : List (P2 F)) (q : P2 F) (lo hi : F) (hnd : ∀ e ∈ polygonEdges pts, e.1 ≠ e.2)
    (hlo : ∀ v ∈ pts, lo ≤ v.x) (hhi : ∀ v ∈ pts, v.x ≤ hi) (h : InPolygon pts q) : lo ≤ q.x ∧ q.x ≤ hi :=
  inPolygon_x_bounds pts q lo hi hnd hlo hhi h

/-- **C08** common longitude offset, general case: the footprint is offset by `d` (both drawings within `[−2π, 2π]`; the offset may
carry it across the `±π` meridian), the query longitude `L ∈ (−π, π]` becomes any representation `L' = L + d + 2πj ∈ (−π, π]` (what the
conversion to natural coordinates returns), `L, L' ≠ 0`, tolerances exact for every representation (`Separated`): same verdict -/
theorem C08_polygonContains_lon_offset_general (hπ : 0 < T.pi) (pts : List (P2 F)) (d : F) (p p' : P2 F) (j : ℤ)
    (hlo : -T.pi < p.x) (hhi : p.x ≤ T.pi) (hne : p.x ≠ 0)
    (hlo' : -T.pi < p'.x) (hhi' : p'.x ≤ T.pi) (hne' : p'.x ≠ 0)
    (hrel : p'.x = p.x + d + 2 * T.pi * j) (hy : p'.y = p.y)
    (hrange : ∀ v ∈ pts, -(2 * T.pi) ≤ v.x ∧ v.x ≤ 2 * T.pi)
    (hrange' : ∀ v ∈ pts, -(2 * T.pi) ≤ v.x + d ∧ v.x + d ≤ 2 * T.pi)
    (hsep : ∀ k : ℤ, Separated T pts ⟨p.x + 2 * T.pi * k, p.y⟩)
    (hsep' : ∀ k : ℤ, Separated T (pts.map (P2.shift ⟨d, 0⟩)) ⟨p'.x + 2 * T.pi * k, p'.y⟩) :
    @polygonContains F (fieldScalar T) true (pts.map (P2.shift ⟨d, 0⟩)) p' = @polygonContains F (fieldScalar T) true pts p :=
  polygonContains_lon_offset_general T hπ pts d p p' j hlo hhi hne hlo' hhi' hne' hrel hy hrange hrange' hsep hsep'

/-- **C08** `BoundingBox::point_inside` (spherical) under a common longitude offset -/
theorem C08_bbox_lon_offset (d : F) (b : BBox F) (p : P2 F) :
    @BBox.inside F (fieldScalar T) (b.shift ⟨d, 0⟩) true (P2.shift ⟨d, 0⟩ p) = @BBox.inside F (fieldScalar T) b true p :=
  BBox.inside_lon_offset T d b p

end field

/-! ### negative results (witnesses over `ℚ`, `ε = 2⁻⁵²`) -/

/-- **C08** (candidate finding) the raw tolerance test is not translation invariant: `approx(1, 1+10⁻¹²)` but not `approx(0, 10⁻¹²)` -/
theorem C08_approx_not_translation_invariant :
    @approx ℚ (fieldScalar c08Transc) 1 (1 + 1 / 10 ^ 12) = true ∧
    @approx ℚ (fieldScalar c08Transc) (1 + -1) (1 + 1 / 10 ^ 12 + -1) = false :=
  approx_not_translation_invariant

/-- **C08** (candidate finding) the polygon test is not translation invariant: `(2+2⁻⁴⁰, 2+2⁻⁴⁰)` is reported inside `[1,2]²`,
and outside after everything is moved by `(−2,−2)` -/
theorem C08_polygon_translation_full_false : ¬ C08_polygon_translation_full c08Transc := by
  intro h
  have := h ⟨-2, -2⟩ c08Square ⟨2 + 1 / 2 ^ 40, 2 + 1 / 2 ^ 40⟩
  unfold polygonContains at this
  simp only [Bool.false_eq_true, if_false] at this
  rw [polygon_corner_inside, polygon_corner_outside] at this
  exact absurd this (by decide)

/-- **C08** (candidate finding) the sign of `ClosestPointOnCurve::distance` is not translation invariant: the straight curve
`(−1,0),(0,0),(1,0)` with check point `(0,1)` gives `+1`, the same configuration moved by `(0,1)` gives `−1` -/
theorem C08_bezier_closest_translation_full_false : ¬ C08_bezier_closest_translation_full c08Transc := by
  intro h
  have := h ⟨0, 1⟩ (c08Line 0) ⟨0, 0 + 1⟩
  have e1 : (c08Line 0).shift ⟨0, 1⟩ = c08Line 1 := by
    simp only [c08Line, Bezier.shift, P2.shift, List.map_cons, List.map_nil]
    norm_num
  have e2 : P2.shift ⟨0, 1⟩ (⟨0, 0 + 1⟩ : P2 ℚ) = ⟨0, 1 + 1⟩ := by
    simp only [P2.shift]; norm_num
  rw [e1, e2, c08Line_closest 1, c08Line_closest 0] at this
  simp only [Except.map, Option.map_some, Except.ok.injEq, Option.some.injEq, ClosestPoint.shift, ClosestPoint.mk.injEq] at this
  norm_num at this

/-- **C08** (candidate finding, boundary case) a footprint between the longitudes `5` and `6 = 2π` (`π := 3`): the alias `(2π, 0)` of
the point `(0, 0)` is on its boundary, but the spherical test at `(0, 0)` answers "outside" -/
theorem C08_footprint_at_zero_missed :
    @polygonContainsImpl ℚ (fieldScalar c08Transc) c08Footprint ⟨0 + 2 * c08Transc.pi * ((1 : ℤ) : ℚ), 0⟩ = true ∧
    @polygonContains ℚ (fieldScalar c08Transc) true c08Footprint ⟨0, 0⟩ = false := by
  refine ⟨?_, footprint_misses_zero⟩
  have : (0 : ℚ) + 2 * c08Transc.pi * ((1 : ℤ) : ℚ) = 6 := by
    show (0 : ℚ) + 2 * 3 * ((1 : ℤ) : ℚ) = 6
    norm_num
  rw [this]
  exact footprint_contains_alias

/-! ### the hypotheses are satisfiable -/
section examples

/-- a bundle over `ℚ` with constant `sin = 0`, `cos = 1` (`π := 3`): periodic, and the addition formulas hold -/
def c08Periodic : Transc ℚ := { c08Transc with sin := fun _ => 0, cos := fun _ => 1 }

example : PeriodLaws c08Periodic := ⟨fun _ => rfl, fun _ => rfl⟩
example : AngleAddLaws c08Periodic :=
  ⟨fun _ _ => by simp [c08Periodic], fun _ _ => by simp [c08Periodic], fun _ => by simp [c08Periodic]⟩

/-- a bundle over `ℝ` whose `sin`, `cos`, `π` are the real ones (the other members are placeholders) -/
noncomputable def c08Real : Transc ℝ :=
  { sqrt := Real.sqrt, exp := Real.exp, log := id, sin := Real.sin, cos := Real.cos, tan := Real.tan, asin := id, acos := id,
    atan := id, tanh := id, erfc := id, floor := id, ceil := id, round := id, atan2 := fun a _ => a, pow := fun a _ => a,
    fmod := fun a _ => a, pi := Real.pi, eps := 1 / 2 ^ 52, dblMin := 0, dblMax := 1000, inf := 1000 }

/-- the real functions satisfy the periodicity and the addition laws -/
theorem c08Real_periodLaws : PeriodLaws c08Real :=
  ⟨fun x => Real.sin_add_two_pi x, fun x => Real.cos_add_two_pi x⟩
theorem c08Real_angleAddLaws : AngleAddLaws c08Real :=
  ⟨fun x y => Real.sin_add x y, fun x y => Real.cos_add x y, fun x => by
    have := Real.sin_sq_add_cos_sq x
    show Real.sin x * Real.sin x + Real.cos x * Real.cos x = 1
    nlinarith [this]⟩

/-- `C08_longitude_alias_same_point` / `…_same_answer`: a spherical coordinate system, a spherical world -/
example : (⟨true, .none, 1⟩ : CoordSys ℝ).spherical = true := rfl
example : ((⟨⟨⟨true, .none, 6371000⟩, 1600, 293, true, 0, 1, 1, 10⟩, none, []⟩ : World ℝ)).ctx.coord.spherical = true := rfl

/-- `C08_alias_complete`, `C08_polygonContains_tries_all_aliases`: `π := 3`, longitude `1` -/
example : 0 < c08Transc.pi ∧ -c08Transc.pi < (⟨1, 0⟩ : P2 ℚ).x ∧ (⟨1, 0⟩ : P2 ℚ).x ≤ c08Transc.pi ∧ (⟨1, 0⟩ : P2 ℚ).x ≠ 0 := by
  show (0 : ℚ) < 3 ∧ -(3 : ℚ) < 1 ∧ (1 : ℚ) ≤ 3 ∧ (1 : ℚ) ≠ 0
  norm_num

theorem c08_vertexTest_false (b p : P2 ℚ) (h : 1 ≤ |b.x - p.x|) (hb : |b.x| ≤ 1000) (hp : |p.x| ≤ 1000) :
    vertexTest c08Transc b p = false := by
  unfold vertexTest
  have : @approx ℚ (fieldScalar c08Transc) b.x p.x = false := by
    rw [Bool.eq_false_iff, ne_eq, approx_field]
    show ¬ (|b.x - p.x| < |min b.x p.x| * (1 / 2 ^ 52) * 10000)
    have hm : |min b.x p.x| ≤ 1000 := by
      rcases min_choice b.x p.x with h' | h' <;> rw [h'] <;> assumption
    have : |min b.x p.x| * (1 / 2 ^ 52) * 10000 < 1 := by
      have h2 : (0 : ℚ) ≤ |min b.x p.x| := abs_nonneg _
      nlinarith
    linarith
  rw [this, Bool.false_and]

/-- `C08_polygon_translation`: the square `[1,2]²`, the point `(3, 3/2)` (one unit away in `x` from every vertex), moved by `(10, 10)` -/
example : 0 < c08Transc.eps ∧ VertexExact c08Transc c08Square ⟨3, 3 / 2⟩ ∧
    VertexExact c08Transc (c08Square.map (P2.shift ⟨10, 10⟩)) (P2.shift ⟨10, 10⟩ ⟨3, 3 / 2⟩) := by
  refine ⟨by show (0 : ℚ) < 1 / 2 ^ 52; norm_num, ?_, ?_⟩
  · apply vertexExact_of_all_false
    intro b hb
    simp only [c08Square, List.mem_cons, List.not_mem_nil, or_false] at hb
    rcases hb with rfl | rfl | rfl | rfl <;>
      exact c08_vertexTest_false _ _ (by norm_num [abs_of_neg, abs_of_pos]) (by norm_num [abs_of_pos]) (by norm_num [abs_of_pos])
  · apply vertexExact_of_all_false
    intro b hb
    simp only [c08Square, List.map_cons, List.map_nil, List.mem_cons, List.not_mem_nil, or_false] at hb
    rcases hb with rfl | rfl | rfl | rfl <;>
      exact c08_vertexTest_false _ _ (by norm_num [P2.shift, abs_of_neg, abs_of_pos]) (by norm_num [P2.shift, abs_of_pos])
        (by norm_num [P2.shift, abs_of_pos])

/-- `C08_plume_covers_translation`, `C08_area_covers_translation`: the translated query in a Cartesian world -/
example (q : Query ℚ) (v : P2 ℚ) :
    let q' : Query ℚ := { q with nat := ⟨q.nat.x + v.x, q.nat.y + v.y, q.nat.z⟩ }
    q'.depth = q.depth ∧ surfacePoint false q'.nat = P2.shift v (surfacePoint false q.nat) := ⟨rfl, rfl⟩

/-- `C08_surface_translation`, `C08_area_covers_translation`: constant surfaces (and every surface made by `Surface.build`,
`C11_build_preOk`) store `pre = triangles.map precompute` -/
example : @Surface.PreOk ℚ (fieldScalar c08Transc) (@Surface.constantOf ℚ 5) := by
  unfold Surface.PreOk Surface.constantOf
  simp

/-- `C08_rotation_partial`, `C08_ellipse_rotation_gen`: `c = 3/5`, `s = 4/5` -/
example : (3 / 5 : ℚ) * (3 / 5) + (4 / 5) * (4 / 5) = 1 := by norm_num

/-- `C08_ellipse_rotation_gen` with the real functions: `θ' = θ + φ`, `c = cos φ`, `s = sin φ` -/
example (theta phi : ℝ) :
    Real.cos phi * Real.cos phi + Real.sin phi * Real.sin phi = 1 ∧
    c08Real.cos (theta + phi) = c08Real.cos theta * Real.cos phi - c08Real.sin theta * Real.sin phi ∧
    c08Real.sin (theta + phi) = c08Real.sin theta * Real.cos phi + c08Real.cos theta * Real.sin phi :=
  ⟨by nlinarith [Real.sin_sq_add_cos_sq phi], Real.cos_add theta phi, Real.sin_add theta phi⟩

/-- `C08_polygonContains_lon_offset_general`: the square `[1,2]²` (`π := 3`), query `(3/2, 3/2)`, offset `d = 4` (footprint carried to
longitudes `[5,6]`, across the meridian `π`), re-normalised query longitude `−1/2 = 3/2 + 4 − 2π`: all hypotheses hold -/
example :
    (0 : ℚ) < c08Transc.pi ∧
    (-c08Transc.pi < (3 / 2 : ℚ) ∧ (3 / 2 : ℚ) ≤ c08Transc.pi ∧ (3 / 2 : ℚ) ≠ 0) ∧
    (-c08Transc.pi < (-1 / 2 : ℚ) ∧ (-1 / 2 : ℚ) ≤ c08Transc.pi ∧ (-1 / 2 : ℚ) ≠ 0) ∧
    (∀ v ∈ c08Square, -(2 * c08Transc.pi) ≤ v.x ∧ v.x ≤ 2 * c08Transc.pi) ∧
    (∀ v ∈ c08Square, -(2 * c08Transc.pi) ≤ v.x + 4 ∧ v.x + 4 ≤ 2 * c08Transc.pi) ∧
    ((-1 / 2 : ℚ) = 3 / 2 + 4 + 2 * c08Transc.pi * ((-1 : ℤ) : ℚ)) ∧
    (∀ k : ℤ, Separated c08Transc c08Square ⟨3 / 2 + 2 * c08Transc.pi * k, 3 / 2⟩) ∧
    (∀ k : ℤ, Separated c08Transc (c08Square.map (P2.shift ⟨4, 0⟩)) ⟨-1 / 2 + 2 * c08Transc.pi * k, 3 / 2⟩) := by
  obtain ⟨h1, h2, h3, h4, h5, h6⟩ := c08_lon_offset_example
  refine ⟨h1, ?_, ?_, h2, h3, h4, h5, h6⟩
  · show -(3 : ℚ) < 3 / 2 ∧ (3 / 2 : ℚ) ≤ 3 ∧ (3 / 2 : ℚ) ≠ 0
    norm_num
  · show -(3 : ℚ) < -1 / 2 ∧ (-1 / 2 : ℚ) ≤ 3 ∧ (-1 / 2 : ℚ) ≠ 0
    norm_num

/-- `C08_inPolygon_lon_bounds`: the edges of the square `[1,2]²` are non-degenerate -/
example : ∀ e ∈ polygonEdges c08Square, e.1 ≠ e.2 := (c08_lon_offset_example.2.2.2.2.1 0).nondegenerate

/-- `C08_polygonContains_lon_offset`, `C08_bbox_lon_offset`: longitude `3/2` offset by `1/2` keeps the sign -/
example : ((3 / 2 : ℚ) + 1 / 2 < 0 ↔ (3 / 2 : ℚ) < 0) := by norm_num

end examples

end Gwb
