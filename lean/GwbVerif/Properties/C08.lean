/-
C08 — Answers are invariant under rigid motions of world plus query.

Setting.  Everything is stated over a linearly ordered field `F` through `fieldScalar T` ("up to rounding" = exact in the field);
laws of libm members are explicit hypotheses (`PeriodLaws`, `AngleAddLaws`), each shown satisfiable (toy bundle over `ℚ`, real
functions over `ℝ`).  Vocabulary (Proofs/Motion*.lean): `P2.shift v p = p + v`, `P2.rot c s p = [[c,−s],[s,c]]·p`;
`X.shift v` for a polygon (`List.map`), a `Bezier`, a `PlumeFeature`, an `AreaFeature`, a `BBox`, a kd-node array, a `Surface`
moves every coordinate of `X` by `v`.

1. Translation, Cartesian
* `C08_polygon_translation_spec`     the SPECIFICATION of the polygon test (`InPolygon`: on a closed edge or non-zero crossing sum) is
                                     translation invariant.
* `C08_polygon_translation`          the transliterated loop `polygonContainsImpl` gives the same verdict on the translated polygon at the
                                     translated point, PROVIDED the vertex test `approx(v.x,p.x) && approx(v.y,p.y)` only accepts the vertex itself
                                     in both configurations (`VertexExact`; implied by `Separated` of `Proofs/PolygonField.lean`).  Everything
                                     else in the loop body is a function of coordinate differences and of `y`-comparisons
                                     (`C08_polygon_translation_of_vertexTest`: it suffices that the vertex test gives the same verdict edge by edge).
* `C08_approx_not_translation_invariant`, `C08_polygon_translation_full_false`
                                     CANDIDATE FINDING.  `approx(a,b) = |a−b| < |min(a,b)|·ε·1e4` is relative to the coordinates, hence not
                                     translation invariant, and the polygon test inherits this: with `ε = 2⁻⁵²` the point `(2+2⁻⁴⁰, 2+2⁻⁴⁰)` OUTSIDE
                                     the square `[1,2]²` is reported inside (it is `approx`-equal to the corner `(2,2)`), and reported outside after
                                     polygon and point are moved by `(−2,−2)` (corner at the origin, where the relative tolerance is zero).
                                     All numbers are doubles, the translation is exact in double arithmetic: replayable on the library.
* `C08_bezier_build_translation`     `Bezier.build` on translated points: translated points, translated control points, the same angles.
* `C08_bezier_closest_translation_partial`
                                     `Bezier.closestPoint false` on the translated curve at the translated point: same piece index, same parametric
                                     fraction, same normal, translated foot point, same ABSOLUTE distance (every Newton iterate is equal: the
                                     power-basis coefficients `a,b,c` are differences, `d − check_point` too).  Partial: the SIGN of `distance`.
* `C08_bezier_closest_translation_full_false`
                                     CANDIDATE FINDING.  The sign is taken from `(derivative_point − point_on_curve)·(check_point − point_on_curve)`
                                     (bezier_curve.cc:341-344, 533-536): a derivative VECTOR minus a POSITION.  At the foot point the derivative is
                                     orthogonal to `check − foot`, so the sign is that of `−foot·(check − foot)`: it tells on which side of the
                                     curve the ORIGIN lies.  Witness: straight curve `(−1,y),(0,y),(1,y)`, check point `(0,y+1)`: distance `+1` for
                                     `y = 0`, `−1` for `y = 1`.  (Inside the library nothing reads the signed `distance`; users of
                                     `BezierCurve::closest_point_on_curve_segment` do.)
* `C08_ridge_translation`            `ridgeDistanceAndSpreading false` (all four outputs) when every ridge coordinate and the query's surface
                                     coordinates move together.
* `C08_bbox_translation`, `C08_kd_translation`, `C08_surface_translation`, `C08_triangle_translation`
                                     `BBox.inside false`; the kd-tree search (same visited list, same distances); `inTriangle` with its absolute
                                     tolerance; `Surface.localValue false` when triangle vertices, kd-nodes and query move together (surface with
                                     `pre = triangles.map precompute`, which `Surface.build` establishes).
* `C08_ellipse_translation`, `C08_plume_covers_translation`
                                     `fractionFromEllipseCenter`; `PlumeFeature.covers` (verdict and relative distance) under translating `coords`
                                     and the query's surface point — Cartesian, and verbatim for a common (lon, lat) offset in spherical worlds,
                                     because the alias of the query longitude is chosen from the difference to the centre.
* `C08_area_covers_translation`      the guard `AreaFeature.covers` (polygon + both depth surfaces), Cartesian, same proviso as the polygon test.

2. Rotation about the vertical by `[[c,−s],[s,c]]`, `c² + s² = 1`
* `C08_rotation_partial`             dot product, cross product `(b−a)×(p−a)`, `sideOfLine`, `P2.normSq`, `P2.norm`, Cartesian `P2.distanceTo`,
                                     "on the closed edge" are invariant term by term.  NOT covered: the polygon test.  Its crossing count compares
                                     the `y`-coordinates of the vertices with the point's (which edges are visited, half-open rule), and a rotation
                                     changes these edge by edge; only the total (the winding number) is invariant, which is not a term-wise fact.
* `C08_ellipse_rotation`             `fractionFromEllipseCenter` when centre and point are rotated and the ellipse angle `θ` becomes `θ + φ`
                                     (`c = cos φ`, `s = sin φ`, angle-addition laws as hypotheses); `C08_ellipse_rotation_gen` with the two
                                     addition formulas for the new angle as direct hypotheses.

3. Longitude
* `C08_longitude_alias_same_point`   `sin`, `cos` `2π`-periodic: `CoordSys.toCartesian` of `(r, L + 2πk, lat)` is that of `(r, L, lat)`
                                     (`C08_longitude_plus_minus_two_pi`: `k = ±1`);
  `C08_longitude_alias_same_answer`  hence `World.props3` (every property) at the two descriptions is literally the same computation.
* `C08_alias_complete`               for `L ∈ (−π, π]`, `L ≠ 0` the representations `L + 2πk` lying in `[−2π, 2π]` are exactly `L` and
                                     `(otherPoint p).x`;  `C08_polygonContains_tries_all_aliases`: the spherical polygon test answers "inside" iff
                                     some in-range representation of the query longitude is inside the footprint as drawn.
* `C08_alias_zero_missed`, `C08_footprint_at_zero_missed`
                                     CANDIDATE FINDING (boundary case).  At `L = 0` `otherPoint` is `−2π` only; the representation `+2π` is never
                                     tried.  Witness (`π := 3`): footprint with longitudes `[5, 6 = 2π]`; the point `(2π, 0)` lies on its boundary
                                     (`polygonContainsImpl = true`), the spherical test at `(0, 0)` says outside.
* `C08_polygonContains_lon_offset`, `C08_bbox_lon_offset`
                                     the spherical wrappers under a common longitude offset `d` of footprint/box and point representation,
                                     when `d` keeps the sign test `lon < 0` of `otherPoint` (translation in the `lon` coordinate, from 1).
* `C08_polygonContains_lon_offset_general`
                                     the general case: footprint offset by `d` (drawn within `[−2π, 2π]` before and after; it may cross the
                                     `±π` meridian), query longitude re-normalised to `(−π, π]` (`L' = L + d + 2πj`), `L, L' ≠ 0`, tolerances exact
                                     (`Separated` for every representation): same verdict.  Rests on `C08_polygonContains_tries_all_aliases` and
                                     on `C08_inPolygon_lon_bounds`: a point of `InPolygon` has its longitude within the vertex longitudes (to the
                                     right of all vertices every crossing term is `0`; to the left the terms are `[a.y ≤ y] − [b.y ≤ y]` and
                                     telescope around the closed polygon).
* `C08_bbox_tries_all_aliases`, `C08_bbox_lon_offset_general`
                                     `BoundingBox::point_inside` (spherical; since upstream 'fix: bounding box tried only one longitude alias' the
                                     point, the point `+2π` and the point `−2π` are tried): for a canonical query longitude and a box whose
                                     tolerance-enlarged longitude bounds lie in `(−3π, 3π]` the answer is "some description `L + 2πk` is within the
                                     bounds"; hence the same verdict for the box offset by `d` and the re-normalised query `L' = L + d + 2πj`.
  `C08_canonical_unique`             REMARK on "`L` or `L ± 360°`" at kernel level: the kernels only ever see the canonical description (`atan2`), and two
                                     canonical descriptions of the same longitude coincide (`d = 0` forces `j = 0`): nothing to state beyond
                                     `C08_longitude_alias_same_point`.
  `C08_bbox_lon_offset_general_old_false`
                                     the rule before the repair (`BBox.insideOld`: the point and `otherPoint`) FAILS the statement: box
                                     `[−2π − 0.3, −2π + 0.1]`, query longitude `−0.005·π` (`π := 3`), offset `d = 2π`.
* `C08_plume_covers_lon_offset`      `PlumeFeature.covers` (verdict and relative distance) with every centre longitude offset by `d` (across the
                                     meridian or not), asked at the re-normalised query: unchanged, provided the centre longitudes stay in
                                     `[−2π, 2π]`, the listed depths ascend, and no description of the query longitude is exactly `π` away from the
                                     centre used at the query depth (`C08_plume_covers_lon_offset_of_centre`: hypotheses on that centre only).
* `C08_ridge_lon_offset`             `calculate_ridge_distance_and_spreading` (spherical), every ridge longitude offset by `d`, query longitude
                                     `L' = L + d + 2πj`: ALL FOUR outputs (spreading velocity, distance, subducting velocity, migration time) are
                                     unchanged PROVIDED every segment's mid longitude and every transform point is within `π` (strictly) of one of
                                     the TWO descriptions of the query that the code tries, in both frames (`RidgeReach`;
                                     `C08_ridge_reach_of_range`: true for feature longitudes in `(−π, 2π]` when `L < 0`, in `[−2π, π)` when
                                     `L ≥ 0`).  `PeriodLaws`, `AngleAddLaws` for `sin`, `cos`.
                                     HISTORY.  A first version of this theorem could only be proved for three outputs: the proof attempt showed
                                     that at the far end of a segment the copy `other_check_point` took `spreading_velocity_point1` where
                                     `check_point` takes `subducting_velocity_point1`, so that the subducting velocity depended on which copy was
                                     used (witness, `π := 3`: ridge `(1,0)–(2,0)`, spreading `1, 2`, subducting `5`, query `5/2`: `5`; offset `2`,
                                     query `−3/2`: `2`).  Replayed on the library (mass conserving slab temperature 737 K → 656 K under a `+120°`
                                     offset), and fixed upstream: 'fix: far copy of the query took the spreading velocity as subducting
                                     velocity', /repo commit 2db42b53.  The model follows and the statement now holds at full strength.
  `C08_ridge_lon_offset_same_sign`   all four outputs when the offset does not re-normalise the query (`L' = L + d`, same sign test): no reach
                                     hypothesis needed.
* `C08_ridge_lon_offset_inrange_full_false`
                                     CANDIDATE FINDING.  "All longitudes within `[−2π, 2π]`" is NOT enough: the code tries `L` and `L − 2π` for
                                     `L ≥ 0` (`L + 2π` for `L < 0`), so a ridge drawn within `π` of `L + 2π` (resp. `L − 2π`) is measured from the
                                     wrong side.  Witness (`π := 3`): ridge `(5,0)–(6,0)`, spreading velocities `1, 2`, query longitude `1/2`:
                                     velocity `1` (foot point: the WEST end, 3/2 away instead of 1/2); everything offset by `−5` (ridge
                                     `(0,0)–(1,0)`, query `3/2`): velocity `2` (EAST end).  In degrees: ridge `[350°,0]–[360°,0]`, query `5°`.

* `C08_surface_lookup_spec`          `Surface::local_value` (spherical; surface.cc:153-230) returns the value that SOME stored triangle interpolates
                                     at the query `p` or at `otherPoint p`, where that triangle accepts the point, and fails with "not in any
                                     triangle" exactly when no stored triangle accepts either description (no other error; stored constants those
                                     of `precompute`, every kd-node refers to a stored triangle).  The five stages (nearest node of `p`, nearest
                                     node of `otherPoint p`, candidate lists, full scan) only decide WHICH accepting triangle is found.
* `C08_surface_lon_offset`           depth surfaces under a common longitude offset, general case: triangle vertices and kd-nodes offset by `d`,
                                     canonical query longitude `L` replaced by the canonical `L' = L + d + 2πj`, `L, L' ≠ 0`: same value / same
                                     error, PROVIDED (i) every point a stored triangle accepts has its longitude in `[−2π, 2π]` before and after
                                     the offset, (ii) `Surface.SingleValuedAt`: two stored triangles that accept a description `L + 2πk` of the
                                     query interpolate the same value there (what a triangulation gives on common edges; across descriptions: a
                                     surface drawn over more than `2π` does not carry two values at one place).  (ii) is needed because the
                                     search ORDER is frame dependent: the nearest kd-node of `p` in one frame corresponds to the nearest node of
                                     `otherPoint p'` in the other.  `C08_surface_lon_offset_of_reach`: the same with (i) replaced by
                                     `SurfaceReach` (the accepted descriptions are among the two that are tried, in both frames; `L`, `L'` need not
                                     be canonical).  `C08_surface_accepts_lon_bounds`: a point accepted by a clockwise triangle has its longitude
                                     within the vertex longitudes enlarged by `(hi − lo)·10⁴ε·(c6 + 2)/c6` (so (i) follows from vertex ranges
                                     with that margin).
  `C08_surface_lon_offset_same_sign` `L' = L + d` with the same verdict of the sign test `lon < 0`: the whole search commutes with the offset
                                     (same kd-tree walk, same order); no hypothesis on the surface beyond `pre = triangles.map precompute`.
* `C08_surface_lon_offset_at_zero_false`
                                     BOUNDARY CASE (same family as `C08_footprint_at_zero_missed`, no new defect).  "Vertex longitudes within
                                     `[−2π, 2π]`" without `L ≠ 0` is not enough: at `L = 0` the description `+2π` is never tried.  Witness
                                     (`π := 3`): one triangle `(5,0),(5,1),(6,0)`, query `(0,0)`: "not in any triangle"; everything offset by `−1`
                                     (triangle `(4,0),(4,1),(5,0)`, query longitude `−1`, other description `5`): a value.  In an area feature
                                     the polygon guard answers "outside" at such a point before the surface is asked.
* `C08_dpfcp_alias_is_model`, `C08_dpfcp_alias_choice`
                                     the slab / fault frame (utilities.cc:620-637): `distancePointFromCurvedPlanes` is, by `rfl`, the same
                                     function with the alignment of the query longitude written as `dpfcpLonShift`, the on-trench test as
                                     `DpfcpOnTrench` and the description of the query used for the side test as `dpfcpAlias cs pk.x`.  For a
                                     query longitude at most `3π` from the trench longitude `pk.x` (canonical query, trench in `[−2π, 2π]`) the
                                     chosen description is within `π` of `pk.x`; if one of `x, x ± 2π` is strictly within `π` it is the one
                                     chosen; and the choice commutes with a common longitude offset (`pk.x + d`, `x' = x + d + 2πj`; no tie).

* `C08_dpfcp_on_trench_lon_offset`   the test "the query is vertically below the trench" (utilities.cc:489 ff., `DpfcpOnTrench`) with the query
                                     longitude ALIGNED to the foot point (`dpfcpLonShift`: one step of `2π`) gives the same verdict when the foot
                                     longitude is offset by `d` and the query longitude becomes `L' = L + d + 2πj` (both at most `3π` from the foot
                                     longitude, no tie), and the aligned 2-d point used by the side test of that branch follows the offset.
                                     `C08_dpfcp_on_trench_alias_fires`: a query exactly above a foot point written `2π` away passes the test.
  `C08_dpfcp_on_trench_test_not_alias_invariant`
                                     HISTORY (documents the repaired defect).  Before upstream 'fix: on-trench test compared longitudes that can be
                                     2 pi apart' (/repo commit 1a33e45f) the test was applied to the RAW natural coordinates: the query carries the
                                     canonical longitude, the foot point the description the trench was WRITTEN with; for a trench written `2π`
                                     away the norm is `2π`, the corner-case branch was skipped and the generic branch normalised
                                     `closest − check` (Cartesian), a zero / rounding-noise vector.  Found while treating the alias choice of this
                                     function; replayed on the library: subducting plate `[[190,-10],[195,0],[200,10]]`, dip point `[220,0]`, one
                                     segment (450 km, 100 km thick, 45°), linear temperature 300–900 K over 100 km; query `lon −165, lat 0, depth
                                     50 km` (a trench vertex): `444.155 K`, the same point given as `lon 195`: `567.036 K`; the same slab written
                                     `[[-170,-10],[-165,0],[-160,10]]`: `512.132 K` for both; at depth 0 "outside" (1600 K) against 300 K.
* `C08_bezier_closest_lon_offset_partial`
                                     `Bezier.closestPoint true` (the spherical branch of `closest_point_on_curve_segment`) with every curve and
                                     control point offset by `⟨d, 0⟩` and the query longitude replaced by `L' = L + d + 2πj`: same piece index, same
                                     parametric fraction, same normal, same ABSOLUTE distance, foot point offset by `d`; errors and "nothing
                                     accepted" agree.  Hypotheses: `HalfTurnLaws` (`sin (x + π) = −sin x`, `cos (x + π) = −cos x`: the iteration uses
                                     `sin`, `cos` of HALF the longitude difference, always in products of two, so a change of the difference by
                                     `2πj` gives every factor the same sign); `EstReach` for the first point of every piece (both query longitudes
                                     at most `3π` from it — `initialEstimateSph` normalises by ONE step of `2π` — and no description of the query
                                     exactly `π` away: tie).  `C08_bezier_est_reach_of_range`: canonical queries, curve within `[−2π, 2π]` in both
                                     frames, no tie.  Partial: the SIGN of `distance` (`closestOf` multiplies the raw difference
                                     `check_point − point_on_curve` with `derivative_point − point_on_curve`; already origin dependent in the
                                     Cartesian case, `C08_bezier_closest_translation_full_false`; nothing inside the library reads it).
  `C08_bezier_closest_lon_offset_full_false`
                                     the statement including the sign is FALSE (toy bundle `π := 3`, `sin := (−1)^⌊x/3⌋`, `cos := 0`): curve along
                                     latitude `1` from longitude `1` to `2`, query `(3/2, 2)`: distance `−1`; offset `d = 4`, query longitude
                                     `−1/2`: distance `+1`.

What is NOT proved
* No statement about a whole `World.props3` under translation/rotation of a world: the theorems are per kernel (polygon, Bezier, ridge,
  surface, plume/area guards).  Of `distance_point_from_curved_planes` (Dpfcp.lean) only the choice of the query's description is
  treated (`C08_dpfcp_alias_choice`); note its on-trench branch computes
  `reference_p = (normal − closest_point)*1e2 + closest_point` (utilities.cc:557), again a direction minus a position, and scales a step by
  `max(‖closest_point‖, 1)` — both depend on where the origin is.
* Rotation of the polygon test, of the Bezier construction (angles shift by `φ` modulo the `atan2` branch) and of the kd-tree (axis
  aligned) are not term-wise invariants and are not claimed.
* Exact field arithmetic only; rounding is out of scope.
-/
import GwbVerif.Proofs.MotionSurface
import GwbVerif.Proofs.MotionWitness
import GwbVerif.Proofs.MotionRidge
import GwbVerif.Proofs.MotionRot
import GwbVerif.Proofs.MotionLon
import GwbVerif.Proofs.MotionLonKernels
import GwbVerif.Proofs.MotionLonSurface
import GwbVerif.Proofs.MotionLonBezier
import Mathlib.Analysis.SpecialFunctions.Trigonometric.Basic
import GwbVerif.Model.World
namespace Gwb
open Scalar
set_option linter.unusedSectionVars false

section field
variable {F : Type} [Field F] [LinearOrder F] [IsStrictOrderedRing F] (T : Transc F)

/-! ### 3(a) a query described with `L` or `L ± 2π` is the same Cartesian point -/

/-- **C08** `natural_to_cartesian_coordinates` of `(r, L + 2πk, lat)` equals that of `(r, L, lat)` (spherical system, `sin`/`cos`
`2π`-periodic); `k = ±1` is "`L ± 360°`" -/
theorem C08_longitude_alias_same_point (hT : PeriodLaws T) (c : CoordSys F) (hc : c.spherical = true) (r L lat : F) (k : ℤ) :
    @CoordSys.toCartesian F (fieldScalar T) c ⟨r, L + 2 * T.pi * k, lat⟩ = @CoordSys.toCartesian F (fieldScalar T) c ⟨r, L, lat⟩ := by
  unfold CoordSys.toCartesian
  simp only [hc, if_true]
  exact sphericalToCartesian_lon_congr T r L _ lat (hT.sin_int L k) (hT.cos_int L k)

/-- **C08** the two cases of the property text: `L + 360°` and `L − 360°` -/
theorem C08_longitude_plus_minus_two_pi (hT : PeriodLaws T) (c : CoordSys F) (hc : c.spherical = true) (r L lat : F) :
    @CoordSys.toCartesian F (fieldScalar T) c ⟨r, L + 2 * T.pi, lat⟩ = @CoordSys.toCartesian F (fieldScalar T) c ⟨r, L, lat⟩ ∧
    @CoordSys.toCartesian F (fieldScalar T) c ⟨r, L - 2 * T.pi, lat⟩ = @CoordSys.toCartesian F (fieldScalar T) c ⟨r, L, lat⟩ := by
  have h1 := C08_longitude_alias_same_point T hT c hc r L lat 1
  have h2 := C08_longitude_alias_same_point T hT c hc r L lat (-1)
  have e1 : L + 2 * T.pi * ((1 : ℤ) : F) = L + 2 * T.pi := by push_cast; ring
  have e2 : L + 2 * T.pi * ((-1 : ℤ) : F) = L - 2 * T.pi := by push_cast; ring
  rw [e1] at h1
  rw [e2] at h2
  exact ⟨h1, h2⟩

/-- **C08** hence every property at every depth: the two descriptions of the query point run literally the same computation
(everything downstream of the API takes the Cartesian point) -/
theorem C08_longitude_alias_same_answer {G : Type} [@RandGen G F] (hT : PeriodLaws T) (w : World F)
    (hc : w.ctx.coord.spherical = true) (r L lat : F) (k : ℤ) (depth : F) (ps : List Req) :
    @World.props3 F (fieldScalar T) G _ w (@CoordSys.toCartesian F (fieldScalar T) w.ctx.coord ⟨r, L + 2 * T.pi * k, lat⟩) depth ps =
      @World.props3 F (fieldScalar T) G _ w (@CoordSys.toCartesian F (fieldScalar T) w.ctx.coord ⟨r, L, lat⟩) depth ps := by
  rw [C08_longitude_alias_same_point T hT w.ctx.coord hc]

/-! ### 3(b) alias completeness -/

/-- **C08** for `L ∈ (−π, π]`, `L ≠ 0`: a representation `L + 2πk` lies in `[−2π, 2π]` iff it is `L` or the longitude of `otherPoint` -/
theorem C08_alias_complete (hπ : 0 < T.pi) (p : P2 F) (hlo : -T.pi < p.x) (hhi : p.x ≤ T.pi) (hne : p.x ≠ 0) (k : ℤ) :
    (-(2 * T.pi) ≤ p.x + 2 * T.pi * k ∧ p.x + 2 * T.pi * k ≤ 2 * T.pi) ↔
      (p.x + 2 * T.pi * k = p.x ∨ p.x + 2 * T.pi * k = (@otherPoint F (fieldScalar T) p).x) :=
  alias_in_range_iff T hπ p hlo hhi hne k

/-- **C08** so trying the point and `otherPoint` covers every footprint whose longitudes stay in `[−2π, 2π]`: the spherical polygon
test says "inside" iff some in-range representation of the query longitude is inside the footprint as drawn in the (lon, lat) plane -/
theorem C08_polygonContains_tries_all_aliases (hπ : 0 < T.pi) (pts : List (P2 F)) (p : P2 F) (hlo : -T.pi < p.x) (hhi : p.x ≤ T.pi)
    (hne : p.x ≠ 0) :
    @polygonContains F (fieldScalar T) true pts p = true ↔
      ∃ k : ℤ, (-(2 * T.pi) ≤ p.x + 2 * T.pi * k ∧ p.x + 2 * T.pi * k ≤ 2 * T.pi) ∧
        @polygonContainsImpl F (fieldScalar T) pts ⟨p.x + 2 * T.pi * k, p.y⟩ = true :=
  polygonContains_spherical_iff T hπ pts p hlo hhi hne

/-- **C08** (candidate finding, boundary case) at `L = 0` the representation `+2π` lies in `[−2π, 2π]` but is neither `L` nor the
longitude of `otherPoint`, which is `−2π` -/
theorem C08_alias_zero_missed (hπ : 0 < T.pi) (y : F) :
    (-(2 * T.pi) ≤ (0 : F) + 2 * T.pi * ((1 : ℤ) : F) ∧ (0 : F) + 2 * T.pi * ((1 : ℤ) : F) ≤ 2 * T.pi) ∧
    (0 : F) + 2 * T.pi * ((1 : ℤ) : F) ≠ 0 ∧
    (0 : F) + 2 * T.pi * ((1 : ℤ) : F) ≠ (@otherPoint F (fieldScalar T) ⟨0, y⟩).x ∧
    (@otherPoint F (fieldScalar T) ⟨0, y⟩).x = -(2 * T.pi) :=
  alias_zero_missed T hπ y

/-! ### 1(a) the polygon test under translation -/

/-- **C08** the specification of the polygon test is translation invariant -/
theorem C08_polygon_translation_spec (v : P2 F) (pts : List (P2 F)) (p : P2 F) :
    InPolygon (pts.map (P2.shift v)) (P2.shift v p) ↔ InPolygon pts p :=
  inPolygon_shift v pts p

/-- **C08** the transliterated polygon test (Cartesian: `polygonContains false`) is translation invariant when the vertex tolerance
only accepts the vertex itself in both configurations -/
theorem C08_polygon_translation (heps : 0 < T.eps) (v : P2 F) (pts : List (P2 F)) (p : P2 F)
    (h1 : VertexExact T pts p) (h2 : VertexExact T (pts.map (P2.shift v)) (P2.shift v p)) :
    @polygonContains F (fieldScalar T) false (pts.map (P2.shift v)) (P2.shift v p) = @polygonContains F (fieldScalar T) false pts p := by
  unfold polygonContains
  simp only [Bool.false_eq_true, if_false]
  exact polygonContainsImpl_shift T heps v pts p h1 h2

/-- **C08** it suffices that the vertex test gives the same verdict edge by edge: the rest of the loop body is a function of
coordinate differences and of `y`-comparisons -/
theorem C08_polygon_translation_of_vertexTest (v : P2 F) (pts : List (P2 F)) (p : P2 F)
    (h : ∀ e ∈ polygonEdges pts, vertexTest T (P2.shift v e.2) (P2.shift v p) = vertexTest T e.2 p) :
    @polygonContains F (fieldScalar T) false (pts.map (P2.shift v)) (P2.shift v p) = @polygonContains F (fieldScalar T) false pts p := by
  unfold polygonContains
  simp only [Bool.false_eq_true, if_false]
  exact polygonContainsImpl_shift_of_vertexTest T v pts p h

/-- the hypothesis `Separated` of `polygonContainsImpl_iff` implies `VertexExact` -/
theorem C08_vertexExact_of_separated (pts : List (P2 F)) (p : P2 F) (hs : Separated T pts p) : VertexExact T pts p :=
  hs.vertexExact T

/-- the unconditional statement (FALSE, see `C08_polygon_translation_full_false`) -/
def C08_polygon_translation_full : Prop :=
  ∀ (v : P2 F) (pts : List (P2 F)) (p : P2 F),
    @polygonContains F (fieldScalar T) false (pts.map (P2.shift v)) (P2.shift v p) = @polygonContains F (fieldScalar T) false pts p

/-! ### 1(e) plume -/

/-- **C08** `fraction_from_ellipse_center` only sees `point − centre` -/
theorem C08_ellipse_translation (v center : P2 F) (sma ecc theta : F) (p : P2 F) :
    @fractionFromEllipseCenter F (fieldScalar T) (P2.shift v center) sma ecc theta (P2.shift v p) =
      @fractionFromEllipseCenter F (fieldScalar T) center sma ecc theta p :=
  fractionFromEllipseCenter_shift T v center sma ecc theta p

/-- **C08** the plume's footprint test (verdict and relative distance handed to the models): cross-section centres and the query's
surface point translated by the same vector (Cartesian), or offset by the same (lon, lat) amounts (spherical) -/
theorem C08_plume_covers_translation (f : PlumeFeature F) (v : P2 F) (ctx : Ctx F) (q q' : Query F) (hdepth : q'.depth = q.depth)
    (hsp : surfacePoint ctx.coord.spherical q'.nat = P2.shift v (surfacePoint ctx.coord.spherical q.nat)) :
    @PlumeFeature.covers F (fieldScalar T) (f.shift v) ctx q' = @PlumeFeature.covers F (fieldScalar T) f ctx q :=
  PlumeFeature.covers_shift T f v ctx q q' hdepth hsp

/-! ### 2 rotation about the vertical -/

/-- **C08** (partial: everything but the polygon test) the kernels built from dot products, cross products and norms are invariant
under `[[c,−s],[s,c]]`, `c² + s² = 1`, term by term -/
theorem C08_rotation_partial (c s : F) (h : c * c + s * s = 1) :
    (∀ a b : P2 F, @P2.dot F (fieldScalar T) (P2.rot c s a) (P2.rot c s b) = @P2.dot F (fieldScalar T) a b) ∧
    (∀ a b p : P2 F, crossP (P2.rot c s a) (P2.rot c s b) (P2.rot c s p) = crossP a b p) ∧
    (∀ p1 p2 q : P2 F, @sideOfLine F (fieldScalar T) (P2.rot c s p1) (P2.rot c s p2) (P2.rot c s q) =
        @sideOfLine F (fieldScalar T) p1 p2 q) ∧
    (∀ a : P2 F, @P2.normSq F (fieldScalar T) (P2.rot c s a) = @P2.normSq F (fieldScalar T) a) ∧
    (∀ a : P2 F, @P2.norm F (fieldScalar T) (P2.rot c s a) = @P2.norm F (fieldScalar T) a) ∧
    (∀ a b : P2 F, @P2.distanceTo F (fieldScalar T) false (P2.rot c s a) (P2.rot c s b) = @P2.distanceTo F (fieldScalar T) false a b) ∧
    (∀ a b p : P2 F, OnSegment (P2.rot c s a) (P2.rot c s b) (P2.rot c s p) ↔ OnSegment a b p) :=
  ⟨P2.dot_rot T c s h, crossP_rot c s h, sideOfLine_rot T c s h, P2.normSq_rot T c s h, P2.norm_rot T c s h,
    P2.distanceTo_rot T c s h, onSegment_rot c s h⟩

/-- **C08** `fraction_from_ellipse_center` under rotation, the new ellipse angle `θ'` given by its addition formulas -/
theorem C08_ellipse_rotation_gen (c s : F) (h : c * c + s * s = 1) (center : P2 F) (sma ecc theta theta' : F) (p : P2 F)
    (hcos : T.cos theta' = T.cos theta * c - T.sin theta * s) (hsin : T.sin theta' = T.sin theta * c + T.cos theta * s) :
    @fractionFromEllipseCenter F (fieldScalar T) (P2.rot c s center) sma ecc theta' (P2.rot c s p) =
      @fractionFromEllipseCenter F (fieldScalar T) center sma ecc theta p :=
  fractionFromEllipseCenter_rot T c s h center sma ecc theta theta' p hcos hsin

/-- **C08** rotation of the world by `φ`: plume centre and query rotated, the plume's rotation angle shifted to `θ + φ` -/
theorem C08_ellipse_rotation (hT : AngleAddLaws T) (phi : F) (center : P2 F) (sma ecc theta : F) (p : P2 F) :
    @fractionFromEllipseCenter F (fieldScalar T) (P2.rot (T.cos phi) (T.sin phi) center) sma ecc (theta + phi)
        (P2.rot (T.cos phi) (T.sin phi) p) =
      @fractionFromEllipseCenter F (fieldScalar T) center sma ecc theta p :=
  fractionFromEllipseCenter_rot_angle T hT phi center sma ecc theta p

/-! ### 1(b) the Bezier trench curve -/

/-- **C08** `BezierCurve::BezierCurve` on translated points: translated points and control points, the same angles -/
theorem C08_bezier_build_translation (v : P2 F) (pts : List (P2 F)) :
    @Bezier.build F (fieldScalar T) (pts.map (P2.shift v)) = Except.map (Bezier.shift v) (@Bezier.build F (fieldScalar T) pts) :=
  Bezier.build_shift T v pts

/-- the full statement: the result follows the translation in every member (FALSE: `C08_bezier_closest_translation_full_false`) -/
def C08_bezier_closest_translation_full : Prop :=
  ∀ (v : P2 F) (bz : Bezier F) (cp : P2 F),
    @Bezier.closestPoint F (fieldScalar T) (bz.shift v) false (P2.shift v cp) =
      Except.map (Option.map (ClosestPoint.shift v)) (@Bezier.closestPoint F (fieldScalar T) bz false cp)

/-- **C08** (partial: the sign of `distance` is missing) the whole damped Newton iteration is translation invariant: same piece,
same parametric fraction, same normal, translated foot point, same absolute distance; errors and the "nothing accepted" result agree -/
theorem C08_bezier_closest_translation_partial (v : P2 F) (bz : Bezier F) (cp : P2 F) :
    Except.map (Option.map ClosestPoint.unsign) (@Bezier.closestPoint F (fieldScalar T) (bz.shift v) false (P2.shift v cp)) =
      Except.map (Option.map (fun c => (c.shift v).unsign)) (@Bezier.closestPoint F (fieldScalar T) bz false cp) :=
  Bezier.closestPoint_shift T v bz cp

/-! ### 1(c) ridge distance -/

/-- **C08** `calculate_ridge_distance_and_spreading` (Cartesian): spreading velocity, distance, subducting velocity and migration
time are unchanged when all ridge coordinates and the query's surface coordinates are translated together -/
theorem C08_ridge_translation (v : P2 F) (ridges : List (List (P2 F))) (vels : List (List F)) (nat : P3 F)
    (subVel : List (List F)) (migr : List F) :
    @ridgeDistanceAndSpreading F (fieldScalar T) false (ridges.map (List.map (P2.shift v))) vels (P3.shiftXY v nat) subVel migr =
      @ridgeDistanceAndSpreading F (fieldScalar T) false ridges vels nat subVel migr :=
  ridgeDistanceAndSpreading_shift T v ridges vels nat subVel migr

/-! ### 1(d) bounding box, kd-tree, depth surfaces -/

/-- **C08** `BoundingBox::point_inside` (Cartesian), any tolerance -/
theorem C08_bbox_translation (v : P2 F) (b : BBox F) (p : P2 F) :
    @BBox.inside F (fieldScalar T) (b.shift v) false (P2.shift v p) = @BBox.inside F (fieldScalar T) b false p :=
  BBox.inside_shift T v b p

/-- **C08** the kd-tree search visits the same nodes with the same distances when nodes and query move together -/
theorem C08_kd_translation (v : P2 F) (nodes : Array (KdNode F)) (p : P2 F) :
    @kdFindClosestPoints F (fieldScalar T) (nodes.map (KdNode.shift v)) (P2.shift v p) =
      @kdFindClosestPoints F (fieldScalar T) nodes p :=
  kdFindClosestPoints_shift T v nodes p

/-- **C08** the triangle test (absolute tolerance on cross products of differences) and its interpolated value -/
theorem C08_triangle_translation (v : P2 F) (t : Tri F) (p : P2 F) :
    @inTriangle F (fieldScalar T) (t.shift v) (@Tri.precompute F (fieldScalar T) (t.shift v)) (P2.shift v p) =
      @inTriangle F (fieldScalar T) t (@Tri.precompute F (fieldScalar T) t) p :=
  inTriangle_shift T v t p

/-- **C08** `Surface::local_value` (Cartesian) when triangle vertices, kd-nodes and the query move together -/
theorem C08_surface_translation (v : P2 F) (s : Surface F) (hs : @Surface.PreOk F (fieldScalar T) s) (p : P2 F) :
    @Surface.localValue F (fieldScalar T) (s.shift T v) false (P2.shift v p) = @Surface.localValue F (fieldScalar T) s false p :=
  Surface.localValue_shift T v s hs p

/-- **C08** the footprint-and-depth guard of the area features (Cartesian) -/
theorem C08_area_covers_translation (heps : 0 < T.eps) (v : P2 F) (f : AreaFeature F) (ctx : Ctx F) (q q' : Query F)
    (hcart : ctx.coord.spherical = false) (hdepth : q'.depth = q.depth)
    (hsp : surfacePoint false q'.nat = P2.shift v (surfacePoint false q.nat))
    (hmin : @Surface.PreOk F (fieldScalar T) f.rng.minS) (hmax : @Surface.PreOk F (fieldScalar T) f.rng.maxS)
    (h1 : VertexExact T f.coords (surfacePoint false q.nat))
    (h2 : VertexExact T (f.coords.map (P2.shift v)) (P2.shift v (surfacePoint false q.nat))) :
    @AreaFeature.covers F (fieldScalar T) (f.shift T v) ctx q' = @AreaFeature.covers F (fieldScalar T) f ctx q :=
  AreaFeature.covers_shift T heps v f ctx q q' hcart hdepth hsp hmin hmax h1 h2

/-! ### 3(c) common longitude offset in the (lon, lat) plane -/

/-- **C08** the spherical polygon test under a common longitude offset `d` of footprint and point representation
(`d` keeps the sign test of `otherPoint`; vertex tolerance exact in the four tests) -/
theorem C08_polygonContains_lon_offset (heps : 0 < T.eps) (d : F) (pts : List (P2 F)) (p : P2 F) (hs : p.x + d < 0 ↔ p.x < 0)
    (h1 : VertexExact T pts p) (h1' : VertexExact T (pts.map (P2.shift ⟨d, 0⟩)) (P2.shift ⟨d, 0⟩ p))
    (h2 : VertexExact T pts (@otherPoint F (fieldScalar T) p))
    (h2' : VertexExact T (pts.map (P2.shift ⟨d, 0⟩)) (P2.shift ⟨d, 0⟩ (@otherPoint F (fieldScalar T) p))) :
    @polygonContains F (fieldScalar T) true (pts.map (P2.shift ⟨d, 0⟩)) (P2.shift ⟨d, 0⟩ p) =
      @polygonContains F (fieldScalar T) true pts p :=
  polygonContains_lon_offset T heps d pts p hs h1 h1' h2 h2'

/-- **C08** (specification level) a point of the polygon — on a closed edge or with non-zero crossing sum — has its longitude between
the least and the greatest vertex longitude (non-degenerate edges): representations of the query outside `[−2π, 2π]` cannot be inside
a footprint drawn within `[−2π, 2π]` -/
theorem C08_inPolygon_lon_bounds (pts : List (P2 F)) (q : P2 F) (lo hi : F) (hnd : ∀ e ∈ polygonEdges pts, e.1 ≠ e.2)
    (hlo : ∀ v ∈ pts, lo ≤ v.x) (hhi : ∀ v ∈ pts, v.x ≤ hi) (h : InPolygon pts q) : lo ≤ q.x ∧ q.x ≤ hi :=
  inPolygon_x_bounds pts q lo hi hnd hlo hhi h

/-- **C08** common longitude offset, general case: the footprint is offset by `d` (both drawings within `[−2π, 2π]`; the offset may
carry it across the `±π` meridian), the query longitude `L ∈ (−π, π]` becomes any representation `L' = L + d + 2πj ∈ (−π, π]` (what the
conversion to natural coordinates returns), `L, L' ≠ 0`, tolerances exact for every representation (`Separated`): same verdict -/
theorem C08_polygonContains_lon_offset_general (hπ : 0 < T.pi) (pts : List (P2 F)) (d : F) (p p' : P2 F) (j : ℤ)
    (hlo : -T.pi < p.x) (hhi : p.x ≤ T.pi) (hne : p.x ≠ 0)
    (hlo' : -T.pi < p'.x) (hhi' : p'.x ≤ T.pi) (hne' : p'.x ≠ 0)
    (hrel : p'.x = p.x + d + 2 * T.pi * j) (hy : p'.y = p.y)
    (hrange : ∀ v ∈ pts, -(2 * T.pi) ≤ v.x ∧ v.x ≤ 2 * T.pi)
    (hrange' : ∀ v ∈ pts, -(2 * T.pi) ≤ v.x + d ∧ v.x + d ≤ 2 * T.pi)
    (hsep : ∀ k : ℤ, Separated T pts ⟨p.x + 2 * T.pi * k, p.y⟩)
    (hsep' : ∀ k : ℤ, Separated T (pts.map (P2.shift ⟨d, 0⟩)) ⟨p'.x + 2 * T.pi * k, p'.y⟩) :
    @polygonContains F (fieldScalar T) true (pts.map (P2.shift ⟨d, 0⟩)) p' = @polygonContains F (fieldScalar T) true pts p :=
  polygonContains_lon_offset_general T hπ pts d p p' j hlo hhi hne hlo' hhi' hne' hrel hy hrange hrange' hsep hsep'

/-- **C08** `BoundingBox::point_inside` (spherical) under a common longitude offset -/
theorem C08_bbox_lon_offset (d : F) (b : BBox F) (p : P2 F) :
    @BBox.inside F (fieldScalar T) (b.shift ⟨d, 0⟩) true (P2.shift ⟨d, 0⟩ p) = @BBox.inside F (fieldScalar T) b true p :=
  BBox.inside_lon_offset T d b p

/-! ### 3(d) common longitude offset, general case: bounding box, plume, ridge kernel -/

/-- **C08** REMARK on "a query described with `L` or `L ± 360°`" at kernel level.  The kernels receive the query longitude from `atan2`,
i.e. always the canonical description in `(−π, π]`; two canonical descriptions of the same longitude coincide, so with `d = 0` the
offset theorems below only allow `j = 0`, `p' = p`.  The content of that clause of the property is `C08_longitude_alias_same_point`
(the two descriptions are the same Cartesian point, hence the same canonical longitude). -/
theorem C08_canonical_unique (hπ : 0 < T.pi) (L L' : F) (j : ℤ) (hlo : -T.pi < L) (hhi : L ≤ T.pi) (hlo' : -T.pi < L') (hhi' : L' ≤ T.pi)
    (hrel : L' = L + 2 * T.pi * j) : j = 0 ∧ L' = L := by
  have h1 : (-1 : ℤ) < j := by
    apply int_lt_of_two_pi_mul_lt hπ
    push_cast; linarith
  have h2 : j < (1 : ℤ) := by
    apply int_lt_of_two_pi_mul_lt hπ
    push_cast; linarith
  have : j = 0 := by omega
  subst this
  exact ⟨rfl, by simpa using hrel⟩

/-- **C08** the spherical bounding-box test tries every description that can matter: canonical query longitude `L ∈ (−π, π]`,
tolerance-enlarged longitude bounds (`BBox.loX`, `BBox.hiX`: what `insideImpl` really compares with) in `(−3π, 3π]`: the answer is
"inside" iff SOME description `L + 2πk` lies within the enlarged bounds (and the latitude within its enlarged bounds) -/
theorem C08_bbox_tries_all_aliases (hπ : 0 < T.pi) (b : BBox F) (p : P2 F) (hlo : -T.pi < p.x) (hhi : p.x ≤ T.pi)
    (hL : -(3 * T.pi) < b.loX T) (hH : b.hiX T ≤ 3 * T.pi) :
    @BBox.inside F (fieldScalar T) b true p = true ↔
      (∃ k : ℤ, b.loX T ≤ p.x + 2 * T.pi * k ∧ p.x + 2 * T.pi * k ≤ b.hiX T) ∧ b.okY T p.y :=
  BBox.inside_spherical_iff T hπ b p hlo hhi hL hH

/-- **C08** common longitude offset, general case, `BoundingBox::point_inside` (spherical): the box is offset by `d` (it may cross the
`±π` meridian), the canonical query longitude `L` becomes any canonical `L' = L + d + 2πj`; the tolerance-enlarged longitude bounds of
both boxes lie in `(−3π, 3π]` (the boxes of the line features are built from coordinates in `[−2π, 2π]` plus a buffer).  Same verdict.
No hypothesis `L ≠ 0` (all three descriptions are tried) and no tolerance proviso (the tolerance is relative to the box extent). -/
theorem C08_bbox_lon_offset_general (hπ : 0 < T.pi) (b : BBox F) (d : F) (p p' : P2 F) (j : ℤ)
    (hlo : -T.pi < p.x) (hhi : p.x ≤ T.pi) (hlo' : -T.pi < p'.x) (hhi' : p'.x ≤ T.pi)
    (hrel : p'.x = p.x + d + 2 * T.pi * j) (hy : p'.y = p.y)
    (hL : -(3 * T.pi) < b.loX T) (hH : b.hiX T ≤ 3 * T.pi)
    (hL' : -(3 * T.pi) < b.loX T + d) (hH' : b.hiX T + d ≤ 3 * T.pi) :
    @BBox.inside F (fieldScalar T) (b.shift ⟨d, 0⟩) true p' = @BBox.inside F (fieldScalar T) b true p :=
  BBox.inside_lon_offset_general T hπ b d p p' j hlo hhi hlo' hhi' hrel hy hL hH hL' hH'

/-- the same statement for the rule before upstream 'fix: bounding box tried only one longitude alias' (`BBox.insideOld`: the point
and `otherPoint`) — FALSE, see `C08_bbox_lon_offset_general_old_false` -/
def C08_bbox_lon_offset_general_old_full : Prop :=
  0 < T.pi → ∀ (b : BBox F) (d : F) (p p' : P2 F) (j : ℤ),
    -T.pi < p.x → p.x ≤ T.pi → -T.pi < p'.x → p'.x ≤ T.pi → p'.x = p.x + d + 2 * T.pi * j → p'.y = p.y →
    -(3 * T.pi) < b.loX T → b.hiX T ≤ 3 * T.pi → -(3 * T.pi) < b.loX T + d → b.hiX T + d ≤ 3 * T.pi →
    @BBox.insideOld F (fieldScalar T) (b.shift ⟨d, 0⟩) true p' = @BBox.insideOld F (fieldScalar T) b true p

/-- **C08** common longitude offset, general case, `Plume` footprint (`PlumeFeature.covers`: verdict and relative distance handed to
the models).  Every centre longitude is offset by `d` (`f.shift ⟨d, 0⟩`, all other data equal); the query keeps its depth and
latitude, its canonical longitude `L` becomes the canonical `L' = L + d + 2πj`.  Hypotheses: centre longitudes within `[−2π, 2π]`
before and after; listed depths ascending (so that the centre used between two cross-sections is a convex combination of the two —
it follows the offset, therefore the two ends cannot "choose differently"); no tie: no description of the query longitude is exactly
`π` away from the centre used at the query depth (`plumeSelect`, Proofs/MotionPlume.lean: plume.cc:283-330). -/
theorem C08_plume_covers_lon_offset (hπ : 0 < T.pi) (f : PlumeFeature F) (d : F) (ctx : Ctx F) (q q' : Query F) (j : ℤ)
    (hsph : ctx.coord.spherical = true) (hdepth : q'.depth = q.depth)
    (hlo : -T.pi < q.nat.y) (hhi : q.nat.y ≤ T.pi) (hlo' : -T.pi < q'.nat.y) (hhi' : q'.nat.y ≤ T.pi)
    (hrel : q'.nat.y = q.nat.y + d + 2 * T.pi * j) (hy : q'.nat.z = q.nat.z)
    (hasc : Ascending f.depths)
    (hrange : ∀ c ∈ f.coords, -(2 * T.pi) ≤ c.x ∧ c.x ≤ 2 * T.pi)
    (hrange' : ∀ c ∈ f.coords, -(2 * T.pi) ≤ c.x + d ∧ c.x + d ≤ 2 * T.pi)
    (hnt : ∀ up d0 sel, @plumeSelect F (fieldScalar T) f q.depth d0 up = .ok sel →
      ∀ k : ℤ, |q.nat.y + 2 * T.pi * k - sel.1.x| ≠ T.pi) :
    @PlumeFeature.covers F (fieldScalar T) (f.shift ⟨d, 0⟩) ctx q' = @PlumeFeature.covers F (fieldScalar T) f ctx q :=
  PlumeFeature.covers_lon_offset T hπ f d ctx q q' j hsph hdepth hlo hhi hlo' hhi' hrel hy hasc hrange hrange' hnt

/-- **C08** the same with hypotheses on the centre used at the query depth only (`up`: the offset `std::upper_bound` returns): both
drawings of it at most `3π` from the query longitude handed to the kernel (one step of `2π` then reaches the closest description), no tie.
No hypothesis on the order of the depths or on the other centres. -/
theorem C08_plume_covers_lon_offset_of_centre (hπ : 0 < T.pi) (f : PlumeFeature F) (d : F) (ctx : Ctx F) (q q' : Query F) (j : ℤ)
    (hsph : ctx.coord.spherical = true) (hdepth : q'.depth = q.depth)
    (hrel : q'.nat.y = q.nat.y + d + 2 * T.pi * j) (hy : q'.nat.z = q.nat.z)
    (hsel : ∀ up d0 sel, @upperBound F (fieldScalar T) f.depths q.depth (f.depths.length + 1) 0 f.depths.length = .ok up →
      @plumeSelect F (fieldScalar T) f q.depth d0 up = .ok sel →
      |q.nat.y - sel.1.x| ≤ 3 * T.pi ∧ |q'.nat.y - (sel.1.x + d)| ≤ 3 * T.pi ∧ ∀ k : ℤ, |q.nat.y + 2 * T.pi * k - sel.1.x| ≠ T.pi) :
    @PlumeFeature.covers F (fieldScalar T) (f.shift ⟨d, 0⟩) ctx q' = @PlumeFeature.covers F (fieldScalar T) f ctx q :=
  PlumeFeature.covers_lon_offset_sel T hπ f d ctx q q' j hsph hdepth hrel hy hsel

/-- **C08** common longitude offset, general case, `calculate_ridge_distance_and_spreading` (spherical): every ridge longitude offset by
`d`, the query's natural coordinates `(r, L, lat)` become `(r, L', lat)` with `L' = L + d + 2πj` (`nat.withLon L'`).  All four outputs
(spreading velocity, distance to the ridge, subducting velocity, migration time) are unchanged under `RidgeReach`: for every segment the
mid longitude, and for every transform fault its point `t0`, is strictly within `π` of `L` or of the ONE other description the code
tries (`otherPoint`: `L + 2π` for `L < 0`, `L − 2π` for `L ≥ 0`), before and after the offset.  The strict inequality contains the
no-tie condition `|check − m| ≠ |other − m|`.  That `L`, `L'` are canonical is not used; it is what makes `RidgeReach` hold for ridges
drawn in the ranges of `C08_ridge_reach_of_range`.  `sin`/`cos`: `2π`-periodic with the addition formulas (the great-circle distance
sees the longitude difference only).
The subducting velocity is covered since upstream 'fix: far copy of the query took the spreading velocity as subducting velocity'
(/repo commit 2db42b53): the defect (utilities.cc, far end of a segment reached by `other_check_point`) was found by the attempt to prove
this very statement, which then only went through for the other three outputs; the model follows the fix. -/
theorem C08_ridge_lon_offset (hπ : 0 < T.pi) (hP : PeriodLaws T) (hA : AngleAddLaws T) (d : F) (nat : P3 F) (L' : F) (j : ℤ)
    (hrel : L' = nat.y + d + 2 * T.pi * j) (ridges : List (List (P2 F))) (vels : List (List F)) (subVel : List (List F))
    (migr : List F) (hreach : RidgeReach T ⟨nat.y, nat.z⟩ ⟨L', nat.z⟩ d ridges) :
    @ridgeDistanceAndSpreading F (fieldScalar T) true (ridges.map (List.map (P2.shift ⟨d, 0⟩))) vels (nat.withLon L') subVel migr =
      @ridgeDistanceAndSpreading F (fieldScalar T) true ridges vels nat subVel migr :=
  ridgeDistanceAndSpreading_lon_offset T hπ hP hA d nat L' j hrel ridges vels subVel migr hreach

/-- **C08** `LonReach` (the per-longitude content of `RidgeReach`) from ranges: a canonical query longitude `L < 0` reaches every
feature longitude in `(−π, 2π]`, `L ≥ 0` every one in `[−2π, π)` — when no description of `L` is exactly `π` away.  Feature longitudes
in `[−2π, −π]` for `L < 0` (resp. `[π, 2π]` for `L ≥ 0`) may be NOT reached: `C08_ridge_lon_offset_inrange_full_false`. -/
theorem C08_ridge_reach_of_range (p : P2 F) (m : F) (hlo : -T.pi < p.x) (hhi : p.x ≤ T.pi)
    (h : (p.x < 0 ∧ -T.pi < m ∧ m ≤ 2 * T.pi) ∨ (0 ≤ p.x ∧ -(2 * T.pi) ≤ m ∧ m < T.pi))
    (hnt : ∀ k : ℤ, |p.x + 2 * T.pi * k - m| ≠ T.pi) : LonReach T p m :=
  lonReach_of_range T p m hlo hhi h hnt

/-- **C08** all four outputs of the ridge kernel when the offset does not re-normalise the query longitude (`L' = L + d` with the same
verdict of the sign test `lon < 0` that selects `otherPoint`): a plain translation in the longitude coordinate -/
theorem C08_ridge_lon_offset_same_sign (hA : AngleAddLaws T) (d : F) (nat : P3 F) (hsign : nat.y + d < 0 ↔ nat.y < 0)
    (ridges : List (List (P2 F))) (vels : List (List F)) (subVel : List (List F)) (migr : List F) :
    @ridgeDistanceAndSpreading F (fieldScalar T) true (ridges.map (List.map (P2.shift ⟨d, 0⟩))) vels (nat.withLon (nat.y + d))
        subVel migr =
      @ridgeDistanceAndSpreading F (fieldScalar T) true ridges vels nat subVel migr :=
  ridgeDistanceAndSpreading_lon_shift T hA d nat hsign ridges vels subVel migr

/-- the statement of `C08_ridge_lon_offset` with the range hypothesis of the property text only ("longitudes stay within
`[−360°, 360°]`") in place of `RidgeReach` — FALSE, see `C08_ridge_lon_offset_inrange_full_false` -/
def C08_ridge_lon_offset_inrange_full : Prop :=
  0 < T.pi → PeriodLaws T → AngleAddLaws T →
  ∀ (d : F) (nat : P3 F) (L' : F) (j : ℤ) (ridges : List (List (P2 F))) (vels subVel : List (List F)) (migr : List F),
    -T.pi < nat.y → nat.y ≤ T.pi → -T.pi < L' → L' ≤ T.pi → L' = nat.y + d + 2 * T.pi * j →
    (∀ ridge ∈ ridges, ∀ v ∈ ridge, (-(2 * T.pi) ≤ v.x ∧ v.x ≤ 2 * T.pi) ∧ (-(2 * T.pi) ≤ v.x + d ∧ v.x + d ≤ 2 * T.pi)) →
    @ridgeDistanceAndSpreading F (fieldScalar T) true (ridges.map (List.map (P2.shift ⟨d, 0⟩))) vels (nat.withLon L') subVel migr =
      @ridgeDistanceAndSpreading F (fieldScalar T) true ridges vels nat subVel migr

/-! ### 3(e) common longitude offset, general case: depth surfaces; the slab / fault frame's choice of description -/

/-- **C08** what `Surface::local_value` returns in a spherical world (surface.cc:153-230).  For a non-constant surface with at least one
kd-node, stored constants those of `Tri.precompute` (`Surface.build` establishes this), every kd-node referring to a stored triangle:
EITHER a value, and it is the value some reachable triangle interpolates at the query `p` or at `otherPoint p` (`L + 2π` for `L < 0`,
`L − 2π` for `L ≥ 0`), that triangle accepting the point; OR the error "not in any triangle", and then no reachable triangle accepts
`p` or `otherPoint p`.  The order of the five stages only decides which accepting triangle is found. -/
theorem C08_surface_lookup_spec (s : Surface F) (hpre : @Surface.PreOk F (fieldScalar T) s) (hok : s.NodesOk)
    (hc : s.constant = false) (hpos : 0 < s.nodes.size) (p : P2 F) :
    (∃ v, @Surface.localValue F (fieldScalar T) s true p = .ok v ∧
      (@Surface.Hit F (fieldScalar T) s p v ∨ @Surface.Hit F (fieldScalar T) s (@otherPoint F (fieldScalar T) p) v)) ∨
    (@Surface.localValue F (fieldScalar T) s true p = .error .notInTriangle ∧
      ∀ t, s.NodeTri t → ¬ @Tri.Accepts F (fieldScalar T) t p ∧ ¬ @Tri.Accepts F (fieldScalar T) t (@otherPoint F (fieldScalar T) p)) :=
  @Surface.localValue_spherical_spec F (fieldScalar T) s hpre hok hc hpos p

/-- **C08** depth surfaces under a common longitude offset, general case, in terms of reach.  Triangle vertices and kd-nodes offset by
`d` (`s.shift T ⟨d, 0⟩`), the query `(L, lat)` replaced by `(L + d + 2πj, lat)`.  `SurfaceReach`: whenever a reachable triangle accepts a
description `L + 2πk` of the query, that description is one of the two the lookup tries before the offset, and its offset copy is one of
the two tried after it.  `Surface.SingleValuedAt`: any two reachable triangles accepting descriptions of the query interpolate the same
value.  Then the lookup gives the same result, value or error.  (The search order differs between the frames, so without
single-valuedness the two frames may find different accepting triangles.) -/
theorem C08_surface_lon_offset_of_reach (s : Surface F) (hpre : @Surface.PreOk F (fieldScalar T) s) (hok : s.NodesOk) (d : F)
    (p p' : P2 F) (j : ℤ) (hrel : p'.x = p.x + d + 2 * T.pi * j) (hy : p'.y = p.y)
    (hreach : SurfaceReach T s p p' d) (hsv : Surface.SingleValuedAt T s p) :
    @Surface.localValue F (fieldScalar T) (s.shift T ⟨d, 0⟩) true p' = @Surface.localValue F (fieldScalar T) s true p :=
  Surface.localValue_lon_offset T s hpre hok d p p' j hrel hy hreach hsv

/-- **C08** depth surfaces under a common longitude offset, general case.  Canonical query longitudes `L, L' = L + d + 2πj ∈ (−π, π]`,
both non-zero (at `0` the description `+2π` is not tried: `C08_surface_lon_offset_at_zero_false`); every point a reachable triangle
accepts has its longitude within `[−2π, 2π]`, before and after the offset (the surface is drawn within the documented range; see
`C08_surface_accepts_lon_bounds` for the margin the tolerance of the triangle test needs); the surface has one value at the query.
Same value, or the same error. -/
theorem C08_surface_lon_offset (hπ : 0 < T.pi) (s : Surface F) (hpre : @Surface.PreOk F (fieldScalar T) s) (hok : s.NodesOk) (d : F)
    (p p' : P2 F) (j : ℤ) (hlo : -T.pi < p.x) (hhi : p.x ≤ T.pi) (hne : p.x ≠ 0)
    (hlo' : -T.pi < p'.x) (hhi' : p'.x ≤ T.pi) (hne' : p'.x ≠ 0)
    (hrel : p'.x = p.x + d + 2 * T.pi * j) (hy : p'.y = p.y)
    (hrange : ∀ t, s.NodeTri t → ∀ q : P2 F, @Tri.Accepts F (fieldScalar T) t q →
      (-(2 * T.pi) ≤ q.x ∧ q.x ≤ 2 * T.pi) ∧ (-(2 * T.pi) ≤ q.x + d ∧ q.x + d ≤ 2 * T.pi))
    (hsv : Surface.SingleValuedAt T s p) :
    @Surface.localValue F (fieldScalar T) (s.shift T ⟨d, 0⟩) true p' = @Surface.localValue F (fieldScalar T) s true p :=
  Surface.localValue_lon_offset T s hpre hok d p p' j hrel hy
    (surfaceReach_of_range T hπ s d p p' j hlo hhi hne hlo' hhi' hne' hrel hy hrange) hsv

/-- **C08** where the points accepted by a triangle can be: for a clockwise triangle (`c6 > 0`, the orientation for which the test
accepts an area) with vertex longitudes in `[lo, hi]`, an accepted point has its longitude in `[lo − m, hi + m]`,
`m = (hi − lo)·(c6·τ + 2τ)/c6`, `τ = 10⁴ε` (the absolute tolerance of `in_triangle` on the un-normalised barycentric weights) -/
theorem C08_surface_accepts_lon_bounds (heps : 0 ≤ T.eps) (t : Tri F) (q : P2 F) (lo hi : F) (h6 : 0 < @Tri.c6 F (fieldScalar T) t)
    (l0 : lo ≤ t.p0.x) (l1 : lo ≤ t.p1.x) (l2 : lo ≤ t.p2.x) (u0 : t.p0.x ≤ hi) (u1 : t.p1.x ≤ hi) (u2 : t.p2.x ≤ hi)
    (ha : @Tri.Accepts F (fieldScalar T) t q) :
    lo - (hi - lo) * ((@Tri.c6 F (fieldScalar T) t * (10000 * T.eps) + 10000 * T.eps + 10000 * T.eps) / @Tri.c6 F (fieldScalar T) t)
      ≤ q.x ∧
    q.x ≤ hi + (hi - lo) *
      ((@Tri.c6 F (fieldScalar T) t * (10000 * T.eps) + 10000 * T.eps + 10000 * T.eps) / @Tri.c6 F (fieldScalar T) t) :=
  Tri.accepts_x_bounds T heps t q lo hi h6 l0 l1 l2 u0 u1 u2 ha

/-- **C08** depth surfaces when the offset does not re-normalise the query longitude (`L' = L + d`, same verdict of the sign test
`lon < 0` that selects `otherPoint`): the whole search commutes with the offset, nothing is assumed about the triangles -/
theorem C08_surface_lon_offset_same_sign (d : F) (s : Surface F) (hs : @Surface.PreOk F (fieldScalar T) s) (p : P2 F)
    (hsign : p.x + d < 0 ↔ p.x < 0) :
    @Surface.localValue F (fieldScalar T) (s.shift T ⟨d, 0⟩) true (P2.shift ⟨d, 0⟩ p) =
      @Surface.localValue F (fieldScalar T) s true p :=
  Surface.localValue_lon_shift T d s hs p hsign

/-- the statement of `C08_surface_lon_offset` with "vertex longitudes within `[−2π, 2π]`" as the only range hypothesis and without
`L, L' ≠ 0` — FALSE at `L = 0`, see `C08_surface_lon_offset_at_zero_false` -/
def C08_surface_lon_offset_vertexrange_full : Prop :=
  0 < T.pi → ∀ (s : Surface F) (d : F) (p p' : P2 F) (j : ℤ),
    @Surface.PreOk F (fieldScalar T) s → s.NodesOk →
    -T.pi < p.x → p.x ≤ T.pi → -T.pi < p'.x → p'.x ≤ T.pi → p'.x = p.x + d + 2 * T.pi * j → p'.y = p.y →
    (∀ t, s.NodeTri t → ∀ v ∈ [t.p0, t.p1, t.p2],
      (-(2 * T.pi) ≤ v.x ∧ v.x ≤ 2 * T.pi) ∧ (-(2 * T.pi) ≤ v.x + d ∧ v.x + d ≤ 2 * T.pi)) →
    Surface.SingleValuedAt T s p →
    @Surface.localValue F (fieldScalar T) (s.shift T ⟨d, 0⟩) true p' = @Surface.localValue F (fieldScalar T) s true p

/-- **C08** the slab / fault frame: `distance_point_from_curved_planes` is — definitionally — the function in which the query longitude is
aligned to the foot point by `dpfcpLonShift`, the on-trench test is `DpfcpOnTrench` (on the aligned point), and the description of the
query's surface point used for the side test of the generic branch (`check_point_surface_2d_temp`, utilities.cc:620-637) is
`dpfcpAlias cs pk.x`: the one of `x`, `x + 2π`, `x − 2π` whose longitude is closest to the trench point `pk` next to the foot point
(ties: `x`) -/
theorem C08_dpfcp_alias_is_model (coord : CoordSys F) (checkPoint nat : P3 F) (reference : P2 F) (pointList : List (P2 F))
    (lengths : List (List F)) (angles : List (List (P2 F))) (startRadius : F) (onlyPositive : Bool) (bz : Bezier F) :
    @distancePointFromCurvedPlanes F (fieldScalar T) coord checkPoint nat reference pointList lengths angles startRadius onlyPositive bz =
      @distancePointFromCurvedPlanesA F (fieldScalar T) coord checkPoint nat reference pointList lengths angles startRadius onlyPositive
        bz :=
  rfl

/-- **C08** the choice of the query's description in the slab / fault frame.  `cs = (x, lat)` the query's surface point, `m = pk.x` the
trench longitude.
(1) if `x` is at most `3π` from `m` (true for a canonical `x` and `m ∈ [−2π, 2π]`: `C08_dpfcp_reach_of_range`), the chosen description is
within `π` of `m`, has the query's latitude and is one of `x`, `x + 2π`, `x − 2π`;
(2) if one of these three is strictly within `π` of `m`, it is the one chosen;
(3) the choice commutes with a common longitude offset, also across the `±π` meridian: trench longitude `m + d`, query longitude
`x' = x + d + 2πj` (both at most `3π` from the trench longitude; no tie: no description of the query exactly `π` from `m`). -/
theorem C08_dpfcp_alias_choice (hπ : 0 < T.pi) (cs : P2 F) (m : F) :
    (|cs.x - m| ≤ 3 * T.pi →
      |(@dpfcpAlias F (fieldScalar T) cs m).x - m| ≤ T.pi ∧ (@dpfcpAlias F (fieldScalar T) cs m).y = cs.y ∧
      ∃ k : ℤ, (k = 0 ∨ k = 1 ∨ k = -1) ∧ (@dpfcpAlias F (fieldScalar T) cs m).x = cs.x + 2 * T.pi * k) ∧
    (∀ k : ℤ, (k = 0 ∨ k = 1 ∨ k = -1) → |cs.x + 2 * T.pi * k - m| < T.pi →
      @dpfcpAlias F (fieldScalar T) cs m = ⟨cs.x + 2 * T.pi * k, cs.y⟩) ∧
    (∀ (d : F) (cs' : P2 F) (j : ℤ), cs'.x = cs.x + d + 2 * T.pi * j → cs'.y = cs.y →
      |cs.x - m| ≤ 3 * T.pi → |cs'.x - (m + d)| ≤ 3 * T.pi → (∀ k : ℤ, |cs.x + 2 * T.pi * k - m| ≠ T.pi) →
      @dpfcpAlias F (fieldScalar T) cs' (m + d) = P2.shift ⟨d, 0⟩ (@dpfcpAlias F (fieldScalar T) cs m)) :=
  ⟨dpfcpAlias_spec T cs m, fun k hk h => dpfcpAlias_within T hπ cs m k hk h,
    fun d cs' j hrel hy hr hr' hnt => dpfcpAlias_lon_offset T hπ d cs cs' m j hrel hy hr hr' hnt⟩

/-- **C08** the on-trench test of `distance_point_from_curved_planes` with the query longitude aligned to the foot point (the model since
upstream 'fix: on-trench test compared longitudes that can be 2 pi apart'; `dpfcpLonShift`, `DpfcpOnTrench` as they occur in
`C08_dpfcp_alias_is_model`) under a common longitude offset.  Query `(r, L, lat)`, foot point `(r0, m, lat0)` on the trench curve; the
curve offset by `d` (foot longitude `m + d`), the query longitude `L' = L + d + 2πj`; both query longitudes at most `3π` from the foot
longitude (canonical query, trench within `[−2π, 2π]`), no description of the query exactly `π` from the foot longitude.  Then the
aligned longitude follows the offset, hence the test gives the same verdict and the aligned 2-d point of the side test is the offset
copy. -/
theorem C08_dpfcp_on_trench_lon_offset (hπ : 0 < T.pi) (d r L L' lat r0 m lat0 : F) (j : ℤ) (hrel : L' = L + d + 2 * T.pi * j)
    (hr : |L - m| ≤ 3 * T.pi) (hr' : |L' - (m + d)| ≤ 3 * T.pi) (hnt : ∀ k : ℤ, |L + 2 * T.pi * k - m| ≠ T.pi) :
    (L' + @dpfcpLonShift F (fieldScalar T) L' (m + d) = L + @dpfcpLonShift F (fieldScalar T) L m + d) ∧
    (@DpfcpOnTrench F (fieldScalar T) ⟨r, L' + @dpfcpLonShift F (fieldScalar T) L' (m + d), lat⟩ ⟨r0, m + d, lat0⟩ ↔
      @DpfcpOnTrench F (fieldScalar T) ⟨r, L + @dpfcpLonShift F (fieldScalar T) L m, lat⟩ ⟨r0, m, lat0⟩) ∧
    ((⟨L' + @dpfcpLonShift F (fieldScalar T) L' (m + d), lat⟩ : P2 F) =
      P2.shift ⟨d, 0⟩ ⟨L + @dpfcpLonShift F (fieldScalar T) L m, lat⟩) := by
  have h := dpfcp_aligned_lon_offset T hπ d L L' m j hrel hr hr' hnt
  refine ⟨h, dpfcpOnTrench_aligned_lon_offset T hπ d r L L' lat r0 m lat0 j hrel hr hr' hnt, ?_⟩
  simp only [P2.shift, h, add_zero]

/-- **C08** with the alignment, a query exactly above a foot point that is written `2π` away passes the on-trench test (`sqrt 0 = 0`) -/
theorem C08_dpfcp_on_trench_alias_fires (hπ : 0 < T.pi) (hs0 : T.sqrt 0 = 0) (r L lat : F) :
    @DpfcpOnTrench F (fieldScalar T) ⟨r, L + @dpfcpLonShift F (fieldScalar T) L (L + 2 * T.pi), lat⟩ ⟨r, L + 2 * T.pi, lat⟩ :=
  dpfcpOnTrench_aligned_alias T hπ hs0 r L lat

/-- **C08** (HISTORY: the defect repaired by upstream 'fix: on-trench test compared longitudes that can be 2 pi apart', /repo commit
1a33e45f) the on-trench test applied to the RAW natural coordinates depends on the DESCRIPTION of the longitude: with `sqrt 0 = 0`,
`sqrt (x·x) = |x|`, `π ≥ 1` a query's surface point `(r, L, lat)` passes the test against the foot point `(r, L, lat)` and fails it
against `(r, L + 2π, lat)`, the same point of the sphere (`C08_longitude_alias_same_point`).  The foot point carries the description the
trench was written with, the query the canonical one; in the failing case the generic branch normalised the Cartesian difference of two
equal points. -/
theorem C08_dpfcp_on_trench_test_not_alias_invariant (hs0 : T.sqrt 0 = 0) (hs : ∀ x : F, T.sqrt (x * x) = |x|) (hπ : 1 ≤ T.pi)
    (r L lat : F) :
    @DpfcpOnTrench F (fieldScalar T) ⟨r, L, lat⟩ ⟨r, L, lat⟩ ∧ ¬ @DpfcpOnTrench F (fieldScalar T) ⟨r, L, lat⟩ ⟨r, L + 2 * T.pi, lat⟩ :=
  dpfcpOnTrench_alias T hs0 hs hπ r L lat

/-- the full statement for the spherical branch of the closest point: the result follows the offset in every member, the signed
distance included.  FALSE (`C08_bezier_closest_lon_offset_full_false`): the sign is taken from `(derivative_point −
point_on_curve)·(check_point − point_on_curve)` with the raw longitude difference, which changes by `2πj` (and the first factor is a
vector minus a position, see `C08_bezier_closest_translation_full_false`). -/
def C08_bezier_closest_lon_offset_full : Prop :=
  0 < T.pi → HalfTurnLaws T → ∀ (d : F) (bz : Bezier F) (cp cp' : P2 F) (j : ℤ),
    cp'.x = cp.x + d + 2 * T.pi * j → cp'.y = cp.y →
    (∀ (i : Nat) (p1 : P2 F), bz.points[i]? = some p1 → EstReach T d cp cp' p1) →
    @Bezier.closestPoint F (fieldScalar T) (bz.shift ⟨d, 0⟩) true cp' =
      Except.map (Option.map (ClosestPoint.shift ⟨d, 0⟩)) (@Bezier.closestPoint F (fieldScalar T) bz true cp)

/-- **C08** (partial: the sign of `distance` is missing) the closest point on the Bezier trench curve, spherical branch, under a common
longitude offset in the general case.  Curve points and control points offset by `⟨d, 0⟩`, the query `(L, lat)` replaced by
`(L + d + 2πj, lat)`.  The whole damped Newton iteration with its line search produces the same iterates: same piece, same parametric
fraction, same normal, same absolute distance, foot point offset by `d`; errors (`newton`) and the "nothing accepted" result agree.
`HalfTurnLaws`: `sin (x + π) = −sin x`, `cos (x + π) = −cos x`.  `EstReach T d cp cp' p1` for the first point `p1` of every piece: both query
longitudes at most `3π` from `p1` (resp. `p1 + d`), and no description `L + 2πk` exactly `π` away from `p1` (otherwise the normalised
longitude difference of `initialEstimateSph` may be `π` in one frame and `−π` in the other and the iteration starts elsewhere). -/
theorem C08_bezier_closest_lon_offset_partial (hπ : 0 < T.pi) (hH : HalfTurnLaws T) (d : F) (bz : Bezier F) (cp cp' : P2 F) (j : ℤ)
    (hrel : cp'.x = cp.x + d + 2 * T.pi * j) (hy : cp'.y = cp.y)
    (hest : ∀ (i : Nat) (p1 : P2 F), bz.points[i]? = some p1 → EstReach T d cp cp' p1) :
    Except.map (Option.map ClosestPoint.unsign) (@Bezier.closestPoint F (fieldScalar T) (bz.shift ⟨d, 0⟩) true cp') =
      Except.map (Option.map (fun c => (c.shift ⟨d, 0⟩).unsign)) (@Bezier.closestPoint F (fieldScalar T) bz true cp) :=
  Bezier.closestPoint_lon_offset T hπ hH d bz cp cp' j hrel hy hest

/-- **C08** `EstReach` from ranges: canonical query longitudes `L, L' ∈ (−π, π]`, the point's longitude within `[−2π, 2π]` before and after
the offset, no description of the query exactly `π` away -/
theorem C08_bezier_est_reach_of_range (d : F) (cp cp' p1 : P2 F) (hlo : -T.pi < cp.x) (hhi : cp.x ≤ T.pi) (hlo' : -T.pi < cp'.x)
    (hhi' : cp'.x ≤ T.pi) (h1 : -(2 * T.pi) ≤ p1.x ∧ p1.x ≤ 2 * T.pi) (h2 : -(2 * T.pi) ≤ p1.x + d ∧ p1.x + d ≤ 2 * T.pi)
    (hnt : ∀ k : ℤ, |cp.x + 2 * T.pi * k - p1.x| ≠ T.pi) : EstReach T d cp cp' p1 :=
  estReach_of_range T d cp cp' p1 hlo hhi hlo' hhi' h1 h2 hnt

/-- **C08** `HalfTurnLaws` implies the `2π`-periodicity used elsewhere -/
theorem C08_halfTurn_periodLaws (hH : HalfTurnLaws T) : PeriodLaws T := hH.periodLaws

/-- **C08** a canonical query longitude and a trench longitude within `[−2π, 2π]` are at most `3π` apart -/
theorem C08_dpfcp_reach_of_range (x m : F) (hlo : -T.pi < x) (hhi : x ≤ T.pi) (h1 : -(2 * T.pi) ≤ m) (h2 : m ≤ 2 * T.pi) :
    |x - m| ≤ 3 * T.pi :=
  dpfcp_reach_of_range T x m hlo hhi h1 h2

end field

/-! ### negative results (witnesses over `ℚ`, `ε = 2⁻⁵²`) -/

/-- **C08** (candidate finding) the raw tolerance test is not translation invariant: `approx(1, 1+10⁻¹²)` but not `approx(0, 10⁻¹²)` -/
theorem C08_approx_not_translation_invariant :
    @approx ℚ (fieldScalar c08Transc) 1 (1 + 1 / 10 ^ 12) = true ∧
    @approx ℚ (fieldScalar c08Transc) (1 + -1) (1 + 1 / 10 ^ 12 + -1) = false :=
  approx_not_translation_invariant

/-- **C08** (candidate finding) the polygon test is not translation invariant: `(2+2⁻⁴⁰, 2+2⁻⁴⁰)` is reported inside `[1,2]²`,
and outside after everything is moved by `(−2,−2)` -/
theorem C08_polygon_translation_full_false : ¬ C08_polygon_translation_full c08Transc := by
  intro h
  have := h ⟨-2, -2⟩ c08Square ⟨2 + 1 / 2 ^ 40, 2 + 1 / 2 ^ 40⟩
  unfold polygonContains at this
  simp only [Bool.false_eq_true, if_false] at this
  rw [polygon_corner_inside, polygon_corner_outside] at this
  exact absurd this (by decide)

/-- **C08** (candidate finding) the sign of `ClosestPointOnCurve::distance` is not translation invariant: the straight curve
`(−1,0),(0,0),(1,0)` with check point `(0,1)` gives `+1`, the same configuration moved by `(0,1)` gives `−1` -/
theorem C08_bezier_closest_translation_full_false : ¬ C08_bezier_closest_translation_full c08Transc := by
  intro h
  have := h ⟨0, 1⟩ (c08Line 0) ⟨0, 0 + 1⟩
  have e1 : (c08Line 0).shift ⟨0, 1⟩ = c08Line 1 := by
    simp only [c08Line, Bezier.shift, P2.shift, List.map_cons, List.map_nil]
    norm_num
  have e2 : P2.shift ⟨0, 1⟩ (⟨0, 0 + 1⟩ : P2 ℚ) = ⟨0, 1 + 1⟩ := by
    simp only [P2.shift]; norm_num
  rw [e1, e2, c08Line_closest 1, c08Line_closest 0] at this
  simp only [Except.map, Option.map_some, Except.ok.injEq, Option.some.injEq, ClosestPoint.shift, ClosestPoint.mk.injEq] at this
  norm_num at this

/-- **C08** (candidate finding, boundary case) a footprint between the longitudes `5` and `6 = 2π` (`π := 3`): the alias `(2π, 0)` of
the point `(0, 0)` is on its boundary, but the spherical test at `(0, 0)` answers "outside" -/
theorem C08_footprint_at_zero_missed :
    @polygonContainsImpl ℚ (fieldScalar c08Transc) c08Footprint ⟨0 + 2 * c08Transc.pi * ((1 : ℤ) : ℚ), 0⟩ = true ∧
    @polygonContains ℚ (fieldScalar c08Transc) true c08Footprint ⟨0, 0⟩ = false := by
  refine ⟨?_, footprint_misses_zero⟩
  have : (0 : ℚ) + 2 * c08Transc.pi * ((1 : ℤ) : ℚ) = 6 := by
    show (0 : ℚ) + 2 * 3 * ((1 : ℤ) : ℚ) = 6
    norm_num
  rw [this]
  exact footprint_contains_alias

/-- **C08** (documents the repaired defect) with the single-alias rule the bounding box is NOT invariant: box longitudes
`[−2π − 0.3, −2π + 0.1]`, latitudes `[−1, 1]`, query `(−0.005·π, 0)` (`π := 3`).  The description `L − 2π` is in the box but the old rule
tries `L` and `L + 2π`: outside.  After the offset `d = 2π` the box is `[−0.3, 0.1]`, the canonical query longitude is the same: inside. -/
theorem C08_bbox_lon_offset_general_old_false : ¬ C08_bbox_lon_offset_general_old_full c08Transc := by
  intro h
  have e : c08Transc.pi = 3 := rfl
  have hl : c08Box.loX c08Transc = -63 / 10 - 1 / 2 ^ 52 * (2 / 5) := by
    show (-63 / 10 : ℚ) - 1 / 2 ^ 52 * |(-59 / 10 : ℚ) - -63 / 10| = _
    norm_num [abs_of_pos]
  have hh : c08Box.hiX c08Transc = -59 / 10 + 1 / 2 ^ 52 * (2 / 5) := by
    show (-59 / 10 : ℚ) + 1 / 2 ^ 52 * |(-59 / 10 : ℚ) - -63 / 10| = _
    norm_num [abs_of_pos]
  have := h (by rw [e]; norm_num) c08Box 6 ⟨-15 / 1000, 0⟩ ⟨-15 / 1000, 0⟩ (-1)
    (by rw [e]; norm_num) (by rw [e]; norm_num) (by rw [e]; norm_num) (by rw [e]; norm_num) (by rw [e]; norm_num) rfl
    (by rw [e, hl]; norm_num) (by rw [e, hh]; norm_num) (by rw [e, hl]; norm_num) (by rw [e, hh]; norm_num)
  rw [bbox_old_rule_witness.1, bbox_old_rule_witness.2.1] at this
  exact absurd this (by decide)

/-- **C08** (candidate finding) the ridge kernel is NOT invariant under a common longitude offset when the ridge is merely drawn
within `[−2π, 2π]` (`π := 3`, constant `sin`/`cos`, which satisfy all the laws): ridge `(5,0)–(6,0)` with spreading velocities `1, 2`,
query `(r, lon, lat) = (1, 1/2, 0)` gives the velocity of the WEST end (the description `1/2 + 2π = 6.5`, half a unit east of the ridge,
is never tried: for `lon ≥ 0` the code tries `lon` and `lon − 2π`); offset by `d = −5` (ridge `(0,0)–(1,0)`, canonical query longitude
`1/2 − 5 + 2π = 3/2`) it gives the velocity of the EAST end; the distance is measured to the same end.  Replay in degrees: ridge
`[350,0],[360,0]`, query longitude `5`: foot point `350` (`15°` away; the ridge end `360 ≡ 0` is `5°` away); everything offset by `−350`
(ridge `[0,0],[10,0]`, query longitude `15`): foot point `10`, `5°` away. -/
theorem C08_ridge_lon_offset_inrange_full_false : ¬ C08_ridge_lon_offset_inrange_full c08Flat := by
  intro h
  have e : c08Flat.pi = 3 := rfl
  have := h (by rw [e]; norm_num) c08Flat_periodLaws c08Flat_angleAddLaws (-5) ⟨1, 1 / 2, 0⟩ (3 / 2) 1 [[⟨5, 0⟩, ⟨6, 0⟩]] [[1, 2]] [[0]] []
    (by rw [e]; norm_num) (by rw [e]; norm_num) (by rw [e]; norm_num) (by rw [e]; norm_num) (by rw [e]; norm_num)
    (by
      intro ridge hr v hv
      simp only [List.mem_cons, List.not_mem_nil, or_false] at hr
      subst hr
      simp only [List.mem_cons, List.not_mem_nil, or_false] at hv
      rcases hv with rfl | rfl <;> rw [e] <;> norm_num)
  have e1 : ([[⟨5, 0⟩, ⟨6, 0⟩]] : List (List (P2 ℚ))).map (List.map (P2.shift ⟨-5, 0⟩)) = [[⟨0, 0⟩, ⟨1, 0⟩]] := by
    simp only [List.map_cons, List.map_nil, P2.shift]; norm_num
  have e2 : (⟨1, 1 / 2, 0⟩ : P3 ℚ).withLon (3 / 2) = ⟨1, 3 / 2, 0⟩ := rfl
  obtain ⟨⟨r, hr, hv⟩, ⟨r', hr', hv'⟩⟩ := ridge_inrange_witness
  rw [e1, e2, hr, hr'] at this
  have hs : r' = r := by simpa using this
  rw [hs, hv] at hv'
  exact absurd hv' (by norm_num)

/-- **C08** (boundary case, same family as `C08_footprint_at_zero_missed`) with vertex longitudes merely within `[−2π, 2π]` and the query
longitude `0` allowed, the depth-surface lookup is NOT invariant (`π := 3`): one triangle `(5,0),(5,1),(6,0)` with values `10, 20, 30`,
query `(0, 0)`: the descriptions tried are `0` and `−2π`, the vertex `(2π, 0)` is not found: "not in any triangle".  Everything offset
by `d = −1`: triangle `(4,0),(4,1),(5,0)`, canonical query longitude `−1`, other description `−1 + 2π = 5`: a value is returned.
In degrees: triangle `[300,0],[300,60],[360,0]`, query longitude `0`; offset `−60`. -/
theorem C08_surface_lon_offset_at_zero_false : ¬ C08_surface_lon_offset_vertexrange_full c08Transc := by
  intro h
  have e : c08Transc.pi = 3 := rfl
  have := h (by rw [e]; norm_num) c08Surface5 (-1) ⟨0, 0⟩ ⟨-1, 0⟩ 0 (Surface.shift_preOk c08Transc _ _)
    (Surface.shift_nodesOk c08Transc _ _ c08Surface_nodesOk)
    (by rw [e]; norm_num) (by rw [e]; norm_num) (by rw [e]; norm_num) (by rw [e]; norm_num) (by rw [e]; norm_num) rfl
    c08Surface5_vertices c08Surface5_singleValued
  obtain ⟨v, hv⟩ := c08Surface5_offset
  rw [hv, c08Surface5_at_zero] at this
  cases this

/-- **C08** (same defect as `C08_bezier_closest_translation_full_false`, spherical branch) the SIGN of `ClosestPointOnCurve::distance` does
not follow a common longitude offset.  Bundle `c08Half` (`π := 3`, `sin := (−1)^⌊x/3⌋`, `cos := 0`, `sqrt := id`: the half-turn laws hold,
the Newton iteration stops at its start value).  Curve along the latitude `1` from longitude `1` to `2`, query `(3/2, 2)`: foot point
`(3/2, 1)`, distance `−1`.  Everything offset by `d = 4` (curve `[5, 6]`, canonical query longitude `3/2 + 4 − 2π = −1/2`): foot point
`(11/2, 1)`, same fraction `1/2`, distance `+1`: the factor `check_point − point_on_curve` has the longitude component `−2π` instead
of `0`. -/
theorem C08_bezier_closest_lon_offset_full_false : ¬ C08_bezier_closest_lon_offset_full c08Half := by
  intro h
  have e : c08Half.pi = 3 := rfl
  have := h (by rw [e]; norm_num) c08Half_halfTurnLaws 4 (c08HLine 1) ⟨3 / 2, 2⟩ ⟨-1 / 2, 2⟩ (-1) (by rw [e]; norm_num) rfl
    c08HLine_estReach
  rw [c08HLine_shift] at this
  obtain ⟨c1, h1, d1⟩ := c08HLine_frame1
  obtain ⟨c2, h2, d2⟩ := c08HLine_frame2
  rw [h1, h2] at this
  simp only [Except.map, Option.map_some, Except.ok.injEq, Option.some.injEq] at this
  have hd : c2.distance = (ClosestPoint.shift ⟨4, 0⟩ c1).distance := by rw [this]
  rw [d2] at hd
  have : (ClosestPoint.shift ⟨4, 0⟩ c1).distance = c1.distance := rfl
  rw [this, d1] at hd
  norm_num at hd

/-! ### the hypotheses are satisfiable -/
section examples

/-- a bundle over `ℚ` with constant `sin = 0`, `cos = 1` (`π := 3`): periodic, and the addition formulas hold -/
def c08Periodic : Transc ℚ := { c08Transc with sin := fun _ => 0, cos := fun _ => 1 }

example : PeriodLaws c08Periodic := ⟨fun _ => rfl, fun _ => rfl⟩
example : AngleAddLaws c08Periodic :=
  ⟨fun _ _ => by simp [c08Periodic], fun _ _ => by simp [c08Periodic], fun _ => by simp [c08Periodic]⟩

/-- a bundle over `ℝ` whose `sin`, `cos`, `π` are the real ones (the other members are placeholders) -/
noncomputable def c08Real : Transc ℝ :=
  { sqrt := Real.sqrt, exp := Real.exp, log := id, sin := Real.sin, cos := Real.cos, tan := Real.tan, asin := id, acos := id,
    atan := id, tanh := id, erfc := id, floor := id, ceil := id, round := id, atan2 := fun a _ => a, pow := fun a _ => a,
    fmod := fun a _ => a, pi := Real.pi, eps := 1 / 2 ^ 52, dblMin := 0, dblMax := 1000, inf := 1000 }

/-- the real functions satisfy the periodicity and the addition laws -/
theorem c08Real_periodLaws : PeriodLaws c08Real :=
  ⟨fun x => Real.sin_add_two_pi x, fun x => Real.cos_add_two_pi x⟩
theorem c08Real_angleAddLaws : AngleAddLaws c08Real :=
  ⟨fun x y => Real.sin_add x y, fun x y => Real.cos_add x y, fun x => by
    have := Real.sin_sq_add_cos_sq x
    show Real.sin x * Real.sin x + Real.cos x * Real.cos x = 1
    nlinarith [this]⟩

/-- `C08_longitude_alias_same_point` / `…_same_answer`: a spherical coordinate system, a spherical world -/
example : (⟨true, .none, 1⟩ : CoordSys ℝ).spherical = true := rfl
example : ((⟨⟨⟨true, .none, 6371000⟩, 1600, 293, true, 0, 1, 1, 10⟩, none, []⟩ : World ℝ)).ctx.coord.spherical = true := rfl

/-- `C08_alias_complete`, `C08_polygonContains_tries_all_aliases`: `π := 3`, longitude `1` -/
example : 0 < c08Transc.pi ∧ -c08Transc.pi < (⟨1, 0⟩ : P2 ℚ).x ∧ (⟨1, 0⟩ : P2 ℚ).x ≤ c08Transc.pi ∧ (⟨1, 0⟩ : P2 ℚ).x ≠ 0 := by
  show (0 : ℚ) < 3 ∧ -(3 : ℚ) < 1 ∧ (1 : ℚ) ≤ 3 ∧ (1 : ℚ) ≠ 0
  norm_num

theorem c08_vertexTest_false (b p : P2 ℚ) (h : 1 ≤ |b.x - p.x|) (hb : |b.x| ≤ 1000) (hp : |p.x| ≤ 1000) :
    vertexTest c08Transc b p = false := by
  unfold vertexTest
  have : @approx ℚ (fieldScalar c08Transc) b.x p.x = false := by
    rw [Bool.eq_false_iff, ne_eq, approx_field]
    show ¬ (|b.x - p.x| < |min b.x p.x| * (1 / 2 ^ 52) * 10000)
    have hm : |min b.x p.x| ≤ 1000 := by
      rcases min_choice b.x p.x with h' | h' <;> rw [h'] <;> assumption
    have : |min b.x p.x| * (1 / 2 ^ 52) * 10000 < 1 := by
      have h2 : (0 : ℚ) ≤ |min b.x p.x| := abs_nonneg _
      nlinarith
    linarith
  rw [this, Bool.false_and]

/-- `C08_polygon_translation`: the square `[1,2]²`, the point `(3, 3/2)` (one unit away in `x` from every vertex), moved by `(10, 10)` -/
example : 0 < c08Transc.eps ∧ VertexExact c08Transc c08Square ⟨3, 3 / 2⟩ ∧
    VertexExact c08Transc (c08Square.map (P2.shift ⟨10, 10⟩)) (P2.shift ⟨10, 10⟩ ⟨3, 3 / 2⟩) := by
  refine ⟨by show (0 : ℚ) < 1 / 2 ^ 52; norm_num, ?_, ?_⟩
  · apply vertexExact_of_all_false
    intro b hb
    simp only [c08Square, List.mem_cons, List.not_mem_nil, or_false] at hb
    rcases hb with rfl | rfl | rfl | rfl <;>
      exact c08_vertexTest_false _ _ (by norm_num [abs_of_neg, abs_of_pos]) (by norm_num [abs_of_pos]) (by norm_num [abs_of_pos])
  · apply vertexExact_of_all_false
    intro b hb
    simp only [c08Square, List.map_cons, List.map_nil, List.mem_cons, List.not_mem_nil, or_false] at hb
    rcases hb with rfl | rfl | rfl | rfl <;>
      exact c08_vertexTest_false _ _ (by norm_num [P2.shift, abs_of_neg, abs_of_pos]) (by norm_num [P2.shift, abs_of_pos])
        (by norm_num [P2.shift, abs_of_pos])

/-- `C08_plume_covers_translation`, `C08_area_covers_translation`: the translated query in a Cartesian world -/
example (q : Query ℚ) (v : P2 ℚ) :
    let q' : Query ℚ := { q with nat := ⟨q.nat.x + v.x, q.nat.y + v.y, q.nat.z⟩ }
    q'.depth = q.depth ∧ surfacePoint false q'.nat = P2.shift v (surfacePoint false q.nat) := ⟨rfl, rfl⟩

/-- `C08_surface_translation`, `C08_area_covers_translation`: constant surfaces (and every surface made by `Surface.build`,
`C11_build_preOk`) store `pre = triangles.map precompute` -/
example : @Surface.PreOk ℚ (fieldScalar c08Transc) (@Surface.constantOf ℚ 5) := by
  unfold Surface.PreOk Surface.constantOf
  simp

/-- `C08_rotation_partial`, `C08_ellipse_rotation_gen`: `c = 3/5`, `s = 4/5` -/
example : (3 / 5 : ℚ) * (3 / 5) + (4 / 5) * (4 / 5) = 1 := by norm_num

/-- `C08_ellipse_rotation_gen` with the real functions: `θ' = θ + φ`, `c = cos φ`, `s = sin φ` -/
example (theta phi : ℝ) :
    Real.cos phi * Real.cos phi + Real.sin phi * Real.sin phi = 1 ∧
    c08Real.cos (theta + phi) = c08Real.cos theta * Real.cos phi - c08Real.sin theta * Real.sin phi ∧
    c08Real.sin (theta + phi) = c08Real.sin theta * Real.cos phi + c08Real.cos theta * Real.sin phi :=
  ⟨by nlinarith [Real.sin_sq_add_cos_sq phi], Real.cos_add theta phi, Real.sin_add theta phi⟩

/-- `C08_polygonContains_lon_offset_general`: the square `[1,2]²` (`π := 3`), query `(3/2, 3/2)`, offset `d = 4` (footprint carried to
longitudes `[5,6]`, across the meridian `π`), re-normalised query longitude `−1/2 = 3/2 + 4 − 2π`: all hypotheses hold -/
example :
    (0 : ℚ) < c08Transc.pi ∧
    (-c08Transc.pi < (3 / 2 : ℚ) ∧ (3 / 2 : ℚ) ≤ c08Transc.pi ∧ (3 / 2 : ℚ) ≠ 0) ∧
    (-c08Transc.pi < (-1 / 2 : ℚ) ∧ (-1 / 2 : ℚ) ≤ c08Transc.pi ∧ (-1 / 2 : ℚ) ≠ 0) ∧
    (∀ v ∈ c08Square, -(2 * c08Transc.pi) ≤ v.x ∧ v.x ≤ 2 * c08Transc.pi) ∧
    (∀ v ∈ c08Square, -(2 * c08Transc.pi) ≤ v.x + 4 ∧ v.x + 4 ≤ 2 * c08Transc.pi) ∧
    ((-1 / 2 : ℚ) = 3 / 2 + 4 + 2 * c08Transc.pi * ((-1 : ℤ) : ℚ)) ∧
    (∀ k : ℤ, Separated c08Transc c08Square ⟨3 / 2 + 2 * c08Transc.pi * k, 3 / 2⟩) ∧
    (∀ k : ℤ, Separated c08Transc (c08Square.map (P2.shift ⟨4, 0⟩)) ⟨-1 / 2 + 2 * c08Transc.pi * k, 3 / 2⟩) := by
  obtain ⟨h1, h2, h3, h4, h5, h6⟩ := c08_lon_offset_example
  refine ⟨h1, ?_, ?_, h2, h3, h4, h5, h6⟩
  · show -(3 : ℚ) < 3 / 2 ∧ (3 / 2 : ℚ) ≤ 3 ∧ (3 / 2 : ℚ) ≠ 0
    norm_num
  · show -(3 : ℚ) < -1 / 2 ∧ (-1 / 2 : ℚ) ≤ 3 ∧ (-1 / 2 : ℚ) ≠ 0
    norm_num

/-- `C08_inPolygon_lon_bounds`: the edges of the square `[1,2]²` are non-degenerate -/
example : ∀ e ∈ polygonEdges c08Square, e.1 ≠ e.2 := (c08_lon_offset_example.2.2.2.2.1 0).nondegenerate

/-- `C08_polygonContains_lon_offset`, `C08_bbox_lon_offset`: longitude `3/2` offset by `1/2` keeps the sign -/
example : ((3 / 2 : ℚ) + 1 / 2 < 0 ↔ (3 / 2 : ℚ) < 0) := by norm_num

/-- `C08_bbox_tries_all_aliases`, `C08_bbox_lon_offset_general`: the box with longitudes `[−2π − 0.3, −2π + 0.1]` (`π := 3`), offset
`d = 2π`, canonical query longitude `−0.015` before and after (`j = −1`): the enlarged bounds of both boxes lie in `(−3π, 3π]` -/
example :
    (0 : ℚ) < c08Transc.pi ∧ (-c08Transc.pi < (-15 / 1000 : ℚ) ∧ (-15 / 1000 : ℚ) ≤ c08Transc.pi) ∧
    ((-15 / 1000 : ℚ) = -15 / 1000 + 6 + 2 * c08Transc.pi * ((-1 : ℤ) : ℚ)) ∧
    (-(3 * c08Transc.pi) < c08Box.loX c08Transc ∧ c08Box.hiX c08Transc ≤ 3 * c08Transc.pi) ∧
    (-(3 * c08Transc.pi) < c08Box.loX c08Transc + 6 ∧ c08Box.hiX c08Transc + 6 ≤ 3 * c08Transc.pi) := by
  have e : c08Transc.pi = 3 := rfl
  have hl : c08Box.loX c08Transc = -63 / 10 - 1 / 2 ^ 52 * (2 / 5) := by
    show (-63 / 10 : ℚ) - 1 / 2 ^ 52 * |(-59 / 10 : ℚ) - -63 / 10| = _
    norm_num [abs_of_pos]
  have hh : c08Box.hiX c08Transc = -59 / 10 + 1 / 2 ^ 52 * (2 / 5) := by
    show (-59 / 10 : ℚ) + 1 / 2 ^ 52 * |(-59 / 10 : ℚ) - -63 / 10| = _
    norm_num [abs_of_pos]
  rw [e, hl, hh]
  norm_num

/-- `C08_ridge_lon_offset`: `π := 3` with constant `sin`, `cos` satisfies the laws (so do the real functions: `c08Real_periodLaws`,
`c08Real_angleAddLaws`); the ridge `(1,0)–(2,0)`, query longitude `5/2`, offset `d = 2`, re-normalised longitude `−3/2` (`j = −1`):
every segment mid longitude is reached in both frames (no transform fault) -/
example :
    (0 : ℚ) < c08Flat.pi ∧ PeriodLaws c08Flat ∧ AngleAddLaws c08Flat ∧
    ((-3 / 2 : ℚ) = (⟨1, 5 / 2, 0⟩ : P3 ℚ).y + 2 + 2 * c08Flat.pi * ((-1 : ℤ) : ℚ)) ∧
    RidgeReach c08Flat ⟨5 / 2, 0⟩ ⟨-3 / 2, 0⟩ 2 [[⟨1, 0⟩, ⟨2, 0⟩]] := by
  refine ⟨?_, c08Flat_periodLaws, c08Flat_angleAddLaws, ?_, ridge_reach_example⟩
  · show (0 : ℚ) < 3; norm_num
  · show (-3 / 2 : ℚ) = 5 / 2 + 2 + 2 * 3 * ((-1 : ℤ) : ℚ); norm_num

/-- `C08_ridge_lon_offset_same_sign`: longitude `5/2` offset by `1/4` keeps the sign -/
example : ((5 / 2 : ℚ) + 1 / 4 < 0 ↔ (5 / 2 : ℚ) < 0) := by norm_num

/-- `C08_ridge_reach_of_range`: `π := 3`, query longitude `−1`, feature longitude `4 ∈ (−π, 2π]`; no description `−1 + 6k` is `3` away
from `4` -/
example : (-c08Transc.pi < (⟨-1, 0⟩ : P2 ℚ).x ∧ (⟨-1, 0⟩ : P2 ℚ).x ≤ c08Transc.pi) ∧
    ((⟨-1, 0⟩ : P2 ℚ).x < 0 ∧ -c08Transc.pi < (4 : ℚ) ∧ (4 : ℚ) ≤ 2 * c08Transc.pi) ∧
    (∀ k : ℤ, |(⟨-1, 0⟩ : P2 ℚ).x + 2 * c08Transc.pi * k - 4| ≠ c08Transc.pi) := by
  have e : c08Transc.pi = 3 := rfl
  rw [e]
  refine ⟨by norm_num, by norm_num, ?_⟩
  intro k h
  simp only at h
  rcases (abs_eq (by norm_num : (0 : ℚ) ≤ 3)).mp h with h | h
  · have : (6 * k : ℤ) = 8 := by
      have : (6 : ℚ) * k = 8 := by linarith
      exact_mod_cast this
    omega
  · have : (6 * k : ℤ) = 2 := by
      have : (6 : ℚ) * k = 2 := by linarith
      exact_mod_cast this
    omega

/-- a plume with one cross-section: centre `(1, 0)` at depth `100` -/
def c08Plume : PlumeFeature ℚ :=
  { (default : PlumeFeature ℚ) with coords := [⟨1, 0⟩], minDepth := 0, maxDepth := 200, depths := [100], semiMajor := [1], ecc := [0],
                                    rot := [0] }

/-- `C08_plume_covers_lon_offset`: `π := 3`, the plume `c08Plume`, offset `d = 4` (centre carried to longitude `5`, across the meridian
`π`), query longitude `1/2`, re-normalised `1/2 + 4 − 2π = −3/2`: depths ascending, centres within `[−2π, 2π]` in both frames, and no
description `1/2 + 6k` is `3` away from the centre longitude `1` -/
example (depth : ℚ) :
    (0 : ℚ) < c08Transc.pi ∧ (-c08Transc.pi < (1 / 2 : ℚ) ∧ (1 / 2 : ℚ) ≤ c08Transc.pi) ∧
    (-c08Transc.pi < (-3 / 2 : ℚ) ∧ (-3 / 2 : ℚ) ≤ c08Transc.pi) ∧
    ((-3 / 2 : ℚ) = 1 / 2 + 4 + 2 * c08Transc.pi * ((-1 : ℤ) : ℚ)) ∧
    Ascending c08Plume.depths ∧
    (∀ c ∈ c08Plume.coords, -(2 * c08Transc.pi) ≤ c.x ∧ c.x ≤ 2 * c08Transc.pi) ∧
    (∀ c ∈ c08Plume.coords, -(2 * c08Transc.pi) ≤ c.x + 4 ∧ c.x + 4 ≤ 2 * c08Transc.pi) ∧
    (∀ up d0 sel, @plumeSelect ℚ (fieldScalar c08Transc) c08Plume depth d0 up = .ok sel →
      ∀ k : ℤ, |(1 / 2 : ℚ) + 2 * c08Transc.pi * k - sel.1.x| ≠ c08Transc.pi) := by
  have e : c08Transc.pi = 3 := rfl
  rw [e]
  have hc : ∀ c ∈ c08Plume.coords, c = ⟨1, 0⟩ := by
    intro c hc
    simpa [c08Plume] using hc
  refine ⟨by norm_num, by norm_num, by norm_num, by norm_num, ?_, ?_, ?_, ?_⟩
  · intro i j a b hij ha hb
    have hj : j = 0 := by
      by_contra hne
      have : c08Plume.depths[j]? = none := by apply List.getElem?_eq_none; simp [c08Plume]; omega
      rw [this] at hb; cases hb
    subst hj
    have hi : i = 0 := by omega
    subst hi
    rw [ha] at hb; cases hb; exact le_rfl
  · intro c h; rw [hc c h]; norm_num
  · intro c h; rw [hc c h]; norm_num
  · intro up d0 sel hs k h
    have hS := (@plumeSelect_ok_iff ℚ (fieldScalar c08Transc) c08Plume depth d0 up sel).mp hs
    have hx : sel.1.x = 1 := by
      rcases hS with ⟨_, c, _, _, _, h0, _, _, _, rfl⟩ | ⟨_, _, c, _, _, _, h0, _, _, _, rfl⟩ |
        ⟨h0, _, _, _, _, ch, _, _, _, _, _, _, _, _, _, h1, _⟩
      · rw [hc c (List.mem_of_getElem? h0)]
      · rw [hc c (List.mem_of_getElem? h0)]
      · exfalso
        have : c08Plume.coords[up]? = none := by apply List.getElem?_eq_none; simp [c08Plume]; omega
        rw [this] at h1; cases h1
    rw [hx] at h
    rcases (abs_eq (by norm_num : (0 : ℚ) ≤ 3)).mp h with h | h
    · have : (12 * k : ℤ) = 7 := by
        have : (12 : ℚ) * k = 7 := by linarith
        exact_mod_cast this
      omega
    · have : (12 * k : ℤ) = -5 := by
        have : (12 : ℚ) * k = -5 := by linarith
        exact_mod_cast this
      omega

/-- `C08_surface_lookup_spec`, `C08_surface_lon_offset`, `C08_surface_lon_offset_of_reach`: the one-triangle surface `c08Surface`
(`(1,0),(1,1),(2,0)`, `π := 3`), query `(5/4, 1/4)`, offset `d = 7/2` (the triangle is carried to longitudes `[9/2, 11/2]`, across the
meridian `π`), re-normalised query longitude `5/4 + 7/2 − 2π = −5/4` (`j = −1`): all hypotheses hold -/
example :
    (0 : ℚ) < c08Transc.pi ∧ @Surface.PreOk ℚ (fieldScalar c08Transc) c08Surface ∧ c08Surface.NodesOk ∧
    c08Surface.constant = false ∧ 0 < c08Surface.nodes.size ∧
    (-c08Transc.pi < (5 / 4 : ℚ) ∧ (5 / 4 : ℚ) ≤ c08Transc.pi ∧ (5 / 4 : ℚ) ≠ 0) ∧
    (-c08Transc.pi < (-5 / 4 : ℚ) ∧ (-5 / 4 : ℚ) ≤ c08Transc.pi ∧ (-5 / 4 : ℚ) ≠ 0) ∧
    ((-5 / 4 : ℚ) = 5 / 4 + 7 / 2 + 2 * c08Transc.pi * ((-1 : ℤ) : ℚ)) ∧
    (∀ t, c08Surface.NodeTri t → ∀ q : P2 ℚ, @Tri.Accepts ℚ (fieldScalar c08Transc) t q →
      (-(2 * c08Transc.pi) ≤ q.x ∧ q.x ≤ 2 * c08Transc.pi) ∧
      (-(2 * c08Transc.pi) ≤ q.x + 7 / 2 ∧ q.x + 7 / 2 ≤ 2 * c08Transc.pi)) ∧
    Surface.SingleValuedAt c08Transc c08Surface ⟨5 / 4, 1 / 4⟩ ∧
    SurfaceReach c08Transc c08Surface ⟨5 / 4, 1 / 4⟩ ⟨-5 / 4, 1 / 4⟩ (7 / 2) := by
  have e : c08Transc.pi = 3 := rfl
  have hrel : (-5 / 4 : ℚ) = 5 / 4 + 7 / 2 + 2 * c08Transc.pi * ((-1 : ℤ) : ℚ) := by rw [e]; norm_num
  refine ⟨by rw [e]; norm_num, c08Surface_preOk, c08Surface_nodesOk, rfl, by simp [c08Surface], by rw [e]; norm_num,
    by rw [e]; norm_num, hrel, c08Surface_range_example, c08Surface_singleValued _, ?_⟩
  exact surfaceReach_of_range c08Transc (by rw [e]; norm_num) c08Surface (7 / 2) ⟨5 / 4, 1 / 4⟩ ⟨-5 / 4, 1 / 4⟩ (-1)
    (by rw [e]; norm_num) (by rw [e]; norm_num) (by norm_num) (by rw [e]; norm_num) (by rw [e]; norm_num) (by norm_num) hrel rfl
    c08Surface_range_example

/-- `C08_surface_accepts_lon_bounds`: the triangle `c08Tri` is clockwise (`c6 = 1`), `ε = 2⁻⁵² ≥ 0` -/
example : (0 : ℚ) ≤ c08Transc.eps ∧ 0 < @Tri.c6 ℚ (fieldScalar c08Transc) c08Tri := by
  constructor
  · show (0 : ℚ) ≤ 1 / 2 ^ 52
    norm_num
  · rw [Tri.c6_field]
    unfold crossP P3.xy c08Tri
    norm_num

/-- `C08_surface_lon_offset_same_sign`: longitude `5/4` offset by `1/2` keeps the sign -/
example : ((5 / 4 : ℚ) + 1 / 2 < 0 ↔ (5 / 4 : ℚ) < 0) := by norm_num

/-- `C08_dpfcp_alias_choice`: `π := 3`, query longitude `5/2`, trench longitude `1`, offset `d = 4` (trench carried to `5`, across the
meridian), re-normalised query longitude `5/2 + 4 − 2π = 1/2` (`j = −1`): both within `3π`, and no description `5/2 + 6k` is `3` away
from `1` -/
example :
    (0 : ℚ) < c08Transc.pi ∧ |(5 / 2 : ℚ) - 1| ≤ 3 * c08Transc.pi ∧ |(1 / 2 : ℚ) - (1 + 4)| ≤ 3 * c08Transc.pi ∧
    ((1 / 2 : ℚ) = 5 / 2 + 4 + 2 * c08Transc.pi * ((-1 : ℤ) : ℚ)) ∧
    (∀ k : ℤ, |(5 / 2 : ℚ) + 2 * c08Transc.pi * k - 1| ≠ c08Transc.pi) ∧
    |(5 / 2 : ℚ) + 2 * c08Transc.pi * ((0 : ℤ) : ℚ) - 1| < c08Transc.pi := by
  have e : c08Transc.pi = 3 := rfl
  rw [e]
  refine ⟨by norm_num, by norm_num [abs_of_pos], by norm_num [abs_of_neg], by norm_num, ?_, by norm_num [abs_of_pos]⟩
  intro k h
  rcases (abs_eq (by norm_num : (0 : ℚ) ≤ 3)).mp h with h | h
  · have : (4 * k : ℤ) = 1 := by
      have : (4 : ℚ) * k = 1 := by linarith
      exact_mod_cast this
    omega
  · have : (4 * k : ℤ) = -3 := by
      have : (4 : ℚ) * k = -3 := by linarith
      exact_mod_cast this
    omega

/-- `C08_dpfcp_on_trench_test_not_alias_invariant`: the real square root and `π` satisfy the hypotheses -/
example : c08Real.sqrt 0 = 0 ∧ (∀ x : ℝ, c08Real.sqrt (x * x) = |x|) ∧ 1 ≤ c08Real.pi :=
  ⟨Real.sqrt_zero, Real.sqrt_mul_self_eq_abs, by
    show (1 : ℝ) ≤ Real.pi
    linarith [Real.two_le_pi]⟩

/-- `C08_bezier_closest_lon_offset_partial`: the real `sin`, `cos`, `π` satisfy the half-turn laws -/
theorem c08Real_halfTurnLaws : HalfTurnLaws c08Real :=
  ⟨fun x => Real.sin_add_pi x, fun x => Real.cos_add_pi x⟩

/-- `C08_bezier_closest_lon_offset_partial`, `C08_bezier_est_reach_of_range`: over `ℝ` (only `2 ≤ π ≤ 4` is used), a curve point at
longitude `−1`, query longitude `1/2`, offset `d = 4` (point carried to `3`), re-normalised query longitude `1/2 + 4 − 2π` (`j = −1`):
canonical in both frames, the point within `[−2π, 2π]` in both frames, both query longitudes within `3π` of it.  (No description
`1/2 + 2πk` is exactly `π` away from `−1`: that would make `π` rational.) -/
example :
    (0 : ℝ) < c08Real.pi ∧ HalfTurnLaws c08Real ∧
    (-c08Real.pi < (1 / 2 : ℝ) ∧ (1 / 2 : ℝ) ≤ c08Real.pi) ∧
    (-c08Real.pi < (1 / 2 : ℝ) + 4 + 2 * c08Real.pi * ((-1 : ℤ) : ℝ) ∧ (1 / 2 : ℝ) + 4 + 2 * c08Real.pi * ((-1 : ℤ) : ℝ) ≤ c08Real.pi) ∧
    (-(2 * c08Real.pi) ≤ (-1 : ℝ) ∧ (-1 : ℝ) ≤ 2 * c08Real.pi) ∧ (-(2 * c08Real.pi) ≤ (-1 : ℝ) + 4 ∧ (-1 : ℝ) + 4 ≤ 2 * c08Real.pi) ∧
    |(1 / 2 : ℝ) - -1| ≤ 3 * c08Real.pi ∧ |(1 / 2 : ℝ) + 4 + 2 * c08Real.pi * ((-1 : ℤ) : ℝ) - (-1 + 4)| ≤ 3 * c08Real.pi := by
  have e : c08Real.pi = Real.pi := rfl
  have h2 : (2 : ℝ) ≤ Real.pi := Real.two_le_pi
  have h4 : Real.pi ≤ 4 := Real.pi_le_four
  rw [e]
  refine ⟨by linarith, c08Real_halfTurnLaws, ⟨by linarith, by linarith⟩, ⟨by push_cast; linarith, by push_cast; linarith⟩,
    ⟨by linarith, by linarith⟩, ⟨by linarith, by linarith⟩, ?_, ?_⟩
  · rw [abs_le]; constructor <;> linarith
  · rw [abs_le]; constructor <;> push_cast <;> linarith

/-- `C08_bezier_closest_lon_offset_partial` over `ℚ`: the toy bundle `c08Half` (`π := 3`, `sin := (−1)^⌊x/3⌋`, `cos := 0`) satisfies the
half-turn laws, and the curve `c08HLine 1` (longitudes `[1, 2]`) with the query longitude `3/2`, offset `d = 4`, re-normalised query
longitude `−1/2 = 3/2 + 4 − 2π` (`j = −1`) satisfies `EstReach` at every curve point -/
example :
    (0 : ℚ) < c08Half.pi ∧ HalfTurnLaws c08Half ∧ ((-1 / 2 : ℚ) = 3 / 2 + 4 + 2 * c08Half.pi * ((-1 : ℤ) : ℚ)) ∧
    (∀ (i : Nat) (p1 : P2 ℚ), (c08HLine 1).points[i]? = some p1 → EstReach c08Half 4 ⟨3 / 2, 2⟩ ⟨-1 / 2, 2⟩ p1) := by
  have e : c08Half.pi = 3 := rfl
  exact ⟨by rw [e]; norm_num, c08Half_halfTurnLaws, by rw [e]; norm_num, c08HLine_estReach⟩

/-- `C08_dpfcp_on_trench_lon_offset`: `π := 3`, query longitude `5/2`, foot longitude `1`, offset `d = 4`, re-normalised query longitude
`1/2` (`j = −1`): the numbers of the example for `C08_dpfcp_alias_choice`.  `C08_dpfcp_on_trench_alias_fires`: `sqrt := id` over `ℚ`,
`Real.sqrt` over `ℝ`. -/
example : (0 : ℚ) < c08Transc.pi ∧ c08Transc.sqrt 0 = 0 ∧ c08Real.sqrt 0 = 0 ∧ (0 : ℝ) < c08Real.pi :=
  ⟨by show (0 : ℚ) < 3; norm_num, rfl, Real.sqrt_zero, Real.pi_pos⟩

end examples

end Gwb
