/-
C15 — Seeded randomness is reproducible and random grains are valid.

Everything below is about the Lean model (`GwbVerif/Model/Models/Area.lean`: `arvoMatrix`, `drawMatrices`, `drawSizes`,
`GrainsModel.get`, `CompModel.get`; `Model/Geometry/Ridge.lean`: `eulerToMatrix`; `Model/Rng.lean`: `Mt19937`, `canonicalMt`),
read over an arbitrary ordered field `F` through `fieldScalar T`.  The libm facts used are explicit hypotheses:
`hsc : sin² x + cos² x = 1` and `hsqrt : 0 ≤ x → sqrt x · sqrt x = x`; the generator fact used is
`CanonicalInUnit G` ("every canonical draw lies in `[0,1)`"), which `C15_mt_canonical_unit` proves for the model of
`std::generate_canonical<double,53>(std::mt19937)`.

"Proper rotation" is `M3.IsRotation m` := `M3.mul m mᵀ = 1 ∧ det m = 1` (all nine entries, the model's own product);
`C15_rotation_spelled_out` rewrites it as seven plain field equations (`M3.Rot`).

* `C15_arvo_orthonormal`, `C15_arvo_deflected_orthonormal` — the Arvo matrix built from three draws (`0 ≤ three ≤ 1`; deflected:
  additionally `0 ≤ d ≤ 1`) is a proper rotation.  Proof: it is `(V Vᵀ − I)·R_z(θ)` with `|V|² = 2`.
* `C15_euler_rotation` — `eulerToMatrix φ₁ θ φ₂` is a proper rotation.
* `C15_product_rotation` — `M3.mul A B` of proper rotations is a proper rotation.
* `C15_drawn_matrices_rotations`, `C15_drawn_matrices_deflected_rotations` — every matrix produced by `drawMatrices none none n`,
  resp. `drawMatrices (some d) (some basis) n` with `0 ≤ d ≤ 1` and `basis` a proper rotation, is a proper rotation.
* `C15_random_grains_rotations`, `C15_random_grains_deflected_rotations` — the same for the grains returned by `GrainsModel.get`.
  NOTE the deflected statement is conditional: the code neither checks that a user-supplied "basis rotation matrices" entry is a
  rotation nor that a deflection lies in `[0,1]` (the documentation says "between 0 and 1"); for `d > 1` the quantity
  `2 − z = 2 − 2·three·d` can be negative and its square root is NaN in the C++.
* `C15_normalised_sum_one` — `(ss.map (· * (1/t))).sum = 1` for `t = ss.sum ≠ 0`;
  `C15_normalised_sizes_sum_one` — `GrainsModel.get` for `random uniform distribution` with `normalize[i] = true`: the returned sizes
  are `ss.map (· * (1/ss.sum))` for the list `ss` of drawn/fixed sizes, and sum to one when `ss.sum ≠ 0`;
  `C15_normalised_fixed_sizes_sum_one` — with a fixed size `> 0` and at least one grain the total is non-zero, so the sum is one;
  `C15_fixed_sizes_as_given` — `grain sizes[i] ≥ 0`, `normalize[i] = false`: every returned size equals `grain sizes[i]`.
  (`…_deflected` variants: same statements for `random uniform distribution deflected`.)
  These are exact-arithmetic statements; in doubles the sum is one up to rounding.
* `C15_uniform_in_bounds` — `a ≤ (b−a)·u + a ≤ b` for `u ∈ [0,1)`, `a ≤ b` (`< b` when `a < b`);
  `C15_random_composition_bounds` — inside its depth range the random composition model gives the `i`-th listed composition
  `applyOp op old v` with the drawn value `v ∈ [min value[i], max value[i]]` (`v < max value[i]` when the bounds differ): every
  composition is drawn from its OWN bounds.  (Before the upstream commit 'fix: random composition model drew every listed
  composition from the bounds of the first one' composition/random.cc indexed the bounds with `0` for every listed composition;
  an earlier version of this file proved that behaviour and refuted the per-composition statement with a two-composition world.
  The defect was fixed upstream, the model follows, and the statement is now a theorem.)
* `C15_deterministic`, `C15_deterministic_history`, `C15_seed_deterministic` — a query is a function
  `G → Except Err (answer × G)`: equal engine states give equal answers and equal new states; a whole query history from equal
  states gives equal answer lists; the engine state after seeding depends on the seed modulo 2³² only.  These are
  `rfl`-level facts about the model.

NOT proved here: that the C++ agrees with this model bit for bit (`std::mt19937` output, `generate_canonical`, the order in
which draws are consumed, floating-point rounding) — that is established by the correspondence check (driver vs library on
seeded worlds), not by a theorem.  Nor is `Mᵀ·M = 1` stated separately (it follows from `M·Mᵀ = 1` for square matrices).
-/
import GwbVerif.Proofs.RandomDraws
import Mathlib.Algebra.Order.Field.Rat
import Mathlib.Analysis.SpecialFunctions.Trigonometric.Basic
namespace Gwb
open Scalar
set_option linter.unusedSectionVars false

section
variable {F : Type} [Field F] [LinearOrder F] [IsStrictOrderedRing F]

/-! ### 1. the Arvo matrix -/

/-- **C15** `IsRotation` (`M3.mul m mᵀ = 1 ∧ det m = 1` with the model's operations) written as seven field equations -/
theorem C15_rotation_spelled_out (T : Transc F) (m : M3 F) :
    @M3.IsRotation F (fieldScalar T) m ↔
      (m.a00 * m.a00 + m.a01 * m.a01 + m.a02 * m.a02 = 1 ∧ m.a00 * m.a10 + m.a01 * m.a11 + m.a02 * m.a12 = 0 ∧
       m.a00 * m.a20 + m.a01 * m.a21 + m.a02 * m.a22 = 0 ∧ m.a10 * m.a10 + m.a11 * m.a11 + m.a12 * m.a12 = 1 ∧
       m.a10 * m.a20 + m.a11 * m.a21 + m.a12 * m.a22 = 0 ∧ m.a20 * m.a20 + m.a21 * m.a21 + m.a22 * m.a22 = 1 ∧
       m.a00 * (m.a11 * m.a22 - m.a12 * m.a21) - m.a01 * (m.a10 * m.a22 - m.a12 * m.a20)
          + m.a02 * (m.a10 * m.a21 - m.a11 * m.a20) = 1) := by
  rw [M3.isRotation_iff]
  exact ⟨fun h => ⟨h.r00, h.r01, h.r02, h.r11, h.r12, h.r22, h.det⟩,
         fun ⟨h1, h2, h3, h4, h5, h6, h7⟩ => ⟨h1, h2, h3, h4, h5, h6, h7⟩⟩

/-- **C15** the plain Arvo matrix (`random uniform distribution`) is orthonormal with determinant `+1` -/
theorem C15_arvo_orthonormal (T : Transc F)
    (hsc : ∀ x, T.sin x * T.sin x + T.cos x * T.cos x = 1) (hsqrt : ∀ x, 0 ≤ x → T.sqrt x * T.sqrt x = x)
    (one two three : F) (h0 : 0 ≤ three) (h1 : three ≤ 1) :
    @M3.IsRotation F (fieldScalar T) (@arvoMatrix F (fieldScalar T) one two three none) :=
  (M3.isRotation_iff T _).mpr (arvoMatrix_rot T hsc hsqrt one two three h0 h1 none (by simp))

/-- **C15** the deflected Arvo matrix (`random uniform distribution deflected`, deflection `0 ≤ d ≤ 1`) likewise -/
theorem C15_arvo_deflected_orthonormal (T : Transc F)
    (hsc : ∀ x, T.sin x * T.sin x + T.cos x * T.cos x = 1) (hsqrt : ∀ x, 0 ≤ x → T.sqrt x * T.sqrt x = x)
    (one two three d : F) (h0 : 0 ≤ three) (h1 : three ≤ 1) (hd0 : 0 ≤ d) (hd1 : d ≤ 1) :
    @M3.IsRotation F (fieldScalar T) (@arvoMatrix F (fieldScalar T) one two three (some d)) :=
  (M3.isRotation_iff T _).mpr
    (arvoMatrix_rot T hsc hsqrt one two three h0 h1 (some d) (fun d' h => by cases h; exact ⟨hd0, hd1⟩))

/-! ### 2. Euler angles -/

/-- **C15** `euler_angles_to_rotation_matrix` returns a proper rotation -/
theorem C15_euler_rotation (T : Transc F) (hsc : ∀ x, T.sin x * T.sin x + T.cos x * T.cos x = 1) (phi1 theta phi2 : F) :
    @M3.IsRotation F (fieldScalar T) (@eulerToMatrix F (fieldScalar T) phi1 theta phi2) :=
  (M3.isRotation_iff T _).mpr (eulerToMatrix_rot T hsc phi1 theta phi2)

/-! ### 3. products, and the matrices the models draw -/

/-- **C15** `multiply_3x3_matrices` of two proper rotations is a proper rotation -/
theorem C15_product_rotation (T : Transc F) (A B : M3 F)
    (hA : @M3.IsRotation F (fieldScalar T) A) (hB : @M3.IsRotation F (fieldScalar T) B) :
    @M3.IsRotation F (fieldScalar T) (@M3.mul F (fieldScalar T) A B) :=
  (M3.isRotation_iff T _).mpr (M3.Rot.mul T ((M3.isRotation_iff T _).mp hA) ((M3.isRotation_iff T _).mp hB))

variable {G : Type} [RandGen G F]

/-- **C15** every matrix drawn for `random uniform distribution` is a proper rotation -/
theorem C15_drawn_matrices_rotations (T : Transc F)
    (hsc : ∀ x, T.sin x * T.sin x + T.cos x * T.cos x = 1) (hsqrt : ∀ x, 0 ≤ x → T.sqrt x * T.sqrt x = x)
    (hcan : ∀ g : G, 0 ≤ (RandGen.canonical (R := F) g).1 ∧ (RandGen.canonical (R := F) g).1 < 1) (n : Nat) :
    Post (G := G) (@drawMatrices F (fieldScalar T) G _ none none n) (fun ms => ∀ m ∈ ms, @M3.IsRotation F (fieldScalar T) m) :=
  Post.mono (drawMatrices_rot T hsc hsqrt hcan none none (by simp) (by simp) n)
    fun _ h m hm => (M3.isRotation_iff T m).mpr (h m hm)

/-- **C15** every matrix drawn for `random uniform distribution deflected` is a proper rotation when the basis is one and `0 ≤ d ≤ 1` -/
theorem C15_drawn_matrices_deflected_rotations (T : Transc F)
    (hsc : ∀ x, T.sin x * T.sin x + T.cos x * T.cos x = 1) (hsqrt : ∀ x, 0 ≤ x → T.sqrt x * T.sqrt x = x)
    (hcan : ∀ g : G, 0 ≤ (RandGen.canonical (R := F) g).1 ∧ (RandGen.canonical (R := F) g).1 < 1)
    (d : F) (hd0 : 0 ≤ d) (hd1 : d ≤ 1) (basis : M3 F) (hb : @M3.IsRotation F (fieldScalar T) basis) (n : Nat) :
    Post (G := G) (@drawMatrices F (fieldScalar T) G _ (some d) (some basis) n)
      (fun ms => ∀ m ∈ ms, @M3.IsRotation F (fieldScalar T) m) :=
  Post.mono (drawMatrices_rot T hsc hsqrt hcan (some d) (some basis) (fun d' h => by cases h; exact ⟨hd0, hd1⟩)
      (fun b' h => by cases h; exact (M3.isRotation_iff T _).mp hb) n)
    fun _ h m hm => (M3.isRotation_iff T m).mpr (h m hm)

/-- **C15** the model of `generate_canonical<double,53>(mt19937)` draws in `[0,1)` (given `0 ≤ oneBelow < 1` for the clamp value):
the hypothesis `hcan` of the theorems here holds for the generator the driver uses -/
theorem C15_mt_canonical_unit (T : Transc F) (oneBelow : F) (h0 : 0 ≤ oneBelow) (h1 : oneBelow < 1) (g : Mt19937) :
    0 ≤ (@RandGen.canonical Mt19937 F ⟨@canonicalMt F (fieldScalar T) oneBelow⟩ g).1 ∧
    (@RandGen.canonical Mt19937 F ⟨@canonicalMt F (fieldScalar T) oneBelow⟩ g).1 < 1 :=
  canonicalMt_unit T oneBelow h0 h1 g

/-- **C15** `random uniform distribution`, query inside the depth range, listed composition: every returned matrix is a proper rotation -/
theorem C15_random_grains_rotations (T : Transc F)
    (hsc : ∀ x, T.sin x * T.sin x + T.cos x * T.cos x = 1) (hsqrt : ∀ x, 0 ≤ x → T.sqrt x * T.sqrt x = x)
    (hcan : ∀ g : G, 0 ≤ (RandGen.canonical (R := F) g).1 ∧ (RandGen.canonical (R := F) g).1 < 1)
    (rng : DepthRange F) (comps : List Nat) (sizes : List F) (normalize : List Bool) (ctx : Ctx F) (q : Query F)
    (n : Nat) (old : Grains F) (lm : F × F) (i : Nat) (gs : F) (nrm : Bool)
    (hin : @DepthRange.locals F (fieldScalar T) rng ctx q false = .ok (some lm))
    (hi : findComposition comps n = some i) (hgs : sizes[i]? = some gs) (hn : normalize[i]? = some nrm) :
    Post (G := G) (@GrainsModel.get F (fieldScalar T) G _ (.randomUniform rng comps sizes normalize) ctx q n old)
      (fun new => new.mats.length = old.mats.length ∧ ∀ m ∈ new.mats, @M3.IsRotation F (fieldScalar T) m) :=
  Post.mono (randomUniform_post T hcan rng comps sizes normalize ctx q n old lm i gs nrm hin hi hgs hn _
      (drawMatrices_len_rot T hsc hsqrt hcan none none (by simp) (by simp) _))
    fun _ h => ⟨h.2.1, fun m hm => (M3.isRotation_iff T m).mpr (h.2.2 m hm)⟩

/-- **C15** `random uniform distribution deflected`, likewise, when the slot's basis is a proper rotation and its deflection lies in `[0,1]` -/
theorem C15_random_grains_deflected_rotations (T : Transc F)
    (hsc : ∀ x, T.sin x * T.sin x + T.cos x * T.cos x = 1) (hsqrt : ∀ x, 0 ≤ x → T.sqrt x * T.sqrt x = x)
    (hcan : ∀ g : G, 0 ≤ (RandGen.canonical (R := F) g).1 ∧ (RandGen.canonical (R := F) g).1 < 1)
    (rng : DepthRange F) (comps : List Nat) (basis : List (M3 F)) (sizes : List F) (normalize : List Bool)
    (deflections : List F) (ctx : Ctx F) (q : Query F)
    (n : Nat) (old : Grains F) (lm : F × F) (i : Nat) (gs : F) (nrm : Bool) (d : F) (b : M3 F)
    (hin : @DepthRange.locals F (fieldScalar T) rng ctx q false = .ok (some lm))
    (hi : findComposition comps n = some i) (hgs : sizes[i]? = some gs) (hn : normalize[i]? = some nrm)
    (hd : deflections[i]? = some d) (hd0 : 0 ≤ d) (hd1 : d ≤ 1)
    (hb : basis[i]? = some b) (hbr : @M3.IsRotation F (fieldScalar T) b) :
    Post (G := G) (@GrainsModel.get F (fieldScalar T) G _
        (.randomUniformDeflected rng comps basis sizes normalize deflections) ctx q n old)
      (fun new => new.mats.length = old.mats.length ∧ ∀ m ∈ new.mats, @M3.IsRotation F (fieldScalar T) m) :=
  Post.mono (randomUniformDeflected_post T hcan rng comps basis sizes normalize deflections ctx q n old lm i gs nrm hin hi hgs hn
      (fun d b ms => ms.length = old.mats.length ∧ (0 ≤ d → d ≤ 1 → b.Rot → ∀ m ∈ ms, m.Rot))
      (fun d' b' => by
        by_cases hgood : 0 ≤ d' ∧ d' ≤ 1 ∧ b'.Rot
        · exact Post.mono (drawMatrices_len_rot T hsc hsqrt hcan (some d') (some b')
            (fun _ h => by cases h; exact ⟨hgood.1, hgood.2.1⟩) (fun _ h => by cases h; exact hgood.2.2) _)
            fun _ h => ⟨h.1, fun _ _ _ => h.2⟩
        · exact Post.mono (@drawMatrices_length F G (fieldScalar T) _ _ _ _)
            fun _ h => ⟨h, fun h0 h1 hr => absurd ⟨h0, h1, hr⟩ hgood⟩))
    fun _ h => by
      obtain ⟨_, d', b', hd', hb', hlen, hrot⟩ := h
      rw [hd] at hd'; rw [hb] at hb'
      cases hd'; cases hb'
      exact ⟨hlen, fun m hm => (M3.isRotation_iff T m).mpr (hrot hd0 hd1 ((M3.isRotation_iff T b).mp hbr) m hm)⟩

/-! ### 4. grain sizes -/

/-- **C15** multiplying every entry by the reciprocal of the (non-zero) total makes the entries sum to one -/
theorem C15_normalised_sum_one (ss : List F) (t : F) (ht : ss.sum = t) (hne : t ≠ 0) : (ss.map (· * (1 / t))).sum = 1 := by
  rw [sum_map_mul_const, ht]; field_simp

/-- **C15** `random uniform distribution` with `normalize grain sizes[i] = true`: the sizes returned are the drawn (or fixed) sizes
`ss`, one per grain, each times `1/ss.sum`; they sum to one whenever the total `ss.sum` is non-zero -/
theorem C15_normalised_sizes_sum_one (T : Transc F)
    (hcan : ∀ g : G, 0 ≤ (RandGen.canonical (R := F) g).1 ∧ (RandGen.canonical (R := F) g).1 < 1)
    (rng : DepthRange F) (comps : List Nat) (sizes : List F) (normalize : List Bool) (ctx : Ctx F) (q : Query F)
    (n : Nat) (old : Grains F) (lm : F × F) (i : Nat) (gs : F)
    (hin : @DepthRange.locals F (fieldScalar T) rng ctx q false = .ok (some lm))
    (hi : findComposition comps n = some i) (hgs : sizes[i]? = some gs) (hn : normalize[i]? = some true) :
    Post (G := G) (@GrainsModel.get F (fieldScalar T) G _ (.randomUniform rng comps sizes normalize) ctx q n old)
      (fun new => ∃ ss : List F, ss.length = old.sizes.length ∧ (0 ≤ gs → ∀ s ∈ ss, s = gs) ∧ (gs < 0 → ∀ s ∈ ss, 0 ≤ s ∧ s < 1) ∧
        new.sizes = ss.map (· * (1 / ss.sum)) ∧ (ss.sum ≠ 0 → new.sizes.sum = 1)) :=
  Post.mono (randomUniform_post T hcan rng comps sizes normalize ctx q n old lm i gs true hin hi hgs hn _ (Post.triv _))
    fun new h => by
      obtain ⟨⟨ss, h1, h2, h3, h4⟩, _⟩ := h
      simp only [if_true] at h4
      exact ⟨ss, h1, h2, h3, h4, fun hne => h4 ▸ C15_normalised_sum_one ss _ rfl hne⟩

/-- **C15** … in particular with a fixed positive grain size and at least one grain the returned sizes sum to one -/
theorem C15_normalised_fixed_sizes_sum_one (T : Transc F)
    (hcan : ∀ g : G, 0 ≤ (RandGen.canonical (R := F) g).1 ∧ (RandGen.canonical (R := F) g).1 < 1)
    (rng : DepthRange F) (comps : List Nat) (sizes : List F) (normalize : List Bool) (ctx : Ctx F) (q : Query F)
    (n : Nat) (old : Grains F) (lm : F × F) (i : Nat) (gs : F)
    (hin : @DepthRange.locals F (fieldScalar T) rng ctx q false = .ok (some lm))
    (hi : findComposition comps n = some i) (hgs : sizes[i]? = some gs) (hn : normalize[i]? = some true)
    (hpos : 0 < gs) (hk : old.sizes ≠ []) :
    Post (G := G) (@GrainsModel.get F (fieldScalar T) G _ (.randomUniform rng comps sizes normalize) ctx q n old)
      (fun new => new.sizes.sum = 1) :=
  Post.mono (C15_normalised_sizes_sum_one T hcan rng comps sizes normalize ctx q n old lm i gs hin hi hgs hn)
    fun new h => by
      obtain ⟨ss, hlen, hfix, _, _, hsum⟩ := h
      apply hsum
      have hss : ss ≠ [] := fun h0 => hk (List.length_eq_zero_iff.mp (by rw [← hlen, h0]; rfl))
      exact ne_of_gt (sum_pos_of_all_eq ss gs hpos (hfix (le_of_lt hpos)) hss)

/-- **C15** `random uniform distribution` with `grain sizes[i] ≥ 0` and `normalize grain sizes[i] = false`: one size per grain, each
equal to `grain sizes[i]` — fixed sizes are returned as given -/
theorem C15_fixed_sizes_as_given (T : Transc F)
    (hcan : ∀ g : G, 0 ≤ (RandGen.canonical (R := F) g).1 ∧ (RandGen.canonical (R := F) g).1 < 1)
    (rng : DepthRange F) (comps : List Nat) (sizes : List F) (normalize : List Bool) (ctx : Ctx F) (q : Query F)
    (n : Nat) (old : Grains F) (lm : F × F) (i : Nat) (gs : F)
    (hin : @DepthRange.locals F (fieldScalar T) rng ctx q false = .ok (some lm))
    (hi : findComposition comps n = some i) (hgs : sizes[i]? = some gs) (hn : normalize[i]? = some false) (hpos : 0 ≤ gs) :
    Post (G := G) (@GrainsModel.get F (fieldScalar T) G _ (.randomUniform rng comps sizes normalize) ctx q n old)
      (fun new => new.sizes.length = old.sizes.length ∧ ∀ s ∈ new.sizes, s = gs) :=
  Post.mono (randomUniform_post T hcan rng comps sizes normalize ctx q n old lm i gs false hin hi hgs hn _ (Post.triv _))
    fun new h => by
      obtain ⟨⟨ss, h1, h2, _, h4⟩, _⟩ := h
      simp only [Bool.false_eq_true, if_false] at h4
      rw [h4]; exact ⟨h1, h2 hpos⟩

/-- **C15** the same two statements for `random uniform distribution deflected` -/
theorem C15_normalised_sizes_sum_one_deflected (T : Transc F)
    (hcan : ∀ g : G, 0 ≤ (RandGen.canonical (R := F) g).1 ∧ (RandGen.canonical (R := F) g).1 < 1)
    (rng : DepthRange F) (comps : List Nat) (basis : List (M3 F)) (sizes : List F) (normalize : List Bool)
    (deflections : List F) (ctx : Ctx F) (q : Query F) (n : Nat) (old : Grains F) (lm : F × F) (i : Nat) (gs : F)
    (hin : @DepthRange.locals F (fieldScalar T) rng ctx q false = .ok (some lm))
    (hi : findComposition comps n = some i) (hgs : sizes[i]? = some gs) (hn : normalize[i]? = some true) :
    Post (G := G) (@GrainsModel.get F (fieldScalar T) G _
        (.randomUniformDeflected rng comps basis sizes normalize deflections) ctx q n old)
      (fun new => ∃ ss : List F, ss.length = old.sizes.length ∧ (0 ≤ gs → ∀ s ∈ ss, s = gs) ∧ (gs < 0 → ∀ s ∈ ss, 0 ≤ s ∧ s < 1) ∧
        new.sizes = ss.map (· * (1 / ss.sum)) ∧ (ss.sum ≠ 0 → new.sizes.sum = 1)) :=
  Post.mono (randomUniformDeflected_post T hcan rng comps basis sizes normalize deflections ctx q n old lm i gs true hin hi hgs hn
      (fun _ _ _ => True) (fun _ _ => Post.triv _))
    fun new h => by
      obtain ⟨⟨ss, h1, h2, h3, h4⟩, _⟩ := h
      simp only [if_true] at h4
      exact ⟨ss, h1, h2, h3, h4, fun hne => h4 ▸ C15_normalised_sum_one ss _ rfl hne⟩

theorem C15_fixed_sizes_as_given_deflected (T : Transc F)
    (hcan : ∀ g : G, 0 ≤ (RandGen.canonical (R := F) g).1 ∧ (RandGen.canonical (R := F) g).1 < 1)
    (rng : DepthRange F) (comps : List Nat) (basis : List (M3 F)) (sizes : List F) (normalize : List Bool)
    (deflections : List F) (ctx : Ctx F) (q : Query F) (n : Nat) (old : Grains F) (lm : F × F) (i : Nat) (gs : F)
    (hin : @DepthRange.locals F (fieldScalar T) rng ctx q false = .ok (some lm))
    (hi : findComposition comps n = some i) (hgs : sizes[i]? = some gs) (hn : normalize[i]? = some false) (hpos : 0 ≤ gs) :
    Post (G := G) (@GrainsModel.get F (fieldScalar T) G _
        (.randomUniformDeflected rng comps basis sizes normalize deflections) ctx q n old)
      (fun new => new.sizes.length = old.sizes.length ∧ ∀ s ∈ new.sizes, s = gs) :=
  Post.mono (randomUniformDeflected_post T hcan rng comps basis sizes normalize deflections ctx q n old lm i gs false hin hi hgs hn
      (fun _ _ _ => True) (fun _ _ => Post.triv _))
    fun new h => by
      obtain ⟨⟨ss, h1, h2, _, h4⟩, _⟩ := h
      simp only [Bool.false_eq_true, if_false] at h4
      rw [h4]; exact ⟨h1, h2 hpos⟩

/-! ### 5. random compositions -/

/-- **C15** `uniform_real_distribution(a,b)` as libstdc++ computes it stays in `[a,b]` (in `[a,b)` when `a < b`) -/
theorem C15_uniform_in_bounds (a b u : F) (hab : a ≤ b) (hu0 : 0 ≤ u) (hu1 : u < 1) :
    a ≤ (b - a) * u + a ∧ (b - a) * u + a ≤ b ∧ (a < b → (b - a) * u + a < b) := by
  have hba : 0 ≤ b - a := sub_nonneg.mpr hab
  refine ⟨by nlinarith [mul_nonneg hba hu0], by nlinarith [mul_nonneg hba (sub_nonneg.mpr (le_of_lt hu1))], fun h => ?_⟩
  have : 0 < (b - a) * (1 - u) := mul_pos (sub_pos.mpr h) (sub_pos.mpr hu1)
  nlinarith

/-- **C15** the random composition model, inside its depth range, for the composition `n` listed at position `i`: the value drawn
(before the operation is applied) lies in `[min value[i], max value[i]]` — the composition's own bounds — and the result is
`applyOp op old v` -/
theorem C15_random_composition_bounds (T : Transc F)
    (hcan : ∀ g : G, 0 ≤ (RandGen.canonical (R := F) g).1 ∧ (RandGen.canonical (R := F) g).1 < 1)
    (rng : DepthRange F) (op : Op) (comps : List Nat) (minValue maxValue : List F) (ctx : Ctx F) (q : Query F)
    (n : Nat) (old : F) (lm : F × F) (i : Nat) (a b : F)
    (hin : @DepthRange.locals F (fieldScalar T) rng ctx q false = .ok (some lm))
    (hi : findComposition comps n = some i) (ha : minValue[i]? = some a) (hb : maxValue[i]? = some b) (hab : a ≤ b) :
    Post (G := G) (@CompModel.get F (fieldScalar T) G _ (.random rng op comps minValue maxValue) ctx q n old)
      (fun r => ∃ v, a ≤ v ∧ v ≤ b ∧ (a < b → v < b) ∧ r = @applyOp F (fieldScalar T) op old v) := by
  unfold CompModel.get
  have hia : idx minValue i = .ok a := by simp [idx, ha]
  have hib : idx maxValue i = .ok b := by simp [idx, hb]
  simp only [hin, hi, hia, hib]
  refine Post.bind (P := fun r => r = some lm) (Post.liftE fun a h => (Except.ok.inj h).symm) fun r hr => ?_
  subst hr
  simp only
  refine Post.bind (Post.liftE fun a h => Except.ok.inj h) fun a' ha' => ?_
  subst ha'
  refine Post.bind (Post.liftE fun a h => Except.ok.inj h) fun b' hb' => ?_
  subst hb'
  refine Post.bind (drawUniform_post T hcan _ _) fun c hc => Post.pure ?_
  obtain ⟨u, hu0, hu1, rfl⟩ := hc
  obtain ⟨h1, h2, h3⟩ := C15_uniform_in_bounds a b u hab hu0 hu1
  exact ⟨_, h1, h2, h3, rfl⟩

end

/-! a small concrete world over `ℚ` used by the examples below -/
namespace C15ex
/-- a generator whose every draw is `1/2` -/
@[reducible] def halfGen : RandGen Unit ℚ := ⟨fun _ => (1 / 2, ())⟩
/-- libm members are irrelevant here -/
def T0 : Transc ℚ :=
  ⟨id, id, id, id, id, id, id, id, id, id, id, id, id, id, fun a _ => a, fun a _ => a, fun a _ => a, 0, 0, 0, 0, 0⟩
def ctx0 : Ctx ℚ := ⟨⟨false, default, 0⟩, 0, 0, false, 0, 0, 0, 0⟩
/-- a query at depth 5 -/
def q0 : Query ℚ := { pt := ⟨0, 0, 0⟩, nat := ⟨0, 0, 0⟩, depth := 5, gravityNorm := 0 }
/-- depth range 0 … 10 (constant surfaces) -/
def rng0 : DepthRange ℚ := ⟨Surface.constantOf 0, Surface.constantOf 10⟩

theorem locals0 : @DepthRange.locals ℚ (fieldScalar T0) rng0 ctx0 q0 false = .ok (some (0, 10)) := by
  have h1 : @LE.le ℚ (fieldScalar T0).toLE 5 10 := by show (5 : ℚ) ≤ 10; norm_num
  have h2 : @LE.le ℚ (fieldScalar T0).toLE 0 5 := by show (0 : ℚ) ≤ 5; norm_num
  simp [DepthRange.locals, rng0, q0, DepthRange.minDepth, DepthRange.maxDepth, Surface.constantOf, Surface.localOr,
    h1, h2, bind, Except.bind, pure, Except.pure]

theorem halfGen_unit (g : Unit) :
    0 ≤ (@RandGen.canonical Unit ℚ halfGen g).1 ∧ (@RandGen.canonical Unit ℚ halfGen g).1 < 1 := by
  show (0 : ℚ) ≤ 1 / 2 ∧ (1 / 2 : ℚ) < 1; norm_num
end C15ex

/-- the hypotheses of `C15_random_composition_bounds` are satisfiable: compositions `[0, 1]` with bounds `[0, 0.1]` and `[0.5, 1]`;
composition 1 (position 1) is drawn from `[0.5, 1]` — the world that exhibited the former index-0 defect -/
example : Post (G := Unit) (@CompModel.get ℚ (fieldScalar C15ex.T0) Unit C15ex.halfGen
      (.random C15ex.rng0 .replace [0, 1] [0, 1 / 2] [1 / 10, 1]) C15ex.ctx0 C15ex.q0 1 0)
    (fun r => ∃ v : ℚ, 1 / 2 ≤ v ∧ v ≤ 1 ∧ ((1 / 2 : ℚ) < 1 → v < 1) ∧ r = @applyOp ℚ (fieldScalar C15ex.T0) .replace 0 v) :=
  @C15_random_composition_bounds ℚ _ _ _ Unit C15ex.halfGen C15ex.T0 C15ex.halfGen_unit C15ex.rng0 .replace [0, 1] [0, 1 / 2] [1 / 10, 1]
    C15ex.ctx0 C15ex.q0 1 0 (0, 10) 1 (1 / 2) 1
    C15ex.locals0 (by decide) rfl rfl (by norm_num)

/-! ### 6. determinism -/

section
variable {R G : Type} [Scalar R] [RandGen G R]

/-- **C15** a query is a function of the world, the arguments and the engine state: equal states give equal answers and equal new states -/
theorem C15_deterministic (w : World R) (pt : P3 R) (depth : R) (ps : List Req) (g₁ g₂ : G) (h : g₁ = g₂) :
    w.props3 pt depth ps g₁ = w.props3 pt depth ps g₂ := by rw [h]

/-- the answers to a sequence of queries, threading the engine through them -/
def World.history (w : World R) (qs : List (P3 R × R × List Req)) : QM G (List (List R)) :=
  qs.mapM (fun q => w.props3 q.1 q.2.1 q.2.2)

/-- **C15** the answers are a function of the world (file), the initial engine state (seed) and the query history -/
theorem C15_deterministic_history (w : World R) (qs : List (P3 R × R × List Req)) (g₁ g₂ : G) (h : g₁ = g₂) :
    w.history qs g₁ = w.history qs g₂ := by rw [h]

/-- **C15** the engine state after seeding is a function of the seed modulo 2³² (`mt19937::seed(value)` reduces its argument) -/
theorem C15_seed_deterministic (s₁ s₂ : Nat) (h : s₁ % 4294967296 = s₂ % 4294967296) : Mt19937.seed s₁ = Mt19937.seed s₂ :=
  Mt19937.seed_mod s₁ s₂ h

end

/-! ### the hypotheses are satisfiable -/

/-- over `ℝ` with the real `sin`, `cos`, `sqrt` both libm hypotheses hold -/
noncomputable def realTranscC15 : Transc ℝ :=
  ⟨Real.sqrt, Real.exp, id, Real.sin, Real.cos, Real.tan, id, id, id, id, id, id, id, id,
   fun y _ => y, fun x _ => x, fun x _ => x, Real.pi, 0, 0, 0, 0⟩

example : (∀ x, realTranscC15.sin x * realTranscC15.sin x + realTranscC15.cos x * realTranscC15.cos x = 1) ∧
    (∀ x, 0 ≤ x → realTranscC15.sqrt x * realTranscC15.sqrt x = x) :=
  ⟨fun x => by show Real.sin x * Real.sin x + Real.cos x * Real.cos x = 1; nlinarith [Real.sin_sq_add_cos_sq x],
   fun x hx => Real.mul_self_sqrt hx⟩

/-- a concrete Arvo matrix over `ℝ` (draws 0.3, 0.6, 0.9) is a proper rotation -/
example : @M3.IsRotation ℝ (fieldScalar realTranscC15) (@arvoMatrix ℝ (fieldScalar realTranscC15) 0.3 0.6 0.9 none) :=
  C15_arvo_orthonormal realTranscC15
    (fun x => by show Real.sin x * Real.sin x + Real.cos x * Real.cos x = 1; nlinarith [Real.sin_sq_add_cos_sq x])
    (fun x hx => Real.mul_self_sqrt hx) _ _ _ (by norm_num) (by norm_num)

/-- the hypotheses of the size theorems hold in the example world (fixed size ¼, no normalisation) -/
example : Post (G := Unit) (@GrainsModel.get ℚ (fieldScalar C15ex.T0) Unit C15ex.halfGen
      (.randomUniform C15ex.rng0 [0] [1 / 4] [false]) C15ex.ctx0 C15ex.q0 0 ⟨[0, 0], [default, default]⟩)
    (fun new => new.sizes.length = 2 ∧ ∀ s ∈ new.sizes, s = 1 / 4) :=
  @C15_fixed_sizes_as_given ℚ _ _ _ Unit C15ex.halfGen C15ex.T0
    C15ex.halfGen_unit _ _ _ _ _ _ _ _ (0, 10) 0 (1 / 4)
    C15ex.locals0 (by decide) rfl rfl (by norm_num)

end Gwb
